"""Shared driver code for the per-property checks (bin/check).

Contract (MANIFEST.json): exit 0 = property held on everything explored (known
findings allowed), exit 1 + `VIOLATION property=<id> replay=<path>` lines = a
trace recorded from the real code was rejected by the property-level spec,
exit 2 = tool trouble (never an alarm)."""
import hashlib
import json
import os
import re
import subprocess
import sys
import time

VERIF = os.path.dirname(os.path.dirname(os.path.abspath(__file__)))
SPEC = os.path.join(VERIF, "spec")
# (KV_OUT_DIR: a scratch directory of its own for a developer run that must not disturb a check running in /verif/out)
OUT = os.environ.get("KV_OUT_DIR") or os.path.join(VERIF, "out")
HARNESS = os.environ.get("KV_HARNESS_DIR", os.path.join(VERIF, "harness"))   # (KV_HARNESS_DIR: developer tool bin/seedtest only)
TARGET = os.environ.get("KV_TARGET_DIR", os.path.join(HARNESS, "target"))
BIN = os.path.join(TARGET, "debug")
JAR = "/opt/veriftools/tla/tla2tools.jar"


class ToolError(Exception):
    pass


def log(*a):
    print(*a, flush=True)


def seed():
    try:
        return int(os.environ.get("VERIF_SEED", "1"))
    except ValueError:
        return 1


def sh(cmd, timeout, cwd=VERIF, env=None, ok_codes=(0,)):
    e = dict(os.environ)
    if env:
        e.update(env)
    # (own process group: on a time-out the whole tree goes - `tlc` is a wrapper script whose java child would live on)
    import signal
    proc = subprocess.Popen(cmd, cwd=cwd, env=e, stdout=subprocess.PIPE, stderr=subprocess.STDOUT, text=True, errors="replace",
                            start_new_session=True)
    try:
        out, _ = proc.communicate(timeout=timeout)
    except subprocess.TimeoutExpired as ex:
        try:
            os.killpg(proc.pid, signal.SIGKILL)
        except OSError:
            pass
        proc.communicate()
        raise ToolError("timeout after %ss: %s" % (timeout, " ".join(cmd[:6]))) from ex
    if proc.returncode not in ok_codes:
        raise ToolError("exit %s from %s\n%s" % (proc.returncode, " ".join(cmd[:8]), out[-3000:]))
    return out


_built = False


def build_harness():
    """always rebuild against /repo's current working tree (cargo decides what is stale)"""
    global _built
    if _built:
        return
    lock = os.path.join(HARNESS, "Cargo.lock")
    if not os.path.exists(lock):
        import shutil
        shutil.copy("/repo/Cargo.lock", lock)
    t0 = time.time()
    sh(["cargo", "build", "--offline", "-q"] + (["--bin", os.environ["KV_BIN"]] if os.environ.get("KV_BIN") else []),
       1800, cwd=HARNESS, env={"CARGO_NET_OFFLINE": "true", "CARGO_TARGET_DIR": TARGET})
    log("harness built in %.1fs" % (time.time() - t0))
    _built = True


# ----------------------------------------------------------------------------- TLC

import itertools, threading
_MD_SEQ = itertools.count()


def _metadir(tag):
    # (unique per call: several TLC runs with the same tag may be in flight in one process)
    d = os.path.join(OUT, "tlc", "%s-%d-%d" % (tag, os.getpid(), next(_MD_SEQ)))
    os.makedirs(d, exist_ok=True)
    return d


def tlc_raw(module, cfg, extra=(), workers=8, timeout=900, env=None, tag="mc", java_opts=""):
    """run TLC; returns its full output (TLC exit codes: 0 ok, 12 invariant violated, 13 property violated...)"""
    md = _metadir(tag)
    # the `tlc` wrapper on PATH carries the CommunityModules classpath
    cmd = ["tlc"] + ["-workers", str(workers), "-metadir", md, "-cleanup", "-noGenerateSpecTE"] + list(extra) + \
          ["-config", cfg, module]
    e = {}
    if java_opts:
        e["JAVA_TOOL_OPTIONS"] = java_opts
    if env:
        e.update(env)
    import shutil
    try:
        out = sh(cmd, timeout, cwd=SPEC, env=e, ok_codes=tuple(range(0, 256)))
    finally:
        # (also after a time-out: a killed TLC leaves its state files behind - tens of gigabytes for a large model)
        shutil.rmtree(md, ignore_errors=True)
    return out


def tlc_stats(out):
    st = {"generated": 0, "distinct": 0, "depth": 0, "error": None, "violated": None}
    m = re.search(r"(\d+) states generated, (\d+) distinct states found", out)
    if m:
        st["generated"], st["distinct"] = int(m.group(1)), int(m.group(2))
    m = re.search(r"depth of the complete state graph search is (\d+)", out)
    if m:
        st["depth"] = int(m.group(1))
    m = re.search(r"Invariant (\S+) is violated", out)
    if m:
        st["violated"] = m.group(1)
    m = re.search(r"Temporal propert(ies were|y \S+ was) violated", out)
    if m:
        st["violated"] = "temporal"
    if "Error:" in out and not st["violated"]:
        st["error"] = out[out.index("Error:"):][:1500]
    if "Model checking completed. No error has been found" not in out and not st["violated"] and not st["error"] \
            and "Finished in" not in out:
        st["error"] = "TLC did not finish: " + out[-800:]
    return st


def tlc_check(module, cfg, workers=8, timeout=900, expect_violation=None, tag="mc"):
    """exhaustive model checking; returns stats; raises ToolError on an unexpected result.
    expect_violation: name of an invariant that MUST be reported violated (reachability witness)."""
    out = tlc_raw(module, cfg, workers=workers, timeout=timeout, tag=tag)
    st = tlc_stats(out)
    if st["error"]:
        raise ToolError("TLC error in %s/%s: %s" % (module, cfg, st["error"]))
    if expect_violation:
        if st["violated"] != expect_violation:
            raise ToolError("vacuity: witness %s not reachable in %s/%s (%s)" % (expect_violation, module, cfg, st["violated"]))
    st["out"] = out
    return st


_BEH = re.compile(r'^<<"BEHAVIOUR", "(.*)">>$')


def behaviours(out):
    res = []
    for line in out.splitlines():
        m = _BEH.match(line.strip())
        if m:
            res.append(json.loads(json.loads('"' + m.group(1) + '"')))
    return res


def tlc_generate(module, cfg, mode, num=100, depth=40, timeout=600, tag="gen", allow_empty=False):
    """mode 'sim': random simulation; mode 'bfs': bounded exhaustive / witness search
    (a generator that yields no behaviour at all is a tool error: the replay would be vacuous)"""
    if mode == "sim":
        extra = ["-simulate", "num=%d" % num, "-depth", str(depth), "-seed", str(seed())]
        out = tlc_raw(module, cfg, extra=extra, workers=1, timeout=timeout, tag=tag)
    else:
        out = tlc_raw(module, cfg, workers=4, timeout=timeout, tag=tag)
    st = tlc_stats(out)
    if st["error"]:
        raise ToolError("TLC error while generating from %s/%s: %s" % (module, cfg, st["error"]))
    bs = behaviours(out)
    if not bs and not allow_empty:
        raise ToolError("TLC generated no behaviour from %s/%s (vacuous generator: bounds or dump condition unreachable)" % (module, cfg))
    return bs


def tlc_validate(module, cfg, trace_path, timeout=900, tag="tv"):
    """trace validation: returns (list of rejected sessions, events consumed)"""
    out = tlc_raw(module, cfg, workers=1, timeout=timeout, tag=tag,
                  env={"TRACE": trace_path},
                  java_opts="-Xss1g -Dtlc2.tool.queue.IStateQueue=StateDeque")
    bad = None
    consumed = None
    for line in out.splitlines():
        line = line.strip()
        m = re.match(r'^<<"BAD", "(.*)">>$', line)
        if m:
            bad = json.loads(json.loads('"' + m.group(1) + '"'))
        m = re.match(r'^<<"CONSUMED", (\d+), (\d+)>>$', line)
        if m:
            consumed = (int(m.group(1)), int(m.group(2)))
    if bad is None or consumed is None or consumed[0] != consumed[1] or "Error:" in out:
        raise ToolError("trace validation did not complete for %s: %s" % (trace_path, out[-2500:]))
    return bad, consumed[0]


# ----------------------------------------------------------------------------- harness

def run_kv(driver, scen_path, trace_path, extra=(), timeout=1200):
    build_harness()
    out = sh([os.path.join(BIN, driver), "--in", scen_path, "--out", trace_path] + list(extra), timeout, ok_codes=(0,))
    return out


def write_ndjson(path, items):
    os.makedirs(os.path.dirname(path), exist_ok=True)
    with open(path, "w") as f:
        for it in items:
            f.write(json.dumps(it, separators=(",", ":")) + "\n")


def read_ndjson(path):
    with open(path) as f:
        return [json.loads(l) for l in f if l.strip()]


def sessions_of(trace):
    ss = {}
    for e in trace:
        ss.setdefault(e["s"], []).append(e)
    return ss


# ----------------------------------------------------------------------------- findings / evidence

def load_known():
    p = os.path.join(VERIF, "known_findings.json")
    if not os.path.exists(p):
        return []
    return json.load(open(p)).get("findings", [])


def match_known(prop, rej, session_events, known):
    """a rejection is a known finding iff some entry's signature matches it"""
    cfg = session_events[0] if session_events else {}
    ev = next((e for e in session_events if e.get("i") == rej.get("i")), {})
    for k in known:
        if k.get("property") != prop or k.get("status") != "open":
            continue
        sig = k.get("signature", {})
        if "reason" in sig and sig["reason"] != rej.get("reason"):
            continue
        if "action" in sig and sig["action"] != rej.get("a"):
            continue
        ok = True
        for key, val in sig.get("session", {}).items():
            if cfg.get(key) != val:
                ok = False
        for key, val in sig.get("event", {}).items():
            if ev.get(key) != val:
                ok = False
        if ok:
            return k
    return None


def behaviour_hash(b):
    return hashlib.sha1(json.dumps(b, sort_keys=True).encode()).hexdigest()


class Result:
    def __init__(self, prop, tier, level):
        self.prop, self.tier, self.level = prop, tier, level
        self.t0 = time.time()
        self.states = 0
        self.transitions = 0
        self.traces = 0
        self.events = 0
        self.evaluations = 0
        self.distinct = set()
        self.samples = []
        self.violations = []      # (replay path, text)
        self.known_hits = []
        self.drift = []
        self.notes = {}
        self.assumptions = []
        self.mc_runs = []

    def add_mc(self, name, st):
        self.states += st["distinct"]
        self.transitions += st["generated"]
        self.mc_runs.append({"model": name, "distinct_states": st["distinct"], "states_generated": st["generated"],
                             "depth": st["depth"]})

    def finish(self, rule, explanation=""):
        ev = {
            "property_id": self.prop, "tier": self.tier, "seed": seed(), "level": self.level,
            "coverage": {
                "states": self.states, "transitions": self.transitions,
                "traces_validated_against_impl": self.traces,
                "samples": self.samples[:5] or ["(none)"],
                "evaluations": max(self.evaluations, 1),
                "distinct_nontrivial": len(self.distinct),
                "rule": rule,
                "events_validated": self.events,
                "model_checking_runs": self.mc_runs,
                "model_conforms": not self.drift,
                "model_drift": self.drift[:10],
                "known_findings_hit": sorted(set(self.known_hits)),
                "explanation": explanation,
            },
            "assumptions": self.assumptions,
            "wall_s": round(time.time() - self.t0, 2),
            "violations": len(self.violations),
        }
        ev["coverage"].update(self.notes)
        # (KV_EVIDENCE_DIR: developer tool bin/seedtest only - runs against a changed library must not overwrite the evidence)
        evdir = os.environ.get("KV_EVIDENCE_DIR", os.path.join(VERIF, "evidence"))
        os.makedirs(evdir, exist_ok=True)
        with open(os.path.join(evdir, self.prop + ".json"), "w") as f:
            json.dump(ev, f, indent=1)
        for d in self.drift[:10]:
            log("MODEL-DRIFT property=%s %s" % (self.prop, json.dumps(d)[:300]))
        for k in sorted(set(self.known_hits)):
            log("KNOWN-FINDING: property=%s %s" % (self.prop, k))
        for path, text in self.violations[:20]:
            log("VIOLATION property=%s replay=%s" % (self.prop, path))
            log("  " + text)
        log("%s %s: states=%d traces=%d events=%d violations=%d known=%d drift=%d wall=%.1fs" % (
            self.prop, self.tier, self.states, self.traces, self.events, len(self.violations),
            len(set(self.known_hits)), len(self.drift), time.time() - self.t0))
        return 1 if self.violations else 0


def write_replay(prop, scenario, rejection, session_events):
    d = os.path.join(OUT, "replays")
    os.makedirs(d, exist_ok=True)
    h = behaviour_hash(scenario)[:10]
    p = os.path.join(d, "%s-%s.json" % (prop, h))
    with open(p, "w") as f:
        json.dump({"property": prop, "scenario": scenario, "rejection": rejection,
                   "trace": session_events}, f, indent=1)
    return p


def judge(res, prop, scenarios, trace_path, bad):
    """turn TLC's rejected sessions into violations / known findings; scenarios[k] is session k+1"""
    trace = read_ndjson(trace_path)
    ss = sessions_of(trace)
    res.traces += len(ss)
    res.events += len(trace)
    known = load_known()
    for rej in bad:
        sid = rej["s"]
        evs = ss.get(sid, [])
        k = match_known(prop, rej, evs, known)
        if k:
            res.known_hits.append(k["what"])
            continue
        sc = scenarios[sid - 1] if 0 < sid <= len(scenarios) else {}
        path = write_replay(prop, sc, rej, evs)
        res.violations.append((path, "session %s event %s (%s): %s" % (sid, rej.get("i"), rej.get("a"), rej.get("reason"))))
