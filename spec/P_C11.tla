------------------------------ MODULE P_C11 ------------------------------
(* Property-level specification of C11 (rendered audio does not depend on   *)
(* buffer sizes), from the statement.  One session = one scene with fixed   *)
(* parameters rendered several times:                                       *)
(*   render k b part bits q7   rendering number k with internal buffer b    *)
(*        and callback partition `part`; bits = output samples as f32 bit   *)
(*        patterns, q7 = round(sample * 10^7)                               *)
(* Rendering 1 is the reference.  Bit-for-bit equality is demanded unless   *)
(* the scene contains a recursive effect (filter, EQ, delay, reverb,        *)
(* compressor), where 1e-6 is allowed: 10 units of 1e-7 plus 1 for rounding.*)
EXTENDS Integers, Sequences

PInit(recursive) == [recursive |-> recursive, ref |-> <<>>, refq |-> <<>>]
Abs(x) == IF x < 0 THEN -x ELSE x

Check(m, e) ==
  CASE e.a = "render" ->
         IF e.panicked THEN "no_panic"
         ELSE IF e.k = 1 THEN ""
         ELSE IF Len(e.bits) # Len(m.ref) THEN "same_number_of_frames"
         ELSE IF ~m.recursive /\ e.bits # m.ref THEN "bit_for_bit_equal"
         ELSE IF m.recursive /\ \E i \in 1..Len(e.q7) : Abs(e.q7[i] - m.refq[i]) > 11 THEN "equal_within_1e-6"
         ELSE ""
    [] OTHER -> ""
Upd(m, e) == IF e.a = "render" /\ e.k = 1 THEN [m EXCEPT !.ref = e.bits, !.refq = e.q7] ELSE m
=============================================================================
