----------------------------- MODULE Streaming -----------------------------
(* Implementation-level model of how a streaming sound's decoder thread      *)
(* turns a packet decoder into the frame sequence a static sound would play  *)
(*   crates/kira/src/sound/streaming/sound/decode_scheduler.rs               *)
(*     (new: initial seek; run: frame_at_index + push + increment_position;  *)
(*      frame_at_index: slice offset, decoded-chunk reuse, backward seek,    *)
(*      forward decode loop)                                                 *)
(*   crates/kira/src/sound/transport.rs (increment_position with loop wrap)  *)
(* against the reference played-index sequence (the one C04 checks for the   *)
(* static sound): start, start+1, ..., wrapping from loop end to loop start. *)
(* The decoder is adversarial within its contract: packets of any size in    *)
(* Packets, seeks that land up to MaxEarly frames before the request.        *)
EXTENDS Integers, Sequences, FiniteSets, TLC

CONSTANTS Total,      \* frames in the decoder's stream
          Packets,    \* possible packet sizes
          MaxEarly,   \* a seek may land this many frames early
          MaxOut,     \* frames to produce
          MaxSeeks    \* seek_to commands read by the decoder thread during the run

VARIABLES slice,      \* <<lo, hi>> within the stream
          loop,       \* <<ls, le>> or <<-1, -1>> (no loop), relative to the slice
          tpos, playing,           \* transport
          dreal,                   \* the decoder's true position
          dbel,                    \* decoder_current_frame_index (what the scheduler believes)
          clo, chunk,              \* decoded chunk: start index and its frames (true stream indices)
          out,                     \* pushed frames: <<transport index, stream index delivered>>
          ref,                     \* reference transport sequence
          seeks,                   \* <<number of frames pushed before the seek, index asked for>> per seek_to command
          phase

vars == <<slice, loop, tpos, playing, dreal, dbel, clo, chunk, out, ref, seeks, phase>>
NumFrames == slice[2] - slice[1]

Init ==
  /\ slice \in {s \in (0..Total) \X (0..Total) : s[1] < s[2]}
  /\ \E ls \in 0..(slice[2] - slice[1] - 1), le \in 1..(slice[2] - slice[1]) :
        loop \in {<<-1, -1>>} \cup (IF ls < le THEN {<<ls, le>>} ELSE {})
  /\ tpos \in 0..(slice[2] - slice[1] - 1)                \* start position inside the slice
  /\ (loop[1] # -1 => tpos < loop[2])                      \* (start after the loop end is left open by the docs)
  /\ playing = TRUE
  /\ dreal = 0 /\ dbel = 0 /\ clo = 0 /\ chunk = <<>> /\ out = <<>> /\ ref = <<>> /\ seeks = <<>>
  /\ phase = "seek0"

\* DecodeScheduler::new: decoder.seek(start_position); note: NOT offset by the slice start (as the code does)
Seek0 ==
  /\ phase = "seek0"
  /\ \E early \in 0..MaxEarly :
       LET land == IF tpos - early < 0 THEN 0 ELSE tpos - early IN
       dreal' = land /\ dbel' = land
  /\ phase' = "run"
  /\ UNCHANGED <<slice, loop, tpos, playing, clo, chunk, out, ref, seeks>>

InChunk(i) == i >= clo /\ i < clo + Len(chunk)

\* frame_at_index, first half: backward seek when the wanted frame lies before the decoder
NeedSeek == LET want == slice[1] + tpos IN ~InChunk(want) /\ want < dbel
BackSeek ==
  /\ phase = "run" /\ playing /\ Len(out) < MaxOut /\ NeedSeek
  /\ LET want == slice[1] + tpos IN
     \E early \in 0..MaxEarly :
       LET land == IF want - early < 0 THEN 0 ELSE want - early IN
       dreal' = land /\ dbel' = land
  /\ phase' = "decode"
  /\ UNCHANGED <<slice, loop, tpos, playing, clo, chunk, out, ref, seeks>>

\* one iteration of the forward decode loop
Decode ==
  /\ phase \in {"run", "decode"} /\ playing /\ Len(out) < MaxOut
  /\ LET want == slice[1] + tpos IN ~InChunk(want) /\ (phase = "decode" \/ ~NeedSeek)
  /\ \E p \in Packets :
       LET n == IF dreal + p > Total THEN Total - dreal ELSE p IN
       /\ n > 0
       /\ chunk' = [j \in 1..n |-> dreal + j - 1]
       /\ clo' = dbel
       /\ dbel' = dbel + n /\ dreal' = dreal + n
  /\ phase' = "decode"
  /\ UNCHANGED <<slice, loop, tpos, playing, out, ref, seeks>>

\* the wanted frame is in the chunk: push it and advance the transport
Push ==
  /\ phase \in {"run", "decode"} /\ playing /\ Len(out) < MaxOut
  /\ LET want == slice[1] + tpos IN
     /\ InChunk(want)
     /\ out' = Append(out, <<tpos, chunk[want - clo + 1]>>)
  /\ ref' = Append(ref, tpos)
  /\ LET p1 == tpos + 1
         p2 == IF loop[1] # -1 /\ p1 >= loop[2] THEN p1 - (loop[2] - loop[1]) ELSE p1 IN
     /\ tpos' = p2
     /\ playing' = (p2 < NumFrames)
  /\ phase' = "run"
  /\ UNCHANGED <<slice, loop, dreal, dbel, clo, chunk, seeks>>

\* a seek_to command read at the top of run(): Transport::seek_to (wrapped into the loop region in the direction of
\* the jump), then decoder.seek(index) - with the transport index, not offset by the slice start, as the code does;
\* frame_at_index sorts that out afterwards (backward seek or forward decode)
RECURSIVE WrapDown(_, _, _), WrapUp(_, _, _)
WrapDown(x, le, len) == IF x >= le THEN WrapDown(x - len, le, len) ELSE x
WrapUp(x, ls, len) == IF x < ls THEN WrapUp(x + len, ls, len) ELSE x
SeekTarget(x) == IF loop[1] = -1 THEN x
                 ELSE IF x > tpos THEN WrapDown(x, loop[2], loop[2] - loop[1]) ELSE WrapUp(x, loop[1], loop[2] - loop[1])
SeekTo(x) ==
  /\ phase = "run" /\ playing /\ Len(out) < MaxOut /\ Len(seeks) < MaxSeeks
  /\ LET p == SeekTarget(x) IN
     /\ tpos' = p /\ playing' = (p < NumFrames)
     /\ seeks' = Append(seeks, <<Len(out), p>>)
     /\ \E early \in 0..MaxEarly :
          LET land == IF p - early < 0 THEN 0 ELSE p - early IN
          dreal' = land /\ dbel' = land
  /\ UNCHANGED <<slice, loop, clo, chunk, out, ref, phase>>

Next == Seek0 \/ BackSeek \/ Decode \/ Push \/ (\E x \in 0..(NumFrames - 1) : SeekTo(x))
Spec == Init /\ [][Next]_vars

\* ---- checked formulas
\* every pushed frame carries the audio of the frame the transport asked for
Faithful == \A j \in 1..Len(out) : out[j][2] = slice[1] + out[j][1]
\* the scheduler's belief about the decoder position is always right
BeliefExact == dbel = dreal
\* the transport sequence is the reference: consecutive, wrapping from loop end to loop start, inside the slice
RefStep(a, b) == IF loop[1] # -1 /\ a + 1 >= loop[2] THEN b = a + 1 - (loop[2] - loop[1]) ELSE b = a + 1
SeekAfter(j) == \E k \in 1..Len(seeks) : seeks[k][1] = j
TransportIsReference == /\ \A j \in 1..Len(out) : out[j][1] >= 0 /\ out[j][1] < NumFrames
                        /\ \A j \in 1..(Len(out) - 1) : SeekAfter(j) \/ RefStep(out[j][1], out[j + 1][1])
\* the first frame pushed after a seek is the frame asked for by the last seek read before it
SeekLands == \A j \in 0..(Len(out) - 1) : SeekAfter(j) =>
               LET ks == {k \in 1..Len(seeks) : seeks[k][1] = j}
                   last == CHOOSE k \in ks : \A h \in ks : h <= k IN
               out[j + 1][1] = seeks[last][2]
\* the forward decode loop cannot run for ever: the wanted frame is never behind an un-seekable position
Progress == (phase = "decode" /\ playing /\ ~InChunk(slice[1] + tpos)) => (slice[1] + tpos >= dbel /\ dreal < Total)
W_Wrap == ~(\E j \in 1..(Len(out) - 1) : out[j + 1][1] < out[j][1])
W_Seek == seeks = <<>>
W_BackSeek == phase # "decode" \/ dbel >= clo
=============================================================================
