------------------------------- MODULE T_C06I -------------------------------
EXTENDS Integers, Sequences, FiniteSets, TLC, Json, IOUtils, P_C06I
Rec == ndJsonDeserialize(IOEnv.TRACE)
VARIABLES l, mon, mode, bad
tvars == <<l, mon, mode, bad>>
TInit == l = 1 /\ mon = PInit([b |-> 1, d |-> 1, from |-> 0, to |-> 0, frz |-> FALSE, free |-> FALSE]) /\ mode = "skip" /\ bad = <<>>
TNext ==
  /\ l <= Len(Rec)
  /\ l' = l + 1
  /\ LET e == Rec[l] IN
     IF e.a = "reset" THEN mon' = PInit([b |-> e.b, d |-> e.d, from |-> e.from, to |-> e.to, frz |-> e.frz, free |-> ("free" \in DOMAIN e /\ e.free)]) /\ mode' = "ok" /\ bad' = bad
     ELSE IF mode = "skip" \/ e.a = "end" THEN UNCHANGED <<mon, mode, bad>>
     ELSE LET r == Check(mon, e) IN
          IF r = "" THEN mon' = Upd(mon, e) /\ UNCHANGED <<mode, bad>>
          ELSE /\ mode' = "skip" /\ UNCHANGED mon
               /\ bad' = Append(bad, [s |-> e.s, i |-> e.i, a |-> e.a, reason |-> r])
TSpec == TInit /\ [][TNext]_tvars
Done == l = Len(Rec) + 1
Report == Done => /\ PrintT(<<"BAD", ToJson(bad)>>)
                  /\ PrintT(<<"CONSUMED", l - 1, Len(Rec)>>)
=============================================================================
