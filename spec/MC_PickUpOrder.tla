--------------------------- MODULE MC_PickUpOrder ---------------------------
EXTENDS PickUpOrder
\* Renderer::on_start_processing
OrderCode == <<"mixer", "clocks", "listeners", "modulators">>
\* the same as the order of process_chunk (a variant: rejected)
OrderReversed == <<"modulators", "clocks", "listeners", "mixer">>
\* who reads whom: sounds and tracks read clocks (start times), listeners (spatial tracks) and modulators (linked
\* parameters); clock speeds and listener positions can be linked to modulators
EdgesCode == {<<"mixer", "clocks">>, <<"mixer", "listeners">>, <<"mixer", "modulators">>,
              <<"clocks", "modulators">>, <<"listeners", "modulators">>}
=============================================================================
