\* Render quick (the same constants as checks/c17.py, tier quick; ~260 000 distinct states, ~20 s with 4 workers):
\* 2 slots, 3 modulators (probe that may read an earlier modulator / tweener / saw LFO at 1 Hz whose amplitude may be
\* linked), 2 linked parameters (owner mixer or clock), mappings (0,1)->(0,2) linear and (0,1)->(2,0) InPowi(2),
\* sets (2 over 4 frames linear | 0 at once), internal buffer 2, callbacks of 3 frames (chunks 2 + 1), <= 3 callbacks,
\* <= 4 gameplay calls (<= 3 between two callbacks)
SPECIFICATION Spec
CONSTANTS
  S = 4096
  Mods = {1, 2, 3}
  Params = {1, 2}
  NS = 2
  B = 2
  Fs = {3}
  MaxCb = 3
  MaxOps = 4
  Gap = 3
  Kinds = {"probe", "tw", "lfo"}
  ProbeSrc = TRUE
  TwInits = {0}
  TwSets <- SetsB
  Waves = {"saw"}
  Ph0s = {0}
  Freqs = {4}
  LfoRoles = {"am"}
  Maps <- MapsB
  Owners = {"mix", "clock"}
  AllowSelf = FALSE
  AllowLate = FALSE
VIEW View
INVARIANTS PropertyHolds TypeOK OnceInOrder StaleNeverResolves KeysUnique ExactArith FollowsInChunk
CHECK_DEADLOCK FALSE
