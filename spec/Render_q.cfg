\* Render quick: 2 slots, 3 modulators (probe with source / tweener / LFO saw, amplitude or frequency linked),
\* 2 linked parameters (mixer and clock), buffer 2, callbacks of 1 or 3 frames, <= 3 callbacks, <= 5 gameplay calls
SPECIFICATION Spec
CONSTANTS
  S = 4096
  Mods = {1, 2, 3}
  Params = {1, 2}
  NS = 2
  B = 2
  Fs = {1, 3}
  MaxCb = 3
  MaxOps = 5
  Gap = 3
  Kinds = {"probe", "tw", "lfo"}
  ProbeSrc = TRUE
  TwInits = {0}
  TwSets <- SetsB
  Waves = {"saw"}
  Ph0s = {0}
  Freqs = {4}
  LfoRoles = {"am"}
  Maps <- MapsB
  Owners = {"mix", "clock"}
  AllowSelf = FALSE
  AllowLate = FALSE
VIEW View
INVARIANTS PropertyHolds TypeOK OnceInOrder StaleNeverResolves KeysUnique ExactArith FollowsInChunk
CHECK_DEADLOCK FALSE
