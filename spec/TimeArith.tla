----------------------------- MODULE TimeArith -----------------------------
(* Clock-time arithmetic, input mapping and integer-power easings of kira   *)
(* in exact fixed point / exact rationals (property C19).                   *)
(*                                                                          *)
(* Part R (reference, written from the property statement and the rustdoc): *)
(*   a clock time is <<ticks, frac>> with frac counted in 1/q of a tick,    *)
(*   0 <= frac < q.  Adding an amount adds it; subtracting subtracts it and *)
(*   stops at time zero instead of wrapping; a negative amount is handled   *)
(*   by the opposite operator; order is the order of ticks*q + frac.        *)
(* Part C (code, written from crates/kira/src/clock/time.rs, value.rs,      *)
(*   tween.rs): the same operators computed the way the source computes     *)
(*   them (fract / trunc / ceil / saturating_sub, x.powi(p), ...).          *)
(*                                                                          *)
(* Everything is a pure operator; MC_TimeArith tabulates them over a grid   *)
(* and TLC checks the laws, T_C19 evaluates them on the inputs recorded     *)
(* from the real library.  q is a parameter so that one module serves the   *)
(* exhaustive grid (q = 8) and the sampled finer grids (q = 1024).          *)
EXTENDS Integers, Sequences

Max2(a, b) == IF a >= b THEN a ELSE b
Min2(a, b) == IF a <= b THEN a ELSE b
Abs(a)     == IF a >= 0 THEN a ELSE -a
Sign(a)    == IF a > 0 THEN 1 ELSE IF a < 0 THEN -1 ELSE 0

RECURSIVE Pow(_, _)
Pow(b, p) == IF p = 0 THEN 1 ELSE b * Pow(b, p - 1)

-----------------------------------------------------------------------------
(* Part R: reference semantics of clock times                               *)

Val(q, t)     == t[1] * q + t[2]                 \* the time in 1/q ticks
FromVal(q, v) == <<v \div q, v % q>>             \* v >= 0
WellFormed(q, t) == t[1] >= 0 /\ t[2] >= 0 /\ t[2] < q

AddPos(q, t, a) == FromVal(q, Val(q, t) + a)                      \* a >= 0
SubPos(q, t, a) == IF a <= Val(q, t) THEN FromVal(q, Val(q, t) - a)
                   ELSE <<0, 0>>                                  \* a >= 0: stops at zero
AddF(q, t, a) == IF a >= 0 THEN AddPos(q, t, a) ELSE SubPos(q, t, -a)
SubF(q, t, a) == IF a >= 0 THEN SubPos(q, t, a) ELSE AddPos(q, t, -a)
AddU(q, t, n) == <<t[1] + n, t[2]>>                               \* whole ticks
SubU(q, t, n) == IF n <= t[1] THEN <<t[1] - n, t[2]>> ELSE <<0, 0>>
Cmp(q, t, u)  == Sign(Val(q, t) - Val(q, u))                      \* -1, 0, 1
FromTicksF(q, v) == FromVal(q, v)                                 \* v >= 0 in 1/q ticks

\* the amount is larger than the time it is subtracted from
Underflows(q, t, a) == a > Val(q, t)

-----------------------------------------------------------------------------
(* Part C: the operators as clock/time.rs computes them                     *)

\* f64::fract / trunc of x/q: truncation toward zero, remainder keeps the sign of x
TruncDiv(x, q) == IF x >= 0 THEN x \div q ELSE -((-x) \div q)
TruncRem(x, q) == IF x >= 0 THEN x % q ELSE -((-x) % q)
\* (y/q).ceil() as u64: negative results saturate to 0
CeilU64(y, q)  == IF y <= 0 THEN 0 ELSE (y + q - 1) \div q

\* impl Add<f64>:  fraction = (self.fraction + ticks).fract();
\*                 ticks    = self.ticks + (self.fraction + ticks).trunc() as u64
CAddPos(q, t, a) == <<t[1] + TruncDiv(t[2] + a, q), TruncRem(t[2] + a, q)>>
\* impl Sub<f64>:  fraction = ((self.fraction - ticks).fract() + 1.0) % 1.0;
\*                 ticks    = self.ticks.saturating_sub((ticks - self.fraction).ceil() as u64)
CSubPos(q, t, a) == << Max2(0, t[1] - CeilU64(a - t[2], q)),
                       (TruncRem(t[2] - a, q) + q) % q >>
CAddF(q, t, a) == IF a < 0 THEN CSubPos(q, t, -a) ELSE CAddPos(q, t, a)   \* is_sign_negative dispatch
CSubF(q, t, a) == IF a < 0 THEN CAddPos(q, t, -a) ELSE CSubPos(q, t, a)
\* impl Add<u64> / Sub<u64>: plain `+` / `-` on u64 (the latter overflows when n > ticks:
\* a panic with overflow checks, a wrap to 2^64 - k without) - modelled as the value "overflow"
CAddU(q, t, n) == <<t[1] + n, t[2]>>
CSubUOverflows(t, n) == n > t[1]
CSubU(q, t, n) == <<t[1] - n, t[2]>>                               \* only when ~CSubUOverflows
\* the same with `fixed` = TRUE standing for a repaired source whose subtraction stops at time zero
MSubPos(fixed, q, t, a) == IF fixed /\ Underflows(q, t, a) THEN <<0, 0>> ELSE CSubPos(q, t, a)
MAddF(fixed, q, t, a) == IF a < 0 THEN MSubPos(fixed, q, t, -a) ELSE CAddPos(q, t, a)
MSubF(fixed, q, t, a) == IF a < 0 THEN CAddPos(q, t, -a) ELSE MSubPos(fixed, q, t, a)
\* impl PartialOrd: ticks first, then fraction
CCmp(q, t, u) == IF t[1] # u[1] THEN Sign(t[1] - u[1]) ELSE Sign(t[2] - u[2])
\* from_ticks_f64: ticks as u64, ticks.fract()
CFromTicksF(q, v) == <<TruncDiv(v, q), TruncRem(v, q)>>

-----------------------------------------------------------------------------
(* Rationals <<n, d>> (d > 0), used for easing amounts on a grid            *)

\* Easing codes: 0 Linear, 1 InPowi, 2 OutPowi, 3 InOutPowi  (tween.rs Easing::apply),
\* x = <<n, d>> with 0 <= n <= d; the result is a rational over a power of d.
Ease(kind, p, x) ==
  LET n == x[1]  d == x[2]  dp == Pow(d, p) IN
  CASE kind = 0 -> <<n, d>>
    [] kind = 1 -> <<Pow(n, p), dp>>
    [] kind = 2 -> <<dp - Pow(d - n, p), dp>>                \* 1 - (1-x)^p
    [] kind = 3 -> IF 2 * n < d THEN <<Pow(2 * n, p), 2 * dp>>                 \* 0.5 * (2x)^p
                   ELSE <<2 * dp - Pow(2 * d - 2 * n, p), 2 * dp>>             \* 0.5*(1-(2-2x)^p)+0.5

\* (equal denominators are compared directly: the cross products may exceed 32 bits)
RatLe(x, y) == IF x[2] = y[2] THEN x[1] <= y[1] ELSE x[1] * y[2] <= y[1] * x[2]
RatEq(x, y) == x[1] * y[2] = y[1] * x[2]

\* Mapping::map: amount = clamp((input - lo) / (hi - lo), 0, 1), lo < hi, all in 1/g units
Amount(lo, hi, x) == <<Min2(Max2(x - lo, 0), hi - lo), hi - lo>>
\* value of a rational in 1/sc units when that is an integer (d divides sc)
Scaled(x, sc) == x[1] * (sc \div x[2])
ScaledExact(x, sc) == sc % x[2] = 0
\* Tweenable::interpolate(a, b, amount) = a + (b - a) * amount with a, b in 1/sc units, multiples of x[2]
Interp(a, b, x) == a + ((b - a) \div x[2]) * x[1]
MapRef(kind, p, lo, hi, olo, ohi, x) == Interp(olo, ohi, Ease(kind, p, Amount(lo, hi, x)))

-----------------------------------------------------------------------------
(* ClockSpeed at dyadic values: speed = 2^k ticks per second, -10 <= k <= 10 *)
\* 2^k * 1024 as an integer
Dy(k) == IF k >= 0 THEN 1024 * Pow(2, k) ELSE 1024 \div Pow(2, -k)
TicksPerSecond1024(k) == Dy(k)
SecondsPerTick1024(k) == Dy(-k)
TicksPerMinute1024(k) == 60 * Dy(k)
\* a speed of 2^k ticks per second expressed in unit u (0 seconds per tick, 1 ticks per second, 2 ticks per minute), * 1024
InUnit1024(u, k) == CASE u = 0 -> Dy(-k) [] u = 1 -> Dy(k) [] OTHER -> 60 * Dy(k)
\* Tweenable for ClockSpeed (clock_speed.rs): the start is converted to the unit of the target and the tween is linear
\* in that unit; q quarters of the way from 2^k1 to 2^k2 ticks per second, result in unit u2, * 1024
SpeedInterp1024(u2, k1, k2, q) == (InUnit1024(u2, k1) * (4 - q) + InUnit1024(u2, k2) * q) \div 4
\* ... and that result in ticks per second * 1024 (rounded down)
SpeedInterpTps1024(u2, k1, k2, q) ==
  LET r == SpeedInterp1024(u2, k1, k2, q)
  IN CASE u2 = 0 -> (1024 * 1024) \div r [] u2 = 1 -> r [] OTHER -> r \div 60
=============================================================================
