SPECIFICATION Spec
CONSTANTS
  Scenes <- QuickScenes
  Bs = {1, 2, 3}
  Ns = {1, 3, 4}
  MaxOps = 2
  MaxCb = 3
VIEW View
INVARIANTS PropertyHolds SendInputCleared
CHECK_DEADLOCK FALSE
