------------------------------- MODULE T_C19 -------------------------------
(* Trace validation for C19: every evaluation recorded from the real        *)
(* library (harness driver `c19`) is judged by the property-level monitor   *)
(* P_C19 (rejections are printed as BAD) and, independently, compared with  *)
(* the model of the source in TimeArith part C (differences are printed as  *)
(* DRIFT: the model no longer describes the code; not an alarm).            *)
(* Evaluations are independent of each other, so validation never skips:    *)
(* every rejected event of every session is reported (BADEV / DRIFTEV lines).*)
EXTENDS P_C19, TLC, Json, IOUtils

CONSTANT Fixed      \* which source the drift comparison expects (see MC_TimeArith)

Rec == ndJsonDeserialize(IOEnv.TRACE)

VARIABLES l, mon, bad, drift
tvars == <<l, mon, bad, drift>>

\* "" or how the observation differs from the model of the source
Drift(m, e) ==
  CASE e.a = "add_f" ->
         LET r == MAddF(Fixed, e.q, T1(e), e.am) IN
         IF e.p \/ e.bp THEN "panic"
         ELSE IF ~e.rx \/ R1(e) # r THEN "add_f"
         ELSE IF ~e.bx \/ <<e.bt, e.bf>> # MSubF(Fixed, e.q, r, e.am) THEN "add_f then sub_f" ELSE ""
    [] e.a = "sub_f" -> IF e.p THEN "panic" ELSE IF ~e.rx \/ R1(e) # MSubF(Fixed, e.q, T1(e), e.am) THEN "sub_f" ELSE ""
    [] e.a = "add_u" -> IF e.p THEN "panic" ELSE IF ~e.rx \/ R1(e) # CAddU(e.q, T1(e), e.n) THEN "add_u" ELSE ""
    [] e.a = "sub_u" ->
         IF CSubUOverflows(T1(e), e.n) /\ ~Fixed THEN (IF e.p THEN "" ELSE "sub_u no longer overflows")
         ELSE IF e.p THEN "panic"
         ELSE IF ~e.rx \/ R1(e) # <<Max2(0, e.t - e.n), e.f>> THEN "sub_u" ELSE ""
    [] e.a = "cmp" -> IF e.p THEN "panic" ELSE IF e.c # CCmp(e.q, T1(e), <<e.t2, e.f2>>) THEN "cmp" ELSE ""
    [] e.a = "from_f" -> IF e.p THEN "panic" ELSE IF ~e.rx \/ R1(e) # CFromTicksF(e.q, e.v) THEN "from_f" ELSE ""
    [] e.a = "map" ->
         IF ~m.cfg.exact THEN ""
         ELSE IF e.p THEN "panic"
         ELSE IF ~e.yx \/ e.y # MapRef(m.cfg.ek, m.cfg.pw, m.cfg.lo, m.cfg.hi, m.cfg.olo, m.cfg.ohi, e.x) THEN "map" ELSE ""
    [] e.a = "speed_i" ->
         IF e.p THEN "panic"
         ELSE IF ~e.ex \/ e.ru # e.u2 \/ e.r # SpeedInterp1024(e.u2, e.k1, e.k2, e.q) THEN "speed_i" ELSE ""
    [] OTHER -> ""

\* rejections are printed as they occur (the state keeps only their number, so that validation stays
\* linear in the trace length however many there are)
Say(tag, rec) == PrintT(<<tag, ToJson(rec)>>)

TInit == l = 1 /\ mon = PInit([kind |-> "none"]) /\ bad = 0 /\ drift = 0
TNext ==
  /\ l <= Len(Rec)
  /\ l' = l + 1
  /\ LET e == Rec[l] IN
     IF e.a = "reset" THEN mon' = PInit(e) /\ UNCHANGED <<bad, drift>>
     ELSE LET r == Check(mon, e)  d == Drift(mon, e) IN
          /\ mon' = Upd(mon, e)
          /\ IF r = "" THEN bad' = bad
             ELSE bad' = bad + 1 /\ Say("BADEV", [s |-> e.s, i |-> e.i, a |-> e.a, reason |-> r])
          /\ IF d = "" THEN drift' = drift
             ELSE drift' = drift + 1 /\ Say("DRIFTEV", [s |-> e.s, i |-> e.i, a |-> e.a, what |-> d])
TSpec == TInit /\ [][TNext]_tvars

\* acceptance: the whole file was consumed
Done == l = Len(Rec) + 1
Report == Done => PrintT(<<"CONSUMED", l - 1, Len(Rec), bad, drift>>)
=============================================================================
