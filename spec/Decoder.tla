------------------------------ MODULE Decoder ------------------------------
(* Implementation-level model of a streaming sound and its decoder thread   *)
(*   crates/kira/src/sound/streaming/sound/decode_scheduler.rs (start, run, *)
(*   frame_at_index), sound/streaming/sound.rs (on_start_processing,        *)
(*   process), sound/streaming/data.rs (into_sound starts the thread before *)
(*   the sound is handed to the track), the track's removal of a finished   *)
(*   sound, and the handle (stop, pop_error).  Rate 1, no loop, no seeks.   *)
(* Decoder thread steps are the stretches between its yield points          *)
(* (dec.top / dec.wait / dec.err / dec.end.xxx); with Replayable = FALSE the *)
(* final push and the flag stores are separate steps and the callback is    *)
(* split per output frame, so that the flag/ring races are explored.        *)
EXTENDS Integers, Sequences, FiniteSets, TLC, P_C10

CONSTANTS R,          \* capacity of the frame ring (16384 in production, scaled down here)
          Len0,       \* number of frames of audio
          Pk,         \* decoder packet size
          FailAt,     \* the decoder call that fails (1 = the constructor's seek; 0 = never)
          NF,         \* frames per callback
          MaxCb, Replayable

VARIABLES ring,       \* indices in the frame ring; -1 is the pre-seeded "previous" frame
          dpos, chunkLo, chunkHi, calls,
          reachedEnd, encErr, errRing,
          sstate, stopc, pausec, loaded, consumer,   \* sound state, pending stop / pause, in the track, frame consumer alive
          dpc,        \* decoder thread: "none" | "top" | "wait" | "endsleep" | "err" | "end" | "pushed" | "errpushed" | "exited"
          apc, aleft, aout, astate0,         \* callback in progress (fine mode)
          popped, cb, lock,
          act, ev, mon, bad

ivars == <<ring, dpos, chunkLo, chunkHi, calls, reachedEnd, encErr, errRing, sstate, stopc, pausec, loaded, consumer,
           dpc, apc, aleft, aout, astate0, popped, cb, lock>>
vars == <<ivars, act, ev, mon, bad>>

Prod == dpos            \* frames pushed so far = transport position (start 0, rate 1)

Init ==
  /\ ring = <<-1>> /\ dpos = 0 /\ chunkLo = 0 /\ chunkHi = 0 /\ calls = 0
  /\ reachedEnd = FALSE /\ encErr = FALSE /\ errRing = <<>>
  /\ sstate = "Playing" /\ stopc = FALSE /\ pausec = FALSE /\ loaded = FALSE /\ consumer = FALSE
  /\ dpc = "none" /\ apc = "idle" /\ aleft = 0 /\ aout = <<>> /\ astate0 = "Playing"
  /\ popped = 0 /\ cb = 0 /\ lock = "none"
  /\ act = <<"Init">> /\ ev = [a |-> "tau"] /\ mon = PInit(R, Len0, FailAt) /\ bad = ""

\* ---------------------------------------------------------------- gameplay
\* play: the scheduler seeks to the start (decoder call 1), the thread starts, then the track accepts or rejects
Play(rejected) ==
  /\ dpc = "none" /\ cb = 0 /\ calls = 0 /\ lock = "none"
  /\ calls' = 1
  /\ act' = <<"Play", rejected>>
  /\ IF FailAt = 1
     THEN /\ ev' = [a |-> "play", ok |-> FALSE] /\ dpc' = "exited"
          /\ UNCHANGED <<loaded, consumer>>
     ELSE /\ ev' = [a |-> "play", ok |-> TRUE] /\ dpc' = "start"
          /\ loaded' = ~rejected /\ consumer' = ~rejected
  /\ UNCHANGED <<ring, dpos, chunkLo, chunkHi, reachedEnd, encErr, errRing, sstate, stopc, pausec, apc, aleft, aout, astate0, popped, cb, lock>>

Reject == \* reported right after a play that was refused
  /\ dpc = "start" /\ ~consumer /\ lock = "none"
  /\ dpc' = "start2" /\ act' = <<"Reject">> /\ ev' = [a |-> "reject"]
  /\ UNCHANGED <<ring, dpos, chunkLo, chunkHi, calls, reachedEnd, encErr, errRing, sstate, stopc, pausec, loaded, consumer, apc, aleft, aout, astate0, popped, cb, lock>>

Stop ==
  /\ loaded /\ ~stopc /\ sstate = "Playing" /\ lock = "none" /\ apc = "idle"
  /\ stopc' = TRUE /\ act' = <<"Stop">> /\ ev' = [a |-> "stop"] /\ UNCHANGED pausec
  /\ UNCHANGED <<ring, dpos, chunkLo, chunkHi, calls, reachedEnd, encErr, errRing, sstate, loaded, consumer, dpc, apc, aleft, aout, astate0, popped, cb, lock>>

\* pause with a zero-length fade (takes effect at the next callback; the sound then stays paused)
Pause ==
  /\ loaded /\ ~pausec /\ sstate = "Playing" /\ lock = "none" /\ apc = "idle"
  /\ pausec' = TRUE /\ act' = <<"Pause">> /\ ev' = [a |-> "pause"]
  /\ UNCHANGED <<ring, dpos, chunkLo, chunkHi, calls, reachedEnd, encErr, errRing, sstate, stopc, loaded, consumer, dpc, apc, aleft, aout, astate0, popped, cb, lock>>

\* a paused sound is told to resume at a clock time and the clock's handle is dropped in the same window: the wait can
\* never end, so the sound is cancelled - at the next callback it is Stopped (like stop with a zero-length fade)
WaitGone ==
  /\ loaded /\ ~stopc /\ ~pausec /\ sstate = "Paused" /\ lock = "none" /\ apc = "idle"
  /\ stopc' = TRUE /\ act' = <<"WaitGone">> /\ ev' = [a |-> "waitgone"] /\ UNCHANGED pausec
  /\ UNCHANGED <<ring, dpos, chunkLo, chunkHi, calls, reachedEnd, encErr, errRing, sstate, loaded, consumer, dpc, apc, aleft, aout, astate0, popped, cb, lock>>

\* the manager (and with it the renderer and the sound) is dropped
Discard ==
  /\ consumer /\ lock = "none" /\ apc = "idle" /\ dpc \notin {"none", "start"}
  /\ consumer' = FALSE /\ loaded' = FALSE /\ act' = <<"Discard">> /\ ev' = [a |-> "discard"]
  /\ UNCHANGED <<ring, dpos, chunkLo, chunkHi, calls, reachedEnd, encErr, errRing, sstate, stopc, pausec, dpc, apc, aleft, aout, astate0, popped, cb, lock>>

Pop ==
  /\ popped < 2 /\ lock = "none" /\ dpc # "none"
  /\ popped' = popped + 1 /\ act' = <<"Pop">>
  /\ IF errRing = <<>> THEN ev' = [a |-> "pop", msg |-> 0] /\ UNCHANGED errRing
     ELSE ev' = [a |-> "pop", msg |-> Head(errRing)] /\ errRing' = Tail(errRing)
  /\ UNCHANGED <<ring, dpos, chunkLo, chunkHi, calls, reachedEnd, encErr, sstate, stopc, pausec, loaded, consumer, dpc, apc, aleft, aout, astate0, cb, lock>>

\* ---------------------------------------------------------------- decoder thread
DStart == \* the new thread reaches its first dec.top
  /\ dpc \in {"start", "start2"} /\ (consumer \/ dpc = "start2") /\ lock = "none"
  /\ dpc' = "top" /\ act' = <<"DStep">> /\ ev' = [a |-> "dec", site |-> "top", prod |-> Prod]
  /\ UNCHANGED <<ring, dpos, chunkLo, chunkHi, calls, reachedEnd, encErr, errRing, sstate, stopc, pausec, loaded, consumer, apc, aleft, aout, astate0, popped, cb, lock>>

\* frame_at_index(dpos): number of decode calls needed and whether one of them fails
\* (an index at or past the end of the audio is answered with silence without touching the decoder)
Need == IF dpos >= Len0 \/ (dpos >= chunkLo /\ dpos < chunkHi) THEN 0 ELSE ((dpos - chunkHi) \div Pk) + 1
Fails == FailAt # 0 /\ FailAt > calls /\ FailAt <= calls + Need

\* one loop iteration from dec.top to the next yield point
DBody ==
  /\ dpc = "top" /\ lock \in {"none", "dec"}
  /\ act' = <<"DStep">>
  /\ IF sstate = "Stopped" \/ ~consumer
     THEN /\ dpc' = "end" /\ ev' = [a |-> "dec", site |-> "end", prod |-> Prod]
          /\ UNCHANGED <<ring, dpos, chunkLo, chunkHi, calls, reachedEnd, encErr, errRing, lock>>
     \* all of the audio has been decoded: the thread stays (a seek could bring the position back - not modelled here) and
     \* sleeps until the sound is Stopped or abandoned; it comes back to dec.top a millisecond later (run_after_end)
     ELSE IF reachedEnd
     THEN /\ dpc' = "top" /\ ev' = [a |-> "dec", site |-> "top", prod |-> Prod, ms |-> 1]
          /\ UNCHANGED <<ring, dpos, chunkLo, chunkHi, calls, reachedEnd, encErr, errRing, lock>>
     ELSE IF Len(ring) >= R
     THEN /\ dpc' = "wait" /\ ev' = [a |-> "dec", site |-> "wait", prod |-> Prod]
          /\ UNCHANGED <<ring, dpos, chunkLo, chunkHi, calls, reachedEnd, encErr, errRing, lock>>
     ELSE IF Fails
     THEN /\ calls' = FailAt
          /\ errRing' = Append(errRing, FailAt)
          /\ IF Replayable THEN encErr' = TRUE /\ dpc' = "err" /\ ev' = [a |-> "dec", site |-> "err", prod |-> Prod] /\ lock' = "none"
             ELSE UNCHANGED encErr /\ dpc' = "errpushed" /\ ev' = [a |-> "tau"] /\ UNCHANGED lock
          /\ UNCHANGED <<ring, dpos, chunkLo, chunkHi, reachedEnd>>
     ELSE /\ calls' = calls + Need
          /\ IF Need > 0 THEN chunkLo' = chunkHi + (Need - 1) * Pk /\ chunkHi' = chunkHi + Need * Pk
             ELSE UNCHANGED <<chunkLo, chunkHi>>
          /\ ring' = Append(ring, IF dpos >= Len0 THEN -1 ELSE dpos)
          /\ dpos' = dpos + 1
          /\ UNCHANGED <<encErr, errRing>>
          /\ IF dpos + 1 >= Len0
             THEN IF Replayable THEN reachedEnd' = TRUE /\ dpc' = "endsleep" /\ ev' = [a |-> "dec", site |-> "end", prod |-> Prod + 1] /\ UNCHANGED lock
                  ELSE UNCHANGED reachedEnd /\ dpc' = "pushed" /\ ev' = [a |-> "tau"] /\ UNCHANGED lock
             ELSE /\ UNCHANGED <<reachedEnd, lock>> /\ dpc' = "top" /\ ev' = [a |-> "dec", site |-> "top", prod |-> Prod + 1]
  /\ UNCHANGED <<sstate, stopc, pausec, loaded, consumer, apc, aleft, aout, astate0, popped, cb>>

\* fine mode: the flag store that follows the last push / the error push
DFlag ==
  /\ dpc \in {"pushed", "errpushed"} /\ act' = <<"DStep">>
  /\ IF dpc = "pushed" THEN reachedEnd' = TRUE /\ dpc' = "endsleep" /\ ev' = [a |-> "dec", site |-> "end", prod |-> Prod] /\ UNCHANGED encErr
     ELSE encErr' = TRUE /\ dpc' = "err" /\ ev' = [a |-> "dec", site |-> "err", prod |-> Prod] /\ UNCHANGED reachedEnd
  /\ UNCHANGED <<ring, dpos, chunkLo, chunkHi, calls, errRing, sstate, stopc, pausec, loaded, consumer, apc, aleft, aout, astate0, popped, cb, lock>>

DSleep == \* dec.wait (or dec.end.reached: the audio has run out, the thread stays) -> sleep -> dec.top
  /\ dpc \in {"wait", "endsleep"} /\ lock = "none"
  /\ dpc' = "top" /\ act' = <<"DStep">> /\ ev' = [a |-> "dec", site |-> "top", prod |-> Prod]
  /\ UNCHANGED <<ring, dpos, chunkLo, chunkHi, calls, reachedEnd, encErr, errRing, sstate, stopc, pausec, loaded, consumer, apc, aleft, aout, astate0, popped, cb, lock>>

DExit == \* dec.err / dec.end.* -> the loop is left, the decoder is dropped
  /\ dpc \in {"err", "end"} /\ lock = "none"
  /\ dpc' = "exited" /\ act' = <<"DStep">> /\ ev' = [a |-> "exit"]
  /\ UNCHANGED <<ring, dpos, chunkLo, chunkHi, calls, reachedEnd, encErr, errRing, sstate, stopc, pausec, loaded, consumer, apc, aleft, aout, astate0, popped, cb, lock>>

\* ---------------------------------------------------------------- audio thread
\* one output frame of StreamingSound::process at rate 1
Frame1(rg, st) == \* returns <<ring', state', heard>>
  LET heard == IF Len(rg) >= 2 THEN rg[2] ELSE -1
      rg2 == IF rg = <<>> THEN rg ELSE Tail(rg)
      st2 == IF reachedEnd /\ rg2 = <<>> THEN "Stopped" ELSE st IN
  <<rg2, st2, heard>>

RECURSIVE Frames(_, _, _, _)
Frames(rg, st, n, acc) == IF n = 0 THEN <<rg, st, acc>>
                          ELSE LET f == Frame1(rg, st) IN Frames(f[1], f[2], n - 1, Append(acc, f[3]))

Silent == [j \in 1..NF |-> -1]

CbEvent(st, idx, ns) == [a |-> "cb", state |-> st, idx |-> idx, zero |-> \A j \in 1..Len(idx) : idx[j] < 0,
                          nsounds |-> ns, panicked |-> FALSE]

\* the whole callback in one step (what a replay can enforce)
CallbackAtomic ==
  /\ Replayable /\ cb < MaxCb /\ dpc \notin {"none", "start"} /\ lock = "none"
  /\ cb' = cb + 1 /\ act' = <<"Callback">>
  /\ IF ~loaded
     THEN /\ ev' = CbEvent(sstate, Silent, 0)
          /\ UNCHANGED <<ring, sstate, stopc, pausec, loaded>>
     ELSE IF sstate = "Stopped"
     THEN /\ loaded' = FALSE /\ ev' = CbEvent(sstate, Silent, 0)       \* removed by its track before processing
          /\ UNCHANGED <<ring, sstate, stopc, pausec>>
     ELSE LET st0 == IF stopc THEN "Stopping" ELSE IF pausec THEN "Paused" ELSE sstate IN         \* read_commands
          /\ stopc' = FALSE /\ pausec' = FALSE /\ UNCHANGED loaded
          \* (the error flag is looked at first: a paused sound whose decoder failed is stopped all the same)
          /\ IF encErr THEN sstate' = "Stopped" /\ ev' = CbEvent("Stopped", Silent, 1) /\ UNCHANGED ring
             ELSE IF st0 = "Stopping" THEN sstate' = "Stopped" /\ ev' = CbEvent("Stopped", Silent, 1) /\ UNCHANGED ring
             ELSE IF st0 = "Paused" THEN sstate' = "Paused" /\ ev' = CbEvent("Paused", Silent, 1) /\ UNCHANGED ring
             ELSE IF Len(ring) < 2 /\ ~reachedEnd THEN sstate' = st0 /\ ev' = CbEvent(st0, Silent, 1) /\ UNCHANGED ring
             ELSE LET f == Frames(ring, st0, NF, <<>>) IN
                  ring' = f[1] /\ sstate' = f[2] /\ ev' = CbEvent(f[2], f[3], 1)
  /\ UNCHANGED <<dpos, chunkLo, chunkHi, calls, reachedEnd, encErr, errRing, consumer, dpc, apc, aleft, aout, astate0, popped, lock>>

\* fine mode: on_start_processing + early-outs, then one step per output frame
AStart ==
  /\ ~Replayable /\ cb < MaxCb /\ dpc \notin {"none", "start"} /\ apc = "idle"
  /\ act' = <<"Callback">> /\ ev' = [a |-> "tau"]
  /\ IF ~loaded THEN apc' = "done" /\ aout' = Silent /\ UNCHANGED <<sstate, stopc, pausec, loaded, aleft>> /\ astate0' = "unloaded"
     ELSE IF sstate = "Stopped" THEN loaded' = FALSE /\ apc' = "done" /\ aout' = Silent /\ astate0' = "unloaded" /\ UNCHANGED <<sstate, stopc, pausec, aleft>>
     ELSE LET st0 == IF stopc THEN "Stopping" ELSE IF pausec THEN "Paused" ELSE sstate IN
          /\ stopc' = FALSE /\ pausec' = FALSE /\ UNCHANGED loaded /\ astate0' = "loaded"
          /\ IF encErr \/ st0 = "Stopping" THEN sstate' = "Stopped" /\ apc' = "done" /\ aout' = Silent /\ UNCHANGED aleft
             ELSE IF st0 = "Paused" THEN sstate' = "Paused" /\ apc' = "done" /\ aout' = Silent /\ UNCHANGED aleft
             ELSE IF Len(ring) < 2 /\ ~reachedEnd THEN sstate' = st0 /\ apc' = "done" /\ aout' = Silent /\ UNCHANGED aleft
             ELSE sstate' = st0 /\ apc' = "frames" /\ aleft' = NF /\ aout' = <<>>
  /\ UNCHANGED <<ring, dpos, chunkLo, chunkHi, calls, reachedEnd, encErr, errRing, consumer, dpc, popped, cb, lock>>

AFrame ==
  /\ apc = "frames" /\ act' = <<"Callback">> /\ ev' = [a |-> "tau"]
  /\ LET f == Frame1(ring, sstate) IN
     /\ ring' = f[1] /\ sstate' = f[2] /\ aout' = Append(aout, f[3])
     /\ aleft' = aleft - 1 /\ apc' = IF aleft = 1 THEN "done" ELSE "frames"
  /\ UNCHANGED <<dpos, chunkLo, chunkHi, calls, reachedEnd, encErr, errRing, stopc, pausec, loaded, consumer, dpc, astate0, popped, cb, lock>>

AEnd ==
  /\ apc = "done" /\ act' = <<"Callback">>
  /\ cb' = cb + 1 /\ apc' = "idle"
  /\ ev' = CbEvent(sstate, aout, IF astate0 = "loaded" THEN 1 ELSE 0)
  /\ UNCHANGED <<ring, dpos, chunkLo, chunkHi, calls, reachedEnd, encErr, errRing, sstate, stopc, pausec, loaded, consumer, dpc, aleft, aout, astate0, popped, lock>>

INext == \/ \E r \in BOOLEAN : Play(r)
         \/ Reject \/ Stop \/ Pause \/ WaitGone \/ Discard \/ Pop
         \/ DStart \/ DBody \/ DFlag \/ DSleep \/ DExit
         \/ CallbackAtomic \/ AStart \/ AFrame \/ AEnd

Monitor ==
  LET r == Check(mon, ev') IN
  IF bad # "" THEN UNCHANGED <<mon, bad>>
  ELSE IF r # "" THEN bad' = r /\ UNCHANGED mon
  ELSE bad' = "" /\ mon' = Upd(mon, ev')

Next == INext /\ Monitor
Spec == Init /\ [][Next]_vars
FairSpec == Spec /\ WF_vars((DStart \/ DBody \/ DFlag \/ DSleep \/ DExit) /\ Monitor)
                 /\ WF_vars((CallbackAtomic \/ AStart \/ AFrame \/ AEnd) /\ Monitor)

PropertyHolds == bad = ""
RingBounded == Len(ring) <= R
\* the thread ends once the sound has finished, been stopped, failed, been rejected or been discarded
ThreadEnds == (dpc \notin {"none"} /\ (sstate = "Stopped" \/ ~consumer \/ encErr)) ~> (dpc = "exited" \/ cb >= MaxCb)
\* (the sound "has finished" when it is Stopped - having decoded everything is not enough, see DBody)
ThreadEndsHard == []((dpc \notin {"none", "start"} /\ (~consumer \/ encErr \/ sstate = "Stopped")) => <>(dpc = "exited"))
W_Starved == ~(apc = "idle" /\ cb > 1 /\ Len(ring) < 2 /\ ~reachedEnd /\ loaded /\ sstate = "Playing")
W_Wait == dpc # "wait"
W_Err == ~encErr
W_WaitGone == ~(ev.a = "waitgone" /\ bad = "")
=============================================================================
