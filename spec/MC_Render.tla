------------------------------ MODULE MC_Render ------------------------------
EXTENDS Render
\* observations and logs are write-only; they are hidden from the state identity
View == <<slotm, gen, flist, keys, newQ, key, where, dropped, mcfg, val, tws, pend, lph, lraw,
          pst, pcfg, praw, pc, left, n, ncb, nops, gap, inexact, mon, bad>>
\* constant values that a .cfg file cannot spell (records)
Mp(i0, i1, o0, o1, e, p) == [i0 |-> i0, i1 |-> i1, o0 |-> o0, o1 |-> o1, e |-> e, p |-> p]
MapsA == {Mp(0, 1, 0, 2, "lin", 1)}
MapsB == {Mp(0, 1, 0, 2, "lin", 1), Mp(0, 1, 2, 0, "in", 2)}
MapsC == {Mp(0, 1, 0, 2, "lin", 1), Mp(0, 1, 2, 0, "in", 2), Mp(2, 0, 1, 3, "lin", 1)}
MapsD == MapsC \cup {Mp(0, 2, 0, 1, "in", 2), Mp(1, 2, 2, 1, "lin", 1), Mp(0, 4, 0, 2, "lin", 1)}
Tw(tgt, dur, ek, p, sk, delay) == [tgt |-> tgt, dur |-> dur, ek |-> ek, p |-> p, sk |-> sk, delay |-> delay]
SetsA == {Tw(2, 4, "lin", 1, "imm", 0)}
SetsB == {Tw(2, 4, "lin", 1, "imm", 0), Tw(0, 0, "lin", 1, "imm", 0)}
SetsC == {Tw(2, 4, "lin", 1, "imm", 0), Tw(0, 0, "lin", 1, "imm", 0), Tw(1, 2, "in", 2, "del", 2)}
SetsD == SetsC \cup {Tw(2, 8, "inout", 2, "imm", 0), Tw(0, 3, "lin", 1, "del", 1), Tw(1, 4, "out", 2, "imm", 0),
                     Tw(3, 6, "lin", 1, "imm", 0), Tw(2, 2, "lin", 1, "del", 3)}
=============================================================================
