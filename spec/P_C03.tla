------------------------------ MODULE P_C03 ------------------------------
(* Property-level specification of C03 (sound playback life cycle), from    *)
(* the property statement.  One monitor watches ONE sound, observed once    *)
(* per device callback (callback = one internal chunk in the drivers).      *)
(*                                                                          *)
(* Events                                                                   *)
(*   cmd  c d [wk wt]     a handle command written before the next callback *)
(*                         c in pause | resume | resume_at | stop | other   *)
(*                         d  = fade duration in callbacks                  *)
(*                         wk = delayed | clock | noclock, wt = callbacks   *)
(*                              until the start time is reached             *)
(*   cb   state zero mono g0 g1 pos nsounds                                 *)
(*        state   handle.state() after the callback                         *)
(*        zero    every frame of this callback is exactly 0                 *)
(*        mono    "up" | "down" | "flat" | "none": shape of the gain        *)
(*        g0,g1   gain class of the first/last frame: 0 silent, 1 between,  *)
(*                2 exactly unity, 3 above unity                            *)
(*        pos     handle.position() in frames, nsounds the track's count    *)
(*                                                                          *)
(* Slack, as in the statement: a fade-driven step completes when its tween  *)
(* completes "to within one callback".  Left open by the statement and      *)
(* therefore accepted in every outcome: the order in which commands of      *)
(* different kinds written between the same two callbacks are applied; a    *)
(* pause/resume command arriving while the sound is Stopping.               *)
(* The monitor is set-valued: `poss` is the set of abstract states that can *)
(* explain everything seen so far; the property is violated when it is      *)
(* empty.                                                                   *)
EXTENDS Integers, FiniteSets, Sequences

Frozen    == {"Paused", "WaitingToResume", "Stopped"}
States    == {"Playing", "Pausing", "Paused", "WaitingToResume", "Resuming", "Stopping", "Stopped"}
NoT       == -100

\* abstract state: st = life-cycle state; fe = callback at which the running fade's tween ends;
\* wu = callback at which the pending start time is reached (NoT: never, the clock is missing);
\* wd = fade duration to use when the wait ends
AS(st, fe, wu, wd) == [st |-> st, fe |-> fe, wu |-> wu, wd |-> wd]

PInit(finite, len) ==
  [ poss |-> {AS("Playing", NoT, NoT, 0)},
    k |-> 0,              \* callbacks seen
    pend |-> <<>>,        \* commands since the last callback
    pos |-> -1, frozenRun |-> 0, lastState |-> "",
    stoppedSeen |-> FALSE,
    finite |-> finite, len |-> len, adv |-> 0,   \* natural end: frames of audio available / callbacks spent advancing
    held |-> FALSE,       \* the sound has been kept from advancing at some time (no deadline then)
    starved |-> FALSE ]   \* a streaming sound whose decoder delivers nothing (any more): it is silent and does not advance
                          \* whatever its state, so the gain classes say nothing - the life cycle must go on all the same

Win(c) == (c - 1)..(c + 1)

\* effect of one command on an abstract state, applied at the start of callback k
Apply(a, c, k) ==
  IF a.st = "Stopped" THEN {a}
  ELSE LET new ==
         CASE c.c = "pause"  -> AS("Pausing",  k - 1 + c.d, NoT, 0)
           [] c.c = "stop"   -> AS("Stopping", k - 1 + c.d, NoT, 0)
           [] c.c = "resume" -> AS("Resuming", k - 1 + c.d, NoT, 0)
           [] c.c = "resume_at" ->
                AS("WaitingToResume", NoT, IF c.wk = "noclock" THEN NoT ELSE k - 1 + c.wt, c.d)
           [] OTHER -> a
       IN IF a.st = "Stopping" THEN {a, new} ELSE {new}

\* all orders of the (at most one per kind) pending commands
RECURSIVE ApplyAll(_, _, _)
ApplyAll(S, cmds, k) ==
  IF cmds = {} THEN S
  ELSE UNION { ApplyAll(UNION {Apply(a, c, k) : a \in S}, cmds \ {c}, k) : c \in cmds }

\* last write per kind (C07 is checked separately; here it only fixes the command set)
LastPerKind(pend) ==
  { pend[i] : i \in { j \in 1..Len(pend) :
        /\ pend[j].c \in {"pause", "resume", "resume_at", "stop"}
        /\ \A h \in (j + 1)..Len(pend) :
             LET same(x, y) == (x = y) \/ ({x, y} = {"resume", "resume_at"}) IN ~same(pend[h].c, pend[j].c) } }

\* can abstract state a (after commands), at callback k, explain the observation e?  returns the set of successors
Explain(a, e, k, m) ==
  LET s == a.st
      o == e.state
      \* natural end: enough audio has gone by (a wait that ends in this callback may be followed by it at once)
      natural == /\ m.finite /\ o = "Stopped" /\ (m.adv + 1) * e.n + 8 >= m.len
                 /\ (s \notin Frozen \/ (s = "WaitingToResume" /\ a.wu # NoT /\ k \in Win(a.wu)))
      stay == AS(s, a.fe, a.wu, a.wd)
  IN
  (IF natural THEN {AS("Stopped", NoT, NoT, 0)} ELSE {}) \cup
  CASE s = "Playing"  -> IF o = "Playing" THEN {stay} ELSE {}
    [] s = "Paused"   -> IF o = "Paused" THEN {stay} ELSE {}
    [] s = "Stopped"  -> IF o = "Stopped" THEN {stay} ELSE {}
    [] s = "Pausing"  -> (IF o = "Pausing" /\ k <= a.fe THEN {stay} ELSE {}) \cup
                         (IF o = "Paused" /\ k \in Win(a.fe) /\ (m.starved \/ e.g1 = 0) THEN {AS("Paused", NoT, NoT, 0)} ELSE {})
    [] s = "Stopping" -> (IF o = "Stopping" /\ k <= a.fe THEN {stay} ELSE {}) \cup
                         (IF o = "Stopped" /\ k \in Win(a.fe) /\ (m.starved \/ e.g1 = 0) THEN {AS("Stopped", NoT, NoT, 0)} ELSE {})
    [] s = "Resuming" -> (IF o = "Resuming" /\ k <= a.fe THEN {stay} ELSE {}) \cup
                         (IF o = "Playing" /\ k \in Win(a.fe) /\ (m.starved \/ e.g1 = 2) THEN {AS("Playing", NoT, NoT, 0)} ELSE {})
    [] s = "WaitingToResume" ->
         IF a.wu = NoT
         THEN (IF o = "Stopped" THEN {AS("Stopped", NoT, NoT, 0)} ELSE {})      \* the clock does not exist: cancelled
         ELSE (IF o = "WaitingToResume" /\ k <= a.wu THEN {stay} ELSE {}) \cup
              (IF o = "Resuming" /\ k \in Win(a.wu) THEN {AS("Resuming", k + a.wd, NoT, 0)} ELSE {}) \cup
              (IF o = "Playing" /\ k \in Win(a.wu) /\ a.wd = 0 /\ (m.starved \/ e.g1 = 2) THEN {AS("Playing", NoT, NoT, 0)} ELSE {})

\* shape of the gain while a fade runs
GainOK(a, e) ==
  CASE a.st \in {"Pausing", "Stopping"} -> e.mono \in {"down", "flat"}
    [] a.st = "Resuming" -> e.mono \in {"up", "flat"}
    [] OTHER -> TRUE

After(m, e) == ApplyAll(m.poss, LastPerKind(m.pend), m.k + 1)
Succ(m, e)  == UNION { IF m.starved \/ GainOK(a, e) THEN Explain(a, e, m.k + 1, m) ELSE {} : a \in After(m, e) }
\* the callback was spent entirely in a non-advancing state, under every explanation
FullyFrozen(m, e) == e.state \in Frozen /\ \A a \in After(m, e) : a.st \in Frozen

Check(m, e) ==
  CASE e.a = "cb" ->
         IF e.panicked THEN "no_panic"
         ELSE IF e.g0 = 3 \/ e.g1 = 3 THEN "gain_between_silence_and_unity"       \* (seen before the renderer's clamp)
         ELSE IF m.stoppedSeen /\ e.state # "Stopped" THEN "stopped_is_final"
         ELSE IF Succ(m, e) = {} THEN
              (IF \E a \in After(m, e) : ~m.starved /\ ~GainOK(a, e) /\ Explain(a, e, m.k + 1, m) # {} THEN "fade_monotone"
               ELSE IF \E a \in After(m, e), g \in {0, 2} : Explain(a, [e EXCEPT !.g1 = g], m.k + 1, m) # {}
                    THEN "fade_ends_exactly_at_silence_or_unity"
               ELSE "lifecycle")
         ELSE IF FullyFrozen(m, e) /\ ~e.zero THEN "silent_when_not_advancing"
         ELSE IF FullyFrozen(m, e) /\ m.frozenRun >= 1 /\ m.pos # -1 /\ e.pos # m.pos THEN "position_frozen"
         \* a sound that reports Playing plays: its position moves on from one callback to the next (every session here
         \* plays at rate 1; a starved stream has nothing to play)
         \* (not once a finite sound has played its last frame: it may report Playing a callback or two longer while the
         \*  interpolator's window drains, with the position standing at the end)
         ELSE IF ~m.starved /\ m.lastState = "Playing" /\ e.state = "Playing" /\ m.pos # -1 /\ e.pos = m.pos /\ m.pend = <<>>
                 /\ ~(m.finite /\ e.pos + e.n >= m.len)
              THEN "advances_while_playing"
         ELSE IF m.stoppedSeen /\ e.nsounds # 0 THEN "unloaded_at_next_callback"
         ELSE IF m.finite /\ ~m.held /\ e.state # "Stopped" /\ m.adv * e.n > m.len + 4 * e.n THEN "finite_sound_reaches_stopped"
         ELSE ""
    [] e.a = "panic" -> "no_panic"
    [] e.a = "hang" -> "returns_promptly"
    [] OTHER -> ""

Upd(m, e) ==
  CASE e.a = "cmd" -> [m EXCEPT !.pend = Append(@, e)]
    [] e.a = "cb" ->
         [m EXCEPT !.poss = Succ(m, e), !.k = @ + 1, !.pend = <<>>, !.pos = e.pos, !.lastState = e.state,
                   !.frozenRun = IF FullyFrozen(m, e) THEN @ + 1 ELSE 0,
                   !.stoppedSeen = (e.state = "Stopped"),
                   !.adv = IF FullyFrozen(m, e) THEN @ ELSE @ + 1,
                   !.held = @ \/ FullyFrozen(m, e)]
    [] OTHER -> m
=============================================================================
