------------------------------ MODULE P_C05T ------------------------------
(* C05, speed tweens of non-zero length: "a speed change or speed tween ...  *)
(* takes effect when it is due".  A clock speed is given in a unit (ticks    *)
(* per second, or seconds per tick) and a tween moves it linearly IN THE     *)
(* UNIT OF ITS TARGET; the clock advances by the speed in force in each      *)
(* internal buffer times the buffer's duration.                              *)
(* One session: a running clock, one set_speed(target, tween of d buffers),  *)
(* callbacks of exactly one internal buffer each.                            *)
(*   reset u0 v0n v0d u1 v1n v1d d dtn dtd    units "tps" | "spt" | "tpm", values as  *)
(*                      fractions, duration in buffers, buffer time dtn/dtd s *)
(*   tw k t4            after the k-th buffer since the command was read      *)
(*                      (k = 0: the time when it was read): time * 10^4       *)
(* Times are compared with a tolerance of k + 2 units of 10^-4 ticks.         *)
EXTENDS Integers

S4 == 10000
PInit(c) == [c |-> c, t0 |-> -1, exp |-> 0, expF |-> 0, ok |-> <<TRUE, TRUE>>]

\* S4 * a / b without leaving 32 bits: the fraction is reduced first, then split into quotient and remainder
RECURSIVE Gcd(_, _)
Gcd(a, b) == IF b = 0 THEN a ELSE Gcd(b, a % b)
MulDiv(a0, b0) == LET g == Gcd(a0, b0)  a == a0 \div g  b == b0 \div g
                  IN S4 * (a \div b) + (S4 * (a % b)) \div b

\* the speed before the tween in ticks per second, as a fraction
TpsN(c) == IF c.u0 = "tps" THEN c.v0n ELSE IF c.u0 = "spt" THEN c.v0d ELSE c.v0n
TpsD(c) == IF c.u0 = "tps" THEN c.v0d ELSE IF c.u0 = "spt" THEN c.v0n ELSE 60 * c.v0d
\* ... expressed in the unit of the target ("tps" ticks per second, "spt" seconds per tick, "tpm" ticks per minute)
FromN(c) == IF c.u1 = "tps" THEN TpsN(c) ELSE IF c.u1 = "spt" THEN TpsD(c) ELSE 60 * TpsN(c)
FromD(c) == IF c.u1 = "tps" THEN TpsD(c) ELSE IF c.u1 = "spt" THEN TpsN(c) ELSE TpsD(c)

\* speed in force during buffer k (1-based), in ticks per second * 10^4
Rate4(c, k) ==
  LET kk == IF k > c.d THEN c.d ELSE k
      dd == IF c.d = 0 THEN 1 ELSE c.d
      x == IF c.d = 0 THEN 1 ELSE kk           \* x / dd = fraction of the tween that has passed
      fn == FromN(c)  fd == FromD(c)
      \* f + (t - f) x / dd  with f = fn/fd, t = v1n/v1d  ->  num / den, in the unit of the target
      num == fn * c.v1d * dd + (c.v1n * fd - fn * c.v1d) * x
      den == fd * c.v1d * dd
  IN IF c.u1 = "tps" THEN MulDiv(num, den)
     ELSE IF c.u1 = "spt" THEN MulDiv(den, num)
     ELSE MulDiv(num, 60 * den)

Abs(x) == IF x < 0 THEN -x ELSE x
\* What the handle shows after callback j is a time the clock had: the time at the start of that callback (published by
\* on_start_processing - the code's choice) or the time at its end (an implementation that also publishes after each chunk);
\* the statement fixes neither.  Both readings are followed (exp / expF) and a session is rejected only when neither fits.
Fits(x, t4, k) == Abs(t4 - x) <= k + 2
Check(m, e) ==
  CASE e.a = "tw" ->
         IF e.k = 0 THEN ""
         ELSE IF ~((m.ok[1] /\ Fits(m.exp, e.t4, e.k)) \/ (m.ok[2] /\ Fits(m.expF, e.t4, e.k))) THEN
              (IF e.k <= m.c.d THEN "speed_tween_follows_the_unit_of_its_target" ELSE "advances_by_speed_times_audio_time")
         ELSE ""
    [] e.a = "panic" -> "no_panic"
    [] OTHER -> ""
Upd(m, e) ==
  IF e.a # "tw" THEN m
  ELSE IF e.k = 0 THEN [m EXCEPT !.t0 = e.t4, !.ok = <<TRUE, TRUE>>,
                                 !.exp = e.t4 + (Rate4(m.c, 1) * m.c.dtn) \div m.c.dtd,
                                 !.expF = e.t4 + (Rate4(m.c, 2) * m.c.dtn) \div m.c.dtd]
  ELSE [m EXCEPT !.ok = <<m.ok[1] /\ Fits(m.exp, e.t4, e.k), m.ok[2] /\ Fits(m.expF, e.t4, e.k)>>,
                 !.exp = @ + (Rate4(m.c, e.k + 1) * m.c.dtn) \div m.c.dtd,
                 !.expF = @ + (Rate4(m.c, e.k + 2) * m.c.dtn) \div m.c.dtd]
=============================================================================
