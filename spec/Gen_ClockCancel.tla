-------------------------- MODULE Gen_ClockCancel --------------------------
(* Behaviours of ClockCancel for the replay on the real library: which tick *)
(* every sound waits for, and a history of handle drops and callbacks.      *)
EXTENDS ClockCancel, Json
VARIABLE hist
GInit == Init /\ hist = <<>>
GNext == /\ Next
         /\ hist' = Append(hist, IF act'[1] = "Drop" THEN [act |-> "Drop", c |-> act'[2]] ELSE [act |-> "Callback", heard |-> ev'.heard, st |-> ev'.st])
GSpec == GInit /\ [][GNext]_<<vars, hist>>
GView == <<w, marked, queued, live, cb, hist>>
Dump == cb = MaxCb => PrintT(<<"BEHAVIOUR", ToJson(<<[n |-> N, w |-> w]>> \o hist)>>)
=============================================================================
