\* StaticSound, one handle command per session (quick): length 5 (unsliced and the slice 1..4), every start / loop region /
\* reverse, rate +-1, seek_to(every target) | seek_by(+-2) | set_loop_region(every region) issued after 1 or 4 output frames.
\* Measured: 959 204 distinct states, 35-45 s with 4 workers.  Thorough: lengths 6 and 7, command after 0..8 frames,
\* seek_by +-{1,2,3}; rates +-{1, 1/2, 2} with set_playback_rate on length 5; two commands per session on length 5.
\* run: tlc -workers 4 -config StaticSound_cmd_q.cfg MC_StaticSound.tla
SPECIFICATION Spec
CONSTANTS
  Lens = {5}
  Slicing = FALSE
  DeltaMags = {2}
  RateMags = {4}
  NegRates = TRUE
  ChunkSizes = {1}
  ChunkMix = FALSE
  CmdTimes = {1, 4}
  MaxFrames = 13
  MaxCmds = 1
  Cmds = {"SeekTo", "SeekBy", "SetLoop"}
  SeekRevives = TRUE
  SeekByHeard = TRUE
  SafeTransport = TRUE
  Wide = FALSE
VIEW View
INVARIANTS PropertyHolds NoPanic TypeOK IndexInSlice WindowInSlice StoppedMeansDrained NoHang
CHECK_DEADLOCK FALSE
