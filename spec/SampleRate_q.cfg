SPECIFICATION Spec
CONSTANTS
  Rates = {8, 16}
  MaxTracks = 2
  MaxChanges = 2
  MaxCb = 3
INVARIANTS PropertyHolds
CHECK_DEADLOCK FALSE
