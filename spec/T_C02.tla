------------------------------- MODULE T_C02 -------------------------------
EXTENDS Integers, Sequences, FiniteSets, TLC, Json, IOUtils, P_C02
Rec == ndJsonDeserialize(IOEnv.TRACE)
ToSet(s) == {s[i] : i \in DOMAIN s}
VARIABLES l, mon, mode, bad
tvars == <<l, mon, mode, bad>>
Dummy == [shape |-> "fork", trk |-> {}, snd |-> {}, send |-> FALSE, send2 |-> FALSE, persistB |-> FALSE]
TInit == l = 1 /\ mon = [sc |-> Dummy] /\ mode = "skip" /\ bad = <<>>
TNext ==
  /\ l <= Len(Rec)
  /\ l' = l + 1
  /\ LET e == Rec[l] IN
     IF e.a = "reset" /\ "mode" \in DOMAIN e THEN mon' = [sc |-> Dummy] /\ mode' = "ok" /\ bad' = bad      \* (racy_add sessions: no scene)
     ELSE IF e.a = "reset" THEN mon' = PInit([e.sc EXCEPT !.snd = ToSet(@), !.trk = ToSet(@)]) /\ mode' = "ok" /\ bad' = bad
     ELSE IF mode = "skip" \/ e.a = "end" THEN UNCHANGED <<mon, mode, bad>>
     ELSE LET r == Check(mon, e) IN
          IF r = "" THEN mon' = Upd(mon, e) /\ UNCHANGED <<mode, bad>>
          ELSE /\ mode' = "skip" /\ UNCHANGED mon
               /\ bad' = Append(bad, [s |-> e.s, i |-> e.i, a |-> e.a, reason |-> r])
TSpec == TInit /\ [][TNext]_tvars
Done == l = Len(Rec) + 1
Report == Done => /\ PrintT(<<"BAD", ToJson(bad)>>)
                  /\ PrintT(<<"CONSUMED", l - 1, Len(Rec)>>)
=============================================================================
