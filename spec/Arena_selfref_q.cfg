\* SelfReferentialResourceStorage flavour (clocks, modulators, listeners): keys vector,
\* is_full guard, try_reserve + insert_with_key callers (no yield before the drain)
SPECIFICATION Spec
CONSTANTS
  N = 2
  Items = {1, 2, 3}
  SelfRef = TRUE
  UnusedCap = 3
  Replayable = FALSE
  MergedReserve = TRUE
  MaxCb = 3
VIEW View
INVARIANTS PropertyHolds NoPanic TypeOK KeysUnique KeyResolvesToOwner ControllerMirrorsArena FreeListExact OnlyGameplayDestroys
CHECK_DEADLOCK FALSE
