---- MODULE MC_Clock ----
EXTENDS Clock
View == <<ivars, mon, bad>>
====
