------------------------------ MODULE Gen_C09 ------------------------------
(* Generator of side-by-side scenarios for C09: settings of the sound, the   *)
(* decoder's packetisation and seek granularity, and a command history       *)
(* without seeks.  The environment grammar only; the oracle is P_C09.        *)
(* Settings are chosen field by field (small branching per step).            *)
EXTENDS Integers, Sequences, FiniteSets, TLC, Json
CONSTANTS MaxLen, D, MaxCmd
VARIABLES cfg, hist, ncmd, stage
Rates == {0, 128, 256, 512}          \* playback rate x 256
Init == /\ stage = 0 /\ cfg = [len |-> 0] /\ hist = <<>> /\ ncmd = 0
Choose ==
  /\ stage < 6 /\ stage' = stage + 1 /\ UNCHANGED <<hist, ncmd>>
  /\ CASE stage = 0 -> \E len \in 1..MaxLen : cfg' = [len |-> len]
       \* (rs: a slice that ends at the end of the audio may be written as another slice replaced by `lo..`)
       [] stage = 1 -> \E lo \in 0..(cfg.len - 1), hi \in 1..cfg.len, rs \in BOOLEAN :
                          lo < hi /\ (rs => hi = cfg.len) /\ cfg' = cfg @@ [lo |-> lo, hi |-> hi, rs |-> rs]
       [] stage = 2 -> \E ls \in -1..(cfg.hi - cfg.lo - 1) : cfg' = cfg @@ [ls |-> ls]
       [] stage = 3 -> IF cfg.ls = -1 THEN cfg' = cfg @@ [le |-> -1, open |-> FALSE]
                       \* (open: the loop region is written ls.. - its end is the end of the audio, i.e. of the slice)
                       ELSE \E le \in (cfg.ls + 1)..(cfg.hi - cfg.lo), open \in BOOLEAN :
                              cfg' = cfg @@ [le |-> IF open THEN cfg.hi - cfg.lo ELSE le, open |-> open /\ TRUE]
       \* (without a loop the start position may also be the end of the audio or beyond it: nothing to play)
       [] stage = 4 -> \E start \in 0..(IF cfg.ls = -1 THEN cfg.hi - cfg.lo + 1 ELSE cfg.le - 1) : cfg' = cfg @@ [start |-> start]
       [] stage = 5 -> \E rate \in Rates, pk \in {1, 2, 3, 7}, early \in 0..2 : cfg' = cfg @@ [rate |-> rate, pk |-> pk, early |-> early]
Cmd ==
  /\ stage = 6 /\ ncmd < MaxCmd /\ ncmd' = ncmd + 1
  /\ \E c \in {"pause", "resume", "stop", "volume", "panning", "rate"}, d \in {0, 2, 5}, v \in {0, 1, 2} :
       hist' = Append(hist, [act |-> "Cmd", c |-> c, d |-> d, v |-> v])
  /\ UNCHANGED <<cfg, stage>>
Cb == stage = 6 /\ hist' = Append(hist, [act |-> "Callback"]) /\ ncmd' = 0 /\ UNCHANGED <<cfg, stage>>
Next == Choose \/ Cmd \/ Cb
Spec == Init /\ [][Next]_<<cfg, hist, ncmd, stage>>
Bound == Len(hist) <= D
Dump == Len(hist) = D => PrintT(<<"BEHAVIOUR", ToJson(<<cfg>> \o hist)>>)
=============================================================================
