------------------------------ MODULE Gen_C09 ------------------------------
(* Generator of side-by-side scenarios for C09: settings of the sound, the   *)
(* decoder's packetisation and seek granularity, and a command history       *)
(* without seeks.  The environment grammar only; the oracle is P_C09.        *)
EXTENDS Integers, Sequences, FiniteSets, TLC, Json
CONSTANTS MaxLen, D, MaxCmd
VARIABLES cfg, hist, ncmd, chosen
Rates == {0, 128, 256, 512}          \* playback rate x 256
Init == /\ chosen = FALSE /\ cfg = [len |-> 0] /\ hist = <<>> /\ ncmd = 0
Choose ==
  /\ ~chosen /\ chosen' = TRUE
  /\ \E len \in 1..MaxLen, lo \in 0..MaxLen, hi \in 0..MaxLen, start \in 0..MaxLen, ls \in -1..MaxLen, le \in 0..MaxLen,
        rate \in Rates, pk \in {1, 2, 3, 7}, early \in 0..2 :
       /\ lo < hi /\ hi <= len /\ start < hi - lo
       /\ (ls = -1 \/ (ls < le /\ le <= hi - lo /\ start < le))
       /\ cfg' = [len |-> len, lo |-> lo, hi |-> hi, start |-> start, ls |-> ls, le |-> IF ls = -1 THEN -1 ELSE le,
                  rate |-> rate, pk |-> pk, early |-> early]
  /\ UNCHANGED <<hist, ncmd>>
Cmd ==
  /\ chosen /\ ncmd < MaxCmd /\ ncmd' = ncmd + 1
  /\ \E c \in {"pause", "resume", "stop", "volume", "panning", "rate"}, d \in {0, 2}, v \in {0, 1, 2} :
       hist' = Append(hist, [act |-> "Cmd", c |-> c, d |-> d, v |-> v])
  /\ UNCHANGED <<cfg, chosen>>
Cb == chosen /\ hist' = Append(hist, [act |-> "Callback"]) /\ ncmd' = 0 /\ UNCHANGED <<cfg, chosen>>
Next == Choose \/ Cmd \/ Cb
Spec == Init /\ [][Next]_<<cfg, hist, ncmd, chosen>>
Bound == Len(hist) <= D
Dump == Len(hist) = D => PrintT(<<"BEHAVIOUR", ToJson(<<cfg>> \o hist)>>)
=============================================================================
