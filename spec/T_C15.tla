------------------------------- MODULE T_C15 -------------------------------
(* Trace validation for C15: every session recorded from the real library   *)
(* (harness driver `c15`) is run through the property-level monitor P_C15.  *)
(* Rejected events are printed as BADEV lines with the name of the violated *)
(* clause.  A life-cycle session is abandoned at its first rejection (its   *)
(* events depend on each other); the renderings of a geometry session are   *)
(* judged one by one, so every rejected rendering is reported.              *)
EXTENDS P_C15, TLC, Json, IOUtils

Rec == ndJsonDeserialize(IOEnv.TRACE)

VARIABLES l, mon, mode, bad
tvars == <<l, mon, mode, bad>>

Say(tag, rec) == PrintT(<<tag, ToJson(rec)>>)

TInit == l = 1 /\ mon = PInit([kind |-> "none"]) /\ mode = "skip" /\ bad = 0
TNext ==
  /\ l <= Len(Rec)
  /\ l' = l + 1
  /\ LET e == Rec[l] IN
     IF e.a = "reset" THEN mon' = PInit(e) /\ mode' = "ok" /\ bad' = bad
     ELSE IF mode = "skip" \/ e.a = "end" THEN UNCHANGED <<mon, mode, bad>>
     ELSE LET r == Check(mon, e) IN
          IF r = "" THEN mon' = Upd(mon, e) /\ UNCHANGED <<mode, bad>>
          ELSE /\ bad' = bad + 1
               /\ Say("BADEV", [s |-> e.s, i |-> e.i, a |-> e.a, reason |-> r])
               /\ IF mon.kind = "life" THEN mode' = "skip" /\ mon' = mon
                  ELSE mode' = mode /\ mon' = Upd(mon, e)
TSpec == TInit /\ [][TNext]_tvars

\* acceptance: the whole file was consumed
Done == l = Len(Rec) + 1
Report == Done => PrintT(<<"CONSUMED", l - 1, Len(Rec), bad>>)
=============================================================================
