----------------------------- MODULE Gen_InSitu -----------------------------
(* Scenarios for the in-situ tween timing part of C06: parameter x internal *)
(* buffer size x callback pattern x tween duration x whether the owning      *)
(* track is paused while the tween runs.  A plain product, printed by TLC.   *)
EXTENDS Integers, Sequences, TLC, Json
Params == {"track_vol", "send_vol", "route_vol", "main_vol", "sound_vol", "track_pause", "sound_pause", "track_resume",
           "main_vol_up", "track_vol_up",
           \* positions and orientations of a spatial scene ("free": only ends and continuity are judged)
           "listener_turn", "listener_move", "emitter_move"}
Bufs == {4, 16}
Patterns == {"b", "b_plus_half", "ones", "threes", "big"}
Durs == {0, 3, 10, 24, 64}
VARIABLE sc
\* dbl: a command of the same kind, with another target and duration, is written in the same window just before
\* the one under test - it is superseded and must leave no trace (C07: last write wins)
Init == sc \in [param : Params, b : Bufs, pat : Patterns, d : Durs, paused : BOOLEAN, dbl : BOOLEAN]
Next == UNCHANGED sc
Spec == Init /\ [][Next]_sc
\* (pausing the owner only makes sense for a volume that sits on a sub-track or below it)
Meaningful == /\ sc.param \in {"listener_turn", "listener_move", "emitter_move"} => (~sc.paused /\ ~sc.dbl /\ sc.d > 0)
              /\ sc.paused => sc.param \in {"track_vol", "sound_vol", "route_vol"}
              /\ sc.dbl => (sc.param \in {"track_vol", "send_vol", "route_vol", "main_vol", "sound_vol"} /\ ~sc.paused /\ sc.pat \in {"b", "threes"})
Dump == Meaningful => PrintT(<<"BEHAVIOUR", ToJson(<<sc>>)>>)
=============================================================================
