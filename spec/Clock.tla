------------------------------- MODULE Clock -------------------------------
(* Implementation-level model of a kira clock                               *)
(*   crates/kira/src/clock.rs (Clock::on_start_processing, set_ticking,     *)
(*   reset, update_shared, update), clock/handle.rs (time, start, pause,    *)
(*   stop), info.rs (when_to_start), backend/resources/clocks.rs (update    *)
(*   through for_each: a clock looking up its own id finds the dummy),      *)
(*   and sounds whose start time is a clock time.                           *)
(* Time in 1/4 ticks; speeds in units per frame.  One action per stretch    *)
(* between yield points (clk.reset.mid, clk.pub.mid, clk.read.mid,          *)
(* clk.stop.mid): the two words of the published time are written and read  *)
(* separately, by two writers (audio thread and ClockHandle::stop).         *)
EXTENDS Integers, Sequences, FiniteSets, TLC, P_C05

CONSTANTS B,          \* internal buffer size (frames)
          Ns,         \* callback sizes
          Speeds,     \* speeds (units per frame)
          Targets,    \* clock times (units) for scheduled sounds / own-time speed changes
          Delays,     \* delays (frames) of delayed speed changes
          MaxCmd, MaxCb, MaxRd, MaxSched,
          OwnTime,    \* TRUE: allow speed changes scheduled on the clock's own time (known finding D11)
          Racy,       \* TRUE: on_start_processing reads its three command slots in separate steps (yield point cmd.r)
                      \*       and a stop() may fall between them
          ResetFirst, \* TRUE: the reset slot is read before the ticking slot (the code after fix D26); FALSE: before the fix
          WriteResetFirst  \* FALSE: stop() writes set_ticking(false), then reset (the code); TRUE: the other way round (a variant
                           \* kept for its counterexample: the read order above relies on this write order)

VARIABLES cst, qt, ticking, speed,
          pSpeed, pTick, pReset, ownPend,   \* command slots; speed tweens waiting for the clock's own time
          pDelay, tw,                       \* delay of the speed command in the slot; the delayed speed tween under way
          shT, shF, shTicking,              \* published words
          apc, acbN,                        \* audio: "idle" | "reset_mid" | "pub" | "pub_mid"; size of the running callback
          rpc, rT, spc,                     \* reader / stopper in the middle of their two-word access
          sched, firedNow,
          ncmd, cb, nrd, act, ev, mon, bad

ivars == <<cst, qt, ticking, speed, pSpeed, pTick, pReset, ownPend, pDelay, tw, shT, shF, shTicking, apc, acbN, rpc, rT, spc,
           sched, firedNow, ncmd, cb, nrd>>
vars == <<ivars, act, ev, mon, bad>>

Init ==
  /\ cst = "NotStarted" /\ qt = 0 /\ ticking = FALSE /\ speed = CHOOSE s \in Speeds : \A x \in Speeds : s <= x
  /\ pSpeed = -1 /\ pTick = "none" /\ pReset = FALSE /\ ownPend = <<>> /\ pDelay = 0 /\ tw = <<>>
  /\ shT = 0 /\ shF = 0 /\ shTicking = FALSE
  /\ apc = "idle" /\ acbN = 0 /\ rpc = "idle" /\ rT = 0 /\ spc = "idle"
  /\ sched = <<>> /\ firedNow = <<>>
  /\ ncmd = 0 /\ cb = 0 /\ nrd = 0
  /\ act = <<"Init">> /\ ev = [a |-> "tau"]
  /\ mon = [PInit(B) EXCEPT !.speed = CHOOSE s \in Speeds : \A x \in Speeds : s <= x] /\ bad = ""

Unch(vs) == UNCHANGED vs

\* ---------------------------------------------------------------- gameplay
CmdSimple(c, v) ==
  /\ ncmd < MaxCmd /\ spc = "idle" /\ mon.fuzzy = 0 /\ apc = "idle" /\ rpc = "idle" /\ ncmd' = ncmd + 1    \* (commands racing with their read: C07)
  /\ act' = <<"Cmd", c, v, 0>>
  /\ ev' = [a |-> "cmd", c |-> c, v |-> v, w |-> 0]
  /\ CASE c = "start" -> pTick' = "on" /\ UNCHANGED <<pSpeed, pReset, ownPend, pDelay>>
       [] c = "pause" -> pTick' = "off" /\ UNCHANGED <<pSpeed, pReset, ownPend, pDelay>>
       [] c = "speed" -> pSpeed' = v /\ pDelay' = 0 /\ UNCHANGED <<pTick, pReset, ownPend>>
  /\ UNCHANGED <<cst, qt, ticking, speed, tw, shT, shF, shTicking, apc, acbN, rpc, rT, spc, sched, firedNow, cb, nrd>>

\* start / pause written while a callback is running, after it has read its command slots: read by the next callback
CmdMid(c) ==
  /\ ~Racy /\ ncmd < MaxCmd /\ spc = "idle" /\ mon.fuzzy = 0 /\ apc \in {"pub", "pub_mid"} /\ rpc = "idle" /\ ncmd' = ncmd + 1
  /\ act' = <<"Cmd", c, 0, 0>>
  /\ ev' = [a |-> "cmd", c |-> c, v |-> 0, w |-> 0, mid |-> TRUE]
  /\ pTick' = IF c = "start" THEN "on" ELSE "off"
  /\ UNCHANGED <<pSpeed, pReset, ownPend, pDelay, cst, qt, ticking, speed, tw, shT, shF, shTicking, apc, acbN, rpc, rT, spc, sched, firedNow, cb, nrd>>

\* set_speed with a zero-length tween that starts d frames of audio time from now (same command slot as "speed")
CmdSpeedIn(v, d) ==
  /\ ~OwnTime /\ ncmd < MaxCmd /\ spc = "idle" /\ apc = "idle" /\ rpc = "idle" /\ ncmd' = ncmd + 1
  /\ act' = <<"Cmd", "speed_in", v, d>>
  /\ ev' = [a |-> "cmd", c |-> "speed_in", v |-> v, w |-> d]
  /\ pSpeed' = v /\ pDelay' = d
  /\ UNCHANGED <<cst, qt, ticking, speed, pTick, pReset, ownPend, tw, shT, shF, shTicking, apc, acbN, rpc, rT, spc, sched, firedNow, cb, nrd>>

\* set_speed with a tween that starts at this clock's own time w
CmdSpeedAt(v, w) ==
  /\ OwnTime /\ ncmd < MaxCmd /\ spc = "idle" /\ apc = "idle" /\ rpc = "idle" /\ ownPend = <<>> /\ ncmd' = ncmd + 1
  /\ act' = <<"Cmd", "speed_at", v, w>>
  /\ ev' = [a |-> "cmd", c |-> "speed_at", v |-> v, w |-> w]
  /\ ownPend' = <<[v |-> v, w |-> w]>>
  /\ UNCHANGED <<cst, qt, ticking, speed, pSpeed, pTick, pReset, pDelay, tw, shT, shF, shTicking, apc, acbN, rpc, rT, spc, sched, firedNow, cb, nrd>>

\* ClockHandle::stop, first half: both commands and the ticks word
StopA ==
  \* (a stop overlapping a callback or a read - two writers of the two words - is not explored: the handle is
  \*  used by one gameplay thread here, so both halves of the stop run without interruption)
  /\ ~Racy /\ ncmd < MaxCmd /\ spc = "idle" /\ apc = "idle" /\ rpc = "idle" /\ ncmd' = ncmd + 1
  /\ pTick' = "off" /\ pReset' = TRUE /\ shT' = 0 /\ shF' = 0 /\ spc' = "idle"
  /\ act' = <<"StopA">> /\ ev' = [a |-> "cmd", c |-> "stop", v |-> 0, w |-> 0]
  /\ UNCHANGED <<cst, qt, ticking, speed, pSpeed, ownPend, pDelay, tw, shTicking, apc, acbN, rpc, rT, sched, firedNow, cb, nrd>>
\* second half (after clk.stop.mid): the fraction word
StopB ==
  /\ spc = "mid" /\ shF' = 0 /\ spc' = "idle"
  /\ act' = <<"StopB">> /\ ev' = [a |-> "tau"]
  /\ UNCHANGED <<cst, qt, ticking, speed, pSpeed, pTick, pReset, ownPend, pDelay, tw, shT, shTicking, apc, acbN, rpc, rT, sched, firedNow, ncmd, cb, nrd>>

\* Racy: ClockHandle::stop as the two command writes it is (yield point cmd.w before each), anywhere relative to the
\* audio thread's reads.  StopBegin: the call has begun (nothing written); StopW1: set_ticking(false) written;
\* StopW2: reset written, both words of the published time stored as 0, the call returns
StopBegin ==
  /\ Racy /\ ncmd < MaxCmd /\ spc = "idle" /\ rpc = "idle" /\ mon.fuzzy = 0 /\ ~mon.lost /\ ncmd' = ncmd + 1 /\ spc' = "w0"
  /\ act' = <<"StopBegin">> /\ ev' = [a |-> "cmd", c |-> "stop_begin", v |-> 0, w |-> 0]
  /\ UNCHANGED <<cst, qt, ticking, speed, pSpeed, pTick, pReset, ownPend, pDelay, tw, shT, shF, shTicking, apc, acbN, rpc, rT, sched, firedNow, cb, nrd>>
StopW1 ==
  /\ spc = "w0" /\ spc' = "w1"
  /\ IF WriteResetFirst THEN pReset' = TRUE /\ UNCHANGED pTick ELSE pTick' = "off" /\ UNCHANGED pReset
  /\ act' = <<"StopW1">> /\ ev' = [a |-> "tau"]
  /\ UNCHANGED <<cst, qt, ticking, speed, pSpeed, ownPend, pDelay, tw, shT, shF, shTicking, apc, acbN, rpc, rT, sched, firedNow, ncmd, cb, nrd>>
StopW2 ==
  /\ spc = "w1" /\ spc' = "idle" /\ shT' = 0 /\ shF' = 0
  /\ IF WriteResetFirst THEN pTick' = "off" /\ UNCHANGED pReset ELSE pReset' = TRUE /\ UNCHANGED pTick
  /\ act' = <<"StopW2">> /\ ev' = [a |-> "cmd", c |-> "stop_end", v |-> 0, w |-> 0]
  /\ UNCHANGED <<cst, qt, ticking, speed, pSpeed, ownPend, pDelay, tw, shTicking, apc, acbN, rpc, rT, sched, firedNow, ncmd, cb, nrd>>

Sched(id, w) ==
  /\ Len(sched) < MaxSched /\ id = Len(sched) + 1 /\ apc = "idle" /\ rpc = "idle"
  /\ sched' = Append(sched, [id |-> id, w |-> w, fired |-> FALSE])
  /\ act' = <<"Sched", id, w>> /\ ev' = [a |-> "sched", id |-> id, w |-> w]
  /\ UNCHANGED <<cst, qt, ticking, speed, pSpeed, pTick, pReset, ownPend, pDelay, tw, shT, shF, shTicking, apc, acbN, rpc, rT, spc, firedNow, ncmd, cb, nrd>>

\* ClockHandle::time: ticks word, (clk.read.mid), fraction word
RdA ==
  /\ nrd < MaxRd /\ rpc = "idle" /\ spc = "idle" /\ rpc' = "mid" /\ rT' = shT /\ nrd' = nrd + 1
  /\ act' = <<"RdA">> /\ ev' = [a |-> "tau"]
  /\ UNCHANGED <<cst, qt, ticking, speed, pSpeed, pTick, pReset, ownPend, pDelay, tw, shT, shF, shTicking, apc, acbN, spc, sched, firedNow, ncmd, cb>>
RdB ==
  /\ rpc = "mid" /\ rpc' = "idle"
  /\ act' = <<"RdB">> /\ ev' = [a |-> "rd", t |-> rT * 4 + shF]
  /\ UNCHANGED <<cst, qt, ticking, speed, pSpeed, pTick, pReset, ownPend, pDelay, tw, shT, shF, shTicking, apc, acbN, rT, spc, sched, firedNow, ncmd, cb, nrd>>

\* ---------------------------------------------------------------- audio
\* on_start_processing: read commands; a reset stores the ticks word at once
RdSpeedSlot ==
  \* Parameter::set: an immediate zero-length tween is done at the first update (speed' = target); a delayed one counts down
  /\ speed' = IF pSpeed # -1 /\ pDelay = 0 THEN pSpeed ELSE speed
  /\ tw' = IF pSpeed = -1 THEN tw ELSE IF pDelay = 0 THEN <<>> ELSE <<[v |-> pSpeed, rem |-> pDelay]>>
  /\ pDelay' = 0 /\ pSpeed' = -1
RdTickSlot ==
  /\ ticking' = IF pTick = "on" THEN TRUE ELSE IF pTick = "off" THEN FALSE ELSE ticking
  /\ shTicking' = ticking' /\ pTick' = "none"
\* (next: where the audio thread parks after the last slot has been read)
RdResetSlot(next) ==
  /\ pReset' = FALSE
  \* without a reset the next yield point is clk.pub.mid, i.e. after the ticks word has been published
  /\ IF pReset THEN cst' = "NotStarted" /\ qt' = 0 /\ shT' = 0 /\ apc' = (IF next = "end" THEN "reset_mid" ELSE next)
     ELSE UNCHANGED <<cst, qt>> /\ (IF next = "end" THEN shT' = qt \div 4 /\ apc' = "pub_mid" ELSE UNCHANGED shT /\ apc' = next)

ABegin(n) ==
  /\ ~Racy /\ apc = "idle" /\ spc = "idle" /\ cb < MaxCb /\ acbN' = n
  /\ act' = <<"ABegin", n>> /\ ev' = [a |-> "tau"]
  /\ RdSpeedSlot /\ RdTickSlot /\ RdResetSlot("end")
  /\ UNCHANGED <<ownPend, shF, rpc, rT, spc, sched, firedNow, ncmd, cb, nrd>>

\* the same in four steps (Racy): the callback begins; the speed slot; the first and the second of {ticking, reset}
ABeginR(n) ==
  /\ Racy /\ apc = "idle" /\ cb < MaxCb /\ acbN' = n /\ apc' = "rd_speed"
  /\ act' = <<"ABeginR", n>> /\ ev' = [a |-> "cbstart"]
  /\ UNCHANGED <<cst, qt, ticking, speed, pSpeed, pTick, pReset, ownPend, pDelay, tw, shT, shF, shTicking, rpc, rT, spc, sched, firedNow, ncmd, cb, nrd>>
ARdSpeed ==
  /\ apc = "rd_speed" /\ apc' = "rd_a" /\ RdSpeedSlot
  /\ act' = <<"ARdSpeed">> /\ ev' = [a |-> "tau"]
  /\ UNCHANGED <<cst, qt, ticking, pTick, pReset, ownPend, shT, shF, shTicking, acbN, rpc, rT, spc, sched, firedNow, ncmd, cb, nrd>>
ARdA ==
  /\ apc = "rd_a"
  /\ act' = <<"ARdA">> /\ ev' = [a |-> "tau"]
  /\ IF ResetFirst THEN RdResetSlot("rd_b") /\ UNCHANGED <<ticking, shTicking, pTick>>
     ELSE RdTickSlot /\ apc' = "rd_b" /\ UNCHANGED <<cst, qt, shT, pReset>>
  /\ UNCHANGED <<speed, pSpeed, ownPend, pDelay, tw, shF, acbN, rpc, rT, spc, sched, firedNow, ncmd, cb, nrd>>
\* (after a reset in step A the ticks word is already 0; the ticks word proper is published by update_shared)
ARdB ==
  /\ apc = "rd_b"
  /\ act' = <<"ARdB">> /\ ev' = [a |-> "tau"]
  /\ IF ResetFirst THEN RdTickSlot /\ shT' = qt \div 4 /\ apc' = "pub_mid" /\ UNCHANGED <<cst, qt, pReset>>
     ELSE RdResetSlot("end") /\ UNCHANGED <<ticking, shTicking, pTick>>
  /\ UNCHANGED <<speed, pSpeed, ownPend, pDelay, tw, shF, acbN, rpc, rT, spc, sched, firedNow, ncmd, cb, nrd>>

\* update_shared: the ticks word (then clk.pub.mid)
APubTicks ==
  /\ apc \in {"reset_mid", "pub"} /\ apc' = "pub_mid"
  /\ shT' = qt \div 4
  /\ act' = <<"APubTicks">> /\ ev' = [a |-> "tau"]
  /\ UNCHANGED <<cst, qt, ticking, speed, pSpeed, pTick, pReset, ownPend, pDelay, tw, shF, shTicking, acbN, rpc, rT, spc, sched, firedNow, ncmd, cb, nrd>>

\* the fraction word, then all chunks of the callback (no shared writes in there)
RECURSIVE Run(_, _, _, _, _, _, _, _)
\* returns <<qt', cst', sched', fired, speed', tw'>> after walking the chunks
Run(chs, f, q, st, sc, fired, sp0, tw0) ==
  IF chs = <<>> THEN <<q, st, sc, fired, sp0, tw0>>
  ELSE LET len == Head(chs)
           \* Clock::update begins with speed.update(dt) - whether or not the clock is ticking: a delayed tween whose time
           \* has run out starts (and, being zero-length, ends) now; otherwise its remaining delay shrinks by the chunk
           sp == IF tw0 # <<>> /\ tw0[1].rem = 0 THEN tw0[1].v ELSE sp0
           tw1 == IF tw0 = <<>> \/ tw0[1].rem = 0 THEN <<>> ELSE <<[tw0[1] EXCEPT !.rem = IF @ > len THEN @ - len ELSE 0]>>
           st1 == IF ticking /\ st = "NotStarted" THEN "Started" ELSE st
           q1 == IF ticking THEN q + sp * len ELSE q
           hit == {k \in 1..Len(sc) : ~sc[k].fired /\ ticking /\ q1 >= sc[k].w}
           sc1 == [k \in 1..Len(sc) |-> IF k \in hit THEN [sc[k] EXCEPT !.fired = TRUE] ELSE sc[k]]
           \* (a speed tween waiting for this clock's own time looks the clock up in an arena where it has been
           \*  swapped for a dummy that never ticks: it never starts - finding D11)
       IN Run(Tail(chs), f + len, q1, st1, sc1, fired \o [j \in 1..Cardinality(hit) |->
                <<sc[CHOOSE k \in hit : Cardinality({h \in hit : h < k}) = j - 1].id, f>>], sp, tw1)

APubFracAndRun ==
  /\ apc = "pub_mid" /\ apc' = "idle" /\ cb' = cb + 1
  /\ shF' = qt % 4
  /\ LET r == Run(Chunks(acbN, B), 0, qt, cst, sched, <<>>, speed, tw) IN
     /\ qt' = r[1] /\ cst' = r[2] /\ sched' = r[3] /\ firedNow' = r[4] /\ speed' = r[5] /\ tw' = r[6]
     /\ ev' = [a |-> "cb", n |-> acbN, t |-> IF rpc = "mid" \/ spc # "idle" THEN -1 ELSE shT * 4 + (qt % 4),
                    ticking |-> IF rpc = "mid" \/ spc # "idle" THEN -1 ELSE IF shTicking THEN 1 ELSE 0, fired |-> r[4], panicked |-> FALSE]
  /\ act' = <<"ARun">>
  /\ UNCHANGED <<ticking, pSpeed, pTick, pReset, ownPend, pDelay, shT, shTicking, acbN, rpc, rT, spc, ncmd, nrd>>

INext == \/ \E c \in {"start", "pause"} : CmdSimple(c, 0)
         \/ \E c \in {"start", "pause"} : CmdMid(c)
         \/ \E v \in Speeds : CmdSimple("speed", v)
         \/ \E v \in Speeds, w \in Targets : CmdSpeedAt(v, w)
         \/ \E v \in Speeds, d \in Delays : CmdSpeedIn(v, d)
         \/ StopA \/ StopB \/ RdA \/ RdB
         \/ StopBegin \/ StopW1 \/ StopW2
         \/ \E w \in Targets : Sched(Len(sched) + 1, w)
         \/ \E n \in Ns : ABegin(n)
         \/ \E n \in Ns : ABeginR(n)
         \/ ARdSpeed \/ ARdA \/ ARdB
         \/ APubTicks \/ APubFracAndRun

Monitor ==
  LET r == Check(mon, ev') IN
  IF bad # "" THEN UNCHANGED <<mon, bad>>
  ELSE IF r # "" THEN bad' = r /\ UNCHANGED mon
  ELSE bad' = "" /\ mon' = Upd(mon, ev')

Next == INext /\ Monitor
Spec == Init /\ [][Next]_vars

\* known findings, characterised so that any other route to a violation still fails:
\* D10: a read or the quiescent time shows a mixture of two published times (two-word publication, two writers)
KnownD10 == bad \in {"read_shows_a_value_the_clock_had", "read_never_goes_backwards"}
\* D11: a speed change scheduled on the clock's own time never takes effect
KnownD11 == bad = "own_time_speed_change_takes_effect_when_due"
PropertyHolds == bad = "" \/ KnownD10 \/ KnownD11
PropertyHoldsSequential == bad = "" \/ KnownD11      \* (used when readers/stoppers never overlap a callback)
InternalTimeExact == (apc = "idle" /\ spc = "idle" /\ ~mon.stopOpen /\ ~mon.ownUsed /\ ~mon.pendReset /\ mon.fuzzy = 0 /\ ~mon.lost /\ bad = "") => qt = mon.ref
W_RacyStop == ~(mon.fuzzy > 0)
W_Torn == ~KnownD10
W_Own == ~KnownD11
\* (witness: a delayed speed change whose delay ran out while the clock was not ticking)
W_DelayRanOutWhileNotTicking == ~(tw # <<>> /\ tw[1].rem = 0 /\ ~ticking /\ apc = "idle")
W_Fired == \A k \in 1..Len(sched) : ~sched[k].fired
=============================================================================
