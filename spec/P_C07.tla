------------------------------ MODULE P_C07 ------------------------------
(* Property-level specification of C07 (handle commands reach the audio     *)
(* thread exactly once; last write wins; none torn), from the statement.    *)
(*                                                                          *)
(* Two monitors.                                                            *)
(*                                                                          *)
(* (A) The channel monitor watches ONE command writer/reader pair through   *)
(* begin/end events of its operations (interval semantics, so that it is    *)
(* valid for overlapping operations of two threads):                        *)
(*   wb v | we v      write(v) begins / has returned     (values are unique)*)
(*   rb   | re res    read() begins / returned res (0 = nothing)            *)
(* A read must return the newest write that completed before the read began *)
(* and was not consumed yet, or a write that overlaps the read; it returns  *)
(* nothing only if no completed unconsumed write existed when it began; a   *)
(* value is returned at most once and never after a newer one; the result   *)
(* is a value that was written (never a mixture: `torn`).                   *)
(*                                                                          *)
(* (B) The handle monitor watches the observable effect of every setter of  *)
(* a scene, per key (resource, kind), in unraced histories:                 *)
(*   w key v          a setter was called                                   *)
(*   cb obs           a callback ended; obs[key] = the value in force now   *)
(* Per key: nothing written since the last callback => the value in force   *)
(* is unchanged; otherwise it is the last value written (also for writes    *)
(* issued before the resource's first callback); keys do not influence each *)
(* other.  "jump" keys (seeks) are observed as a displacement that must be  *)
(* 0 when nothing was written, else the last written one, to within a frame.*)
EXTENDS Integers, FiniteSets, Sequences

\* ---------------------------------------------------------------- (A) channel
CInit == [ done |-> <<>>,      \* completed, not yet consumed writes, oldest first
           infl |-> 0,         \* value of the write in progress (0 = none)
           rd |-> FALSE,       \* a read is in progress
           atBegin |-> 0,      \* newest completed unconsumed write when the read began (0 = none)
           over |-> {},        \* writes that overlap the read in progress
           consumed |-> 0 ]    \* newest value ever returned

CCheck(m, e) ==
  CASE e.a = "wb" -> IF m.infl # 0 THEN "harness_two_writers" ELSE ""
    [] e.a = "we" -> IF m.infl # e.v THEN "harness_write_mismatch" ELSE ""
    [] e.a = "rb" -> IF m.rd THEN "harness_two_readers" ELSE ""
    [] e.a = "re" ->
         IF e.torn THEN "not_torn"
         ELSE IF e.res = 0 THEN (IF m.atBegin # 0 THEN "not_lost_or_late" ELSE "")
         ELSE IF e.res <= m.consumed THEN "applied_once_newest_wins"
         ELSE IF e.res \notin ({m.atBegin} \cup m.over) \ {0} THEN
              (IF \E j \in 1..Len(m.done) : m.done[j] = e.res THEN "last_write_wins" ELSE "value_never_written")
         ELSE ""
    [] OTHER -> ""

CUpd(m, e) ==
  CASE e.a = "wb" -> [m EXCEPT !.infl = e.v, !.over = IF m.rd THEN @ \cup {e.v} ELSE @]
    \* (a read that overlapped this write may already have returned it before the write was seen to return)
    [] e.a = "we" -> [m EXCEPT !.infl = 0, !.done = IF e.v <= m.consumed THEN @ ELSE Append(@, e.v)]
    [] e.a = "rb" -> [m EXCEPT !.rd = TRUE,
                               !.atBegin = IF m.done = <<>> THEN 0 ELSE m.done[Len(m.done)],
                               !.over = IF m.infl # 0 THEN {m.infl} ELSE {}]
    [] e.a = "re" -> [m EXCEPT !.rd = FALSE, !.over = {},
                               !.consumed = IF e.res = 0 THEN @ ELSE e.res,
                               !.done = IF e.res = 0 THEN @ ELSE SelectSeq(@, LAMBDA v : v > e.res)]
    [] OTHER -> m

\* ---------------------------------------------------------------- (B) handles
\* One key = one command kind of one resource.  Level keys are observed as the value in force after
\* the callback.  The jump key of a sound carries seek_to ([k |-> "abs", x |-> frame]) or seek_by
\* ([k |-> "rel", x |-> frames]) - two command kinds that act on the same observable, so the drivers
\* write only one of the two kinds between two callbacks - and is observed as the last source frame
\* heard in the callback (obs), next to the frame that would have been heard last had nothing been
\* written (cont); a seek may take up to the interpolator's four frames to be heard (C04), hence the
\* window [-4, +1] around the expected frame.
\* pend[k] = <<>> (nothing written since the last callback) or <<v>> (the last value written)
\* The key "m.dset" carries commands with a start delay, [x |-> value, dl |-> callbacks]: read at callback K, the value is
\* in force from callback K + dl on - unless a later command has been read by then, which replaces it whole
\* ("none is applied late": a superseded command never takes effect).  later[k] = <<>> or <<[x, n]>>, n callbacks to go.
IsDl(k) == k = "m.dset"
\* The key "st.seek" is the seek_to of a STREAMING sound: it takes effect "at the decoder's next step", so it is heard
\* once the frames buffered before that step have been played - at most the frame ring (m.ring frames) plus the
\* interpolator's window later.  pend[k] is then the sequence of outstanding seeks [x, age] (age = callbacks gone by):
\* a jump must land on an outstanding target (which settles it and every earlier one), the newest one must land in time,
\* and without an outstanding seek the sound just continues.  obs = last frame heard, cont = last frame had nothing jumped.
IsSj(k) == k = "st.seek"
\* (m.dry = 1 after the frame ring ran dry - a "held" event of the driver: a decoder that did not deliver in time.  The first frame
\*  that arrives after an underrun takes the place of "the previous frame" of the interpolator and is not heard itself: one frame more)
SjLanded(m, e, k) == {i \in 1..Len(m.pend[k]) : m.pend[k][i].x <= e.obs[k] /\ e.obs[k] <= m.pend[k][i].x + e.n - 1 + m.dry}
SjBad(m, e, k) ==
  IF e.obs[k] = e.cont[k]
  THEN (IF \E i \in 1..Len(m.pend[k]) : (m.pend[k][i].age + 1) * e.n > m.ring + 2 * e.n + 8 THEN "seek_heard_within_ring_latency" ELSE "")
  ELSE IF SjLanded(m, e, k) # {} THEN ""
  ELSE IF m.pend[k] = <<>> THEN "no_effect_without_command_and_not_reapplied"
  ELSE "seek_lands_on_requested_frame"
SjPend(m, e, k) ==
  LET rest == IF e.obs[k] = e.cont[k] \/ SjLanded(m, e, k) = {} THEN m.pend[k]
              ELSE LET i == CHOOSE j \in SjLanded(m, e, k) : \A h \in SjLanded(m, e, k) : h <= j IN SubSeq(m.pend[k], i + 1, Len(m.pend[k]))
  IN [j \in 1..Len(rest) |-> [rest[j] EXCEPT !.age = @ + 1]]
HInit(init) == [ val |-> init, pend |-> [k \in DOMAIN init |-> <<>>], later |-> [k \in DOMAIN init |-> <<>>], ring |-> 0, dry |-> 0 ]

\* value in force after this callback / delayed command still waiting after it, for a delayed key
DlVal(m, k) == IF m.pend[k] # <<>> THEN (IF m.pend[k][1].dl = 0 THEN m.pend[k][1].x ELSE m.val[k])
               ELSE IF m.later[k] # <<>> /\ m.later[k][1].n = 1 THEN m.later[k][1].x ELSE m.val[k]
DlLater(m, k) == IF m.pend[k] # <<>> THEN (IF m.pend[k][1].dl = 0 THEN <<>> ELSE <<[x |-> m.pend[k][1].x, n |-> m.pend[k][1].dl]>>)
                 ELSE IF m.later[k] = <<>> \/ m.later[k][1].n = 1 THEN <<>> ELSE <<[m.later[k][1] EXCEPT !.n = @ - 1]>>

\* ... or one callback earlier: a delay that runs out exactly at the end of an update may be honoured by that update (C06 grants
\* tweens "one update of timing"); the observation tells which, and the monitor follows it
DlEarly(m, k) == IF m.pend[k] # <<>> THEN (IF m.pend[k][1].dl <= 1 THEN m.pend[k][1].x ELSE m.val[k])
                 ELSE IF m.later[k] # <<>> /\ m.later[k][1].n <= 2 THEN m.later[k][1].x ELSE m.val[k]
TookEarly(m, e, k) == IsDl(k) /\ "obs" \in DOMAIN e /\ DlEarly(m, k) # DlVal(m, k) /\ e.obs[k] = DlEarly(m, k)

Expected(m, e, k) ==
  IF IsDl(k) THEN DlVal(m, k)
  ELSE IF e.jump[k] = "no" THEN (IF m.pend[k] = <<>> THEN m.val[k] ELSE m.pend[k][1])
  ELSE IF m.pend[k] = <<>> THEN e.cont[k]
  ELSE IF m.pend[k][1].k = "abs" THEN m.pend[k][1].x + e.n - 1      \* seek_to(frame x)
  \* seek_by(x frames): a target before the beginning of the sound lands on its first frame
  ELSE IF e.cont[k] + m.pend[k][1].x < e.n - 1 THEN e.n - 1 ELSE e.cont[k] + m.pend[k][1].x

\* playback-state keys: the command is seen to have taken effect when the handle reports a state of its family - pausing or
\* paused, resuming or playing; when exactly a fade-driven step is reported is C03's business ("to within one callback"), and for
\* tracks no statement fixes it
RunKey(k) == k \in {"s1.run", "s2.run", "t.run", "ps.run", "pn.run"}
Fam(v) == IF v \in {"Paused", "Pausing"} THEN "p" ELSE IF v \in {"Playing", "Resuming"} THEN "r" ELSE v

Wrong(m, e) ==
  { k \in DOMAIN m.val :
      IF IsSj(k) THEN SjBad(m, e, k) # ""
      ELSE IF IsDl(k) THEN e.obs[k] \notin {DlVal(m, k), DlEarly(m, k)}
      ELSE IF RunKey(k) THEN Fam(e.obs[k]) # Fam(Expected(m, e, k))
      ELSE IF e.jump[k] = "no" THEN e.obs[k] # Expected(m, e, k)
      ELSE e.obs[k] - Expected(m, e, k) > 1 \/ Expected(m, e, k) - e.obs[k] > 4 }

HCheck(m, e) ==
  CASE e.a = "w" -> IF e.key \notin DOMAIN m.val THEN "harness_unknown_key" ELSE ""
    [] e.a = "cb" ->
         IF e.panicked THEN "no_panic"
         ELSE IF Wrong(m, e) = {} THEN ""
         ELSE LET k == CHOOSE x \in Wrong(m, e) : TRUE IN
              IF IsSj(k) THEN SjBad(m, e, k)
              ELSE IF IsDl(k) /\ m.pend[k] = <<>> /\ m.later[k] # <<>> THEN "delayed_command_applied_when_due_unless_superseded"
              ELSE IF m.pend[k] = <<>> THEN "no_effect_without_command_and_not_reapplied"
              ELSE "last_write_applied_at_next_callback"
    [] e.a = "panic" -> "no_panic"
    \* a seek to or beyond the end of a streaming sound, read by the decoder at its next step, ends the audio: once what was buffered
    \* before it has been played (the driver renders ring / n + 12 callbacks) the sound has finished - as a static sound would have
    [] e.a = "fin" -> IF e.state # "Stopped" THEN "seek_to_the_end_ends_the_sound" ELSE ""
    \* the ring ran dry with a seek outstanding: the sound waits for its audio, it has not finished
    [] e.a = "held" -> IF e.state \in {"Stopped", "panic"} /\ \E k \in DOMAIN m.val : IsSj(k) /\ m.pend[k] # <<>> THEN "last_write_applied_at_next_callback" ELSE ""
    [] OTHER -> ""

HUpd(m, e) ==
  CASE e.a = "w" -> IF IsSj(e.key) THEN [m EXCEPT !.pend[e.key] = Append(@, [x |-> e.v.x, age |-> 0])]
                    ELSE [m EXCEPT !.pend[e.key] = <<e.v>>]
    [] e.a = "cb" -> [m EXCEPT !.val = [k \in DOMAIN m.val |->
                                         IF TookEarly(m, e, k) THEN DlEarly(m, k)
                                         ELSE IF IsDl(k) THEN DlVal(m, k)
                                         ELSE IF IsSj(k) \/ m.pend[k] = <<>> \/ e.jump[k] # "no" THEN m.val[k] ELSE m.pend[k][1]],
                               !.later = [k \in DOMAIN m.val |-> IF TookEarly(m, e, k) THEN <<>> ELSE IF IsDl(k) THEN DlLater(m, k) ELSE <<>>],
                               !.pend = [k \in DOMAIN m.val |-> IF IsSj(k) THEN SjPend(m, e, k) ELSE <<>>]]
    [] e.a = "held" -> [m EXCEPT !.dry = 1]
    [] OTHER -> m
=============================================================================
