---------------------------- MODULE Gen_Spatial ----------------------------
(* Behaviour generator for Spatial (spec -> implementation replay): a       *)
(* history variable turns states into paths; every printed line is one      *)
(* behaviour = the list of events (action, arguments, and for callbacks the *)
(* observation the model expects).                                          *)
EXTENDS Spatial, Json
CONSTANT D
VARIABLE hist
GInit == Init /\ hist = <<>>
GNext == Next /\ hist' = Append(hist, ev')
GSpec == GInit /\ [][GNext]_<<vars, hist>>
Bound == Len(hist) <= D
GView == <<ivars, ev, mon, bad>>   \* witness search: states are deduplicated without the history
Emit == PrintT(<<"BEHAVIOUR", ToJson(hist)>>)
\* bounded exhaustive: every behaviour of exactly D steps that ends with a callback
Dump == (Len(hist) = D /\ ev.a = "cb") => Emit
\* random simulation: print when the depth is reached
DumpSim == Len(hist) = D => Emit
\* directed witnesses: the first behaviour reaching the situation is printed and TLC stops
WG_Reuse == W_Reuse \/ ~Emit
WG_Maybe == W_Maybe \/ ~Emit
WG_Hold == W_Hold \/ ~Emit
WG_NestedSilent == W_NestedSilent \/ ~Emit
WG_Foreign == W_Foreign \/ ~Emit
WG_Bad == PropertyHolds \/ ~Emit
=============================================================================
