\* quick (the same constants checks/c13.py uses): every input of N = 7 samples over {0, 1}, EVERY partition of it into
\* process calls of 1..7 frames, delay d = 1..3 frames, feedback gain 0/1, gain 0/1 nested in the feedback path, mix dry/wet.
\* Model of delay.rs as it is (SubFrameFixed = FALSE).
\* Measured: 352 256 distinct states, depth 12, about 20 s on 4 workers.
\* PropertyHolds = the model satisfies the P_C13 monitor (echo definition, dry identity, silence) in every state; Strict = without
\* the named known finding; BufferIsLine / OutputSoFar = chunk independence stated on the state.
\* checks/c13.py additionally runs Ds = {0} (delay shorter than a frame: PropertyHolds holds only through KnownFinding_SubFrameDelay,
\* W_ZeroDelayPanics must be violated) and the reachability witnesses W_* (each must be violated) with N = 6, Ds = {1, 2}.
SPECIFICATION Spec
CONSTANTS
  N = 7
  Vals = {0, 1}
  Ds = {1, 2, 3}
  NGs = {0, 1}
  B = 7
  InMode = "all"
  SubFrameFixed = FALSE
INVARIANTS PropertyHolds Strict TypeOK BufferIsLine OutputSoFar
CHECK_DEADLOCK FALSE
