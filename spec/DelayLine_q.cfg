\* quick: every input of N = 8 samples over {0, 1}, every partition into process calls of 1..8 frames,
\* delay d = 1..3 frames, feedback gain 0/1, nested gain 0/1, mix dry/wet.  Model of delay.rs as it is.
\* PropertyHolds = the model satisfies the P_C13 monitor (echo definition, dry identity, silence) in every state;
\* BufferIsLine / OutputSoFar = chunk independence on the state.  W_* (checks/c13.py) must each be violated.
\* d = 0 (delay shorter than a frame, known finding) is checked separately (checks/c13.py, DelayLine with Ds = {0}).
SPECIFICATION Spec
CONSTANTS
  N = 8
  Vals = {0, 1}
  Ds = {1, 2, 3}
  NGs = {0, 1}
  B = 8
  InMode = "all"
  SubFrameFixed = FALSE
INVARIANTS PropertyHolds Strict TypeOK BufferIsLine OutputSoFar
CHECK_DEADLOCK FALSE
