\* quick (the same constants checks/c13.py uses): every input of N = 8 samples over {0, 1}, EVERY partition of it into
\* process calls of 1..8 frames, delay d = 1..3 frames, feedback gain 0/1, gain 0/1 nested in the feedback path, mix dry/wet.
\* Model of delay.rs as it is (SubFrameFixed = FALSE).
\* Measured: 948 224 distinct states (1 292 288 generated), depth 13, 15 s (idle machine) to 45 s (loaded) on 4 workers.
\* PropertyHolds = the model satisfies the P_C13 monitor (echo definition, dry identity, silence) in every state; Strict = without
\* the named known finding; BufferIsLine / OutputSoFar = chunk independence stated on the state.
\* checks/c13.py additionally runs Ds = {0} (delay shorter than a frame: PropertyHolds holds only through KnownFinding_SubFrameDelay,
\* W_ZeroDelayPanics must be violated) and the reachability witnesses W_* (each must be violated) with N = 6, Ds = {1, 2}.
SPECIFICATION Spec
CONSTANTS
  N = 8
  Vals = {0, 1}
  Ds = {1, 2, 3}
  NGs = {0, 1}
  B = 8
  InMode = "all"
  SubFrameFixed = FALSE
INVARIANTS PropertyHolds Strict TypeOK BufferIsLine OutputSoFar
CHECK_DEADLOCK FALSE
