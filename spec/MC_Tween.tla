------------------------------ MODULE MC_Tween ------------------------------
EXTENDS Tween
\* `prev` and `ev` are write-only (observations); they are hidden from the state identity
View == <<st, start, target, time, dur, ease, sk, delayLeft, ctgt, raw, stagnant, cpos, ticking, nsets, total, mon, bad>>
\* constant values that a .cfg file cannot spell (negative numbers, tuples)
Grid3 == {-1, 0, 2}
Grid5 == {-2, -1, 0, 1, 2}
Grid2 == {-1, 1}
EaseLin == {<<"lin", 1>>}
Ease2 == {<<"lin", 1>>, <<"in", 2>>}
Ease4 == {<<"lin", 1>>, <<"in", 2>>, <<"out", 2>>, <<"inout", 2>>}
Ease7 == Ease4 \cup {<<"in", 3>>, <<"out", 3>>, <<"inout", 3>>}
=============================================================================
