------------------------------ MODULE Surface ------------------------------
(* The public API of kira as an environment grammar (C01): configurations x  *)
(* histories of builder and handle calls with arguments drawn from a          *)
(* boundary alphabet x device callbacks of arbitrary sizes.  The "system" is  *)
(* only required to answer every callback in a well-formed way (P_C01); this  *)
(* module generates the histories, the harness (driver c01) interprets them.  *)
(*                                                                            *)
(* Every call is [act, p] with p a tuple of small indices into the tables of  *)
(* harness/src/bin/c01.rs:                                                    *)
(*   buffer sizes {1,2,3,128}; rates {8,100,44100} Hz; channels 1..8;         *)
(*   capacities {0,1,4}; callback sizes {1,2,3,64,0};                         *)
(*   decibels {-60,-6,0,12,-1e30,200}; panning {-1,0,1,2,-7.5};               *)
(*   playback rates {0,.5,1,4,-.5,-1,-4,1e6}; durations {0,1ns,1ms,1s,3000s}; *)
(*   seconds {0,.1,1,-1,1e9,.3}; hertz {0,1e-9,50,1e5,-3,20000};              *)
(*   unit values {0,.5,1,-1,2,1e9}; loop regions {none, whole, empty 2..2,    *)
(*   inverted 3..1, beyond 50..60, 1..end}; sound lengths {0,1,2,5,40};       *)
(*   start positions {0,1,3,9,1000}; start times {now, delayed 0, 1ns, clock} *)
EXTENDS Integers, Sequences, FiniteSets, TLC, Json

CONSTANTS D, MaxP
VARIABLES cfg, hist, stage, cur
Acts == {"add_static", "add_stream", "add_track", "add_send", "add_listener", "add_spatial", "add_clock", "add_tweener",
         "add_lfo", "link", "snd_cmd", "str_cmd", "trk_cmd", "spa_cmd", "clk_cmd", "mod_cmd", "fx_cmd", "drop", "rate", "cb"}
Arity(a) == CASE a = "add_static" -> 11 [] a = "add_stream" -> 8 [] a = "add_track" -> 7 [] a = "add_send" -> 3
              [] a = "add_spatial" -> 4 [] a = "add_lfo" -> 5 [] a = "link" -> 4 [] a \in {"add_clock", "fx_cmd"} -> 2
              [] a \in {"snd_cmd", "str_cmd", "trk_cmd", "spa_cmd", "clk_cmd", "mod_cmd"} -> 3 [] OTHER -> 1
Init == stage = 0 /\ cfg = [buf |-> 0] /\ hist = <<>> /\ cur = [act |-> "", p |-> <<>>]
\* a call is chosen field by field (small branching per step): the action, then one argument index at a time
Next ==
  \/ /\ stage = 0 /\ stage' = 1 /\ UNCHANGED <<hist, cur>>
     /\ \E b \in 0..3, r \in 0..2, c \in 0..7, k \in 0..2 : cfg' = [buf |-> b, rate |-> r, ch |-> c, cap |-> k]
  \/ /\ stage = 1 /\ cur.act = "" /\ UNCHANGED <<cfg, stage, hist>>
     /\ \E a \in Acts \cup {"cb", "cb", "snd_cmd"} : cur' = [act |-> a, p |-> <<>>]
  \/ /\ stage = 1 /\ cur.act # "" /\ Len(cur.p) < Arity(cur.act) /\ UNCHANGED <<cfg, stage, hist>>
     /\ \E x \in 0..MaxP : cur' = [cur EXCEPT !.p = Append(@, x)]
  \/ /\ stage = 1 /\ cur.act # "" /\ Len(cur.p) = Arity(cur.act) /\ UNCHANGED <<cfg, stage>>
     /\ hist' = Append(hist, cur) /\ cur' = [act |-> "", p |-> <<>>]
Spec == Init /\ [][Next]_<<cfg, hist, stage, cur>>
Bound == Len(hist) <= D
Dump == Len(hist) = D => PrintT(<<"BEHAVIOUR", ToJson(<<cfg>> \o hist)>>)
=============================================================================
