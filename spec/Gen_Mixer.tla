------------------------------ MODULE Gen_Mixer ------------------------------
EXTENDS MC_Mixer, Json
CONSTANT D
VARIABLE hist
GInit == Init /\ hist = <<>>
Step == IF act'[1] = "Op" THEN [act |-> "Op", o |-> act'[2], x |-> act'[3], ev |-> ev']
        ELSE [act |-> "Callback", n |-> act'[2], ev |-> ev']
GNext == Next /\ hist' = Append(hist, Step)
GSpec == GInit /\ [][GNext]_<<vars, hist>>
Bound == Len(hist) <= D
\* the scene and buffer size travel with the behaviour (first element)
Dump == (Len(hist) = D) => PrintT(<<"BEHAVIOUR", ToJson(<<[sc |-> sc, b |-> b]>> \o hist)>>)
=============================================================================
