------------------------------ MODULE P_C06 ------------------------------
(* Property-level specification of C06 (tweens start on time, follow their  *)
(* easing, end exactly on target, never jump), written from the property    *)
(* statement as a deterministic monitor over events.                        *)
(*                                                                          *)
(* One monitor instance watches ONE tweenable parameter.  Time is counted   *)
(* in integer units (the harness uses 1 unit = 1/8 s); values are integers  *)
(* (the real value times a per-session power-of-two scale).                 *)
(*                                                                          *)
(*   set  tgt dur ease p sk delay ctgt                                      *)
(*          "move to tgt over dur units with easing ease/p (lin, in, out,   *)
(*          inout; integer power p; free = some monotone curve from 0 to 1  *)
(*          that is not modelled), starting immediately (sk = imm), after   *)
(*          delay units (del) or when the clock reaches position ctgt (clk)"*)
(*   upd  dt ticking cpos | val prev fin exact coh ia ih ib                 *)
(*          one update of dt units; (ticking, cpos) is the state of the     *)
(*          clock shown to this update.  Observed: value, previous value,   *)
(*          the just-finished flag, exact = value is bit-identical to the   *)
(*          target of the last set, coh = all components of a vector value  *)
(*          agree, ia/ih/ib = the chunk interpolation at 0, 1/2 (doubled),  *)
(*          and 1.                                                          *)
(*   panic                                                                  *)
(*                                                                          *)
(* Slack ("to within one update of timing"): a tween whose start time falls *)
(* strictly inside an update may begin anywhere between its start time and  *)
(* the end of that update.  The monitor therefore keeps two elapsed times:  *)
(* hi (since the start time itself) and lo (since the end of the update in  *)
(* which the start time fell); the observed value must lie between the      *)
(* reference curve at lo and at hi.  A start time that coincides with an    *)
(* update boundary (every immediate tween, an aligned delay) leaves no      *)
(* slack: lo = hi and the curve must be met exactly.                        *)
EXTENDS Integers

Min(a, b) == IF a < b THEN a ELSE b
Max(a, b) == IF a > b THEN a ELSE b
Pow(b, p) == IF p = 1 THEN b ELSE IF p = 2 THEN b * b ELSE b * b * b

\* floor(a * n / d) for d > 0, 0 <= n <= d, without leaving 32 bits
MulDiv(a, n, d) == (a \div d) * n + ((a % d) * n) \div d

\* ease(e / dur) = EaseNum / EaseDen for 0 < e < dur (the documented curves)
EaseDen(k, p, dur) == IF k = "lin" THEN dur ELSE IF k = "inout" THEN 2 * Pow(dur, p) ELSE Pow(dur, p)
EaseNum(k, p, e, dur) ==
  CASE k = "lin"   -> e
    [] k = "in"    -> Pow(e, p)
    [] k = "out"   -> Pow(dur, p) - Pow(dur - e, p)
    [] k = "inout" -> IF 2 * e < dur THEN Pow(2 * e, p) ELSE 2 * Pow(dur, p) - Pow(2 * dur - 2 * e, p)

PInit(v0, tol) ==
  [ cur  |-> v0,       \* the value observed last
    tol  |-> tol,      \* 0: values are exact on the session's grid; > 0: rounded projections
    ph   |-> "idle",   \* idle (no tween) | wait (start time not reached) | run
    from |-> v0, tgt |-> v0, dur |-> 0, ease |-> "lin", p |-> 1,
    sk   |-> "imm", wait |-> 0, ctgt |-> 0,
    lo   |-> 0, hi |-> 0,
    done |-> FALSE ]   \* a tween has ended and no other was requested since

\* start + (target - start) x ease(elapsed / duration); old value before, target after
Ref(m, e) == IF e <= 0 THEN m.from
             ELSE IF e >= m.dur THEN m.tgt
             ELSE m.from + MulDiv(m.tgt - m.from, EaseNum(m.ease, m.p, e, m.dur), EaseDen(m.ease, m.p, m.dur))

\* the tween is over once its duration has elapsed - but not before the first
\* update after its start ("a zero-duration tween takes effect at the next update")
Ended(m, e) == e > 0 /\ e >= m.dur

Between(v, a, b, tol) == v >= Min(a, b) - tol /\ v <= Max(a, b) + tol

\* the passage of e.dt units of time (and the clock state shown to this update)
Advance(m, e) ==
  IF m.ph = "wait" THEN
    IF m.sk = "del" THEN
      IF e.dt < m.wait THEN [m EXCEPT !.wait = @ - e.dt]
      ELSE [m EXCEPT !.ph = "run", !.wait = 0, !.hi = e.dt - m.wait, !.lo = 0]
    ELSE \* clk: reached somewhere inside this update
      IF e.ticking /\ e.cpos >= m.ctgt THEN [m EXCEPT !.ph = "run", !.hi = e.dt, !.lo = 0] ELSE m
  ELSE IF m.ph = "run" THEN [m EXCEPT !.hi = @ + e.dt, !.lo = @ + e.dt]
  ELSE m

CheckUpd(m, e) ==
  LET a == Advance(m, e) IN
  IF e.prev # m.cur THEN "previous_is_last_value"
  ELSE IF ~e.coh THEN "components_agree"
  ELSE IF e.ia # e.prev \/ e.ib # e.val
          \/ e.ih > e.prev + e.val + 1 + 2 * m.tol \/ e.ih < e.prev + e.val - 1 - 2 * m.tol
       THEN "interpolates_from_previous_value"
  ELSE IF a.ph = "idle" THEN
         IF e.val # m.cur THEN "holds_value_when_idle"
         ELSE IF e.fin THEN "no_spurious_finish"
         ELSE IF m.done /\ ~e.exact THEN "ends_exactly_on_target"
         ELSE ""
  ELSE IF a.ph = "wait" THEN
         IF e.val # m.cur THEN "keeps_old_value_until_start"
         ELSE IF e.fin THEN "no_spurious_finish"
         ELSE ""
  \* (a delayed or clock-started tween of zero duration whose start falls exactly on the end of this update: "from the end of
  \*  the tween onward equals the target" allows the target now, "takes effect at the next update" allows it one update later)
  ELSE IF a.hi = 0 /\ a.dur = 0 THEN
         IF e.fin /\ e.val = a.tgt /\ e.exact THEN ""
         ELSE IF ~e.fin /\ e.val = m.cur THEN ""
         ELSE "zero_duration_takes_effect_at_next_update"
  ELSE \* run
         IF ~Between(e.val, a.from, a.tgt, m.tol) THEN "stays_between_start_and_target"
         ELSE IF e.fin /\ ~Ended(a, a.hi) THEN "finish_not_before_end"
         ELSE IF ~e.fin /\ Ended(a, a.lo) THEN
                (IF a.dur = 0 THEN "zero_duration_takes_effect_at_next_update"
                 ELSE "finishes_when_duration_elapsed")
         ELSE IF e.fin /\ (e.val # a.tgt \/ ~e.exact) THEN "ends_exactly_on_target"
         \* ("free": a real-power easing, whose curve is numeric - only the other clauses apply)
         ELSE IF a.ease # "free" /\ ~Between(e.val, Ref(a, a.lo), Ref(a, a.hi), m.tol) THEN "follows_easing_curve"
         ELSE IF ~Between(e.val, m.cur, a.tgt, m.tol) THEN "moves_toward_target"
         ELSE ""

\* The first violated clause of the statement, or "" when the event is allowed.
Check(m, e) ==
  CASE e.a = "set" ->
         IF e.dur < 0 \/ e.p \notin 1..3 \/ e.ease \notin {"lin", "in", "out", "inout", "free"}
            \/ e.sk \notin {"imm", "del", "clk"} \/ e.delay < 0
         THEN "harness_bad_set" ELSE ""
    [] e.a = "upd" -> IF e.dt <= 0 THEN "harness_bad_dt" ELSE CheckUpd(m, e)
    [] e.a = "panic" -> "no_panic"
    [] OTHER -> ""

Upd(m, e) ==
  CASE e.a = "set" ->
         \* a new tween begins from the current (possibly mid-tween) value
         [m EXCEPT !.from = m.cur, !.tgt = e.tgt, !.dur = e.dur, !.ease = e.ease, !.p = e.p,
                   !.sk = e.sk, !.wait = e.delay, !.ctgt = e.ctgt, !.lo = 0, !.hi = 0, !.done = FALSE,
                   !.ph = IF e.sk = "imm" \/ (e.sk = "del" /\ e.delay = 0) THEN "run" ELSE "wait"]
    [] e.a = "upd" ->
         LET a == Advance(m, e) IN
         IF a.ph = "run" /\ e.fin THEN [a EXCEPT !.cur = e.val, !.ph = "idle", !.done = TRUE]
         ELSE [a EXCEPT !.cur = e.val]
    [] OTHER -> m
=============================================================================
