------------------------------ MODULE P_C05 ------------------------------
(* Property-level specification of C05 (clocks keep exact audio time;       *)
(* clock-scheduled events fire in the right buffer; handle reads are        *)
(* monotone and real), from the property statement.                         *)
(*                                                                          *)
(* Time is counted in 1/Q ticks (Q = 4): with speeds of 2, 4 or 8 ticks per *)
(* second at 8 Hz a clock advances 1, 2 or 4 units per frame, exactly.      *)
(*                                                                          *)
(* Events                                                                   *)
(*   cmd c v        start | pause | stop | speed (v units per frame, applied *)
(*                  with a zero-length tween) | speed_at (v; tween starting  *)
(*                  at the clock's own time w) | speed_in (v; zero-length    *)
(*                  tween that starts w frames of audio time after the       *)
(*                  command took effect - whether or not the clock ticks)    *)
(*   cbstart        a callback has begun reading its commands                 *)
(*   cmd stop_begin / stop_end   a stop() call seen as an interval (it is two *)
(*                  command writes): if a callback begins, runs or ends      *)
(*                  inside the interval, that callback and the next may each *)
(*                  see the stop in parts; "stopping resets it to zero" is   *)
(*                  checked once they have passed                            *)
(*   sched id w     a sound was scheduled to start at clock time w (units)   *)
(*   cb n t ticking fired    a callback of n frames ended; t = handle.time() *)
(*                  in units, fired = <<id, frame>> pairs: sounds first      *)
(*                  heard in this callback, at frame offset `frame`          *)
(*   rd t           handle.time() read by another thread at an arbitrary     *)
(*                  moment (schedule controlled through yield points)        *)
EXTENDS Integers, FiniteSets, Sequences

PInit(b) ==
  [ b |-> b,                 \* internal buffer size in frames
    ref |-> 0,               \* reference time (units) at the end of the last callback
    started |-> FALSE,       \* the clock has been started since the last stop
    ticking |-> FALSE, speed |-> 0,
    pendTick |-> "none", pendReset |-> FALSE, pendSpeed |-> -1, pendDelay |-> 0,
    early |-> FALSE,         \* which reading of a delayed change's due time this monitor follows (see Walk)
    del |-> <<>>,            \* a delayed speed change under way: <<[v, rem]>>, rem = frames of audio time still to pass
    held |-> {0},            \* values the clock has had at chunk boundaries since the last stop (what a read may show)
    lastRead |-> -1,
    sched |-> <<>>,          \* scheduled sounds: [id, w, fired]
    own |-> <<>>,            \* pending speed changes scheduled on the clock's own time: [v, w]
    ownUsed |-> FALSE,       \* such a change has been requested in this session
    inCb |-> FALSE,
    next |-> <<>>,            \* commands written while a callback was running: they are read by the next one
    settled |-> FALSE,       \* the window has just passed: the clock must now be stopped at zero          \* between cbstart and cb
    stopOpen |-> FALSE, stopRacy |-> FALSE,   \* a stop() call is in progress / a callback overlapped it
    fuzzy |-> 0,             \* callbacks (still to come) whose time is not checked: a stop raced with the command reads
    lost |-> FALSE,          \* another command arrived during that window: the reference time is no longer known
    frames |-> 0 ]           \* global frame counter

\* chunk lengths of a callback of n frames with internal buffer b
RECURSIVE Chunks(_, _)
Chunks(n, b) == IF n = 0 THEN <<>> ELSE IF n <= b THEN <<n>> ELSE <<b>> \o Chunks(n - b, b)

\* the internal chunks of a callback: as recorded (`chs`: how a callback is cut up is the renderer's business, as long as no
\* chunk is longer than the internal buffer and together they are the callback), or - in the model - full buffers and a rest
RECURSIVE SumSeq(_)
SumSeq(s) == IF s = <<>> THEN 0 ELSE Head(s) + SumSeq(Tail(s))
ChunksOf(m, e) == IF "chs" \in DOMAIN e THEN e.chs ELSE Chunks(e.n, m.b)
ChunksOK(m, e) == LET c == ChunksOf(m, e) IN SumSeq(c) = e.n /\ \A j \in 1..Len(c) : c[j] >= 1 /\ c[j] <= m.b

\* commands take effect at the start of the callback: speed, then ticking, then reset
AfterCmds(m) ==
  LET tk == IF m.pendTick = "on" THEN TRUE ELSE IF m.pendTick = "off" THEN FALSE ELSE m.ticking
      rf == IF m.pendReset THEN 0 ELSE m.ref
      st == IF m.pendReset THEN FALSE ELSE m.started
      now == m.pendSpeed # -1 /\ m.pendDelay = 0
      \* (a new speed command replaces a delayed one that has not begun)
      dl == IF m.pendSpeed = -1 THEN m.del ELSE IF m.pendDelay = 0 THEN <<>> ELSE <<[v |-> m.pendSpeed, rem |-> m.pendDelay]>>
  IN [m EXCEPT !.speed = IF now THEN m.pendSpeed ELSE m.speed, !.ticking = tk, !.ref = rf, !.started = st, !.del = dl,
               !.pendSpeed = -1, !.pendDelay = 0, !.pendTick = "none", !.pendReset = FALSE]

\* walk through the chunks: returns the sequence of records [start, end, t0, t1, ticking] per chunk
\* (an own-time speed change takes effect from the chunk after the one in which the clock reaches w at the latest)
\* (a delayed change takes effect from the first chunk that begins once its delay has passed, ticking or not)
RECURSIVE Walk(_, _, _, _, _, _, _, _)
\* (early: a delayed change takes effect in the chunk during which its delay runs out - the other reading of "when it is due,
\*  to within one update"; an implementation is one or the other throughout, see T_C05)
Walk(chs, f, t, sp0, tk, own, del, early) ==
  IF chs = <<>> THEN <<>>
  ELSE LET len == Head(chs)
           sp == IF del # <<>> /\ (del[1].rem = 0 \/ (early /\ del[1].rem <= len)) THEN del[1].v ELSE sp0
           del1 == IF del = <<>> \/ del[1].rem = 0 \/ (early /\ del[1].rem <= len) THEN <<>>
                   ELSE <<[del[1] EXCEPT !.rem = IF @ > len THEN @ - len ELSE 0]>>
           t1 == IF tk THEN t + sp * len ELSE t
           due == {j \in 1..Len(own) : tk /\ own[j].w <= t1}
           sp1 == IF due = {} THEN sp ELSE own[CHOOSE j \in due : \A k \in due : k <= j].v
           own1 == SelectSeq(own, LAMBDA o : ~(tk /\ o.w <= t1))
       IN <<[f0 |-> f, len |-> len, t0 |-> t, t1 |-> t1, tk |-> tk, sp |-> sp, spNext |-> sp1, delNext |-> del1]>>
          \o Walk(Tail(chs), f + len, t1, sp1, tk, own1, del1, early)

Boundaries(w) == {w[j].t0 : j \in 1..Len(w)} \cup {w[j].t1 : j \in 1..Len(w)}

\* the frame at which a sound scheduled for time x may start, given the chunk walk: the first chunk in which the
\* ticking clock reaches x; from that chunk's first frame up to the frame at which x is reached exactly
FireWindow(w, x) ==
  LET hit == {j \in 1..Len(w) : w[j].tk /\ w[j].t1 >= x} IN
  IF hit = {} THEN {}
  ELSE LET j == CHOOSE k \in hit : \A h \in hit : k <= h
           c == w[j]
           exact == IF c.t0 >= x THEN 0 ELSE ((x - c.t0) + c.sp - 1) \div c.sp IN
       c.f0..(c.f0 + exact)

Check(m, e) ==
  CASE e.a = "cb" ->
         LET m1 == AfterCmds(m)
             w == Walk(ChunksOf(m, e), 0, m1.ref, m1.speed, m1.ticking, m.own, m1.del, m.early)
             tEnd == IF w = <<>> THEN m1.ref ELSE w[Len(w)].t1
         IN
         IF e.panicked THEN "no_panic"
         ELSE IF ~ChunksOK(m, e) THEN "chunks_cover_the_callback_and_fit_the_internal_buffer"
         ELSE IF m.lost \/ m.fuzzy > 0 \/ m.stopOpen THEN ""
         ELSE IF m.settled /\ m.pendTick = "none" /\ (e.t > 0 \/ e.ticking = 1) THEN "stopping_resets_to_zero"
         ELSE IF e.t # -1 /\ e.t \notin Boundaries(w) \cup {m1.ref} THEN      \* (-1: the handle could not be read just then)
              (IF m.ownUsed THEN "own_time_speed_change_takes_effect_when_due" ELSE "advances_by_speed_times_audio_time")
         ELSE IF e.ticking # -1 /\ (e.ticking = 1) # m1.ticking THEN "ticking_follows_commands"    \* (1 / 0 / -1 unknown)
         ELSE IF \E j \in 1..Len(e.fired) :
                   LET s == CHOOSE k \in 1..Len(m.sched) : m.sched[k].id = e.fired[j][1] IN
                   e.fired[j][2] \notin FireWindow(w, m.sched[s].w) THEN "scheduled_event_fires_in_the_right_buffer"
         ELSE IF \E k \in 1..Len(m.sched) : ~m.sched[k].fired /\ FireWindow(w, m.sched[k].w) # {}
                   /\ ~(\E j \in 1..Len(e.fired) : e.fired[j][1] = m.sched[k].id) THEN "scheduled_event_never_late"
         ELSE ""
    [] e.a = "rd" ->
         IF e.t \notin m.held THEN "read_shows_a_value_the_clock_had"
         ELSE IF m.ticking /\ m.lastRead # -1 /\ e.t < m.lastRead THEN "read_never_goes_backwards"
         ELSE ""
    [] e.a = "panic" -> "no_panic"
    [] e.a = "hang" -> "returns_promptly"
    [] OTHER -> ""

PlainCmd(m, e) ==
  CASE e.c = "start" -> [m EXCEPT !.pendTick = "on"]
    [] e.c = "pause" -> [m EXCEPT !.pendTick = "off"]
    [] e.c = "stop"  -> [m EXCEPT !.pendTick = "off", !.pendReset = TRUE, !.held = {0}, !.lastRead = -1]
    [] e.c = "speed" -> [m EXCEPT !.pendSpeed = e.v, !.pendDelay = 0]
    [] e.c = "speed_in" -> [m EXCEPT !.pendSpeed = e.v, !.pendDelay = e.w]
    [] e.c = "speed_at" -> [m EXCEPT !.own = Append(@, [v |-> e.v, w |-> e.w]), !.ownUsed = TRUE]
    [] OTHER -> m
RECURSIVE Replay(_, _)
Replay(m, es) == IF es = <<>> THEN m ELSE Replay(PlainCmd(m, Head(es)), Tail(es))

Upd(m, e) ==
  CASE e.a = "cbstart" -> [m EXCEPT !.inCb = TRUE, !.stopRacy = @ \/ m.stopOpen]
    [] e.a = "cmd" /\ e.c = "stop_begin" ->
         IF m.fuzzy > 0 \/ m.lost \/ m.stopOpen THEN [m EXCEPT !.lost = TRUE]
         ELSE [m EXCEPT !.stopOpen = TRUE, !.stopRacy = m.inCb]
    [] e.a = "cmd" /\ e.c = "stop_end" ->
         IF ~m.stopOpen \/ m.lost THEN [m EXCEPT !.lost = TRUE]
         ELSE IF m.stopRacy \/ m.inCb
              \* the callback in progress (if any) and the next one are not checked
              THEN [m EXCEPT !.stopOpen = FALSE, !.stopRacy = FALSE, !.fuzzy = IF m.inCb THEN 2 ELSE 1, !.held = {0}, !.lastRead = -1]
              \* no callback overlapped the call: an ordinary stop
              ELSE [m EXCEPT !.stopOpen = FALSE, !.pendTick = "off", !.pendReset = TRUE, !.held = {0}, !.lastRead = -1]
    \* (any other command while a stop is in progress or its window is open: the reference is lost)
    [] e.a = "cmd" /\ (m.stopOpen \/ m.fuzzy > 0) -> [m EXCEPT !.lost = TRUE]
    \* (written while a callback is running, after it has read its commands: it belongs to the next callback)
    [] e.a = "cmd" /\ "mid" \in DOMAIN e /\ e.mid /\ e.c \in {"start", "pause"} -> [m EXCEPT !.next = Append(@, e)]
    [] e.a = "cmd" -> PlainCmd(m, e)
    [] e.a = "sched" -> [m EXCEPT !.sched = Append(@, [id |-> e.id, w |-> e.w, fired |-> FALSE])]
    [] e.a = "cb" ->
         LET m1 == AfterCmds(m)
             w == Walk(ChunksOf(m, e), 0, m1.ref, m1.speed, m1.ticking, m.own, m1.del, m.early)
             last == w[Len(w)]
         IN IF m.stopOpen THEN [m EXCEPT !.inCb = FALSE, !.frames = @ + e.n]
            ELSE IF m.fuzzy > 0 \/ m.lost THEN
              \* (when the window closes the clock is stopped at zero: stop = not ticking + reset)
              [m1 EXCEPT !.fuzzy = IF m.fuzzy > 0 THEN m.fuzzy - 1 ELSE 0, !.inCb = FALSE, !.settled = (m.fuzzy = 1 /\ ~m.lost),
                         !.ref = 0, !.ticking = FALSE, !.started = FALSE, !.held = {0},
                         !.speed = last.spNext, !.del = last.delNext, !.frames = @ + e.n]
            ELSE Replay(
            [m1 EXCEPT !.ref = last.t1, !.inCb = FALSE, !.settled = FALSE, !.next = <<>>,
                       !.speed = last.spNext, !.del = last.delNext,
                       !.own = SelectSeq(m.own, LAMBDA o : ~(\E k \in 1..Len(w) : w[k].tk /\ o.w <= w[k].t1)),
                       !.held = (IF m.pendReset THEN {0} ELSE m.held) \cup Boundaries(w),
                       !.sched = [k \in 1..Len(m.sched) |->
                                    IF \E j \in 1..Len(e.fired) : e.fired[j][1] = m.sched[k].id
                                    THEN [m.sched[k] EXCEPT !.fired = TRUE] ELSE m.sched[k]],
                       !.frames = @ + e.n], m.next)
    [] e.a = "rd" -> [m EXCEPT !.lastRead = e.t]
    [] OTHER -> m
=============================================================================
