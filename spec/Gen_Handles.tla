----------------------------- MODULE Gen_Handles -----------------------------
(* Generator of handle-level command histories for C07: every order of      *)
(* writes (several per key, several keys) and callbacks up to a depth bound. *)
(* The state is the handle monitor of P_C07 itself (value in force, pending  *)
(* write per key), so each behaviour carries the expected observation.       *)
EXTENDS Integers, Sequences, FiniteSets, TLC, Json, P_C07
CONSTANTS Scene, D, MaxW
Keys == CASE Scene = "V" -> {"main.vol", "s1.vol", "s2.vol", "t.vol"}
          [] Scene = "L" -> {"s1.run", "s2.run", "t.run", "c.tick"}
          \* P: a sound and a nested track below a sub-track whose pause has settled - their own commands must
          \* still be read at the next callback (observed through state(); fades cannot progress while frozen)
          [] Scene = "P" -> {"ps.run", "pn.run"}
          \* D: a tweener set with a start delay of 0 or 2 callbacks (a later set supersedes a waiting one)
          [] Scene = "D" -> {"m.dset"}
          [] OTHER -> {"m.set"}
Vals(k) == CASE k = "main.vol" -> {0, -40}
             [] k \in {"s1.vol", "s2.vol", "m.set"} -> {0, -20}
             [] k = "t.vol" -> {0, -10}
             [] k = "c.tick" -> {"on", "off"}
             [] k = "m.dset" -> {[x |-> xx, dl |-> d] : xx \in {0, -20}, d \in {0, 2}}
             [] k \in {"ps.run", "pn.run"} -> {"Pausing", "Resuming"}
             [] OTHER -> {"Paused", "Pausing", "Playing", "Resuming"}
Init0(k) == CASE k \in {"main.vol", "s1.vol", "s2.vol", "t.vol", "m.set", "m.dset"} -> 0
              [] k = "c.tick" -> "off"
              [] OTHER -> "Playing"
\* pause-kind and resume-kind commands are different kinds acting on one observable: one family per window
Family(k, v) == IF k \notin {"s1.run", "s2.run", "t.run", "ps.run", "pn.run"} THEN "x" ELSE IF v \in {"Paused", "Pausing"} THEN "p" ELSE "r"

VARIABLES m, hist, nw
Init == m = HInit([k \in Keys |-> Init0(k)]) /\ hist = <<>> /\ nw = 0
W(k, v) == /\ nw < MaxW
           /\ IF m.pend[k] = <<>> \/ k = "m.dset" THEN TRUE ELSE Family(k, m.pend[k][1]) = Family(k, v)
           /\ nw' = nw + 1
           /\ m' = HUpd(m, [a |-> "w", key |-> k, v |-> v])
           /\ hist' = Append(hist, [act |-> "W", key |-> k, v |-> v])
Cb == /\ nw' = 0
      /\ LET jump == [k \in Keys |-> "no"]
             m2 == HUpd(m, [a |-> "cb", jump |-> jump]) IN
         /\ m' = m2
         /\ hist' = Append(hist, [act |-> "Callback", obs |-> m2.val])
Next == Cb \/ \E k \in Keys : \E v \in Vals(k) : W(k, v)
Spec == Init /\ [][Next]_<<m, hist, nw>>
Bound == Len(hist) <= D
Dump == Len(hist) = D => PrintT(<<"BEHAVIOUR", ToJson(hist)>>)
=============================================================================
