------------------------------ MODULE Gen_Clock ------------------------------
EXTENDS Clock, Json
CONSTANT D
VARIABLE hist
GInit == Init /\ hist = <<>>
Step == CASE act'[1] = "Cmd" -> [act |-> "Cmd", c |-> act'[2], v |-> act'[3], w |-> act'[4], ev |-> ev']
          [] act'[1] = "Sched" -> [act |-> "Sched", id |-> act'[2], w |-> act'[3], ev |-> ev']
          [] act'[1] \in {"ABegin", "ABeginR"} -> [act |-> act'[1], n |-> act'[2], ev |-> ev']
          [] OTHER -> [act |-> act'[1], ev |-> ev']
GNext == Next /\ hist' = Append(hist, Step)
GSpec == GInit /\ [][GNext]_<<vars, hist>>
Bound == Len(hist) <= D
Emit == PrintT(<<"BEHAVIOUR", ToJson(hist)>>)
Dump == (Len(hist) = D /\ apc = "idle" /\ rpc = "idle" /\ spc = "idle") => Emit
GView == <<ivars, mon, bad>>
WG_Torn == W_Torn \/ ~Emit
WG_Own == W_Own \/ ~Emit
\* (with ResetFirst = FALSE: the shortest schedule on which the code before fix D26 breaks "stopping resets it to zero")
WG_D26 == (bad = "") \/ ~Emit
WG_RacyStop == (apc = "idle" /\ spc = "idle" /\ mon.fuzzy = 0 /\ mon.settled) => ~Emit
=============================================================================
