---------------------------- MODULE Gen_Playback ----------------------------
(* Behaviour generator for Playback.tla (spec -> implementation replay).    *)
EXTENDS Playback, Json
CONSTANT D
VARIABLE hist
GInit == Init /\ hist = <<>>
Step == IF act'[1] = "Cmd"
        THEN [act |-> "Cmd", c |-> act'[2], d |-> act'[3], wk |-> act'[4], wt |-> act'[5], ev |-> ev']
        ELSE [act |-> "Callback", ev |-> ev']
GNext == Next /\ hist' = Append(hist, Step)
GSpec == GInit /\ [][GNext]_<<vars, hist>>
Bound == Len(hist) <= D
Emit == PrintT(<<"BEHAVIOUR", ToJson(hist)>>)
Dump == (Len(hist) = D) => Emit
=============================================================================
