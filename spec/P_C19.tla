------------------------------- MODULE P_C19 -------------------------------
(* Property-level specification of C19 (unit conversions and clock-time     *)
(* arithmetic), written from the property statement and the rustdoc, as a   *)
(* deterministic monitor over recorded evaluations of the public functions. *)
(*                                                                          *)
(* A session starts with a `reset` event carrying its constants (`cfg`);    *)
(* every further event is ONE evaluation of a public operator/function on   *)
(* stated inputs with the observed result, all as 32-bit integers:          *)
(*                                                                          *)
(*  add_f sub_f  q t f am | p rt rf rx rq (+ add_f: bp bt bf bx bq)         *)
(*        ClockTime{t, f/q} +/- (am/q) as f64; result ticks rt (clamped to  *)
(*        2^20-1), fraction rf/q (rx: it is on the 1/q grid), rq =          *)
(*        floor(fraction * 2^30); b* = the same for (t + am) - am           *)
(*  add_u sub_u  q t f n  | p rt rf rx rq      ClockTime +/- n (u64)        *)
(*  cmp          q t f t2 f2 | p c             partial_cmp as -1/0/1, 2=None*)
(*  from_f       q v | p rt rf rx rq           ClockTime::from_ticks_f64(v/q)*)
(*  rt_r         ae (thi tlo tq am20) | p rq bq d20    (t + a) - a for      *)
(*        arbitrary f64: 2^ae >= a + 1, d20 = round(((t+a)-a - t) * 2^20)   *)
(*  sub_r        thi tlo tq | p rhi rlo rq     t - a, a >= 0 arbitrary f64;  *)
(*        ticks as hi * 2^30 + lo, fraction as floor(. * 2^30)              *)
(*  cmp_r        thi tlo tq uhi ulo uq | p c   fractions exact k / 2^30     *)
(*  map          x | p y yx h l                Mapping<f64>::map(x/g); y =  *)
(*        floor(value * 65536), yx: exact; (h, l) = order key of the value  *)
(*  speed        u k | p sp tp tm ex           ClockSpeed unit u, 2^k ticks  *)
(*        per second; the three conversions * 1024 (ex: all integers)       *)
(*  speed_i      u1 k1 u2 k2 q | p ex ru r tp  tween between speeds in two units *)
(*  speed_r      u | p e1 e2 id                residuals * 10^9 (see below)  *)
(*  semi         k | p r0 r12                  PlaybackRate::from(Semitones) *)
(*        at s and s + 12, * 10^6 rounded; k # -99: s = 12 k exactly        *)
(*  db           x | p y ym                    Decibels(x).as_amplitude();   *)
(*        x, y = order keys of the f32 values (sign * bit pattern),          *)
(*        ym = round(y * 10^6) or -1 when that does not fit                 *)
(*  pan          x | p l6 r6 l14 r14           Frame(1,1).panned(Panning(x)) *)
(*                                                                          *)
(* Check(m, e) is the name of the first clause of the statement the event   *)
(* contradicts, or "".  Only what the statement promises is demanded:       *)
(* e.g. when more is subtracted than the time holds, the result merely has  *)
(* to be a well-formed time that is not later than the original.            *)
EXTENDS TimeArith

TWO30 == 1073741824
SC    == 65536
\* order keys of f32 constants (bit pattern, negated for negative numbers)
K_ONE == 1065353216      \*   1.0f32 = 0x3F800000
K_M60 == -1114636288     \* -60.0f32 = 0xC2700000
K_20  == 1101004800      \*  20.0f32 = 0x41A00000
K_40  == 1109393408      \*  40.0f32 = 0x42200000
MILLION == 1000000
S14 == 16384
PanTol == 2 * S14 + 1024

PInit(cfg) == [cfg |-> cfg, n |-> 0, lx |-> 0, lh |-> 0, ll |-> 0]

LexLe(h1, l1, h2, l2) == h1 < h2 \/ (h1 = h2 /\ l1 <= l2)
FracOK(rq) == rq >= 0 /\ rq < TWO30
T1(e) == <<e.t, e.f>>
R1(e) == <<e.rt, e.rf>>
Near(a, b, tol) == Abs(a - b) <= tol

\* ClockTime + am (isAdd) or ClockTime - am; `eff` is the signed amount effectively added
ChkAddSubF(e, isAdd) ==
  LET q == e.q  t == T1(e)  eff == IF isAdd THEN e.am ELSE -e.am
      under == eff < 0 /\ Underflows(q, t, -eff)
  IN IF e.p THEN (IF under THEN "sub_never_wraps_below_zero" ELSE "no_panic")
     ELSE IF ~FracOK(e.rq) THEN "fraction_in_range"
     ELSE IF ~e.rx THEN "exact_at_dyadic"
     ELSE IF under THEN (IF Val(q, R1(e)) > Val(q, t) THEN "sub_never_wraps_below_zero" ELSE "")
     ELSE IF R1(e) # AddF(q, t, eff) THEN (IF eff >= 0 THEN "add_exact" ELSE "sub_exact")
     ELSE IF ~isAdd THEN ""
     ELSE IF e.bp THEN "no_panic"
     ELSE IF ~FracOK(e.bq) THEN "fraction_in_range"
     ELSE IF ~e.bx \/ <<e.bt, e.bf>> # t THEN "add_then_sub_returns_original"
     ELSE ""

ChkAddSubU(e, isAdd) ==
  LET q == e.q  t == T1(e)  under == ~isAdd /\ e.n > e.t
  IN IF e.p THEN (IF under THEN "sub_never_wraps_below_zero" ELSE "no_panic")
     ELSE IF ~FracOK(e.rq) THEN "fraction_in_range"
     ELSE IF ~e.rx THEN "exact_at_dyadic"
     ELSE IF under THEN (IF Val(q, R1(e)) > Val(q, t) THEN "sub_never_wraps_below_zero" ELSE "")
     ELSE IF isAdd THEN (IF R1(e) # AddU(q, t, e.n) THEN "add_exact" ELSE "")
     ELSE IF R1(e) # SubU(q, t, e.n) THEN "sub_exact" ELSE ""

\* (t + a) - a for arbitrary finite f64: each of the three roundings is at most 2^-53 (a + 1)
RtTol(ae) == 1 + (IF ae >= 31 THEN Pow(2, ae - 31) ELSE 0)

\* session constants of a `map` session: easing kind ek, lo < hi (1/g), olo/ohi (1/65536)
\* (desc: the input range is written (hi, lo) - hi maps to the start of the output range, lo to its end)
ChkMap(m, e) ==
  LET c == m.cfg
      desc == "desc" \in DOMAIN c /\ c.desc
      atLo == IF desc THEN c.ohi ELSE c.olo
      atHi == IF desc THEN c.olo ELSE c.ohi
      dir == Sign(atHi - atLo)
  IN IF e.p THEN "no_panic"
     ELSE IF m.n > 0 /\ e.x < m.lx THEN "harness_unsorted"
     ELSE IF e.x <= c.lo /\ ~(e.yx /\ e.y = atLo)
            THEN (IF e.x = c.lo THEN (IF desc THEN "easing_maps_1_to_1" ELSE "easing_maps_0_to_0") ELSE "mapping_clamps_input")
     ELSE IF e.x >= c.hi /\ ~(e.yx /\ e.y = atHi)
            THEN (IF e.x = c.hi THEN (IF desc THEN "easing_maps_0_to_0" ELSE "easing_maps_1_to_1") ELSE "mapping_clamps_input")
     ELSE IF m.n > 0 /\ dir = 1 /\ ~LexLe(m.lh, m.ll, e.h, e.l) THEN "easing_monotone"
     ELSE IF m.n > 0 /\ dir = -1 /\ ~LexLe(e.h, e.l, m.lh, m.ll) THEN "easing_monotone"
     ELSE ""

ChkDb(m, e) ==
  IF e.p THEN "no_panic"
  ELSE IF m.n > 0 /\ e.x < m.lx THEN "harness_unsorted"
  ELSE IF e.x = 0 /\ e.y # K_ONE THEN "zero_db_is_unity"
  ELSE IF e.x <= K_M60 /\ e.y # 0 THEN "minus_60_db_or_less_is_silent"
  ELSE IF m.n > 0 /\ e.y < m.lh THEN "db_monotone"
  ELSE IF e.y < 0 THEN "db_monotone"                    \* below the amplitude of silence
  ELSE IF e.x > K_M60 /\ e.ym # -1 /\ e.ym < 999 THEN "db_agrees_with_power_of_ten"   \* > 10^-3
  ELSE IF e.x = K_20 /\ ~Near(e.ym, 10 * MILLION, 100) THEN "db_agrees_with_power_of_ten"
  ELSE IF e.x = K_40 /\ ~Near(e.ym, 100 * MILLION, 1000) THEN "db_agrees_with_power_of_ten"
  ELSE IF e.x = -K_20 /\ ~Near(e.ym, 100000, 1) THEN "db_agrees_with_power_of_ten"
  ELSE IF e.x = -K_40 /\ ~Near(e.ym, 10000, 1) THEN "db_agrees_with_power_of_ten"
  ELSE ""

\* Frame(1, 1) panned: -1 = left speaker only, 1 = right speaker only, 0 = unchanged;
\* left^2 + right^2 stays 2.  Values * 2^14, each rounded to an integer: that alone moves the sum of squares
\* by up to 2^14 (left + right) + 1/2 <= 2 * 2^14 + 1/2; the f32 evaluation (five roundings per channel, about
\* 5e-7 relative on the squares) by up to ~270; PanTol allows 1024 for the latter (6.3e-5 relative in total).
ChkPan(m, e) ==
  IF e.p THEN "no_panic"
  ELSE IF e.x = 0 /\ ~(Near(e.l6, MILLION, 1) /\ Near(e.r6, MILLION, 1)) THEN "pan_centre_keeps_level"
  ELSE IF "fin" \in DOMAIN e /\ ~e.fin THEN "pan_output_finite"
  \* (a panning beyond the ends of the range is hard left / hard right)
  ELSE IF e.x <= -K_ONE /\ ~(e.r6 = 0 /\ e.l6 > 0) THEN "pan_hard_left"
  ELSE IF e.x >= K_ONE /\ ~(e.l6 = 0 /\ e.r6 > 0) THEN "pan_hard_right"
  ELSE IF e.l14 < 0 \/ e.r14 < 0 \/ e.l14 > 24000 \/ e.r14 > 24000 THEN "pan_keeps_total_power"   \* (32-bit squares)
  ELSE IF ~Near(e.l14 * e.l14 + e.r14 * e.r14, 2 * S14 * S14, PanTol) THEN "pan_keeps_total_power"
  ELSE ""

\* (ceq: the compound operator += / -= gave bit for bit what the binary operator gave)
Compound(e, r) == IF r # "" THEN r ELSE IF "ceq" \in DOMAIN e /\ ~e.ceq THEN "compound_assignment_agrees_with_operator" ELSE ""
Check(m, e) ==
  CASE e.a = "add_f" -> Compound(e, ChkAddSubF(e, TRUE))
    [] e.a = "sub_f" -> Compound(e, ChkAddSubF(e, FALSE))
    [] e.a = "add_u" -> Compound(e, ChkAddSubU(e, TRUE))
    [] e.a = "sub_u" -> Compound(e, ChkAddSubU(e, FALSE))
    [] e.a = "cmp" ->
         IF e.p THEN "no_panic"
         ELSE IF e.c # Cmp(e.q, T1(e), <<e.t2, e.f2>>) THEN "order_agrees_with_ticks_plus_fraction" ELSE ""
    [] e.a = "from_f" ->
         IF e.p THEN "no_panic"
         ELSE IF ~FracOK(e.rq) THEN "fraction_in_range"
         ELSE IF ~e.rx \/ R1(e) # FromTicksF(e.q, e.v) THEN "from_ticks_exact" ELSE ""
    [] e.a = "rt_r" ->
         IF e.p THEN "no_panic"
         ELSE IF ~FracOK(e.rq) \/ ~FracOK(e.bq) THEN "fraction_in_range"
         ELSE IF Abs(e.d20) > RtTol(e.ae) THEN "add_then_sub_returns_original" ELSE ""
    [] e.a = "sub_r" ->
         IF e.p THEN "no_panic"
         ELSE IF ~FracOK(e.rq) THEN "fraction_in_range"
         ELSE IF ~(e.rhi < e.thi \/ (e.rhi = e.thi /\ LexLe(e.rlo, e.rq, e.tlo, e.tq)))
              THEN "sub_never_wraps_below_zero" ELSE ""
    [] e.a = "cmp_r" ->
         LET lt == e.thi < e.uhi \/ (e.thi = e.uhi /\ (e.tlo < e.ulo \/ (e.tlo = e.ulo /\ e.tq < e.uq)))
             eq == e.thi = e.uhi /\ e.tlo = e.ulo /\ e.tq = e.uq
         IN IF e.p THEN "no_panic"
            ELSE IF e.c # (IF eq THEN 0 ELSE IF lt THEN -1 ELSE 1) THEN "order_agrees_with_ticks_plus_fraction"
            ELSE ""
    [] e.a = "map" -> ChkMap(m, e)
    [] e.a = "speed" ->
         IF e.p THEN "no_panic"
         ELSE IF ~e.ex \/ e.tp # TicksPerSecond1024(e.k) \/ e.sp # SecondsPerTick1024(e.k)
                 \/ e.tm # TicksPerMinute1024(e.k) THEN "clock_speed_units_consistent" ELSE ""
    [] e.a = "speed_i" ->
         \* a tween from 2^k1 to 2^k2 ticks per second, each given in any unit, q quarters of the way (tp: the result in
         \* ticks per second * 1024): it starts at the first speed, ends at the second and stays between them
         IF e.p THEN "no_panic"
         ELSE IF \/ (e.q = 0 /\ e.tp # TicksPerSecond1024(e.k1)) \/ (e.q = 4 /\ e.tp # TicksPerSecond1024(e.k2))
                 \/ e.tp < Min2(TicksPerSecond1024(e.k1), TicksPerSecond1024(e.k2))
                 \/ e.tp > Max2(TicksPerSecond1024(e.k1), TicksPerSecond1024(e.k2))
              THEN "clock_speed_units_consistent" ELSE ""
    [] e.a = "speed_r" ->
         \* e1 = (seconds_per_tick * ticks_per_second - 1) * 10^9, e2 = (ticks_per_minute / (60 ticks_per_second) - 1) * 10^9,
         \* id: converting to the unit the speed was given in returns the given number
         IF e.p THEN "no_panic"
         ELSE IF Abs(e.e1) > 1 \/ Abs(e.e2) > 1 \/ ~e.id THEN "clock_speed_units_consistent" ELSE ""
    [] e.a = "semi" ->
         IF e.p THEN "no_panic"
         ELSE IF ~Near(e.r12, 2 * e.r0, 2) THEN "twelve_semitones_double_the_rate"
         ELSE IF e.k # -99 /\ ~(IF e.k >= 0 THEN Near(e.r0, MILLION * Pow(2, e.k), 1)
                                            ELSE Near(e.r0 * Pow(2, -e.k), MILLION, Pow(2, -e.k)))
              THEN "twelve_semitones_double_the_rate"
         ELSE ""
    [] e.a = "db" -> ChkDb(m, e)
    [] e.a = "pan" -> ChkPan(m, e)
    \* the time read from the handle of a clock that ran one buffer at 1 - 2^-k ticks per buffer: fraction below 1 (and, beyond
    \* this property, exactly that number: C05 "never shows a value the clock did not have")
    [] e.a = "clkread" -> IF e.p THEN "no_panic" ELSE IF ~e.below1 THEN "fraction_in_range"
                          ELSE IF ~e.exact THEN "handle_time_is_a_time_the_clock_had" ELSE ""
    [] OTHER -> ""

\* sweeps remember the previous point
Upd(m, e) ==
  CASE e.a = "map" /\ ~e.p -> [m EXCEPT !.n = @ + 1, !.lx = e.x, !.lh = e.h, !.ll = e.l]
    [] e.a = "db" /\ ~e.p  -> [m EXCEPT !.n = @ + 1, !.lx = e.x, !.lh = e.y]
    [] OTHER -> m
=============================================================================
