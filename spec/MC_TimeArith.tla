---------------------------- MODULE MC_TimeArith ----------------------------
(* Tabulation of TimeArith over a grid, composed with the P_C19 monitor.    *)
(*                                                                          *)
(* A behaviour is one *session*: a row of the table (one operator, one      *)
(* left-hand time, every amount of the grid; or one mapping/easing with a   *)
(* sorted sweep of inputs; or the clock-speed table).  Each step evaluates  *)
(* the operator the way the SOURCE computes it (Part C of TimeArith) and    *)
(* emits the event the harness would record; the property-level monitor     *)
(* (P_C19, which uses the reference semantics, Part R) judges it in lock    *)
(* step.  `PropertyHolds` is therefore "the code as modelled satisfies the  *)
(* statement on the whole grid"; the Law* invariants are the algebraic laws *)
(* of the reference semantics themselves; W_* are reachability witnesses    *)
(* (each must be reported VIOLATED).                                        *)
(*                                                                          *)
(* Constants: Q (fractions are k/Q), MaxT (ticks 0..MaxT), MaxA (amounts    *)
(* -MaxA*Q .. MaxA*Q in 1/Q ticks, whole-tick amounts 0..MaxA), Fixed       *)
(* (FALSE: model the subtraction as the source has it, TRUE: saturating).   *)
EXTENDS P_C19, FiniteSets, TLC

CONSTANTS Q, MaxT, MaxA, Fixed

G == 16                      \* mapping inputs are k/16

SeqFromTo(a, b) == [j \in 1..(b - a + 1) |-> a + j - 1]

TimeSessions ==
  {[kind |-> "time", q |-> Q, op |-> o, t |-> t, f |-> f, args |-> SeqFromTo(-MaxA * Q, MaxA * Q)]
     : o \in {"add_f", "sub_f"}, t \in 0..MaxT, f \in 0..(Q - 1)}
  \cup {[kind |-> "time", q |-> Q, op |-> o, t |-> t, f |-> f, args |-> SeqFromTo(0, MaxA)]
     : o \in {"add_u", "sub_u"}, t \in 0..MaxT, f \in 0..(Q - 1)}
  \cup {[kind |-> "time", q |-> Q, op |-> "cmp", t |-> t, f |-> f, args |-> SeqFromTo(0, (MaxT + 1) * Q - 1)]
     : t \in 0..MaxT, f \in 0..(Q - 1)}
  \cup {[kind |-> "time", q |-> Q, op |-> "from_f", t |-> 0, f |-> 0, args |-> SeqFromTo(0, (MaxT + MaxA + 1) * Q)]}

Easings == {<<0, 1>>} \cup {<<k, p>> : k \in 1..3, p \in 1..3}
InRanges == {<<0, 16>>, <<-8, 8>>, <<4, 12>>, <<-16, 16>>}
OutRanges == {<<0, SC>>, <<SC, 0>>, <<-SC + 8192, 3 * SC + 8192>>}
MapSessions ==
  {[kind |-> "map", ek |-> e[1], pw |-> e[2], g |-> G, lo |-> r[1], hi |-> r[2], olo |-> o[1], ohi |-> o[2],
    exact |-> TRUE, xs |-> SeqFromTo(r[1] - 3, r[2] + 3)] : e \in Easings, r \in InRanges, o \in OutRanges}

SpeedCases == {<<u, k>> : u \in 0..2, k \in -6..6}
RECURSIVE SetToSeq(_)
SetToSeq(S) == IF S = {} THEN <<>> ELSE LET x == CHOOSE x \in S : TRUE IN <<x>> \o SetToSeq(S \ {x})
SpeedSessions == {[kind |-> "speed", cases |-> [j \in 1..Cardinality(SpeedCases) |->
                     LET c == SetToSeq(SpeedCases)[j] IN [u |-> c[1], k |-> c[2]]]]}

\* tweens between clock speeds given in any two units: 2^k1 -> 2^k2 ticks per second, q quarters of the way
SpeedKs == <<-3, 0, 2>>
SpeedICase(x) == [u1 |-> (x \div 135) % 3, k1 |-> SpeedKs[((x \div 15) % 3) + 1], u2 |-> (x \div 45) % 3,
                  k2 |-> SpeedKs[((x \div 5) % 3) + 1], q |-> x % 5]
SpeedISessions == {[kind |-> "speedi", cases |-> [j \in 1..405 |-> SpeedICase(j - 1)]]}

Sessions == TimeSessions \cup MapSessions \cup SpeedSessions \cup SpeedISessions

NCases(s) == IF s.kind = "time" THEN Len(s.args) ELSE IF s.kind = "map" THEN Len(s.xs) ELSE Len(s.cases)
Cfg(s) == IF s.kind = "map" THEN [kind |-> "map", ek |-> s.ek, pw |-> s.pw, g |-> s.g, lo |-> s.lo, hi |-> s.hi,
                                  olo |-> s.olo, ohi |-> s.ohi, exact |-> TRUE]
          ELSE [kind |-> s.kind]

-----------------------------------------------------------------------------
RQ(q, fr) == fr * (TWO30 \div q)

\* the event the harness records for case j of session s, according to the model of the code
ModelEvent(s, j) ==
  IF s.kind = "time" THEN
    LET q == s.q  t == <<s.t, s.f>>  x == s.args[j]
        base == [a |-> s.op, q |-> q, t |-> s.t, f |-> s.f, p |-> FALSE]
        WithR(e, r) == e @@ [rt |-> r[1], rf |-> r[2], rx |-> TRUE, rq |-> RQ(q, r[2])]
    IN CASE s.op = "add_f" ->
              LET r == MAddF(Fixed, q, t, x)  b == MSubF(Fixed, q, r, x)
              IN WithR(base @@ [am |-> x, bp |-> FALSE, bt |-> b[1], bf |-> b[2], bx |-> TRUE, bq |-> RQ(q, b[2])], r)
         [] s.op = "sub_f" -> WithR(base @@ [am |-> x], MSubF(Fixed, q, t, x))
         [] s.op = "add_u" -> WithR(base @@ [n |-> x], CAddU(q, t, x))
         [] s.op = "sub_u" ->
              IF CSubUOverflows(t, x) /\ ~Fixed THEN WithR([base EXCEPT !.p = TRUE] @@ [n |-> x], t)
              ELSE WithR(base @@ [n |-> x], <<Max2(0, s.t - x), s.f>>)
         [] s.op = "cmp" -> base @@ [t2 |-> x \div q, f2 |-> x % q, c |-> CCmp(q, t, <<x \div q, x % q>>)]
         [] s.op = "from_f" -> WithR(base @@ [v |-> x], CFromTicksF(q, x))
  ELSE IF s.kind = "map" THEN
    LET y == MapRef(s.ek, s.pw, s.lo, s.hi, s.olo, s.ohi, s.xs[j])
    IN [a |-> "map", x |-> s.xs[j], p |-> FALSE, y |-> y, yx |-> TRUE, h |-> y, l |-> 0]
  ELSE IF s.kind = "speedi" THEN
    LET c == s.cases[j]
    IN [a |-> "speed_i", u1 |-> c.u1, k1 |-> c.k1, u2 |-> c.u2, k2 |-> c.k2, q |-> c.q, p |-> FALSE, ex |-> TRUE,
        ru |-> c.u2, r |-> SpeedInterp1024(c.u2, c.k1, c.k2, c.q), tp |-> SpeedInterpTps1024(c.u2, c.k1, c.k2, c.q)]
  ELSE
    LET c == s.cases[j]
    IN [a |-> "speed", u |-> c.u, k |-> c.k, p |-> FALSE, ex |-> TRUE,
        \* clock_speed.rs: every unit converts through 1/x, x*60, x/60; exact for powers of two
        sp |-> Dy(-c.k), tp |-> Dy(c.k), tm |-> 60 * Dy(c.k)]

\* the reference result that goes into the generated scenario (documentation of the expected table)
Expected(s, j) ==
  IF s.kind = "time" THEN
    LET q == s.q  t == <<s.t, s.f>>  x == s.args[j]
    IN CASE s.op = "add_f" -> [r |-> AddF(q, t, x), under |-> x < 0 /\ Underflows(q, t, -x)]
         [] s.op = "sub_f" -> [r |-> SubF(q, t, x), under |-> x > 0 /\ Underflows(q, t, x)]
         [] s.op = "add_u" -> [r |-> AddU(q, t, x), under |-> FALSE]
         [] s.op = "sub_u" -> [r |-> SubU(q, t, x), under |-> x > s.t]
         [] s.op = "cmp" -> [c |-> Cmp(q, t, <<x \div q, x % q>>)]
         [] s.op = "from_f" -> [r |-> FromTicksF(q, x), under |-> FALSE]
  ELSE IF s.kind = "map" THEN [y |-> MapRef(s.ek, s.pw, s.lo, s.hi, s.olo, s.ohi, s.xs[j])]
  ELSE IF s.kind = "speedi" THEN
    [r |-> SpeedInterp1024(s.cases[j].u2, s.cases[j].k1, s.cases[j].k2, s.cases[j].q)]
  ELSE [tp |-> Dy(s.cases[j].k)]

-----------------------------------------------------------------------------
VARIABLES ses, i, ev, mon, bad
vars == <<ses, i, ev, mon, bad>>

Init == /\ ses \in Sessions
        /\ i = 0 /\ ev = [a |-> "reset"] /\ mon = PInit(Cfg(ses)) /\ bad = ""
Next == /\ i < NCases(ses)
        /\ i' = i + 1
        /\ ev' = ModelEvent(ses, i + 1)
        /\ bad' = Check(mon, ev')
        /\ mon' = Upd(mon, ev')
        /\ UNCHANGED ses
Spec == Init /\ [][Next]_vars

-----------------------------------------------------------------------------
(* I => P on the grid.  The two known deviations of the source are named.   *)
EvUnder == /\ ev.a \in {"add_f", "sub_f"}
           /\ LET eff == IF ev.a = "add_f" THEN ev.am ELSE -ev.am
              IN eff < 0 /\ Underflows(ev.q, <<ev.t, ev.f>>, -eff)
\* Sub<f64> keeps `fraction - amount` modulo 1 when the tick count saturates: the result can be LATER than the original
KnownFinding_FractionWraps == ~Fixed /\ EvUnder /\ ~ev.p /\ bad = "sub_never_wraps_below_zero"
\* Sub<u64> is a plain u64 subtraction
KnownFinding_SubU64Overflows == ~Fixed /\ ev.a = "sub_u" /\ ev.p /\ ev.n > ev.t /\ bad = "sub_never_wraps_below_zero"
PropertyHolds == bad = "" \/ KnownFinding_FractionWraps \/ KnownFinding_SubU64Overflows
Strict == bad = ""

(* laws of the reference semantics, evaluated at every case of the grid     *)
InTime == ses.kind = "time" /\ i > 0
Tm == <<ses.t, ses.f>>
Ar == ses.args[i]
LawFractionInRange ==
  InTime /\ ses.op \in {"add_f", "sub_f"} =>
    WellFormed(Q, AddF(Q, Tm, Ar)) /\ WellFormed(Q, SubF(Q, Tm, Ar))
LawAddThenSub ==
  InTime /\ ses.op = "add_f" /\ Ar >= 0 => SubF(Q, AddF(Q, Tm, Ar), Ar) = Tm
LawSubThenAdd ==
  InTime /\ ses.op = "sub_f" /\ Ar >= 0 /\ ~Underflows(Q, Tm, Ar) => AddF(Q, SubF(Q, Tm, Ar), Ar) = Tm
LawNoWrap ==
  InTime /\ ses.op = "sub_f" /\ Ar >= 0 => Val(Q, SubF(Q, Tm, Ar)) = Max2(0, Val(Q, Tm) - Ar)
LawAddExact ==
  InTime /\ ses.op = "add_f" /\ Ar >= 0 => Val(Q, AddF(Q, Tm, Ar)) = Val(Q, Tm) + Ar
LawDispatch ==
  InTime /\ ses.op \in {"add_f", "sub_f"} => AddF(Q, Tm, -Ar) = SubF(Q, Tm, Ar)
LawWholeTicks ==
  InTime /\ ses.op \in {"add_u", "sub_u"} =>
    /\ AddU(Q, Tm, Ar) = AddF(Q, Tm, Ar * Q)
    /\ SubU(Q, Tm, Ar) = SubF(Q, Tm, Ar * Q)
LawOrder ==
  InTime /\ ses.op = "cmp" =>
    LET u == <<Ar \div Q, Ar % Q>>
    IN /\ Cmp(Q, Tm, u) = -Cmp(Q, u, Tm)
       /\ (Cmp(Q, Tm, u) = 0) = (Tm = u)
       /\ (Cmp(Q, Tm, u) = -1) = (Tm[1] < u[1] \/ (Tm[1] = u[1] /\ Tm[2] < u[2]))
       /\ \A a \in 0..Q : Cmp(Q, AddF(Q, Tm, a), AddF(Q, u, a)) = Cmp(Q, Tm, u)     \* adding preserves order
LawFromTicks ==
  InTime /\ ses.op = "from_f" => Val(Q, FromTicksF(Q, Ar)) = Ar /\ WellFormed(Q, FromTicksF(Q, Ar))
\* the code model agrees with the reference wherever nothing underflows
LawCodeAgrees ==
  InTime /\ ses.op \in {"add_f", "sub_f"} =>
    /\ (Ar >= 0 => CAddF(Q, Tm, Ar) = AddF(Q, Tm, Ar))
    /\ (Ar >= 0 /\ ~Underflows(Q, Tm, Ar) => CSubF(Q, Tm, Ar) = SubF(Q, Tm, Ar))
    /\ WellFormed(Q, CSubF(Q, Tm, Ar)) /\ WellFormed(Q, CAddF(Q, Tm, Ar))

(* easing / mapping laws on the grid: end points, monotone, clamp, range    *)
InMap == ses.kind = "map"
LawEasingEndpoints ==
  InMap => \A d \in {8, 16, 32} : /\ RatEq(Ease(ses.ek, ses.pw, <<0, d>>), <<0, 1>>)
                                  /\ RatEq(Ease(ses.ek, ses.pw, <<d, d>>), <<1, 1>>)
LawEasingMonotone ==
  InMap => \A d \in {8, 16, 32} : \A n \in 0..(d - 1) :
             RatLe(Ease(ses.ek, ses.pw, <<n, d>>), Ease(ses.ek, ses.pw, <<n + 1, d>>))
LawEasingExactlyScalable ==
  InMap => \A n \in 0..(ses.hi - ses.lo) : ScaledExact(Ease(ses.ek, ses.pw, <<n, ses.hi - ses.lo>>), SC)
LawMappingClamps ==
  InMap /\ i > 0 =>
    LET x == ses.xs[i]  am == Amount(ses.lo, ses.hi, x)
    IN /\ am[1] >= 0 /\ am[1] <= am[2]
       /\ (x <= ses.lo => MapRef(ses.ek, ses.pw, ses.lo, ses.hi, ses.olo, ses.ohi, x) = ses.olo)
       /\ (x >= ses.hi => MapRef(ses.ek, ses.pw, ses.lo, ses.hi, ses.olo, ses.ohi, x) = ses.ohi)
       /\ MapRef(ses.ek, ses.pw, ses.lo, ses.hi, ses.olo, ses.ohi, x) >= Min2(ses.olo, ses.ohi)
       /\ MapRef(ses.ek, ses.pw, ses.lo, ses.hi, ses.olo, ses.ohi, x) <= Max2(ses.olo, ses.ohi)
LawSpeedConsistent ==
  ses.kind = "speed" /\ i > 0 =>
    /\ ev.sp * ev.tp = 1024 * 1024          \* seconds per tick * ticks per second = 1
    /\ ev.tm = 60 * ev.tp

(* reachability witnesses: each of these "invariants" must be VIOLATED      *)
W_Carry     == ~(ev.a = "add_f" /\ ev.am > 0 /\ ev.am < Q /\ ev.f + ev.am >= Q /\ bad = "")
W_Borrow    == ~(ev.a = "sub_f" /\ ev.am > 0 /\ ev.am < Q /\ ev.f < ev.am /\ ev.t > 0 /\ bad = "")
W_Saturates == ~(ev.a = "sub_f" /\ EvUnder /\ bad = "")
W_FracWraps == ~KnownFinding_FractionWraps
W_SubUOver  == ~KnownFinding_SubU64Overflows
W_Dispatch  == ~(ev.a = "add_f" /\ ev.am < 0 /\ ~EvUnder /\ ev.rt < ev.t /\ bad = "")
W_ClampLow  == ~(ev.a = "map" /\ ev.x < mon.cfg.lo /\ bad = "")
W_ClampHigh == ~(ev.a = "map" /\ ev.x > mon.cfg.hi /\ bad = "")
W_InOutUp   == ~(ev.a = "map" /\ mon.cfg.ek = 3 /\ mon.cfg.pw = 3 /\ 2 * (ev.x - mon.cfg.lo) > mon.cfg.hi - mon.cfg.lo
                 /\ ev.x < mon.cfg.hi /\ bad = "")
W_SpeedDown == ~(ev.a = "speed" /\ ev.k < 0 /\ ev.u = 2 /\ bad = "")
W_SpeedAcross == ~(ev.a = "speed_i" /\ ev.u1 = 1 /\ ev.u2 = 0 /\ ev.q = 2 /\ ev.k1 # ev.k2 /\ bad = "")
=============================================================================
