---------------------------- MODULE StaticSound ----------------------------
(* Implementation-level model of kira's static sound playback, written from *)
(* the code:                                                                *)
(*   crates/kira/src/sound/transport.rs        Transport::{new,              *)
(*       increment_position, decrement_position, seek_to, set_loop_region}  *)
(*   crates/kira/src/sound/static_sound/sound.rs   StaticSound::{new,       *)
(*       update_position, push_frame_to_resampler, seek_to_index, seek_by,  *)
(*       seek_to, read_commands, on_start_processing, process, finished}    *)
(*   crates/kira/src/sound/static_sound/sound/resampler.rs   Resampler      *)
(*   crates/kira/src/sound/static_sound/data.rs    num_frames,frame_at_index*)
(*   crates/kira/src/frame.rs                      interpolate_frame        *)
(* One action per straight-line stretch of code; every `while` loop of the  *)
(* transport is one action per iteration (variable `spin` flips on every    *)
(* iteration, so a loop that does not terminate is a reachable cycle).      *)
(* Source frame i carries the value i + 1; rates are in quarters; the       *)
(* fractional position is a multiple of 1/4; outputs are value * 256.       *)
(* Every action emits an event `ev`; the property-level monitor of P_C04    *)
(* runs in lock step (`mon`, `bad`).                                        *)
EXTENDS Integers, Sequences, FiniteSets, TLC, P_C04

CONSTANTS Lens,        \* source lengths (set of naturals)
          Slicing,     \* TRUE: every slice of the source; FALSE: the unsliced sound and one inner slice
          DeltaMags,   \* magnitudes of the seek_by amounts (frames, non-zero; both signs are used)
          RateMags,    \* magnitudes of the playback rates in quarters, e.g. {4, 2, 8} = {1, 1/2, 2}
          NegRates,    \* TRUE: negative rates too
          ChunkSizes,  \* frames per process call (constant within a session)
          MaxFrames,   \* output frames per session
          MaxCmds,     \* handle commands per session
          Cmds,        \* subset of {"SeekTo", "SeekBy", "SetLoop", "SetRate"}
          CmdTimes,    \* the k-th command of a session is issued after CmdTimes-many output frames (set to choose from)
          ChunkMix,    \* TRUE: one chunk size per settings combination (picked by a hash) instead of all of them
          SeekRevives, \* FALSE: the code as it is (a seek never restarts a transport that reached the end);
                       \* TRUE: Transport::seek_to sets `playing = position < num_frames` (proposed fix)
          SeekByHeard, \* FALSE: the code as it is (seek_by measures from the transport = prefetch position);
                       \* TRUE: seek_by measures from the frame heard, resampler.current_frame_index() (proposed fix)
          SafeTransport, \* TRUE: the code as it is (a loop region with end <= start is dropped by Transport::new /
                       \* set_loop_region; `reverse` start positions saturate at frame 0);  FALSE: the code before
                       \* those fixes (such a loop region hangs or overflows, reverse beyond the audio overflows)
          Wide         \* TRUE: also the input combinations the documentation leaves open
                       \* (loop end <= loop start, start beyond the slice / after the loop end, ...)

VARIABLES c,                 \* the settings of this session (the `reset` event)
          pos, loop, playing,          \* Transport
          win, tue,                    \* Resampler: 4 x [v, i], time_until_empty
          frac, rate, rpend, st,       \* fractional_position (quarters), playback rate, rate command read, playback state
          pc, ret, k, tmp, sdir, ret2, left, zero, spin,
          cSeekTo, cSeekBy, cLoop, cRate,   \* command slots (handle -> sound)
          nf, ncmd, panicked,
          act,                         \* name and arguments of the step just taken (for replay)
          ev, mon, bad

ivars == <<c, pos, loop, playing, win, tue, frac, rate, rpend, st, pc, ret, k, tmp, sdir, ret2, left, zero, spin,
           cSeekTo, cSeekBy, cLoop, cRate, nf, ncmd, panicked>>
vars == <<ivars, act, ev, mon, bad>>

Deltas == DeltaMags \cup {-d : d \in DeltaMags}
Rates == RateMags \cup (IF NegRates THEN {-r : r \in RateMags} ELSE {})
Tau  == [a |-> "tau"]
NoVal == [on |-> FALSE, v |-> 0]
NoLoopCmd == [on |-> FALSE, lp |-> FALSE, ls |-> 0, le |-> -1]
SR   == 8                                   \* sample rate of sound and device in the model

NF  == IF c.sl THEN c.se - c.ss ELSE c.len               \* data.rs num_frames
Off == IF c.sl THEN c.ss ELSE 0
FrameAt(i) == IF i >= NF THEN 0 ELSE Off + i + 1         \* frame_at_index(..).unwrap_or_default()
Backwards == (rate < 0) # c.rev                          \* is_playing_backwards
LoopOf(r) == IF ~r.lp THEN NoLoop
             ELSE LET l == <<r.ls, IF r.le < 0 THEN NF ELSE r.le>>
                  IN IF SafeTransport /\ l[2] <= l[1] THEN NoLoop ELSE l
Max(a, b) == IF a > b THEN a ELSE b

\* ---------------------------------------------------------------- settings
Slices(len) == {<<FALSE, 0, 0>>} \cup
               (IF Slicing THEN {<<TRUE, a, b>> : a \in 0..len, b \in 0..len} ELSE {<<TRUE, 1, len - 1>>})
CfgOK(r) == Wide \/ ~PInit(r).open

\* ---------------------------------------------------------------- panics / helper
Panic(who) ==
  /\ panicked' = who /\ pc' = "dead"
  /\ ev' = [a |-> "panic", who |-> who]
  /\ UNCHANGED <<c, pos, loop, playing, win, tue, frac, rate, rpend, st, ret, k, tmp, sdir, ret2, left, zero, spin,
                 cSeekTo, cSeekBy, cLoop, cRate, nf, ncmd>>

\* Resampler::push_frame(frame, sample_index) with the transport state (p, pl)
Pushed(p, pl) == <<win[2], win[3], win[4], [v |-> IF pl THEN FrameAt(p) ELSE 0, i |-> p]>>
TueAfter(pl) == IF pl THEN 4 ELSE Max(tue - 1, 0)

\* The settings of a session are picked in four small steps (so that random simulation can
\* sample them); the session proper starts with pc = "new".
C0 == [len |-> 0, sl |-> FALSE, ss |-> 0, se |-> 0, start |-> 0, lp |-> FALSE, ls |-> 0, le |-> -1,
       rev |-> FALSE, rq |-> 4, sr |-> SR, dev |-> SR, cs |-> 1, at |-> <<0, 0>>]
Init ==
  /\ c = C0
  /\ pos = 0 /\ loop = NoLoop /\ playing = FALSE
  /\ win = <<[v |-> 0, i |-> 0], [v |-> 0, i |-> 0], [v |-> 0, i |-> 0], [v |-> 0, i |-> 0]>>
  /\ tue = 0 /\ frac = 0 /\ rate = 4 /\ rpend = 0 /\ st = "Playing"
  /\ pc = "pick1" /\ ret = "" /\ k = 0 /\ tmp = 0 /\ sdir = "" /\ ret2 = "" /\ left = 0 /\ zero = FALSE /\ spin = 0
  /\ cSeekTo = NoVal /\ cSeekBy = NoVal /\ cLoop = NoLoopCmd /\ cRate = NoVal
  /\ nf = 0 /\ ncmd = 0 /\ panicked = ""
  /\ act = <<"Init">> /\ ev = Tau /\ mon = PInit(C0) /\ bad = ""

PickFrame == UNCHANGED <<pos, loop, playing, win, tue, frac, rpend, st, ret, k, tmp, sdir, ret2, left, zero, spin,
                         cSeekTo, cSeekBy, cLoop, cRate, nf, ncmd, panicked, ev, bad>>
Pick1 == /\ pc = "pick1" /\ pc' = "pick2" /\ act' = <<"Pick">> /\ PickFrame /\ UNCHANGED mon
         /\ \E len \in Lens, rev \in BOOLEAN, rq \in Rates :
              c' = [c EXCEPT !.len = len, !.rev = rev, !.rq = rq] /\ rate' = rq
Pick2 == /\ pc = "pick2" /\ pc' = "pick3" /\ act' = <<"Pick">> /\ PickFrame /\ UNCHANGED <<mon, rate>>
         /\ \E s \in Slices(c.len) : s[2] <= s[3] /\ c' = [c EXCEPT !.sl = s[1], !.ss = s[2], !.se = s[3]]
Pick3 == /\ pc = "pick3" /\ pc' = "pick4" /\ act' = <<"Pick">> /\ PickFrame /\ UNCHANGED <<mon, rate>>
         /\ \E l \in {<<FALSE, 0, -1>>} \cup {<<TRUE, a, b>> : a \in 0..(NF + 1), b \in -1..(NF + 1)} :
              c' = [c EXCEPT !.lp = l[1], !.ls = l[2], !.le = l[3]]
Pick4 == /\ pc = "pick4" /\ pc' = "new" /\ act' = <<"Pick">> /\ PickFrame /\ UNCHANGED rate
         /\ \E start \in 0..(NF + 1), cs \in ChunkSizes, t1 \in CmdTimes, t2 \in CmdTimes :
              /\ t1 <= t2 /\ (MaxCmds < 2 => t2 = t1) /\ (MaxCmds < 1 => \A t \in CmdTimes : t1 <= t)
              /\ (ChunkMix => \A x \in ChunkSizes :
                     (x = cs) = (x = 1 + ((c.len + c.ss + 2 * c.se + start + c.ls + 3 * c.le + c.rq + 12) % Cardinality(ChunkSizes))))
              /\ c' = [c EXCEPT !.start = start, !.cs = cs, !.at = <<t1, t2>>]
              /\ CfgOK(c')
              /\ mon' = PInit(c')
Pick == Pick1 \/ Pick2 \/ Pick3 \/ Pick4

\* ---------------------------------------------------------------- StaticSound::new
\* Transport::new, Resampler::new; then three update_position calls
Ctor ==
  /\ pc = "new" /\ act' = <<"Ctor">>
  /\ IF ~SafeTransport /\ c.rev /\ NF - 1 - c.start < 0
     THEN Panic("new")                                   \* usize underflow in `num_frames - 1 - start_position`
     ELSE LET p == IF c.rev THEN Max(Max(NF - 1, 0) - c.start, 0) ELSE c.start IN   \* saturating_sub twice
          /\ pos' = p /\ loop' = LoopOf(c) /\ playing' = TRUE
          /\ win' = [j \in 1..4 |-> [v |-> 0, i |-> p]]
          /\ k' = 3 /\ pc' = "upd" /\ ret' = "prime" /\ ev' = Tau
          /\ UNCHANGED <<c, tue, frac, rate, rpend, st, tmp, sdir, ret2, left, zero, spin,
                         cSeekTo, cSeekBy, cLoop, cRate, nf, ncmd, panicked>>
Prime ==
  /\ pc = "prime" /\ act' = <<"Prime">> /\ ev' = Tau
  /\ k' = k - 1 /\ pc' = IF k > 1 THEN "upd" ELSE "idle"
  /\ UNCHANGED <<c, pos, loop, playing, win, tue, frac, rate, rpend, st, ret, tmp, sdir, ret2, left, zero, spin,
                 cSeekTo, cSeekBy, cLoop, cRate, nf, ncmd, panicked>>

\* ---------------------------------------------------------------- update_position
UpdPush ==                                       \* push_frame_to_resampler; first half of inc/dec
  /\ pc = "upd" /\ act' = <<"UpdPush">> /\ ev' = Tau
  /\ win' = Pushed(pos, playing) /\ tue' = TueAfter(playing)
  /\ IF ~playing THEN pc' = "upd_chk" /\ pos' = pos
     ELSE IF Backwards THEN pc' = "dec_w" /\ pos' = pos
     ELSE pc' = "inc_w" /\ pos' = pos + 1
  /\ UNCHANGED <<c, loop, playing, frac, rate, rpend, st, ret, k, tmp, sdir, ret2, left, zero, spin,
                 cSeekTo, cSeekBy, cLoop, cRate, nf, ncmd, panicked>>
IncW ==                                          \* `while self.position >= loop_end`, then the end test
  /\ pc = "inc_w" /\ act' = <<"IncW">>
  /\ IF loop # NoLoop /\ pos >= loop[2]
     THEN IF loop[2] - loop[1] < 0 THEN Panic("loop_len")
          ELSE /\ pos' = pos - (loop[2] - loop[1]) /\ spin' = 1 - spin /\ ev' = Tau
               /\ UNCHANGED <<c, loop, playing, win, tue, frac, rate, rpend, st, pc, ret, k, tmp, sdir, ret2, left, zero,
                              cSeekTo, cSeekBy, cLoop, cRate, nf, ncmd, panicked>>
     ELSE /\ playing' = (pos < NF) /\ pc' = "upd_chk" /\ ev' = Tau /\ spin' = 0
          /\ UNCHANGED <<c, pos, loop, win, tue, frac, rate, rpend, st, ret, k, tmp, sdir, ret2, left, zero,
                         cSeekTo, cSeekBy, cLoop, cRate, nf, ncmd, panicked>>
DecW ==                                          \* `while self.position <= loop_start`, then step down or end
  /\ pc = "dec_w" /\ act' = <<"DecW">>
  /\ IF loop # NoLoop /\ pos <= loop[1]
     THEN IF loop[2] - loop[1] < 0 THEN Panic("loop_len")
          ELSE /\ pos' = pos + (loop[2] - loop[1]) /\ spin' = 1 - spin /\ ev' = Tau
               /\ UNCHANGED <<c, loop, playing, win, tue, frac, rate, rpend, st, pc, ret, k, tmp, sdir, ret2, left, zero,
                              cSeekTo, cSeekBy, cLoop, cRate, nf, ncmd, panicked>>
     ELSE /\ IF pos = 0 THEN playing' = FALSE /\ pos' = pos ELSE playing' = playing /\ pos' = pos - 1
          /\ pc' = "upd_chk" /\ ev' = Tau /\ spin' = 0
          /\ UNCHANGED <<c, loop, win, tue, frac, rate, rpend, st, ret, k, tmp, sdir, ret2, left, zero,
                         cSeekTo, cSeekBy, cLoop, cRate, nf, ncmd, panicked>>
UpdChk ==                                        \* `if !playing && resampler.empty() { mark_as_stopped }`
  /\ pc = "upd_chk" /\ act' = <<"UpdChk">> /\ ev' = Tau
  /\ st' = IF ~playing /\ tue = 0 THEN "Stopped" ELSE st
  /\ pc' = ret
  /\ UNCHANGED <<c, pos, loop, playing, win, tue, frac, rate, rpend, ret, k, tmp, sdir, ret2, left, zero, spin,
                 cSeekTo, cSeekBy, cLoop, cRate, nf, ncmd, panicked>>

\* ---------------------------------------------------------------- handle calls (between callbacks)
\* (outside Wide mode only calls that keep the session inside the domain of the statement)
CanCmd(kind, e) == /\ pc = "idle" /\ nf < MaxFrames /\ ncmd < MaxCmds /\ ncmd < 2 /\ kind \in Cmds
                   /\ nf >= c.at[ncmd + 1] /\ nf < c.at[ncmd + 1] + c.cs
                   /\ (Wide \/ mon.open \/ ~ApplyCmd(Upd(mon, e)).open)
CmdSeekTo(t) ==
  /\ CanCmd("SeekTo", [a |-> "seek_to", t |-> t]) /\ act' = <<"SeekTo", t>>
  /\ cSeekTo' = [on |-> TRUE, v |-> t] /\ ncmd' = ncmd + 1 /\ ev' = [a |-> "seek_to", t |-> t]
  /\ UNCHANGED <<c, pos, loop, playing, win, tue, frac, rate, rpend, st, pc, ret, k, tmp, sdir, ret2, left, zero, spin,
                 cSeekBy, cLoop, cRate, nf, panicked>>
CmdSeekBy(d) ==
  /\ CanCmd("SeekBy", [a |-> "seek_by", d |-> d]) /\ act' = <<"SeekBy", d>>
  /\ cSeekBy' = [on |-> TRUE, v |-> d] /\ ncmd' = ncmd + 1 /\ ev' = [a |-> "seek_by", d |-> d]
  /\ UNCHANGED <<c, pos, loop, playing, win, tue, frac, rate, rpend, st, pc, ret, k, tmp, sdir, ret2, left, zero, spin,
                 cSeekTo, cLoop, cRate, nf, panicked>>
CmdSetLoop(l) ==
  /\ CanCmd("SetLoop", [a |-> "set_loop", lp |-> l[1], ls |-> l[2], le |-> l[3]]) /\ act' = <<"SetLoop", l[1], l[2], l[3]>>
  /\ cLoop' = [on |-> TRUE, lp |-> l[1], ls |-> l[2], le |-> l[3]] /\ ncmd' = ncmd + 1
  /\ ev' = [a |-> "set_loop", lp |-> l[1], ls |-> l[2], le |-> l[3]]
  /\ UNCHANGED <<c, pos, loop, playing, win, tue, frac, rate, rpend, st, pc, ret, k, tmp, sdir, ret2, left, zero, spin,
                 cSeekTo, cSeekBy, cRate, nf, panicked>>
CmdSetRate(r) ==                                 \* zero-duration tween; chunks of one frame only (no ramp inside a chunk)
  /\ CanCmd("SetRate", [a |-> "set_rate", rq |-> r]) /\ c.cs = 1 /\ (r < 0) = (rate < 0) /\ act' = <<"SetRate", r>>
  /\ cRate' = [on |-> TRUE, v |-> r] /\ ncmd' = ncmd + 1 /\ ev' = [a |-> "set_rate", rq |-> r]
  /\ UNCHANGED <<c, pos, loop, playing, win, tue, frac, rate, rpend, st, pc, ret, k, tmp, sdir, ret2, left, zero, spin,
                 cSeekTo, cSeekBy, cLoop, nf, panicked>>

\* ---------------------------------------------------------------- on_start_processing
Begin ==                                         \* publish position; read_commands up to set_loop_region
  /\ pc = "idle" /\ nf < MaxFrames /\ act' = <<"Begin">>
  /\ ev' = [a |-> "begin", pos |-> win[2].i, px |-> 0, st |-> st]
  /\ rpend' = IF cRate.on THEN cRate.v ELSE rpend
  /\ cRate' = NoVal
  /\ loop' = IF cLoop.on THEN LoopOf(cLoop) ELSE loop
  /\ cLoop' = NoLoopCmd
  /\ pc' = "rd_sby"
  /\ UNCHANGED <<c, pos, playing, win, tue, frac, rate, st, ret, k, tmp, sdir, ret2, left, zero, spin,
                 cSeekTo, cSeekBy, nf, ncmd, panicked>>
RdSeekBy ==                                      \* seek_by: relative to the TRANSPORT position
  /\ pc = "rd_sby" /\ act' = <<"RdSeekBy">> /\ ev' = Tau
  /\ IF ~cSeekBy.on THEN pc' = "rd_sto" /\ UNCHANGED <<tmp, sdir, ret2, cSeekBy>>
     ELSE LET from == IF SeekByHeard THEN win[2].i ELSE pos IN
          /\ tmp' = Max(from + cSeekBy.v, 0)        \* `as usize` saturates at 0
          /\ sdir' = IF Max(from + cSeekBy.v, 0) > pos THEN "down" ELSE "up"
          /\ ret2' = "rd_sto" /\ pc' = "seek_w" /\ cSeekBy' = NoVal
  /\ UNCHANGED <<c, pos, loop, playing, win, tue, frac, rate, rpend, st, ret, k, left, zero, spin,
                 cSeekTo, cLoop, cRate, nf, ncmd, panicked>>
RdSeekTo ==
  /\ pc = "rd_sto" /\ act' = <<"RdSeekTo">> /\ ev' = Tau
  /\ IF ~cSeekTo.on THEN pc' = "proc" /\ UNCHANGED <<tmp, sdir, ret2, cSeekTo>>
     ELSE /\ tmp' = Max(cSeekTo.v, 0)
          /\ sdir' = IF Max(cSeekTo.v, 0) > pos THEN "down" ELSE "up"
          /\ ret2' = "proc" /\ pc' = "seek_w" /\ cSeekTo' = NoVal
  /\ UNCHANGED <<c, pos, loop, playing, win, tue, frac, rate, rpend, st, ret, k, left, zero, spin,
                 cSeekBy, cLoop, cRate, nf, ncmd, panicked>>
SeekW ==                                         \* Transport::seek_to wrap loops, then seek_to_index's push
  /\ pc = "seek_w" /\ act' = <<"SeekW">>
  /\ IF loop # NoLoop /\ sdir = "down" /\ tmp >= loop[2]
     THEN IF loop[2] - loop[1] < 0 THEN Panic("loop_len")
          ELSE /\ tmp' = tmp - (loop[2] - loop[1]) /\ spin' = 1 - spin /\ ev' = Tau
               /\ UNCHANGED <<c, pos, loop, playing, win, tue, frac, rate, rpend, st, pc, ret, k, sdir, ret2, left, zero,
                              cSeekTo, cSeekBy, cLoop, cRate, nf, ncmd, panicked>>
     ELSE IF loop # NoLoop /\ sdir = "up" /\ tmp < loop[1]
     THEN IF loop[2] - loop[1] < 0 THEN Panic("loop_len")
          ELSE /\ tmp' = tmp + (loop[2] - loop[1]) /\ spin' = 1 - spin /\ ev' = Tau
               /\ UNCHANGED <<c, pos, loop, playing, win, tue, frac, rate, rpend, st, pc, ret, k, sdir, ret2, left, zero,
                              cSeekTo, cSeekBy, cLoop, cRate, nf, ncmd, panicked>>
     ELSE LET pl == IF tmp >= NF THEN FALSE ELSE (SeekRevives \/ playing) IN   \* (as it is: never set back to true)
          /\ pos' = tmp /\ playing' = pl
          /\ IF st = "Playing" THEN win' = Pushed(tmp, pl) /\ tue' = TueAfter(pl)
             ELSE UNCHANGED <<win, tue>>
          /\ pc' = ret2 /\ ev' = Tau /\ spin' = 0
          /\ UNCHANGED <<c, loop, frac, rate, rpend, st, ret, k, tmp, sdir, ret2, left, zero,
                         cSeekTo, cSeekBy, cLoop, cRate, nf, ncmd, panicked>>

\* ---------------------------------------------------------------- process
Proc ==                                          \* parameter updates, early-out test
  /\ pc = "proc" /\ act' = <<"Proc", c.cs>>
  /\ ev' = [a |-> "proc", n |-> c.cs]
  /\ left' = c.cs /\ zero' = (st = "Stopped")
  /\ rate' = (IF rpend # 0 THEN rpend ELSE rate) /\ rpend' = 0
  /\ pc' = "frm"
  /\ UNCHANGED <<c, pos, loop, playing, win, tue, frac, st, ret, k, tmp, sdir, ret2, spin,
                 cSeekTo, cSeekBy, cLoop, cRate, nf, ncmd, panicked>>

\* interpolate_frame in Horner form, times 256 (a = fractional position in quarters)
Interp(a) ==
  LET p == win[1].v  cu == win[2].v  n1 == win[3].v  n2 == win[4].v
      c1h == n1 - p                                    \* 2 * c1
      c2h == 2 * p - 5 * cu + 4 * n1 - n2              \* 2 * c2
      c3h == (n2 - p) + 3 * (cu - n1)                  \* 2 * c3
  IN 2 * (((c3h * a + 4 * c2h) * a + 16 * c1h) * a + 128 * cu)

Frm ==                                           \* one iteration of the frame loop up to the `while`
  /\ pc = "frm" /\ act' = <<"Frm">>
  /\ ev' = [a |-> "frame", v |-> IF zero THEN 0 ELSE Interp(frac), x |-> 0]
  /\ frac' = IF zero THEN frac ELSE frac + (IF rate < 0 THEN -rate ELSE rate)
  /\ nf' = nf + 1 /\ pc' = "fadv"
  /\ UNCHANGED <<c, pos, loop, playing, win, tue, rate, rpend, st, ret, k, tmp, sdir, ret2, left, zero, spin,
                 cSeekTo, cSeekBy, cLoop, cRate, ncmd, panicked>>
FAdv ==                                          \* `while fractional_position >= 1.0`; end of frame / of chunk
  /\ pc = "fadv" /\ act' = <<"FAdv">>
  /\ IF ~zero /\ frac >= Q
     THEN /\ frac' = frac - Q /\ pc' = "upd" /\ ret' = "fadv" /\ ev' = Tau /\ UNCHANGED left
     ELSE IF left > 1
     THEN /\ left' = left - 1 /\ pc' = "frm" /\ ev' = Tau /\ UNCHANGED <<frac, ret>>
     ELSE /\ left' = 0 /\ pc' = "idle" /\ UNCHANGED <<frac, ret>>
          /\ ev' = [a |-> "end", st |-> st, fin |-> st = "Stopped"]
  /\ UNCHANGED <<c, pos, loop, playing, win, tue, rate, rpend, st, k, tmp, sdir, ret2, zero, spin,
                 cSeekTo, cSeekBy, cLoop, cRate, nf, ncmd, panicked>>

\* ---------------------------------------------------------------- next-state relation
SeekTargets == -1..(NF + 1)
LoopArgs == {<<FALSE, 0, -1>>} \cup {<<TRUE, a, b>> : a \in 0..NF, b \in -1..(NF + 1)}
LoopArgOK(l) == Wide \/ ~l[1] \/ LoopOK(NF, <<l[2], IF l[3] < 0 THEN NF ELSE l[3]>>)

INext == \/ Ctor \/ Prime \/ UpdPush \/ IncW \/ DecW \/ UpdChk
         \/ \E t \in SeekTargets : CmdSeekTo(t)
         \/ \E d \in Deltas : CmdSeekBy(d)
         \/ \E l \in LoopArgs : LoopArgOK(l) /\ CmdSetLoop(l)
         \/ \E r \in Rates : CmdSetRate(r)
         \/ Begin \/ RdSeekBy \/ RdSeekTo \/ SeekW \/ Proc \/ Frm \/ FAdv

Monitor ==
  LET r == Check(mon, ev') IN
  IF bad # "" THEN UNCHANGED <<mon, bad>>
  ELSE IF r # "" THEN bad' = r /\ UNCHANGED mon
  ELSE bad' = "" /\ mon' = Upd(mon, ev')

Next == Pick \/ (INext /\ Monitor)
Spec == Init /\ [][Next]_vars /\ WF_vars(Next)

\* ---------------------------------------------------------------- checked formulas
\* every P_C04 clause on every behaviour.  Before the fix of finding D17 (variant SeekRevives = FALSE)
\* a seek during the last three frames was the one deviation of the code: the transport had already
\* stopped and was never restarted; that variant of the model exhibits exactly this violation.
KnownFinding_SeekInFinalFrames == ~SeekRevives /\ bad = "seek_in_final_frames"
\* Finding D18 (variant SeekByHeard = FALSE): a negative seek_by while the prefetch position has wrapped to
\* the loop start saturates at frame 0.
KnownFinding_SeekBySaturates == ~SeekByHeard /\ bad = "seek_by_saturates_at_zero"
PropertyHolds == bad = "" \/ KnownFinding_SeekInFinalFrames \/ KnownFinding_SeekBySaturates
StrictPropertyHolds == bad = ""
NoPanic == panicked = ""
\* structure of the implementation state
TypeOK ==
  /\ tue \in 0..4 /\ frac >= 0 /\ pos >= 0
  /\ (pc \in {"idle", "frm", "proc", "rd_sby", "rd_sto"} => frac < Q)
\* while the transport is playing and between two update_position calls its position names a frame of the slice
\* (defined inputs only: the monitor is not in open mode)
IndexInSlice == (~mon.open /\ playing /\ pc \in {"idle", "frm", "fadv", "proc", "rd_sby", "rd_sto"}) => pos < NF
\* frames in the resampler window come from inside the slice
WindowInSlice == ~mon.open => \A j \in 1..4 : win[j].v = 0 \/ (win[j].v - Off - 1 >= 0 /\ win[j].v - Off - 1 < NF)
\* Stopped only when the window has drained
StoppedMeansDrained == st = "Stopped" => (tue = 0 /\ (SeekRevives \/ ~playing))
\* every call returns: the model never stays inside a wrap loop forever (checked as a temporal property)
Terminates == []<>(pc \in {"idle", "dead", "pick1", "pick2", "pick3", "pick4"})
NoHang == ~(loop # NoLoop /\ loop[1] = loop[2] /\
            \/ pc = "inc_w" /\ pos >= loop[2]
            \/ pc = "dec_w" /\ pos <= loop[1]
            \/ pc = "seek_w" /\ ((sdir = "down" /\ tmp >= loop[2]) \/ (sdir = "up" /\ tmp < loop[1])))

\* vacuity witnesses (each must be REACHABLE, i.e. reported violated when checked as an invariant)
W_Wrapped  == ~(pc = "inc_w" /\ loop # NoLoop /\ pos >= loop[2] /\ ~mon.open)
W_WrappedB == ~(pc = "dec_w" /\ loop # NoLoop /\ pos <= loop[1] /\ ~mon.open)
W_Stopped  == ~(st = "Stopped" /\ ~mon.open /\ NF > 0)
W_SeekLanded == ~(mon.cmd = "seek" /\ mon.age >= 6 /\ ~mon.open /\ bad = "" /\ st = "Playing")
W_LoopChanged == ~(mon.cmd = "loop" /\ mon.age >= 6 /\ ~mon.open /\ bad = "" /\ st = "Playing")
W_Interp   == ~(frac = 2 /\ pc = "frm" /\ ~zero /\ win[2].v # 0 /\ win[1].v # 0 /\ win[4].v # 0 /\ ~mon.open)
W_Finding  == ~KnownFinding_SeekInFinalFrames
=============================================================================
