SPECIFICATION Spec
CONSTANTS
  MaxW = 4
  MaxR = 4
VIEW View
INVARIANTS PropertyHolds Exclusive
CHECK_DEADLOCK FALSE
