SPECIFICATION Spec
CONSTANTS
  B = 2
  Ns = {1, 3}
  Speeds = {1, 2, 4}
  Targets = {3, 8}
  Delays = {2, 5}
  MaxCmd = 2
  MaxCb = 4
  MaxRd = 0
  MaxSched = 1
  OwnTime = FALSE
  Racy = FALSE
  ResetFirst = TRUE
  WriteResetFirst = FALSE
VIEW View
INVARIANTS PropertyHoldsSequential InternalTimeExact
CHECK_DEADLOCK FALSE
