----------------------------- MODULE Gen_Render -----------------------------
(* Behaviour generator for Render (spec -> implementation replay): a history *)
(* variable turns states into paths; each printed line is one behaviour: the *)
(* emitted events (gameplay calls with their arguments, callbacks, and for   *)
(* every internal chunk the observation the model expects the real renderer  *)
(* to show).                                                                 *)
EXTENDS MC_Render, Json
CONSTANT D           \* a behaviour is complete at the first callback end with at least D events
VARIABLE hist
\* ... or when the model's bound on callbacks is reached
Done  == pc = "idle" /\ (Len(hist) >= D \/ ncb = MaxCb)
GInit == Init /\ hist = <<>>
Rec(h, e) == IF e.a = "tau" THEN h ELSE Append(h, e)
\* bounded exhaustive: every behaviour of the model (its constants bound it)
GNext == ~Done /\ Next /\ hist' = Rec(hist, ev')
GSpec == GInit /\ [][GNext]_<<vars, hist>>
\* random walk (simulation mode): TLC's seeded RandomElement draws one candidate per kind of call, the
\* simulator picks one of the enabled candidates
One(Sx) == IF Sx = {} THEN {} ELSE {RandomElement(Sx)}
RCfgs(m, k) == CASE k = "probe" -> One(ProbeCfgs(m))
                 [] k = "tw"    -> One(TwCfgs)
                 [] k = "lfo"   -> {IF r = "none" \/ x = 0 THEN c ELSE [c EXCEPT ![r] = Lnk(x, mp)] :
                                      c \in One(LfoBase), r \in One(LfoRoles \cup {"none"}),
                                      x \in One(Earlier(m) \cup {0}), mp \in One(Maps)}
RAdd  == \E m \in One({x \in Mods : where[x] = "fresh"}), k \in One(Kinds) : \E c \in RCfgs(m, k) : Add(m, c)
RDrop == \E m \in One({x \in Mods : where[x] \in {"queued", "arena"} /\ ~dropped[x]}) : Drop(m)
RSet  == \E m \in One({x \in Mods : mcfg[x].kind = "tw" /\ where[x] \in {"queued", "arena"} /\ ~dropped[x]}) :
           \E a \in One({a \in TwSets : SetOK(m, a)}) : SetTw(m, a)
RLink == \E q \in One({x \in Params : pst[x] = "none"}), own \in One(Owners), x \in One({x \in Mods : HasKey(x)}), mp \in One(Maps) :
           Link(q, own, x, mp)
RRelink == (AllowLate \/ AllowSelf) /\
     \E m \in One({x \in Mods : mcfg[x].kind \in {"lfo", "probe"} /\ where[x] \in {"queued", "arena"} /\ ~dropped[x]}) :
       \E x \in One({x \in Mods : HasKey(x)}), mp \in One(Maps), r \in One(LfoRoles) :
          Relink(m, IF mcfg[m].kind = "lfo" THEN r ELSE "src", Lnk(x, mp))
\* (several draws per kind: a gameplay call is then more likely than a callback whenever one is possible)
RGame == \/ \E f \in One(Fs) : CbBegin(f)
         \/ RAdd \/ RAdd \/ RAdd \/ RDrop \/ RSet \/ RSet \/ RSet \/ RLink \/ RLink \/ RLink \/ RRelink \/ RRelink
RNext == /\ ~Done
         /\ IF pc = "idle" THEN RGame ELSE (ChunkModulators \/ ChunkClocks \/ ChunkListeners \/ ChunkMixer)
         /\ ~inexact' /\ Monitor
         /\ hist' = Rec(hist, ev')
RSpec == GInit /\ [][RNext]_<<vars, hist>>
Emit == PrintT(<<"BEHAVIOUR", ToJson(hist)>>)
Dump == Done => Emit
\* directed witnesses: states are deduplicated without the history, so BFS finds one shortest path; the
\* first behaviour reaching the situation is printed and TLC stops
GView == <<ivars, mon, bad>>
WG_Bad        == PropertyHolds \/ ~Emit
WG_HoldReused == W_HoldReused \/ pc # "idle" \/ ~Emit
=============================================================================
