----------------------------- MODULE DelayLine -----------------------------
(* Implementation-level model of the delay effect's buffer handling,        *)
(* written from crates/kira/src/effect/delay.rs (`impl Effect for Delay`,   *)
(* `process`), with integer samples.                                        *)
(*                                                                          *)
(*   buffer  : Vec<Frame> of D frames (D = delay time in frames, computed   *)
(*             in `init`), oldest frame first                               *)
(*   process : for input in input.chunks_mut(buffer.len())      <- panics   *)
(*                                                    when buffer.len() = 0 *)
(*               n    = input.len()                   (n <= D)              *)
(*               temp = buffer[..n]                   the n oldest frames   *)
(*               temp = feedback_effects(temp)        (here: a gain NG)     *)
(*               temp = temp * feedback.as_amplitude()                      *)
(*               buffer.copy_within(n.., 0)           shift left by n       *)
(*               buffer[D-n..] = input + temp         write at the end      *)
(*               input = temp * sqrt(mix) + input * sqrt(1 - mix)           *)
(*                                                                          *)
(* Everything is exact here because the gains are restricted to 0 and 1:    *)
(* feedback FB in {0, 1} (Decibels <= -60 / Decibels(0)), nested gain NG    *)
(* in {0, 1} (a VolumeControl in the feedback path), mix in {0, 1}          *)
(* (Mix::DRY / Mix::WET: sqrt(mix), sqrt(1 - mix) are 0 or 1).              *)
(*                                                                          *)
(* The module is a set of pure operators (one per loop iteration of         *)
(* `process`, and their composition for one call); MC_DelayLine turns them  *)
(* into actions and composes them with the property-level monitor; T_C13    *)
(* applies them to the inputs recorded from the real effect (drift).        *)
EXTENDS Integers, Sequences

DLMin(a, b) == IF a <= b THEN a ELSE b

\* configuration of one delay effect: [d |-> frames, fb |-> 0/1, ng |-> 0/1, mix |-> 0/1]
DLWetGain(c) == c.mix            \* sqrt(mix)     for mix in {0, 1}
DLDryGain(c) == 1 - c.mix        \* sqrt(1 - mix)

DLInitBuf(c) == [i \in 1..c.d |-> 0]                  \* vec![Frame::ZERO; delay_time_frames]

\* `chunks_mut(0)` panics: "chunk size must be non-zero"
DLPanics(c) == c.d = 0

(* One iteration of the loop over input.chunks_mut(buffer.len()):           *)
(* `sub` is the sub-chunk (1 <= Len(sub) <= D).  Result: new buffer, output *)
DLTemp(c, buf, n)  == [i \in 1..n |-> (buf[i] * c.ng) * c.fb]
DLShift(c, buf, n) == [i \in 1..(c.d - n) |-> buf[i + n]]                 \* copy_within(n.., 0): the part that stays defined
DLSub(c, buf, sub) ==
  LET n    == Len(sub)
      temp == DLTemp(c, buf, n)
      wr   == [i \in 1..n |-> sub[i] + temp[i]]                           \* buffer[D-n..] = input + temp
      out  == [i \in 1..n |-> temp[i] * DLWetGain(c) + sub[i] * DLDryGain(c)]
  IN [buf |-> DLShift(c, buf, n) \o wr, out |-> out]

(* A whole `process` call on `inp` (any length >= 1), d >= 1: iterate the   *)
(* sub-chunks of length <= D in order.                                      *)
RECURSIVE DLCall(_, _, _)
DLCall(c, buf, inp) ==
  IF inp = <<>> THEN [buf |-> buf, out |-> <<>>]
  ELSE LET n    == DLMin(c.d, Len(inp))
           r    == DLSub(c, buf, SubSeq(inp, 1, n))
           rest == DLCall(c, r.buf, SubSeq(inp, n + 1, Len(inp)))
       IN [buf |-> rest.buf, out |-> r.out \o rest.out]
=============================================================================
