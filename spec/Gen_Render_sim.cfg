\* seeded random walks of the Render model (tlc -simulate num=N -depth 400 -seed $VERIF_SEED); checks/c17.py writes
\* one such file per internal buffer size: (B, Fs, NS) in (1,{1,2,3},2) (2,{1,3,5},2) (3,{2,3,7},1) (4,{2,4,6,7},2) (4,{4,8},3)
SPECIFICATION RSpec
CONSTANTS
  S = 4096
  Mods = {1, 2, 3, 4, 5}
  Params = {1, 2, 3, 4}
  NS = 2
  B = 4
  Fs = {2, 4, 6, 7}
  MaxCb = 100000
  MaxOps = 100000
  Gap = 3
  Kinds = {"probe", "tw", "lfo"}
  ProbeSrc = TRUE
  TwInits = {0, 1}
  TwSets <- SetsD
  Waves = {"saw", "tri", "pulse", "sine"}
  Ph0s = {0, 1024}
  Freqs = {0, 2, 4, 8}
  LfoRoles = {"fr", "am", "of"}
  Maps <- MapsD
  Owners = {"mix", "clock"}
  AllowSelf = FALSE
  AllowLate = FALSE
  D = 40
INVARIANT Dump
CHECK_DEADLOCK FALSE
