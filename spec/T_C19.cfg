SPECIFICATION TSpec
CONSTANT Fixed = FALSE
INVARIANT Report
CHECK_DEADLOCK FALSE
