------------------------------- MODULE P_C13 -------------------------------
(* Property-level specification of C13 (effect laws), written from the      *)
(* property statement and the rustdoc of kira::effect, as a deterministic   *)
(* monitor over observations recorded from the real effects.                *)
(*                                                                          *)
(* A session starts with a `reset` event carrying its constants (`cfg`).    *)
(*                                                                          *)
(* kind = "dl": one delay effect driven with integer samples (value / sc),  *)
(*   delay of d frames, feedback gain fb in {0,1}, a gain ng in {0,1} in    *)
(*   the feedback path, mix in {0,1}.  Events:                              *)
(*     proc  x xr | p nf yx y yr     one `process` call: input (left, right)*)
(*           and the output it was turned into, as integers (yx: every      *)
(*           output sample was an integer multiple of 1/sc)                 *)
(*   The whole input so far is kept; every output sample is compared with   *)
(*   the echo definition  out[n] = dry*in[n] + wet*echo[n],                 *)
(*   line[n] = in[n] + G*line[n-d] (G = fb*ng, line[n] = 0 for n <= 0),     *)
(*   echo[n] = line[n-d] taken after the loop gain ("post", G*line[n-d]) or *)
(*   before it ("pre") - the documentation does not say where the feedback  *)
(*   gain sits relative to the output tap, so either is accepted, but the   *)
(*   same one for the whole session.  The definition does not mention       *)
(*   process calls: chunk independence and echo timing are both in it.      *)
(*                                                                          *)
(* kind = "law": one built-in effect with fixed parameters; every event is  *)
(*   one law evaluated on a pair/triple of runs, each run on a freshly      *)
(*   built and initialised effect.  n = frames, p = a run panicked,         *)
(*   nf = number of non-finite output samples.  Sample windows w* hold      *)
(*   round(x * 10^7 / mag) (left, right interleaved; first and last frames  *)
(*   of the run, the whole run when it is short); `dev` is the largest      *)
(*   deviation over the WHOLE run in the same unit, rounded up.             *)
(*     dry       neq wx wy        neutral setting: output == input          *)
(*     silence   nz wy            zero input: output == 0                   *)
(*     finite                     finite input: finite output               *)
(*     superpose dev mag wa wb wab   T(a+b) = T(a) + T(b)   (lin)           *)
(*     scale     cn cd dev mag wa wca T(c a) = c T(a), c = cn/cd  (lin)     *)
(*     split     nd dev w1 w2     two partitions into process calls         *)
(*   mag >= 1 is the integer ceiling of the largest absolute sample value   *)
(*   among the inputs and outputs of the runs of that event.                *)
(*                                                                          *)
(* Tolerance of the two linearity laws: 11 * k units of 10^-7 * mag, i.e.   *)
(* 1.1e-6 relative to the signal magnitude times the conditioning allowance *)
(* k >= 1 of the configuration (session constant, computed from the effect  *)
(* parameters alone: the rounding errors that are still in the effect's     *)
(* memory - added in quadrature, plus a linear term for systematic ones -   *)
(* times its internal gain; derivation and formula in checks/c13.py         *)
(* `conditioning`; k = 4 for the memoryless effects; configurations with    *)
(* k > KMAX are not checked for linearity at all).                          *)
(* +2 on window samples because each of the three compared numbers is       *)
(* rounded to a unit separately.  Everything else is exact (== on f32, +0   *)
(* and -0 identified).                                                      *)
(*                                                                          *)
(* Check(m, e) is the name of the first clause of the statement the event   *)
(* contradicts, or "".                                                      *)
EXTENDS Integers, Sequences, FiniteSets

TOL  == 11
KMAX == 2000       \* largest conditioning allowance for which the linearity laws are evaluated at all

PAbs(a) == IF a >= 0 THEN a ELSE -a

PInit(cfg) == [cfg |-> cfg, xs |-> <<>>, xr |-> <<>>, conv |-> {"post", "pre"}]

AllZero(s) == \A j \in 1..Len(s) : s[j] = 0

-----------------------------------------------------------------------------
(* the echo definition (per sample, no notion of process calls)             *)
RECURSIVE Line(_, _, _, _)
Line(s, d, g, n) == IF n <= 0 THEN 0 ELSE s[n] + g * Line(s, d, g, n - d)
Echo(cv, s, d, g, n) == IF cv = "post" THEN g * Line(s, d, g, n - d) ELSE Line(s, d, g, n - d)
RefOut(cv, c, s, n) == IF c.mix = 0 THEN s[n] ELSE Echo(cv, s, c.d, c.fb * c.ng, n)

Viable(m, e) ==
  LET c == m.cfg  s == m.xs \o e.x  sr == m.xr \o e.xr  base == Len(m.xs)
  IN {cv \in m.conv : \A j \in 1..Len(e.x) : /\ e.y[j]  = RefOut(cv, c, s,  base + j)
                                             /\ e.yr[j] = RefOut(cv, c, sr, base + j)}

ChkProc(m, e) ==
  LET c == m.cfg  L == Len(e.x)
  IN IF e.p THEN "no_panic"
     ELSE IF L = 0 \/ Len(e.xr) # L \/ Len(e.y) # L \/ Len(e.yr) # L THEN "harness_malformed"
     ELSE IF e.nf > 0 THEN "finite_in_finite_out"
     ELSE IF c.d < 1 THEN ""          \* a delay shorter than one frame: no echo is defined; only the clauses above
     ELSE IF ~e.yx THEN "echo_definition"
     ELSE IF c.mix = 0 /\ (e.y # e.x \/ e.yr # e.xr) THEN "dry_is_identity"
     ELSE IF AllZero(m.xs \o e.x) /\ AllZero(m.xr \o e.xr) /\ ~(AllZero(e.y) /\ AllZero(e.yr)) THEN "silence_stays_silent"
     ELSE IF Viable(m, e) = {} THEN "echo_definition"
     ELSE ""

-----------------------------------------------------------------------------
(* laws over paired runs                                                    *)
Common(e) == IF e.p THEN "no_panic" ELSE IF e.nf > 0 THEN "finite_in_finite_out" ELSE ""

ChkLaw(m, e) ==
  LET c == Common(e) IN
  IF c # "" THEN c
  ELSE CASE e.a = "dry" ->
              IF e.neq # 0 \/ e.wx # e.wy THEN "dry_is_identity" ELSE ""
         [] e.a = "silence" ->
              IF e.nz # 0 \/ ~AllZero(e.wy) THEN "silence_stays_silent" ELSE ""
         [] e.a = "finite" -> ""
         [] e.a = "superpose" ->
              IF ~m.cfg.lin \/ m.cfg.k < 1 \/ m.cfg.k > KMAX \/ e.mag < 1 \/ Len(e.wa) # Len(e.wab) \/ Len(e.wb) # Len(e.wab) THEN "harness_malformed"
              ELSE IF e.dev > TOL * m.cfg.k THEN "superposition"
              ELSE IF \E j \in 1..Len(e.wab) : PAbs(e.wab[j] - e.wa[j] - e.wb[j]) > TOL * m.cfg.k + 2 THEN "superposition"
              ELSE ""
         [] e.a = "scale" ->
              \* c = cn / cd, 1 <= cd <= 8, |cn| <= 64; the window holds wa ~ T(a), wca ~ T(c a), both rounded
              IF ~m.cfg.lin \/ m.cfg.k < 1 \/ m.cfg.k > KMAX \/ e.mag < 1 \/ e.cd < 1 \/ e.cd > 8 \/ PAbs(e.cn) > 64 \/ Len(e.wa) # Len(e.wca) THEN "harness_malformed"
              ELSE IF e.dev > TOL * m.cfg.k THEN "scaling"
              ELSE IF \E j \in 1..Len(e.wca) :
                        PAbs(e.cd * e.wca[j] - e.cn * e.wa[j]) > e.cd * (TOL * m.cfg.k + 1) + PAbs(e.cn) THEN "scaling"
              ELSE ""
         [] e.a = "split" ->
              IF e.nd # 0 \/ e.dev # 0 \/ e.w1 # e.w2 THEN "split_independent" ELSE ""
         [] OTHER -> "harness_malformed"

Check(m, e) ==
  IF m.cfg.kind = "dl" THEN (IF e.a = "proc" THEN ChkProc(m, e) ELSE "harness_malformed")
  ELSE IF m.cfg.kind = "law" THEN ChkLaw(m, e)
  ELSE "harness_malformed"

Upd(m, e) ==
  IF m.cfg.kind = "dl" /\ e.a = "proc" /\ ~e.p /\ Len(e.xr) = Len(e.x)
  THEN LET v == Viable(m, e) IN
       [m EXCEPT !.xs = @ \o e.x, !.xr = @ \o e.xr,
                 !.conv = IF m.cfg.d >= 1 /\ Len(e.y) = Len(e.x) /\ Len(e.yr) = Len(e.x) /\ v # {} THEN v ELSE @]
  ELSE m
=============================================================================
