----------------------------- MODULE Gen_Sched -----------------------------
(* Scenarios for the scheduled-start part of C05: kind of thing x tick x     *)
(* tween duration in buffers (a plain product, printed by TLC).              *)
EXTENDS Integers, Sequences, TLC, Json
Kinds == {"sound", "resume", "sound_vol", "track_vol", "main_vol", "listener", "emitter", "tweener",
          "clock_speed_older", "clock_speed_younger"}
Tweened == Kinds \ {"sound", "resume"}
VARIABLE sc
\* paused: the clock has passed the tick and is paused when the thing is scheduled (see P_C05S)
Init == sc \in [what : Kinds, w : 1..3, d : {0, 2}, paused : BOOLEAN]
Next == UNCHANGED sc
Spec == Init /\ [][Next]_sc
Meaningful == /\ sc.d > 0 => sc.what \in Tweened
              /\ sc.paused => (sc.what \notin {"clock_speed_older", "clock_speed_younger"} /\ sc.w <= 2)
Dump == Meaningful => PrintT(<<"BEHAVIOUR", ToJson(<<sc>>)>>)
=============================================================================
