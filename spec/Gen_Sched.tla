----------------------------- MODULE Gen_Sched -----------------------------
(* Scenarios for the scheduled-start part of C05: kind of thing x tick x     *)
(* tween duration in buffers (a plain product, printed by TLC).              *)
EXTENDS Integers, Sequences, TLC, Json
Kinds == {"sound", "resume", "sound_vol", "track_vol", "main_vol", "listener", "emitter", "tweener",
          "clock_speed_older", "clock_speed_younger"}
Tweened == Kinds \ {"sound", "resume"}
VARIABLE sc
Init == sc \in [what : Kinds, w : 1..3, d : {0, 2}]
Next == UNCHANGED sc
Spec == Init /\ [][Next]_sc
Meaningful == sc.d > 0 => sc.what \in Tweened
Dump == Meaningful => PrintT(<<"BEHAVIOUR", ToJson(<<sc>>)>>)
=============================================================================
