SPECIFICATION Spec
CONSTANTS
  Total = 5
  Packets = {1, 2, 3}
  MaxEarly = 2
  MaxOut = 8
INVARIANTS Faithful BeliefExact TransportIsReference Progress
CHECK_DEADLOCK FALSE
