\* StaticSound, termination of the transport's wrap loops as a temporal property (weak fairness, no state constraint):
\* every started call returns.  Length 3, rate +-1, chunks of 2, one seek_to / set_loop_region after 2 frames.
\* Measured: 39 429 distinct states, 9 s.  With Wide = TRUE and SafeTransport = FALSE (the code before the fixes of D6/D9:
\* loop end <= loop start allowed and not filtered) the same property is VIOLATED, and so are NoHang and NoPanic.
\* run: tlc -workers 2 -config StaticSound_live_q.cfg MC_StaticSound.tla
SPECIFICATION Spec
CONSTANTS
  Lens = {3}
  Slicing = FALSE
  DeltaMags = {1}
  RateMags = {4}
  NegRates = TRUE
  ChunkSizes = {2}
  ChunkMix = FALSE
  CmdTimes = {2}
  MaxFrames = 8
  MaxCmds = 1
  Cmds = {"SeekTo", "SetLoop"}
  SeekRevives = TRUE
  SeekByHeard = TRUE
  SafeTransport = TRUE
  Wide = FALSE
PROPERTY Terminates
INVARIANTS PropertyHolds NoHang
CHECK_DEADLOCK FALSE
