\* Behaviour generation by random simulation: lengths 5..9, rates +-{1, 1/2, 2}, chunks 1..3, up to two handle commands
\* (seek_to, seek_by, set_loop_region, set_playback_rate) at random times; one printed line per finished session.
\* run: tlc -workers 1 -simulate num=500 -depth 600 -seed 1 -config Gen_StaticSound_sim.cfg Gen_StaticSound.tla
SPECIFICATION GSpec
CONSTANTS
  Lens = {5, 6, 7, 9}
  Slicing = FALSE
  DeltaMags = {1, 2, 3, 4}
  RateMags = {4, 2, 8}
  NegRates = TRUE
  ChunkSizes = {1, 2, 3}
  ChunkMix = FALSE
  CmdTimes = {0, 1, 2, 3, 4, 5, 6, 8, 10}
  MaxFrames = 18
  MaxCmds = 2
  Cmds = {"SeekTo", "SeekBy", "SetLoop", "SetRate"}
  SeekRevives = TRUE
  SeekByHeard = TRUE
  SafeTransport = TRUE
  Wide = FALSE
INVARIANTS Dump PropertyHolds NoPanic TypeOK IndexInSlice WindowInSlice StoppedMeansDrained NoHang
CHECK_DEADLOCK FALSE
