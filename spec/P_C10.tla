------------------------------ MODULE P_C10 ------------------------------
(* Property-level specification of C10 (decoder threads always end; decode  *)
(* errors stop the sound and reach the handle; a slow decoder only causes   *)
(* gaps), from the property statement.  One monitor watches ONE streaming   *)
(* sound whose decoder thread is stepped by a scheduler, so "bounded time"  *)
(* and "busy-spinning" are counted in decoder loop iterations.              *)
(*                                                                          *)
(* Events                                                                   *)
(*   play ok            the sound was created (ok = FALSE: creation itself  *)
(*                      returned the decoder's error; no thread exists)     *)
(*   dec site prod      the decoder thread reached a loop point:            *)
(*                        top (about to run one iteration), wait (ring full,*)
(*                        about to sleep), err (reported an error),         *)
(*                        end (about to leave the loop); prod = frames      *)
(*                        pushed so far                                     *)
(*   exit               the thread released its decoder                     *)
(*   waitgone           gameplay: resume_at(a clock time) + the clock's     *)
(*                      handle dropped: the wait can never end              *)
(*   stop | reject | discard     gameplay: handle.stop(0) / the sound was   *)
(*                      refused by a full track / dropped with its track or *)
(*                      manager                                             *)
(*   cb state idx zero nsounds   a callback: handle state, source frames    *)
(*                      heard (-1 = silent frame), all-silent flag, count   *)
(*   pop msg            handle.pop_error() returned msg ("" = nothing)      *)
(*   end exited         end of the session (after the scheduler granted the *)
(*                      thread K further iterations)                        *)
EXTENDS Integers, FiniteSets, Sequences

PInit(cap, len, failAt) ==
  [ K |-> cap + 3,            \* iterations the thread may still take once it has a reason to end
    len |-> len, failAt |-> failAt,
    cause |-> "none", steps |-> 0,
    idle |-> 0, lastProd |-> 0,
    exited |-> FALSE, created |-> FALSE, played |-> FALSE,
    failed |-> FALSE, cbSinceFail |-> 0, popped |-> 0,
    stoppedSeen |-> FALSE, cbSinceStopped |-> 0,
    gone |-> FALSE,              \* the sound itself was rejected / discarded: nothing left to stop or unload
    nx |-> 0, gap |-> FALSE ]    \* next frame to be heard; a silent gap was heard since the last frame

Heard(e) == SelectSeq(e.idx, LAMBDA i : i >= 0)

\* frames heard in one callback continue the sequence: +1, or +2 right after a gap; never back, never beyond the audio
RECURSIVE SeqOK(_, _, _, _)
SeqOK(idx, j, nx, gap) ==
  IF j > Len(idx) THEN TRUE
  ELSE IF idx[j] < 0 THEN SeqOK(idx, j + 1, nx, TRUE)
  ELSE /\ (idx[j] = nx \/ (gap /\ idx[j] = nx + 1))
       /\ SeqOK(idx, j + 1, idx[j] + 1, FALSE)

RECURSIVE NextAfter(_, _, _)
NextAfter(idx, j, nx) == IF j > Len(idx) THEN nx ELSE NextAfter(idx, j + 1, IF idx[j] >= 0 THEN idx[j] + 1 ELSE nx)
GapAfter(idx, gap) == IF Len(idx) = 0 THEN gap ELSE IF idx[Len(idx)] < 0 THEN TRUE ELSE FALSE

Slept(e) == IF "us" \in DOMAIN e THEN e.us >= 200 ELSE "ms" \in DOMAIN e /\ e.ms >= 1

Check(m, e) ==
  CASE e.a = "play" -> IF ~e.ok /\ m.failAt # 1 THEN "harness_unexpected_play_error" ELSE ""
    [] e.a = "dec" ->
         IF m.exited THEN "thread_ended_means_ended"
         ELSE IF e.site = "top" /\ m.cause # "none" /\ m.steps + 1 > m.K THEN "ends_in_bounded_steps"
         \* (back at the top of its loop with nothing pushed since, twice in a row, and - where the wall clock was recorded -
         \*  in under a millisecond: it did not sleep in between)
         \* (where microseconds were recorded: a pass that took 200 us or more has slept - a pass that does not sleep takes the
         \*  few microseconds of its code plus the hand-over to the driver; how long an idle thread sleeps is not the statement's business)
         ELSE IF e.site = "top" /\ e.prod = m.lastProd /\ m.idle >= 1 /\ ~Slept(e) THEN "never_busy_spins"
         \* "within bounded time": a thread with nothing to do sleeps for a millisecond, not for ever longer - it must be back
         \* at the top of its loop well within a second of being let go (the margin is for a loaded machine)
         ELSE IF "ms" \in DOMAIN e /\ e.ms > 700 THEN "idle_thread_wakes_up_in_bounded_time"
         ELSE ""
    [] e.a = "cb" ->
         IF e.panicked THEN "no_panic"
         ELSE IF \E j \in 1..Len(e.idx) : e.idx[j] >= m.len THEN "no_foreign_frames"
         ELSE IF ~SeqOK(e.idx, 1, m.nx, m.gap) THEN "frames_in_order_only_gaps"
         ELSE IF m.failed /\ ~m.gone /\ m.cbSinceFail >= 1 /\ e.state # "Stopped" THEN "error_stops_the_sound"
         ELSE IF m.failed /\ m.cbSinceFail >= 1 /\ ~e.zero THEN "no_audio_after_error"
         ELSE IF m.stoppedSeen /\ e.nsounds # 0 THEN "unloaded_after_stopped"
         \* (a sound whose creation returned the decoder's error was never loaded: it occupies nothing)
         ELSE IF m.played /\ ~m.created /\ e.nsounds # 0 THEN "failed_sound_is_not_loaded"
         ELSE ""
    [] e.a = "pop" ->
         IF m.popped = 0 /\ e.msg # 0 /\ e.msg # m.failAt THEN "first_error_reaches_the_handle"
         ELSE IF m.failed /\ m.popped = 0 /\ m.cbSinceFail >= 1 /\ e.msg # m.failAt THEN "first_error_reaches_the_handle"
         ELSE ""
    [] e.a = "end" -> IF m.created /\ ~e.exited THEN "thread_released_decoder" ELSE ""
    [] e.a = "panic" -> "no_panic"
    [] e.a = "hang" -> "returns_promptly"
    [] OTHER -> ""

Cause(m, c) == IF m.cause = "none" THEN [m EXCEPT !.cause = c, !.steps = 0] ELSE m

Upd(m, e) ==
  CASE e.a = "play" -> [m EXCEPT !.created = e.ok, !.played = TRUE]
    [] e.a = "dec" ->
         LET m1 == IF e.site = "err" THEN Cause([m EXCEPT !.failed = TRUE], "failed")
                   \* (running out of audio to decode is not yet a reason to end: the sound "has finished" when it reports Stopped -
                   \*  until then a seek may still bring it back; a thread that does leave at this point is fine too)
                   ELSE m IN
         [m1 EXCEPT !.steps = IF e.site = "top" /\ m1.cause # "none" THEN @ + 1 ELSE @,
                    \* (counted up to 2 only: a thread may idle for ever - paused stream, audio run out but sound not finished)
                    !.idle = IF e.site = "top" THEN (IF e.prod = m.lastProd THEN (IF @ >= 2 THEN 2 ELSE @ + 1) ELSE 1) ELSE 0,
                    !.lastProd = e.prod]
    [] e.a = "exit" -> [m EXCEPT !.exited = TRUE]
    [] e.a \in {"reject", "discard"} -> [Cause(m, e.a) EXCEPT !.gone = TRUE]
    [] e.a = "cb" ->
         \* (a sound that is no longer on its track has finished or been stopped, whatever its handle says)
         LET m1 == IF e.state = "Stopped" THEN Cause(m, "stopped")
                   ELSE IF m.created /\ e.nsounds = 0 THEN Cause(m, "unloaded") ELSE m IN
         [m1 EXCEPT !.nx = NextAfter(e.idx, 1, m.nx), !.gap = GapAfter(e.idx, m.gap),
                    !.cbSinceFail = IF m.failed THEN @ + 1 ELSE 0,
                    !.stoppedSeen = (e.state = "Stopped")]
    \* (an error may be poppable a moment before the thread has flagged it: the deadlines count from the flag)
    [] e.a = "pop" -> [m EXCEPT !.popped = IF e.msg # 0 THEN @ + 1 ELSE @]
    [] OTHER -> m
=============================================================================
