------------------------------- MODULE T_C05S -------------------------------
EXTENDS Integers, Sequences, FiniteSets, TLC, Json, IOUtils, P_C05S
Rec == ndJsonDeserialize(IOEnv.TRACE)
VARIABLES l, mon, mode, bad
tvars == <<l, mon, mode, bad>>
TInit == l = 1 /\ mon = PInit([what |-> "sound", w |-> 1, paused |-> FALSE]) /\ mode = "skip" /\ bad = <<>>
TNext ==
  /\ l <= Len(Rec)
  /\ l' = l + 1
  /\ LET e == Rec[l] IN
     IF e.a = "reset" THEN mon' = PInit([what |-> e.what, w |-> e.w, paused |-> ("paused" \in DOMAIN e /\ e.paused)]) /\ mode' = "ok" /\ bad' = bad
     ELSE IF mode = "skip" \/ e.a = "end" THEN UNCHANGED <<mon, mode, bad>>
     ELSE LET r == Check(mon, e) IN
          IF r = "" THEN mon' = Upd(mon, e) /\ UNCHANGED <<mode, bad>>
          ELSE /\ mode' = "skip" /\ UNCHANGED mon
               /\ bad' = Append(bad, [s |-> e.s, i |-> e.i, a |-> e.a, reason |-> r])
TSpec == TInit /\ [][TNext]_tvars
Done == l = Len(Rec) + 1
Report == Done => /\ PrintT(<<"BAD", ToJson(bad)>>)
                  /\ PrintT(<<"CONSUMED", l - 1, Len(Rec)>>)
=============================================================================
