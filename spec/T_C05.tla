------------------------------- MODULE T_C05 -------------------------------
EXTENDS Integers, Sequences, FiniteSets, TLC, Json, IOUtils, P_C05
Rec == ndJsonDeserialize(IOEnv.TRACE)
\* mon2: the same monitor following the other reading of when a delayed speed change is due (P_C05 Walk, `early`); a session
\* is rejected when neither reading explains it ("alive" tells which are still in the race)
VARIABLES l, mon, mon2, alive, mode, bad
tvars == <<l, mon, mon2, alive, mode, bad>>
TInit == l = 1 /\ mon = PInit(1) /\ mon2 = PInit(1) /\ alive = <<TRUE, TRUE>> /\ mode = "skip" /\ bad = <<>>
TNext ==
  /\ l <= Len(Rec)
  /\ l' = l + 1
  /\ LET e == Rec[l] IN
     IF e.a = "reset" THEN /\ mon' = [PInit(e.b) EXCEPT !.speed = e.speed0]
                           /\ mon2' = [PInit(e.b) EXCEPT !.speed = e.speed0, !.early = TRUE]
                           /\ alive' = <<TRUE, TRUE>> /\ mode' = "ok" /\ bad' = bad
     ELSE IF mode = "skip" \/ e.a = "end" THEN UNCHANGED <<mon, mon2, alive, mode, bad>>
     ELSE LET r1 == IF alive[1] THEN Check(mon, e) ELSE "x"
              r2 == IF alive[2] THEN Check(mon2, e) ELSE "x"
          IN IF r1 = "" \/ r2 = ""
             THEN /\ mon' = IF r1 = "" THEN Upd(mon, e) ELSE mon
                  /\ mon2' = IF r2 = "" THEN Upd(mon2, e) ELSE mon2
                  /\ alive' = <<r1 = "", r2 = "">> /\ UNCHANGED <<mode, bad>>
             ELSE /\ mode' = "skip" /\ UNCHANGED <<mon, mon2, alive>>
                  \* (reported under the clause of the first reading still in the race)
                  /\ bad' = Append(bad, [s |-> e.s, i |-> e.i, a |-> e.a, reason |-> IF alive[1] THEN r1 ELSE r2])
TSpec == TInit /\ [][TNext]_tvars
Done == l = Len(Rec) + 1
Report == Done => /\ PrintT(<<"BAD", ToJson(bad)>>)
                  /\ PrintT(<<"CONSUMED", l - 1, Len(Rec)>>)
=============================================================================
