------------------------------ MODULE MC_Mixer ------------------------------
EXTENDS Mixer
View == <<ivars, mon, bad>>
Fx(m, a, bb, s) == [main |-> m, A |-> a, B |-> bb, S |-> s]
Vol(m, a, bb, s) == [main |-> m, A |-> a, B |-> bb, S |-> s]
Rv(a, bb) == [A |-> a, B |-> bb]
Scene(shape, snd, fx, vol, rv, send) ==
  [shape |-> shape, trk |-> {"A", "B"}, snd |-> snd, fx |-> fx, vol |-> vol, rv |-> rv, send |-> send, send2 |-> FALSE, rv2 |-> Rv(-1, -1), persistB |-> FALSE]
\* a second send track
Scene2(shape, snd, fx, vol, rv, rv2) ==
  [shape |-> shape, trk |-> {"A", "B"}, snd |-> snd, fx |-> fx, vol |-> vol, rv |-> rv, send |-> TRUE, send2 |-> TRUE, rv2 |-> rv2, persistB |-> FALSE]
\* families of scenes: both shapes x effect placements x muted branch x route tables
QuickScenes ==
  { Scene(sh, {"s0", "s1", "s2"}, fx, vol, rv, TRUE) :
      sh \in {"chain", "fork"},
      fx \in {Fx(FALSE, FALSE, FALSE, FALSE), Fx(TRUE, TRUE, TRUE, TRUE), Fx(FALSE, TRUE, FALSE, TRUE)},
      vol \in {Vol(1, 1, 1, 1), Vol(1, 0, 1, 1), Vol(1, 1, 1, 0)},
      rv \in {Rv(1, 1), Rv(1, -1), Rv(0, 1)} }
  \cup { Scene(sh, {"s1", "s2"}, Fx(TRUE, FALSE, TRUE, FALSE), Vol(1, 1, 1, 1), Rv(-1, -1), FALSE) : sh \in {"chain", "fork"} }
  \cup { Scene2(sh, {"s0", "s1", "s2"}, Fx(FALSE, FALSE, FALSE, TRUE), Vol(1, 1, 1, 1), rv, rv2) :
            sh \in {"chain", "fork"}, rv \in {Rv(1, 1), Rv(1, -1)}, rv2 \in {Rv(1, 1), Rv(-1, 1), Rv(1, -1)} }
  \cup { [Scene(sh, {"s0", "s1", "s2"}, Fx(FALSE, FALSE, FALSE, FALSE), Vol(1, 1, 1, 1), Rv(1, 1), TRUE) EXCEPT !.persistB = TRUE] :
            sh \in {"chain", "fork"} }
\* scenes whose track B persists until its sound finishes (removal rules under dropped handles: parents wait for persisting children)
PersistScenes ==
  { [Scene(sh, {"s0", "s1", "s2"}, fx, vol, rv, TRUE) EXCEPT !.persistB = TRUE] :
      sh \in {"chain", "fork"},
      fx \in {Fx(FALSE, FALSE, FALSE, FALSE), Fx(FALSE, TRUE, FALSE, TRUE)},
      vol \in {Vol(1, 1, 1, 1), Vol(1, 1, 1, 0)},
      rv \in {Rv(1, 1), Rv(1, -1)} }
ThoroughScenes ==
  { Scene(sh, snd, fx, vol, rv, TRUE) :
      sh \in {"chain", "fork"}, snd \in {{"s0", "s1", "s2"}, {"s1", "s2"}, {"s2"}},
      fx \in {Fx(m, a, bb, s) : m, a, bb, s \in BOOLEAN},
      vol \in {Vol(1, 1, 1, 1), Vol(1, 0, 1, 1), Vol(1, 1, 0, 1), Vol(1, 1, 1, 0), Vol(0, 1, 1, 1)},
      rv \in {Rv(x, y) : x, y \in {-1, 0, 1}} }
  \cup { Scene2(sh, snd, fx, Vol(1, 1, 1, 1), rv, rv2) :
            sh \in {"chain", "fork"}, snd \in {{"s0", "s1", "s2"}, {"s1", "s2"}},
            fx \in {Fx(FALSE, FALSE, FALSE, TRUE), Fx(TRUE, TRUE, FALSE, FALSE)},
            rv \in {Rv(x, y) : x, y \in {-1, 0, 1}}, rv2 \in {Rv(x, y) : x, y \in {-1, 1}} }
=============================================================================
