------------------------------- MODULE T_C13 -------------------------------
(* Trace validation for C13: every observation recorded from the real       *)
(* effects (harness driver `c13`) is judged by the property-level monitor   *)
(* P_C13 (rejections are printed as BADEV) and, for delay-line sessions,    *)
(* compared with the model of the source in DelayLine.tla run on the same   *)
(* input slices (differences are printed as DRIFTEV: the model no longer    *)
(* describes the code; not an alarm).  Validation never stops at a          *)
(* rejection: every rejected event of every session is reported.            *)
EXTENDS P_C13, DelayLine, TLC, Json, IOUtils

CONSTANT SubFramePanics   \* TRUE: the source is expected to panic for a delay shorter than one frame (as it does today)

Rec == ndJsonDeserialize(IOEnv.TRACE)

VARIABLES l, mon, im, bad, drift
tvars == <<l, mon, im, bad, drift>>

\* the configuration the model builds its buffer from (a repaired source uses one frame for a shorter delay)
DLCfg(c) == [d |-> IF ~SubFramePanics /\ c.d = 0 THEN 1 ELSE c.d, fb |-> c.fb, ng |-> c.ng, mix |-> c.mix]
IMInit(c) == IF c.kind = "dl" THEN [bl |-> DLInitBuf(DLCfg(c)), br |-> DLInitBuf(DLCfg(c)), dead |-> FALSE]
             ELSE [bl |-> <<>>, br |-> <<>>, dead |-> FALSE]

\* the model's answer to one recorded process call
IMStep(m, s, e) ==
  IF m.cfg.kind # "dl" \/ e.a # "proc" \/ s.dead \/ Len(e.xr) # Len(e.x) THEN [st |-> s, what |-> ""]
  ELSE LET c == DLCfg(m.cfg) IN
       IF DLPanics(c) THEN
         [st |-> [s EXCEPT !.dead = TRUE],
          what |-> IF SubFramePanics = e.p THEN "" ELSE IF e.p THEN "panic" ELSE "a delay shorter than one frame no longer panics"]
       ELSE IF e.p THEN [st |-> [s EXCEPT !.dead = TRUE], what |-> "panic"]
       ELSE LET rl == DLCall(c, s.bl, e.x)  rr == DLCall(c, s.br, e.xr)
            IN [st |-> [s EXCEPT !.bl = rl.buf, !.br = rr.buf],
                what |-> IF ~e.yx \/ rl.out # e.y \/ rr.out # e.yr THEN "output differs from DelayLine model" ELSE ""]

Say(tag, rec) == PrintT(<<tag, ToJson(rec)>>)

TInit == l = 1 /\ mon = PInit([kind |-> "none"]) /\ im = IMInit([kind |-> "none"]) /\ bad = 0 /\ drift = 0
TNext ==
  /\ l <= Len(Rec)
  /\ l' = l + 1
  /\ LET e == Rec[l] IN
     IF e.a = "reset" THEN mon' = PInit(e) /\ im' = IMInit(e) /\ UNCHANGED <<bad, drift>>
     ELSE LET r == Check(mon, e)  d == IMStep(mon, im, e) IN
          /\ mon' = Upd(mon, e)
          /\ im' = d.st
          /\ IF r = "" THEN bad' = bad
             ELSE bad' = bad + 1 /\ Say("BADEV", [s |-> e.s, i |-> e.i, a |-> e.a, reason |-> r])
          /\ IF d.what = "" THEN drift' = drift
             ELSE drift' = drift + 1 /\ Say("DRIFTEV", [s |-> e.s, i |-> e.i, a |-> e.a, what |-> d.what])
TSpec == TInit /\ [][TNext]_tvars

\* acceptance: the whole file was consumed
Done == l = Len(Rec) + 1
Report == Done => PrintT(<<"CONSUMED", l - 1, Len(Rec), bad, drift>>)
=============================================================================
