\* thorough: fractions k/16, ticks 0..7, amounts -8..8 ticks in steps of 1/16 (and whole ticks 0..8),
\* mapping/easing/clock-speed tables as in TimeArith_q.cfg.  Model of the source as it is (Fixed = FALSE).
\* Measured: 88 538 distinct states (= tabulated cases + one initial state per session), depth 258, 4 s on 4 workers.
SPECIFICATION Spec
CONSTANTS
  Q = 16
  MaxT = 7
  MaxA = 8
  Fixed = FALSE
INVARIANTS PropertyHolds LawFractionInRange LawAddThenSub LawSubThenAdd LawNoWrap LawAddExact LawDispatch LawWholeTicks LawOrder LawFromTicks LawCodeAgrees LawEasingEndpoints LawEasingMonotone LawEasingExactlyScalable LawMappingClamps LawSpeedConsistent
CHECK_DEADLOCK FALSE
