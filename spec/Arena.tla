------------------------------- MODULE Arena -------------------------------
(* Implementation-level model of kira's resource storage                    *)
(*   crates/kira/src/backend/resources.rs  (ResourceStorage,                *)
(*   SelfReferentialResourceStorage, ResourceController)                    *)
(*   atomic_arena 0.1.2 (Controller free list / flags / generations, Arena) *)
(* One action per stretch of code between two yield points (cfg kira_verif):*)
(*   gameplay:  try_reserve | ctl.reserved | drain unused | ctl.drained |   *)
(*              push new                                                    *)
(*   audio:     per removed slot: free slot | sto.removed | push unused;    *)
(*              sto.refill | per new entry: pop + insert_with_key           *)
(* Every action emits an event `ev`; the property-level monitor of P_C08 is *)
(* run in lock step (variable `mon`, `bad`).                                *)
EXTENDS Integers, Sequences, FiniteSets, TLC, P_C08

CONSTANTS N,            \* arena capacity (>= 1; capacity 0 is a separate finding)
          SelfRef,      \* TRUE: SelfReferentialResourceStorage (keys vector, is_full guard)
          UnusedCap,    \* capacity of the unused-resource ring (code: N + 1 after the fix)
          Replayable,   \* TRUE: steps are exactly the stretches between two yield points of the real code
                        \*       (drain loop atomic; the audio thread cannot be preempted between yield points)
          MergedReserve,\* TRUE: no yield between try_reserve and the drain (try_reserve + insert_with_key callers)
          MaxCb         \* bound on the number of callbacks

VARIABLES cfree, cgen, flist,         \* controller: free flags, generations, free list (head first)
          slot, agen, order,          \* arena: contents (0 = Free), generations, iteration order
          newRing, unusedRing,
          mark, where, key,
          gpc, gitem,                 \* gameplay thread
          apc, ascan, ahand,          \* audio thread
          alock,                      \* Replayable only: audio thread is between two yield points
          cb, panicked,
          act,                        \* name and argument of the step just taken (for replay)
          ev, mon, bad                \* emitted event, P-monitor state, first P-level reason

ivars == <<cfree, cgen, flist, slot, agen, order, newRing, unusedRing, mark, where, key,
           gpc, gitem, apc, ascan, ahand, alock, cb, panicked>>
vars  == <<ivars, act, ev, mon, bad>>

Slots == 1..N
NoKey == <<0, 0>>
Tau   == [a |-> "tau"]

CLen == Cardinality({i \in Slots : ~cfree[i]})          \* ResourceController::len
InArena == {slot[i] : i \in Slots} \ {0}
Resolves == {x \in Items : key[x] # NoKey /\ agen[key[x][1]] = key[x][2] /\ slot[key[x][1]] # 0}

Init ==
  /\ cfree = [i \in Slots |-> TRUE] /\ cgen = [i \in Slots |-> 0]
  /\ flist = [i \in 1..N |-> i]
  /\ slot = [i \in Slots |-> 0] /\ agen = [i \in Slots |-> 0] /\ order = <<>>
  /\ newRing = <<>> /\ unusedRing = <<>>
  /\ mark = [x \in Items |-> FALSE] /\ where = [x \in Items |-> "fresh"]
  /\ key = [x \in Items |-> NoKey]
  /\ gpc = "idle" /\ gitem = 0
  /\ apc = "idle" /\ ascan = <<>> /\ ahand = 0
  /\ cb = 0 /\ panicked = "" /\ alock = FALSE
  /\ act = <<"Init", 0>> /\ ev = Tau /\ mon = PInit(N, TRUE) /\ bad = ""

\* ---------------------------------------------------------------- gameplay
DrainAll == /\ unusedRing' = <<>>
            /\ where' = [x \in Items |-> IF \E j \in 1..Len(unusedRing) : unusedRing[j] = x
                                          THEN "gdropped" ELSE where[x]]

GReserve(x) ==
  /\ gpc = "idle" /\ where[x] = "fresh" /\ panicked = "" /\ ~alock
  /\ act' = <<"GReserve", x>>
  /\ \A y \in Items : y < x => where[y] # "fresh"          \* symmetry: items are created in order
  /\ IF flist = <<>>
     THEN /\ where' = [where EXCEPT ![x] = "failed"]
          /\ ev' = [a |-> "reserve", item |-> x, ok |-> FALSE, len |-> CLen, cap |-> N]
          /\ UNCHANGED <<cfree, flist, key, gpc, gitem, unusedRing>>
     ELSE LET i == Head(flist) IN
          /\ flist' = Tail(flist)
          /\ cfree' = [cfree EXCEPT ![i] = FALSE]
          /\ key' = [key EXCEPT ![x] = <<i, cgen[i]>>]
          /\ gitem' = x
          /\ ev' = [a |-> "reserve", item |-> x, ok |-> TRUE, len |-> CLen + 1, cap |-> N]
          /\ IF MergedReserve
             THEN /\ gpc' = "drained"
                  /\ unusedRing' = <<>>
                  /\ where' = [y \in Items |-> IF y = x THEN "ghand"
                                 ELSE IF \E j \in 1..Len(unusedRing) : unusedRing[j] = y
                                 THEN "gdropped" ELSE where[y]]
             ELSE /\ gpc' = "reserved"
                  /\ where' = [where EXCEPT ![x] = "ghand"]
                  /\ UNCHANGED unusedRing
  /\ UNCHANGED <<cgen, slot, agen, order, newRing, mark, apc, ascan, ahand, alock, cb, panicked>>

GDrain ==
  /\ gpc = "reserved" /\ panicked = "" /\ ~alock
  /\ act' = <<"GDrain", 0>>
  /\ IF Replayable \/ unusedRing = <<>>
     THEN /\ DrainAll /\ gpc' = "drained"
     ELSE /\ unusedRing' = Tail(unusedRing)
          /\ where' = [where EXCEPT ![Head(unusedRing)] = "gdropped"]
          /\ UNCHANGED gpc
  /\ ev' = Tau
  /\ UNCHANGED <<cfree, cgen, flist, slot, agen, order, newRing, mark, key, gitem, apc, ascan, ahand, alock, cb, panicked>>

GPush ==
  /\ gpc = "drained" /\ panicked = "" /\ ~alock
  /\ act' = <<"GPush", 0>>
  /\ IF Len(newRing) >= N
     THEN /\ panicked' = "new resource producer full"
          /\ ev' = [a |-> "panic", who |-> "gameplay"]
          /\ UNCHANGED <<newRing, where, gpc, gitem>>
     ELSE /\ newRing' = Append(newRing, <<key[gitem], gitem>>)
          /\ where' = [where EXCEPT ![gitem] = "new"]
          /\ ev' = [a |-> "push", item |-> gitem, len |-> CLen]
          /\ gpc' = "idle" /\ gitem' = 0
          /\ UNCHANGED panicked
  /\ UNCHANGED <<cfree, cgen, flist, slot, agen, order, unusedRing, mark, key, apc, ascan, ahand, alock, cb>>

\* a handle is dropped / a sound finishes: any thread, any time after creation returned
GMark(x) ==
  /\ where[x] \in {"new", "arena"} /\ ~mark[x] /\ panicked = "" /\ ~alock
  /\ act' = <<"GMark", x>>
  /\ mark' = [mark EXCEPT ![x] = TRUE]
  /\ ev' = [a |-> "mark", item |-> x]
  /\ UNCHANGED <<cfree, cgen, flist, slot, agen, order, newRing, unusedRing, where, key,
                 gpc, gitem, apc, ascan, ahand, alock, cb, panicked>>

\* ---------------------------------------------------------------- audio
ABegin ==
  /\ apc = "idle" /\ cb < MaxCb /\ panicked = ""
  /\ apc' = "scan" /\ ascan' = order /\ alock' = Replayable
  /\ act' = <<"ABegin", 0>>
  /\ ev' = [a |-> "cb_begin"]
  /\ UNCHANGED <<cfree, cgen, flist, slot, agen, order, newRing, unusedRing, mark, where, key,
                 gpc, gitem, ahand, cb, panicked>>

\* drain_filter / remove_unused: look at the next occupied slot
AScan ==
  /\ apc = "scan" /\ panicked = ""
  /\ act' = <<"AScan", 0>>
  /\ IF ascan = <<>> \/ (SelfRef /\ Len(unusedRing) >= UnusedCap)     \* is_full() guard of remove_unused
     THEN /\ apc' = "refill" /\ ascan' = <<>> /\ ev' = Tau /\ alock' = FALSE
          /\ UNCHANGED <<cfree, cgen, flist, slot, agen, order, where, ahand>>
     ELSE LET i == Head(ascan)  x == slot[i] IN
          /\ ascan' = Tail(ascan)
          /\ IF mark[x]
             THEN /\ slot' = [slot EXCEPT ![i] = 0]               \* Arena::remove_from_slot
                  /\ agen' = [agen EXCEPT ![i] = @ + 1]
                  /\ cfree' = [cfree EXCEPT ![i] = TRUE]          \* Controller::free
                  /\ cgen' = [cgen EXCEPT ![i] = @ + 1]
                  /\ flist' = <<i>> \o flist
                  /\ order' = SelectSeq(order, LAMBDA j : j # i)
                  /\ where' = [where EXCEPT ![x] = "ahand"]
                  /\ ahand' = x /\ apc' = "hold" /\ alock' = FALSE
                  /\ ev' = [a |-> "free", len |-> CLen - 1]
             ELSE /\ ev' = Tau
                  /\ UNCHANGED <<cfree, cgen, flist, slot, agen, order, where, ahand, apc, alock>>
  /\ UNCHANGED <<newRing, unusedRing, mark, key, gpc, gitem, cb, panicked>>

\* after the sto.removed yield point: hand the removed resource back
APushUnused ==
  /\ apc = "hold" /\ panicked = ""
  /\ act' = <<"APushUnused", 0>>
  /\ IF Len(unusedRing) >= UnusedCap
     THEN /\ panicked' = "unused resource producer is full"
          /\ ev' = [a |-> "panic", who |-> "audio"]
          /\ UNCHANGED <<unusedRing, where, ahand, apc, alock>>
     ELSE /\ unusedRing' = Append(unusedRing, ahand)
          /\ where' = [where EXCEPT ![ahand] = "unused"]
          /\ ahand' = 0 /\ apc' = "scan" /\ ev' = Tau /\ alock' = Replayable
          /\ UNCHANGED panicked
  /\ UNCHANGED <<cfree, cgen, flist, slot, agen, order, newRing, mark, key, gpc, gitem, ascan, cb>>

\* after a sto.refill yield point: pop one new entry, or finish the callback
ARefill ==
  /\ apc = "refill" /\ panicked = ""
  /\ act' = <<"ARefill", 0>>
  /\ IF newRing = <<>>
     THEN /\ apc' = "idle" /\ cb' = cb + 1
          /\ ev' = [a |-> "cb_end", present |-> InArena, pk |-> TRUE, len |-> CLen, resolves |-> Resolves]
          /\ UNCHANGED <<slot, order, where, newRing, panicked>>
     ELSE LET k == Head(newRing)[1]  x == Head(newRing)[2] IN
          /\ newRing' = Tail(newRing)
          /\ IF agen[k[1]] # k[2] \/ slot[k[1]] # 0
             THEN /\ panicked' = "error inserting resource"
                  /\ ev' = [a |-> "panic", who |-> "audio"]
                  /\ UNCHANGED <<slot, order, where, apc, cb>>
             ELSE /\ slot' = [slot EXCEPT ![k[1]] = x]
                  /\ order' = IF SelfRef THEN Append(order, k[1]) ELSE <<k[1]>> \o order
                  /\ where' = [where EXCEPT ![x] = "arena"]
                  /\ ev' = Tau
                  /\ UNCHANGED <<apc, cb, panicked>>
  /\ UNCHANGED <<cfree, cgen, flist, agen, unusedRing, mark, key, gpc, gitem, ascan, ahand, alock>>

INext == \/ \E x \in Items : GReserve(x) \/ GMark(x)
         \/ GDrain \/ GPush \/ ABegin \/ AScan \/ APushUnused \/ ARefill

\* ---------------------------------------------------------------- composition with the P-monitor
Monitor ==
  LET r == Check(mon, ev') IN
  IF bad # "" THEN UNCHANGED <<mon, bad>>
  ELSE IF r # "" THEN bad' = r /\ UNCHANGED mon
  ELSE bad' = "" /\ mon' = Upd(mon, ev')

Next == INext /\ Monitor
Spec == Init /\ [][Next]_vars /\ WF_vars(ABegin /\ Monitor) /\ WF_vars(AScan /\ Monitor)
             /\ WF_vars(APushUnused /\ Monitor) /\ WF_vars(ARefill /\ Monitor)

\* ---------------------------------------------------------------- checked formulas
PropertyHolds == bad = ""                                   \* every P_C08 clause, on every behaviour
NoPanic       == panicked = ""
TypeOK == /\ Len(newRing) <= N /\ Len(unusedRing) <= UnusedCap
          /\ \A i \in Slots : slot[i] # 0 => ~cfree[i]
KeysUnique == \A x, y \in Items : (x # y /\ key[x] # NoKey) => key[x] # key[y]
KeyResolvesToOwner == \A x \in Resolves : slot[key[x][1]] = x
ControllerMirrorsArena ==                                    \* generations agree whenever the audio thread is between callbacks
  apc = "idle" => \A i \in Slots : cgen[i] = agen[i]
FreeListExact == {flist[j] : j \in 1..Len(flist)} = {i \in Slots : cfree[i]} /\ Len(flist) = Cardinality({i \in Slots : cfree[i]})
OnlyGameplayDestroys == \A x \in Items : where[x] # "adropped"

\* every marked resource that reached the arena is eventually removed, under fair callbacks
\* (checked without MaxCb acting as a cut: see MC config)
EventuallyRemoved == \A x \in Items : (mark[x] /\ where[x] = "arena") ~> (where[x] # "arena" \/ cb >= MaxCb \/ panicked # "")

\* vacuity witnesses (each must be REACHABLE, i.e. reported violated when checked as an invariant)
W_Reuse == ~(\E i \in Slots : agen[i] >= 2)
W_Full  == ~(Len(unusedRing) = UnusedCap)
W_Fail  == ~(\E x \in Items : where[x] = "failed")
=============================================================================
