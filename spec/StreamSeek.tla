----------------------------- MODULE StreamSeek -----------------------------
(* Who serves a seek on a streaming sound, and when may the sound call it a   *)
(* day?  The decoder thread owns the position (transport), the audio thread   *)
(* owns the playback state; between them the frame ring, the `reached_end`    *)
(* flag (decoder -> audio) and the seek command (handle -> decoder).          *)
(*                                                                            *)
(* One decoder step = one pass of DecodeScheduler::run; one audio step = one  *)
(* output frame of StreamingSound::process (rate 1).  `Variant` selects the   *)
(* code as it is ("code") or one of two designs that must fail:               *)
(*   "exit_at_end"  the thread ends when it has pushed the last frame (kira   *)
(*                  before the D27 repair): later seeks have no reader        *)
(*   "keep_flag"    the thread stays and resumes after a late seek but leaves *)
(*                  reached_end set: the sound stops as soon as the ring runs *)
(*                  dry although audio is still to come                       *)
(*   "idle_on_end_seek"  a seek to or beyond the end of the audio, read while  *)
(*                  the thread is still decoding, sends the thread idle without *)
(*                  publishing reached_end: the sound never finishes           *)
(*   "exit_on_stopping"  the idle thread ends as soon as the sound is fading    *)
(*                  out (Stopping): seeks written during the fade have no reader *)
(* Seek targets may include Len0 ("to or beyond the end"): the decoder pushes  *)
(* one silent frame (-1) for it and has reached the end.  Stop begins a fade   *)
(* (Stopping) that the audio thread ends after FadeFrames more output frames.  *)
EXTENDS Integers, Sequences, TLC
CONSTANTS Len0,      \* frames in the stream
          R,         \* ring capacity
          Xs,        \* seek targets
          MaxSeeks,
          FadeFrames, \* length of a stop fade in output frames (0 = stop() is never called)
          Variant
VARIABLES dpos,      \* decoder: transport position
          playing,   \* decoder: transport.playing (FALSE once the last frame has been pushed)
          ring,      \* frame indices waiting to be played
          reached,   \* shared.reached_end
          cmd,       \* the seek command slot (0 = empty, else target + 1)
          dpc,       \* decoder thread: "run", "clear" (between taking a late seek and clearing reached_end), "exited"
          sstate,    \* "Playing" / "Stopping" / "Stopped"
          fade,      \* output frames left of the stop fade
          nseek,
          resumed,   \* ghost: a late seek has been served completely and the end has not been reached again
          last,      \* ghost: last frame heard (-1 = none)
          bad
vars == <<dpos, playing, ring, reached, cmd, dpc, sstate, fade, nseek, resumed, last, bad>>
Alive == sstate \in {"Playing", "Stopping"}

Init == /\ dpos = 0 /\ playing = TRUE /\ ring = <<>> /\ reached = FALSE /\ cmd = 0 /\ dpc = "run"
        /\ sstate = "Playing" /\ fade = 0 /\ nseek = 0 /\ resumed = FALSE /\ last = -1 /\ bad = ""

\* the handle: seek_to(x) while the sound is alive (the command slot keeps the latest value only)
Seek(x) == /\ Alive /\ nseek < MaxSeeks
           /\ cmd' = x + 1 /\ nseek' = nseek + 1
           /\ UNCHANGED <<dpos, playing, ring, reached, dpc, sstate, fade, resumed, last, bad>>

\* the handle: stop(tween) - the sound fades out for FadeFrames output frames and is still advancing meanwhile
Stop == /\ sstate = "Playing" /\ FadeFrames > 0
        /\ sstate' = "Stopping" /\ fade' = FadeFrames
        /\ UNCHANGED <<dpos, playing, ring, reached, cmd, dpc, nseek, resumed, last, bad>>

\* position after read_commands()
Taken == IF cmd # 0 THEN cmd - 1 ELSE dpos

DExit == /\ dpc = "run" /\ sstate = "Stopped"
         /\ dpc' = "exited"
         /\ UNCHANGED <<dpos, playing, ring, reached, cmd, sstate, fade, nseek, resumed, last, bad>>

\* (variant) the idle thread gives up as soon as the sound is fading out
DExitStopping == /\ Variant = "exit_on_stopping" /\ dpc = "run" /\ sstate = "Stopping" /\ ~playing
                 /\ dpc' = "exited"
                 /\ UNCHANGED <<dpos, playing, ring, reached, cmd, sstate, fade, nseek, resumed, last, bad>>

\* all of the audio decoded: read the commands; a seek brings the position back (run_after_end)
DAfterEnd == /\ dpc = "run" /\ Alive /\ ~playing /\ cmd # 0
             /\ ~(Variant = "exit_on_stopping" /\ sstate = "Stopping")
             /\ dpos' = cmd - 1 /\ cmd' = 0
             /\ IF cmd - 1 >= Len0
                THEN playing' = FALSE /\ dpc' = "run" /\ resumed' = resumed          \* still outside the audio: keeps idling
                ELSE /\ playing' = TRUE
                     /\ IF Variant = "keep_flag" THEN dpc' = "run" /\ resumed' = TRUE ELSE dpc' = "clear" /\ resumed' = resumed
             /\ UNCHANGED <<ring, reached, sstate, fade, nseek, last, bad>>

DClear == /\ dpc = "clear"
          /\ reached' = FALSE /\ resumed' = TRUE /\ dpc' = "run"
          /\ UNCHANGED <<dpos, playing, ring, cmd, sstate, fade, nseek, last, bad>>

\* ring not full: read the commands, push the frame at the position, notice the end
DPush == /\ dpc = "run" /\ Alive /\ playing /\ Len(ring) < R
         /\ LET p == Taken
                out == p >= Len0                  \* sought to or beyond the end: one silent frame, then the end
                end == p + 1 >= Len0 IN
            IF out /\ Variant = "idle_on_end_seek"
            THEN /\ dpos' = p /\ cmd' = 0 /\ playing' = FALSE
                 /\ UNCHANGED <<ring, reached, resumed, dpc>>
            ELSE /\ ring' = Append(ring, IF out THEN -1 ELSE p) /\ dpos' = (IF out THEN p ELSE p + 1) /\ cmd' = 0
                 /\ playing' = ~end
                 /\ reached' = (IF end THEN TRUE ELSE reached)
                 /\ resumed' = (IF end THEN FALSE ELSE resumed)
                 /\ dpc' = (IF end /\ Variant = "exit_at_end" THEN "exited" ELSE "run")
         /\ UNCHANGED <<sstate, fade, nseek, last, bad>>

\* one output frame: starved (nothing to play, more to come) / pop / notice the end
AFrame == /\ Alive
          /\ ~(ring = <<>> /\ ~reached /\ sstate = "Playing")
          /\ LET starved == ring = <<>> /\ ~reached                 \* (only while fading: the fade goes on in silence)
                 f == IF ring = <<>> \/ Head(ring) = -1 THEN last ELSE Head(ring)
                 rest == IF ring = <<>> THEN ring ELSE Tail(ring)
                 fadeOut == sstate = "Stopping" /\ fade = 1
                 stop == (~starved /\ reached /\ rest = <<>>) \/ fadeOut IN
             /\ ring' = rest /\ last' = f
             /\ fade' = (IF sstate = "Stopping" THEN fade - 1 ELSE fade)
             /\ sstate' = (IF stop THEN "Stopped" ELSE sstate)
             /\ bad' = (IF bad # "" THEN bad
                        ELSE IF ring # <<>> /\ Head(ring) # -1 /\ last # -1 /\ f # last + 1 /\ f \notin Xs THEN "frames_in_order_but_for_seeks"
                        ELSE IF stop /\ ~fadeOut /\ resumed THEN "stopped_while_audio_still_to_come"
                        ELSE "")
          /\ UNCHANGED <<dpos, playing, reached, cmd, dpc, nseek, resumed>>

Next == (\E x \in Xs : Seek(x)) \/ Stop \/ DExit \/ DExitStopping \/ DAfterEnd \/ DClear \/ DPush \/ AFrame
Spec == Init /\ [][Next]_vars
FairSpec == Spec /\ WF_vars(DExit \/ DExitStopping \/ DAfterEnd \/ DClear \/ DPush) /\ WF_vars(AFrame)

TypeOK == /\ dpos \in 0..Len0 /\ fade \in 0..FadeFrames /\ playing \in BOOLEAN /\ Len(ring) <= R /\ reached \in BOOLEAN /\ cmd \in 0..Len0 + 1
          /\ dpc \in {"run", "clear", "exited"} /\ sstate \in {"Playing", "Stopping", "Stopped"} /\ nseek \in 0..MaxSeeks
PropertyHolds == bad = ""
\* while the sound is alive somebody reads its seek commands
SeeksHaveAReader == ~(dpc = "exited" /\ Alive)
\* a seek written while the sound is alive is taken by the decoder, unless the sound ends first
SeekServed == (cmd # 0) ~> (cmd = 0 \/ sstate = "Stopped")
\* every finite sound comes to an end (seeks are finitely many), wherever it is sought to
SoundEnds == <>(sstate = "Stopped")
\* ... and the thread goes once the sound has stopped
ThreadEnds == (sstate = "Stopped") ~> (dpc = "exited")
\* witnesses (must be violated): a late seek is served, and the sound plays through to the end afterwards
W_LateSeekServed == ~(resumed /\ nseek > 0)
W_StopsAfterLateSeek == ~(sstate = "Stopped" /\ nseek > 0 /\ last = Len0 - 1 /\ cmd = 0)
=============================================================================
