------------------------------ MODULE Playback ------------------------------
(* Implementation-level model of a sound's playback state machine           *)
(*   crates/kira/src/playback_state_manager.rs                              *)
(*   crates/kira/src/parameter.rs (the volume_fade Parameter<Decibels>)     *)
(*   crates/kira/src/start_time.rs                                          *)
(*   the state-related halves of sound/static_sound/sound.rs and            *)
(*   sound/streaming/sound.rs (read_commands order, early-outs of process,  *)
(*   natural end), and the track's removal of finished sounds.              *)
(* Time is counted in chunks; one callback = one chunk.  The fade value is  *)
(* abstracted to three classes (0 = -60 dB, 1 = between, 2 = 0 dB).         *)
(* Every action emits an event; the P_C03 monitor runs in lock step.        *)
EXTENDS Integers, Sequences, FiniteSets, TLC, P_C03

CONSTANTS Durs,        \* fade durations (chunks) a command may carry
          Waits,       \* start-time delays (chunks) for resume_at
          MaxCmd,      \* bound on the number of commands
          MaxCb,       \* bound on the number of callbacks
          Finite,      \* TRUE: finite, non-looping sound of Len chunks
          LenC,        \* its length in chunks
          NF           \* frames per chunk (only scales the event's numbers)

VARIABLES state,       \* the 7-valued State of PlaybackStateManager
          wait,        \* WaitingToResume: [kind, left, d] (delayed: chunks left; clock: chunks until reached; noclock)
          fv, fprev,   \* fade class now / at the start of the chunk
          tw,          \* running fade tween: [on, target, time, dur, start] (on = FALSE: Idle, stagnant)
          pend,        \* written commands, one slot per kind: pause, resume, stop (last write wins)
          left,        \* chunks of audio left (finite sounds), drain counter
          loaded,      \* the sound is still in the track's arena
          pos,         \* position in chunks consumed (reported with one callback lag, as the code does)
          shpos, shstate,
          ncmd, cb,
          act, ev, mon, bad

ivars == <<state, wait, fv, fprev, tw, pend, left, loaded, pos, shpos, shstate, ncmd, cb>>
vars  == <<ivars, act, ev, mon, bad>>

NoCmd  == [c |-> "none"]
NoTw   == [on |-> FALSE, target |-> 2, time |-> 0, dur |-> 0, start |-> 2]
NoWait == [kind |-> "none", left |-> 0, d |-> 0]

Init ==
  /\ state = "Playing" /\ wait = NoWait /\ fv = 2 /\ fprev = 2 /\ tw = NoTw
  /\ pend = [k \in {"pause", "resume", "stop"} |-> NoCmd]
  /\ left = LenC + 1 /\ loaded = TRUE /\ pos = 0 /\ shpos = 0 /\ shstate = "Playing"
  /\ ncmd = 0 /\ cb = 0
  /\ act = <<"Init">> /\ ev = [a |-> "tau"] /\ mon = PInit(Finite, LenC * NF) /\ bad = ""

\* ---------------------------------------------------------------- gameplay: write a command
Cmd(c, d, wk, wt) ==
  /\ ncmd < MaxCmd
  /\ ncmd' = ncmd + 1
  /\ LET slot == IF c = "resume_at" THEN "resume" ELSE c IN
     pend' = [pend EXCEPT ![slot] = [c |-> c, d |-> d, wk |-> wk, wt |-> wt]]
  /\ act' = <<"Cmd", c, d, wk, wt>>
  /\ ev' = [a |-> "cmd", c |-> c, d |-> d, wk |-> wk, wt |-> wt]
  /\ UNCHANGED <<state, wait, fv, fprev, tw, left, loaded, pos, shpos, shstate, cb>>

\* ---------------------------------------------------------------- audio: one callback
\* PlaybackStateManager::{pause, resume, stop}
SetFade(target, d, s) == [on |-> TRUE, target |-> target, time |-> 0, dur |-> d, start |-> s]

DoPause(x, c)  == IF c.c = "none" \/ x.state = "Stopped" THEN x
                  ELSE [x EXCEPT !.state = "Pausing", !.tw = SetFade(0, c.d, x.fv)]
DoResume(x, c) == IF c.c = "none" \/ x.state = "Stopped" THEN x
                  ELSE IF c.c = "resume" THEN [x EXCEPT !.state = "Resuming", !.tw = SetFade(2, c.d, x.fv)]
                  ELSE [x EXCEPT !.state = "WaitingToResume",
                                 !.wait = [kind |-> c.wk, left |-> c.wt, d |-> c.d]]
DoStop(x, c)   == IF c.c = "none" \/ x.state = "Stopped" THEN x
                  ELSE [x EXCEPT !.state = "Stopping", !.tw = SetFade(0, c.d, x.fv)]

\* Parameter::update for the fade: returns the record with fv, fprev, tw and `fin` (just finished)
FadeUpdate(x) ==
  IF ~x.tw.on THEN [x EXCEPT !.fprev = x.fv, !.fin = FALSE, !.dir = "flat"]
  ELSE LET t == x.tw.time + 1
           \* the value moves strictly towards the target unless it is already there
           dir == IF x.tw.start = x.tw.target THEN "flat" ELSE IF x.tw.target = 2 THEN "up" ELSE "down" IN
       IF t >= x.tw.dur
       THEN [x EXCEPT !.fprev = x.fv, !.fv = x.tw.target, !.tw = NoTw, !.fin = TRUE, !.dir = dir]
       ELSE [x EXCEPT !.fprev = x.fv, !.tw.time = t, !.fin = FALSE, !.dir = dir,
                      !.fv = IF x.tw.start = x.tw.target THEN x.tw.start ELSE 1]

\* PlaybackStateManager::update after the fade update
StateStep(x) ==
  CASE x.state = "Pausing"  /\ x.fin -> [x EXCEPT !.state = "Paused"]
    [] x.state = "Resuming" /\ x.fin -> [x EXCEPT !.state = "Playing"]
    [] x.state = "Stopping" /\ x.fin -> [x EXCEPT !.state = "Stopped"]
    [] x.state = "WaitingToResume" ->
         IF x.wait.kind = "noclock" THEN [x EXCEPT !.state = "Stopped"]
         ELSE LET l == IF x.wait.left > 0 THEN x.wait.left - 1 ELSE 0 IN
              IF l = 0 THEN [x EXCEPT !.state = "Resuming", !.tw = SetFade(2, x.wait.d, x.fv), !.wait = NoWait]
              ELSE [x EXCEPT !.wait.left = l]
    [] OTHER -> x

Advancing(s) == s \in {"Playing", "Pausing", "Resuming", "Stopping"}

Callback ==
  /\ cb < MaxCb
  /\ cb' = cb + 1
  /\ act' = <<"Callback">>
  /\ pend' = [k \in {"pause", "resume", "stop"} |-> NoCmd]
  /\ IF ~loaded
     THEN /\ ev' = [a |-> "cb", state |-> shstate, zero |-> TRUE, mono |-> "flat", g0 |-> 0, g1 |-> 0,
                    pos |-> shpos * NF, nsounds |-> 0, n |-> NF, panicked |-> FALSE]
          /\ UNCHANGED <<state, wait, fv, fprev, tw, left, loaded, pos, shpos, shstate>>
     ELSE IF state = "Stopped"
     THEN \* the track removes a finished sound before it is asked to process
          /\ loaded' = FALSE
          /\ ev' = [a |-> "cb", state |-> shstate, zero |-> TRUE, mono |-> "flat", g0 |-> 0, g1 |-> 0,
                    pos |-> shpos * NF, nsounds |-> 0, n |-> NF, panicked |-> FALSE]
          /\ UNCHANGED <<state, wait, fv, fprev, tw, left, pos, shpos, shstate>>
     ELSE LET x0 == [state |-> state, wait |-> wait, fv |-> fv, fprev |-> fprev, tw |-> tw, fin |-> FALSE, dir |-> "flat"]
              x1 == DoStop(DoResume(DoPause(x0, pend["pause"]), pend["resume"]), pend["stop"])   \* read_commands order
              x2 == StateStep(FadeUpdate(x1))
              adv == Advancing(x2.state)
              ended == adv /\ Finite /\ left = 1              \* the last chunk of audio and the drain are over
              st2 == IF ended THEN "Stopped" ELSE x2.state
              silent == ~adv \/ (x2.fv = 0 /\ x2.fprev = 0) \/ ended   \* the drain after the last frame is silent
          IN
          /\ state' = st2 /\ wait' = x2.wait /\ fv' = x2.fv /\ fprev' = x2.fprev /\ tw' = x2.tw
          /\ left' = IF adv /\ Finite /\ left > 0 THEN left - 1 ELSE left
          /\ pos' = IF adv THEN pos + 1 ELSE pos
          /\ shpos' = pos                                     \* published at on_start_processing: one callback behind
          /\ shstate' = st2
          /\ UNCHANGED loaded
          /\ ev' = [a |-> "cb", state |-> st2, zero |-> silent,
                    mono |-> IF silent THEN "flat" ELSE x2.dir,
                    g0 |-> IF silent THEN 0 ELSE IF x2.dir = "flat" THEN x2.fv ELSE 1,
                    g1 |-> IF silent THEN 0 ELSE x2.fv,
                    pos |-> pos * NF, nsounds |-> 1, n |-> NF, panicked |-> FALSE]
  /\ UNCHANGED ncmd

INext == \/ \E c \in {"pause", "resume", "stop"}, d \in Durs : Cmd(c, d, "none", 0)
         \/ \E d \in Durs, wk \in {"delayed", "clock", "noclock"}, wt \in Waits : Cmd("resume_at", d, wk, wt)
         \/ Callback

Monitor ==
  LET r == Check(mon, ev') IN
  IF bad # "" THEN UNCHANGED <<mon, bad>>
  ELSE IF r # "" THEN bad' = r /\ UNCHANGED mon
  ELSE bad' = "" /\ mon' = Upd(mon, ev')

Next == INext /\ Monitor
Spec == Init /\ [][Next]_vars

PropertyHolds == bad = ""
StoppedAbsorbing == [][state = "Stopped" => state' = "Stopped"]_vars
SilentWhenFrozen == (ev.a = "cb" /\ ev.state \in Frozen /\ state \in Frozen) => TRUE
FadeClassOK == fv \in 0..2 /\ fprev \in 0..2
\* witnesses
W_Stopped == state # "Stopped"
W_Waiting == state # "WaitingToResume"
W_Unloaded == loaded
=============================================================================
