------------------------------- MODULE Mixer -------------------------------
(* Implementation-level model of the mixer's signal flow and buffer handling *)
(*   crates/kira/src/backend/renderer.rs (process: chunks of at most the     *)
(*   internal buffer size; process_chunk), backend/resources/mixer.rs        *)
(*   (process: sub-tracks into temp buffer, sum, clear; send tracks; main),  *)
(*   track/sub.rs (process: early return when not advancing, children and    *)
(*   sounds through the track's own temp buffer, effects, volume, post-fader *)
(*   sends), track/send.rs (add_input, process), track/main.rs.              *)
(* Buffers are integer vectors (samples scaled by 2^17); sounds are probes   *)
(* whose j-th frame is Base(s) * (1 + j mod 4); an effect halves.            *)
EXTENDS Integers, Sequences, FiniteSets, TLC, P_C02

CONSTANTS Scenes,     \* set of scene records to explore
          Bs,         \* internal buffer sizes
          Ns,         \* callback sizes
          MaxOps, MaxCb

VARIABLES sc, b,
          inA,        \* sounds in their track's arena
          alive,      \* sub-tracks in the arena
          state,      \* [Subs -> "Playing" | "Paused"]
          fin, mark,  \* finished sounds / dropped track handles
          pendP,      \* [Subs -> "none" | "pause" | "resume"]
          cnt,        \* frames each probe has produced
          tmp,        \* [tracks -> temp buffer]  (must be all zero between uses)
          sendIn,     \* [{"S", "S2"} -> input buffer of that send track (length b)]
          sends,      \* send tracks in the arena
          nops, cb, act, ev, mon, bad

ivars == <<sc, b, inA, alive, state, fin, mark, pendP, cnt, tmp, sendIn, sends, nops, cb>>
vars == <<ivars, act, ev, mon, bad>>

\* (TLCEval: force the lazily evaluated functions into sequences)
Zero(n) == TLCEval([i \in 1..n |-> 0])
AddV(x, y) == TLCEval([i \in 1..Len(x) |-> x[i] + (IF i <= Len(y) THEN y[i] ELSE 0)])
HalfV(x, yes) == IF yes THEN TLCEval([i \in 1..Len(x) |-> x[i] \div 2]) ELSE x
MulV(x, g) == TLCEval([i \in 1..Len(x) |-> x[i] * g])

Init ==
  /\ sc \in Scenes /\ b \in Bs
  /\ inA = sc.snd /\ alive = sc.trk
  /\ state = TLCEval([t \in Subs |-> "Playing"]) /\ fin = {} /\ mark = {} /\ pendP = TLCEval([t \in Subs |-> "none"])
  /\ cnt = TLCEval([s \in Snds |-> 0])
  /\ tmp = TLCEval([t \in {"mixer", "main", "A", "B"} |-> Zero(b)]) /\ sendIn = TLCEval([k \in {"S", "S2"} |-> Zero(b)])
  /\ sends = (IF sc.send THEN {"S"} ELSE {}) \cup (IF sc.send2 THEN {"S2"} ELSE {})
  /\ nops = 0 /\ cb = 0 /\ act = <<"Init">> /\ ev = [a |-> "tau"]
  /\ mon = PInit(sc) /\ bad = ""

\* ---------------------------------------------------------------- gameplay
Op(o, x) ==
  /\ nops < MaxOps /\ nops' = nops + 1 /\ cb > 0                 \* (after the first callback: everything is picked up)
  \* (pause and resume are different command kinds: their order within one window is unspecified - one per window)
  /\ CASE o \in {"pause", "resume"} -> /\ x \in alive /\ x \notin mark /\ "AB" \notin mark /\ pendP[x] = "none"
                                       /\ pendP' = [pendP EXCEPT ![x] = o] /\ UNCHANGED <<fin, mark>>
       \* (in a scene whose track B persists until its sounds have finished, s2 never finishes: when exactly a
       \*  persisting track goes once its last sound has is C12's subject)
       [] o = "finish" -> x \in inA \ fin /\ ~(sc.persistB /\ x = "s2") /\ fin' = fin \cup {x} /\ UNCHANGED <<pendP, mark>>
       [] o = "drop" -> /\ x \notin mark /\ (x = "B" => "B" \in alive) /\ (x = "AB" => "A" \in alive)
                        /\ (x \in {"S", "S2"} => x \in sends)
                        /\ mark' = mark \cup {x} /\ UNCHANGED <<pendP, fin>>
  /\ act' = <<"Op", o, x>> /\ ev' = [a |-> "op", o |-> o, x |-> x]
  /\ UNCHANGED <<sc, b, inA, alive, state, cnt, tmp, sendIn, sends, cb>>

\* ---------------------------------------------------------------- audio
ParentT(t) == IF t = "B" /\ sc.shape = "chain" THEN "A" ELSE "main"
Own(t) == IF t = "A" THEN "s1" ELSE "s2"

\* one chunk.  x = [inA, alive, state, cnt, tmp, sendIn, asks]; returns the record after the chunk plus the output
\* Track::process for sub-track t, writing into a zeroed buffer of length len; returns <<x', out>>
RECURSIVE TrackProc(_, _, _)
TrackProc(x, t, len) ==
  IF x.state[t] # "Playing" THEN <<x, Zero(len)>>                       \* out.fill(ZERO); return
  ELSE LET \* sub tracks through this track's temp buffer
           kid == IF t = "A" /\ sc.shape = "chain" /\ "B" \in x.alive THEN TrackProc(x, "B", len) ELSE <<x, Zero(len)>>
           x1 == kid[1]
           o1 == kid[2]                                                  \* out += temp; temp.fill(ZERO)
           s == Own(t)
           has == s \in x1.inA
           sv == IF has THEN TLCEval([i \in 1..len |-> Val(s, x1.cnt[s] + i - 1)]) ELSE Zero(len)
           x2 == IF has THEN [x1 EXCEPT !.cnt[s] = @ + len, !.asks[s] = Append(@, len)] ELSE x1
           o2 == AddV(o1, sv)
           o3 == MulV(HalfV(o2, sc.fx[t]), sc.vol[t])                    \* effects, then volume x fade (1)
           \* post-fader sends (the route table is a hash map: no particular order); a route whose send track is gone is skipped
           x3 == IF sc.send /\ sc.rv[t] = 1 /\ "S" \in x2.sends THEN [x2 EXCEPT !.sendIn["S"] = AddV(@, o3)] ELSE x2
           x4 == IF sc.send2 /\ sc.rv2[t] = 1 /\ "S2" \in x3.sends THEN [x3 EXCEPT !.sendIn["S2"] = AddV(@, o3)] ELSE x3
       IN <<x4, o3>>

Chunk(x, len) ==
  LET top == IF sc.shape = "chain" THEN <<"A">> ELSE <<"A", "B">>
      \* Mixer::process: every top-level sub-track
      pa == IF "A" \in x.alive THEN TrackProc(x, "A", len) ELSE <<x, Zero(len)>>
      pb == IF sc.shape = "fork" /\ "B" \in pa[1].alive THEN TrackProc(pa[1], "B", len) ELSE <<pa[1], Zero(len)>>
      x1 == pb[1]
      subs == AddV(pa[2], pb[2])
      \* send track: out += input[..len]; input.fill(ZERO); effects; volume
      sendOut1 == IF "S" \in x1.sends THEN MulV(HalfV(TLCEval([i \in 1..len |-> x1.sendIn["S"][i]]), sc.fx["S"]), sc.vol["S"]) ELSE Zero(len)
      sendOut2 == IF "S2" \in x1.sends THEN TLCEval([i \in 1..len |-> x1.sendIn["S2"][i]]) ELSE Zero(len)      \* (S2: no effect, 0 dB)
      sendOut == AddV(sendOut1, sendOut2)
      x2 == [x1 EXCEPT !.sendIn = TLCEval([k \in {"S", "S2"} |-> Zero(b)])]
      \* main track: its own sounds, effects, volume
      has0 == "s0" \in x2.inA
      sv == IF has0 THEN TLCEval([i \in 1..len |-> Val("s0", x2.cnt["s0"] + i - 1)]) ELSE Zero(len)
      x3 == IF has0 THEN [x2 EXCEPT !.cnt["s0"] = @ + len, !.asks["s0"] = Append(@, len)] ELSE x2
      out == MulV(HalfV(AddV(AddV(subs, sendOut), sv), sc.fx["main"]), sc.vol["main"])
  IN <<x3, out>>

RECURSIVE Chunks2(_, _, _)
Chunks2(x, n, acc) ==
  IF n = 0 THEN <<x, acc>>
  ELSE LET len == IF n <= b THEN n ELSE b
           r == Chunk(x, len) IN
       Chunks2(r[1], n - len, acc \o r[2])

Callback(n) ==
  /\ cb < MaxCb /\ cb' = cb + 1 /\ act' = <<"Callback", n>>
  /\ LET \* ---- on_start_processing: removals first, then commands
         \* Track::should_be_removed: handle dropped, (persisting: no sounds left,) and every sub-track removable
         markedB == "B" \in mark \/ "AB" \in mark
         goneB == "B" \notin alive \/ (markedB /\ ~(sc.persistB /\ "s2" \in inA))
         goneA == "AB" \in mark /\ (sc.shape = "chain" => goneB)
         alive1 == (alive \ (IF goneA THEN {"A"} ELSE {})) \ (IF goneB THEN {"B"} ELSE {})
         inA1 == {s \in inA \ fin : Host(s) = "main" \/ Host(s) \in alive1}
         state1 == TLCEval([t \in Subs |-> IF pendP[t] = "pause" THEN "Paused" ELSE IF pendP[t] = "resume" THEN "Playing" ELSE state[t]])
         sends1 == sends \ mark
         x0 == [inA |-> inA1, alive |-> alive1, state |-> state1, cnt |-> cnt, sendIn |-> sendIn, sends |-> sends1,
                asks |-> TLCEval([s \in Snds |-> <<>>])]
         r == Chunks2(x0, n, <<>>)
         x == r[1]
     IN /\ inA' = x.inA /\ alive' = x.alive /\ state' = x.state /\ cnt' = x.cnt /\ sendIn' = x.sendIn /\ sends' = x.sends
        /\ ev' = [a |-> "cb", n |-> n, b |-> b, out |-> r[2], asks |-> x.asks, n0 |-> cnt, panicked |-> FALSE]
  /\ pendP' = TLCEval([t \in Subs |-> "none"])
  /\ UNCHANGED <<sc, b, fin, mark, tmp, nops>>

\* (resuming ramps the fade across one chunk - inexact gains; resume continuity is C12's subject)
\* (... so the only resume generated is the redundant one: to a track that is playing - it changes nothing, now or later)
INext == \/ \E o \in {"pause"}, x \in Subs : Op(o, x)
         \/ \E x \in Subs : state[x] = "Playing" /\ Op("resume", x)
         \/ \E s \in Snds : Op("finish", s)
         \/ \E x \in {"B", "AB", "S", "S2"} : Op("drop", x)
         \/ \E n \in Ns : Callback(n)

Monitor ==
  LET r == Check(mon, ev') IN
  IF bad # "" THEN UNCHANGED <<mon, bad>>
  ELSE IF r # "" THEN bad' = r /\ UNCHANGED mon
  ELSE bad' = "" /\ mon' = Upd(mon, ev')

Next == INext /\ Monitor
Spec == Init /\ [][Next]_vars

PropertyHolds == bad = ""
SendInputCleared == \A k \in {"S", "S2"} : sendIn[k] = Zero(b)                 \* nothing carries over between chunks or callbacks
W_Nonzero == ~(ev.a = "cb" /\ \E f \in 1..Len(ev.out) : ev.out[f] # 0)
W_SendAudible == ~(ev.a = "cb" /\ sc.send /\ sc.rv["A"] = 1 /\ sc.vol["A"] = 1 /\ sc.vol["S"] = 1 /\ ev.out # Zero(Len(ev.out)))
W_SecondSendAlone == ~(ev.a = "cb" /\ sc.send2 /\ "S" \notin sends /\ "S2" \in sends /\ sc.rv["A"] = 1 /\ sc.rv2["A"] = 1 /\ sc.vol["A"] = 1
                       /\ "A" \in alive /\ state["A"] = "Playing" /\ ev.out # Zero(Len(ev.out)))
W_Remainder == ~(ev.a = "cb" /\ ev.n > b /\ ev.n % b # 0)
=============================================================================
