------------------------------ MODULE P_C09 ------------------------------
(* Property-level specification of C09 (a streaming sound behaves exactly   *)
(* like a static sound of the same audio), from the statement: the two      *)
(* implementations run side by side on the same audio, settings and command *)
(* history (no seeks; decoder kept ahead of playback).                       *)
(*   cb  outA outB stA stB posA posB   one callback of both renderers:      *)
(*       outX  output samples as f32 bit patterns, stX handle states,       *)
(*       posX  reported positions in 1/256 frame                            *)
(*   cmd ...                            (informative)                       *)
EXTENDS Integers, Sequences

\* n = frames of audio in the slice, looping = a loop region is set
PInit(n, looping) == [ended |-> FALSE, k |-> 0, n |-> n, looping |-> looping]
\* the last frames of a finite sound are inside the interpolator's window: the sound is ending
NearEnd(m, p) == ~m.looping /\ p >= (m.n - 2) * 256

Abs(x) == IF x < 0 THEN -x ELSE x

Check(m, e) ==
  CASE e.a = "cb" ->
         IF e.panicked THEN "no_panic"
         ELSE IF e.outA # e.outB THEN "same_output_frames"
         ELSE IF e.stA # e.stB THEN "same_playback_states"
         ELSE IF ~m.ended /\ e.stA # "Stopped" /\ ~NearEnd(m, e.posA) /\ ~NearEnd(m, e.posB)
                 /\ Abs(e.posA - e.posB) > 256 THEN "positions_within_one_frame"
         ELSE ""
    [] e.a = "panic" -> "no_panic"
    [] e.a = "hang" -> "returns_promptly"
    [] OTHER -> ""

Upd(m, e) == IF e.a = "cb" THEN [m EXCEPT !.k = @ + 1, !.ended = @ \/ e.stA = "Stopped" \/ e.stB = "Stopped"] ELSE m
=============================================================================
