---- MODULE MC_Commands ----
EXTENDS Commands
View == <<ivars, mon, bad>>
====
