--------------------------- MODULE Gen_SpeedTween ---------------------------
(* Scenarios for the speed tweens of non-zero length (C05): unit and value   *)
(* of the speed before, unit and value of the target, duration in buffers.   *)
EXTENDS Integers, Sequences, TLC, Json
Units == {"tps", "spt", "tpm"}
Vals == {<<1, 1>>, <<2, 1>>, <<4, 1>>, <<1, 2>>, <<1, 4>>, <<3, 2>>}
Durs == {1, 2, 4, 7}
VARIABLE sc
Init == sc \in [u0 : Units, v0 : Vals, u1 : Units, v1 : Vals, d : Durs]
Next == UNCHANGED sc
Spec == Init /\ [][Next]_sc
\* (a value in ticks per minute is sixty times the same number in ticks per second)
M(u) == IF u = "tpm" THEN 60 ELSE 1
Dump == PrintT(<<"BEHAVIOUR", ToJson(<<[u0 |-> sc.u0, v0n |-> M(sc.u0) * sc.v0[1], v0d |-> sc.v0[2], u1 |-> sc.u1, v1n |-> M(sc.u1) * sc.v1[1], v1d |-> sc.v1[2], d |-> sc.d]>>)>>)
=============================================================================
