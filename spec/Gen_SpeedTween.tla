--------------------------- MODULE Gen_SpeedTween ---------------------------
(* Scenarios for the speed tweens of non-zero length (C05): unit and value   *)
(* of the speed before, unit and value of the target, duration in buffers.   *)
EXTENDS Integers, Sequences, TLC, Json
Units == {"tps", "spt"}
Vals == {<<1, 1>>, <<2, 1>>, <<4, 1>>, <<1, 2>>, <<1, 4>>, <<3, 2>>}
Durs == {1, 2, 4, 7}
VARIABLE sc
Init == sc \in [u0 : Units, v0 : Vals, u1 : Units, v1 : Vals, d : Durs]
Next == UNCHANGED sc
Spec == Init /\ [][Next]_sc
Dump == PrintT(<<"BEHAVIOUR", ToJson(<<[u0 |-> sc.u0, v0n |-> sc.v0[1], v0d |-> sc.v0[2], u1 |-> sc.u1, v1n |-> sc.v1[1], v1d |-> sc.v1[2], d |-> sc.d]>>)>>)
=============================================================================
