---- MODULE MC_Decoder ----
EXTENDS Decoder
View == <<ivars, mon, bad>>
====
