---------------------------- MODULE Gen_TimeArith ----------------------------
(* Scenario generator for C19 (spec -> implementation): one line per session *)
(* of MC_TimeArith's grid, i.e. every case TLC model-checked, with the       *)
(* reference result of each case (`exp`, documentation: the comparison is    *)
(* done again by TLC in T_C19 on what the real library returned).            *)
EXTENDS MC_TimeArith, Json
Scen(s) == s @@ [exp |-> [j \in 1..NCases(s) |-> Expected(s, j)]]
GInit == Init
GNext == FALSE /\ UNCHANGED vars
GSpec == GInit /\ [][GNext]_vars
Emit == PrintT(<<"BEHAVIOUR", ToJson(Scen(ses))>>)
=============================================================================
