----------------------------- MODULE Gen_Tween -----------------------------
(* Behaviour generator for Tween (spec -> implementation replay): a history *)
(* variable turns states into paths; each printed line is one behaviour:    *)
(* an `init` record with the initial value, then the emitted events (the    *)
(* arguments of every set/update and the observations the model expects the *)
(* real Parameter to show).                                                 *)
EXTENDS Tween, Json
CONSTANTS D,          \* number of actions in a generated behaviour
          SetFirst    \* TRUE: every behaviour begins with a Set (bounded-exhaustive configs)
VARIABLE hist
GInit == Init /\ hist = <<[a |-> "init", v0 |-> raw]>>
GNext == /\ Next
         /\ (SetFirst /\ Len(hist) = 1) => ev'.a = "set"
         /\ hist' = Append(hist, ev')
\* random walk with one successor per step (simulation mode): TLC's seeded RandomElement picks the
\* action and its arguments; about one action in four is a Set; clock targets are relative to the clock
RArgs == {[tgt |-> g * S, dur |-> d, ease |-> IF d = 0 THEN <<"lin", 1>> ELSE e, sk |-> k,
           delay |-> IF k = "del" THEN dl ELSE 0, ctgt |-> IF k = "clk" THEN cpos + ct ELSE 0] :
           g \in {RandomElement(Grid)}, d \in {RandomElement(Durs)}, e \in {RandomElement(Eases)},
           k \in {RandomElement({"imm", "del", "clk"})}, dl \in {RandomElement(Delays \cup {0})},
           ct \in {RandomElement(0..3)}}
RUpd == LET ok == {x \in (cpos..Min(cpos + 2, MaxC)) \X TickChoices : ClockEnvOK(x[1], x[2])} IN
        \E dt \in {RandomElement(Dts)}, x \in {RandomElement(ok)}, coin \in {RandomElement(1..4)} :
           \* a paused clock is the rarer case
           Update(dt, x[1], IF coin > 1 /\ ClockEnvOK(x[1], TRUE) THEN TRUE ELSE x[2])
RNext == /\ \E r \in {RandomElement(1..4)}, a0 \in RArgs :
              IF r = 1 /\ ExactOK(raw, a0.tgt, a0.dur, a0.ease) THEN Set(a0) ELSE RUpd
         /\ Monitor
         /\ hist' = Append(hist, ev')
RSpec == GInit /\ [][RNext]_<<vars, hist>>
GSpec == GInit /\ [][GNext]_<<vars, hist>>
Bound == Len(hist) <= D + 1
Emit == PrintT(<<"BEHAVIOUR", ToJson(hist)>>)
Dump == (Len(hist) = D + 1) => Emit
\* directed witness: states are deduplicated without the history, so BFS finds one shortest path; the
\* first behaviour that the property-level monitor rejects is printed and TLC stops
GView == <<ivars, mon, bad>>
WG_Frozen == PropertyHolds \/ ~Emit
\* constant values that a .cfg file cannot spell (negative numbers, tuples)
Grid3 == {-1, 0, 2}
Grid5 == {-2, -1, 0, 1, 2}
Grid2 == {-1, 1}
EaseLin == {<<"lin", 1>>}
Ease2 == {<<"lin", 1>>, <<"in", 2>>}
Ease4 == {<<"lin", 1>>, <<"in", 2>>, <<"out", 2>>, <<"inout", 2>>}
Ease7 == Ease4 \cup {<<"in", 3>>, <<"out", 3>>, <<"inout", 3>>}
=============================================================================
