------------------------------- MODULE T_C17 -------------------------------
(* Trace validation for C17: every session recorded from the real library   *)
(* (harness driver `c17`: one audio manager + renderer per session) is run   *)
(* through the property-level monitor of P_C17.  A session the monitor       *)
(* rejects is reported with the name of the violated clause; validation      *)
(* continues with the next session.                                          *)
(*   {"a":"reset","buf":..,"S":..,"tol":..}   starts a session               *)
(*   add | drop | set | relink | link | cb | chunk | panic | end             *)
EXTENDS Integers, Sequences, FiniteSets, TLC, Json, IOUtils
ModsDef == 1..12
ParamsDef == 1..12
INSTANCE P_C17 WITH Mods <- ModsDef, Params <- ParamsDef

Rec == ndJsonDeserialize(IOEnv.TRACE)

VARIABLES l, mon, mode, bad, nbad
tvars == <<l, mon, mode, bad, nbad>>
MaxBad == 300   \* rejected sessions listed individually (all are counted)

TInit == l = 1 /\ mon = PInit(1, 4096, 0) /\ mode = "skip" /\ bad = <<>> /\ nbad = 0
TNext ==
  /\ l <= Len(Rec)
  /\ l' = l + 1
  /\ LET e == Rec[l] IN
     IF e.a = "reset" THEN mon' = PInit(e.buf, e.S, e.tol) /\ mode' = "ok" /\ UNCHANGED <<bad, nbad>>
     ELSE IF mode = "skip" \/ e.a = "end" THEN UNCHANGED <<mon, mode, bad, nbad>>
     ELSE LET r == Check(mon, e) IN
          IF r = "" THEN mon' = Upd(mon, e) /\ UNCHANGED <<mode, bad, nbad>>
          ELSE /\ mode' = "skip" /\ UNCHANGED mon
               /\ nbad' = nbad + 1
               /\ bad' = IF nbad < MaxBad THEN Append(bad, [s |-> e.s, i |-> e.i, a |-> e.a, reason |-> r]) ELSE bad
TSpec == TInit /\ [][TNext]_tvars

\* acceptance: the whole file was consumed; rejected sessions are printed
Done == l = Len(Rec) + 1
Report == Done => /\ PrintT(<<"BAD", ToJson(bad)>>)
                  /\ PrintT(<<"REJECTED", nbad>>)
                  /\ PrintT(<<"CONSUMED", l - 1, Len(Rec)>>)
=============================================================================
