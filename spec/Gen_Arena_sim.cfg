SPECIFICATION GSpec
CONSTANTS
  N = 2
  Items = {1, 2, 3, 4}
  SelfRef = FALSE
  UnusedCap = 3
  Replayable = TRUE
  MergedReserve = FALSE
  MaxCb = 6
  D = 40
CONSTRAINT Bound
INVARIANT Dump
CHECK_DEADLOCK FALSE
