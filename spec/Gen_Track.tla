------------------------------ MODULE Gen_Track ------------------------------
EXTENDS Track, Json
CONSTANT D
VARIABLE hist
GInit == Init /\ hist = <<>>
Step == CASE act'[1] = "Cmd" -> [act |-> "Cmd", t |-> act'[2], c |-> act'[3], d |-> act'[4], wk |-> act'[5], wt |-> act'[6], ev |-> ev']
          [] act'[1] = "Drop" -> [act |-> "Drop", t |-> act'[2], ev |-> ev']
          [] act'[1] = "Stop" -> [act |-> "Stop", s |-> act'[2], ev |-> ev']
          [] OTHER -> [act |-> "Callback", ev |-> ev']
GNext == Next /\ hist' = Append(hist, Step)
GSpec == GInit /\ [][GNext]_<<vars, hist>>
Bound == Len(hist) <= D
Dump == (Len(hist) = D) => PrintT(<<"BEHAVIOUR", ToJson(hist)>>)
=============================================================================
