------------------------------- MODULE T_C05T -------------------------------
EXTENDS Integers, Sequences, FiniteSets, TLC, Json, IOUtils, P_C05T
Rec == ndJsonDeserialize(IOEnv.TRACE)
VARIABLES l, mon, mode, bad
tvars == <<l, mon, mode, bad>>
C0 == [u0 |-> "tps", v0n |-> 1, v0d |-> 1, u1 |-> "tps", v1n |-> 1, v1d |-> 1, d |-> 0, dtn |-> 1, dtd |-> 1]
TInit == l = 1 /\ mon = PInit(C0) /\ mode = "skip" /\ bad = <<>>
TNext ==
  /\ l <= Len(Rec)
  /\ l' = l + 1
  /\ LET e == Rec[l] IN
     IF e.a = "reset" THEN mon' = PInit([u0 |-> e.u0, v0n |-> e.v0n, v0d |-> e.v0d, u1 |-> e.u1, v1n |-> e.v1n, v1d |-> e.v1d,
                                          d |-> e.d, dtn |-> e.dtn, dtd |-> e.dtd]) /\ mode' = "ok" /\ bad' = bad
     ELSE IF mode = "skip" \/ e.a = "end" THEN UNCHANGED <<mon, mode, bad>>
     ELSE LET r == Check(mon, e) IN
          IF r = "" THEN mon' = Upd(mon, e) /\ UNCHANGED <<mode, bad>>
          ELSE /\ mode' = "skip" /\ UNCHANGED mon
               /\ bad' = Append(bad, [s |-> e.s, i |-> e.i, a |-> e.a, reason |-> r])
TSpec == TInit /\ [][TNext]_tvars
Done == l = Len(Rec) + 1
Report == Done => /\ PrintT(<<"BAD", ToJson(bad)>>)
                  /\ PrintT(<<"CONSUMED", l - 1, Len(Rec)>>)
=============================================================================
