---- MODULE MC_Track ----
EXTENDS Track
View == <<ivars, mon, bad>>
====
