------------------------------ MODULE Gen_C11 ------------------------------
(* Generator for C11: scenes with fixed parameters and sets of (internal    *)
(* buffer size, callback partition) pairs to render them with.  Chosen      *)
(* field by field; the oracle is P_C11.                                      *)
EXTENDS Integers, Sequences, FiniteSets, TLC, Json
CONSTANTS NCfg
VARIABLES sc, stage
Bsz == {1, 2, 3, 7, 128, 4096}
Parts == {"ones", "b", "b1", "primes", "big"}
Init == stage = 0 /\ sc = [fx |-> <<>>, cfgs |-> <<>>]
Next ==
  /\ stage' = stage + 1
  /\ CASE stage < 4 -> \E e \in 0..8 : sc' = [sc EXCEPT !.fx = Append(@, e)]
       [] stage = 4 -> \E r1, r2 \in {128, 256, 333} : sc' = sc @@ [rates |-> <<r1, r2>>]
       [] stage = 5 -> \E l1, l2, g1, g2 \in BOOLEAN, p1, p2 \in {-4, 0, 1, 2, 3} :      \* (pans: quarters; 2, 3 = 0.3, -0.7)
                         sc' = sc @@ [loops |-> <<l1, l2>>, pans |-> <<p1, p2>>, gaps |-> <<g1, g2>>]
       [] stage >= 6 /\ stage < 6 + NCfg -> \E b \in Bsz, p \in Parts : sc' = [sc EXCEPT !.cfgs = Append(@, [b |-> b, part |-> p])]
       [] OTHER -> FALSE
Spec == Init /\ [][Next]_<<sc, stage>>
Dump == stage = 6 + NCfg => PrintT(<<"BEHAVIOUR", ToJson(<<sc>>)>>)
=============================================================================
