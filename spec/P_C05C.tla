------------------------------- MODULE P_C05C -------------------------------
(* Property-level monitor for the last clause of C05: "anything scheduled   *)
(* for a clock time ... is cancelled (a waiting sound becomes Stopped) if   *)
(* the clock no longer exists" - together with C08's "dropping a handle     *)
(* removes the resource at the next callback".                              *)
(*                                                                          *)
(* Session: n clocks (created one after the other, so they sit in adjacent  *)
(* slots), each started and ticking once per buffer; sound i waits for tick *)
(* w[i] of clock i.  Events                                                 *)
(*   drop c          the handle of clock c is dropped (between callbacks)   *)
(*   cb heard st     one callback of one buffer: heard[i] = sound i was     *)
(*                   audible in it, st[i] = state reported by its handle    *)
EXTENDS Integers, Sequences, FiniteSets

PInit(c) == [n |-> c.n, w |-> c.w, k |-> 0,
             gone |-> [i \in 1..c.n |-> 0],      \* 0: clock i exists; j: it is gone from callback j on
             begun |-> {}]                       \* sounds that have been heard

Check(m, e) ==
  CASE e.a = "drop" -> ""
    [] e.a = "cb" ->
         LET k == m.k + 1
             Gone(i) == m.gone[i] # 0 /\ m.gone[i] <= k
         IN IF \E i \in 1..m.n : Gone(i) /\ i \notin m.begun /\ e.heard[i] THEN "no_start_from_a_clock_that_is_gone"
            \* (the handle may report the cancellation one callback after it happened)
            ELSE IF \E i \in 1..m.n : Gone(i) /\ m.gone[i] < k /\ i \notin m.begun /\ e.st[i] # "Stopped" THEN "waiting_sound_is_cancelled"
            \* clocks that still exist are not disturbed: their sounds begin in the buffer in which the tick is reached
            ELSE IF \E i \in 1..m.n : ~Gone(i) /\ e.heard[i] /\ i \notin m.begun /\ k < m.w[i] - 1 THEN "scheduled_start_not_early"
            ELSE IF \E i \in 1..m.n : ~Gone(i) /\ k >= m.w[i] /\ i \notin m.begun /\ ~e.heard[i] THEN "scheduled_start_not_late"
            ELSE IF \E i \in 1..m.n : i \in m.begun /\ e.st[i] = "Stopped" /\ k < 20 THEN "playing_sound_survives_its_clock"
            ELSE ""
    [] e.a = "panic" -> "no_panic"
    [] OTHER -> ""

Upd(m, e) ==
  \* (C08: a resource leaves at the next callback - at the one after, if the audio thread had not picked it up yet; here
  \*  everything is created before the first callback)
  CASE e.a = "drop" -> [m EXCEPT !.gone[e.c] = IF @ = 0 THEN (IF m.k = 0 THEN 2 ELSE m.k + 1) ELSE @]
    [] e.a = "cb" -> [m EXCEPT !.k = @ + 1, !.begun = @ \cup {i \in 1..m.n : e.heard[i]}]
    [] OTHER -> m
=============================================================================
