------------------------------ MODULE P_C17 ------------------------------
(* Property-level specification of C17 (modulators produce their configured *)
(* curves; linked parameters follow in-chunk), written from the property    *)
(* statement as a deterministic monitor over events.                        *)
(*                                                                          *)
(* One monitor instance watches ONE audio manager: its modulators (ids in   *)
(* Mods) and the parameters linked to them (ids in Params).  Time is        *)
(* counted in frames; values are integers (real value times the session's   *)
(* power-of-two scale sc; phases are fractions of a period times sc).       *)
(*                                                                          *)
(*   add   m kind ok v0 step src wave width ph0 fr am of                    *)
(*           a modulator was created: kind probe (a test modulator that     *)
(*           stamps its updates; src = another modulator it reads, 0 = none)*)
(*           | tw (tweener, initial value v0) | lfo (waveform saw, tri,     *)
(*           pulse(width), sine; starting phase ph0; frequency fr, amplitude*)
(*           am and offset of, each a value spec)                           *)
(*   value spec  [k, v, m, i0, i1, o0, o1, e, p]: k = "fix": the constant v;*)
(*           k = "mod": linked to modulator m through the mapping           *)
(*           input range (i0, i1) -> output range (o0, o1), easing lin or   *)
(*           in with integer power p                                        *)
(*   drop  m                 the modulator's handle was dropped             *)
(*   set   m tgt dur ease p sk delay ctgt     TweenerHandle::set            *)
(*   relink m role vs        LfoHandle::set_frequency/amplitude/offset with *)
(*           a value spec (zero-duration tween); for a probe: new source    *)
(*   link  p own real vs dk dflt     a parameter (of a sound, track, effect *)
(*           = own "mix", or of a clock = own "clock") was created linked to*)
(*           a modulator; dk: its default value dflt is known               *)
(*   cb    frames            a device callback of that many frames starts   *)
(*   chunk n log mv pv       one internal chunk of n frames was rendered:   *)
(*           log = stamps of the probes in execution order, entries         *)
(*             [k="U", x=m, d, v]   probe modulator m was updated with a    *)
(*                                  time step of d frames and produced v    *)
(*             [k="R", rk, x, m, ok, v]  reader x (rk = "p": parameter      *)
(*                                  owner, "m": probe modulator) looked up  *)
(*                                  modulator m: found (ok) with value v    *)
(*           mv[m] = [p, v]  at the end of the chunk modulator m resolves   *)
(*                           (p) and has value v                            *)
(*           pv[q] = [p, v]  value of parameter q at the end of the chunk   *)
(*                           (p = FALSE: not observed)                      *)
(*   panic                                                                  *)
(*                                                                          *)
(* Slack.  The statement says nothing about *when* a dropped modulator is   *)
(* removed (that is C08); after `drop` the monitor therefore lets the       *)
(* observation decide, chunk by chunk, whether the modulator is still there *)
(* (all clauses apply) or gone (it must stay gone, parameters hold).        *)
(* A start time of a tweener tween that falls inside a chunk may take       *)
(* effect anywhere up to the end of that chunk (P_C06's lo/hi slack).       *)
(* With tol > 0 (sessions with arbitrary decimal values) values are rounded *)
(* projections and are compared with that tolerance; the LFO curve is then  *)
(* only checked for its bounds.  The sine curve is numeric: bounds, the     *)
(* four cardinal points and half-period antisymmetry only.  At the very     *)
(* instant of a jump (saw at phase 1/2, pulse at phase 0 and at its width)  *)
(* either of the two values is accepted.  An LFO parameter whose modulator  *)
(* was never there keeps an initial value the statement does not name: such *)
(* an LFO is not checked.                                                   *)
EXTENDS Integers, Sequences, FiniteSets

CONSTANTS Mods, Params        \* universes of modulator / parameter ids of one session (1..k)

T6 == INSTANCE P_C06          \* the tween reference (Ref, Advance, CheckUpd, Upd)

Min2(a, b) == IF a < b THEN a ELSE b
Abs(a) == IF a < 0 THEN -a ELSE a
Near(a, b, tol) == Abs(a - b) <= tol
AScale == 4096                \* resolution of mapping amounts
Big == 60000                  \* numbers of value specs are at most this (14 units at scale 4096)
Huge == 1000000               \* recorded values are clamped to +-Huge by the harness

NoVS == [k |-> "fix", v |-> 0, m |-> 0, i0 |-> 0, i1 |-> 1, o0 |-> 0, o1 |-> 0, e |-> "lin", p |-> 1]
NoSet == [has |-> FALSE]

\* floor(a * n / d) for 0 <= n, 0 < d, within 32 bits (|a|, d <= 2 * Big)
MulDiv2(a, n, d) == LET n1 == n \div 256  n0 == n % 256  x == a * n1 IN
                    (x \div d) * 256 + ((x % d) * 256 + a * n0) \div d
RECURSIVE Gcd(_, _)
Gcd(a, b) == IF b = 0 THEN a ELSE Gcd(b, a % b)
PowI(b, p) == IF p = 1 THEN b ELSE IF p = 2 THEN b * b ELSE b * b * b
\* Mapping: input clamped to the input range, eased, interpolated between the outputs.
\* amount = (x - i0) / (i1 - i0) as a fraction in lowest terms; exact whenever amount^p has a denominator
\* of at most 2^16 (always for a linear mapping), otherwise (arbitrary decimals) to within 3 units
MapRef(vs, x) ==
  LET d0 == vs.i1 - vs.i0
      nn == IF d0 < 0 THEN vs.i0 - x ELSE x - vs.i0
      dd == Abs(d0)
      cn == IF nn < 0 THEN 0 ELSE IF nn > dd THEN dd ELSE nn
      g == Gcd(dd, cn)  rn == cn \div g  rd == dd \div g
      amt == (cn * AScale) \div dd
      eased == IF vs.p = 2 THEN (amt * amt) \div AScale ELSE (((amt * amt) \div AScale) * amt) \div AScale
  IN IF vs.p = 1 \/ rd <= (IF vs.p = 2 THEN 256 ELSE 40)
     THEN vs.o0 + MulDiv2(vs.o1 - vs.o0, PowI(rn, vs.p), PowI(rd, vs.p))
     ELSE vs.o0 + ((vs.o1 - vs.o0) * eased) \div AScale
VSOk(vs) == /\ vs.k \in {"fix", "mod"} /\ vs.e \in {"lin", "in"} /\ vs.p \in 1..3
            /\ (vs.k = "mod" => vs.i0 # vs.i1 /\ vs.m \in Mods)
            /\ \A x \in {vs.v, vs.i0, vs.i1, vs.o0, vs.o1} : Abs(x) <= Big

\* Waveforms, phase and value scaled by sc
Wave(w, width, ph, sc) ==
  CASE w = "saw"   -> ((ph + sc \div 2) % sc) * 2 - sc
    [] w = "tri"   -> Abs(((ph + (3 * sc) \div 4) % sc) - sc \div 2) * 4 - sc
    [] w = "pulse" -> IF ph < width THEN sc ELSE -sc
    [] OTHER       -> 0    \* sine: see LfoBad
\* the statement does not say which of the two values a jump takes at the very instant of the jump
WaveSet(w, width, ph, sc) ==
  IF (w = "saw" /\ ph = sc \div 2) \/ (w = "pulse" /\ (ph = width \/ ph = 0)) THEN {sc, -sc}
  ELSE {Wave(w, width, ph, sc)}

PInit(buf, sc, tol) ==
  [ buf  |-> buf, sc |-> sc, tol |-> tol,
    ms   |-> [m \in Mods |-> "none"],      \* none | failed | queued | live | dropped | gone
    mc   |-> [m \in Mods |-> [kind |-> "none"]],
    cur  |-> [m \in Mods |-> 0],           \* value seen last
    tw   |-> [m \in Mods |-> T6!PInit(0, tol)],
    pend |-> [m \in Mods |-> NoSet],       \* the last set() since the previous callback
    lf   |-> [m \in Mods |-> [ph |-> 0, fr |-> 0, am |-> 0, of |-> 0, started |-> FALSE,
                              free |-> FALSE, exact |-> TRUE, sok |-> FALSE, sph |-> 0, sdev |-> 0]],
    ps   |-> [q \in Params |-> "none"],    \* none | queued | active
    pc   |-> [q \in Params |-> [own |-> "none"]],
    last |-> [q \in Params |-> [k |-> FALSE, v |-> 0]],
    left |-> 0 ]

Pres(e, m)    == m <= Len(e.mv) /\ e.mv[m].p
MV(e, m)      == e.mv[m].v
\* the modulator takes part in this chunk
LiveNow(st, e, m) == st.ms[m] = "live" \/ (st.ms[m] = "dropped" /\ Pres(e, m))
Known(st, m)  == st.ms[m] \notin {"none", "failed"}

\* value of a parameter described by a value spec, `held` = the value it had before
PVal(st, e, vs, held) ==
  IF vs.k = "fix" THEN vs.v
  ELSE IF LiveNow(st, e, vs.m) THEN MapRef(vs, MV(e, vs.m)) ELSE held

\* ---------------------------------------------------------------- tweener (clause 4)
TwEv(st, e, m) ==
  LET t == st.tw[m]
      v == MV(e, m)
      e0 == [a |-> "upd", dt |-> e.n, ticking |-> TRUE, cpos |-> 0, val |-> v, prev |-> t.cur, fin |-> FALSE,
             exact |-> TRUE, coh |-> TRUE, ia |-> t.cur, ih |-> t.cur + v, ib |-> v]
      a == T6!Advance(t, e0)
  \* (the tweener has no finish flag to observe: it is taken to have finished when it shows the target at a moment it may)
  IN [e0 EXCEPT !.fin = IF a.ph = "run" /\ a.hi = 0 /\ a.dur = 0 THEN v = a.tgt
                        ELSE (a.ph = "run" /\ T6!Ended(a, a.hi) /\ v = a.tgt)]
SetEv(s) == [a |-> "set", tgt |-> s.tgt, dur |-> s.dur, ease |-> s.ease, p |-> s.p, sk |-> s.sk,
             delay |-> s.delay, ctgt |-> s.ctgt]

\* ---------------------------------------------------------------- LFO (clause 5)
\* one update of n frames at 8 frames per second: phase += n/8 * frequency (mod 1)
LfoStep(st, e, m) ==
  LET c == st.mc[m]  l == st.lf[m]  sc == st.sc
      fr == PVal(st, e, c.fr, l.fr)
      am == PVal(st, e, c.am, l.am)
      of == PVal(st, e, c.of, l.of)
      srcs == {vs.m : vs \in {x \in {c.fr, c.am, c.of} : x.k = "mod"}}
      \* a parameter whose modulator was never there keeps an initial value the statement does not name
      free == l.free \/ (~l.started /\ \E s \in srcs : ~LiveNow(st, e, s))
      adv == e.n * fr
      \* (while the frequency moves, how much of the chunk runs at the old and how much at the new frequency is a matter of
      \*  "one update of timing": the phase is no longer known exactly from the first chunk in which it differs)
      exact == l.exact /\ st.tol = 0 /\ fr >= 0 /\ adv % 8 = 0 /\ (~l.started \/ fr = l.fr)
      ph == IF exact THEN (l.ph + adv \div 8) % sc ELSE l.ph
  IN [fr |-> fr, am |-> am, of |-> of, free |-> free, exact |-> exact, ph |-> ph]

LfoBad(st, e, m) ==
  LET c == st.mc[m]  l == st.lf[m]  s == LfoStep(st, e, m)  v == MV(e, m)  sc == st.sc IN
  IF s.free THEN ""
  ELSE IF ~Near(v, s.of, Abs(s.am) + 2 * st.tol + (IF st.tol = 0 THEN 0 ELSE 1)) THEN "lfo_within_offset_plus_minus_amplitude"
  ELSE IF ~s.exact THEN ""
  ELSE IF c.wave # "sine" THEN
         (IF \E w \in WaveSet(c.wave, c.width, s.ph, sc) :
                Near(v, s.of + (s.am * w) \div sc, IF (s.am * w) % sc = 0 THEN 0 ELSE 1)
          THEN "" ELSE "lfo_follows_waveform")
  ELSE IF s.ph % (sc \div 4) = 0 /\ ~Near(v, s.of + s.am * (CASE s.ph = sc \div 4 -> 1 [] s.ph = 3 * (sc \div 4) -> -1 [] OTHER -> 0), 1)
         THEN "lfo_sine_cardinal_points"
  ELSE IF l.sok /\ c.am.k = "fix" /\ c.of.k = "fix" /\ s.ph = (l.sph + sc \div 2) % sc /\ ~Near((v - s.of) + l.sdev, 0, 2)
         THEN "lfo_sine_half_period_antisymmetry"
  ELSE ""

LfoUpd(st, e, m) ==
  LET s == LfoStep(st, e, m) IN
  [st.lf[m] EXCEPT !.ph = s.ph, !.fr = s.fr, !.am = s.am, !.of = s.of, !.started = TRUE, !.free = s.free,
                   !.exact = s.exact, !.sok = s.exact, !.sph = s.ph, !.sdev = MV(e, m) - s.of]

\* ---------------------------------------------------------------- one chunk
Idx(e) == 1..Len(e.log)
UIdx(e, m) == {i \in Idx(e) : e.log[i].k = "U" /\ e.log[i].x = m}
Probe(st, m) == st.mc[m].kind = "probe"

ParamBad(st, e, q) ==
  LET c == st.pc[q]  o == e.pv[q] IN
  IF ~o.p THEN ""
  ELSE IF Abs(o.v) > Huge THEN "value_in_range"
  ELSE IF LiveNow(st, e, c.vs.m) THEN
         (IF Near(o.v, MapRef(c.vs, MV(e, c.vs.m)), st.tol) THEN "" ELSE "parameter_follows_modulator_in_same_chunk")
  ELSE IF st.last[q].k THEN (IF o.v = st.last[q].v THEN "" ELSE "parameter_holds_last_value_after_removal")
  ELSE IF c.dk /\ o.v # c.dflt THEN "parameter_holds_last_value_after_removal"
  ELSE ""

ReadBad(st, e, i) ==
  LET r == e.log[i] IN
  IF ~Known(st, r.m) THEN "harness_read_unknown"
  ELSE IF r.rk = "m" /\ r.x = r.m THEN "harness_self_read"     \* a modulator linked to itself: not defined by the statement
  ELSE IF LiveNow(st, e, r.m) THEN
         IF ~r.ok THEN "live_modulator_resolves"
         ELSE IF Probe(st, r.m) /\ ~(\E j \in UIdx(e, r.m) : j < i) THEN "updated_before_anything_reads_it"
         ELSE IF r.v # MV(e, r.m) THEN "reader_sees_value_of_this_chunk"
         ELSE ""
  ELSE IF r.ok THEN "removed_modulator_does_not_resolve"
  ELSE ""

Bads(S, f(_)) == {f(x) : x \in S} \ {""}
Pick(bs) == IF bs = {} THEN "" ELSE CHOOSE b \in bs : TRUE

CheckChunk(st, e) ==
  LET mods == {m \in Mods : Known(st, m)}
      live == {m \in mods : LiveNow(st, e, m)}
      pars == {q \in Params : st.ps[q] = "active" /\ q <= Len(e.pv)}
  IN
  IF st.left = 0 THEN "chunk_outside_callback"
  \* (how a callback is cut into internal chunks is the renderer's business: no chunk is longer than the internal buffer,
  \*  and together they are the callback)
  ELSE IF e.n < 1 \/ e.n > st.buf \/ e.n > st.left THEN "internal_chunk_size"
  ELSE IF \E m \in Mods : Pres(e, m) /\ Abs(MV(e, m)) > Huge THEN "value_in_range"
  ELSE IF \E m \in Mods : st.ms[m] = "live" /\ ~Pres(e, m) THEN "live_modulator_resolves"
  ELSE IF \E m \in Mods : st.ms[m] = "gone" /\ Pres(e, m) THEN "removed_is_final"
  ELSE IF \E m \in Mods : st.ms[m] \in {"none", "failed", "queued"} /\ Pres(e, m) THEN "phantom_modulator"
  \* (1) every modulator is updated exactly once per internal chunk, with the chunk's time step
  ELSE IF \E m \in mods : Probe(st, m) /\ Cardinality(UIdx(e, m)) # (IF m \in live THEN 1 ELSE 0)
       THEN "updated_exactly_once_per_chunk"
  ELSE IF \E m \in live : Probe(st, m) /\ \E i \in UIdx(e, m) : e.log[i].d # e.n THEN "update_step_is_chunk_length"
  ELSE IF \E m \in live : Probe(st, m) /\ \E i \in UIdx(e, m) : e.log[i].v # MV(e, m) THEN "reader_sees_value_of_this_chunk"
  \* (1) ... before anything that reads it
  ELSE IF Bads({i \in Idx(e) : e.log[i].k = "R"}, LAMBDA i : ReadBad(st, e, i)) # {}
       THEN Pick(Bads({i \in Idx(e) : e.log[i].k = "R"}, LAMBDA i : ReadBad(st, e, i)))
  \* (4) tweener
  ELSE IF Bads({m \in live : st.mc[m].kind = "tw"}, LAMBDA m : T6!CheckUpd(st.tw[m], TwEv(st, e, m))) # {}
       THEN Pick(Bads({m \in live : st.mc[m].kind = "tw"}, LAMBDA m : T6!CheckUpd(st.tw[m], TwEv(st, e, m))))
  \* (5) LFO
  ELSE IF Bads({m \in live : st.mc[m].kind = "lfo"}, LAMBDA m : LfoBad(st, e, m)) # {}
       THEN Pick(Bads({m \in live : st.mc[m].kind = "lfo"}, LAMBDA m : LfoBad(st, e, m)))
  \* (2), (3) linked parameters
  ELSE Pick(Bads(pars, LAMBDA q : ParamBad(st, e, q)))

UpdChunk(st, e) ==
  LET live == {m \in Mods : Known(st, m) /\ LiveNow(st, e, m)} IN
  [st EXCEPT
     !.left = @ - e.n,
     !.ms   = [m \in Mods |-> IF st.ms[m] = "dropped" /\ ~Pres(e, m) THEN "gone" ELSE st.ms[m]],
     !.cur  = [m \in Mods |-> IF m \in live THEN MV(e, m) ELSE st.cur[m]],
     !.tw   = [m \in Mods |-> IF m \in live /\ st.mc[m].kind = "tw" THEN T6!Upd(st.tw[m], TwEv(st, e, m)) ELSE st.tw[m]],
     !.lf   = [m \in Mods |-> IF m \in live /\ st.mc[m].kind = "lfo" THEN LfoUpd(st, e, m) ELSE st.lf[m]],
     !.last = [q \in Params |-> IF st.ps[q] = "active" /\ q <= Len(e.pv) /\ e.pv[q].p
                                 THEN [k |-> TRUE, v |-> e.pv[q].v] ELSE st.last[q]]]

\* ---------------------------------------------------------------- the monitor
\* The first violated clause of the statement, or "" when the event is allowed.
Check(st, e) ==
  CASE e.a = "add" ->
         IF e.m \notin Mods \/ st.ms[e.m] # "none" THEN "harness_modulator_reused"
         ELSE IF e.kind \notin {"probe", "tw", "lfo"} THEN "harness_bad_kind"
         ELSE IF e.kind = "lfo" /\ ~(VSOk(e.fr) /\ VSOk(e.am) /\ VSOk(e.of)) THEN "harness_bad_value_spec"
         ELSE IF e.kind = "lfo" /\ \E vs \in {e.fr, e.am, e.of} : vs.k = "mod" /\ (vs.m = e.m \/ ~Known(st, vs.m)) THEN "harness_bad_link"
         ELSE ""
    [] e.a = "drop" -> IF e.m \notin Mods \/ st.ms[e.m] \notin {"queued", "live"} THEN "harness_drop_dead" ELSE ""
    [] e.a = "set" ->
         IF e.m \notin Mods \/ st.mc[e.m].kind # "tw" \/ st.ms[e.m] \notin {"queued", "live"} THEN "harness_bad_set"
         ELSE T6!Check(st.tw[e.m], SetEv(e))
    [] e.a = "relink" ->
         IF e.m \notin Mods \/ st.ms[e.m] \notin {"queued", "live"} THEN "harness_bad_relink"
         ELSE IF e.vs.k = "mod" /\ (e.vs.m = e.m \/ ~Known(st, e.vs.m)) THEN "harness_bad_link"
         ELSE ""
    [] e.a = "link" ->
         IF e.p \notin Params \/ st.ps[e.p] # "none" THEN "harness_parameter_reused"
         ELSE IF ~VSOk(e.vs) \/ e.vs.k # "mod" \/ ~Known(st, e.vs.m) THEN "harness_bad_link"
         ELSE ""
    [] e.a = "cb" -> IF st.left # 0 THEN "callback_rendered_completely"
                     ELSE IF e.frames <= 0 THEN "harness_bad_callback" ELSE ""
    [] e.a = "chunk" -> CheckChunk(st, e)
    \* a session of the "pickup" family: something linked to a modulator that was created just before it, while the audio
    \* thread was between two drains of its rings of new resources; seen[j] = the modulator was there the j-th time the
    \* dependent was processed
    [] e.a = "pick" -> IF \E j \in 1..Len(e.seen) : ~e.seen[j] THEN "linked_parameter_follows_from_its_first_chunk" ELSE ""
    [] e.a = "panic" -> "no_panic"
    [] OTHER -> ""

Upd(st, e) ==
  CASE e.a = "add" ->
         IF ~e.ok THEN [st EXCEPT !.ms[e.m] = "failed"]
         ELSE [st EXCEPT !.ms[e.m] = "queued", !.mc[e.m] = e, !.cur[e.m] = e.v0,
                         !.tw[e.m] = T6!PInit(e.v0, st.tol),
                         !.lf[e.m] = [@ EXCEPT !.ph = e.ph0, !.fr = e.fr.v, !.am = e.am.v, !.of = e.of.v]]
    \* (a modulator dropped before its first callback may still take part in that callback)
    [] e.a = "drop" -> [st EXCEPT !.ms[e.m] = "dropped"]
    [] e.a = "set" -> [st EXCEPT !.pend[e.m] = [has |-> TRUE, tgt |-> e.tgt, dur |-> e.dur, ease |-> e.ease, p |-> e.p,
                                                  sk |-> e.sk, delay |-> e.delay, ctgt |-> e.ctgt]]
    [] e.a = "relink" ->
         \* takes effect at the first update after the next callback began (no chunk lies in between);
         \* a parameter relinked to a modulator that is not there keeps the value it had
         IF st.mc[e.m].kind = "lfo"
         THEN [st EXCEPT !.mc[e.m] = [@ EXCEPT ![e.role] = e.vs]]
         ELSE [st EXCEPT !.mc[e.m] = [@ EXCEPT !.src = e.vs.m]]
    [] e.a = "link" -> [st EXCEPT !.ps[e.p] = "queued", !.pc[e.p] = e]
    [] e.a = "cb" ->
         \* resources created before the callback began take part from its first chunk on;
         \* the last value written to a tweener since the previous callback takes effect now
         [st EXCEPT !.left = e.frames,
                    !.ms = [m \in Mods |-> IF st.ms[m] = "queued" THEN "live" ELSE st.ms[m]],
                    !.ps = [q \in Params |-> IF st.ps[q] = "queued" THEN "active" ELSE st.ps[q]],
                    !.tw = [m \in Mods |-> IF st.pend[m].has THEN T6!Upd(st.tw[m], SetEv(st.pend[m])) ELSE st.tw[m]],
                    !.pend = [m \in Mods |-> NoSet]]
    [] e.a = "chunk" -> UpdChunk(st, e)
    [] OTHER -> st
=============================================================================
