------------------------------ MODULE P_C04 ------------------------------
(* Property-level specification of C04 (static playback is sample-accurate),*)
(* written from the property statement as a deterministic monitor over the  *)
(* events of ONE static sound that is driven frame by frame.                *)
(*                                                                          *)
(* Source frame i (0-based, in the unsliced audio) carries the value i + 1, *)
(* so an output value names the frame that is heard.  All numbers are       *)
(* integers: positions are in frames, output values are value * 256, rates  *)
(* are in quarters (4 = rate 1), fractional positions are multiples of 1/4. *)
(*                                                                          *)
(*   reset  len sl ss se start lp ls le rev rq sr dev   the sound's settings*)
(*   made   pos px         the sound was created; reported position         *)
(*   begin  pos px st      on_start_processing returned; reported position  *)
(*   proc   n              a process call for n output frames starts        *)
(*   frame  v x            one output frame (x = 1: not exact / channels differ)*)
(*   end    st fin         the process call returned; handle state, finished()*)
(*   seek_to t | seek_by d | set_loop lp ls le | set_rate rq   handle calls *)
(*                         (frames; they take effect at the next `begin`)   *)
(*   panic | hang          a call panicked / did not return                 *)
(*                                                                          *)
(* Where the statement leaves slack the monitor keeps a SET of hypotheses   *)
(* (reference players); an event is accepted iff some hypothesis explains   *)
(* it.  Slack: (1) a seek lands within one frame of the requested time after*)
(* at most four frames of refill - the landing position may or may not count*)
(* the refill time; (2) a loop-region change takes effect somewhere inside  *)
(* the four-frame window; (3) the reported position is within one frame of  *)
(* the frame heard; (4) the sound reports Stopped within four source frames *)
(* after its last frame; (5) with `reverse` a non-zero start position is    *)
(* counted from either end.                                                 *)
(* Input combinations the documentation leaves open put the monitor into    *)
(* `open` mode, in which it accepts everything: loop end <= loop start or   *)
(* beyond the audio, start position beyond the slice,                       *)
(* reverse on an empty sound, seeks to a time outside the audio /            *)
(* after the sound is over (a seek to a time outside the loop region lands  *)
(* somewhere inside it), a loop-region change that     *)
(* leaves the play head after the loop end, a change of the sign of the     *)
(* rate, a rate change that is ramped across a multi-frame chunk.           *)
(* A start position after the loop end (in the direction of play) is not    *)
(* open: the frame at the start position is played and the next frame lies  *)
(* inside the loop region ("wrapping ... straight" into the loop; which     *)
(* frame of the region is left to the implementation), the loop continuing  *)
(* from there.                                                              *)
EXTENDS Integers, Sequences, FiniteSets

Q    == 4        \* grid of fractional positions
SC   == 256      \* scale of logged output values
NONE == -1       \* silence: before the first / after the last frame
ANY  == -2       \* unknown frame (window being refilled after a seek)
NoLoop == <<-1, -1>>

Abs(x) == IF x < 0 THEN -x ELSE x

\* ------------------------------------------------------------ reference player
\* The index played after index i (slice-relative), NONE when the sound is over.
\* n: frames in the slice, back: playing towards index 0, lp: <<start, end)>> or NoLoop.
Nx(n, back, lp, i) ==
  IF i < 0 THEN i
  ELSE IF ~back
       THEN IF lp # NoLoop /\ i + 1 >= lp[2] THEN lp[1]          \* loop end -> straight to loop start
            ELSE IF i + 1 >= n THEN NONE ELSE i + 1
       ELSE IF lp # NoLoop /\ i <= lp[1] THEN lp[2] - 1          \* (backwards: loop start -> last loop frame)
            ELSE IF i = 0 THEN NONE ELSE i - 1

RECURSIVE Player(_, _, _, _, _)
\* the k-th index played when playback begins at index i0
Player(n, back, lp, i0, k) == IF k = 0 THEN i0 ELSE Player(n, back, lp, Nx(n, back, lp, i0), k - 1)

\* the play head is not "after the loop end" (in the direction of play)
InDom(back, lp, i) == i < 0 \/ lp = NoLoop \/ (IF back THEN i >= lp[1] ELSE i < lp[2])
LoopOK(n, lp) == lp = NoLoop \/ (0 <= lp[1] /\ lp[1] < lp[2] /\ lp[2] <= n)

\* 4-point, 3rd-order Hermite interpolation (x-form) of p, c, n1, n2 at fraction a/Q, times SC
H256(p, c, n1, n2, a) ==
  2 * (128 * c + 16 * a * (n1 - p) + 4 * a * a * (2 * p - 5 * c + 4 * n1 - n2)
       + a * a * a * ((n2 - p) + 3 * (c - n1)))

\* ------------------------------------------------------------ monitor state
NM(m, i) == Nx(m.n, m.back, m.lp, i)
AdvM(m, i, k) == Player(m.n, m.back, m.lp, i, k)
Val(m, i) == IF i < 0 THEN 0 ELSE m.off + i + 1
InSlice(m, v) == v = 0 \/ (v % SC = 0 /\ (v \div SC) - m.off - 1 >= 0 /\ (v \div SC) - m.off - 1 < m.n)

\* a hypothesis: w = the four reference frames around the current position
\* (w[2] is the frame at the integer position), q = the frame after w[4],
\* g = number of unknown frames that still precede q
StartHyp(m, i0) ==
  LET a == IF i0 >= 0 /\ i0 < m.n THEN i0 ELSE NONE
      b == NM(m, a)  c == NM(m, b)  d == NM(m, c)
  IN [w |-> <<NONE, a, b, c>>, q |-> d, g |-> 0]

Shift(m, h) ==
  [w |-> <<h.w[2], h.w[3], h.w[4], IF h.g > 0 THEN ANY ELSE h.q>>,
   q |-> IF h.g > 0 THEN h.q ELSE NM(m, h.q),
   g |-> IF h.g > 0 THEN h.g - 1 ELSE 0]

\* a start after the loop end: one hypothesis per frame of the loop region the wrap may land on
StartHyps(m, i0) ==
  IF InDom(m.back, m.lp, i0) THEN {StartHyp(m, i0)}
  ELSE {[w |-> <<NONE, i0, b, NM(m, b)>>, q |-> NM(m, NM(m, b)), g |-> 0] : b \in m.lp[1]..(m.lp[2] - 1)}

Ended(h) == h.w[2] = NONE /\ h.w[3] = NONE /\ h.w[4] = NONE /\ h.q = NONE /\ h.g = 0

RECURSIVE ShiftDr(_, _, _, _)
\* k source steps; dr counts the consecutive steps after which every hypothesis is over
ShiftDr(m, hs, dr, k) ==
  IF k = 0 THEN <<hs, dr>>
  ELSE LET hs2 == {Shift(m, h) : h \in hs}
       IN ShiftDr(m, hs2, IF \A h \in hs2 : Ended(h) THEN dr + 1 ELSE 0, k - 1)

Matches(m, h, v) ==
  IF m.f = 0 THEN h.w[2] = ANY \/ v = SC * Val(m, h.w[2])
  ELSE (\E i \in 1..4 : h.w[i] = ANY)
       \/ v = H256(Val(m, h.w[1]), Val(m, h.w[2]), Val(m, h.w[3]), Val(m, h.w[4]), m.f)

\* reported position p is within one frame of the frame heard
PosOK(m, h, p) ==
  LET c == h.w[2] IN
  IF c = ANY THEN TRUE
  ELSE IF c >= 0 THEN (p - c) \in {-1, 0, 1} \/ (h.w[1] >= 0 /\ p = h.w[1]) \/ (h.w[3] >= 0 /\ p = h.w[3])
  ELSE \/ h.w[1] >= 0 /\ (p - h.w[1]) \in {-1, 0, 1}
       \/ IF m.back THEN p \in {0, 1} ELSE p \in {m.n - 1, m.n, m.n + 1}

Region(m) == IF m.lp = NoLoop THEN 0..(m.n - 1) ELSE m.lp[1]..(m.lp[2] - 1)
Near(m, t) == {t - 1, t, t + 1} \cap Region(m)

\* after a seek: d frames of refill, then the player continues from q0
MkSeekHyp(m, d, q0) ==
  LET E(i) == IF i - 2 - d < 0 THEN ANY ELSE AdvM(m, q0, i - 2 - d)
  IN [w |-> <<E(1), E(2), E(3), E(4)>>,
      q |-> IF d = 4 THEN q0 ELSE AdvM(m, q0, 3 - d),
      g |-> IF d = 4 THEN 1 ELSE 0]
\* q0 is within one frame of the requested time t, the refill time counted or not
SeekHyps(m, t) ==
  {MkSeekHyp(m, x[1], AdvM(m, x[2], x[3])) :
     x \in {y \in (0..4) \X Near(m, t) \X (0..4) : y[3] <= y[1]}}

\* a seek to a time in front of the loop region (in the direction of play) may land on that time: the play head then runs into
\* the loop like a sound started there
ExactHyps(m, t) ==
  {MkSeekHyp(m, x[1], AdvM(m, x[2], x[3])) :
     x \in {y \in (0..4) \X {q \in {t - 1, t, t + 1} \cap (0..(m.n - 1)) : InDom(m.back, m.lp, q)} \X (0..4) : y[3] <= y[1]}}

\* a loop-region change (already stored in mn.lp) that takes effect after the
\* d-th frame of the window
Reloop(mn, h, d) ==
  LET S == <<h.w[2], h.w[3], h.w[4], IF h.g > 0 THEN ANY ELSE h.q>>
      F(prev, old) == IF prev = ANY THEN old ELSE NM(mn, prev)
      s1 == S[1]
      s2 == IF 2 <= d + 1 THEN S[2] ELSE F(s1, S[2])
      s3 == IF 3 <= d + 1 THEN S[3] ELSE F(s2, S[3])
      s4 == IF 4 <= d + 1 THEN S[4] ELSE F(s3, S[4])
  IN [w |-> <<h.w[1], s1, s2, s3>>, q |-> IF h.g > 0 THEN h.q ELSE s4, g |-> h.g]
HypInDom(m, h) == /\ \A i \in 2..4 : InDom(m.back, m.lp, h.w[i])
                  /\ InDom(m.back, m.lp, h.q)

NoCmd == [a |-> "", t |-> 0, d |-> 0, lp |-> FALSE, ls |-> 0, le |-> -1]    \* no handle call pending

\* ------------------------------------------------------------ initial state
\* c: the `reset` event
PInit(c) ==
  LET sliceOK == ~c.sl \/ (0 <= c.ss /\ c.ss <= c.se /\ c.se <= c.len)
      n    == IF c.sl THEN c.se - c.ss ELSE c.len
      off  == IF c.sl THEN c.ss ELSE 0
      lp   == IF c.lp THEN <<c.ls, IF c.le < 0 THEN n ELSE c.le>> ELSE NoLoop
      back == (c.rq < 0) # c.rev
      num  == Abs(c.rq) * c.sr
      stepOK == c.dev > 0 /\ c.sr > 0 /\ num % c.dev = 0 /\ num > 0 /\ num \div c.dev <= 4 * Q
      starts == IF c.rev THEN {n - 1 - c.start, c.start} ELSE {c.start}
      m0 == [n |-> n, off |-> off, back |-> back, lp |-> lp,
             step |-> IF stepOK THEN num \div c.dev ELSE Q, f |-> 0,
             hyps |-> {}, open |-> FALSE, stopped |-> FALSE, dr |-> 0,
             cmd |-> "", age |-> 0, nearEnd |-> FALSE, prate |-> 0, arate |-> 0,
             rneg |-> c.rq < 0, srn |-> c.sr, srd |-> c.dev, pe |-> NoCmd, sat |-> FALSE,
             made |-> -7]     \* the position reported at creation, until the first frame tells which reading of `start` applies
      defined == /\ sliceOK /\ stepOK /\ LoopOK(n, lp)
                 /\ c.start >= 0
                 /\ (c.start < n \/ (c.start = 0 /\ n = 0 /\ ~c.rev))
  IN IF defined THEN [m0 EXCEPT !.hyps = UNION {StartHyps(m0, i0) : i0 \in starts}]
     ELSE [m0 EXCEPT !.open = TRUE]

\* ------------------------------------------------------------ clauses
FrameReason(m) ==
  IF m.cmd = "seek" /\ m.age <= 8
  THEN IF m.sat THEN "seek_by_saturates_at_zero"
       ELSE IF m.nearEnd THEN "seek_in_final_frames" ELSE "seek_lands_within_one_frame"
  ELSE IF m.cmd = "loop" /\ m.age <= 8 THEN "loop_change_within_window"
  ELSE IF m.step = Q /\ m.f = 0 THEN "bit_exact_source_frames"
  ELSE "hermite_interpolation"

\* a seek issued while fewer than four frames remain is reported under its own name
\* (finding D17: before its fix such a seek was dropped because the transport had already stopped)
\* (finding D18: seek_by measures from the prefetch position, three frames ahead of the frame heard; when
\* that position has already wrapped to the loop start a negative amount saturates at frame 0)
Named(m, r) ==
  IF m.cmd = "seek" /\ r \in {"stopped_only_after_last_frame", "position_names_heard_frame"}
  THEN IF m.sat THEN "seek_by_saturates_at_zero" ELSE IF m.nearEnd THEN "seek_in_final_frames" ELSE r
  ELSE r

StateReason(m, st) ==
  IF st \notin {"Playing", "Stopped"} THEN "state_playing_or_stopped"
  ELSE IF m.stopped /\ st # "Stopped" THEN "stopped_is_final"
  ELSE IF st = "Stopped" /\ ~m.stopped /\ ~(\E h \in m.hyps : Ended(h)) THEN "stopped_only_after_last_frame"
  ELSE ""

\* all hypotheses agree that the sound is still audible (a seek is meaningful)
Audible(m) == \A h \in m.hyps : h.w[2] # NONE
SeekByTargets(m, d) == {h.w[2] + d : h \in m.hyps}

Check(m, e) ==
  IF m.open THEN ""
  ELSE CASE e.a = "frame" ->
         IF e.x # 0 THEN "output_exact_and_equal_channels"
         ELSE IF m.stopped THEN (IF e.v # 0 THEN "silent_after_stopped" ELSE "")
         ELSE IF m.f = 0 /\ ~InSlice(m, e.v) THEN "never_reads_outside_slice"
         ELSE IF \A h \in m.hyps : ~Matches(m, h, e.v) THEN FrameReason(m)
         \* (the position reported at creation named the frame that is heard first)
         ELSE IF m.made # -7 /\ (\A h \in {x \in m.hyps : Matches(m, x, e.v)} : ~PosOK(m, h, m.made)) THEN "position_names_heard_frame"
         ELSE ""
    [] e.a = "begin" ->
         LET r == StateReason(m, e.st) IN
         IF r # "" THEN Named(m, r)
         ELSE IF e.st = "Stopped" THEN ""
         ELSE IF e.px # 0 \/ (\A h \in m.hyps : ~PosOK(m, h, e.pos)) THEN Named(m, "position_names_heard_frame")
         ELSE ""
    \* (made: the position the handle reports right after the sound was created, before any callback)
    [] e.a = "made" -> IF (\A h \in m.hyps : ~PosOK(m, h, e.pos)) THEN Named(m, "position_names_heard_frame") ELSE ""
    [] e.a = "end" ->
         LET r == StateReason(m, e.st) IN
         IF r # "" THEN Named(m, r)
         ELSE IF e.fin # (e.st = "Stopped") THEN "finished_iff_stopped"
         ELSE IF e.st # "Stopped" /\ m.dr >= 5 THEN "stops_within_drain"
         ELSE ""
    [] e.a = "panic" -> "no_panic"
    [] e.a = "hang" -> "returns_promptly"
    [] OTHER -> ""

\* ------------------------------------------------------------ update
SeeState(m, st) ==
  IF st = "Stopped" /\ ~m.stopped
  THEN [m EXCEPT !.stopped = TRUE, !.hyps = {h \in m.hyps : Ended(h)}]
  ELSE m

\* a handle call takes effect at the next on_start_processing (`begin`); until then it is pending.
\* Later calls of the same kind replace earlier ones; calls of different kinds pending together are
\* applied in an order the documentation does not fix (open mode).
Norm(e) == CASE e.a = "seek_to" -> [NoCmd EXCEPT !.a = e.a, !.t = e.t]
             [] e.a = "seek_by" -> [NoCmd EXCEPT !.a = e.a, !.d = e.d]
             [] OTHER -> [NoCmd EXCEPT !.a = e.a, !.lp = e.lp, !.ls = e.ls, !.le = e.le]
Stash(m, e) == IF m.stopped THEN m
               ELSE IF m.pe.a \in {"", e.a} THEN [m EXCEPT !.pe = Norm(e)]
               ELSE [m EXCEPT !.pe = [NoCmd EXCEPT !.a = "multi"]]

ApplyCmd(m0) ==
  LET e == m0.pe  m == [m0 EXCEPT !.pe = NoCmd] IN
  CASE e.a = "" -> m
    [] e.a = "multi" -> [m EXCEPT !.open = TRUE]
    [] e.a = "seek_to" ->
         IF m.stopped THEN m
         \* (a seek while the play head stands between two source frames: whether the sub-frame phase survives the seek is within
         \*  "seeks land within one frame" - nothing is claimed about the interpolated values afterwards)
         ELSE IF m.f # 0 THEN [m EXCEPT !.open = TRUE]
         ELSE IF ~Audible(m) THEN [m EXCEPT !.open = TRUE]
         \* a target outside the loop region (but inside the audio): the seek lands on the requested time if that lies in front
         \* of the loop (the sound then runs into its loop), or somewhere inside the region - where is left to the implementation;
         \* it never lands behind the loop
         ELSE IF e.t \notin Region(m) /\ m.lp # NoLoop /\ e.t >= 0 /\ e.t < m.n
              THEN [m EXCEPT !.hyps = UNION {SeekHyps(m, q) : q \in Region(m)} \cup ExactHyps(m, e.t),
                             !.cmd = "seek", !.age = 0, !.dr = 0, !.sat = FALSE,
                             !.nearEnd = FALSE]
         ELSE IF e.t \notin Region(m) THEN [m EXCEPT !.open = TRUE]
         ELSE [m EXCEPT !.hyps = SeekHyps(m, e.t), !.cmd = "seek", !.age = 0, !.dr = 0, !.sat = FALSE,
                        !.nearEnd = \E h \in m.hyps : h.q = NONE /\ h.g = 0]
    [] e.a = "seek_by" ->
         IF m.stopped THEN m
         ELSE IF m.f # 0 THEN [m EXCEPT !.open = TRUE]
         \* (a relative seek while a loop-region change is still taking effect has no fixed reference point)
         ELSE IF ~Audible(m) \/ (\E h \in m.hyps : h.w[2] = ANY) \/ (m.cmd = "loop" /\ m.age <= 4)
                 \/ ~(SeekByTargets(m, e.d) \subseteq Region(m)) THEN [m EXCEPT !.open = TRUE]
         ELSE [m EXCEPT !.hyps = UNION {SeekHyps(m, t) : t \in SeekByTargets(m, e.d)},
                        !.cmd = "seek", !.age = 0, !.dr = 0,
                        !.sat = \E h \in m.hyps : h.g = 0 /\ h.q >= 0 /\ h.q + e.d < 0 /\ h.w[2] + e.d >= 0,
                        !.nearEnd = \E h \in m.hyps : h.q = NONE /\ h.g = 0]
    [] e.a = "set_loop" ->
         IF m.stopped THEN m
         ELSE LET lp == IF e.lp THEN <<e.ls, IF e.le < 0 THEN m.n ELSE e.le>> ELSE NoLoop
                  mn == [m EXCEPT !.lp = lp]
                  hs == {Reloop(mn, h, d) : h \in m.hyps, d \in 0..3}
              IN IF ~LoopOK(m.n, lp) \/ (\E h \in hs : ~HypInDom(mn, h)) THEN [mn EXCEPT !.open = TRUE]
                 ELSE [mn EXCEPT !.hyps = hs, !.cmd = IF m.cmd = "seek" /\ m.age <= 8 THEN "seek" ELSE "loop",
                                 !.age = IF m.cmd = "seek" /\ m.age <= 8 THEN m.age ELSE 0]

Upd(m, e) ==
  IF m.open THEN m
  ELSE CASE e.a = "frame" ->
         IF m.stopped THEN m
         ELSE LET hs == {h \in m.hyps : Matches(m, h, e.v)}
                  f1 == m.f + m.step
                  k  == f1 \div Q
                  r  == ShiftDr(m, hs, m.dr, k)
              IN [m EXCEPT !.hyps = r[1], !.dr = r[2], !.f = f1 % Q, !.age = IF @ < 100 THEN @ + k ELSE @, !.made = -7]
    [] e.a = "begin" ->
         LET m1 == SeeState(m, e.st)
             m2 == IF m1.stopped THEN m1 ELSE [m1 EXCEPT !.hyps = {h \in m1.hyps : PosOK(m1, h, e.pos)}]
             m3 == ApplyCmd(m2)
         IN IF m3.prate # 0 THEN [m3 EXCEPT !.arate = m3.prate, !.prate = 0] ELSE m3
    [] e.a = "proc" ->
         IF m.arate = 0 THEN m
         ELSE IF e.n = 1 THEN [m EXCEPT !.step = m.arate, !.arate = 0]
         ELSE [m EXCEPT !.open = TRUE]
    [] e.a = "made" -> [m EXCEPT !.made = e.pos]
    [] e.a = "end" -> SeeState(m, e.st)
    [] e.a \in {"seek_to", "seek_by", "set_loop"} -> Stash(m, e)
    [] e.a = "set_rate" ->
         IF e.rq = 0 \/ ((e.rq < 0) # m.rneg) \/ (Abs(e.rq) * m.srn) % m.srd # 0
            \/ (Abs(e.rq) * m.srn) \div m.srd > 4 * Q THEN [m EXCEPT !.open = TRUE]
         ELSE [m EXCEPT !.prate = (Abs(e.rq) * m.srn) \div m.srd]
    [] e.a = "skipped" -> [m EXCEPT !.open = TRUE]
    [] OTHER -> m
=============================================================================
