SPECIFICATION Spec
CONSTANTS
  N = 3
  MaxOps = 7
INVARIANTS NoDuplicates Partition ReservedNotFree
CHECK_DEADLOCK FALSE
