SPECIFICATION TSpec
CONSTANT SubFramePanics = TRUE
INVARIANT Report
CHECK_DEADLOCK FALSE
