---- MODULE MC_Playback ----
EXTENDS Playback
View == <<ivars, mon, bad>>
====
