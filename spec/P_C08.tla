------------------------------ MODULE P_C08 ------------------------------
(* Property-level specification of C08 (resource life cycle), written from  *)
(* the property statement, as a deterministic monitor over events.          *)
(*                                                                          *)
(* One monitor instance watches ONE resource arena (the sounds of one track,*)
(* the sub-tracks of one parent, the send tracks, clocks, modulators or     *)
(* listeners of a manager).  Events come either from the implementation     *)
(* model (Arena.tla, model checking) or from the real library (T_C08.tla,   *)
(* trace validation).                                                       *)
(*                                                                          *)
(*   reserve  item ok len cap   creation attempt reached its capacity check *)
(*   create   item ok len cap   = reserve followed by push (unsplit call)   *)
(*   create_err item len        creation failed before anything was created *)
(*                              (the sound data's own conversion error)     *)
(*   push     item              the new resource was handed to the audio side*)
(*   mark     item              handle dropped / sound finished             *)
(*   cb_begin                   a device callback starts                    *)
(*   free     len               the audio thread released one slot          *)
(*   cb_end   present len resolves   the callback returned                  *)
(*   len      len               count query from the gameplay side          *)
(*   drop     item on_audio     the resource's destructor ran               *)
(*   panic    who               some call panicked                          *)
(*   tau                        internal step without observable effect     *)
EXTENDS Integers, FiniteSets, Sequences

CONSTANT Items      \* universe of resource ids used by one session

Alive == {"reserved", "queued", "live"}

PInit(n, racy) ==
  [ n      |-> n,          \* capacity
    racy   |-> racy,       \* TRUE: the session logs every `free` step
    st     |-> [x \in Items |-> "none"],
    mk     |-> [x \in Items |-> FALSE],
    count  |-> 0,          \* created minus removed
    incb   |-> FALSE,
    mustGo |-> {},         \* live and marked when the running callback began
    mustLive |-> {},       \* queued when the running callback began
    nfreed |-> 0 ]

\* A value the harness could not observe is logged as -1 and matches anything.
Obs(v, expected) == v = -1 \/ v = expected

\* cb_end: the set of resources seen alive during the callback; when the kind offers no
\* way to observe it (pk = FALSE) the only outcome the statement allows in an
\* unraced history is assumed: everything due is gone, everything else stays.
Present(m, e) == IF e.pk THEN e.present
                 ELSE ({x \in Items : m.st[x] = "live"} \cup m.mustLive) \ m.mustGo
Gone(m, e)  == {x \in Items : m.st[x] = "live"} \ Present(m, e)
EndCount(m, e) == IF m.racy THEN m.count ELSE m.count - Cardinality(Gone(m, e))

\* The first violated clause of the statement, or "" when the event is allowed.
Check(m, e) ==
  CASE e.a \in {"reserve", "create"} ->
         IF m.st[e.item] # "none" THEN "harness_item_reused"
         ELSE IF e.ok # (m.count < m.n) THEN "succeeds_iff_below_capacity"
         ELSE IF ~Obs(e.len, IF e.ok THEN m.count + 1 ELSE m.count) THEN "count_exact"
         ELSE IF e.len > m.n THEN "count_le_capacity"
         ELSE IF ~Obs(e.cap, m.n) THEN "capacity_reported"
         ELSE ""
    \* a creation that failed for a reason of its own (the sound data could not be converted): nothing was created
    [] e.a = "create_err" -> IF ~Obs(e.len, m.count) THEN "count_exact" ELSE ""
    [] e.a = "push" -> IF m.st[e.item] # "reserved" THEN "harness_push_unreserved"
                       ELSE IF ~Obs(e.len, m.count) THEN "count_exact" ELSE ""
    [] e.a = "mark" -> IF m.st[e.item] \notin Alive THEN "harness_mark_dead" ELSE ""
    [] e.a = "cb_begin" -> IF m.incb THEN "harness_nested_callback" ELSE ""
    [] e.a = "free" ->
         IF ~m.incb THEN "free_outside_callback"
         ELSE IF m.count = 0 THEN "free_without_resource"
         ELSE IF ~Obs(e.len, m.count - 1) THEN "count_exact"
         ELSE ""
    [] e.a = "cb_end" ->
         IF (m.mustGo \cap Present(m, e)) # {} THEN "prompt_removal"
         ELSE IF ~((m.mustLive \ {x \in Items : m.mk[x]}) \subseteq Present(m, e)) THEN "picked_up_at_next_callback"
         ELSE IF ~(Present(m, e) \subseteq {x \in Items : m.st[x] \in {"queued", "live"}}) THEN "phantom_resource"
         ELSE IF ~({x \in Items : m.st[x] = "live" /\ ~m.mk[x]} \subseteq Present(m, e)) THEN "removed_without_cause"
         \* (how many removals the replay saw pass the sto.removed yield point is a fact about the replay, not about the library:
         \*  a scan in another order than the model's meets the marks at other moments - no clause)
         ELSE IF ~Obs(e.len, EndCount(m, e)) THEN "count_exact"
         ELSE IF (e.resolves \cap ({x \in Items : m.st[x] = "gone"} \cup Gone(m, e))) # {} THEN "no_stale_id"
         ELSE ""
    [] e.a = "len" -> IF ~Obs(e.len, m.count) THEN "count_exact" ELSE ""
    [] e.a = "drop" ->
         IF e.on_audio THEN "dropped_on_caller_thread"
         \* (a resource that is due for removal may already have been released by the running callback)
         ELSE IF m.st[e.item] \in Alive /\ ~(m.incb /\ m.st[e.item] = "live" /\ m.mk[e.item]) THEN "destroyed_while_alive"
         ELSE ""
    [] e.a = "panic" -> "no_panic"
    [] e.a = "hang" -> "returns_promptly"
    [] OTHER -> ""

Upd(m, e) ==
  CASE e.a = "reserve" -> IF e.ok THEN [m EXCEPT !.st[e.item] = "reserved", !.count = @ + 1]
                                  ELSE [m EXCEPT !.st[e.item] = "failed"]
    [] e.a = "create"  -> IF e.ok THEN [m EXCEPT !.st[e.item] = "queued", !.count = @ + 1]
                                  ELSE [m EXCEPT !.st[e.item] = "failed"]
    [] e.a = "push" -> [m EXCEPT !.st[e.item] = "queued"]
    [] e.a = "mark" -> [m EXCEPT !.mk[e.item] = TRUE]
    [] e.a = "cb_begin" ->
         [m EXCEPT !.incb = TRUE, !.nfreed = 0,
                   !.mustGo = {x \in Items : m.st[x] = "live" /\ m.mk[x]},
                   !.mustLive = {x \in Items : m.st[x] = "queued"}]
    [] e.a = "free" -> [m EXCEPT !.count = @ - 1, !.nfreed = @ + 1]
    [] e.a = "cb_end" ->
         [m EXCEPT !.incb = FALSE, !.count = EndCount(m, e),
                   !.st = [x \in Items |->
                             IF x \in Present(m, e) THEN "live"
                             ELSE IF x \in Gone(m, e) THEN "gone" ELSE m.st[x]]]
    [] OTHER -> m
=============================================================================
