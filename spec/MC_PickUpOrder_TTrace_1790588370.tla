---- MODULE MC_PickUpOrder_TTrace_1790588370 ----
EXTENDS Sequences, TLCExt, Toolbox, Naturals, TLC, MC_PickUpOrder

_expression ==
    LET MC_PickUpOrder_TEExpression == INSTANCE MC_PickUpOrder_TEExpression
    IN MC_PickUpOrder_TEExpression!expression
----

_trace ==
    LET MC_PickUpOrder_TETrace == INSTANCE MC_PickUpOrder_TETrace
    IN MC_PickUpOrder_TETrace!trace
----

_inv ==
    ~(
        TLCGet("level") = Len(_TETrace)
        /\
        ring = ([mixer |-> <<>>, clocks |-> <<>>, listeners |-> <<>>, modulators |-> <<1>>])
        /\
        apc = (4)
        /\
        built = (1)
        /\
        arena = ([mixer |-> {1}, clocks |-> {}, listeners |-> {}, modulators |-> {}])
        /\
        gpc = (<<"idle">>)
        /\
        edgeOf = (<<<<"mixer", "modulators">>>>)
        /\
        cb = (0)
    )
----

_init ==
    /\ cb = _TETrace[1].cb
    /\ ring = _TETrace[1].ring
    /\ apc = _TETrace[1].apc
    /\ arena = _TETrace[1].arena
    /\ built = _TETrace[1].built
    /\ edgeOf = _TETrace[1].edgeOf
    /\ gpc = _TETrace[1].gpc
----

_next ==
    /\ \E i,j \in DOMAIN _TETrace:
        /\ \/ /\ j = i + 1
              /\ i = TLCGet("level")
        /\ cb  = _TETrace[i].cb
        /\ cb' = _TETrace[j].cb
        /\ ring  = _TETrace[i].ring
        /\ ring' = _TETrace[j].ring
        /\ apc  = _TETrace[i].apc
        /\ apc' = _TETrace[j].apc
        /\ arena  = _TETrace[i].arena
        /\ arena' = _TETrace[j].arena
        /\ built  = _TETrace[i].built
        /\ built' = _TETrace[j].built
        /\ edgeOf  = _TETrace[i].edgeOf
        /\ edgeOf' = _TETrace[j].edgeOf
        /\ gpc  = _TETrace[i].gpc
        /\ gpc' = _TETrace[j].gpc

\* Uncomment the ASSUME below to write the states of the error trace
\* to the given file in Json format. Note that you can pass any tuple
\* to `JsonSerialize`. For example, a sub-sequence of _TETrace.
    \* ASSUME
    \*     LET J == INSTANCE Json
    \*         IN J!JsonSerialize("MC_PickUpOrder_TTrace_1790588370.json", _TETrace)

=============================================================================

 Note that you can extract this module `MC_PickUpOrder_TEExpression`
  to a dedicated file to reuse `expression` (the module in the 
  dedicated `MC_PickUpOrder_TEExpression.tla` file takes precedence 
  over the module `MC_PickUpOrder_TEExpression` below).

---- MODULE MC_PickUpOrder_TEExpression ----
EXTENDS Sequences, TLCExt, Toolbox, Naturals, TLC, MC_PickUpOrder

expression == 
    [
        \* To hide variables of the `MC_PickUpOrder` spec from the error trace,
        \* remove the variables below.  The trace will be written in the order
        \* of the fields of this record.
        cb |-> cb
        ,ring |-> ring
        ,apc |-> apc
        ,arena |-> arena
        ,built |-> built
        ,edgeOf |-> edgeOf
        ,gpc |-> gpc
        
        \* Put additional constant-, state-, and action-level expressions here:
        \* ,_stateNumber |-> _TEPosition
        \* ,_cbUnchanged |-> cb = cb'
        
        \* Format the `cb` variable as Json value.
        \* ,_cbJson |->
        \*     LET J == INSTANCE Json
        \*     IN J!ToJson(cb)
        
        \* Lastly, you may build expressions over arbitrary sets of states by
        \* leveraging the _TETrace operator.  For example, this is how to
        \* count the number of times a spec variable changed up to the current
        \* state in the trace.
        \* ,_cbModCount |->
        \*     LET F[s \in DOMAIN _TETrace] ==
        \*         IF s = 1 THEN 0
        \*         ELSE IF _TETrace[s].cb # _TETrace[s-1].cb
        \*             THEN 1 + F[s-1] ELSE F[s-1]
        \*     IN F[_TEPosition - 1]
    ]

=============================================================================



Parsing and semantic processing can take forever if the trace below is long.
 In this case, it is advised to uncomment the module below to deserialize the
 trace from a generated binary file.

\*
\*---- MODULE MC_PickUpOrder_TETrace ----
\*EXTENDS IOUtils, TLC, MC_PickUpOrder
\*
\*trace == IODeserialize("MC_PickUpOrder_TTrace_1790588370.bin", TRUE)
\*
\*=============================================================================
\*

---- MODULE MC_PickUpOrder_TETrace ----
EXTENDS TLC, MC_PickUpOrder

trace == 
    <<
    ([ring |-> [mixer |-> <<>>, clocks |-> <<>>, listeners |-> <<>>, modulators |-> <<>>],apc |-> 0,built |-> 0,arena |-> [mixer |-> {}, clocks |-> {}, listeners |-> {}, modulators |-> {}],gpc |-> <<"idle">>,edgeOf |-> <<>>,cb |-> 0]),
    ([ring |-> [mixer |-> <<>>, clocks |-> <<>>, listeners |-> <<>>, modulators |-> <<>>],apc |-> 1,built |-> 0,arena |-> [mixer |-> {}, clocks |-> {}, listeners |-> {}, modulators |-> {}],gpc |-> <<"idle">>,edgeOf |-> <<>>,cb |-> 0]),
    ([ring |-> [mixer |-> <<>>, clocks |-> <<>>, listeners |-> <<>>, modulators |-> <<1>>],apc |-> 1,built |-> 0,arena |-> [mixer |-> {}, clocks |-> {}, listeners |-> {}, modulators |-> {}],gpc |-> <<"depPushed", 1>>,edgeOf |-> <<<<"mixer", "modulators">>>>,cb |-> 0]),
    ([ring |-> [mixer |-> <<>>, clocks |-> <<>>, listeners |-> <<>>, modulators |-> <<1>>],apc |-> 2,built |-> 0,arena |-> [mixer |-> {}, clocks |-> {}, listeners |-> {}, modulators |-> {}],gpc |-> <<"depPushed", 1>>,edgeOf |-> <<<<"mixer", "modulators">>>>,cb |-> 0]),
    ([ring |-> [mixer |-> <<>>, clocks |-> <<>>, listeners |-> <<>>, modulators |-> <<1>>],apc |-> 3,built |-> 0,arena |-> [mixer |-> {}, clocks |-> {}, listeners |-> {}, modulators |-> {}],gpc |-> <<"depPushed", 1>>,edgeOf |-> <<<<"mixer", "modulators">>>>,cb |-> 0]),
    ([ring |-> [mixer |-> <<1>>, clocks |-> <<>>, listeners |-> <<>>, modulators |-> <<1>>],apc |-> 3,built |-> 1,arena |-> [mixer |-> {}, clocks |-> {}, listeners |-> {}, modulators |-> {}],gpc |-> <<"idle">>,edgeOf |-> <<<<"mixer", "modulators">>>>,cb |-> 0]),
    ([ring |-> [mixer |-> <<>>, clocks |-> <<>>, listeners |-> <<>>, modulators |-> <<1>>],apc |-> 4,built |-> 1,arena |-> [mixer |-> {1}, clocks |-> {}, listeners |-> {}, modulators |-> {}],gpc |-> <<"idle">>,edgeOf |-> <<<<"mixer", "modulators">>>>,cb |-> 0])
    >>
----


=============================================================================

---- CONFIG MC_PickUpOrder_TTrace_1790588370 ----
CONSTANTS
    Order <- OrderReversed
    Edges <- EdgesCode
    NPairs = 2
    MaxCb = 2

INVARIANT
    _inv

CHECK_DEADLOCK
    \* CHECK_DEADLOCK off because of PROPERTY or INVARIANT above.
    FALSE

INIT
    _init

NEXT
    _next

CONSTANT
    _TETrace <- _trace

ALIAS
    _expression
=============================================================================
\* Generated on Mon Sep 28 09:39:31 UTC 2026