SPECIFICATION FairSpec
CONSTANTS
  R = 3
  Len0 = 5
  Pk = 2
  FailAt = 3
  NF = 2
  MaxCb = 5
  Replayable = FALSE
VIEW View
INVARIANTS PropertyHolds RingBounded
PROPERTY ThreadEndsHard
CHECK_DEADLOCK FALSE
