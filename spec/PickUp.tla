------------------------------- MODULE PickUp -------------------------------
(* How new tracks reach the mixer (crates/kira/src/backend/resources/mixer.rs *)
(* Mixer::on_start_processing, resources.rs remove_and_add): the gameplay     *)
(* thread pushes a new resource into the ring of its storage; at the start of *)
(* a callback the audio thread drains the ring of the sub-track storage, then *)
(* the ring of the send-track storage (yield point sto.refill before each     *)
(* drain), then renders.  A track can only be built with a route to a send    *)
(* track that already exists, so the gameplay thread pushes the send track    *)
(* first.  Checked: whenever a track is rendered, the send tracks its routes  *)
(* name are rendered with it (otherwise that part of the documented sum is    *)
(* missing for a callback - C02).  The order of the two drains matters: with  *)
(* SubFirst = FALSE (send tracks drained first) the property fails; that      *)
(* counterexample is the schedule of the C02 check's "racy add" session.      *)
EXTENDS Integers, Sequences, FiniteSets, TLC

CONSTANTS NPairs,      \* pairs (send track i, track i routed to it) the gameplay thread may build
          MaxCb,
          SubFirst     \* TRUE: the code (sub-track ring drained before the send-track ring)

VARIABLES subRing, sendRing,        \* sequences of pair numbers waiting in the two rings
          subArena, sendArena,      \* sets of pair numbers in the arenas
          gpc,                      \* gameplay: <<"idle">> | <<"sendPushed", i>>  (send track i pushed, its track not yet)
          built,                    \* pairs built so far
          apc, cb                   \* audio: "idle" | "d1" (first drain done) | "d2" (both done, rendering next)

vars == <<subRing, sendRing, subArena, sendArena, gpc, built, apc, cb>>

Init == /\ subRing = <<>> /\ sendRing = <<>> /\ subArena = {} /\ sendArena = {}
        /\ gpc = <<"idle">> /\ built = 0 /\ apc = "idle" /\ cb = 0

\* ---- gameplay thread: add_send_track, then add_sub_track(.. with_send(send) ..)
PushSend == /\ gpc = <<"idle">> /\ built < NPairs
            /\ sendRing' = Append(sendRing, built + 1) /\ gpc' = <<"sendPushed", built + 1>>
            /\ UNCHANGED <<subRing, subArena, sendArena, built, apc, cb>>
PushTrack == /\ gpc[1] = "sendPushed"
             /\ subRing' = Append(subRing, gpc[2]) /\ gpc' = <<"idle">> /\ built' = built + 1
             /\ UNCHANGED <<sendRing, subArena, sendArena, apc, cb>>

\* ---- audio thread
Range(s) == {s[i] : i \in DOMAIN s}
DrainSub == subArena' = subArena \cup Range(subRing) /\ subRing' = <<>> /\ UNCHANGED <<sendRing, sendArena>>
DrainSend == sendArena' = sendArena \cup Range(sendRing) /\ sendRing' = <<>> /\ UNCHANGED <<subRing, subArena>>
Drain1 == /\ apc = "idle" /\ cb < MaxCb /\ apc' = "d1"
          /\ IF SubFirst THEN DrainSub ELSE DrainSend
          /\ UNCHANGED <<gpc, built, cb>>
Drain2 == /\ apc = "d1" /\ apc' = "d2"
          /\ IF SubFirst THEN DrainSend ELSE DrainSub
          /\ UNCHANGED <<gpc, built, cb>>
Render == /\ apc = "d2" /\ apc' = "idle" /\ cb' = cb + 1
          /\ UNCHANGED <<subRing, sendRing, subArena, sendArena, gpc, built>>

Next == PushSend \/ PushTrack \/ Drain1 \/ Drain2 \/ Render
Spec == Init /\ [][Next]_vars

\* when the callback renders, every track in the arena finds the send track its route names
RoutesComplete == apc = "d2" => subArena \subseteq sendArena
TypeOK == subArena \subseteq 1..NPairs /\ sendArena \subseteq 1..NPairs
W_BuiltDuringDrains == ~(apc = "d1" /\ gpc[1] = "sendPushed")
=============================================================================
