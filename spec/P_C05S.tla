------------------------------- MODULE P_C05S -------------------------------
(* Property-level monitor for "anything scheduled for a clock time - a      *)
(* sound start, a tween start, a resume - begins in the internal buffer     *)
(* during which the clock reaches that time - at most one buffer early,     *)
(* never late" (C05), for every kind of thing that takes a start time.      *)
(*                                                                          *)
(* Session: a clock that ticks once per buffer is started; one thing of     *)
(* kind `what` is scheduled for its tick w (w >= 1): the clock reaches the  *)
(* tick during buffer w.  Events                                            *)
(*   cb begun      one callback of one buffer; begun = the thing is under   *)
(*                 way in this buffer (the sound is heard, the resumed      *)
(*                 sound has left WaitingToResume, the tweened value has    *)
(*                 left its old value, the other clock runs faster)         *)
EXTENDS Integers, Sequences

\* paused variant (c.paused): the clock is started, runs c.w + 1 buffers and is paused; only then is the thing scheduled for
\* tick w, which the clock has already reached; cb events carry tk = the clock was ticking during that buffer.  Nothing
\* begins while the clock is paused; it begins in the first buffer after the clock was started again.
PInit(c) == [what |-> c.what, w |-> c.w, k |-> 0, begun |-> FALSE, paused |-> c.paused, ran |-> 0]

Check(m, e) ==
  CASE e.a = "cb" ->
         LET k == m.k + 1 IN
         IF m.paused THEN (IF e.begun /\ ~e.tk /\ ~m.begun THEN "nothing_begins_while_the_clock_is_paused"
                           ELSE IF e.tk /\ m.ran >= 1 /\ ~e.begun THEN "scheduled_thing_not_late"
                           ELSE "")
         ELSE IF e.begun /\ k < m.w - 1 THEN "scheduled_thing_not_early"
         ELSE IF ~e.begun /\ k >= m.w THEN "scheduled_thing_not_late"
         ELSE ""
    \* a session of the "pickup" family (PickUpOrder.tla): clock and sound were created while the audio thread was between two
    \* drains of its rings of new resources; five callbacks later the sound must have begun and must not have been cancelled
    [] e.a = "pk" -> IF e.stopped \/ ~e.heard THEN "scheduled_sound_survives_its_pick_up" ELSE ""
    [] e.a = "panic" -> "no_panic"
    [] OTHER -> ""

Upd(m, e) == IF e.a = "cb" THEN [m EXCEPT !.k = @ + 1, !.begun = @ \/ e.begun,
                                          !.ran = IF m.paused /\ e.tk THEN @ + 1 ELSE @] ELSE m
=============================================================================
