------------------------------- MODULE P_C05S -------------------------------
(* Property-level monitor for "anything scheduled for a clock time - a      *)
(* sound start, a tween start, a resume - begins in the internal buffer     *)
(* during which the clock reaches that time - at most one buffer early,     *)
(* never late" (C05), for every kind of thing that takes a start time.      *)
(*                                                                          *)
(* Session: a clock that ticks once per buffer is started; one thing of     *)
(* kind `what` is scheduled for its tick w (w >= 1): the clock reaches the  *)
(* tick during buffer w.  Events                                            *)
(*   cb begun      one callback of one buffer; begun = the thing is under   *)
(*                 way in this buffer (the sound is heard, the resumed      *)
(*                 sound has left WaitingToResume, the tweened value has    *)
(*                 left its old value, the other clock runs faster)         *)
EXTENDS Integers, Sequences

PInit(c) == [what |-> c.what, w |-> c.w, k |-> 0, begun |-> FALSE]

Check(m, e) ==
  CASE e.a = "cb" ->
         LET k == m.k + 1 IN
         IF e.begun /\ k < m.w - 1 THEN "scheduled_thing_not_early"
         ELSE IF ~e.begun /\ k >= m.w THEN "scheduled_thing_not_late"
         ELSE ""
    \* a session of the "pickup" family (PickUpOrder.tla): clock and sound were created while the audio thread was between two
    \* drains of its rings of new resources; five callbacks later the sound must have begun and must not have been cancelled
    [] e.a = "pk" -> IF e.stopped \/ ~e.heard THEN "scheduled_sound_survives_its_pick_up" ELSE ""
    [] e.a = "panic" -> "no_panic"
    [] OTHER -> ""

Upd(m, e) == IF e.a = "cb" THEN [m EXCEPT !.k = @ + 1, !.begun = @ \/ e.begun] ELSE m
=============================================================================
