------------------------------- MODULE Render -------------------------------
(* Implementation-level model of modulators inside the renderer             *)
(*   crates/kira/src/backend/renderer.rs      on_start_processing, process, *)
(*                                            process_chunk                 *)
(*   crates/kira/src/backend/resources/modulators.rs  Modulators::process,  *)
(*       on_start_processing; backend/resources.rs SelfReferentialResource- *)
(*       Storage (keys vector, remove_and_add, for_each with the dummy swap)*)
(*   crates/kira/src/modulator/tweener.rs, modulator/lfo.rs                 *)
(*   crates/kira/src/value.rs (Value::raw_value, Mapping::map),             *)
(*   parameter.rs (update, calculate_new_raw_value), info.rs                *)
(*       (modulator_value: generational key look-up)                        *)
(*                                                                          *)
(* Time is counted in frames (8 per second); values are integers (the real  *)
(* value times S); LFO phases are fractions of a period times S.            *)
(* The gameplay side is sequential with the audio side (the callback is one *)
(* uninterrupted stretch: commands, drop flags and new resources are only   *)
(* looked at in on_start_processing).  One callback =                       *)
(*   CbBegin  on_start_processing: remove finished modulators (slot freed,  *)
(*            generation bumped), insert new ones at the end of `keys`,     *)
(*            every modulator reads its commands; owners of linked          *)
(*            parameters created since the last callback are picked up      *)
(*   then per internal chunk of n = min(B, frames left) frames              *)
(*   ChunkModulators  for key in keys: swap the modulator with the dummy,   *)
(*            update it (it sees earlier modulators' new values, later      *)
(*            modulators' old values and the dummy - value 0 - for itself)  *)
(*   ChunkClocks      every clock updates its speed parameter               *)
(*   ChunkListeners   (nothing linked to modulators is modelled here)       *)
(*   ChunkMixer       tracks, sounds and effects update their parameters;   *)
(*                    emits the `chunk` event with the order log            *)
(* Every action emits an event `ev`; the property-level monitor of P_C17 is *)
(* run in lock step (variables `mon`, `bad`).                               *)
EXTENDS Integers, Sequences, FiniteSets, TLC, P_C17

CONSTANTS S,          \* value scale: real value 1.0 = S
          NS,         \* modulator capacity (slots)
          B,          \* internal buffer size
          Fs,         \* callback sizes
          MaxCb, MaxOps, Gap,   \* bounds: callbacks, gameplay calls, gameplay calls between two callbacks
          Kinds,      \* modulator kinds offered to Add
          ProbeSrc,   \* TRUE: probe modulators may read an earlier modulator
          TwInits, TwSets,      \* tweener initial values (units of S); arguments of TweenerHandle::set
          Waves, Ph0s, Freqs,   \* LFO waveforms, starting phases (fractions of S), fixed frequencies (units of S/4)
          LfoRoles,   \* which LFO parameters may be linked at creation: subset of {"fr", "am", "of"}
          Maps,       \* mappings [i0, i1, o0, o1, e, p] in units of S
          Owners,     \* owners of linked parameters: subset of {"mix", "clock"}
          AllowSelf,  \* TRUE: a modulator may be linked to itself (it then reads the dummy)
          AllowLate   \* TRUE: a modulator may be re-linked to a modulator created after it

VARIABLES slotm, gen, flist, keys, newQ,          \* arena contents / generations, controller free list, keys vector, new-resource ring
          key, where, dropped, mcfg,              \* per modulator: id handed out, life cycle, handle dropped, configuration
          val, tws, pend, lph, lraw,              \* Modulator::value(); tweener state; pending set; LFO phase; LFO parameter values
          pst, pcfg, praw,                        \* linked parameters of the mixer / of clocks
          pc, left, n, log, full,                 \* audio side: phase of process_chunk, frames left, chunk length, order logs
          ncb, nops, gap, inexact,
          ev, mon, bad

ivars == <<slotm, gen, flist, keys, newQ, key, where, dropped, mcfg, val, tws, pend, lph, lraw,
           pst, pcfg, praw, pc, left, n, log, full, ncb, nops, gap, inexact>>
vars  == <<ivars, ev, mon, bad>>

Slots == 1..NS
NoKey == <<0, 0>>
Tau   == [a |-> "tau"]
Max(a, b) == IF a > b THEN a ELSE b
Pow(b, p) == IF p = 1 THEN b ELSE IF p = 2 THEN b * b ELSE b * b * b

NoCfg == [kind |-> "none", v0 |-> 0, step |-> 0, src |-> 0, wave |-> "saw", width |-> 0, ph0 |-> 0,
          fr |-> NoVS, am |-> NoVS, of |-> NoVS]
IdleTw == [st |-> "Idle", from |-> 0, tgt |-> 0, time |-> 0, dur |-> 0, ek |-> "lin", p |-> 1, sk |-> "imm", delay |-> 0]
NoPend == [has |-> FALSE, tgt |-> 0, dur |-> 0, ease |-> "lin", p |-> 1, sk |-> "imm", delay |-> 0, ctgt |-> 0]
Fix(v) == [NoVS EXCEPT !.v = v]
Lnk(m, mp) == [k |-> "mod", v |-> 0, m |-> m, i0 |-> mp.i0 * S, i1 |-> mp.i1 * S, o0 |-> mp.o0 * S, o1 |-> mp.o1 * S,
               e |-> mp.e, p |-> mp.p]

Init ==
  /\ slotm = [i \in Slots |-> 0] /\ gen = [i \in Slots |-> 0] /\ flist = [i \in 1..NS |-> i]
  /\ keys = <<>> /\ newQ = <<>>
  /\ key = [m \in Mods |-> NoKey] /\ where = [m \in Mods |-> "fresh"] /\ dropped = [m \in Mods |-> FALSE]
  /\ mcfg = [m \in Mods |-> NoCfg]
  /\ val = [m \in Mods |-> 0] /\ tws = [m \in Mods |-> IdleTw] /\ pend = [m \in Mods |-> NoPend]
  /\ lph = [m \in Mods |-> 0] /\ lraw = [m \in Mods |-> [fr |-> 0, am |-> 0, of |-> 0]]
  /\ pst = [q \in Params |-> "none"] /\ pcfg = [q \in Params |-> [own |-> "none", vs |-> NoVS]]
  /\ praw = [q \in Params |-> 0]
  /\ pc = "idle" /\ left = 0 /\ n = 0 /\ log = <<>> /\ full = <<>>
  /\ ncb = 0 /\ nops = 0 /\ gap = 0 /\ inexact = FALSE
  /\ ev = Tau /\ mon = PInit(B, S, 0) /\ bad = ""

\* ---------------------------------------------------------------- info.rs / value.rs / tween.rs
\* Info::modulator_value(id) as seen by `self` (0 = somebody outside the modulators' loop), given the values `vals`
Look(k, self, vals) ==
  IF k = NoKey \/ gen[k[1]] # k[2] \/ slotm[k[1]] = 0 THEN [ok |-> FALSE, v |-> 0]     \* Arena::get: generation check
  ELSE IF slotm[k[1]] = self THEN [ok |-> TRUE, v |-> 0]                               \* the dummy swapped in by for_each
  ELSE [ok |-> TRUE, v |-> vals[slotm[k[1]]]]

\* Mapping::map: amount = (input - in0) / (in1 - in0); clamp(0, 1); easing.apply; interpolate(out0, out1, amount)
MapCode(vs, x) ==
  LET num == x - vs.i0  den == vs.i1 - vs.i0
      sn == IF den < 0 THEN -num ELSE num
      sd == IF den < 0 THEN -den ELSE den
      cn == IF sn < 0 THEN 0 ELSE IF sn > sd THEN sd ELSE sn
      g == Gcd(sd, cn)                                          \* the fraction in lowest terms
      rn == cn \div g  rd == sd \div g
      fits == rd <= (CASE vs.p = 1 -> 32768 [] vs.p = 2 -> 256 [] OTHER -> 32)   \* 32-bit arithmetic
      pn == Pow(rn, vs.p)  pd == Pow(rd, vs.p)
  IN IF fits THEN [v |-> vs.o0 + ((vs.o1 - vs.o0) * pn) \div pd, ok |-> ((vs.o1 - vs.o0) * pn) % pd = 0]
     ELSE [v |-> vs.o0, ok |-> FALSE]                           \* (finer than the grid: not generated)

\* Parameter::update of an idle parameter holding `vs`: Value::raw_value(info) or None (keep the raw value)
ParamNew(vs, raw, self, vals) ==
  IF vs.k = "fix" THEN [v |-> vs.v, ok |-> TRUE]
  ELSE LET l == Look(key[vs.m], self, vals) IN
       IF l.ok THEN MapCode(vs, l.v) ELSE [v |-> raw, ok |-> TRUE]

\* Easing::apply(t / d) as an exact fraction; Tweenable::interpolate
EaseApply(k, p, t, d) ==
  CASE k = "lin"   -> <<t, d>>
    [] k = "in"    -> <<Pow(t, p), Pow(d, p)>>
    [] k = "out"   -> <<Pow(d, p) - Pow(d - t, p), Pow(d, p)>>
    [] k = "inout" -> IF 2 * t < d THEN <<Pow(2 * t, p), 2 * Pow(d, p)>>
                      ELSE <<2 * Pow(d, p) - Pow(2 * d - 2 * t, p), 2 * Pow(d, p)>>
Interp(a, b, q) == a + ((b - a) * q[1]) \div q[2]
InterpExact(a, b, q) == ((b - a) * q[1]) % q[2] = 0
ExactOK(from, tgt, d, k, p) == \A t \in 1..(d - 1) : InterpExact(from, tgt, EaseApply(k, p, t, d))

\* Waveform::value
WaveCode(w, width, ph) ==
  CASE w = "saw"   -> ((ph + S \div 2) % S) * 2 - S                         \* (phase + 0.5).fract() * 2 - 1
    [] w = "tri"   -> Abs(((ph + (3 * S) \div 4) % S) - S \div 2) * 4 - S   \* ((phase + 0.75).fract() - 0.5).abs() * 4 - 1
    [] w = "pulse" -> IF ph < width THEN S ELSE -S
    [] w = "sine"  -> CASE ph % S = 0 -> 0 [] ph = S \div 4 -> S [] ph = S \div 2 -> 0 [] ph = 3 * (S \div 4) -> -S
                        [] OTHER -> 0     \* (numeric; only the cardinal points are generated)

\* ---------------------------------------------------------------- Modulator::update
\* s = [val, tws, lph, lraw, log, full, inexact] threaded through the for_each loop
UEntry(m, v)       == [k |-> "U", rk |-> "m", x |-> m, m |-> m, ok |-> TRUE, v |-> v, d |-> n]
REntry(rk, x, m, l) == [k |-> "R", rk |-> rk, x |-> x, m |-> m, ok |-> l.ok, v |-> l.v, d |-> 0]

UpdProbe(m, s) ==
  LET c == mcfg[m]
      l == Look(key[c.src], m, s.val)
      v == s.val[m] + c.step
  IN [s EXCEPT !.val[m] = v,
               !.log = (IF c.src # 0 THEN Append(@, REntry("m", m, c.src, l)) ELSE @) \o <<UEntry(m, v)>>]

UpdTweener(m, s) ==
  LET t == s.tws[m] IN
  IF t.st = "Idle" THEN s
  ELSE LET started == t.sk = "imm" \/ (t.sk = "del" /\ t.delay = 0)          \* if time_remaining.is_zero() { true }
           dl == IF t.sk = "del" /\ t.delay # 0 THEN Max(0, t.delay - n) ELSE t.delay   \* else { saturating_sub(dt); false }
       IN IF ~started THEN [s EXCEPT !.tws[m].delay = dl]
          ELSE LET t2 == t.time + n IN                                       \* *time += dt
               IF t2 >= t.dur                                                \* if *time >= duration { value = target; Idle }
               THEN [s EXCEPT !.val[m] = t.tgt, !.tws[m] = [t EXCEPT !.st = "Idle", !.sk = "imm", !.time = t2]]
               ELSE [s EXCEPT !.val[m] = Interp(t.from, t.tgt, EaseApply(t.ek, t.p, t2, t.dur)),
                              !.tws[m] = [t EXCEPT !.sk = "imm", !.time = t2],
                              !.inexact = @ \/ ~InterpExact(t.from, t.tgt, EaseApply(t.ek, t.p, t2, t.dur))]

UpdLfo(m, s) ==
  LET c == mcfg[m]
      fr == ParamNew(c.fr, s.lraw[m].fr, m, s.val)            \* self.frequency.update(dt, info) ...
      am == ParamNew(c.am, s.lraw[m].am, m, s.val)
      of == ParamNew(c.of, s.lraw[m].of, m, s.val)
      adv == n * fr.v                                           \* self.phase += dt * self.frequency.value()
      ph == (s.lph[m] + adv \div 8) % S                         \* self.phase %= 1.0
      w == WaveCode(c.wave, c.width, ph)
  IN [s EXCEPT !.lraw[m] = [fr |-> fr.v, am |-> am.v, of |-> of.v],
               !.lph[m] = ph,
               !.val[m] = of.v + (am.v * w) \div S,           \* offset + amplitude * waveform.value(phase)
               !.inexact = @ \/ ~fr.ok \/ ~am.ok \/ ~of.ok \/ adv % 8 # 0 \/ fr.v < 0 \/ (am.v * w) % S # 0
                             \/ (c.wave = "sine" /\ ph % (S \div 4) # 0)]

UpdOne(m, s) ==
  LET s1 == [s EXCEPT !.full = Append(@, m)] IN
  CASE mcfg[m].kind = "probe" -> UpdProbe(m, s1)
    [] mcfg[m].kind = "tw"    -> UpdTweener(m, s1)
    [] mcfg[m].kind = "lfo"   -> UpdLfo(m, s1)

RECURSIVE ModLoop(_, _)
ModLoop(i, s) == IF i > Len(keys) THEN s ELSE ModLoop(i + 1, UpdOne(slotm[keys[i]], s))

\* ---------------------------------------------------------------- gameplay side
Idle == pc = "idle" /\ nops < MaxOps /\ gap < Gap
Op == nops' = nops + 1 /\ gap' = gap + 1
HasKey(x) == key[x] # NoKey
Earlier(m) == {x \in Mods : x < m /\ HasKey(x)}

ProbeCfgs(m) == {[NoCfg EXCEPT !.kind = "probe", !.step = S \div 2, !.src = s] :
                   s \in {0} \cup (IF ProbeSrc THEN Earlier(m) ELSE {}) \cup (IF AllowSelf /\ ProbeSrc THEN {m} ELSE {})}
TwCfgs == {[NoCfg EXCEPT !.kind = "tw", !.v0 = v * S] : v \in TwInits}
LfoBase == {[NoCfg EXCEPT !.kind = "lfo", !.wave = w, !.width = S \div 2, !.ph0 = ph, !.fr = Fix(f * (S \div 4)),
                          !.am = Fix(S), !.of = Fix(0)] : w \in Waves, ph \in Ph0s, f \in Freqs}
LfoCfgs(m) == LfoBase \cup {[c EXCEPT ![r] = Lnk(x, mp)] : c \in LfoBase, r \in LfoRoles, x \in Earlier(m), mp \in Maps}
AddCfgs(m) == (IF "probe" \in Kinds THEN ProbeCfgs(m) ELSE {}) \cup (IF "tw" \in Kinds THEN TwCfgs ELSE {})
              \cup (IF "lfo" \in Kinds THEN LfoCfgs(m) ELSE {})

\* AudioManager::add_modulator: try_reserve, build(id), push to the new-resource ring
Add(m, c) ==
  /\ Idle /\ Op /\ where[m] = "fresh"
  /\ \A y \in Mods : y < m => where[y] # "fresh"                 \* symmetry: ids are used in order
  /\ IF flist = <<>>
     THEN /\ where' = [where EXCEPT ![m] = "failed"]
          /\ ev' = c @@ [a |-> "add", m |-> m, ok |-> FALSE]
          /\ UNCHANGED <<flist, key, newQ, mcfg, val, lph, lraw>>
     ELSE LET i == Head(flist) IN
          /\ flist' = Tail(flist)
          /\ key' = [key EXCEPT ![m] = <<i, gen[i]>>]
          /\ newQ' = Append(newQ, m)
          /\ where' = [where EXCEPT ![m] = "queued"]
          /\ mcfg' = [mcfg EXCEPT ![m] = c]
          /\ val' = [val EXCEPT ![m] = IF c.kind = "lfo" THEN 0 ELSE c.v0]           \* Lfo::new: value 0.0
          /\ lph' = [lph EXCEPT ![m] = c.ph0]
          \* Parameter::new: a fixed value, or the default until the first update (2 Hz, amplitude 1, offset 0)
          /\ lraw' = [lraw EXCEPT ![m] = [fr |-> IF c.fr.k = "fix" THEN c.fr.v ELSE 2 * S,
                                          am |-> IF c.am.k = "fix" THEN c.am.v ELSE S,
                                          of |-> IF c.of.k = "fix" THEN c.of.v ELSE 0]]
          /\ ev' = c @@ [a |-> "add", m |-> m, ok |-> TRUE]
  /\ UNCHANGED <<slotm, gen, keys, dropped, tws, pend, pst, pcfg, praw, pc, left, n, log, full, ncb, inexact>>

\* TweenerHandle / LfoHandle dropped: shared.removed = true
Drop(m) ==
  /\ Idle /\ Op /\ where[m] \in {"queued", "arena"} /\ ~dropped[m]
  /\ dropped' = [dropped EXCEPT ![m] = TRUE]
  /\ ev' = [a |-> "drop", m |-> m]
  /\ UNCHANGED <<slotm, gen, flist, keys, newQ, key, where, mcfg, val, tws, pend, lph, lraw, pst, pcfg, praw,
                 pc, left, n, log, full, ncb, inexact>>

\* TweenerHandle::set: the command is read in the next on_start_processing (the last one written wins)
SetTw(m, a) ==
  /\ Idle /\ Op /\ where[m] \in {"queued", "arena"} /\ ~dropped[m] /\ mcfg[m].kind = "tw"
  /\ pend' = [pend EXCEPT ![m] = [has |-> TRUE, tgt |-> a.tgt * S, dur |-> a.dur, ease |-> a.ek, p |-> a.p,
                                  sk |-> a.sk, delay |-> a.delay, ctgt |-> 0]]
  /\ ev' = [a |-> "set", m |-> m, tgt |-> a.tgt * S, dur |-> a.dur, ease |-> a.ek, p |-> a.p, sk |-> a.sk,
            delay |-> a.delay, ctgt |-> 0]
  /\ UNCHANGED <<slotm, gen, flist, keys, newQ, key, where, dropped, mcfg, val, tws, lph, lraw, pst, pcfg, praw,
                 pc, left, n, log, full, ncb, inexact>>

\* LfoHandle::set_frequency/amplitude/offset(Value::FromModulator.., zero-duration tween); a probe's source cell
\* (Parameter::set: Tweening with duration 0 -> the first update makes it Idle{target} and evaluates the target)
Relink(m, role, vs) ==
  /\ Idle /\ Op /\ where[m] \in {"queued", "arena"} /\ ~dropped[m]
  /\ vs.m # m \/ AllowSelf
  /\ vs.m < m \/ vs.m = m \/ AllowLate
  /\ HasKey(vs.m)
  /\ IF mcfg[m].kind = "lfo" THEN mcfg' = [mcfg EXCEPT ![m] = [@ EXCEPT ![role] = vs]]
     ELSE mcfg[m].kind = "probe" /\ role = "src" /\ mcfg' = [mcfg EXCEPT ![m].src = vs.m]
  /\ ev' = [a |-> "relink", m |-> m, role |-> role, vs |-> vs]
  /\ UNCHANGED <<slotm, gen, flist, keys, newQ, key, where, dropped, val, tws, pend, lph, lraw, pst, pcfg, praw,
                 pc, left, n, log, full, ncb, inexact>>

\* a sound / track / effect (own = "mix") or a clock with a parameter linked to modulator x is created;
\* Parameter::new(Value::FromModulator, default): the raw value is the default until the first update
Link(q, own, x, mp) ==
  /\ Idle /\ Op /\ pst[q] = "none" /\ HasKey(x)
  /\ \A y \in Params : y < q => pst[y] # "none"
  /\ pst' = [pst EXCEPT ![q] = "queued"]
  /\ pcfg' = [pcfg EXCEPT ![q] = [own |-> own, vs |-> Lnk(x, mp)]]
  /\ praw' = [praw EXCEPT ![q] = 0]
  /\ ev' = [a |-> "link", p |-> q, own |-> own, vs |-> Lnk(x, mp), dk |-> TRUE, dflt |-> 0]
  /\ UNCHANGED <<slotm, gen, flist, keys, newQ, key, where, dropped, mcfg, val, tws, pend, lph, lraw,
                 pc, left, n, log, full, ncb, inexact>>

\* ---------------------------------------------------------------- audio side
\* Renderer::on_start_processing (mixer, clocks, listeners, then modulators)
CbBegin(f) ==
  /\ pc = "idle" /\ ncb < MaxCb
  /\ LET goneSlots == {i \in Slots : slotm[i] # 0 /\ dropped[slotm[i]]}           \* remove_unused(|m| m.finished())
         goneMods  == {slotm[i] : i \in goneSlots}
         keys1 == SelectSeq(keys, LAMBDA i : i \notin goneSlots)
         RECURSIVE Freed(_, _)
         Freed(i, fl) == IF i > Len(keys) THEN fl                                  \* Controller::free pushes the slot at the head
                         ELSE Freed(i + 1, IF keys[i] \in goneSlots THEN <<keys[i]>> \o fl ELSE fl)
         newSlots == [j \in 1..Len(newQ) |-> key[newQ[j]][1]]
         arena2 == (({slotm[i] : i \in Slots} \ {0}) \ goneMods) \cup {newQ[j] : j \in 1..Len(newQ)}
     IN
     /\ slotm' = [i \in Slots |-> IF \E j \in 1..Len(newQ) : newSlots[j] = i
                                  THEN newQ[CHOOSE j \in 1..Len(newQ) : newSlots[j] = i]   \* insert_with_key
                                  ELSE IF i \in goneSlots THEN 0 ELSE slotm[i]]
     /\ gen' = [i \in Slots |-> IF i \in goneSlots THEN gen[i] + 1 ELSE gen[i]]
     /\ flist' = Freed(1, flist)
     /\ keys' = keys1 \o newSlots                                                  \* self.keys.push(key)
     /\ newQ' = <<>>
     /\ where' = [m \in Mods |-> IF m \in goneMods THEN "gone" ELSE IF where[m] = "queued" THEN "arena" ELSE where[m]]
     \* Tweener::on_start_processing: set(target, tween) starts from the current value
     /\ tws' = [m \in Mods |-> IF m \in arena2 /\ pend[m].has
                               THEN [st |-> "Tw", from |-> val[m], tgt |-> pend[m].tgt, time |-> 0, dur |-> pend[m].dur,
                                     ek |-> pend[m].ease, p |-> pend[m].p, sk |-> pend[m].sk, delay |-> pend[m].delay]
                               ELSE tws[m]]
     /\ pend' = [m \in Mods |-> IF m \in arena2 THEN NoPend ELSE pend[m]]
  /\ pst' = [q \in Params |-> IF pst[q] = "queued" THEN "active" ELSE pst[q]]
  /\ left' = f /\ n' = Min2(B, f) /\ pc' = "mods" /\ log' = <<>> /\ full' = <<>>
  /\ ncb' = ncb + 1 /\ gap' = 0
  /\ ev' = [a |-> "cb", frames |-> f]
  /\ UNCHANGED <<key, dropped, mcfg, val, lph, lraw, pcfg, praw, nops, inexact>>

\* Modulators::process: SelfReferentialResourceStorage::for_each over `keys`
ChunkModulators ==
  /\ pc = "mods"
  /\ LET s == ModLoop(1, [val |-> val, tws |-> tws, lph |-> lph, lraw |-> lraw, log |-> <<>>, full |-> <<>>,
                          inexact |-> inexact]) IN
     /\ val' = s.val /\ tws' = s.tws /\ lph' = s.lph /\ lraw' = s.lraw /\ log' = s.log /\ full' = s.full
     /\ inexact' = s.inexact
  /\ pc' = "clocks" /\ ev' = Tau
  /\ UNCHANGED <<slotm, gen, flist, keys, newQ, key, where, dropped, mcfg, pend, pst, pcfg, praw, left, n, ncb, nops, gap>>

OwnerUpdate(own) ==
  LET act == {q \in Params : pst[q] = "active" /\ pcfg[q].own = own}
      r == [q \in act |-> ParamNew(pcfg[q].vs, praw[q], 0, val)]
  IN /\ praw' = [q \in Params |-> IF q \in act THEN r[q].v ELSE praw[q]]
     /\ inexact' = (inexact \/ \E q \in act : ~r[q].ok)

\* Clocks::update: Clock::update -> self.speed.update(dt, info)
ChunkClocks ==
  /\ pc = "clocks" /\ OwnerUpdate("clock")
  /\ pc' = "listeners" /\ ev' = Tau
  /\ UNCHANGED <<slotm, gen, flist, keys, newQ, key, where, dropped, mcfg, val, tws, pend, lph, lraw, pst, pcfg,
                 left, n, log, full, ncb, nops, gap>>

ChunkListeners ==
  /\ pc = "listeners" /\ pc' = "mixer" /\ ev' = Tau
  /\ UNCHANGED <<slotm, gen, flist, keys, newQ, key, where, dropped, mcfg, val, tws, pend, lph, lraw, pst, pcfg, praw,
                 left, n, log, full, ncb, nops, gap, inexact>>

\* Mixer::process: tracks, sounds and effects update their parameters through Info; the chunk is complete
ChunkMixer ==
  /\ pc = "mixer" /\ OwnerUpdate("mix")
  /\ LET act == {q \in Params : pst[q] = "active" /\ pcfg[q].own = "mix"}
         RECURSIVE Reads(_)
         Reads(q) == IF q > Cardinality(Params) THEN <<>>
                     ELSE (IF q \in act THEN <<REntry("p", q, pcfg[q].vs.m, Look(key[pcfg[q].vs.m], 0, val))>> ELSE <<>>)
                          \o Reads(q + 1)
         lg == log \o Reads(1)
     IN /\ ev' = [a |-> "chunk", n |-> n, log |-> lg,
                  mv |-> [m \in Mods |-> LET l == Look(key[m], 0, val) IN [p |-> l.ok, v |-> l.v]],
                  pv |-> [q \in Params |-> [p |-> pst[q] = "active", v |-> praw'[q]]]]
        /\ log' = lg
  /\ left' = left - n /\ n' = Min2(B, left - n)
  /\ pc' = IF left - n = 0 THEN "idle" ELSE "mods"
  /\ UNCHANGED <<slotm, gen, flist, keys, newQ, key, where, dropped, mcfg, val, tws, pend, lph, lraw, pst, pcfg,
                 full, ncb, nops, gap>>

SetOK(m, a) == ExactOK(val[m], a.tgt * S, a.dur, a.ek, a.p)
INext == \/ \E m \in Mods : \/ \E c \in AddCfgs(m) : Add(m, c)
                            \/ Drop(m)
                            \/ \E a \in TwSets : SetOK(m, a) /\ SetTw(m, a)
                            \/ \E x \in Mods, mp \in Maps :
                                 \/ \E r \in LfoRoles : mcfg[m].kind = "lfo" /\ (AllowLate \/ AllowSelf) /\ Relink(m, r, Lnk(x, mp))
                            \/ \E x \in Mods : mcfg[m].kind = "probe" /\ ProbeSrc /\ (AllowLate \/ AllowSelf) /\ Relink(m, "src", Lnk(x, [i0 |-> 0, i1 |-> 1, o0 |-> 0, o1 |-> 0, e |-> "lin", p |-> 1]))
         \/ \E q \in Params, own \in Owners, x \in Mods, mp \in Maps : Link(q, own, x, mp)
         \/ \E f \in Fs : CbBegin(f)
         \/ ChunkModulators \/ ChunkClocks \/ ChunkListeners \/ ChunkMixer

\* ---------------------------------------------------------------- composition with the P-monitor
Monitor ==
  LET r == Check(mon, ev') IN
  IF bad # "" THEN UNCHANGED <<mon, bad>>
  ELSE IF r # "" THEN bad' = r /\ UNCHANGED mon
  ELSE bad' = "" /\ mon' = Upd(mon, ev')

\* transitions whose arithmetic leaves the integer grid are not generated (the real floats would not be exact)
Next == INext /\ ~inexact' /\ Monitor
Spec == Init /\ [][Next]_vars

\* ---------------------------------------------------------------- checked formulas
PropertyHolds == bad = ""                                  \* every P_C17 clause, on every behaviour
InArena == {slotm[i] : i \in Slots} \ {0}
TypeOK == /\ \A i \in Slots : slotm[i] # 0 => where[slotm[i]] = "arena" /\ key[slotm[i]] = <<i, gen[i]>>
          /\ {keys[j] : j \in 1..Len(keys)} = {i \in Slots : slotm[i] # 0} /\ Len(keys) = Cardinality(InArena)
          /\ \A m \in Mods : where[m] = "arena" <=> m \in InArena
          /\ left >= 0 /\ (pc = "idle" <=> left = 0)
\* process_chunk: every modulator in the arena is updated exactly once, in `keys` order, before clocks and mixer run
OnceInOrder == pc \in {"clocks", "listeners", "mixer"} => full = [j \in 1..Len(keys) |-> slotm[keys[j]]]
\* a stale id never resolves, whoever sits in its slot now
StaleNeverResolves == \A m \in Mods : where[m] \in {"gone", "failed", "fresh", "queued"} => ~Look(key[m], 0, val).ok
\* ids in use are unique
KeysUnique == \A x, y \in Mods : (x # y /\ HasKey(x)) => key[x] # key[y]
\* all arithmetic of the generated behaviours stays on the integer grid (so the real floats are exact)
ExactArith == ~inexact
\* at the end of a chunk a parameter of the mixer whose modulator is there equals the mapping of its value
FollowsInChunk == (ev.a = "chunk") =>
  \A q \in Params : (pst[q] = "active" /\ where[pcfg[q].vs.m] = "arena") => praw[q] = MapCode(pcfg[q].vs, val[pcfg[q].vs.m]).v

\* vacuity witnesses (each must be REACHABLE, i.e. reported violated when checked as an invariant)
W_Reuse   == ~(\E i \in Slots : gen[i] >= 1 /\ slotm[i] # 0)
W_HoldReused == ~(\E q \in Params : pst[q] = "active" /\ ev.a = "chunk" /\ where[pcfg[q].vs.m] = "gone"
                                    /\ slotm[key[pcfg[q].vs.m][1]] # 0 /\ praw[q] # 0)
W_Clamp   == ~(\E q \in Params : pst[q] = "active" /\ ev.a = "chunk" /\ where[pcfg[q].vs.m] = "arena"
                                 /\ LET vs == pcfg[q].vs  x == val[vs.m] IN (x - vs.i0) * (x - vs.i1) > 0)
W_Chain   == ~(\E m \in Mods : mcfg[m].kind = "lfo" /\ where[m] = "arena" /\ ev.a = "chunk"
                               /\ \E r \in {"fr", "am", "of"} : mcfg[m][r].k = "mod" /\ where[mcfg[m][r].m] = "arena")
W_Partial == ~(pc = "mixer" /\ n < B)
W_MidTween == ~(\E m \in Mods : tws[m].st = "Tw" /\ tws[m].time > 0 /\ ev.a = "chunk"
                                /\ \E q \in Params : pst[q] = "active" /\ pcfg[q].vs.m = m)
W_DropQueued == ~(\E m \in Mods : dropped[m] /\ where[m] = "arena" /\ pc = "mixer")
W_Full    == ~(ev.a = "add" /\ ~ev.ok)
=============================================================================
