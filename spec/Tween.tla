------------------------------- MODULE Tween -------------------------------
(* Implementation-level model of kira::Parameter<T>                         *)
(*   crates/kira/src/parameter.rs   (new, set, update, update_tween,        *)
(*                                   calculate_new_raw_value)               *)
(*   crates/kira/src/tween.rs       (Easing::apply, Tween::value)           *)
(*   crates/kira/src/start_time.rs  (StartTime), info.rs (when_to_start)    *)
(*   crates/kira/src/tween/tweenable.rs (interpolate = a + (b - a) * amount)*)
(* modulator/tweener.rs duplicates the same logic.                          *)
(*                                                                          *)
(* Time is integer (1 unit = 1/8 s in the harness).  Values are integers:   *)
(* the real value times S (a power of two); a Set is only generated when    *)
(* every value its tween can produce stays an integer (ExactOK), so that    *)
(* the floating-point computation of the real code is exact as well.        *)
(* Easing amounts are exact rationals <<numerator, denominator>>.           *)
(*                                                                          *)
(* Parameter is single-threaded: `set` and `update` are atomic actions; the *)
(* inside of `update` is written as the code's sequence of steps            *)
(*   prev := raw; stagnant early-out; start test (Immediate | Delayed with  *)
(*   its one-update lag | ClockTime re-evaluated on every update);          *)
(*   time += dt; finish when time >= duration; recompute the raw value.     *)
(* Every action emits an event `ev`; the property-level monitor of P_C06 is *)
(* run in lock step (variables `mon`, `bad`).                               *)
EXTENDS Integers, Sequences, FiniteSets, TLC, P_C06

CONSTANTS S,           \* value scale: real value 1.0 = S
          Grid,        \* start/target values offered to Set, in units of S (e.g. {-2,-1,0,1,2})
          Inits,       \* initial values, in units of S
          Durs,        \* tween durations
          Eases,       \* set of <<kind, power>>, kind in lin | in | out | inout
          Dts,         \* update steps
          Delays,      \* delays of StartTime::Delayed (0 is allowed)
          CTgts,       \* target positions of StartTime::ClockTime (half ticks)
          TickChoices, \* clock states offered to Update: BOOLEAN, or {TRUE} when no clock start is generated
          MaxSets, MaxTime, MaxC,
          ClockMayRegress  \* TRUE: the clock may pause / be reset after a clock-started tween began

VARIABLES st,          \* State: "Idle" | "Tweening"
          start, target, time, dur, ease,     \* State::Tweening fields (target doubles as State::Idle.value)
          sk, delayLeft, ctgt,                \* tween.start_time
          raw, prev, stagnant,
          cpos, ticking,                      \* environment: the clock shown through Info (half ticks)
          nsets, total,                       \* bounds
          ev, mon, bad

ivars == <<st, start, target, time, dur, ease, sk, delayLeft, ctgt, raw, prev, stagnant, cpos, ticking, nsets, total>>
vars  == <<ivars, ev, mon, bad>>

\* ---------------------------------------------------------------- tween.rs
\* Easing::apply(x) for x = t / d as an exact fraction
InPowi(p, n, d) == <<Pow(n, p), Pow(d, p)>>
EaseApply(e, t, d) ==
  LET k == e[1]  p == e[2] IN
  CASE k = "lin"   -> <<t, d>>
    [] k = "in"    -> InPowi(p, t, d)
    [] k = "out"   -> LET i == InPowi(p, d - t, d) IN <<i[2] - i[1], i[2]>>           \* 1 - in(1 - x)
    [] k = "inout" -> IF 2 * t < d                                                     \* x *= 2; x < 1
                      THEN LET i == InPowi(p, 2 * t, d) IN <<i[1], 2 * i[2]>>          \* 0.5 * in(x)
                      ELSE LET i == InPowi(p, 2 * d - 2 * t, d) IN                     \* x = 2 - x
                           <<2 * i[2] - i[1], 2 * i[2]>>                               \* 0.5 * (1 - in(x)) + 0.5
\* Tweenable::interpolate(a, b, amount) = a + (b - a) * amount
Interp(a, b, q) == a + ((b - a) * q[1]) \div q[2]
InterpExact(a, b, q) == ((b - a) * q[1]) % q[2] = 0

\* a tween from `from` to `tgt` stays on the integer grid at every integer time
ExactOK(from, tgt, d, e) == \A t \in 1..(d - 1) : InterpExact(from, tgt, EaseApply(e, t, d))

\* ---------------------------------------------------------------- Parameter::new
Init ==
  /\ \E v \in Inits : raw = v * S /\ prev = v * S /\ target = v * S /\ start = v * S
                      /\ mon = PInit(v * S, 0)
  /\ st = "Idle" /\ stagnant = TRUE
  /\ time = 0 /\ dur = 0 /\ ease = <<"lin", 1>> /\ sk = "imm" /\ delayLeft = 0 /\ ctgt = 0
  /\ cpos \in {0, 1} \cap 0..MaxC /\ ticking \in TickChoices
  /\ nsets = 0 /\ total = 0
  /\ ev = [a |-> "tau"] /\ bad = ""

\* ---------------------------------------------------------------- Parameter::set
\* every combination of arguments; those that make no difference are fixed to a canonical value
Timings == {<<"imm", 0, 0>>} \cup {<<"del", d, 0>> : d \in Delays} \cup {<<"clk", 0, c>> : c \in CTgts}
Shapes  == {<<d, e>> : d \in Durs \ {0}, e \in Eases} \cup {<<d, <<"lin", 1>>>> : d \in Durs \cap {0}}
SetArgs ==
  {[tgt |-> g * S, dur |-> sh[1], ease |-> sh[2], sk |-> tm[1], delay |-> tm[2], ctgt |-> tm[3]] :
     g \in Grid, sh \in Shapes, tm \in Timings}

Set(a) ==
  /\ nsets < MaxSets
  /\ ExactOK(raw, a.tgt, a.dur, a.ease)
  /\ stagnant' = FALSE
  /\ st' = "Tweening" /\ start' = raw /\ target' = a.tgt /\ time' = 0
  /\ dur' = a.dur /\ ease' = a.ease /\ sk' = a.sk /\ delayLeft' = a.delay /\ ctgt' = a.ctgt
  /\ nsets' = nsets + 1
  /\ ev' = [a |-> "set", tgt |-> a.tgt, dur |-> a.dur, ease |-> a.ease[1], p |-> a.ease[2],
            sk |-> a.sk, delay |-> a.delay, ctgt |-> a.ctgt]
  /\ UNCHANGED <<raw, prev, cpos, ticking, total>>

\* ---------------------------------------------------------------- Parameter::update
\* environment assumption of the property-level drivers: once a clock-started tween
\* has begun, its clock keeps ticking and does not go back (see findings/C06-clock)
ClockEnvOK(c, tk) ==
  ClockMayRegress \/ ~(mon.ph = "run" /\ mon.sk = "clk") \/ (tk /\ c >= mon.ctgt)

Update(dt, c, tk) ==
  /\ total + dt <= MaxTime
  /\ c >= cpos \/ ClockMayRegress
  /\ ClockEnvOK(c, tk)
  /\ total' = total + dt /\ cpos' = c /\ ticking' = tk
  /\ prev' = raw                                             \* self.previous_raw_value = self.raw_value
  /\ IF stagnant                                             \* if self.stagnant { return false }
     THEN /\ UNCHANGED <<st, start, target, time, dur, ease, sk, delayLeft, ctgt, raw, stagnant, nsets>>
          /\ ev' = [a |-> "upd", dt |-> dt, ticking |-> tk, cpos |-> c, val |-> raw, prev |-> raw, fin |-> FALSE,
                    exact |-> TRUE, coh |-> TRUE, ia |-> raw, ih |-> 2 * raw, ib |-> raw]
     ELSE
       LET tw == st = "Tweening"
           \* update_tween: the start test
           started == tw /\ CASE sk = "imm" -> TRUE
                              [] sk = "del" -> delayLeft = 0            \* if time_remaining.is_zero() { true }
                              [] sk = "clk" -> tk /\ c >= ctgt          \* when_to_start == Now (ticking && time >= target)
           dl2 == IF tw /\ sk = "del" /\ delayLeft # 0                  \* else { saturating_sub(dt); false }
                  THEN Max(0, delayLeft - dt) ELSE delayLeft
           t2 == IF started THEN time + dt ELSE time                    \* *time += dt
           fin == started /\ t2 >= dur                                  \* if *time >= duration
           st2 == IF fin THEN "Idle" ELSE st
           \* calculate_new_raw_value
           nr == IF st2 = "Idle" THEN target                            \* Value::Fixed(target)
                 ELSE IF dur = 0 THEN raw                               \* duration.is_zero() => None
                 ELSE Interp(start, target, EaseApply(ease, t2, dur))
       IN /\ delayLeft' = dl2 /\ time' = t2 /\ st' = st2
          /\ stagnant' = fin                                            \* target is Value::Fixed
          /\ raw' = nr
          /\ ev' = [a |-> "upd", dt |-> dt, ticking |-> tk, cpos |-> c, val |-> nr, prev |-> raw, fin |-> fin,
                    exact |-> nr = target, coh |-> TRUE, ia |-> raw, ih |-> raw + nr, ib |-> nr]
          /\ UNCHANGED <<start, target, dur, ease, sk, ctgt, nsets>>

INext == \/ \E a \in SetArgs : Set(a)
         \/ \E dt \in Dts, c \in 0..MaxC, tk \in TickChoices : c <= cpos + 2 /\ Update(dt, c, tk)

\* ---------------------------------------------------------------- composition with the P-monitor
Monitor ==
  LET r == Check(mon, ev') IN
  IF bad # "" THEN UNCHANGED <<mon, bad>>
  ELSE IF r # "" THEN bad' = r /\ UNCHANGED mon
  ELSE bad' = "" /\ mon' = Upd(mon, ev')

Next == INext /\ Monitor
Spec == Init /\ [][Next]_vars

\* ---------------------------------------------------------------- checked formulas
PropertyHolds == bad = ""                      \* every P_C06 clause, on every behaviour
TypeOK == /\ st \in {"Idle", "Tweening"} /\ stagnant \in BOOLEAN
          /\ time >= 0 /\ delayLeft >= 0 /\ ease \in Eases \cup {<<"lin", 1>>}
          /\ sk \in {"imm", "del", "clk"}
StagnantIsIdle == stagnant => st = "Idle"
IdleAtTarget   == st = "Idle" => raw = target
InRange        == Between(raw, start, target, 0) \/ st = "Idle"
TimeBelowDur   == st = "Tweening" => (time < dur \/ time = 0)   \* a tween that reached its duration is over
ExactArith     == (st = "Tweening" /\ dur > 0 /\ time > 0) => InterpExact(start, target, EaseApply(ease, time, dur))
\* the monitor's view agrees with the code's state (model-level sanity)
MonAgrees      == bad = "" => /\ mon.cur = raw
                              /\ (st = "Idle") = (mon.ph = "idle")
                              /\ (mon.ph = "run" => mon.lo <= time /\ time <= mon.hi)

\* vacuity witnesses (each must be REACHABLE, i.e. reported violated when checked as an invariant)
W_MidRetarget == ~(ev.a = "set" /\ start % S # 0)                         \* retarget from a mid-tween value
W_DelayLag    == ~(mon.ph = "run" /\ mon.sk = "del" /\ mon.lo < mon.hi /\ raw # start /\ raw # target)
W_ClockStart  == ~(ev.a = "upd" /\ ev.fin /\ sk = "clk" /\ dur > 0)
W_SubUpdate   == ~(ev.a = "upd" /\ ev.fin /\ dur > 0 /\ ev.dt > dur)
W_ZeroDur     == ~(ev.a = "upd" /\ ev.fin /\ dur = 0 /\ sk = "del")
W_Curve       == ~(st = "Tweening" /\ ease[1] = "inout" /\ raw # start /\ raw # target /\ 2 * time > dur)
W_ExactEnd    == ~(ev.a = "upd" /\ ev.fin /\ time = dur /\ dur > 1 /\ sk = "imm")
=============================================================================
