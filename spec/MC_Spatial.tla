----------------------------- MODULE MC_Spatial -----------------------------
(* Model checking of Spatial.tla; constants are set by checks/c15.py        *)
(* (quick: NL = 2 slots, 3 listeners, 2 tracks, depth 1, 2 positions,       *)
(*  <= 4 callbacks; see the cfg written to out/cfg/Spatial_*.cfg).          *)
EXTENDS Spatial
View == <<ivars, mon, bad>>   \* the last event is a function of the step, not part of the state
=============================================================================
