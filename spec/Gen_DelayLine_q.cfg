\* behaviour generation, quick: three index-coded inputs of 7 samples x every partition into calls of 1..4 frames x
\* d = 0..3 x feedback 0/1 x nested gain 0/1 x mix 0/1: one BEHAVIOUR line per complete behaviour (about 4 400; thorough: 8 samples, calls of 1..8 frames, d = 0..4: about 12 500).
SPECIFICATION GSpec
CONSTANTS
  N = 7
  Vals = {0, 1}
  Ds = {0, 1, 2, 3}
  NGs = {0, 1}
  B = 4
  InMode = "coded"
  SubFrameFixed = FALSE
INVARIANT Dump
CHECK_DEADLOCK FALSE
