----------------------------- MODULE Gen_Decoder -----------------------------
EXTENDS Decoder, Json
CONSTANT D
VARIABLE hist
GInit == Init /\ hist = <<>>
Step == IF act'[1] = "Play" THEN [act |-> "Play", rejected |-> act'[2], ev |-> ev'] ELSE [act |-> act'[1], ev |-> ev']
GNext == Next /\ hist' = Append(hist, Step)
GSpec == GInit /\ [][GNext]_<<vars, hist>>
Bound == Len(hist) <= D
\* a behaviour is printed when it reaches the depth bound or when nothing but pops can follow
Terminal == dpc = "exited" /\ cb >= MaxCb /\ apc = "idle"
Dump == (Len(hist) = D \/ (Terminal /\ act[1] # "Pop")) => PrintT(<<"BEHAVIOUR", ToJson(hist)>>)
GView == <<ivars, mon, bad>>
WG_Starved == W_Starved \/ ~PrintT(<<"BEHAVIOUR", ToJson(hist)>>)
=============================================================================
