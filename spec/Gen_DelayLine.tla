---------------------------- MODULE Gen_DelayLine ----------------------------
(* Behaviour generator for the delay-line model (spec -> implementation):    *)
(* a history variable turns states into paths, so TLC enumerates every       *)
(* partition of every chosen input into process calls for every              *)
(* configuration; one line per complete behaviour: the configuration, the    *)
(* calls (input slices) and the output slices the MODEL produced (`exp`).    *)
(* The harness feeds the same slices to the real delay effect; T_C13 judges  *)
(* what the real effect returned (P_C13) and compares it with the model.     *)
EXTENDS MC_DelayLine, Json
VARIABLE hist
GInit == Init /\ hist = <<>>
GNext == /\ Next
         /\ hist' = IF ev'.a = "proc" THEN Append(hist, [x |-> ev'.x, y |-> ev'.y, p |-> ev'.p]) ELSE hist
GSpec == GInit /\ [][GNext]_<<vars, hist>>
Complete == (pc = "idle" /\ pos = N) \/ pc = "dead"
Beh == [d |-> cfg.d, fb |-> cfg.fb, ng |-> cfg.ng, mix |-> cfg.mix,
        chunks |-> [k \in 1..Len(hist) |-> hist[k].x],
        exp |-> [k \in 1..Len(hist) |-> hist[k].y],
        panics |-> pc = "dead"]
Dump == Complete => PrintT(<<"BEHAVIOUR", ToJson(Beh)>>)
=============================================================================
