---------------------------- MODULE MC_DelayLine ----------------------------
(* The delay-line model (DelayLine.tla, written from delay.rs) as a state   *)
(* machine, composed with the property-level monitor P_C13.                 *)
(*                                                                          *)
(* A behaviour: pick a configuration (delay d in Ds frames, feedback gain   *)
(* 0/1, nested gain in NGs, mix 0/1) and an input of N samples, then feed   *)
(* the input to `process` in calls of any lengths 1..B (B = internal buffer *)
(* size, the largest slice the renderer ever passes) - i.e. EVERY partition *)
(* of the input into process calls.  One action per loop iteration of       *)
(* `process` (Sub), one for entering and one for leaving a call; leaving a  *)
(* call emits the event the harness records (input slice, output slice),    *)
(* which the monitor judges against the echo definition in lock step.       *)
(*                                                                          *)
(* PropertyHolds  = the code as modelled satisfies P_C13 for every input,   *)
(*                  configuration and partition (known finding named).      *)
(* BufferIsLine   = chunk independence stated on the state: at every loop   *)
(*                  boundary the buffer holds the last d values of the      *)
(*                  per-sample recurrence, whatever the partition was.      *)
(* W_*            = reachability witnesses, each must be VIOLATED.          *)
EXTENDS DelayLine, P_C13, TLC

CONSTANTS N,        \* input length
          Vals,     \* sample alphabet (InMode = "all")
          Ds,       \* delay lengths in frames
          NGs,      \* gains of the effect nested in the feedback path (1 = none / 0 dB, 0 = silent)
          B,        \* internal buffer size: longest process call
          InMode,   \* "all": every input in [1..N -> Vals]; "coded": three index-coded inputs
          SubFrameFixed  \* FALSE: delay.rs as it is (an empty buffer for a delay shorter than one frame, `chunks_mut(0)`
                         \* panics); TRUE: a repaired source that uses a buffer of one frame in that case

SignedVals == {-1, 0, 1}        \* for `Vals <- SignedVals` (a cfg file cannot spell negative numbers)
RECURSIVE Pow2(_)
Pow2(k) == IF k = 0 THEN 1 ELSE 2 * Pow2(k - 1)
CodedInputs == { [i \in 1..N |-> Pow2(i - 1)],                          \* every sample its own bit: sums identify their terms
                 [i \in 1..N |-> IF i % 2 = 1 THEN i ELSE -i],
                 [i \in 1..N |-> 1] }
Inputs == IF InMode = "all" THEN [1..N -> Vals] ELSE CodedInputs

VARIABLES cfg, input, pos, pc, cur, off, out, buf, ev, mon, bad
vars == <<cfg, input, pos, pc, cur, off, out, buf, ev, mon, bad>>

\* the configuration the buffer is actually built from
Eff(c) == IF SubFrameFixed /\ c.d = 0 THEN [c EXCEPT !.d = 1] ELSE c
E == Eff(cfg)

Tau == [a |-> "tau"]
MonCfg(c) == [kind |-> "dl", d |-> c.d, fb |-> c.fb, ng |-> c.ng, mix |-> c.mix, sc |-> 1]

Init == /\ cfg \in [d : Ds, fb : {0, 1}, ng : NGs, mix : {0, 1}]
        /\ input \in Inputs
        /\ pos = 0 /\ pc = "idle" /\ cur = <<>> /\ off = 0 /\ out = <<>>
        /\ buf = DLInitBuf(Eff(cfg))
        /\ ev = Tau /\ mon = PInit(MonCfg(cfg)) /\ bad = ""

Silent == /\ ev' = Tau /\ UNCHANGED <<mon, bad>>
Emit(e) == /\ ev' = e
           /\ bad' = IF bad # "" THEN bad ELSE Check(mon, e)
           /\ mon' = Upd(mon, e)

\* Effect::process(&mut input[pos .. pos + L])
Begin(L) == /\ pc = "idle" /\ pos + L <= N
            /\ cur' = SubSeq(input, pos + 1, pos + L)
            /\ pc' = "call" /\ off' = 0 /\ out' = <<>>
            /\ Silent /\ UNCHANGED <<cfg, input, pos, buf>>

\* one iteration of `for input in input.chunks_mut(self.buffer.len())`
Sub == /\ pc = "call" /\ ~DLPanics(E) /\ off < Len(cur)
       /\ LET n == DLMin(E.d, Len(cur) - off)
              r == DLSub(E, buf, SubSeq(cur, off + 1, off + n))
          IN buf' = r.buf /\ out' = out \o r.out /\ off' = off + n
       /\ Silent /\ UNCHANGED <<cfg, input, pos, pc, cur>>

\* chunks_mut(0): "chunk size must be non-zero"
PanicZeroChunk ==
       /\ pc = "call" /\ DLPanics(E)
       /\ pc' = "dead"
       /\ Emit([a |-> "proc", x |-> cur, xr |-> cur, y |-> <<>>, yr |-> <<>>, yx |-> TRUE, nf |-> 0, p |-> TRUE])
       /\ UNCHANGED <<cfg, input, pos, cur, off, out, buf>>

End == /\ pc = "call" /\ ~DLPanics(E) /\ off = Len(cur)
       /\ pc' = "idle" /\ pos' = pos + Len(cur) /\ off' = 0
       /\ Emit([a |-> "proc", x |-> cur, xr |-> cur, y |-> out, yr |-> out, yx |-> TRUE, nf |-> 0, p |-> FALSE])
       /\ UNCHANGED <<cfg, input, cur, out, buf>>

Next == (\E L \in 1..B : Begin(L)) \/ Sub \/ PanicZeroChunk \/ End
Spec == Init /\ [][Next]_vars

-----------------------------------------------------------------------------
G == cfg.fb * cfg.ng

KnownFinding_SubFrameDelay == cfg.d = 0 /\ pc = "dead" /\ ev.a = "proc" /\ ev.p /\ bad = "no_panic"
PropertyHolds == bad = "" \/ KnownFinding_SubFrameDelay
Strict == bad = ""

TypeOK == /\ Len(buf) = E.d
          /\ pc \in {"idle", "call", "dead"}
          /\ pos \in 0..N /\ off \in 0..Len(cur)
          /\ (pc = "call" => Len(out) = off /\ pos + Len(cur) <= N)

\* at every loop boundary the buffer is the last d values of the per-sample recurrence (oldest first)
BufferIsLine ==
  pc \in {"idle", "call"} =>
    buf = [i \in 1..E.d |-> Line(input, E.d, G, (pos + off) - E.d + i)]

\* the output collected so far inside a call is already what the definition says
OutputSoFar ==
  pc = "call" /\ cfg.d >= 1 =>
    \A j \in 1..off : out[j] = RefOut("post", MonCfg(cfg), input, pos + j)

(* reachability witnesses: each of these "invariants" must be VIOLATED      *)
Proc == ev.a = "proc" /\ ~ev.p /\ bad = ""
NonZero(s) == \E j \in 1..Len(s) : s[j] # 0
W_ThreeSubChunks == ~(Proc /\ cfg.d >= 1 /\ Len(ev.x) > 2 * cfg.d)
W_PartialShift   == ~(Proc /\ Len(ev.x) < cfg.d /\ pos > cfg.d /\ cfg.mix = 1 /\ NonZero(ev.y))
W_SecondEcho     == ~(Proc /\ G = 1 /\ cfg.mix = 1 /\ pos > 2 * cfg.d /\ \E j \in 1..Len(ev.y) : ev.y[j] >= 2)
W_ConvDecided    == ~(Proc /\ mon.conv = {"post"})
W_DrySession     == ~(Proc /\ cfg.mix = 0 /\ pos = N /\ NonZero(ev.x))
W_NestedSilences == ~(Proc /\ cfg.fb = 1 /\ cfg.ng = 0 /\ cfg.mix = 1 /\ pos = N /\ NonZero(input))
W_ZeroDelayPanics == ~KnownFinding_SubFrameDelay
=============================================================================
