------------------------------- MODULE T_C08 -------------------------------
(* Trace validation for C08: every session recorded from the real library   *)
(* (harness driver `kv c08`) is run through the property-level monitor of   *)
(* P_C08.  A session the monitor rejects is reported with the name of the   *)
(* violated clause; validation continues with the next session.             *)
EXTENDS Integers, Sequences, FiniteSets, TLC, Json, IOUtils
ItemsDef == 1..40
INSTANCE P_C08 WITH Items <- ItemsDef

Rec == ndJsonDeserialize(IOEnv.TRACE)
ToSet(s) == {s[i] : i \in DOMAIN s}

VARIABLES l, mon, mode, bad
tvars == <<l, mon, mode, bad>>

Norm(e) == IF e.a = "cb_end" THEN [e EXCEPT !.present = ToSet(@), !.resolves = ToSet(@)] ELSE e

TInit == l = 1 /\ mon = PInit(1, FALSE) /\ mode = "skip" /\ bad = <<>>
TNext ==
  /\ l <= Len(Rec)
  /\ l' = l + 1
  /\ LET e == Rec[l] IN
     IF e.a = "reset" THEN mon' = PInit(e.n, e.racy) /\ mode' = "ok" /\ bad' = bad
     ELSE IF mode = "skip" \/ e.a = "end" THEN UNCHANGED <<mon, mode, bad>>
     ELSE LET ne == Norm(e)  r == Check(mon, ne) IN
          IF r = "" THEN mon' = Upd(mon, ne) /\ UNCHANGED <<mode, bad>>
          ELSE /\ mode' = "skip" /\ UNCHANGED mon
               /\ bad' = Append(bad, [s |-> e.s, i |-> e.i, a |-> e.a, reason |-> r])
TSpec == TInit /\ [][TNext]_tvars

\* acceptance: the whole file was consumed; rejected sessions are printed
Done == l = Len(Rec) + 1
Report == Done => /\ PrintT(<<"BAD", ToJson(bad)>>)
                  /\ PrintT(<<"CONSUMED", l - 1, Len(Rec)>>)
=============================================================================
