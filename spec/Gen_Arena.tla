----------------------------- MODULE Gen_Arena -----------------------------
(* Behaviour generator for Arena (spec -> implementation replay): a history *)
(* variable turns states into paths; each printed line is one behaviour.    *)
EXTENDS Arena, Json
CONSTANT D
VARIABLE hist
GInit == Init /\ hist = <<>>
GNext == Next /\ hist' = Append(hist, [act |-> act'[1], x |-> act'[2], lock |-> alock', ev |-> ev'])
GSpec == GInit /\ [][GNext]_<<vars, hist>>
Bound == Len(hist) <= D
GView == <<ivars, mon, bad>>   \* witness search: states are deduplicated without the history, so BFS finds one shortest path
Emit == PrintT(<<"BEHAVIOUR", ToJson(hist)>>)
Dump == (Len(hist) = D \/ panicked # "") => Emit
\* directed witnesses: the first behaviour reaching the situation is printed and TLC stops
WG_Full  == W_Full \/ ~Emit
WG_Reuse == W_Reuse \/ ~Emit
WG_Panic == NoPanic \/ ~Emit
WG_Leak  == PropertyHolds \/ ~Emit
=============================================================================
