------------------------------- MODULE T_C06 -------------------------------
(* Trace validation for C06: every session recorded from the real library   *)
(* (harness driver `c06`, one kira::Parameter<T> per session) is run through *)
(* the property-level monitor of P_C06.  A session the monitor rejects is   *)
(* reported with the name of the violated clause; validation continues with *)
(* the next session.                                                        *)
(*   {"a":"reset","v0":..,"tol":..,"ty":..,"scale":..}   starts a session   *)
(*   {"a":"set",..} {"a":"upd",..} {"a":"panic"} {"a":"end"}                *)
EXTENDS Integers, Sequences, TLC, Json, IOUtils, P_C06

Rec == ndJsonDeserialize(IOEnv.TRACE)

VARIABLES l, mon, mode, bad, nbad
tvars == <<l, mon, mode, bad, nbad>>
MaxBad == 300   \* rejected sessions listed individually (all are counted)

TInit == l = 1 /\ mon = PInit(0, 0) /\ mode = "skip" /\ bad = <<>> /\ nbad = 0
TNext ==
  /\ l <= Len(Rec)
  /\ l' = l + 1
  /\ LET e == Rec[l] IN
     IF e.a = "reset" THEN mon' = PInit(e.v0, e.tol) /\ mode' = "ok" /\ UNCHANGED <<bad, nbad>>
     ELSE IF mode = "skip" \/ e.a = "end" THEN UNCHANGED <<mon, mode, bad, nbad>>
     ELSE LET r == Check(mon, e) IN
          IF r = "" THEN mon' = Upd(mon, e) /\ UNCHANGED <<mode, bad, nbad>>
          ELSE /\ mode' = "skip" /\ UNCHANGED mon
               /\ nbad' = nbad + 1
               /\ bad' = IF nbad < MaxBad THEN Append(bad, [s |-> e.s, i |-> e.i, a |-> e.a, reason |-> r]) ELSE bad
TSpec == TInit /\ [][TNext]_tvars

\* acceptance: the whole file was consumed; rejected sessions are printed
Done == l = Len(Rec) + 1
Report == Done => /\ PrintT(<<"BAD", ToJson(bad)>>)
                  /\ PrintT(<<"REJECTED", nbad>>)
                  /\ PrintT(<<"CONSUMED", l - 1, Len(Rec)>>)
=============================================================================
