------------------------------- MODULE T_C06 -------------------------------
(* Trace validation for C06: every session recorded from the real library   *)
(* (harness driver `c06`, one kira::Parameter<T> per session) is run through *)
(* the property-level monitor of P_C06.  A session the monitor rejects is   *)
(* reported with the name of the violated clause; validation continues with *)
(* the next session.                                                        *)
(*   {"a":"reset","v0":..,"tol":..,"ty":..,"scale":..}   starts a session   *)
(*   {"a":"set",..} {"a":"upd",..} {"a":"panic"} {"a":"end"}                *)
EXTENDS Integers, Sequences, TLC, Json, IOUtils, P_C06

Rec == ndJsonDeserialize(IOEnv.TRACE)

VARIABLES l, mon, mode, bad
tvars == <<l, mon, mode, bad>>

TInit == l = 1 /\ mon = PInit(0, 0) /\ mode = "skip" /\ bad = <<>>
TNext ==
  /\ l <= Len(Rec)
  /\ l' = l + 1
  /\ LET e == Rec[l] IN
     IF e.a = "reset" THEN mon' = PInit(e.v0, e.tol) /\ mode' = "ok" /\ bad' = bad
     ELSE IF mode = "skip" \/ e.a = "end" THEN UNCHANGED <<mon, mode, bad>>
     ELSE LET r == Check(mon, e) IN
          IF r = "" THEN mon' = Upd(mon, e) /\ UNCHANGED <<mode, bad>>
          ELSE /\ mode' = "skip" /\ UNCHANGED mon
               /\ bad' = Append(bad, [s |-> e.s, i |-> e.i, a |-> e.a, reason |-> r])
TSpec == TInit /\ [][TNext]_tvars

\* acceptance: the whole file was consumed; rejected sessions are printed
Done == l = Len(Rec) + 1
Report == Done => /\ PrintT(<<"BAD", ToJson(bad)>>)
                  /\ PrintT(<<"CONSUMED", l - 1, Len(Rec)>>)
=============================================================================
