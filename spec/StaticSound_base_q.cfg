\* StaticSound, command-free family (quick): lengths 0..3 x every slice x start x loop region (incl. end = length and
\* "end of audio") x reverse x rates +-{1, 1/2, 2} x chunk sizes {1,2,3}, 12 output frames per session.
\* Measured: 485 743 distinct states, 12 s with 4 workers.  checks/c04.py runs the same family through
\* Gen_StaticSound (bounded-exhaustive generation + the same invariants); thorough: lengths 0..4 (and 5..6 without replay).
\* run: tlc -workers 4 -config StaticSound_base_q.cfg MC_StaticSound.tla
SPECIFICATION Spec
CONSTANTS
  Lens = {0, 1, 2, 3}
  Slicing = TRUE
  DeltaMags = {1}
  RateMags = {4, 2, 8}
  NegRates = TRUE
  ChunkSizes = {1, 2, 3}
  ChunkMix = FALSE
  CmdTimes = {0}
  MaxFrames = 12
  MaxCmds = 0
  Cmds = {}
  SeekRevives = TRUE
  SeekByHeard = TRUE
  SafeTransport = TRUE
  Wide = FALSE
VIEW View
INVARIANTS PropertyHolds NoPanic TypeOK IndexInSlice WindowInSlice StoppedMeansDrained NoHang
CHECK_DEADLOCK FALSE
