------------------------------ MODULE P_C16 ------------------------------
(* Property-level specification of C16 (seconds and hertz mean the same at  *)
(* every device sample rate and across changes), from the statement.        *)
(*   rate r           the device sample rate is (now) r                     *)
(*   load t           track t is being built: its effects are initialised     *)
(*                    with the rate published at this moment                 *)
(*   enq              the track just built has been handed to the audio side *)
(*   cbk              a callback: tracks handed over so far are picked up    *)
(*   proc t seen idt  an effect on track t processed audio: seen = the      *)
(*                    sample rate it was last told (init / on_change),      *)
(*                    idt = round(1 / dt) of the call                       *)
(*   measure what ms secs1000 rmin cbf srcms     a duration measured in      *)
(*        milliseconds of device time (sum of frames / rate over all the     *)
(*        rates that were in force), next to its nominal value secs1000:     *)
(*        sound   first to last audible frame of a finite sound (srcms =     *)
(*                duration of one source frame; the interpolator rings for   *)
(*                at most two source frames after the last one)              *)
(*        clock   until a clock reached N ticks (read once per callback of   *)
(*                cbf frames)                                                *)
(*        echo    between an impulse and its first echo through a delay      *)
(*        filter  from a step to the moment the output of a critically       *)
(*                damped low-pass filter (cutoff in hertz) crosses one half:  *)
(*                1.678 / (2 pi cutoff) seconds; 10 % for the discretisation  *)
(*        rmin = the lowest device rate in force during the measurement      *)
EXTENDS Integers, Sequences

\* epoch = number of rate changes so far; per track: the epoch at which it was built (le) and picked up (pe, -1: not yet)
PInit == [rate |-> 0, epoch |-> 0, tl |-> <<>>]
Abs(x) == IF x < 0 THEN -x ELSE x

Check(m, e) ==
  CASE e.a = "proc" ->
         \* (a change between the building of a track and its pick-up: the clause under which finding D12 is listed;
         \*  a track built with the current rate, or reached by every change since its pick-up, has no excuse)
         IF e.seen # m.rate THEN
            (IF e.t \in 1..Len(m.tl) /\ m.tl[e.t].le < m.tl[e.t].pe THEN "effect_processes_with_the_rate_in_force"
             ELSE "effect_knows_the_rate_it_was_built_or_told")
         ELSE IF e.idt # m.rate THEN "dt_is_one_over_the_rate_in_force"
         ELSE ""
    [] e.a = "measure" ->
         LET frame == e.unit \div e.rmin + 1                     \* one device frame, in the unit of the measurement (ms or us)
             lo == CASE e.what = "sound" -> e.secs1000 - frame
                     \* (the clock is read once per callback, and what the handle shows may be the time at the start or at the
                     \*  end of the callback just run: one callback either way)
                     [] e.what = "clock" -> e.secs1000 - e.cbf * frame
                     [] e.what = "filter" -> e.secs1000 - frame - e.secs1000 \div 10
                     [] OTHER -> e.secs1000 - frame
             hi == CASE e.what = "sound" -> e.secs1000 + 2 * e.srcms + frame
                     [] e.what = "clock" -> e.secs1000 + e.cbf * frame
                     [] e.what = "filter" -> e.secs1000 + frame + e.secs1000 \div 10
                     [] OTHER -> e.secs1000 + frame
         \* (echo_in_flight: the impulse came before a change of rate and its echo was due after it; the delay line may be
         \*  cleared by the change - then no echo is heard, ms = -1 - but an echo that is heard comes at the delay time)
         IN IF e.what = "echo_in_flight" /\ e.ms = -1 THEN ""
            ELSE IF e.ms < lo \/ e.ms > hi THEN "seconds_independent_of_sample_rate" ELSE ""
    [] e.a = "panic" -> "no_panic"
    [] OTHER -> ""

Upd(m, e) ==
  CASE e.a = "rate" -> [m EXCEPT !.rate = e.r, !.epoch = @ + 1]
    [] e.a = "load" -> [m EXCEPT !.tl = Append(@, [le |-> m.epoch, pe |-> -1, enq |-> FALSE])]
    [] e.a = "enq" -> [m EXCEPT !.tl = [i \in 1..Len(@) |-> IF i = Len(@) THEN [@[i] EXCEPT !.enq = TRUE] ELSE @[i]]]
    [] e.a = "cbk" -> [m EXCEPT !.tl = [i \in 1..Len(@) |-> IF @[i].enq /\ @[i].pe = -1 THEN [@[i] EXCEPT !.pe = m.epoch] ELSE @[i]]]
    [] OTHER -> m
=============================================================================
