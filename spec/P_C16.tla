------------------------------ MODULE P_C16 ------------------------------
(* Property-level specification of C16 (seconds and hertz mean the same at  *)
(* every device sample rate and across changes), from the statement.        *)
(*   rate r           the device sample rate is (now) r                     *)
(*   proc t seen idt  an effect on track t processed audio: seen = the      *)
(*                    sample rate it was last told (init / on_change),      *)
(*                    idt = round(1 / dt) of the call                       *)
(*   measure what ms secs1000 rmin cbf srcms     a duration measured in      *)
(*        milliseconds of device time (sum of frames / rate over all the     *)
(*        rates that were in force), next to its nominal value secs1000:     *)
(*        sound   first to last audible frame of a finite sound (srcms =     *)
(*                duration of one source frame; the interpolator rings for   *)
(*                at most two source frames after the last one)              *)
(*        clock   until a clock reached N ticks (read once per callback of   *)
(*                cbf frames)                                                *)
(*        echo    between an impulse and its first echo through a delay      *)
(*        filter  from a step to the moment the output of a critically       *)
(*                damped low-pass filter (cutoff in hertz) crosses one half:  *)
(*                1.678 / (2 pi cutoff) seconds; 10 % for the discretisation  *)
(*        rmin = the lowest device rate in force during the measurement      *)
EXTENDS Integers

PInit == [rate |-> 0]
Abs(x) == IF x < 0 THEN -x ELSE x

Check(m, e) ==
  CASE e.a = "proc" ->
         IF e.seen # m.rate THEN "effect_processes_with_the_rate_in_force"
         ELSE IF e.idt # m.rate THEN "dt_is_one_over_the_rate_in_force"
         ELSE ""
    [] e.a = "measure" ->
         LET frame == 1000 \div e.rmin + 1                       \* one device frame, in ms
             lo == CASE e.what = "sound" -> e.secs1000 - frame
                     [] e.what = "clock" -> e.secs1000 - frame
                     [] e.what = "filter" -> e.secs1000 - frame - e.secs1000 \div 10
                     [] OTHER -> e.secs1000 - frame
             hi == CASE e.what = "sound" -> e.secs1000 + 2 * e.srcms + frame
                     [] e.what = "clock" -> e.secs1000 + e.cbf * frame
                     [] e.what = "filter" -> e.secs1000 + frame + e.secs1000 \div 10
                     [] OTHER -> e.secs1000 + frame
         IN IF e.ms < lo \/ e.ms > hi THEN "seconds_independent_of_sample_rate" ELSE ""
    [] e.a = "panic" -> "no_panic"
    [] OTHER -> ""

Upd(m, e) == IF e.a = "rate" THEN [m EXCEPT !.rate = e.r] ELSE m
=============================================================================
