------------------------------- MODULE Track -------------------------------
(* Implementation-level model of the mixer's track tree                     *)
(*   crates/kira/src/track/sub.rs (Track::on_start_processing, process,     *)
(*   should_be_removed, read_commands), track.rs (TrackShared), handles'    *)
(*   Drop, backend/resources/mixer.rs (removal order), and the parts of the *)
(*   sounds that matter here (stop, finished, position).                    *)
(* Scene: a chain main <- A <- B [<- C] (Depth 2 or 3), one sound per track. *)
(* One callback = one chunk                                                  *)
(* of NF frames.  Fade values are abstracted to 0 (-60 dB) / 1 / 2 (0 dB).  *)
EXTENDS Integers, Sequences, FiniteSets, TLC, P_C12

CONSTANTS Durs, Waits, MaxOps, MaxCb, PersistA, PersistB, PersistC, NF, Depth

VARIABLES ts,        \* [Tracks -> state of the track's PlaybackStateManager]
          fv, fprev, \* [Tracks -> fade class]
          tw,        \* [Tracks -> [on, target, left, start]]
          wait,      \* [Tracks -> [kind, left, d]]
          pendP, pendR,  \* [Tracks -> pending pause / resume command or NoCmd]
          mark,      \* [Tracks -> handle dropped]
          alive,     \* [Tracks -> still in its parent's arena]
          sh,        \* [Tracks -> state published to the handle]
          sst, spos, sin, stopc,   \* sounds: state, frames played, in arena, pending stop
          picked,    \* the tracks have been picked up by the audio thread (first callback done)
          nops, cb, act, ev, mon, bad

ivars == <<ts, fv, fprev, tw, wait, pendP, pendR, mark, alive, sh, sst, spos, sin, stopc, picked, nops, cb>>
vars == <<ivars, act, ev, mon, bad>>

NoCmd == [c |-> "none"]
NoTw == [on |-> FALSE, target |-> 2, left |-> 0, start |-> 2]
NoWait == [kind |-> "none", left |-> 0, d |-> 0]
Persist == [t \in Tracks |-> CASE t = "A" -> PersistA [] t = "B" -> PersistB [] OTHER -> PersistC]
Built == IF Depth = 2 THEN {"A", "B"} ELSE {"A", "B", "C"}     \* the tracks that exist in this scene

Init ==
  /\ ts = [t \in Tracks |-> "Playing"] /\ fv = [t \in Tracks |-> 2] /\ fprev = [t \in Tracks |-> 2]
  /\ tw = [t \in Tracks |-> NoTw] /\ wait = [t \in Tracks |-> NoWait]
  /\ pendP = [t \in Tracks |-> NoCmd] /\ pendR = [t \in Tracks |-> NoCmd]
  /\ mark = [t \in Tracks |-> FALSE] /\ alive = [t \in Tracks |-> t \in Built] /\ sh = [t \in Tracks |-> "Playing"]
  /\ sst = [s \in Sounds |-> "Playing"] /\ spos = [s \in Sounds |-> 0] /\ sin = [s \in Sounds |-> Host(s) \in Built]
  /\ stopc = [s \in Sounds |-> FALSE] /\ picked = FALSE
  /\ nops = 0 /\ cb = 0 /\ act = <<"Init">> /\ ev = [a |-> "tau"]
  /\ mon = PInit(Persist, NF, Depth) /\ bad = ""

\* ---------------------------------------------------------------- gameplay
\* (pause only a track that reports Playing/Resuming, resume only one that reports a paused state:
\*  re-pausing a silent track is outside the property-level domain, see P_C12)
Cmd(t, c, d, wk, wt) ==
  /\ nops < MaxOps /\ ~mark[t] /\ t \in Built
  /\ IF c = "pause" THEN sh[t] \in {"Playing", "Resuming"} ELSE sh[t] \in {"Paused", "Pausing", "WaitingToResume"}
  /\ nops' = nops + 1
  /\ IF c = "pause" THEN pendP' = [pendP EXCEPT ![t] = [c |-> c, d |-> d]] /\ UNCHANGED pendR
     ELSE pendR' = [pendR EXCEPT ![t] = [c |-> c, d |-> d, wk |-> wk, wt |-> wt]] /\ UNCHANGED pendP
  /\ act' = <<"Cmd", t, c, d, wk, wt>>
  /\ ev' = [a |-> "cmd", t |-> t, c |-> c, d |-> d, wk |-> wk, wt |-> wt]
  /\ UNCHANGED <<ts, fv, fprev, tw, wait, mark, alive, sh, sst, spos, sin, stopc, picked, cb>>

Drop(t) ==
  /\ nops < MaxOps /\ ~mark[t] /\ t \in Built
  /\ nops' = nops + 1 /\ mark' = [mark EXCEPT ![t] = TRUE]
  /\ act' = <<"Drop", t>> /\ ev' = [a |-> "drop", t |-> t]
  /\ UNCHANGED <<ts, fv, fprev, tw, wait, pendP, pendR, alive, sh, sst, spos, sin, stopc, picked, cb>>

Stop(s) ==
  /\ nops < MaxOps /\ ~stopc[s] /\ sst[s] = "Playing" /\ Host(s) \in Built
  /\ nops' = nops + 1 /\ stopc' = [stopc EXCEPT ![s] = TRUE]
  /\ act' = <<"Stop", s>> /\ ev' = [a |-> "stop", s |-> s]
  /\ UNCHANGED <<ts, fv, fprev, tw, wait, pendP, pendR, mark, alive, sh, sst, spos, sin, picked, cb>>

\* ---------------------------------------------------------------- audio: one callback, as a pure function of the state
SetFade(target, d, s) == [on |-> TRUE, target |-> target, left |-> d, start |-> s]

\* state record used inside the callback
Pack == [ts |-> ts, fv |-> fv, fprev |-> fprev, tw |-> tw, wait |-> wait, alive |-> alive, sh |-> sh,
         sst |-> sst, spos |-> spos, sin |-> sin]

\* Track::should_be_removed (evaluated by the parent before the track's own on_start_processing):
\* no sub-track that is not itself removable, the handle dropped, and - if persisting - no sounds left
RECURSIVE ShouldRemove(_, _)
ShouldRemove(x, t) ==
  /\ (ChildOf(t) # "none" /\ x.alive[ChildOf(t)] => ShouldRemove(x, ChildOf(t)))
  /\ mark[t] /\ (Persist[t] => ~x.sin[SoundOf(t)])

RECURSIVE Below(_)
Below(t) == IF ChildOf(t) = "none" THEN {} ELSE {ChildOf(t)} \cup Below(ChildOf(t))

\* Track::read_commands: pause, then resume
ReadCmds(x, t) ==
  LET p == pendP[t]  r == pendR[t]
      x1 == IF p.c = "none" THEN x
            ELSE [x EXCEPT !.ts[t] = "Pausing", !.tw[t] = SetFade(0, p.d, x.fv[t])]
      x2 == IF r.c = "none" THEN x1
            ELSE IF r.c = "resume" THEN [x1 EXCEPT !.ts[t] = "Resuming", !.tw[t] = SetFade(2, r.d, x1.fv[t])]
            ELSE [x1 EXCEPT !.ts[t] = "WaitingToResume", !.wait[t] = [kind |-> r.wk, left |-> r.wt, d |-> r.d]]
  IN [x2 EXCEPT !.sh[t] = x2.ts[t]]

\* a sound's on_start_processing: removal of a finished sound happened just before (by its track)
SoundStart(x, s) ==
  LET x1 == IF x.sin[s] /\ x.sst[s] = "Stopped" THEN [x EXCEPT !.sin[s] = FALSE] ELSE x IN
  IF x1.sin[s] /\ stopc[s] /\ x1.sst[s] = "Playing" THEN [x1 EXCEPT !.sst[s] = "Stopping"] ELSE x1   \* stop(0) read

\* on_start_processing of track t (already known not to be removed): its commands, its sound, then its sub-track
RECURSIVE StartTrack(_, _)
StartTrack(x, t) ==
  LET a == SoundStart(ReadCmds(x, t), SoundOf(t))
      c == ChildOf(t) IN
  IF c = "none" \/ ~a.alive[c] THEN a
  ELSE IF picked /\ ShouldRemove(a, c)      \* (a track still in the new-resource ring is inserted after the removal pass)
       THEN [a EXCEPT !.alive = [u \in Tracks |-> IF u = c \/ u \in Below(c) THEN FALSE ELSE a.alive[u]]]
       ELSE StartTrack(a, c)

\* the fade Parameter and the state step of PlaybackStateManager::update
FadeStep(x, t) ==
  IF ~x.tw[t].on THEN [x EXCEPT !.fprev[t] = x.fv[t], !.fin = FALSE]
  ELSE IF x.tw[t].left <= 1
       THEN [x EXCEPT !.fprev[t] = x.fv[t], !.fv[t] = x.tw[t].target, !.tw[t] = NoTw, !.fin = TRUE]
       ELSE [x EXCEPT !.fprev[t] = x.fv[t], !.tw[t].left = @ - 1, !.fin = FALSE,
                      !.fv[t] = IF x.tw[t].start = x.tw[t].target THEN x.tw[t].start ELSE 1]

StateStep(x, t) ==
  CASE x.ts[t] = "Pausing" /\ x.fin -> [x EXCEPT !.ts[t] = "Paused"]
    [] x.ts[t] = "Resuming" /\ x.fin -> [x EXCEPT !.ts[t] = "Playing"]
    [] x.ts[t] = "WaitingToResume" ->
         IF x.wait[t].kind = "noclock"
         THEN [x EXCEPT !.ts[t] = "Paused", !.wait[t] = NoWait]     \* the start time can never come: stay paused
         ELSE LET l == IF x.wait[t].left > 0 THEN x.wait[t].left - 1 ELSE 0 IN
              IF l = 0 THEN [x EXCEPT !.ts[t] = "Resuming", !.tw[t] = SetFade(2, x.wait[t].d, x.fv[t]), !.wait[t] = NoWait]
              ELSE [x EXCEPT !.wait[t].left = l]
    [] OTHER -> x

AdvT(s) == s \in {"Playing", "Pausing", "Resuming"}
GainOf(x, t) == IF x.fprev[t] = 2 /\ x.fv[t] = 2 THEN "full" ELSE IF x.fprev[t] = 0 /\ x.fv[t] = 0 THEN "zero" ELSE "mid"
Mix(g1, g2) == IF g1 = "zero" \/ g2 = "zero" THEN "zero" ELSE IF g1 = "full" /\ g2 = "full" THEN "full" ELSE "mid"

\* a sound's process: stop(0) makes it Stopped in this chunk and silent; otherwise it plays NF frames
\* returns <<state', heard>> with heard in {"none", "full", "mid", "zero"}
SoundProc(x, s, gain) ==
  IF ~x.sin[s] \/ x.sst[s] = "Stopped" THEN <<x, "none">>
  ELSE IF x.sst[s] = "Stopping" THEN <<[x EXCEPT !.sst[s] = "Stopped"], "none">>    \* zero-length fade ends: silent
  ELSE <<[x EXCEPT !.spos[s] = @ + NF], gain>>

\* Track::process for track t with the gain of everything above it: state update, early return when not advancing,
\* sub-track, then the track's sound.  Returns <<state', heard>> (heard: per sound "none" | "full" | "mid" | "zero")
RECURSIVE Proc(_, _, _, _)
Proc(x, t, gAbove, heard) ==
  IF t = "none" \/ ~x.alive[t] THEN <<x, heard>>
  ELSE LET p1 == StateStep(FadeStep(x, t), t)
           p == [p1 EXCEPT !.sh[t] = p1.ts[t]]
       IN IF ~AdvT(p.ts[t]) THEN <<p, heard>>
          ELSE LET g == Mix(gAbove, GainOf(p, t))
                   kid == Proc(p, ChildOf(t), g, heard)
                   snd == SoundProc(kid[1], SoundOf(t), g)
               IN <<snd[1], [kid[2] EXCEPT ![SoundOf(t)] = snd[2]]>>

Callback ==
  /\ cb < MaxCb /\ cb' = cb + 1 /\ act' = <<"Callback">>
  /\ pendP' = [t \in Tracks |-> NoCmd] /\ pendR' = [t \in Tracks |-> NoCmd]
  /\ stopc' = [s \in Sounds |-> FALSE] /\ picked' = TRUE
  /\ LET x0 == Pack @@ [fin |-> FALSE]
         \* ---- on_start_processing (Mixer: the top-level sub-track A)
         x1 == IF ~x0.alive["A"] THEN x0
               ELSE IF picked /\ ShouldRemove(x0, "A") THEN [x0 EXCEPT !.alive = [u \in Tracks |-> FALSE]]
               ELSE StartTrack(x0, "A")
         \* ---- process
         r == Proc(x1, "A", "full", [s \in Sounds |-> "none"])
         y == r[1]
         heard == r[2]
         firstOf(s) == IF heard[s] = "full" THEN spos[s] ELSE IF heard[s] = "mid" THEN -2 ELSE -1
         cnt(t) == IF mark[t] THEN -1 ELSE IF ChildOf(t) # "none" /\ y.alive[ChildOf(t)] THEN 1 ELSE 0
     IN
     /\ ts' = y.ts /\ fv' = y.fv /\ fprev' = y.fprev /\ tw' = y.tw /\ wait' = y.wait /\ alive' = y.alive
     /\ sh' = y.sh /\ sst' = y.sst /\ spos' = y.spos /\ sin' = y.sin
     /\ ev' = [a |-> "cb",
               st |-> [t \in Tracks |-> IF mark[t] \/ t \notin Built THEN "gone" ELSE y.sh[t]],
               first |-> [s \in Sounds |-> firstOf(s)],
               zero |-> [s \in Sounds |-> heard[s] \in {"none", "zero"}],
               sst |-> y.sst,
               ntop |-> IF y.alive["A"] THEN 1 ELSE 0,
               nA |-> cnt("A"), nB |-> cnt("B"),
               panicked |-> FALSE]
  /\ UNCHANGED <<mark, nops>>

INext == \/ \E t \in Tracks, d \in Durs : Cmd(t, "pause", d, "none", 0) \/ Cmd(t, "resume", d, "none", 0)
         \/ \E t \in Tracks, d \in Durs, wk \in {"delayed", "clock", "noclock"}, wt \in Waits : Cmd(t, "resume_at", d, wk, wt)
         \/ \E t \in Tracks : Drop(t)
         \/ \E s \in Sounds : Stop(s)
         \/ Callback

Monitor ==
  LET r == Check(mon, ev') IN
  IF bad # "" THEN UNCHANGED <<mon, bad>>
  ELSE IF r # "" THEN bad' = r /\ UNCHANGED mon
  ELSE bad' = "" /\ mon' = Upd(mon, ev')

Next == INext /\ Monitor
Spec == Init /\ [][Next]_vars

PropertyHolds == bad = ""
StatesValid == \A t \in Tracks : ts[t] \in TrackStates
ChildNeverOutlivesParent == \A t \in Tracks : (ChildOf(t) # "none" /\ alive[ChildOf(t)]) => alive[t]
NeverRemovedWhileChildHandleAlive == \A t \in Tracks : \A u \in Below(t) : (~mark[u] /\ alive[u]) => alive[t]
W_Removed == alive["A"]
W_FrozenChild == ~(ts["A"] = "Paused" /\ cb > 2 /\ spos["SB"] > 0)
W_Deep == ~(Depth = 3 /\ mark["A"] /\ mark["B"] /\ ~mark["C"] /\ alive["A"] /\ cb > 2)
=============================================================================
