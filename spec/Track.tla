------------------------------- MODULE Track -------------------------------
(* Implementation-level model of the mixer's track tree                     *)
(*   crates/kira/src/track/sub.rs (Track::on_start_processing, process,     *)
(*   should_be_removed, read_commands), track.rs (TrackShared), handles'    *)
(*   Drop, backend/resources/mixer.rs (removal order), and the parts of the *)
(*   sounds that matter here (stop, finished, position).                    *)
(* Scene: main <- A <- B, sound SA on A, SB on B.  One callback = one chunk *)
(* of NF frames.  Fade values are abstracted to 0 (-60 dB) / 1 / 2 (0 dB).  *)
EXTENDS Integers, Sequences, FiniteSets, TLC, P_C12

CONSTANTS Durs, Waits, MaxOps, MaxCb, PersistA, PersistB, NF

VARIABLES ts,        \* [Tracks -> state of the track's PlaybackStateManager]
          fv, fprev, \* [Tracks -> fade class]
          tw,        \* [Tracks -> [on, target, left, start]]
          wait,      \* [Tracks -> [kind, left, d]]
          pendP, pendR,  \* [Tracks -> pending pause / resume command or NoCmd]
          mark,      \* [Tracks -> handle dropped]
          alive,     \* [Tracks -> still in its parent's arena]
          sh,        \* [Tracks -> state published to the handle]
          sst, spos, sin, stopc,   \* sounds: state, frames played, in arena, pending stop
          picked,    \* the tracks have been picked up by the audio thread (first callback done)
          nops, cb, act, ev, mon, bad

ivars == <<ts, fv, fprev, tw, wait, pendP, pendR, mark, alive, sh, sst, spos, sin, stopc, picked, nops, cb>>
vars == <<ivars, act, ev, mon, bad>>

NoCmd == [c |-> "none"]
NoTw == [on |-> FALSE, target |-> 2, left |-> 0, start |-> 2]
NoWait == [kind |-> "none", left |-> 0, d |-> 0]
Persist == [t \in Tracks |-> IF t = "A" THEN PersistA ELSE PersistB]

Init ==
  /\ ts = [t \in Tracks |-> "Playing"] /\ fv = [t \in Tracks |-> 2] /\ fprev = [t \in Tracks |-> 2]
  /\ tw = [t \in Tracks |-> NoTw] /\ wait = [t \in Tracks |-> NoWait]
  /\ pendP = [t \in Tracks |-> NoCmd] /\ pendR = [t \in Tracks |-> NoCmd]
  /\ mark = [t \in Tracks |-> FALSE] /\ alive = [t \in Tracks |-> TRUE] /\ sh = [t \in Tracks |-> "Playing"]
  /\ sst = [s \in Sounds |-> "Playing"] /\ spos = [s \in Sounds |-> 0] /\ sin = [s \in Sounds |-> TRUE]
  /\ stopc = [s \in Sounds |-> FALSE] /\ picked = FALSE
  /\ nops = 0 /\ cb = 0 /\ act = <<"Init">> /\ ev = [a |-> "tau"]
  /\ mon = PInit(Persist, NF) /\ bad = ""

\* ---------------------------------------------------------------- gameplay
\* (pause only a track that reports Playing/Resuming, resume only one that reports a paused state:
\*  re-pausing a silent track is outside the property-level domain, see P_C12)
Cmd(t, c, d, wk, wt) ==
  /\ nops < MaxOps /\ ~mark[t]
  /\ IF c = "pause" THEN sh[t] \in {"Playing", "Resuming"} ELSE sh[t] \in {"Paused", "Pausing", "WaitingToResume"}
  /\ nops' = nops + 1
  /\ IF c = "pause" THEN pendP' = [pendP EXCEPT ![t] = [c |-> c, d |-> d]] /\ UNCHANGED pendR
     ELSE pendR' = [pendR EXCEPT ![t] = [c |-> c, d |-> d, wk |-> wk, wt |-> wt]] /\ UNCHANGED pendP
  /\ act' = <<"Cmd", t, c, d, wk, wt>>
  /\ ev' = [a |-> "cmd", t |-> t, c |-> c, d |-> d, wk |-> wk, wt |-> wt]
  /\ UNCHANGED <<ts, fv, fprev, tw, wait, mark, alive, sh, sst, spos, sin, stopc, picked, cb>>

Drop(t) ==
  /\ nops < MaxOps /\ ~mark[t]
  /\ nops' = nops + 1 /\ mark' = [mark EXCEPT ![t] = TRUE]
  /\ act' = <<"Drop", t>> /\ ev' = [a |-> "drop", t |-> t]
  /\ UNCHANGED <<ts, fv, fprev, tw, wait, pendP, pendR, alive, sh, sst, spos, sin, stopc, picked, cb>>

Stop(s) ==
  /\ nops < MaxOps /\ ~stopc[s] /\ sst[s] = "Playing"
  /\ nops' = nops + 1 /\ stopc' = [stopc EXCEPT ![s] = TRUE]
  /\ act' = <<"Stop", s>> /\ ev' = [a |-> "stop", s |-> s]
  /\ UNCHANGED <<ts, fv, fprev, tw, wait, pendP, pendR, mark, alive, sh, sst, spos, sin, picked, cb>>

\* ---------------------------------------------------------------- audio: one callback, as a pure function of the state
SetFade(target, d, s) == [on |-> TRUE, target |-> target, left |-> d, start |-> s]

\* state record used inside the callback
Pack == [ts |-> ts, fv |-> fv, fprev |-> fprev, tw |-> tw, wait |-> wait, alive |-> alive, sh |-> sh,
         sst |-> sst, spos |-> spos, sin |-> sin]

\* Track::should_be_removed (evaluated by the parent before the track's own on_start_processing)
ShouldRemove(x, t) ==
  IF t = "B" THEN mark["B"] /\ (PersistB => ~x.sin["SB"])
  ELSE /\ (x.alive["B"] => (mark["B"] /\ (PersistB => ~x.sin["SB"])))
       /\ mark["A"] /\ (PersistA => ~x.sin["SA"])

\* Track::read_commands: pause, then resume
ReadCmds(x, t) ==
  LET p == pendP[t]  r == pendR[t]
      x1 == IF p.c = "none" THEN x
            ELSE [x EXCEPT !.ts[t] = "Pausing", !.tw[t] = SetFade(0, p.d, x.fv[t])]
      x2 == IF r.c = "none" THEN x1
            ELSE IF r.c = "resume" THEN [x1 EXCEPT !.ts[t] = "Resuming", !.tw[t] = SetFade(2, r.d, x1.fv[t])]
            ELSE [x1 EXCEPT !.ts[t] = "WaitingToResume", !.wait[t] = [kind |-> r.wk, left |-> r.wt, d |-> r.d]]
  IN [x2 EXCEPT !.sh[t] = x2.ts[t]]

\* a sound's on_start_processing: removal of a finished sound happened just before (by its track)
SoundStart(x, s) ==
  LET x1 == IF x.sin[s] /\ x.sst[s] = "Stopped" THEN [x EXCEPT !.sin[s] = FALSE] ELSE x IN
  IF x1.sin[s] /\ stopc[s] /\ x1.sst[s] = "Playing" THEN [x1 EXCEPT !.sst[s] = "Stopping"] ELSE x1   \* stop(0) read

\* on_start_processing of track t (already known not to be removed)
StartTrack(x, t) ==
  LET s == IF t = "A" THEN "SA" ELSE "SB" IN SoundStart(ReadCmds(x, t), s)

\* the fade Parameter and the state step of PlaybackStateManager::update
FadeStep(x, t) ==
  IF ~x.tw[t].on THEN [x EXCEPT !.fprev[t] = x.fv[t], !.fin = FALSE]
  ELSE IF x.tw[t].left <= 1
       THEN [x EXCEPT !.fprev[t] = x.fv[t], !.fv[t] = x.tw[t].target, !.tw[t] = NoTw, !.fin = TRUE]
       ELSE [x EXCEPT !.fprev[t] = x.fv[t], !.tw[t].left = @ - 1, !.fin = FALSE,
                      !.fv[t] = IF x.tw[t].start = x.tw[t].target THEN x.tw[t].start ELSE 1]

StateStep(x, t) ==
  CASE x.ts[t] = "Pausing" /\ x.fin -> [x EXCEPT !.ts[t] = "Paused"]
    [] x.ts[t] = "Resuming" /\ x.fin -> [x EXCEPT !.ts[t] = "Playing"]
    [] x.ts[t] = "WaitingToResume" ->
         IF x.wait[t].kind = "noclock"
         THEN [x EXCEPT !.ts[t] = "Paused", !.wait[t] = NoWait]     \* the start time can never come: stay paused
         ELSE LET l == IF x.wait[t].left > 0 THEN x.wait[t].left - 1 ELSE 0 IN
              IF l = 0 THEN [x EXCEPT !.ts[t] = "Resuming", !.tw[t] = SetFade(2, x.wait[t].d, x.fv[t]), !.wait[t] = NoWait]
              ELSE [x EXCEPT !.wait[t].left = l]
    [] OTHER -> x

AdvT(s) == s \in {"Playing", "Pausing", "Resuming"}
GainOf(x, t) == IF x.fprev[t] = 2 /\ x.fv[t] = 2 THEN "full" ELSE IF x.fprev[t] = 0 /\ x.fv[t] = 0 THEN "zero" ELSE "mid"
Mix(g1, g2) == IF g1 = "zero" \/ g2 = "zero" THEN "zero" ELSE IF g1 = "full" /\ g2 = "full" THEN "full" ELSE "mid"

\* a sound's process: stop(0) makes it Stopped in this chunk and silent; otherwise it plays NF frames
\* returns <<state', heard>> with heard in {"none", "full", "mid", "zero"}
SoundProc(x, s, gain) ==
  IF ~x.sin[s] \/ x.sst[s] = "Stopped" THEN <<x, "none">>
  ELSE IF x.sst[s] = "Stopping" THEN <<[x EXCEPT !.sst[s] = "Stopped"], "none">>    \* zero-length fade ends: silent
  ELSE <<[x EXCEPT !.spos[s] = @ + NF], gain>>

Callback ==
  /\ cb < MaxCb /\ cb' = cb + 1 /\ act' = <<"Callback">>
  /\ pendP' = [t \in Tracks |-> NoCmd] /\ pendR' = [t \in Tracks |-> NoCmd]
  /\ stopc' = [s \in Sounds |-> FALSE] /\ picked' = TRUE
  /\ LET x0 == Pack @@ [fin |-> FALSE]
         \* ---- on_start_processing
         \* a track still in the new-resource ring is inserted after the removal pass of its first callback
         remA == picked /\ x0.alive["A"] /\ ShouldRemove(x0, "A")
         x1 == IF ~x0.alive["A"] THEN x0
               ELSE IF remA THEN [x0 EXCEPT !.alive["A"] = FALSE, !.alive["B"] = FALSE]
               ELSE LET a == StartTrack(x0, "A")
                        remB == picked /\ a.alive["B"] /\ ShouldRemove(a, "B") IN
                    IF ~a.alive["B"] THEN a
                    ELSE IF remB THEN [a EXCEPT !.alive["B"] = FALSE]
                    ELSE StartTrack(a, "B")
         \* ---- process
         pa == IF x1.alive["A"] THEN StateStep(FadeStep(x1, "A"), "A") ELSE x1
         pa2 == [pa EXCEPT !.sh["A"] = pa.ts["A"]]
         advA == pa2.alive["A"] /\ AdvT(pa2.ts["A"])
         gA == GainOf(pa2, "A")
         pb == IF advA /\ pa2.alive["B"] THEN StateStep(FadeStep(pa2, "B"), "B") ELSE pa2
         pb2 == IF advA /\ pa2.alive["B"] THEN [pb EXCEPT !.sh["B"] = pb.ts["B"]] ELSE pb
         advB == advA /\ pb2.alive["B"] /\ AdvT(pb2.ts["B"])
         gB == Mix(gA, GainOf(pb2, "B"))
         rb == IF advB THEN SoundProc(pb2, "SB", gB) ELSE <<pb2, "none">>
         ra == IF advA THEN SoundProc(rb[1], "SA", gA) ELSE <<rb[1], "none">>
         y == ra[1]
         heard == [s \in Sounds |-> IF s = "SA" THEN ra[2] ELSE rb[2]]
         firstOf(s) == IF heard[s] = "full" THEN spos[s] ELSE IF heard[s] = "mid" THEN -2 ELSE -1
     IN
     /\ ts' = y.ts /\ fv' = y.fv /\ fprev' = y.fprev /\ tw' = y.tw /\ wait' = y.wait /\ alive' = y.alive
     /\ sh' = y.sh /\ sst' = y.sst /\ spos' = y.spos /\ sin' = y.sin
     /\ ev' = [a |-> "cb",
               st |-> [t \in Tracks |-> IF mark[t] THEN "gone" ELSE y.sh[t]],
               first |-> [s \in Sounds |-> firstOf(s)],
               zero |-> [s \in Sounds |-> heard[s] \in {"none", "zero"}],
               sst |-> y.sst,
               ntop |-> IF y.alive["A"] THEN 1 ELSE 0,
               nA |-> IF mark["A"] THEN -1 ELSE IF y.alive["B"] THEN 1 ELSE 0,
               panicked |-> FALSE]
  /\ UNCHANGED <<mark, nops>>

INext == \/ \E t \in Tracks, d \in Durs : Cmd(t, "pause", d, "none", 0) \/ Cmd(t, "resume", d, "none", 0)
         \/ \E t \in Tracks, d \in Durs, wk \in {"delayed", "clock", "noclock"}, wt \in Waits : Cmd(t, "resume_at", d, wk, wt)
         \/ \E t \in Tracks : Drop(t)
         \/ \E s \in Sounds : Stop(s)
         \/ Callback

Monitor ==
  LET r == Check(mon, ev') IN
  IF bad # "" THEN UNCHANGED <<mon, bad>>
  ELSE IF r # "" THEN bad' = r /\ UNCHANGED mon
  ELSE bad' = "" /\ mon' = Upd(mon, ev')

Next == INext /\ Monitor
Spec == Init /\ [][Next]_vars

PropertyHolds == bad = ""
StatesValid == \A t \in Tracks : ts[t] \in TrackStates
ChildNeverOutlivesParent == alive["B"] => alive["A"]
NeverRemovedWhileChildHandleAlive == (~mark["B"] /\ alive["B"]) => alive["A"]
W_Removed == alive["A"]
W_FrozenChild == ~(ts["A"] = "Paused" /\ cb > 2 /\ spos["SB"] > 0)
=============================================================================
