SPECIFICATION Spec
CONSTANTS
  Durs = {0, 2}
  Waits = {0, 2}
  MaxOps = 3
  MaxCb = 6
  PersistA = FALSE
  PersistB = FALSE
  PersistC = FALSE
  Depth = 2
  NF = 4
VIEW View
INVARIANTS PropertyHolds StatesValid ChildNeverOutlivesParent NeverRemovedWhileChildHandleAlive
CHECK_DEADLOCK FALSE
