------------------------------ MODULE P_C01 ------------------------------
(* Property-level specification of C01 (the audio callback is real-time     *)
(* safe and its output is always well-formed), from the statement.  The     *)
(* monitor judges the record the harness measures around every callback:    *)
(*   cb m   m.panicked, m.allocs / m.frees (heap operations on the audio     *)
(*          thread while inside the callback), m.nonfinite / m.out_of_range  *)
(*          (samples that are not finite / outside [-1, 1]), m.extra_nonzero *)
(*          (non-silent samples in channels beyond the second), m.mix_bad    *)
(*          (frames whose mono sample is not the mean of left and right, or  *)
(*          whose first two channels differ from the stereo rendering)       *)
(*   hang   a callback did not return within the watchdog time               *)
EXTENDS Integers

PInit == [cbs |-> 0]
Check(m, e) ==
  CASE e.a = "cb" ->
         IF e.m.panicked THEN "no_panic"
         ELSE IF e.m.allocs # 0 \/ e.m.frees # 0 THEN "no_heap_allocation_on_the_audio_thread"
         ELSE IF e.m.nonfinite # 0 THEN "every_sample_finite"
         ELSE IF e.m.out_of_range # 0 THEN "every_sample_within_minus_one_and_one"
         ELSE IF e.m.extra_nonzero # 0 THEN "extra_channels_silent"
         ELSE IF e.m.mix_bad # 0 THEN "mono_is_mean_and_stereo_unchanged"
         ELSE ""
    [] e.a = "hang" -> "returns_promptly"
    [] OTHER -> ""
Upd(m, e) == IF e.a = "cb" THEN [m EXCEPT !.cbs = @ + 1] ELSE m
=============================================================================
