--------------------------- MODULE Gen_StreamSeek ---------------------------
(* Generator for C07 scene T: every order of seek_to writes (targets Xs) and   *)
(* callbacks up to depth D with at most MaxW writes.  What is heard when is   *)
(* not predicted here (it depends on how far ahead the decoder thread is):    *)
(* the recorded sessions are judged by the stream-seek clauses of P_C07.      *)
EXTENDS Integers, Sequences, TLC, Json
CONSTANTS Xs, D, MaxW
VARIABLES hist, nw
Init == hist = <<>> /\ nw = 0
\* (each target at most once per session: a jump then names the seek it belongs to)
Used == {hist[i].v.x : i \in {j \in 1..Len(hist) : hist[j].act = "W"}}
W(x) == nw < MaxW /\ x \notin Used /\ nw' = nw + 1 /\ hist' = Append(hist, [act |-> "W", key |-> "st.seek", v |-> [k |-> "abs", x |-> x]])
Cb == hist' = Append(hist, [act |-> "Callback"]) /\ UNCHANGED nw
Next == Cb \/ \E x \in Xs : W(x)
Spec == Init /\ [][Next]_<<hist, nw>>
Bound == Len(hist) <= D
Dump == Len(hist) = D => PrintT(<<"BEHAVIOUR", ToJson(hist)>>)
=============================================================================
