SPECIFICATION TSpec
INVARIANT Report
CHECK_DEADLOCK FALSE
