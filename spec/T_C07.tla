------------------------------- MODULE T_C07 -------------------------------
(* Trace validation for C07: channel sessions (two real threads on one      *)
(* command writer/reader pair) against the channel monitor, handle sessions *)
(* (real handles of a small scene) against the handle monitor of P_C07.     *)
EXTENDS Integers, Sequences, FiniteSets, TLC, Json, IOUtils, P_C07

Rec == ndJsonDeserialize(IOEnv.TRACE)
VARIABLES l, mon, mode, bad
tvars == <<l, mon, mode, bad>>

TInit == l = 1 /\ mon = CInit /\ mode = "skip" /\ bad = <<>>
TNext ==
  /\ l <= Len(Rec)
  /\ l' = l + 1
  /\ LET e == Rec[l] IN
     IF e.a = "reset" THEN /\ mon' = IF e.mode = "chan" THEN CInit ELSE [HInit(e.init) EXCEPT !.ring = e.ring]
                           /\ mode' = e.mode /\ bad' = bad
     ELSE IF mode = "skip" \/ e.a = "end" THEN UNCHANGED <<mon, mode, bad>>
     ELSE LET r == IF mode = "chan" THEN CCheck(mon, e) ELSE HCheck(mon, e) IN
          IF r = "" THEN mon' = (IF mode = "chan" THEN CUpd(mon, e) ELSE HUpd(mon, e)) /\ UNCHANGED <<mode, bad>>
          ELSE /\ mode' = "skip" /\ UNCHANGED mon
               /\ bad' = Append(bad, [s |-> e.s, i |-> e.i, a |-> e.a, reason |-> r])
TSpec == TInit /\ [][TNext]_tvars
Done == l = Len(Rec) + 1
Report == Done => /\ PrintT(<<"BAD", ToJson(bad)>>)
                  /\ PrintT(<<"CONSUMED", l - 1, Len(Rec)>>)
=============================================================================
