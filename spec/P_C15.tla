------------------------------- MODULE P_C15 -------------------------------
(* Property-level specification of C15 (spatial tracks: loudness from       *)
(* distance, balance from direction, needs a listener), written from the    *)
(* property statement as a deterministic monitor over events.               *)
(*                                                                          *)
(* A session starts with a `reset` event carrying its constants (cfg) and   *)
(* is of one of two kinds.                                                  *)
(*                                                                          *)
(* kind = "life" (listener life cycle; events of Spatial.tla or of the      *)
(* driver `c15`).  nt tracks, ml listeners, every probe's distance          *)
(* parameter starts at dflt.  Listener x sits at (d, 0, 0), spatial track t *)
(* at (x_t, 0, 0); every track carries a probe sound (id t; the probe on    *)
(* its non-spatial descendant of depth k has id k * nt + t) that emits DC   *)
(* 2^-id and owns a parameter mapped 1:1 from the listener distance.        *)
(* Distances stay within the minimum distance and the strength is 0, so a   *)
(* heard probe contributes exactly 2^-id to both channels.                  *)
(*   add_listener  l d ok     drop_listener l     move_listener l d         *)
(*   add_track     t b par x ok   spatial track t bound to the id of        *)
(*                 listener b (0: an id that never named a listener here),  *)
(*                 child of spatial track par (0: of the main track)        *)
(*   add_child     t k ok     non-spatial descendant of depth k below t     *)
(*   cb   p fin dec z pr      one device callback: panicked, all samples    *)
(*        finite, level = sum of 2^-id, every sample exactly 0, and per     *)
(*        existing probe [id, h (heard), has (listener distance available), *)
(*        dv (parameter value * 1000)]                                      *)
(* When a listener exists is taken from the statement of C08: created =>    *)
(* exists from the next callback on; handle dropped => removed by the next  *)
(* callback (by the one after if the audio thread had not picked it up      *)
(* yet: during that one callback the statement allows both).                *)
(*                                                                          *)
(* kind = "geo" (geometric laws over recorded renderings of a DC source).   *)
(* cfg: q (coordinates are integers / q), minc, maxc (within the minimum    *)
(* distance iff d^2 q^2 <= minc, at or beyond the maximum iff >= maxc),     *)
(* att (an attenuation curve is configured), st (strength * 1000), tol      *)
(* (units of 10^-6), side (FALSE: emitters may lie inside the listener's    *)
(* head, between the ears, where "the emitter's side" has no meaning; the   *)
(* louder-ear clause is then not applied).                                  *)
(*   o   l e R rel M t gl gr z fin flat p                                   *)
(*       listener at l with orientation R (rotation matrix, row major,      *)
(*       column 1 = the listener's right), emitter at e; gl, gr = output /  *)
(*       input per channel * 10^6; rel = 1: the emitter is the mirror image *)
(*       (through the listener's median plane) of the last rel = 0 event;   *)
(*       rel = 2: listener and emitter are those of the last rel = 0 event  *)
(*       moved by v -> M v + t.                                             *)
(* Check(m, e) = name of the first clause of the statement the event        *)
(* contradicts, or "".  Reasons starting with "harness_" say that the       *)
(* event is not one the monitor is defined for (a tool problem).            *)
EXTENDS Integers, Sequences, FiniteSets

Abs(x) == IF x < 0 THEN -x ELSE x
ONE == 1000000

\* ------------------------------------------------------------------ life cycle
PInitLife(c) ==
  [ kind |-> "life", cfg |-> c,
    lst  |-> [x \in 1..c.ml |-> "none"],      \* none | queued | live | marked_q | marked | gone | failed
    ld   |-> [x \in 1..c.ml |-> 0],           \* where the listener was last put
    ldp  |-> [x \in 1..c.ml |-> 0],           \* where it was at the previous callback
    tb   |-> [t \in 1..c.nt |-> -1],          \* bound listener (0: foreign id, -1: track not created)
    tp   |-> [t \in 1..c.nt |-> 0],
    tx   |-> [t \in 1..c.nt |-> 0],
    probes |-> {},
    last |-> [q \in 1..(3 * c.nt) |-> c.dflt] ]

\* does listener b exist while the next callback renders?
ExDuring(st) == CASE st \in {"queued", "live"} -> "yes"
                  [] st = "marked_q" -> "maybe"
                  [] OTHER -> "no"
LEx(m, b) == IF b <= 0 THEN "no" ELSE ExDuring(m.lst[b])

RECURSIVE Chain(_, _)
Chain(m, t) == IF t = 0 THEN {} ELSE {t} \cup Chain(m, m.tp[t])      \* the spatial tracks the probe's signal passes
Gov(m, q) == ((q - 1) % m.cfg.nt) + 1                                 \* the spatial track whose info the probe sees
ExSet(m, q) == {LEx(m, m.tb[s]) : s \in Chain(m, Gov(m, q))}

ProbeCheck(m, r) ==
  LET t == Gov(m, r.id)
      b == m.tb[t]
      g == LEx(m, b)
      exs == ExSet(m, r.id)
      follows == r.has /\ r.dv \in {Abs(m.ld[b] - m.tx[t]) * 1000, Abs(m.ldp[b] - m.tx[t]) * 1000}
      holds == ~r.has /\ r.dv = m.last[r.id]
      \* the second parameter (input range [0, 1], curved easing): at the end of its output range for every distance >= 1
      Cl(d) == IF d = 0 THEN 0 ELSE 1000
      clamped == r.dv2 \in {Cl(Abs(m.ld[b] - m.tx[t])), Cl(Abs(m.ldp[b] - m.tx[t]))}
  IN IF "no" \in exs /\ r.h THEN "silent_without_listener"
     ELSE IF exs = {"yes"} /\ ~r.h THEN "audible_with_listener"
     ELSE IF g = "yes" /\ ~follows THEN "distance_parameter_follows_listener"
     ELSE IF g = "yes" /\ r.has /\ ~clamped THEN "distance_mapping_clamps_beyond_its_input_range"
     ELSE IF g = "no" /\ ~holds THEN "distance_parameter_holds_without_listener"
     ELSE IF g = "maybe" /\ ~(follows \/ holds) THEN "distance_parameter_follows_listener"
     ELSE ""

CheckCb(m, e) ==
  LET ids == {e.pr[i].id : i \in DOMAIN e.pr}
      badp == {i \in DOMAIN e.pr : ProbeCheck(m, e.pr[i]) # ""}
  IN IF e.p THEN "no_panic"
     ELSE IF ids # m.probes \/ Cardinality(ids) # Len(e.pr) THEN "harness_probe_set"
     ELSE IF ~e.fin THEN "output_finite"
     ELSE IF (\A q \in m.probes : "no" \in ExSet(m, q)) /\ ~e.z THEN "silent_without_listener"
     ELSE IF ~e.dec THEN "unity_gain_within_min_distance"
     ELSE IF badp # {} THEN ProbeCheck(m, e.pr[CHOOSE i \in badp : \A j \in badp : i <= j])
     ELSE ""

CheckLife(m, e) ==
  CASE e.a = "add_listener" ->
         IF e.l \notin 1..m.cfg.ml \/ m.lst[e.l] # "none" THEN "harness_listener_reused" ELSE ""
    [] e.a \in {"drop_listener", "move_listener"} ->
         IF e.l \notin 1..m.cfg.ml \/ m.lst[e.l] \notin {"queued", "live"} THEN "harness_no_handle" ELSE ""
    [] e.a = "add_track" ->
         IF e.t \notin 1..m.cfg.nt \/ m.tb[e.t] # -1 THEN "harness_track_reused"
         ELSE IF ~(e.b = 0 \/ (e.b \in 1..m.cfg.ml /\ m.lst[e.b] \notin {"none", "failed"})) THEN "harness_no_such_id"
         ELSE IF ~(e.par = 0 \/ (e.par \in 1..m.cfg.nt /\ m.tb[e.par] # -1)) THEN "harness_no_parent"
         ELSE IF ~e.ok THEN "harness_track_limit"
         ELSE ""
    [] e.a = "add_child" ->
         IF e.t \notin 1..m.cfg.nt \/ e.k \notin 1..2 \/ ((e.k - 1) * m.cfg.nt + e.t) \notin m.probes
            \/ (e.k * m.cfg.nt + e.t) \in m.probes THEN "harness_no_parent"
         ELSE IF ~e.ok THEN "harness_track_limit"
         ELSE ""
    [] e.a = "cb" -> CheckCb(m, e)
    [] OTHER -> ""

UpdLife(m, e) ==
  CASE e.a = "add_listener" ->
         IF e.ok THEN [m EXCEPT !.lst[e.l] = "queued", !.ld[e.l] = e.d, !.ldp[e.l] = e.d]
         ELSE [m EXCEPT !.lst[e.l] = "failed"]
    [] e.a = "drop_listener" -> [m EXCEPT !.lst[e.l] = IF @ = "queued" THEN "marked_q" ELSE "marked"]
    [] e.a = "move_listener" -> [m EXCEPT !.ld[e.l] = e.d]
    [] e.a = "add_track" -> [m EXCEPT !.tb[e.t] = e.b, !.tp[e.t] = e.par, !.tx[e.t] = e.x, !.probes = @ \cup {e.t}]
    [] e.a = "add_child" -> [m EXCEPT !.probes = @ \cup {e.k * m.cfg.nt + e.t}]
    [] e.a = "cb" ->
         [m EXCEPT !.lst = [x \in DOMAIN m.lst |->
                              CASE m.lst[x] = "queued" -> "live"
                                [] m.lst[x] = "marked_q" -> "marked"
                                [] m.lst[x] = "marked" -> "gone"
                                [] OTHER -> m.lst[x]],
                   !.ldp = m.ld,
                   !.last = [q \in DOMAIN m.last |->
                               IF \E i \in DOMAIN e.pr : e.pr[i].id = q
                               THEN e.pr[CHOOSE i \in DOMAIN e.pr : e.pr[i].id = q].dv ELSE m.last[q]]]
    [] OTHER -> m

\* ------------------------------------------------------------------ geometry
Sub3(a, b) == <<a[1] - b[1], a[2] - b[2], a[3] - b[3]>>
Add3(a, b) == <<a[1] + b[1], a[2] + b[2], a[3] + b[3]>>
Dot3(a, b) == a[1] * b[1] + a[2] * b[2] + a[3] * b[3]
Scale3(k, a) == <<k * a[1], k * a[2], k * a[3]>>
Row(R, i) == <<R[3 * i - 2], R[3 * i - 1], R[3 * i]>>
Col(R, j) == <<R[j], R[3 + j], R[6 + j]>>
MulMV(R, v) == <<Dot3(Row(R, 1), v), Dot3(Row(R, 2), v), Dot3(Row(R, 3), v)>>
MulMM(A, B) == <<Dot3(Row(A, 1), Col(B, 1)), Dot3(Row(A, 1), Col(B, 2)), Dot3(Row(A, 1), Col(B, 3)),
                 Dot3(Row(A, 2), Col(B, 1)), Dot3(Row(A, 2), Col(B, 2)), Dot3(Row(A, 2), Col(B, 3)),
                 Dot3(Row(A, 3), Col(B, 1)), Dot3(Row(A, 3), Col(B, 2)), Dot3(Row(A, 3), Col(B, 3))>>
Det3(R) == R[1] * (R[5] * R[9] - R[6] * R[8]) - R[2] * (R[4] * R[9] - R[6] * R[7]) + R[3] * (R[4] * R[8] - R[5] * R[7])
Eq3(a, b) == a[1] = b[1] /\ a[2] = b[2] /\ a[3] = b[3]
EqM(A, B) == \A k \in 1..9 : A[k] = B[k]
\* one of the 24 rotations that map the coordinate axes onto each other
IsRot(R) == /\ Len(R) = 9 /\ \A k \in 1..9 : R[k] \in {-1, 0, 1}
            /\ \A i, j \in 1..3 : Dot3(Row(R, i), Row(R, j)) = (IF i = j THEN 1 ELSE 0)
            /\ Det3(R) = 1

PInitGeo(c) == [kind |-> "geo", cfg |-> c, hb |-> FALSE, base |-> <<>>, hl |-> FALSE, ld2 |-> 0, lgl |-> 0, lgr |-> 0]

Dist2(e) == LET v == Sub3(e.e, e.l) IN Dot3(v, v)
Side(e) == Dot3(Sub3(e.e, e.l), Col(e.R, 1))          \* > 0: the emitter is on the listener's right
Mirror(e) == Sub3(e.e, Scale3(2 * Side(e), Col(e.R, 1)))

CheckGeo(m, e) ==
  LET c == m.cfg
      tol == c.tol
      d2 == Dist2(e)
      side == Side(e)
      within == d2 <= c.minc
      beyond == d2 >= c.maxc
      plain == ~c.att \/ within                      \* no attenuation applies
      lo == ONE - c.st * 1000
      b == m.base
  IN IF e.a = "x" THEN (IF e.p THEN "no_panic" ELSE IF ~e.fin THEN "output_finite"              \* arbitrary f32 coordinates
                        \* the emitter exactly on one of the listener's ears, well within the minimum distance: no attenuation, and
                        \* each ear's gain within [1 - strength, 1] like anywhere else (silence there is not "finite", it is a hole)
                        ELSE IF c.cls = "on-ear" /\ "gl" \in DOMAIN e /\ (e.gl > ONE + tol \/ e.gr > ONE + tol) THEN "gain_at_most_one"
                        ELSE IF c.cls = "on-ear" /\ "gl" \in DOMAIN e /\ (e.gl < lo - tol \/ e.gr < lo - tol) THEN "ear_gain_at_least_one_minus_strength"
                        ELSE "")
     ELSE IF e.a # "o" THEN ""
     ELSE IF e.p THEN "no_panic"
     ELSE IF ~IsRot(e.R) THEN "harness_bad_orientation"
     ELSE IF ~e.fin THEN "output_finite"
     \* (positions were set with instantaneous tweens two callbacks ago: the level depends on positions only, so it is steady)
     ELSE IF ~e.flat THEN "level_steady_once_positions_are"
     ELSE IF c.att /\ beyond /\ ~e.z THEN "zero_at_or_beyond_max_distance"
     ELSE IF e.gl > ONE + tol \/ e.gr > ONE + tol THEN "gain_at_most_one"
     ELSE IF e.gl < 0 \/ e.gr < 0 THEN "ear_gain_at_least_one_minus_strength"
     ELSE IF plain /\ (e.gl < lo - tol \/ e.gr < lo - tol)
          THEN (IF c.st # 0 THEN "ear_gain_at_least_one_minus_strength"
                ELSE IF c.att THEN "unity_within_min_distance" ELSE "strength_zero_passes_unpanned")
     ELSE IF c.st = 0 /\ Abs(e.gl - e.gr) > tol THEN "strength_zero_passes_unpanned"
     ELSE IF c.side /\ c.st # 0 /\ side > 0 /\ e.gr < e.gl - tol THEN "louder_ear_on_emitter_side"
     ELSE IF c.side /\ c.st # 0 /\ side < 0 /\ e.gl < e.gr - tol THEN "louder_ear_on_emitter_side"
     ELSE IF side = 0 /\ Abs(e.gl - e.gr) > tol THEN "swap_under_mirroring"
     ELSE IF m.hl /\ c.st = 0 /\ c.att /\ d2 = m.ld2 /\ Abs(e.gl - m.lgl) > tol THEN "attenuation_depends_only_on_distance"
     ELSE IF m.hl /\ c.st = 0 /\ c.att /\ d2 > m.ld2 /\ e.gl > m.lgl + tol THEN "attenuation_non_increasing"
     ELSE IF m.hl /\ c.st = 0 /\ c.att /\ d2 < m.ld2 /\ e.gl < m.lgl - tol THEN "attenuation_non_increasing"
     ELSE IF e.rel = 0 THEN ""
     ELSE IF ~m.hb THEN "harness_no_base"
     ELSE IF e.rel = 1 THEN
          (IF ~(Eq3(e.l, b.l) /\ EqM(e.R, b.R) /\ Eq3(e.e, Mirror(b))) THEN "harness_not_mirror"
           ELSE IF Abs(e.gl - b.gr) > tol \/ Abs(e.gr - b.gl) > tol THEN "swap_under_mirroring"
           ELSE "")
     ELSE IF e.rel = 2 THEN
          (IF ~IsRot(e.M) THEN "harness_bad_motion"
           ELSE IF ~(Eq3(e.l, Add3(MulMV(e.M, b.l), e.t)) /\ Eq3(e.e, Add3(MulMV(e.M, b.e), e.t))
                     /\ EqM(e.R, MulMM(e.M, b.R))) THEN "harness_not_rigid_motion"
           ELSE IF Abs(e.gl - b.gl) > tol \/ Abs(e.gr - b.gr) > tol THEN "invariant_under_rigid_motion"
           ELSE "")
     ELSE "harness_rel"

UpdGeo(m, e) ==
  IF e.a # "o" \/ e.p THEN m
  ELSE LET m1 == [m EXCEPT !.hl = TRUE, !.ld2 = Dist2(e), !.lgl = e.gl, !.lgr = e.gr]
       IN IF e.rel = 0 THEN [m1 EXCEPT !.hb = TRUE, !.base = e] ELSE m1

\* ------------------------------------------------------------------ a distance mapping installed through the handle
\* kind = "vmap": the track's volume is set (with a tween) to a mapping from the listener distance, 0..16 units onto
\* 0..-16 dB; once the tween is over the gain follows the distance - also after the emitter has moved.
\*   vm x g      the emitter sits x units from the listener (steady state); g = gain * 10^6
AmpDb == <<1000000, 891251, 794328, 707946, 630957, 562341, 501187, 446684, 398107,
           354813, 316228, 281838, 251189, 223872, 199526, 177828, 158489>>          \* 10^(-x/20) * 10^6, x = 0..16
CheckVm(m, e) ==
  IF e.a # "vm" THEN ""
  ELSE IF e.p THEN "no_panic"
  ELSE IF e.x < 0 \/ e.x > 16 THEN "harness_distance_out_of_table"
  ELSE IF Abs(e.g - AmpDb[e.x + 1]) > 60 THEN "distance_parameter_follows_listener"
  ELSE ""

\* ------------------------------------------------------------------ a rigid motion under way
\* kind = "glide": listener and emitter are moved by the same translation with the same tween (started at once or at a
\* tick of a clock); gl: one callback meanwhile or afterwards, dl / dr = largest deviation (gain * 10^6) of any frame's
\* left / right level from the level before the motion; bl = that level (it must be audible for the test to mean anything)
CheckGlide(m, e) ==
  IF e.a # "gl" THEN ""
  ELSE IF e.p THEN "no_panic"
  ELSE IF e.bl <= 0 THEN "harness_glide_inaudible"
  ELSE IF e.dl > m.cfg.tol \/ e.dr > m.cfg.tol THEN "invariant_under_rigid_motion"
  ELSE ""

\* ------------------------------------------------------------------ a listener and its track created between two drains
\* kind = "pickup" (PickUpOrder.tla, edge mixer -> listeners): pk: for each of four callbacks, ran[j] = the sound on the new
\* spatial track was processed, loud[j] = the callback's output was not silent.  The listener exists, so the track is heard
\* whenever it runs.
CheckPickup(m, e) ==
  IF e.a # "pk" THEN ""
  ELSE IF e.p THEN "no_panic"
  ELSE IF \E j \in 1..Len(e.ran) : e.ran[j] /\ ~e.loud[j] THEN "spatial_track_finds_its_listener_from_its_first_callback"
  ELSE IF ~e.ran[Len(e.ran)] THEN "harness_pickup_never_ran"
  ELSE ""

\* ------------------------------------------------------------------ both
PInit(c) == IF c.kind = "life" THEN PInitLife(c)
            ELSE IF c.kind = "geo" THEN PInitGeo(c)
            ELSE [kind |-> "none", cfg |-> c]
Check(m, e) == IF m.kind = "life" THEN CheckLife(m, e)
               ELSE IF m.kind = "geo" THEN CheckGeo(m, e)
               ELSE IF m.kind = "none" /\ m.cfg.kind = "vmap" THEN CheckVm(m, e)
               ELSE IF m.kind = "none" /\ m.cfg.kind = "glide" THEN CheckGlide(m, e)
               ELSE IF m.kind = "none" /\ m.cfg.kind = "pickup" THEN CheckPickup(m, e) ELSE ""
Upd(m, e) == IF m.kind = "life" THEN UpdLife(m, e)
             ELSE IF m.kind = "geo" THEN UpdGeo(m, e) ELSE m
=============================================================================
