--------------------------- MODULE Gen_SampleRate ---------------------------
EXTENDS SampleRate, Json
CONSTANT D
VARIABLE hist
GInit == Init /\ hist = <<[act |-> "Init", r |-> dev, ev |-> ev]>>
Step == IF act'[1] \in {"Change", "ChangeA"} THEN [act |-> act'[1], r |-> act'[2], ev |-> ev'] ELSE [act |-> act'[1], ev |-> ev']
GNext == Next /\ hist' = Append(hist, Step)
GSpec == GInit /\ [][GNext]_<<vars, hist>>
Bound == Len(hist) <= D
Dump == (Len(hist) = D /\ evq = <<>> /\ gpc = "idle" /\ cpc = "idle") => PrintT(<<"BEHAVIOUR", ToJson(hist)>>)
=============================================================================
