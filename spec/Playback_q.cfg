SPECIFICATION Spec
CONSTANTS
  Durs = {0, 1, 3}
  Waits = {0, 1, 2}
  MaxCmd = 3
  MaxCb = 7
  Finite = FALSE
  LenC = 3
  NF = 4
VIEW View
INVARIANTS PropertyHolds FadeClassOK
PROPERTY StoppedAbsorbing
CHECK_DEADLOCK FALSE
