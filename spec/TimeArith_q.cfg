\* quick: fractions k/8, ticks 0..3, amounts -4..4 ticks in steps of 1/8 (and whole ticks 0..4),
\* mapping inputs k/16 over 4 input ranges x 3 output ranges x 10 integer-power easings (power 1..3),
\* clock speeds 2^-6..2^6 in the three units.  Model of the source as it is (Fixed = FALSE).
\* Measured: 8 890 distinct states (= tabulated cases + one initial state per session, 282 sessions), depth 66, 4 s on 4 workers.
\* PropertyHolds = the model of the source satisfies P_C19 on every case, except the two named known findings;
\* with Fixed = TRUE the invariant `Strict` (no exception) holds.  W_* are witnesses (each must be violated).
SPECIFICATION Spec
CONSTANTS
  Q = 8
  MaxT = 3
  MaxA = 4
  Fixed = FALSE
INVARIANTS PropertyHolds LawFractionInRange LawAddThenSub LawSubThenAdd LawNoWrap LawAddExact LawDispatch LawWholeTicks LawOrder LawFromTicks LawCodeAgrees LawEasingEndpoints LawEasingMonotone LawEasingExactlyScalable LawMappingClamps LawSpeedConsistent
CHECK_DEADLOCK FALSE
