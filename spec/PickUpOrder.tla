---------------------------- MODULE PickUpOrder ----------------------------
(* How new resources of every kind reach the audio thread, and why the      *)
(* order of the drains matters (crates/kira/src/backend/renderer.rs          *)
(* Renderer::on_start_processing: mixer, clocks, listeners, modulators;      *)
(* resources.rs remove_and_add; yield point sto.refill before every drain).  *)
(*                                                                           *)
(* The gameplay thread can only build something that reads another resource  *)
(* after that resource exists: it pushes the dependency into the ring of its *)
(* storage first, then the dependent into its own ring.  The audio thread    *)
(* drains the rings one after the other.  Checked: whenever a callback       *)
(* renders, every resource in an arena finds the resources it reads          *)
(* (otherwise: a sound whose start time names the clock is stopped for good, *)
(* a linked parameter sits on its default for a callback, a spatial track is *)
(* silent for a callback).  This holds exactly when every dependent kind is  *)
(* drained BEFORE the kinds it depends on - Order below; the reversed order  *)
(* is kept as a variant for its counterexample, which is the schedule of the *)
(* C17 check's "pickup" sessions.                                            *)
EXTENDS Integers, Sequences, FiniteSets, TLC

CONSTANTS Order,      \* sequence of storage kinds in the order of their drains
          Edges,      \* set of <<dependent kind, dependency kind>>
          NPairs, MaxCb

Kinds == {Order[i] : i \in DOMAIN Order}
VARIABLES ring,       \* [Kinds -> sequence of pair numbers]
          arena,      \* [Kinds -> set of pair numbers]
          edgeOf,     \* pair number -> its edge
          gpc,        \* <<"idle">> | <<"depPushed", pair>>
          built, apc, cb      \* apc: number of drains done in the running callback (0 = idle .. Len(Order) = all done)
vars == <<ring, arena, edgeOf, gpc, built, apc, cb>>

Init == /\ ring = [k \in Kinds |-> <<>>] /\ arena = [k \in Kinds |-> {}]
        /\ edgeOf = <<>> /\ gpc = <<"idle">> /\ built = 0 /\ apc = 0 /\ cb = 0

PushDependency(e) ==
  /\ gpc = <<"idle">> /\ built < NPairs
  /\ ring' = [ring EXCEPT ![e[2]] = Append(@, built + 1)]
  /\ edgeOf' = Append(edgeOf, e) /\ gpc' = <<"depPushed", built + 1>>
  /\ UNCHANGED <<arena, built, apc, cb>>
PushDependent ==
  /\ gpc[1] = "depPushed"
  /\ ring' = [ring EXCEPT ![edgeOf[gpc[2]][1]] = Append(@, gpc[2])]
  /\ gpc' = <<"idle">> /\ built' = built + 1
  /\ UNCHANGED <<arena, edgeOf, apc, cb>>

Range(s) == {s[i] : i \in DOMAIN s}
\* entries of kind k's arena are dependents (of pairs whose edge starts at k) and dependencies (edge ends at k); a kind may
\* be both, so arena entries are tagged
Drain ==
  /\ apc < Len(Order) /\ cb < MaxCb
  /\ LET k == Order[apc + 1] IN
     /\ arena' = [arena EXCEPT ![k] = @ \cup Range(ring[k])]
     /\ ring' = [ring EXCEPT ![k] = <<>>]
  /\ apc' = apc + 1
  /\ UNCHANGED <<edgeOf, gpc, built, cb>>
Render == /\ apc = Len(Order) /\ apc' = 0 /\ cb' = cb + 1
          /\ UNCHANGED <<ring, arena, edgeOf, gpc, built>>

Next == (\E e \in Edges : PushDependency(e)) \/ PushDependent \/ Drain \/ Render
Spec == Init /\ [][Next]_vars

\* pair p's dependent is in its arena only if p's dependency is in its own
\* (a pair number is in arena[k] as dependent iff edgeOf[p][1] = k and it was pushed as such - pushes are one per pair and
\*  role, and a kind is never both ends of the same edge)
DependentIn(p) == p <= built /\ p \in arena[edgeOf[p][1]]
DependencyIn(p) == p \in arena[edgeOf[p][2]]
DependenciesComplete == apc = Len(Order) => \A p \in 1..Len(edgeOf) : DependentIn(p) => DependencyIn(p)
W_BuiltDuringDrains == ~(apc > 0 /\ apc < Len(Order) /\ gpc[1] = "depPushed")
=============================================================================
