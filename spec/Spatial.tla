------------------------------- MODULE Spatial -------------------------------
(* Implementation-level model of the listener life cycle as seen by spatial *)
(* tracks, written from the code:                                           *)
(*   manager.rs               add_listener = try_reserve + insert_with_key  *)
(*   atomic_arena             Controller (free list, LIFO; generation + 1   *)
(*                            on free), Arena::get (generation check)       *)
(*   backend/resources.rs     SelfReferentialResourceStorage::remove_and_add*)
(*                            (keys vector, unused ring of capacity NL + 1) *)
(*   backend/resources/listeners.rs, listener.rs, listener/handle.rs        *)
(*   track/sub.rs             Track::process: spatial info = own spatial    *)
(*                            data or the parent's; sounds are processed    *)
(*                            with it; no listener => every frame zeroed    *)
(*   info.rs                  Info::listener_info / listener_distance       *)
(*   parameter.rs, value.rs   Parameter::update keeps the raw value when    *)
(*                            Value::FromListenerDistance has no listener   *)
(* Granularity: one action per public API call and one per device callback  *)
(* (manager and renderer are driven from one thread; the interleavings of   *)
(* the arena hand-over itself are the subject of Arena.tla / C08).          *)
(* The scene is the one described in P_C15 (kind "life").  Every action     *)
(* emits an event `ev`; the property-level monitor of P_C15 runs in lock    *)
(* step (mon, bad).                                                         *)
EXTENDS Integers, Sequences, FiniteSets, TLC, P_C15

CONSTANTS NL,        \* listener capacity (slots)
          MaxL,      \* listeners ever created
          NT,        \* spatial tracks ever created
          MaxDepth,  \* non-spatial descendants below each spatial track (0..2)
          Dists,     \* x coordinates a listener can be put at
          MaxCb,     \* bound on the number of callbacks
          GenAware   \* TRUE: Arena::get compares generations (the code); FALSE: a hypothetical arena that does not

VARIABLES cfree, cgen, flist,            \* controller: free flags, generations, free list (head first)
          aocc, agen, keys,              \* arena: listener in each slot (0: free), generations, keys vector
          newRing, unused,               \* new-resource ring, number of entries in the unused-resource ring
          lwhere, lkey, lmark, lpos, lcmd,   \* per listener: fresh|failed|new|arena|removed, key, handle dropped, x, pending x
          tbind, titem, tpar, tx, tdepth,    \* per spatial track: bound key, (for the event) its listener, parent, x, depth
          pval,                          \* per probe: raw value of its distance parameter
          cb, ev, mon, bad

ivars == <<cfree, cgen, flist, aocc, agen, keys, newRing, unused, lwhere, lkey, lmark, lpos, lcmd,
           tbind, titem, tpar, tx, tdepth, pval, cb>>
vars == <<ivars, ev, mon, bad>>

Slots == 1..NL
LItems == 1..MaxL
Tracks == 1..NT
Probes == 1..((MaxDepth + 1) * NT)
NoKey == <<0, 0>>
Foreign == <<1, 99>>       \* a key of another manager: slot 1 at a generation this manager never reaches
Dflt == 15000
Cfg == [kind |-> "life", nt |-> NT, ml |-> MaxL, dflt |-> Dflt]

Init ==
  /\ cfree = [i \in Slots |-> TRUE] /\ cgen = [i \in Slots |-> 0] /\ flist = [i \in 1..NL |-> i]
  /\ aocc = [i \in Slots |-> 0] /\ agen = [i \in Slots |-> 0] /\ keys = <<>>
  /\ newRing = <<>> /\ unused = 0
  /\ lwhere = [x \in LItems |-> "fresh"] /\ lkey = [x \in LItems |-> NoKey] /\ lmark = [x \in LItems |-> FALSE]
  /\ lpos = [x \in LItems |-> 0] /\ lcmd = [x \in LItems |-> 0]
  /\ tbind = [t \in Tracks |-> NoKey] /\ titem = [t \in Tracks |-> -1] /\ tpar = [t \in Tracks |-> 0]
  /\ tx = [t \in Tracks |-> 0] /\ tdepth = [t \in Tracks |-> 0]
  /\ pval = [q \in Probes |-> Dflt]
  /\ cb = 0 /\ ev = [a |-> "tau"] /\ mon = PInit(Cfg) /\ bad = ""

Held(x) == lwhere[x] \in {"new", "arena"} /\ ~lmark[x]
Created(t) == titem[t] # -1

\* ---------------------------------------------------------------- gameplay
\* AudioManager::add_listener(position (d, 0, 0), identity)
AddListener(d) ==
  \E x \in LItems :
    /\ lwhere[x] = "fresh" /\ \A y \in LItems : y < x => lwhere[y] # "fresh"
    /\ IF flist = <<>>
       THEN /\ lwhere' = [lwhere EXCEPT ![x] = "failed"]
            /\ ev' = [a |-> "add_listener", l |-> x, d |-> d, ok |-> FALSE]
            /\ UNCHANGED <<cfree, flist, lkey, lpos, newRing, unused>>
       ELSE LET i == Head(flist) IN
            /\ flist' = Tail(flist) /\ cfree' = [cfree EXCEPT ![i] = FALSE]
            /\ lkey' = [lkey EXCEPT ![x] = <<i, cgen[i]>>]
            /\ lwhere' = [lwhere EXCEPT ![x] = "new"]
            /\ lpos' = [lpos EXCEPT ![x] = d]
            /\ unused' = 0                                   \* insert_with_key drains the unused ring
            /\ newRing' = Append(newRing, x)
            /\ ev' = [a |-> "add_listener", l |-> x, d |-> d, ok |-> TRUE]
    /\ UNCHANGED <<cgen, aocc, agen, keys, lmark, lcmd, tbind, titem, tpar, tx, tdepth, pval, cb>>

\* drop(ListenerHandle)
DropListener(x) ==
  /\ Held(x)
  /\ lmark' = [lmark EXCEPT ![x] = TRUE]
  /\ ev' = [a |-> "drop_listener", l |-> x]
  /\ UNCHANGED <<cfree, cgen, flist, aocc, agen, keys, newRing, unused, lwhere, lkey, lpos, lcmd,
                 tbind, titem, tpar, tx, tdepth, pval, cb>>

\* ListenerHandle::set_position((d, 0, 0), tween of duration zero)
MoveListener(x, d) ==
  /\ Held(x)
  /\ d # (IF lcmd[x] # 0 THEN lcmd[x] ELSE lpos[x])
  /\ lcmd' = [lcmd EXCEPT ![x] = d]
  /\ ev' = [a |-> "move_listener", l |-> x, d |-> d]
  /\ UNCHANGED <<cfree, cgen, flist, aocc, agen, keys, newRing, unused, lwhere, lkey, lmark, lpos,
                 tbind, titem, tpar, tx, tdepth, pval, cb>>

\* add_spatial_sub_track(id, position, builder) on the manager (par = 0) or on spatial track par, with
\* the id of listener b (ids are Copy: b's handle may be gone) or a foreign id (b = 0); plus a probe sound
AddTrack(b, par) ==
  \E t \in Tracks :
    /\ ~Created(t) /\ \A u \in Tracks : u < t => Created(u)
    /\ b = 0 \/ (b \in LItems /\ lkey[b] # NoKey)
    /\ par = 0 \/ (par \in Tracks /\ Created(par))
    /\ tbind' = [tbind EXCEPT ![t] = IF b = 0 THEN Foreign ELSE lkey[b]]
    /\ titem' = [titem EXCEPT ![t] = b]
    /\ tpar' = [tpar EXCEPT ![t] = par]
    /\ tx' = [tx EXCEPT ![t] = 1 - t]
    /\ ev' = [a |-> "add_track", t |-> t, b |-> b, par |-> par, x |-> 1 - t, ok |-> TRUE]
    /\ UNCHANGED <<cfree, cgen, flist, aocc, agen, keys, newRing, unused, lwhere, lkey, lmark, lpos, lcmd,
                   tdepth, pval, cb>>

\* SpatialTrackHandle::add_sub_track / TrackHandle::add_sub_track below it, plus a probe sound
AddChild(t) ==
  /\ Created(t) /\ tdepth[t] < MaxDepth
  /\ tdepth' = [tdepth EXCEPT ![t] = @ + 1]
  /\ ev' = [a |-> "add_child", t |-> t, k |-> tdepth[t] + 1, ok |-> TRUE]
  /\ UNCHANGED <<cfree, cgen, flist, aocc, agen, keys, newRing, unused, lwhere, lkey, lmark, lpos, lcmd,
                 tbind, titem, tpar, tx, pval, cb>>

\* ---------------------------------------------------------------- audio
\* remove_unused: scan the keys vector while the unused ring is not full
RECURSIVE RemScan(_, _, _)
RemScan(ks, u, acc) ==
  IF ks = <<>> \/ u >= NL + 1 THEN acc
  ELSE IF lmark[Head(ks)] THEN RemScan(Tail(ks), u + 1, Append(acc, Head(ks)))
  ELSE RemScan(Tail(ks), u, acc)

RECURSIVE PushAll(_, _)
PushAll(fl, xs) == IF xs = <<>> THEN fl ELSE PushAll(<<lkey[Head(xs)][1]>> \o fl, Tail(xs))   \* Controller::free: LIFO

InSeq(s, x) == \E i \in DOMAIN s : s[i] = x
SortedSeq(S) == [i \in 1..Cardinality(S) |-> CHOOSE q \in S : Cardinality({r \in S : r < q}) = i - 1]
RECURSIVE ChainI(_)
ChainI(t) == IF t = 0 THEN {} ELSE {t} \cup ChainI(tpar[t])
GovI(q) == ((q - 1) % NT) + 1
DepthOf(q) == (q - 1) \div NT
ProbeExists(q) == Created(GovI(q)) /\ DepthOf(q) <= tdepth[GovI(q)]

Callback ==
  /\ cb < MaxCb
  /\ LET removed == RemScan(keys, unused, <<>>)
         rset == {removed[i] : i \in DOMAIN removed}
         rslots == {lkey[x][1] : x \in rset}
         keys1 == SelectSeq(keys, LAMBDA x : x \notin rset)
         aocc1 == [i \in Slots |-> IF i \in rslots THEN 0 ELSE aocc[i]]
         agen1 == [i \in Slots |-> IF i \in rslots THEN agen[i] + 1 ELSE agen[i]]
         \* refill: insert_with_key for everything in the new-resource ring
         nset == {newRing[i] : i \in DOMAIN newRing}
         aocc2 == [i \in Slots |-> IF \E x \in nset : lkey[x][1] = i
                                    THEN CHOOSE x \in nset : lkey[x][1] = i ELSE aocc1[i]]
         keys2 == keys1 \o newRing
         inArena == {keys2[i] : i \in DOMAIN keys2}
         \* Listener::on_start_processing + update: a zero-length tween lands in this chunk
         lpos2 == [x \in LItems |-> IF x \in inArena /\ lcmd[x] # 0 THEN lcmd[x] ELSE lpos[x]]
         \* Arena::get
         Res(k) == IF k = NoKey THEN 0
                   ELSE IF aocc2[k[1]] # 0 /\ (~GenAware \/ agen1[k[1]] = k[2]) THEN aocc2[k[1]] ELSE 0
         Heard(t) == \A s \in ChainI(t) : Res(tbind[s]) # 0
         pset == {q \in Probes : ProbeExists(q)}
         Dv(q) == LET t == GovI(q)  x == Res(tbind[t]) IN IF x # 0 THEN Abs(lpos2[x] - tx[t]) * 1000 ELSE pval[q]
         Dv2(q) == LET t == GovI(q)  x == Res(tbind[t]) IN IF x # 0 /\ Abs(lpos2[x] - tx[t]) # 0 THEN 1000 ELSE 0
         obs == [q \in pset |-> [id |-> q, h |-> Heard(GovI(q)), has |-> Res(tbind[GovI(q)]) # 0, dv |-> Dv(q), dv2 |-> Dv2(q)]]
         order == SortedSeq(pset)
     IN
     /\ keys' = keys2 /\ aocc' = aocc2 /\ agen' = agen1
     /\ cgen' = [i \in Slots |-> IF i \in rslots THEN cgen[i] + 1 ELSE cgen[i]]
     /\ cfree' = [i \in Slots |-> IF i \in rslots THEN TRUE ELSE cfree[i]]
     /\ flist' = PushAll(flist, removed)
     /\ unused' = unused + Len(removed)
     /\ newRing' = <<>>
     /\ lwhere' = [x \in LItems |-> IF x \in rset THEN "removed" ELSE IF x \in nset THEN "arena" ELSE lwhere[x]]
     /\ lpos' = lpos2
     /\ lcmd' = [x \in LItems |-> IF x \in inArena THEN 0 ELSE lcmd[x]]
     /\ pval' = [q \in Probes |-> IF q \in pset THEN Dv(q) ELSE pval[q]]
     /\ ev' = [a |-> "cb", p |-> FALSE, fin |-> TRUE, dec |-> TRUE,
               z |-> \A q \in pset : ~Heard(GovI(q)),
               pr |-> [i \in 1..Cardinality(pset) |-> obs[order[i]]]]
  /\ cb' = cb + 1
  /\ UNCHANGED <<lkey, lmark, tbind, titem, tpar, tx, tdepth>>

Step ==
  \/ \E d \in Dists : AddListener(d)
  \/ \E x \in LItems : DropListener(x)
  \/ \E x \in LItems, d \in Dists : MoveListener(x, d)
  \/ \E b \in 0..MaxL, par \in 0..NT : AddTrack(b, par)
  \/ \E t \in Tracks : AddChild(t)
  \/ Callback

Next == /\ Step
        /\ mon' = Upd(mon, ev')
        /\ bad' = IF bad # "" THEN bad ELSE Check(mon, ev')

Spec == Init /\ [][Next]_vars

\* ---------------------------------------------------------------- invariants
PropertyHolds == bad = ""

TypeOK ==
  /\ \A i \in Slots : aocc[i] \in 0..MaxL /\ agen[i] \in 0..MaxL /\ cgen[i] \in 0..MaxL
  /\ \A x \in LItems : lwhere[x] \in {"fresh", "failed", "new", "arena", "removed"}
  /\ unused \in 0..(NL + 1)
  /\ Len(newRing) <= NL

\* the controller and the arena agree; a queued key is still valid when insert_with_key runs
ControllerMirrorsArena ==
  /\ \A i \in Slots : cgen[i] = agen[i]
  /\ \A i \in Slots : cfree[i] <=> ~\E x \in LItems : lwhere[x] \in {"new", "arena"} /\ lkey[x][1] = i
  /\ \A x \in LItems : lwhere[x] = "new" => aocc[lkey[x][1]] = 0 /\ agen[lkey[x][1]] = lkey[x][2]
  /\ \A x \in LItems : lwhere[x] = "arena" => aocc[lkey[x][1]] = x /\ agen[lkey[x][1]] = lkey[x][2] /\ InSeq(keys, x)
FreeListExact == /\ {flist[i] : i \in DOMAIN flist} = {i \in Slots : cfree[i]}
                 /\ Len(flist) = Cardinality({i \in Slots : cfree[i]})
KeysUnique == \A x, y \in LItems : x # y /\ lkey[x] # NoKey /\ lkey[y] # NoKey => lkey[x] # lkey[y]
\* the unused ring (capacity NL + 1) never overflows and never makes remove_unused stop early
UnusedRingNeverFull == unused <= NL

\* reachability witnesses (each must be VIOLATED)
IsCb == ev.a = "cb"
\* a track bound to a removed listener whose slot holds a newer listener was rendered (silent)
W_Reuse == ~(IsCb /\ \E t \in Tracks : /\ Created(t) /\ titem[t] > 0 /\ lwhere[titem[t]] = "removed"
                                      /\ aocc[tbind[t][1]] # 0 /\ aocc[tbind[t][1]] # titem[t])
W_Full == ~(ev.a = "add_listener" /\ ~ev.ok)
W_Maybe == ~(IsCb /\ \E x \in LItems : mon.lst[x] = "marked" /\ lwhere[x] = "arena")    \* dropped before its first callback: lives one callback
W_Hold == ~(IsCb /\ \E i \in DOMAIN ev.pr : ~ev.pr[i].has /\ ev.pr[i].dv # Dflt)
W_Follow == ~(IsCb /\ \E i \in DOMAIN ev.pr : ev.pr[i].has /\ ev.pr[i].id > NT /\ ev.pr[i].dv > 1000)
W_NestedSilent == ~(IsCb /\ \E i \in DOMAIN ev.pr : ev.pr[i].has /\ ~ev.pr[i].h)
W_Foreign == ~(IsCb /\ \E t \in Tracks : titem[t] = 0 /\ aocc[1] # 0)
W_Mixed == ~(IsCb /\ (\E i \in DOMAIN ev.pr : ev.pr[i].h) /\ (\E i \in DOMAIN ev.pr : ~ev.pr[i].h))
=============================================================================
