------------------------------ MODULE P_C12 ------------------------------
(* Property-level specification of C12 (pausing a track freezes its subtree;*)
(* removal follows handle/persistence rules), from the property statement.  *)
(*                                                                          *)
(* Scene watched by one monitor: a chain main <- A <- B [<- C] of depth 2 or  *)
(* 3, one index-coded, separately audible sound per track (SA, SB, SC).      *)
(* Events                                                                   *)
(*   cmd  t c d          pause / resume / resume_at written to track t      *)
(*   drop t              the handle of track t was dropped                  *)
(*   stop s              sound s was stopped with a zero-length fade        *)
(*   cb   st first zero ntop nA sst panicked                                *)
(*        st[t]    TrackHandle::state() of t ("gone" if its handle is gone, *)
(*                 "panic" if the query panicked)                           *)
(*        first[s] first source frame heard from s in this callback, -1 if  *)
(*                 s was silent, -2 if audible but faded (not decodable),   *)
(*                 -4 if the driver cannot tell (two sounds share a channel *)
(*                 and only a faint residue is there): no claim             *)
(*        zero[s]  s contributed exact silence                              *)
(*        ntop     manager.num_sub_tracks(); nA, nB = num_sub_tracks() of A *)
(*                 and B, or -1 when that handle is gone                    *)
(*        sst[s]   state of sound s                                         *)
EXTENDS Integers, FiniteSets, Sequences

Tracks == {"A", "B", "C"}
Sounds == {"SA", "SB", "SC"}
TrackStates == {"Playing", "Pausing", "Paused", "WaitingToResume", "Resuming"}
FrozenT == {"Paused", "WaitingToResume"}
Above(s) == CASE s = "SA" -> {"A"} [] s = "SB" -> {"A", "B"} [] OTHER -> {"A", "B", "C"}   \* tracks on the path to the main track
Host(s)  == CASE s = "SA" -> "A" [] s = "SB" -> "B" [] OTHER -> "C"
SoundOf(t) == CASE t = "A" -> "SA" [] t = "B" -> "SB" [] OTHER -> "SC"
ChildOf(t) == CASE t = "A" -> "B" [] t = "B" -> "C" [] OTHER -> "none"

NoLast == [c |-> "none", d |-> 0, wk |-> "none", wt |-> 0, prog |-> 0]
Ancestors(t) == CASE t = "A" -> {} [] t = "B" -> {"A"} [] OTHER -> {"A", "B"}
\* "Pausing a track fades it out and then freezes ...; resuming, immediately or at a start time, continues": the state a
\* command leads to must be reached once its fade (and delay) has had the time - counted in callbacks during which nothing
\* above the track was frozen or fading - plus the depth of the chain (pick-up of freshly built tracks) and one of slack
Deadline(c) == (IF c.c = "resume_at" THEN c.wt ELSE 0) + c.d + 5
Goal(c) == IF c.c = "pause" THEN "Paused" ELSE "Playing"
Judged(c) == c.c \in {"pause", "resume"} \/ (c.c = "resume_at" /\ c.wk = "delayed")

PInit(persist, n, depth) ==
  [ n |-> n, persist |-> persist,              \* persist[t]: built with persist_until_sounds_finish
    k |-> 0,
    st |-> [t \in Tracks |-> "Playing"],       \* last observed track states
    touched |-> {},                            \* tracks that received a command since the last callback
    dropped |-> {}, gone |-> IF depth = 2 THEN {"C"} ELSE {},   \* handles dropped / tracks known to be removed (or never built)
    since |-> [t \in Tracks |-> -1],           \* callback count at which t became removable (-1: not)
    finished |-> {},                           \* sounds known to be Stopped
    stopReq |-> {},
    nx |-> [s \in Sounds |-> 0],               \* next source frame each sound should play (Unknown when it cannot be inferred)
    \* the command in force on each track (NoLast: none / several in one window) and the callbacks it has had to take effect
    last |-> [t \in Tracks |-> NoLast],
    slack |-> [s \in Sounds |-> FALSE] ]       \* a resume at a start time may begin its fade-in one callback after the
                                               \* start time ("within one callback"): the sound may be one callback further

\* a track can be removed once its handle is gone, nothing below it is alive any more (or can go with it), and - if
\* it persists until its sounds finish - its sound has finished
RECURSIVE Removable(_, _, _)
Removable(m, t, fin) ==
  /\ t \in m.dropped
  /\ (m.persist[t] => SoundOf(t) \in fin)
  /\ (ChildOf(t) = "none" \/ ChildOf(t) \in m.gone \/ Removable(m, ChildOf(t), fin))

\* what the counts say about which tracks still exist
SeenGone(e) == (IF e.ntop = 0 THEN {"A", "B", "C"} ELSE {}) \cup (IF e.nA = 0 THEN {"B", "C"} ELSE {}) \cup (IF e.nB = 0 THEN {"C"} ELSE {})
SeenAlive(e) == (IF e.ntop = 1 THEN {"A"} ELSE {}) \cup (IF e.nA = 1 THEN {"B"} ELSE {}) \cup (IF e.nB = 1 THEN {"C"} ELSE {})

\* a track spent the whole callback frozen: frozen before, frozen after, nothing written to it
Unknown == -9
\* the callback in which a pending start time arrives: the track leaves WaitingToResume by itself
StartArrives(m, e, t) == m.st[t] = "WaitingToResume" /\ e.st[t] \in {"Resuming", "Playing"} /\ t \notin m.touched

FrozenThrough(m, e, t) == /\ m.st[t] \in FrozenT /\ e.st[t] \in FrozenT \cup {"gone"} /\ t \notin m.touched
                          /\ (e.st[t] = "gone" => t \in m.dropped)

Check(m, e) ==
  CASE e.a = "cb" ->
         IF e.panicked THEN "no_panic"
         ELSE IF \E t \in Tracks : e.st[t] \notin TrackStates \cup {"gone"} THEN "state_is_one_of_five_and_never_panics"
         ELSE IF \E s \in Sounds : (\E t \in Above(s) : FrozenThrough(m, e, t) /\ t \notin m.gone) /\ ~e.zero[s] /\ e.first[s] # -4
              THEN "subtree_silent_while_paused"
         ELSE IF \E s \in Sounds : e.first[s] >= 0 /\ m.nx[s] # Unknown /\ e.first[s] # m.nx[s]
                                    /\ ~(m.slack[s] /\ e.first[s] = m.nx[s] + m.n)
              THEN "resume_continues_from_frozen_frame"
         \* removal: not before the track is removable ...
         ELSE IF \E t \in SeenGone(e) \ m.gone : m.since[t] = -1 /\ ~Removable(m, t, m.finished) THEN "removed_without_cause"
         \* ... and by the second callback after it became removable
         \* (a persisting track: its finished sound is unloaded first, then the track)
         ELSE IF \E t \in SeenAlive(e) : m.since[t] # -1
                  /\ m.k + 1 - m.since[t] >= (IF \E u \in Tracks : m.persist[u] THEN 3 ELSE 1)
              THEN "removed_at_next_callback"
         \* a removed track's sounds are silent
         ELSE IF \E s \in Sounds : Host(s) \in (m.gone \cup SeenGone(e)) /\ ~e.zero[s] /\ e.first[s] # -4 THEN "removed_track_is_silent"
         ELSE IF \E t \in Tracks : /\ Judged(m.last[t]) /\ t \notin m.touched /\ t \notin (m.gone \cup SeenGone(e)) /\ e.st[t] # "gone"
                                    /\ m.last[t].prog >= Deadline(m.last[t]) /\ e.st[t] # Goal(m.last[t])
              THEN "command_takes_effect_after_its_fade"
         ELSE ""
    [] e.a = "panic" -> "no_panic"
    [] e.a = "hang" -> "returns_promptly"
    [] OTHER -> ""

Upd(m, e) ==
  CASE e.a = "cmd" -> [m EXCEPT !.touched = @ \cup {e.t},
                                !.last[e.t] = IF e.t \in m.touched THEN NoLast      \* two commands in one window: order left open
                                              ELSE [c |-> e.c, d |-> e.d, wk |-> e.wk, wt |-> e.wt, prog |-> 0]]
    [] e.a = "drop" -> [m EXCEPT !.dropped = @ \cup {e.t}]
    [] e.a = "stop" -> [m EXCEPT !.stopReq = @ \cup {e.s}]
    [] e.a = "cb" ->
         LET fin == m.finished \cup {s \in Sounds : e.sst[s] = "Stopped"}
             gone == m.gone \cup SeenGone(e) IN
         [m EXCEPT !.k = @ + 1, !.touched = {},
                   !.last = [t \in Tracks |->
                               IF \A u \in Ancestors(t) : m.st[u] = "Playing" /\ e.st[u] \in {"Playing", "gone"} /\ u \notin m.touched
                               THEN [m.last[t] EXCEPT !.prog = @ + 1] ELSE m.last[t]],
                   \* once the handle is gone only a settled pause is known to last
                   !.st = [t \in Tracks |-> IF e.st[t] # "gone" THEN e.st[t]
                                             ELSE IF m.st[t] = "Paused" /\ t \notin m.touched THEN "Paused" ELSE "unknown"],
                   !.finished = fin, !.gone = gone,
                   !.since = [t \in Tracks |-> IF t \in gone THEN -1
                                               ELSE IF m.since[t] # -1 THEN m.since[t]
                                               ELSE IF Removable([m EXCEPT !.gone = gone], t, fin) THEN m.k + 1 ELSE -1],
                   \* a silent callback leaves the expected frame unchanged only if the sound is known to be frozen
                   !.nx = [s \in Sounds |->
                             IF e.first[s] >= 0 THEN e.first[s] + m.n
                             ELSE IF m.nx[s] = Unknown \/ e.first[s] = -4 THEN Unknown
                             ELSE IF e.first[s] = -2 THEN m.nx[s] + m.n
                             ELSE IF \E t \in Above(s) : FrozenThrough(m, e, t) \/ StartArrives(m, e, t) THEN m.nx[s]
                             ELSE Unknown],
                   !.slack = [s \in Sounds |->
                             IF e.first[s] >= 0 THEN FALSE
                             ELSE m.slack[s] \/ (e.first[s] = -1 /\ ~(\E t \in Above(s) : FrozenThrough(m, e, t))
                                                  /\ \E t \in Above(s) : StartArrives(m, e, t))]]
    [] OTHER -> m
=============================================================================
