------------------------------ MODULE P_C06I ------------------------------
(* C06 in situ: the tweens of the parameters that live inside the audio     *)
(* graph (track / send-track / route / main-track / sound volume, the pause *)
(* fades of tracks and sounds) must take the time they are given, "independ-*)
(* ently of how time is partitioned into updates (to within one update of   *)
(* timing)" - whatever the callback size, and whether or not the track that *)
(* owns the parameter is paused meanwhile.                                  *)
(* One session = one linear tween in decibels, observed frame by frame:     *)
(*   reset  b d from to      internal buffer size, duration in frames, the  *)
(*                           two ends in 1/100 dB                           *)
(*   (frz: the parameter sits beneath a track that is paused meanwhile and  *)
(*    freezes with it - C12; its tween time then counts unpaused frames)    *)
(*   fr f pf g               frame f (0 = first frame of the callback in    *)
(*                           which the command is read): g = the gain of    *)
(*                           the path through the parameter in 1/100 dB,    *)
(*                           -9999 = exact silence, 9999 = not observable   *)
(*                           (the owning track is paused)                   *)
(* Within one update: the value at frame f lies between the reference curve *)
(* at f - b and at f + 1 + b frames of tween time (0.1 dB for rounding).    *)
EXTENDS Integers

PInit(c) == [c |-> c, prev |-> 9999]
Tol == 10
Ref(c, tau) == LET t == IF tau < 0 THEN 0 ELSE IF tau > c.d THEN c.d ELSE tau IN
               \* (a zero-length tween takes effect at the next update, interpolated across that chunk)
               IF c.d = 0 THEN (IF tau <= 0 THEN c.from ELSE c.to) ELSE c.from + ((c.to - c.from) * t) \div c.d
Abs(x) == IF x < 0 THEN -x ELSE x
Min(a, b) == IF a < b THEN a ELSE b
Max(a, b) == IF a > b THEN a ELSE b

Check(m, e) ==
  CASE e.a = "fr" ->
         IF e.g = 9999 THEN ""
         ELSE LET c == m.c
                  tt == e.f - (IF c.frz THEN e.pf ELSE 0)     \* tween time in frames (pf = frames spent paused so far)
                  a == Ref(c, tt - c.b)           \* the curve one update earlier
                  z == Ref(c, tt + 1 + c.b)       \* ... and one update later
                  lo == Min(a, z) - Tol
                  hi == Max(a, z) + Tol
                  g == IF e.g = -9999 THEN -6000 ELSE e.g
                  \* "within and across chunks the value is continuous (each chunk interpolates from the previous chunk's final
                  \* value)": a linear tween of d frames moves by (to - from) / d per frame wherever the chunk boundaries fall
                  \* (less in the chunk in which it ends); a zero-length one is spread over one chunk, which may be one frame
                  span == IF c.d > 1 THEN c.d ELSE 1
                  \* (free: the observed level is not linear in the tweened quantity - a position or an orientation of a spatial
                  \*  scene - so only its ends and its continuity are judged, the latter with a factor 4 for the curvature)
                  step == (IF c.free THEN 4 ELSE 1) * ((Abs(c.to - c.from) + span - 1) \div span) + 2 * Tol
                  p == IF m.prev = -9999 THEN -6000 ELSE m.prev
                  \* (a pause fade ends in a state change: the chunk during which it completes is silent as a whole - "to within
                  \*  one callback", C03 - so the last step to exact silence is not a step of the tween)
                  lastStep == e.g = -9999 /\ c.to = -6000
              IN IF m.prev # 9999 /\ ~lastStep /\ Abs(g - p) > step THEN "value_is_continuous_from_frame_to_frame"
                 ELSE IF c.free THEN (IF tt - c.b > c.d /\ Abs(g - c.to) > Tol THEN "value_equals_target_after_the_tween" ELSE "")
                 ELSE IF g < lo THEN (IF c.to < c.from THEN "tween_not_ahead_of_its_time" ELSE "tween_not_behind_its_time")
                 ELSE IF g > hi THEN (IF c.to < c.from THEN "tween_not_behind_its_time" ELSE "tween_not_ahead_of_its_time")
                 ELSE ""
    [] e.a = "panic" -> "no_panic"
    [] OTHER -> ""
Upd(m, e) == IF e.a = "fr" THEN [m EXCEPT !.prev = e.g] ELSE m
=============================================================================
