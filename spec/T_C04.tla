------------------------------- MODULE T_C04 -------------------------------
(* Trace validation for C04: every session recorded from the real library   *)
(* (harness driver `c04`) is run through the property-level monitor of      *)
(* P_C04.  A session the monitor rejects is reported with the name of the   *)
(* violated clause; validation continues with the next session.  For every  *)
(* session the final monitor mode is reported too (open = the inputs left   *)
(* the domain the statement speaks about, nothing was demanded afterwards). *)
EXTENDS Integers, Sequences, FiniteSets, TLC, Json, IOUtils
INSTANCE P_C04

Rec == ndJsonDeserialize(IOEnv.TRACE)

VARIABLES l, mon, mode, bad, nopen
tvars == <<l, mon, mode, bad, nopen>>

Dummy == [len |-> 0, sl |-> FALSE, ss |-> 0, se |-> 0, start |-> 0, lp |-> FALSE, ls |-> 0, le |-> -1,
          rev |-> FALSE, rq |-> 4, sr |-> 1, dev |-> 1]

TInit == l = 1 /\ mon = PInit(Dummy) /\ mode = "skip" /\ bad = <<>> /\ nopen = 0
TNext ==
  /\ l <= Len(Rec)
  /\ l' = l + 1
  /\ LET e == Rec[l] IN
     IF e.a = "reset"
     THEN /\ mon' = PInit(e) /\ mode' = "ok" /\ bad' = bad
          /\ nopen' = nopen + (IF mode = "ok" /\ mon.open THEN 1 ELSE 0)
     ELSE IF mode = "skip" THEN UNCHANGED <<mon, mode, bad, nopen>>
     ELSE LET r == Check(mon, e) IN
          IF r = "" THEN mon' = Upd(mon, e) /\ UNCHANGED <<mode, bad, nopen>>
          ELSE /\ mode' = "skip" /\ UNCHANGED <<mon, nopen>>
               /\ bad' = Append(bad, [s |-> e.s, i |-> e.i, a |-> e.a, reason |-> r])
TSpec == TInit /\ [][TNext]_tvars

\* acceptance: the whole file was consumed; rejected sessions are printed
Done == l = Len(Rec) + 1
Report == Done => /\ PrintT(<<"BAD", ToJson(bad)>>)
                  /\ PrintT(<<"OPEN", nopen + (IF mode = "ok" /\ mon.open THEN 1 ELSE 0)>>)
                  /\ PrintT(<<"CONSUMED", l - 1, Len(Rec)>>)
=============================================================================
