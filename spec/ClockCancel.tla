---------------------------- MODULE ClockCancel ----------------------------
(* Implementation-level model of clocks going away under scheduled sounds:  *)
(*   manager.rs (add_clock), clock/handle.rs (Drop marks the clock),         *)
(*   backend/resources.rs (remove_unused sweeps the marked entries at the   *)
(*   start of the next callback), info.rs (when_to_start: a missing clock   *)
(*   means Never), playback_state_manager.rs (a wait that can never end     *)
(*   stops the sound).                                                       *)
(* N clocks tick once per buffer; sound i waits for tick W[i] of clock i.   *)
(* SkipAfterRemoved = TRUE is a variant of the sweep that steps over the    *)
(* entry following a removed one (kept for its counterexample).             *)
EXTENDS Integers, Sequences, FiniteSets, TLC, P_C05C

CONSTANTS N, MaxW, MaxCb, SkipAfterRemoved

VARIABLES w,        \* [1..N -> 1..MaxW]
          queued,   \* clocks still in the ring of new resources
          live,     \* clocks in the arena
          marked,   \* clocks whose handle was dropped
          time,     \* [1..N -> ticks]
          sst,      \* [1..N -> "Waiting" | "Playing" | "Stopped"]
          cb, act, ev, mon, bad
vars == <<w, queued, live, marked, time, sst, cb, act, ev, mon, bad>>

Init ==
  /\ w \in [1..N -> 1..MaxW]
  /\ queued = 1..N /\ live = {} /\ marked = {} /\ time = [i \in 1..N |-> 0] /\ sst = [i \in 1..N |-> "Waiting"]
  /\ cb = 0 /\ act = <<"Init">> /\ ev = [a |-> "tau"] /\ mon = PInit([n |-> N, w |-> w]) /\ bad = ""

Drop(c) ==
  /\ c \in (live \cup queued) \ marked /\ marked' = marked \cup {c}
  /\ act' = <<"Drop", c>> /\ ev' = [a |-> "drop", c |-> c]
  /\ UNCHANGED <<w, queued, live, time, sst, cb>>

\* the sweep goes through the slots in order
RECURSIVE Sweep(_, _, _)
Sweep(i, skip, acc) ==
  IF i > N THEN acc
  ELSE IF i \in acc /\ i \in marked /\ ~skip THEN Sweep(i + 1, SkipAfterRemoved, acc \ {i})
  ELSE Sweep(i + 1, FALSE, acc)

Callback ==
  /\ cb < MaxCb /\ cb' = cb + 1
  \* remove_and_add: the sweep of the marked entries, then the new resources
  /\ LET live1 == Sweep(1, FALSE, live) \cup queued
         time1 == [i \in 1..N |-> IF i \in live1 THEN time[i] + 1 ELSE time[i]]
         sst1 == [i \in 1..N |-> IF sst[i] # "Waiting" THEN sst[i]
                                 ELSE IF i \notin live1 THEN "Stopped"
                                 ELSE IF time1[i] >= w[i] THEN "Playing" ELSE "Waiting"]
     IN /\ live' = live1 /\ queued' = {} /\ time' = time1 /\ sst' = sst1
        /\ ev' = [a |-> "cb", heard |-> [i \in 1..N |-> sst1[i] = "Playing"],
                  st |-> [i \in 1..N |-> IF sst1[i] = "Waiting" THEN "Playing" ELSE sst1[i]]]
  /\ act' = <<"Callback">>
  /\ UNCHANGED <<w, marked>>

INext == (\E c \in 1..N : Drop(c)) \/ Callback
Monitor ==
  LET r == Check(mon, ev') IN
  IF bad # "" THEN UNCHANGED <<mon, bad>>
  ELSE IF r # "" THEN bad' = r /\ UNCHANGED mon
  ELSE mon' = Upd(mon, ev') /\ UNCHANGED bad
Next == INext /\ Monitor
Spec == Init /\ [][Next]_vars

PropertyHolds == bad = ""
\* nothing of a clock that is gone remains
NoGhost == \A i \in 1..N : (i \in marked /\ cb >= mon.gone[i] /\ mon.gone[i] # 0) => i \notin live \cup queued
W_Cancelled == ~(\E i \in 1..N : sst[i] = "Stopped" /\ bad = "")
W_TwoAtOnce == ~(Cardinality(marked \ live) >= 2 /\ bad = "")
W_Survivor == ~(\E i \in 1..N : sst[i] = "Playing" /\ i \notin live /\ bad = "")

\* behaviours for the replay: the history of drops and callbacks
=============================================================================
