------------------------------ MODULE P_C02 ------------------------------
(* Property-level specification of C02 (mixer output equals the documented  *)
(* signal-flow sum; nothing leaks or is lost) and of C11 (rendered audio    *)
(* does not depend on buffer sizes), from the track documentation.          *)
(*                                                                          *)
(* Scene (fixed per session, given by the reset event):                     *)
(*   tracks  main, A (child of main), B (child of A if shape = "chain",     *)
(*           of main if "fork"), send track S                               *)
(*   sounds  s0 on main, s1 on A, s2 on B: probes whose j-th frame is       *)
(*           base(s) * (1 + j mod 4), integers after scaling by 2^17        *)
(*   fx[t]   the track carries one effect that halves the signal            *)
(*   vol[t]  track volume, rv[t] volume of the route t -> S: 1 (0 dB),      *)
(*           0 (-60 dB, exactly silent) or -1 (no such route)               *)
(*   persistB        B was built with persist_until_sounds_finish: after its  *)
(*           handle is dropped it (and, in a chain, its parent A) stays     *)
(*           while s2 plays - in these scenes s2 never finishes             *)
(*   send2, rv2[t]   a second send track S2 (no effect, 0 dB) and the       *)
(*           routes t -> S2, (in the route table in no particular order) *)
(* Events                                                                   *)
(*   op  o x      pause / resume track x (zero-length fade), finish sound x,*)
(*                drop x = "B": the handle of B; "AB": the handles of both  *)
(*                sub-tracks; "S" / "S2": the handle of that send track - its *)
(*                routes then contribute silence, every other route goes on *)
(*                (removal rules proper are C12's subject; the              *)
(*                drivers drop only tracks that have been picked up)        *)
(*   cb  n b out asks n0    a callback of n frames with internal buffer b:  *)
(*                out[f] scaled output of frame f, asks[s] = lengths of the *)
(*                slices sound s was asked for, n0[s] = number of frames s  *)
(*                had produced before this callback                         *)
EXTENDS Integers, FiniteSets, Sequences, TLC

Subs == {"A", "B"}
Snds == {"s0", "s1", "s2"}
Base(s) == CASE s = "s0" -> 8192 [] s = "s1" -> 512 [] OTHER -> 32
Host(s) == CASE s = "s0" -> "main" [] s = "s1" -> "A" [] OTHER -> "B"
Val(s, j) == Base(s) * (1 + (j % 4))

PInit(sc) ==
  [ sc |-> sc,
    live |-> sc.snd,                 \* sounds playing
    alive |-> sc.trk,                \* sub-tracks that exist
    sends |-> (IF sc.send THEN {"S"} ELSE {}) \cup (IF sc.send2 THEN {"S2"} ELSE {}),
    paused |-> {}, fading |-> {}, pend |-> <<>>, dropped |-> {},
    cnt |-> TLCEval([s \in Snds |-> 0]) ]

Parent(sc, t) == IF t = "B" /\ sc.shape = "chain" THEN "A" ELSE "main"
\* tracks from the sound's track up to (excluding) main
RECURSIVE Path(_, _)
Path(sc, t) == IF t = "main" THEN <<>> ELSE <<t>> \o Path(sc, Parent(sc, t))
Half(x, yes) == IF yes THEN x \div 2 ELSE x

\* state after the pending operations took effect (at the start of the callback)
After(m) ==
  LET ops == m.pend
      fin == {ops[i].x : i \in {j \in 1..Len(ops) : ops[j].o = "finish"}}
      drp == {ops[i].x : i \in {j \in 1..Len(ops) : ops[j].o = "drop"}}
      live2 == m.live \ fin
      goneB == "B" \notin m.alive \/ (("B" \in drp \/ "AB" \in drp \/ "B" \in m.dropped \/ "AB" \in m.dropped) /\ ~(m.sc.persistB /\ "s2" \in live2))
      goneA == ("AB" \in drp \/ "AB" \in m.dropped) /\ (m.sc.shape = "chain" => goneB)
      lastOp(t) == LET js == {j \in 1..Len(ops) : ops[j].x = t /\ ops[j].o \in {"pause", "resume"}} IN
                   IF js = {} THEN "none" ELSE ops[CHOOSE j \in js : \A k \in js : k <= j].o
      alive2 == (m.alive \ (IF goneA THEN {"A"} ELSE {})) \ (IF goneB THEN {"B"} ELSE {})
  IN [m EXCEPT !.live = {s \in m.live \ fin : Host(s) = "main" \/ Host(s) \in alive2},
               !.alive = alive2,
               !.sends = m.sends \ drp, !.dropped = m.dropped \cup drp,
               !.paused = {t \in alive2 : (t \in m.paused /\ lastOp(t) # "resume") \/ lastOp(t) = "pause"},
               \* tracks whose (zero-length) pause takes effect in this callback
               !.fading = {t \in alive2 : lastOp(t) = "pause"},
               !.pend = <<>>]

\* a sound is asked for frames iff it is live and every track on its path exists and is running
Asked(m1, s) == /\ s \in m1.live
                /\ \A i \in 1..Len(Path(m1.sc, Host(s))) : Path(m1.sc, Host(s))[i] \in m1.alive \ m1.paused

\* a sub-track is reached by the audio graph iff it exists, is running, and so is every track above it
Reached(m1, t) == /\ t \in m1.alive \ m1.paused
                  /\ (Parent(m1.sc, t) = "main" \/ (Parent(m1.sc, t) \in m1.alive \ m1.paused))

\* output of sub-track t for frame offset f (documented flow): (sounds + children) -> effects -> volume
RECURSIVE TrackOut(_, _, _)
TrackOut(m1, t, f) ==
  IF ~Reached(m1, t) THEN 0
  ELSE LET own == IF t = "A" THEN "s1" ELSE "s2"
           snd == IF Asked(m1, own) THEN Val(own, m1.cnt[own] + f) ELSE 0
           kids == IF t = "A" /\ m1.sc.shape = "chain" THEN TrackOut(m1, "B", f) ELSE 0
       IN Half(snd + kids, m1.sc.fx[t]) * m1.sc.vol[t]

Expected(m1, f) ==
  LET top == IF m1.sc.shape = "chain" THEN {"A"} ELSE {"A", "B"}
      subs == (IF "A" \in top THEN TrackOut(m1, "A", f) ELSE 0) + (IF "B" \in top THEN TrackOut(m1, "B", f) ELSE 0)
      sendIn == (IF m1.sc.rv["A"] = 1 THEN TrackOut(m1, "A", f) ELSE 0) + (IF m1.sc.rv["B"] = 1 THEN TrackOut(m1, "B", f) ELSE 0)
      send1 == IF "S" \in m1.sends THEN Half(sendIn, m1.sc.fx["S"]) * m1.sc.vol["S"] ELSE 0
      send2 == IF "S2" \in m1.sends
               THEN (IF m1.sc.rv2["A"] = 1 THEN TrackOut(m1, "A", f) ELSE 0) + (IF m1.sc.rv2["B"] = 1 THEN TrackOut(m1, "B", f) ELSE 0)
               ELSE 0
      send == send1 + send2
      own == IF Asked(m1, "s0") THEN Val("s0", m1.cnt["s0"] + f) ELSE 0
  IN Half(own + subs + send, m1.sc.fx["main"]) * m1.sc.vol["main"]

Sum(seq) == LET F[i \in 0..Len(seq)] == IF i = 0 THEN 0 ELSE F[i - 1] + seq[i] IN F[Len(seq)]

\* Like every parameter change of the library, a pause may take one internal chunk to take effect: in the first chunk
\* of the callback the track may still be rendered, under a fade that runs from its old level to silence; its sounds then
\* advance by that one chunk and freeze at its end.  (The state the handle reports is C12's subject.)
Run(m1) == [m1 EXCEPT !.paused = m1.paused \ m1.fading]
Faded(m1, s) == ~Asked(m1, s) /\ Asked(Run(m1), s)
Chunk1(e) == IF e.b < e.n THEN e.b ELSE e.n
FadedAsked(m1, e, s) == Faded(m1, s) /\ e.asks[s] # <<>>
Between(x, a, b) == (a - 1 <= x /\ x <= b + 1) \/ (b - 1 <= x /\ x <= a + 1)
OutOK(m1, e, f) ==
  \/ e.out[f] = Expected(m1, f - 1) /\ ("fr" \in DOMAIN e => \A j \in 1..Len(e.fr) : e.fr[j] # f)
  \/ /\ f <= Chunk1(e)
     /\ \E s \in Snds : FadedAsked(m1, e, s)
     /\ Between(e.out[f], Expected(m1, f - 1), Expected(Run(m1), f - 1))

Check(m, e) ==
  CASE e.a = "cb" ->
         LET m1 == After(m) IN
         IF e.panicked THEN "no_panic"
         ELSE IF \E s \in Snds : FadedAsked(m1, e, s) /\ e.n0[s] # m1.cnt[s] THEN "every_frame_exactly_once_in_order"
         ELSE IF \E s \in Snds : FadedAsked(m1, e, s) /\ e.asks[s] # <<Chunk1(e)>> THEN "silent_branch_contributes_exact_silence"
         ELSE IF \E s \in Snds : Asked(m1, s) /\ e.n0[s] # m1.cnt[s] THEN "every_frame_exactly_once_in_order"
         ELSE IF \E s \in Snds : Asked(m1, s) /\ Sum(e.asks[s]) # e.n THEN "every_live_sound_asked_for_every_frame"
         ELSE IF \E s \in Snds : \E i \in 1..Len(e.asks[s]) : e.asks[s][i] > e.b \/ e.asks[s][i] <= 0 THEN "slices_no_longer_than_internal_buffer"
         ELSE IF \E s \in Snds : ~Asked(m1, s) /\ e.asks[s] # <<>> /\ s \notin m1.live THEN "removed_sound_not_asked"
         ELSE IF \E f \in 1..e.n : ~OutOK(m1, e, f) THEN
              (IF \A f \in 1..e.n : Expected(m1, f - 1) = 0 THEN "silent_branch_contributes_exact_silence" ELSE "output_is_the_documented_sum")
         ELSE ""
    \* (a send track and a track routed to it, built while a callback was picking up its new resources: in every frame the
    \*  probe is heard through both paths or not at all - paths = 0, or 2 = direct + send route)
    [] e.a = "racycb" -> IF ~e.parked THEN "harness_not_parked"
                         ELSE IF \E j \in 1..Len(e.paths) : e.paths[j] \notin {0, 2} THEN "output_is_the_documented_sum" ELSE ""
    [] e.a = "panic" -> "no_panic"
    [] e.a = "hang" -> "returns_promptly"
    [] OTHER -> ""

Upd(m, e) ==
  CASE e.a = "op" -> [m EXCEPT !.pend = Append(@, e)]
    [] e.a = "cb" -> LET m1 == After(m) IN
                     [m1 EXCEPT !.cnt = TLCEval([s \in Snds |-> IF Asked(m1, s) THEN m1.cnt[s] + e.n
                                                               ELSE IF FadedAsked(m1, e, s) THEN m1.cnt[s] + Sum(e.asks[s])
                                                               ELSE m1.cnt[s]]),
                                !.fading = {}]
    [] OTHER -> m
=============================================================================
