------------------------------ MODULE Commands ------------------------------
(* Implementation-level model of kira's command channel                     *)
(*   crates/kira/src/command.rs  (CommandWriter::write, CommandReader::read)*)
(*   triple_buffer 8.1.1         (Input::write = store + publish,           *)
(*                                Output::update = peek dirty + swap)       *)
(* at the granularity of single shared-memory accesses.  A command value is *)
(* two words, so that a torn read would be visible.                         *)
EXTENDS Integers, Sequences, FiniteSets, TLC, P_C07

CONSTANTS MaxW,    \* number of writes
          MaxR     \* number of reads (one per callback)

VARIABLES buf,     \* [0..2 -> <<w1, w2>>]   the three buffers (0 = the initial None)
          back,    \* [idx, dirty]           the shared back-buffer word
          inIdx, outIdx,
          wpc, wv, \* writer: "idle" | "s1" | "s2" ; value being written
          rpc, rres, \* reader: "idle" | "swap" | "l1" | "l2"; words read so far
          nw, nr,
          ev, mon, bad

ivars == <<buf, back, inIdx, outIdx, wpc, wv, rpc, rres, nw, nr>>
vars == <<ivars, ev, mon, bad>>

Init ==
  /\ buf = [i \in 0..2 |-> <<0, 0>>]
  /\ back = [idx |-> 2, dirty |-> FALSE] /\ inIdx = 0 /\ outIdx = 1     \* TripleBuffer::new
  /\ wpc = "idle" /\ wv = 0 /\ rpc = "idle" /\ rres = <<0, 0>>
  /\ nw = 0 /\ nr = 0
  /\ ev = [a |-> "tau"] /\ mon = CInit /\ bad = ""

\* ---- writer: *input_buffer_mut() = Some(v) (two words), then publish()
WStore1 == /\ wpc = "idle" /\ nw < MaxW
           /\ nw' = nw + 1 /\ wv' = nw + 1
           /\ buf' = [buf EXCEPT ![inIdx][1] = nw + 1]
           /\ wpc' = "s1" /\ ev' = [a |-> "wb", v |-> nw + 1]
           /\ UNCHANGED <<back, inIdx, outIdx, rpc, rres, nr>>
WStore2 == /\ wpc = "s1"
           /\ buf' = [buf EXCEPT ![inIdx][2] = wv]
           /\ wpc' = "s2" /\ ev' = [a |-> "tau"]
           /\ UNCHANGED <<back, inIdx, outIdx, wv, rpc, rres, nw, nr>>
WSwap ==   /\ wpc = "s2"
           /\ back' = [idx |-> inIdx, dirty |-> TRUE]
           /\ inIdx' = back.idx
           /\ wpc' = "idle" /\ ev' = [a |-> "we", v |-> wv]
           /\ UNCHANGED <<buf, outIdx, wv, rpc, rres, nw, nr>>

\* ---- reader: if update() { *output_buffer_mut() } else { None }
RPeek ==   /\ rpc = "idle" /\ nr < MaxR
           /\ nr' = nr + 1
           /\ ev' = [a |-> "rb"]
           /\ rpc' = IF back.dirty THEN "swap" ELSE "none"
           /\ UNCHANGED <<buf, back, inIdx, outIdx, wpc, wv, rres, nw>>
RNone ==   /\ rpc = "none"
           /\ rpc' = "idle" /\ ev' = [a |-> "re", res |-> 0, torn |-> FALSE]
           /\ UNCHANGED <<buf, back, inIdx, outIdx, wpc, wv, rres, nw, nr>>
RSwap ==   /\ rpc = "swap"
           /\ back' = [idx |-> outIdx, dirty |-> FALSE]
           /\ outIdx' = back.idx
           /\ rpc' = "l1" /\ ev' = [a |-> "tau"]
           /\ UNCHANGED <<buf, inIdx, wpc, wv, rres, nw, nr>>
RLoad1 ==  /\ rpc = "l1"
           /\ rres' = <<buf[outIdx][1], 0>>
           /\ rpc' = "l2" /\ ev' = [a |-> "tau"]
           /\ UNCHANGED <<buf, back, inIdx, outIdx, wpc, wv, nw, nr>>
RLoad2 ==  /\ rpc = "l2"
           /\ rres' = <<rres[1], buf[outIdx][2]>>
           /\ rpc' = "idle"
           /\ ev' = [a |-> "re", res |-> rres[1], torn |-> rres[1] # buf[outIdx][2]]
           /\ UNCHANGED <<buf, back, inIdx, outIdx, wpc, wv, nw, nr>>

INext == WStore1 \/ WStore2 \/ WSwap \/ RPeek \/ RNone \/ RSwap \/ RLoad1 \/ RLoad2

Monitor ==
  LET r == CCheck(mon, ev') IN
  IF bad # "" THEN UNCHANGED <<mon, bad>>
  ELSE IF r # "" THEN bad' = r /\ UNCHANGED mon
  ELSE bad' = "" /\ mon' = CUpd(mon, ev')

Next == INext /\ Monitor
Spec == Init /\ [][Next]_vars

PropertyHolds == bad = ""
\* the three indices are always a permutation: writer and reader never share a buffer
Exclusive == {inIdx, outIdx, back.idx} = {0, 1, 2}
\* witnesses
W_Overwrite == ~(wpc = "s2" /\ back.dirty)         \* a burst: unread value about to be overwritten
W_Race      == ~(rpc = "none" /\ back.dirty)       \* a write slipped in right after the reader's peek
=============================================================================
