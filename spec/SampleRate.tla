----------------------------- MODULE SampleRate -----------------------------
(* Implementation-level model of how effects learn the device sample rate    *)
(*   crates/kira/src/manager.rs and track/sub/handle.rs (add_*track: load    *)
(*   RendererShared.sample_rate, init_effects, enqueue), backend/renderer.rs *)
(*   (on_change_sample_rate: dt, store, fan-out), backend/resources/mixer.rs *)
(*   (fan-out over the tracks that are in the arena; pick-up of new tracks). *)
(* A track that sits in the new-resource ring while the rate changes is not  *)
(* reached by the fan-out (finding D12).                                     *)
EXTENDS Integers, Sequences, FiniteSets, TLC, P_C16

CONSTANTS Rates, MaxTracks, MaxChanges, MaxCb,
          SplitChange   \* TRUE: on_change_sample_rate in its three stretches (yield points rate.stored, rate.walked)

VARIABLES dev, sh,        \* device rate (renderer's dt), published rate
          trk,            \* sequence of [where: "hand" | "ring" | "arena", eff: rate, loaded: rate]
          gpc,            \* gameplay: "idle" | "loaded" (between the rate load and the enqueue)
          stale,          \* a track entered the arena with a rate that was no longer in force (D12 happened)
          cpc, cr,        \* the rate-change call in progress: "idle" | "stored" | "walked"; the rate it applies
          nchg, cb, act, ev, mon, bad, evq

ivars == <<dev, sh, trk, gpc, stale, cpc, cr, nchg, cb, evq>>
vars == <<ivars, act, ev, mon, bad>>

\* (the initial "rate" event counts as epoch 1 in the monitor)
Init == /\ dev \in Rates /\ sh = dev /\ trk = <<>> /\ gpc = "idle" /\ stale = FALSE /\ cpc = "idle" /\ cr = 0 /\ nchg = 0 /\ cb = 0 /\ evq = <<>>
        /\ act = <<"Init">> /\ ev = [a |-> "rate", r |-> dev] /\ mon = [PInit EXCEPT !.rate = dev, !.epoch = 1] /\ bad = ""

\* add_sub_track, first half: build, load the published rate, init_effects  (then yield point ctl.reserved)
GLoad == /\ gpc = "idle" /\ Len(trk) < MaxTracks /\ evq = <<>>
         /\ trk' = Append(trk, [where |-> "hand", eff |-> sh])
         /\ gpc' = "loaded" /\ act' = <<"GLoad">> /\ ev' = [a |-> "load", t |-> Len(trk) + 1]
         /\ UNCHANGED <<dev, sh, stale, cpc, cr, nchg, cb, evq>>
\* second half: enqueue
GEnqueue == /\ gpc = "loaded" /\ evq = <<>>
            /\ trk' = [trk EXCEPT ![Len(trk)].where = "ring"]
            /\ gpc' = "idle" /\ act' = <<"GEnqueue">> /\ ev' = [a |-> "enq"]
            /\ UNCHANGED <<dev, sh, stale, cpc, cr, nchg, cb, evq>>

\* Renderer::on_change_sample_rate (between callbacks)
Change(r) == /\ ~SplitChange /\ nchg < MaxChanges /\ r # dev /\ evq = <<>>
             /\ dev' = r /\ sh' = r /\ nchg' = nchg + 1
             /\ trk' = [i \in 1..Len(trk) |-> IF trk[i].where = "arena" THEN [trk[i] EXCEPT !.eff = r] ELSE trk[i]]
             /\ act' = <<"Change", r>> /\ ev' = [a |-> "rate", r |-> r]
             /\ UNCHANGED <<gpc, stale, cpc, cr, cb, evq>>

\* the same call in its three stretches: dt and the published rate; the walk over the arena; the return.  The change counts from the moment
\* the call begins: a track built after that must be given the new rate.  The gameplay thread may build tracks in between.
ChangeA(r) == /\ SplitChange /\ cpc = "idle" /\ nchg < MaxChanges /\ r # dev /\ evq = <<>>
              /\ dev' = r /\ sh' = r /\ cpc' = "stored" /\ cr' = r
              /\ act' = <<"ChangeA", r>> /\ ev' = [a |-> "rate", r |-> r]
              /\ UNCHANGED <<trk, gpc, stale, nchg, cb, evq>>
ChangeB == /\ cpc = "stored" /\ cpc' = "walked"
           /\ trk' = [i \in 1..Len(trk) |-> IF trk[i].where = "arena" THEN [trk[i] EXCEPT !.eff = cr] ELSE trk[i]]
           /\ act' = <<"ChangeB">> /\ ev' = [a |-> "tau"]
           /\ UNCHANGED <<dev, sh, gpc, stale, cr, nchg, cb, evq>>
ChangeEnd == /\ cpc = "walked" /\ cpc' = "idle" /\ nchg' = nchg + 1
             /\ act' = <<"ChangeEnd">> /\ ev' = [a |-> "tau"]
             /\ UNCHANGED <<dev, sh, trk, gpc, stale, cr, cb, evq>>

\* a callback: pick up queued tracks, then every track in the arena processes (one proc event each, queued)
Callback == /\ cb < MaxCb /\ evq = <<>> /\ cpc = "idle" /\ cb' = cb + 1
            /\ LET t2 == [i \in 1..Len(trk) |-> IF trk[i].where = "ring" THEN [trk[i] EXCEPT !.where = "arena"] ELSE trk[i]] IN
               /\ trk' = t2
               /\ stale' = (stale \/ \E i \in 1..Len(trk) : trk[i].where = "ring" /\ trk[i].eff # dev)
               /\ evq' = [i \in 1..Cardinality({j \in 1..Len(t2) : t2[j].where = "arena"}) |->
                            LET j == CHOOSE k \in 1..Len(t2) : t2[k].where = "arena" /\ Cardinality({h \in 1..k : t2[h].where = "arena"}) = i IN
                            [a |-> "proc", t |-> j, seen |-> t2[j].eff, idt |-> dev]]
            /\ act' = <<"Callback">> /\ ev' = [a |-> "cbk"]
            /\ UNCHANGED <<dev, sh, gpc, cpc, cr, nchg>>
Emit == /\ evq # <<>> /\ ev' = Head(evq) /\ evq' = Tail(evq) /\ act' = <<"Emit">>
        /\ UNCHANGED <<dev, sh, trk, gpc, stale, cpc, cr, nchg, cb>>

INext == GLoad \/ GEnqueue \/ (\E r \in Rates : Change(r)) \/ (\E r \in Rates : ChangeA(r)) \/ ChangeB \/ ChangeEnd \/ Callback \/ Emit
Monitor ==
  LET r == Check(mon, ev') IN
  IF bad # "" THEN UNCHANGED <<mon, bad>>
  ELSE IF r # "" THEN bad' = r /\ UNCHANGED mon
  ELSE bad' = "" /\ mon' = Upd(mon, ev')
Next == INext /\ Monitor
Spec == Init /\ [][Next]_vars

\* finding D12: a track that was not yet in the arena when the rate changed keeps the old rate
KnownD12 == bad = "effect_processes_with_the_rate_in_force" /\ stale
PropertyHolds == bad = "" \/ KnownD12
ArenaTracksFollowChanges == TRUE
W_D12 == bad = ""
=============================================================================
