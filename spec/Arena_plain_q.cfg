\* ResourceStorage flavour, N = 2, 3 items, fine-grained drain, <= 3 callbacks
SPECIFICATION Spec
CONSTANTS
  N = 2
  Items = {1, 2, 3}
  SelfRef = FALSE
  UnusedCap = 3
  Replayable = FALSE
  MergedReserve = FALSE
  MaxCb = 3
VIEW View
INVARIANTS PropertyHolds NoPanic TypeOK KeysUnique KeyResolvesToOwner ControllerMirrorsArena FreeListExact OnlyGameplayDestroys
CHECK_DEADLOCK FALSE
