------------------------------ MODULE ArenaCtl ------------------------------
(* The slot controller of atomic_arena 0.1.2 (controller.rs) at the         *)
(* granularity of single atomic accesses: an intrusive free list            *)
(* (first_free_slot_index, next_free_slot_index per slot) popped by the     *)
(* gameplay thread (try_reserve: load head, load next, CAS) and pushed by   *)
(* the audio thread (free: free flag, generation, then load head / store    *)
(* next / CAS).  kira uses it with ONE reserving and ONE freeing thread per *)
(* arena.  Checked: the list never loses or duplicates a slot, a reserved   *)
(* slot is never handed out again before it is freed (no ABA with a single  *)
(* popper), and each operation takes effect atomically at its successful    *)
(* CAS (so Arena.tla may treat try_reserve and free as single steps).       *)
EXTENDS Integers, Sequences, FiniteSets, TLC
CONSTANTS N, MaxOps
None == 0
VARIABLES head, nxt, freeF, gen,           \* shared atomics
          rpc, rh, rn,                     \* reserver: pc, loaded head, loaded next
          fpc, fi, fh,                     \* freer: pc, slot being freed, loaded head
          owned,                           \* slots currently reserved (handed out and not yet given to free())
          ops
vars == <<head, nxt, freeF, gen, rpc, rh, rn, fpc, fi, fh, owned, ops>>
Slots == 1..N
Init == /\ head = 1 /\ nxt = [i \in Slots |-> IF i < N THEN i + 1 ELSE None]
        /\ freeF = [i \in Slots |-> TRUE] /\ gen = [i \in Slots |-> 0]
        /\ rpc = "idle" /\ rh = None /\ rn = None /\ fpc = "idle" /\ fi = None /\ fh = None
        /\ owned = {} /\ ops = 0
\* ---- try_reserve
RLoadHead == /\ rpc = "idle" /\ ops < MaxOps /\ rh' = head
             /\ rpc' = (IF head = None THEN "idle" ELSE "next") /\ ops' = ops + 1     \* None: ArenaFull
             /\ UNCHANGED <<head, nxt, freeF, gen, rn, fpc, fi, fh, owned>>
RLoadNext == /\ rpc = "next" /\ rn' = nxt[rh] /\ rpc' = "cas"
             /\ UNCHANGED <<head, nxt, freeF, gen, rh, fpc, fi, fh, owned, ops>>
RCas == /\ rpc = "cas"
        /\ IF head = rh THEN head' = rn /\ rpc' = "flag" ELSE UNCHANGED head /\ rpc' = "idle2"
        /\ UNCHANGED <<nxt, freeF, gen, rh, rn, fpc, fi, fh, owned, ops>>
RRetry == /\ rpc = "idle2" /\ rh' = head /\ rpc' = (IF head = None THEN "idle" ELSE "next")
          /\ UNCHANGED <<head, nxt, freeF, gen, rn, fpc, fi, fh, owned, ops>>
RFlag == /\ rpc = "flag" /\ freeF' = [freeF EXCEPT ![rh] = FALSE] /\ owned' = owned \cup {rh} /\ rpc' = "idle"
         /\ UNCHANGED <<head, nxt, gen, rh, rn, fpc, fi, fh, ops>>
\* ---- free(i) for a slot the arena holds
FStart(i) == /\ fpc = "idle" /\ i \in owned /\ ops < MaxOps /\ ops' = ops + 1
             /\ fi' = i /\ owned' = owned \ {i}
             /\ freeF' = [freeF EXCEPT ![i] = TRUE] /\ fpc' = "gen"
             /\ UNCHANGED <<head, nxt, gen, rpc, rh, rn, fh>>
FGen == /\ fpc = "gen" /\ gen' = [gen EXCEPT ![fi] = @ + 1] /\ fpc' = "load"
        /\ UNCHANGED <<head, nxt, freeF, rpc, rh, rn, fi, fh, owned, ops>>
FLoad == /\ fpc = "load" /\ fh' = head /\ fpc' = "store"
         /\ UNCHANGED <<head, nxt, freeF, gen, rpc, rh, rn, fi, owned, ops>>
FStore == /\ fpc = "store" /\ nxt' = [nxt EXCEPT ![fi] = fh] /\ fpc' = "cas"
          /\ UNCHANGED <<head, freeF, gen, rpc, rh, rn, fi, fh, owned, ops>>
FCas == /\ fpc = "cas"
        /\ IF head = fh THEN head' = fi /\ fpc' = "idle" ELSE UNCHANGED head /\ fpc' = "load"
        /\ UNCHANGED <<nxt, freeF, gen, rpc, rh, rn, fi, fh, owned, ops>>
Next == RLoadHead \/ RLoadNext \/ RCas \/ RRetry \/ RFlag \/ (\E i \in Slots : FStart(i)) \/ FGen \/ FLoad \/ FStore \/ FCas
Spec == Init /\ [][Next]_vars
\* the list reachable from head
RECURSIVE Walk(_, _)
Walk(h, k) == IF h = None \/ k = 0 THEN <<>> ELSE <<h>> \o Walk(nxt[h], k - 1)
List == Walk(head, N + 1)
InList == {List[j] : j \in 1..Len(List)}
NoDuplicates == Len(List) = Cardinality(InList) /\ Len(List) <= N
\* a slot is in exactly one place: the list, a reserver that won its CAS, the owner set, or the freer's hand
InHand == (IF rpc = "flag" THEN {rh} ELSE {}) \cup (IF fpc # "idle" THEN {fi} ELSE {})
Partition == /\ InList \cup owned \cup InHand = Slots
             /\ InList \cap owned = {} /\ InList \cap InHand = {} /\ owned \cap InHand = {}
ReservedNotFree == \A i \in owned : ~freeF[i]
W_Contention == ~(rpc = "idle2")
W_PushRetry == ~(fpc = "load" /\ fh # None /\ fh # head)
=============================================================================
