\* thorough (the same constants checks/c13.py uses): every input of N = 8 samples over {-1, 0, 1}, every partition into process
\* calls of 1..8 frames, d = 1..4.  See DelayLine_q.cfg for the invariants.  Measured: 30 548 016 distinct states (42 305 328 generated), depth 13, about 5 min on 4 workers.
SPECIFICATION Spec
CONSTANTS
  N = 8
  Vals <- SignedVals
  Ds = {1, 2, 3, 4}
  NGs = {0, 1}
  B = 8
  InMode = "all"
  SubFrameFixed = FALSE
INVARIANTS PropertyHolds Strict TypeOK BufferIsLine OutputSoFar
CHECK_DEADLOCK FALSE
