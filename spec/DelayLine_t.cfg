\* thorough: as DelayLine_q.cfg with samples over {-1, 0, 1} and d = 1..4.
SPECIFICATION Spec
CONSTANTS
  N = 8
  Vals <- SignedVals
  Ds = {1, 2, 3, 4}
  NGs = {0, 1}
  B = 8
  InMode = "all"
  SubFrameFixed = FALSE
INVARIANTS PropertyHolds Strict TypeOK BufferIsLine OutputSoFar
CHECK_DEADLOCK FALSE
