-------------------------- MODULE Gen_StaticSound --------------------------
(* Behaviour generator for StaticSound (spec -> implementation replay): a   *)
(* history variable turns states into paths; each printed line is one       *)
(* session: the settings and the sequence of events the model predicts.     *)
(* The driver's steps are read off the events (begin -> on_start_processing,*)
(* proc n -> process(n frames), seek_to/seek_by/set_loop/set_rate -> handle *)
(* calls).  The property-level invariant is checked on the way, so a        *)
(* bounded-exhaustive generation run is a model-checking run as well.       *)
EXTENDS StaticSound, Json
VARIABLE hist
GInit == Init /\ hist = <<>>
GNext == Next /\ hist' = IF ev'.a = "tau" THEN hist ELSE Append(hist, ev')
GSpec == GInit /\ [][GNext]_<<vars, hist>>
GView == <<ivars, mon, bad>>
Over == (pc = "idle" /\ nf >= MaxFrames) \/ pc = "dead"
Hung == ~NoHang
Emit(h) == PrintT(<<"BEHAVIOUR", ToJson([c |-> c, evs |-> h, open |-> mon.open, bad |-> bad, cmd |-> mon.cmd, age |-> mon.age, st |-> st])>>)
Dump == /\ Over => Emit(hist)
        /\ Hung => Emit(Append(hist, [a |-> "hang"]))
\* a hung session repeats the same two states forever; stop exploring it
NotHung == ~(Hung /\ spin = 1)
=============================================================================
