//! C10 driver: one streaming sound whose decoder thread is stepped through the dec.* yield points.
//!
//! Scenario: {"r": ring capacity, "len": frames, "pk": packet size, "fail": failing call (0 = never),
//!            "nf": frames per callback, "src": .., "steps": [{"act":"Play","rejected":bool} | {"act":"Reject"}
//!            | {"act":"DStep"} | {"act":"Callback"} | {"act":"Stop"} | {"act":"Discard"} | {"act":"Pop"}]}

use std::{
	sync::{atomic::Ordering, Arc},
	time::{Duration, Instant},
};

use kira::{
	sound::streaming::{StreamingSoundData, StreamingSoundHandle},
	track::{MainTrackBuilder, TrackBuilder},
	Capacities, StartTime, Tween,
};
use kv::{common::*, scene::*};
use serde_json::{json, Value};

struct Sess {
	sim: Option<Sim>,
	h: Option<StreamingSoundHandle<String>>,
	ctl: Option<Arc<Ctl>>,
	stats: Option<Arc<DecStats>>,
	first_reported: bool,
	exited_logged: bool,
	clock: Option<kira::clock::ClockHandle>,
}

/// wait until the decoder thread is parked or has released its decoder
fn wait_dec(ctl: &Ctl, stats: &DecStats) -> Option<&'static str> {
	let t0 = Instant::now();
	loop {
		if let Status::Parked(site) = ctl.status() {
			return Some(site);
		}
		if stats.dropped.load(Ordering::SeqCst) {
			return None;
		}
		if t0.elapsed() > Duration::from_secs(3) {
			return Some("hang");
		}
		std::thread::sleep(Duration::from_micros(100));
	}
}

fn site_name(s: &str) -> &'static str {
	match s {
		"dec.top" => "top",
		"dec.wait" => "wait",
		"dec.err" => "err",
		x if x.starts_with("dec.end") => "end",
		_ => "hang",
	}
}

fn dstep(s: &mut Sess, t: &mut Tracer) -> bool {
	let (Some(ctl), Some(stats)) = (s.ctl.clone(), s.stats.clone()) else { return true };
	if s.exited_logged {
		return true;
	}
	if s.first_reported {
		ctl.resume();
	}
	s.first_reported = true;
	let t0 = Instant::now();
	match wait_dec(&ctl, &stats) {
		Some("hang") => {
			t.ev(json!({"a": "hang", "who": "decoder"}));
			false
		}
		Some(site) => {
			// ms: wall-clock time the thread took from being let go to its next yield point (its sleep while the ring is full)
			t.ev(json!({"a": "dec", "site": site_name(site), "prod": DEC_PUSHED.load(Ordering::SeqCst), "ms": t0.elapsed().as_millis() as u64, "us": t0.elapsed().as_micros() as u64}));
			true
		}
		None => {
			s.exited_logged = true;
			t.ev(json!({"a": "exit", "on_audio": stats.dropped_in_audio.load(Ordering::SeqCst)}));
			true
		}
	}
}

fn run_scenario(sc: &Value, t: &mut Tracer) {
	let r = sc["r"].as_u64().unwrap() as usize;
	let len = sc["len"].as_u64().unwrap() as usize;
	let pk = sc["pk"].as_u64().unwrap() as usize;
	let fail = sc["fail"].as_u64().unwrap() as usize;
	let nf = sc["nf"].as_u64().unwrap_or(2) as usize;
	t.reset(json!({"cap": r, "len": len, "fail": fail, "pk": pk, "nf": nf, "src": sc["src"]}));
	kira::verif::set_stream_ring_capacity(r);
	DEC_PUSHED.store(0, Ordering::SeqCst);
	cancel_pending_decoders();
	let mut s = Sess {
		sim: Some(Sim::new(Capacities::default(), MainTrackBuilder::new(), nf, RATE)),
		h: None,
		ctl: None,
		stats: None,
		first_reported: false,
		exited_logged: false,
		clock: None,
	};
	// (a clock for WaitGone: created now, so that the audio thread has picked it up long before its handle is dropped)
	s.clock = s.sim.as_mut().and_then(|sim| sim.manager.add_clock(kira::clock::ClockSpeed::TicksPerSecond(1.0)).ok());
	let mut discarded = false;
	for step in sc["steps"].as_array().unwrap() {
		let ok = match step["act"].as_str().unwrap() {
			"Play" => {
				let rejected = step["rejected"].as_bool().unwrap_or(false);
				let (dec, stats) = ScriptDecoder::new(len, vec![pk], 0, fail);
				// (a decode call past the end of the stream - which kira must never make - fails, or gives an empty chunk)
				let dec = dec.with_eos(sc["eos"].as_u64().unwrap_or(1) as u8);
				let ctl = Ctl::new();
				ctl.set_sites(&["dec.top", "dec.wait", "dec.err", "dec.end"]);
				expect_decoder_thread(ctl.clone());
				let sim = s.sim.as_mut().unwrap();
				let data = StreamingSoundData::from_decoder(dec);
				let res = guarded(|| {
					if rejected {
						// a track that cannot take any sound
						let mut full = sim.manager.add_sub_track(TrackBuilder::new().sound_capacity(0)).unwrap();
						let r = full.play(data);
						std::mem::forget(full); // keep the track (and its handle) out of the picture
						r
					} else {
						sim.manager.play(data)
					}
				});
				match res {
					Err(m) => {
						t.ev(json!({"a": "panic", "who": "gameplay", "msg": m}));
						false
					}
					Ok(Ok(h)) => {
						s.h = Some(h);
						s.ctl = Some(ctl);
						s.stats = Some(stats);
						t.ev(json!({"a": "play", "ok": true}));
						true
					}
					Ok(Err(kira::PlaySoundError::IntoSoundError(_))) => {
						cancel_pending_decoders();
						t.ev(json!({"a": "play", "ok": false, "decoder_dropped": stats.dropped.load(Ordering::SeqCst)}));
						true
					}
					Ok(Err(_)) => {
						// refused by the full track: the thread exists, the sound does not
						s.ctl = Some(ctl);
						s.stats = Some(stats);
						t.ev(json!({"a": "play", "ok": true}));
						true
					}
				}
			}
			"Reject" => {
				t.ev(json!({"a": "reject"}));
				true
			}
			"DStep" => dstep(&mut s, t),
			"Callback" => {
				if let Some(sim) = s.sim.as_mut() {
					let res = sim.callback(nf);
					let hd = hear(&res.out);
					let state = s.h.as_ref().map(|h| state_name(h.state())).unwrap_or("Playing");
					let ns = sim.manager.main_track().num_sounds();
					t.ev(json!({"a": "cb", "state": state, "idx": hd.idx, "zero": hd.zero, "nsounds": ns,
						"panicked": res.panicked.is_some(), "m": res.monitor(2)}));
					res.panicked.is_none()
				} else {
					let state = s.h.as_ref().map(|h| state_name(h.state())).unwrap_or("Playing");
					t.ev(json!({"a": "cb", "state": state, "idx": vec![-1; nf], "zero": true, "nsounds": 0, "panicked": false}));
					true
				}
			}
			"Stop" => {
				if let Some(h) = s.h.as_mut() {
					h.stop(Tween { start_time: StartTime::Immediate, duration: Duration::ZERO, easing: kira::Easing::Linear });
					t.ev(json!({"a": "stop"}));
				}
				true
			}
			"Pause" => {
				if let Some(h) = s.h.as_mut() {
					h.pause(Tween { start_time: StartTime::Immediate, duration: Duration::ZERO, easing: kira::Easing::Linear });
					t.ev(json!({"a": "pause"}));
				}
				true
			}
			"WaitGone" => {
				// resume at a time of a clock whose handle is dropped at once: the wait can never end
				if let (Some(h), Some(clock)) = (s.h.as_mut(), s.clock.take()) {
					h.resume_at(
						StartTime::ClockTime(clock.time() + 1000),
						Tween { start_time: StartTime::Immediate, duration: Duration::ZERO, easing: kira::Easing::Linear },
					);
					drop(clock);
					t.ev(json!({"a": "waitgone"}));
				}
				true
			}
			"Discard" => {
				if s.sim.take().is_some() {
					discarded = true;
					t.ev(json!({"a": "discard"}));
				}
				true
			}
			"Pop" => {
				// (a rejected sound has no handle: nothing can be popped)
				let msg = s.h.as_mut().and_then(|h| h.pop_error());
				let k = msg
					.as_ref()
					.and_then(|m| m.rsplit(' ').next().and_then(|x| x.parse::<u64>().ok()))
					.unwrap_or(0);
				t.ev(json!({"a": "pop", "msg": k}));
				true
			}
			a => panic!("unknown act {a}"),
		};
		if !ok {
			break;
		}
	}
	// end of session: whatever is left is discarded, and the thread gets K more iterations to end
	if s.sim.take().is_some() && !discarded && s.ctl.is_some() {
		t.ev(json!({"a": "discard"}));
	}
	for _ in 0..(r + 6) {
		if s.exited_logged || !dstep(&mut s, t) {
			break;
		}
	}
	let exited = s.stats.as_ref().map(|x| x.dropped.load(Ordering::SeqCst)).unwrap_or(true);
	if let Some(ctl) = s.ctl.as_ref() {
		ctl.release(); // never leave a parked thread behind
	}
	t.ev(json!({"a": "end", "exited": exited}));
	kira::verif::set_stream_ring_capacity(0);
}

fn main() {
	let args: Vec<String> = std::env::args().collect();
	quiet_panics();
	install_hook();
	let inp = arg(&args, "--in").expect("--in");
	let out = arg(&args, "--out").expect("--out");
	let mut t = Tracer::create(&out);
	for sc in read_scenarios(&inp) {
		run_scenario(&sc, &mut t);
	}
	t.flush();
	println!("events {}", t.events);
}
