//! C19 driver: unit conversions and clock-time arithmetic evaluated on the real library.
//!
//! Every scenario (one JSON object per line) becomes one session of the trace: a `reset`
//! event with the scenario's constants followed by one event per evaluation.  The driver only
//! evaluates public functions/operators and writes what it saw as 32-bit integers; every
//! comparison is left to TLC (T_C19.tla / P_C19.tla).
//!
//!  {"kind":"time","q":Q,"op":"add_f"|"sub_f"|"add_u"|"sub_u"|"cmp"|"from_f","t":T,"f":F,"args":[..]}
//!       ClockTime{ticks: T, fraction: F/Q} op arg   (arg in 1/Q ticks for *_f, whole ticks for *_u,
//!       a second time T2*Q+F2 for cmp, a tick count in 1/Q for from_f)
//!  {"kind":"timer","cases":[{"op":"rt"|"sub","ticks":u64,"fb":hex,"ab":hex} | {"op":"cmp","ticks","fq","ticks2","fq2"}]}
//!       arbitrary f64 fraction/amount given as bit patterns; cmp fractions are fq / 2^30
//!  {"kind":"map","ek":0..6,"pw":P,"g":G,"lo","hi","olo","ohi","xs":[..]}  Mapping<f64>::map(x/G)
//!  {"kind":"speed","cases":[{"u":0|1|2,"k":K}]}   {"kind":"speedr","cases":[{"u","vb":hex}]}
//!  {"kind":"semi","cases":[{"k":K} | {"sb":hex}]}
//!  {"kind":"db","keys":[..]}   {"kind":"pan","keys":[..]}    f32 inputs as order keys

use kira::{
	clock::{ClockId, ClockSpeed, ClockTime},
	AudioManager, AudioManagerSettings, Capacities, Decibels, Easing, Frame, Mapping, Panning,
	PlaybackRate, Semitones,
};
use serde_json::{json, Value};

use kv::common::*;

const TWO30: f64 = 1073741824.0;
const TICK_CLAMP: u64 = (1 << 20) - 1;

fn key32(x: f32) -> i64 {
	if x.is_nan() {
		return -2147483647;
	}
	let b = x.to_bits();
	let mag = (b & 0x7fff_ffff) as i64;
	if b >> 31 == 1 {
		-mag
	} else {
		mag
	}
}

fn from_key32(k: i64) -> f32 {
	if k < 0 {
		f32::from_bits((-k) as u32 | 0x8000_0000)
	} else {
		f32::from_bits(k as u32)
	}
}

/// order key of an f64 as two 31-bit words (the last mantissa bit is dropped)
fn okey64(v: f64) -> (i64, i64) {
	if v.is_nan() {
		return (-2147483647, 0);
	}
	let b = v.to_bits();
	let m = b & 0x7fff_ffff_ffff_ffff;
	let (h, l) = ((m >> 32) as i64, ((m & 0xffff_ffff) >> 1) as i64);
	if b >> 63 == 1 && m != 0 {
		(-h - 1, 2147483647 - l)
	} else {
		(h, l)
	}
}

fn clampi(x: f64, lim: f64) -> i64 {
	if x.is_nan() {
		-(lim as i64)
	} else {
		x.max(-lim).min(lim) as i64
	}
}

fn hexbits(v: &Value) -> f64 {
	let s = v.as_str().expect("hex bits");
	f64::from_bits(u64::from_str_radix(s.trim_start_matches("0x"), 16).expect("hex"))
}

/// projection of a ClockTime: ticks (clamped), fraction on the 1/q grid, floor(fraction * 2^30)
fn proj(t: &ClockTime, q: i64, pre: &str, e: &mut Value) {
	let fq = t.fraction * q as f64;
	let on_grid = fq.is_finite() && fq.fract() == 0.0;
	e[format!("{pre}t")] = json!(t.ticks.min(TICK_CLAMP));
	e[format!("{pre}f")] = json!(clampi(fq.floor(), 1048576.0));
	e[format!("{pre}x")] = json!(on_grid);
	e[format!("{pre}q")] = json!(clampi((t.fraction * TWO30).floor(), TWO30 + 1.0));
}

fn time(clock: ClockId, ticks: u64, fraction: f64) -> ClockTime {
	ClockTime {
		clock,
		ticks,
		fraction,
	}
}

fn run_time(sc: &Value, clock: ClockId, tr: &mut Tracer) {
	let q = sc["q"].as_i64().unwrap();
	let op = sc["op"].as_str().unwrap().to_string();
	let (t, f) = (sc["t"].as_u64().unwrap_or(0), sc["f"].as_i64().unwrap_or(0));
	tr.reset(json!({"kind": "time", "q": q, "op": op, "t": t, "f": f}));
	let qf = q as f64;
	let base = time(clock, t, f as f64 / qf);
	for arg in sc["args"].as_array().unwrap() {
		let arg = arg.as_i64().unwrap();
		let mut e = json!({"a": op, "q": q, "t": t, "f": f, "p": false});
		match op.as_str() {
			"add_f" | "sub_f" => {
				let am = arg as f64 / qf;
				e["am"] = json!(arg);
				let r = guarded(|| if op == "add_f" { base + am } else { base - am });
				// the compound operator (+= / -=) must give what the binary one gives
				let c = guarded(|| {
					let mut c = base;
					if op == "add_f" { c += am } else { c -= am }
					c
				});
				e["ceq"] = json!(match (&r, &c) {
					(Ok(r), Ok(c)) => r.ticks == c.ticks && r.fraction.to_bits() == c.fraction.to_bits(),
					(Err(_), Err(_)) => true,
					_ => false,
				});
				match r {
					Ok(r) => {
						proj(&r, q, "r", &mut e);
						if op == "add_f" {
							match guarded(|| r - am) {
								Ok(b) => {
									e["bp"] = json!(false);
									proj(&b, q, "b", &mut e)
								}
								Err(_) => {
									e["bp"] = json!(true);
									proj(&base, q, "b", &mut e)
								}
							}
						}
					}
					Err(msg) => {
						e["p"] = json!(true);
						e["msg"] = json!(msg);
						proj(&base, q, "r", &mut e);
						if op == "add_f" {
							e["bp"] = json!(false);
							proj(&base, q, "b", &mut e);
						}
					}
				}
			}
			"add_u" | "sub_u" => {
				let n = arg as u64;
				e["n"] = json!(arg);
				let c = guarded(|| {
					let mut c = base;
					if op == "add_u" { c += n } else { c -= n }
					c
				});
				let r0 = guarded(|| if op == "add_u" { base + n } else { base - n });
				e["ceq"] = json!(match (&r0, &c) {
					(Ok(r), Ok(c)) => r.ticks == c.ticks && r.fraction.to_bits() == c.fraction.to_bits(),
					(Err(_), Err(_)) => true,
					_ => false,
				});
				match r0 {
					Ok(r) => proj(&r, q, "r", &mut e),
					Err(msg) => {
						e["p"] = json!(true);
						e["msg"] = json!(msg);
						proj(&base, q, "r", &mut e);
					}
				}
			}
			"cmp" => {
				let (t2, f2) = (arg / q, arg % q);
				e["t2"] = json!(t2);
				e["f2"] = json!(f2);
				let other = time(clock, t2 as u64, f2 as f64 / qf);
				match guarded(|| base.partial_cmp(&other)) {
					Ok(c) => e["c"] = json!(c.map(|o| o as i64).unwrap_or(2)),
					Err(_) => {
						e["p"] = json!(true);
						e["c"] = json!(2);
					}
				}
			}
			"from_f" => {
				e["v"] = json!(arg);
				match guarded(|| ClockTime::from_ticks_f64(clock, arg as f64 / qf)) {
					Ok(r) => proj(&r, q, "r", &mut e),
					Err(_) => {
						e["p"] = json!(true);
						proj(&base, q, "r", &mut e);
					}
				}
			}
			_ => panic!("unknown time op {op}"),
		}
		tr.ev(e);
	}
}

fn split(ticks: u64) -> (i64, i64) {
	(((ticks >> 30).min(1 << 30)) as i64, (ticks & ((1 << 30) - 1)) as i64)
}

fn run_timer(sc: &Value, clock: ClockId, tr: &mut Tracer) {
	tr.reset(json!({"kind": "timer"}));
	for c in sc["cases"].as_array().unwrap() {
		let op = c["op"].as_str().unwrap();
		let ticks = c["ticks"].as_u64().unwrap();
		match op {
			"rt" | "sub" => {
				let (fr, am) = (hexbits(&c["fb"]), hexbits(&c["ab"]));
				let base = time(clock, ticks, fr);
				if op == "rt" {
					// 2^ae >= am + 1
					let ae = (((am + 1.0).to_bits() >> 52) & 0x7ff) as i64 - 1023 + 1;
					let (thi, tlo) = split(ticks);
					// thi/tlo/tq/am20 restate the inputs (am20 = floor(min(amount, 1024) * 2^20)); only ae is used by the monitor
					let mut e = json!({"a": "rt_r", "ae": ae, "p": false, "rq": 0, "bq": 0, "d20": 0,
						"thi": thi, "tlo": tlo, "tq": clampi((fr * TWO30).floor(), TWO30 + 1.0),
						"am20": clampi((am.min(1024.0) * 1048576.0).floor(), TWO30)});
					match guarded(|| {
						let r = base + am;
						(r, r - am)
					}) {
						Ok((r, b)) => {
							e["rq"] = json!(clampi((r.fraction * TWO30).floor(), TWO30 + 1.0));
							e["bq"] = json!(clampi((b.fraction * TWO30).floor(), TWO30 + 1.0));
							let d = (b.ticks as i128 - ticks as i128) as f64 + (b.fraction - fr);
							e["d20"] = json!(clampi((d * 1048576.0).round(), TWO30));
						}
						Err(_) => e["p"] = json!(true),
					}
					tr.ev(e);
				} else {
					let (thi, tlo) = split(ticks);
					let mut e = json!({"a": "sub_r", "thi": thi, "tlo": tlo,
						"tq": clampi((fr * TWO30).floor(), TWO30 + 1.0), "p": false, "rhi": 0, "rlo": 0, "rq": 0});
					match guarded(|| base - am) {
						Ok(r) => {
							let (rhi, rlo) = split(r.ticks);
							e["rhi"] = json!(rhi);
							e["rlo"] = json!(rlo);
							e["rq"] = json!(clampi((r.fraction * TWO30).floor(), TWO30 + 1.0));
						}
						Err(_) => e["p"] = json!(true),
					}
					tr.ev(e);
				}
			}
			"cmp" => {
				let ticks2 = c["ticks2"].as_u64().unwrap();
				let (fq, fq2) = (c["fq"].as_i64().unwrap(), c["fq2"].as_i64().unwrap());
				let (thi, tlo) = split(ticks);
				let (uhi, ulo) = split(ticks2);
				let a = time(clock, ticks, fq as f64 / TWO30);
				let b = time(clock, ticks2, fq2 as f64 / TWO30);
				let mut e = json!({"a": "cmp_r", "thi": thi, "tlo": tlo, "tq": fq, "uhi": uhi, "ulo": ulo, "uq": fq2,
					"p": false, "c": 2});
				match guarded(|| a.partial_cmp(&b)) {
					Ok(c) => e["c"] = json!(c.map(|o| o as i64).unwrap_or(2)),
					Err(_) => e["p"] = json!(true),
				}
				tr.ev(e);
			}
			_ => panic!("unknown timer op {op}"),
		}
	}
}

fn easing_of(ek: i64, pw: i64) -> Easing {
	match ek {
		0 => Easing::Linear,
		1 => Easing::InPowi(pw as i32),
		2 => Easing::OutPowi(pw as i32),
		3 => Easing::InOutPowi(pw as i32),
		4 => Easing::InPowf(pw as f64 / 4.0),
		5 => Easing::OutPowf(pw as f64 / 4.0),
		6 => Easing::InOutPowf(pw as f64 / 4.0),
		_ => panic!("unknown easing {ek}"),
	}
}

fn run_map(sc: &Value, tr: &mut Tracer) {
	let geti = |k: &str| sc[k].as_i64().unwrap();
	let (ek, pw, g, lo, hi, olo, ohi) = (
		geti("ek"),
		geti("pw"),
		geti("g"),
		geti("lo"),
		geti("hi"),
		geti("olo"),
		geti("ohi"),
	);
	// desc: the input range is given from its upper end down to its lower end (hi maps to the start of the output range)
	let desc = sc["desc"].as_bool().unwrap_or(false);
	tr.reset(json!({"kind": "map", "ek": ek, "pw": pw, "g": g, "lo": lo, "hi": hi, "olo": olo, "ohi": ohi, "desc": desc,
		"exact": sc["exact"].as_bool().unwrap_or(false)}));
	let gf = g as f64;
	let mapping = Mapping {
		input_range: if desc { (hi as f64 / gf, lo as f64 / gf) } else { (lo as f64 / gf, hi as f64 / gf) },
		output_range: (olo as f64 / 65536.0, ohi as f64 / 65536.0),
		easing: easing_of(ek, pw),
	};
	for x in sc["xs"].as_array().unwrap() {
		let x = x.as_i64().unwrap();
		let mut e = json!({"a": "map", "x": x, "p": false, "y": 0, "yx": false, "h": 0, "l": 0});
		match guarded(|| mapping.map(x as f64 / gf)) {
			Ok(v) => {
				let s = v * 65536.0;
				e["y"] = json!(clampi(s.floor(), TWO30));
				e["yx"] = json!(s.is_finite() && s.fract() == 0.0 && s.abs() < TWO30);
				let (h, l) = okey64(v);
				e["h"] = json!(h);
				e["l"] = json!(l);
			}
			Err(_) => e["p"] = json!(true),
		}
		tr.ev(e);
	}
}

fn speed_of(u: i64, v: f64) -> ClockSpeed {
	match u {
		0 => ClockSpeed::SecondsPerTick(v),
		1 => ClockSpeed::TicksPerSecond(v),
		_ => ClockSpeed::TicksPerMinute(v),
	}
}

fn run_speed(sc: &Value, tr: &mut Tracer) {
	let exact = sc["kind"] == "speed";
	tr.reset(json!({"kind": sc["kind"]}));
	for c in sc["cases"].as_array().unwrap() {
		if sc["kind"] == "speedi" {
			// Tweenable for ClockSpeed: from 2^k1 ticks per second given in unit u1 to 2^k2 given in unit u2
			let g = |n: &str| c[n].as_i64().unwrap();
			let (u1, k1, u2, k2, q) = (g("u1"), g("k1"), g("u2"), g("k2"), g("q"));
			let mk = |u: i64, k: i64| {
				let tps = 2f64.powi(k as i32);
				speed_of(u, [1.0 / tps, tps, 60.0 * tps][u as usize])
			};
			let (a, b) = (mk(u1, k1), mk(u2, k2));
			let mut e = json!({"a": "speed_i", "u1": u1, "k1": k1, "u2": u2, "k2": k2, "q": q, "p": false, "ex": false,
				"ru": -1, "r": 0, "tp": 0});
			match guarded(|| <ClockSpeed as kira::Tweenable>::interpolate(a, b, q as f64 / 4.0)) {
				Ok(r) => {
					let (ru, v) = match r {
						ClockSpeed::SecondsPerTick(v) => (0, v),
						ClockSpeed::TicksPerSecond(v) => (1, v),
						ClockSpeed::TicksPerMinute(v) => (2, v),
					};
					let v = v * 1024.0;
					e["ru"] = json!(ru);
					e["r"] = json!(clampi(v.floor(), TWO30));
					e["ex"] = json!(v.is_finite() && v.fract() == 0.0 && v.abs() < TWO30);
					e["tp"] = json!(clampi((r.as_ticks_per_second() * 1024.0).floor(), TWO30));
				}
				Err(_) => e["p"] = json!(true),
			}
			tr.ev(e);
			continue;
		}
		let u = c["u"].as_i64().unwrap();
		if exact {
			let k = c["k"].as_i64().unwrap();
			let tps = 2f64.powi(k as i32);
			let speed = speed_of(u, [1.0 / tps, tps, 60.0 * tps][u as usize]);
			let mut e = json!({"a": "speed", "u": u, "k": k, "p": false, "sp": 0, "tp": 0, "tm": 0, "ex": false});
			match guarded(|| {
				(
					speed.as_seconds_per_tick() * 1024.0,
					speed.as_ticks_per_second() * 1024.0,
					speed.as_ticks_per_minute() * 1024.0,
				)
			}) {
				Ok((s, t, m)) => {
					e["sp"] = json!(clampi(s.floor(), TWO30));
					e["tp"] = json!(clampi(t.floor(), TWO30));
					e["tm"] = json!(clampi(m.floor(), TWO30));
					e["ex"] = json!([s, t, m].iter().all(|x| x.is_finite() && x.fract() == 0.0 && x.abs() < TWO30));
				}
				Err(_) => e["p"] = json!(true),
			}
			tr.ev(e);
		} else {
			let v = hexbits(&c["vb"]);
			let speed = speed_of(u, v);
			let mut e = json!({"a": "speed_r", "u": u, "p": false, "e1": 0, "e2": 0, "id": false});
			match guarded(|| {
				(
					speed.as_seconds_per_tick(),
					speed.as_ticks_per_second(),
					speed.as_ticks_per_minute(),
				)
			}) {
				Ok((s, t, m)) => {
					e["e1"] = json!(clampi(((s * t - 1.0) * 1e9).round(), TWO30));
					e["e2"] = json!(clampi(((m / (60.0 * t) - 1.0) * 1e9).round(), TWO30));
					e["id"] = json!([s, t, m][u as usize].to_bits() == v.to_bits());
				}
				Err(_) => e["p"] = json!(true),
			}
			tr.ev(e);
		}
	}
}

fn run_semi(sc: &Value, tr: &mut Tracer) {
	tr.reset(json!({"kind": "semi"}));
	for c in sc["cases"].as_array().unwrap() {
		let (k, s) = match c.get("k") {
			Some(k) => (k.as_i64().unwrap(), 12.0 * k.as_i64().unwrap() as f64),
			None => (-99, hexbits(&c["sb"])),
		};
		let mut e = json!({"a": "semi", "k": k, "p": false, "r0": 0, "r12": 0});
		match guarded(|| {
			(
				PlaybackRate::from(Semitones(s)).0,
				PlaybackRate::from(Semitones(s + 12.0)).0,
			)
		}) {
			Ok((r0, r12)) => {
				e["r0"] = json!(clampi((r0 * 1e6).round(), TWO30));
				e["r12"] = json!(clampi((r12 * 1e6).round(), TWO30));
			}
			Err(_) => e["p"] = json!(true),
		}
		tr.ev(e);
	}
}

fn f32_inputs(sc: &Value) -> Vec<f32> {
	let mut v = vec![];
	for k in sc["keys"].as_array().unwrap() {
		let k = k.as_i64().unwrap();
		if k == 0 {
			v.push(-0.0f32);
		}
		v.push(from_key32(k));
	}
	v
}

fn run_db(sc: &Value, tr: &mut Tracer) {
	tr.reset(json!({"kind": "db"}));
	for x in f32_inputs(sc) {
		let mut e = json!({"a": "db", "x": key32(x), "p": false, "y": 0, "ym": -1});
		match guarded(|| Decibels(x).as_amplitude()) {
			Ok(y) => {
				e["y"] = json!(key32(y));
				let m = (y as f64 * 1e6).round();
				e["ym"] = json!(if m.is_finite() && (0.0..2.0e9).contains(&m) { m as i64 } else { -1 });
			}
			Err(_) => e["p"] = json!(true),
		}
		tr.ev(e);
	}
}

fn run_pan(sc: &Value, tr: &mut Tracer) {
	tr.reset(json!({"kind": "pan"}));
	for x in f32_inputs(sc) {
		let mut e = json!({"a": "pan", "x": key32(x), "p": false, "l6": 0, "r6": 0, "l14": 0, "r14": 0, "fin": true});
		match guarded(|| Frame::new(1.0, 1.0).panned(Panning(x))) {
			Ok(fr) => {
				e["fin"] = json!(fr.left.is_finite() && fr.right.is_finite());
				e["l6"] = json!(clampi((fr.left as f64 * 1e6).round(), 1e9));
				e["r6"] = json!(clampi((fr.right as f64 * 1e6).round(), 1e9));
				e["l14"] = json!(clampi((fr.left as f64 * 16384.0).round(), 1e6));
				e["r14"] = json!(clampi((fr.right as f64 * 16384.0).round(), 1e6));
			}
			Err(_) => e["p"] = json!(true),
		}
		tr.ev(e);
	}
}

/// the time a clock's handle reports: a clock running at (1 - 2^-k) ticks per buffer is read after one buffer - the fraction
/// must be that number (it is exact in f64) and in any case below 1
fn run_clkread(sc: &Value, tr: &mut Tracer) {
	use kv::scene::{Sim, NF, RATE};
	tr.reset(json!({"kind": "clkread"}));
	for c in sc["cases"].as_array().unwrap() {
		let k = c["k"].as_i64().unwrap();
		let per_buffer = 1.0 - 2f64.powi(-(k as i32));
		let mut e = json!({"a": "clkread", "k": k, "p": false, "ticks": -1, "below1": false, "exact": false});
		match guarded(|| {
			let mut sim = Sim::basic();
			let mut clock = sim.manager.add_clock(ClockSpeed::TicksPerSecond(per_buffer * RATE as f64 / NF as f64)).unwrap();
			clock.start();
			// the time after one buffer is published at the start of the second callback
			let _ = sim.callback(NF);
			let _ = sim.callback(NF);
			clock.time()
		}) {
			Ok(t) => {
				e["ticks"] = json!(t.ticks.min(1 << 20));
				e["below1"] = json!(t.fraction >= 0.0 && t.fraction < 1.0);
				// after two callbacks the handle shows the time after one buffer (published at the start of a callback) or after
				// two (published at the end as well): either is a time the clock had
				let two = per_buffer + per_buffer;
				e["exact"] = json!((t.ticks == 0 && t.fraction == per_buffer) || (t.ticks as f64 + t.fraction == two && t.ticks == two.floor() as u64));
			}
			Err(_) => e["p"] = json!(true),
		}
		tr.ev(e);
	}
}

fn main() {
	let args: Vec<String> = std::env::args().collect();
	let args = &args[1..];
	quiet_panics();
	let inp = arg(args, "--in").expect("--in");
	let out = arg(args, "--out").expect("--out");
	let mut tr = Tracer::create(&out);
	// a real clock id (ClockId has no public constructor)
	let mut manager = AudioManager::<VBackend>::new(AudioManagerSettings {
		capacities: Capacities::default(),
		main_track_builder: kira::track::MainTrackBuilder::new(),
		internal_buffer_size: 4,
		backend_settings: VSettings { sample_rate: 8 },
	})
	.unwrap();
	let clock = manager
		.add_clock(ClockSpeed::TicksPerSecond(1.0))
		.expect("add clock");
	let id = clock.id();
	for sc in read_scenarios(&inp) {
		match sc["kind"].as_str().unwrap_or("") {
			"time" => run_time(&sc, id, &mut tr),
			"timer" => run_timer(&sc, id, &mut tr),
			"map" => run_map(&sc, &mut tr),
			"speed" | "speedr" | "speedi" => run_speed(&sc, &mut tr),
			"semi" => run_semi(&sc, &mut tr),
			"db" => run_db(&sc, &mut tr),
			"pan" => run_pan(&sc, &mut tr),
			"clkread" => run_clkread(&sc, &mut tr),
			k => panic!("unknown scenario kind {k}"),
		}
	}
	tr.flush();
	println!("events {}", tr.events);
}
