//! C05 driver: one clock (plus sounds scheduled on it) on a real manager/renderer; gameplay and audio
//! run on scheduler-controlled threads so that ClockHandle::time() can be interleaved with the audio
//! thread's two-word publication (yield points clk.read.mid, clk.pub.mid, clk.reset.mid).
//!
//! Scenario: {"b": internal buffer size, "speed0": units per frame, "src": .., "steps": [
//!   {"act":"Cmd","c":"start|pause|speed|speed_in|speed_at","v":V,"w":W} | {"act":"StopA"} | {"act":"StopB"}
//!   | {"act":"StopBegin"} | {"act":"StopW1"} | {"act":"StopW2"} | {"act":"ABeginR","n":N} | {"act":"ARdSpeed"} | {"act":"ARdA"} | {"act":"ARdB"}
//!   | {"act":"Sched","id":I,"w":W} | {"act":"RdA"} | {"act":"RdB"}
//!   | {"act":"ABegin","n":N} | {"act":"APubTicks"} | {"act":"ARun"}]}
//! Clock time unit = 1/4 tick; a speed of v units per frame = 2v ticks per second at 8 Hz.

use std::time::Duration;

use kira::{
	backend::Renderer,
	clock::{ClockHandle, ClockSpeed, ClockTime},
	sound::static_sound::{StaticSoundData, StaticSoundSettings},
	track::MainTrackBuilder,
	AudioManager, AudioManagerSettings, Capacities, StartTime, Tween,
};
use kv::{common::*, scene::*};
use serde_json::{json, Value};

struct World {
	manager: AudioManager<VBackend>,
	clock: ClockHandle,
}

fn units(t: ClockTime) -> i64 {
	t.ticks as i64 * 4 + (t.fraction * 4.0).round() as i64
}

fn ctime(c: &ClockHandle, w: u64) -> ClockTime {
	ClockTime { clock: c.id(), ticks: w / 4, fraction: (w % 4) as f64 / 4.0 }
}

/// records how long each slice handed to the main track's effects is: the internal chunks a callback was cut into
struct ChunkLog(std::sync::Arc<std::sync::Mutex<Vec<usize>>>);
impl kira::effect::Effect for ChunkLog {
	fn process(&mut self, input: &mut [kira::Frame], _dt: f64, _info: &kira::info::Info) {
		let (log, n) = (&self.0, input.len());
		unarmed(|| log.lock().unwrap().push(n));
	}
}

fn run_scenario(sc: &Value, t: &mut Tracer) {
	let b = sc["b"].as_u64().unwrap() as usize;
	let speed0 = sc["speed0"].as_u64().unwrap();
	t.reset(json!({"b": b, "speed0": speed0, "src": sc["src"]}));
	let chunk_log: std::sync::Arc<std::sync::Mutex<Vec<usize>>> = Default::default();
	let cl2 = chunk_log.clone();
	let (tx, rx) = std::sync::mpsc::channel::<Renderer>();
	let gw: Worker<World> = Worker::spawn("gameplay", move || {
		let mut manager = AudioManager::<VBackend>::new(AudioManagerSettings {
			capacities: Capacities::default(),
			main_track_builder: MainTrackBuilder::new().with_built_effect(Box::new(ChunkLog(cl2))),
			internal_buffer_size: b,
			backend_settings: VSettings { sample_rate: RATE },
		})
		.unwrap();
		tx.send(manager.backend_mut().renderer.take().unwrap()).unwrap();
		let clock = manager.add_clock(ClockSpeed::TicksPerSecond(2.0 * speed0 as f64)).unwrap();
		World { manager, clock }
	});
	let _ = gw.call(|_| Value::Null);
	let aw: Worker<Renderer> = Worker::spawn("audio", move || rx.recv().unwrap());
	let mut n_cur = 0usize;
	let mut audio_running = false;
	let mut early: Option<Value> = None; // result of a callback that finished before the schedule expected it to
	let mut heard_any = std::collections::BTreeSet::new();
	for step in sc["steps"].as_array().unwrap() {
		let act = step["act"].as_str().unwrap();
		let ok = match act {
			"Cmd" => {
				let c = step["c"].as_str().unwrap().to_string();
				let v = step["v"].as_u64().unwrap_or(0);
				let w = step["w"].as_u64().unwrap_or(0);
				let c2 = c.clone();
				let st = gw.call(move |wd| {
					match c2.as_str() {
						"start" => wd.clock.start(),
						"pause" => wd.clock.pause(),
						"speed" => wd.clock.set_speed(
							ClockSpeed::TicksPerSecond(2.0 * v as f64),
							Tween { start_time: StartTime::Immediate, duration: Duration::ZERO, easing: kira::Easing::Linear },
						),
						// (w = delay in frames of audio time)
						"speed_in" => wd.clock.set_speed(
							ClockSpeed::TicksPerSecond(2.0 * v as f64),
							Tween { start_time: StartTime::Delayed(Duration::from_millis(125 * w)), duration: Duration::ZERO, easing: kira::Easing::Linear },
						),
						"speed_at" => {
							let at = ctime(&wd.clock, w);
							wd.clock.set_speed(
								ClockSpeed::TicksPerSecond(2.0 * v as f64),
								Tween { start_time: StartTime::ClockTime(at), duration: Duration::ZERO, easing: kira::Easing::Linear },
							)
						}
						x => panic!("unknown command {x}"),
					}
					Value::Null
				});
				// (mid: written while a callback is running, after it has read its command slots)
				if audio_running {
					t.ev(json!({"a": "cmd", "c": c, "v": v, "w": w, "mid": true}));
				} else {
					t.ev(json!({"a": "cmd", "c": c, "v": v, "w": w}));
				}
				matches!(st, Status::Done(_))
			}
			"StopA" => {
				let st = gw.call(|wd| {
					wd.clock.stop();
					Value::Null
				});
				t.ev(json!({"a": "cmd", "c": "stop", "v": 0, "w": 0}));
				matches!(st, Status::Done(_))
			}
			// ---- ClockHandle::stop as the two command writes it is (yield point cmd.w before each)
			"StopBegin" => {
				gw.start(&["cmd.w"], |wd| {
					wd.clock.stop();
					Value::Null
				});
				let st = gw.wait();
				t.ev(json!({"a": "cmd", "c": "stop_begin", "v": 0, "w": 0}));
				matches!(st, Status::Parked(_))
			}
			"StopW1" => {
				let st = gw.resume();
				t.ev(json!({"a": "tau"}));
				matches!(st, Status::Parked(_))
			}
			"StopW2" => {
				let st = gw.finish();
				t.ev(json!({"a": "cmd", "c": "stop_end", "v": 0, "w": 0}));
				matches!(st, Status::Done(_))
			}
			// ---- the callback's command reads one by one (yield point cmd.r before each read)
			"ABeginR" => {
				n_cur = step["n"].as_u64().unwrap() as usize;
				let n = n_cur;
				// the clock's first read is the speed command: the only reader of that type
				aw.ctl.set_tag("ClockSpeed");
				aw.start(&["cmd.r"], move |r| {
					let res = run_callback(r, n, 2);
					json!({"out": res.out, "m": res.monitor(2)})
				});
				audio_running = true;
				let st = aw.wait();
				aw.ctl.set_tag("");
				t.ev(json!({"a": "cbstart"}));
				matches!(st, Status::Parked(_))
			}
			"ARdSpeed" | "ARdA" => {
				// on to the next read (set_ticking / reset, in the order the code has them); a callback that makes
				// fewer reads than expected simply gets further - its result is kept for the ARun step
				if early.is_none() {
					if let Status::Done(v) = aw.resume() {
						early = Some(v);
					}
				}
				t.ev(json!({"a": "tau"}));
				true
			}
			"ARdB" => {
				// past the last read, up to the publication of the time
				if early.is_none() {
					aw.ctl.set_sites(&["clk.reset", "clk.pub"]);
					if let Status::Done(v) = aw.resume() {
						early = Some(v);
					}
				}
				t.ev(json!({"a": "tau"}));
				true
			}
			"StopB" | "APubTicksNoop" => {
				t.ev(json!({"a": "tau"}));
				true
			}
			"Sched" => {
				let id = step["id"].as_u64().unwrap();
				let w = step["w"].as_u64().unwrap();
				let st = gw.call(move |wd| {
					let at = ctime(&wd.clock, w);
					let data = StaticSoundData {
						sample_rate: RATE,
						frames: coded_frames(200),
						settings: StaticSoundSettings::new().start_time(StartTime::ClockTime(at)),
						slice: None,
					};
					let h = wd.manager.play(data).unwrap();
					std::mem::forget(h);
					Value::Null
				});
				t.ev(json!({"a": "sched", "id": id, "w": w}));
				matches!(st, Status::Done(_))
			}
			"RdA" => {
				gw.start(&["clk.read"], |wd| json!(units(wd.clock.time())));
				let st = gw.wait();
				t.ev(json!({"a": "tau"}));
				matches!(st, Status::Parked(_))
			}
			"RdB" => match gw.resume() {
				Status::Done(v) => {
					t.ev(json!({"a": "rd", "t": v}));
					true
				}
				Status::Panicked(m) => {
					t.ev(json!({"a": "panic", "who": "gameplay", "msg": m}));
					false
				}
				_ => {
					t.ev(json!({"a": "hang", "who": "gameplay"}));
					false
				}
			},
			"ABegin" => {
				n_cur = step["n"].as_u64().unwrap() as usize;
				let n = n_cur;
				aw.start(&["clk.reset", "clk.pub"], move |r| {
					let res = run_callback(r, n, 2);
					json!({"out": res.out, "m": res.monitor(2)})
				});
				audio_running = true;
				let st = aw.wait();
				t.ev(json!({"a": "tau"}));
				matches!(st, Status::Parked(_))
			}
			"APubTicks" => {
				// only after a reset is there a stretch between clk.reset.mid and clk.pub.mid
				if early.is_none() {
					if let Status::Parked("clk.reset.mid") = aw.ctl.status() {
						if let Status::Done(v) = aw.resume() {
							early = Some(v);
						}
					}
				}
				t.ev(json!({"a": "tau"}));
				true
			}
			"ARun" => {
				let st = match early.take() {
					Some(v) => Status::Done(v),
					None => aw.finish(),
				};
				audio_running = false;
				match st {
					Status::Done(res) => {
						let out: Vec<f32> = res["out"].as_array().unwrap().iter().map(|x| x.as_f64().unwrap_or(f64::NAN) as f32).collect();
						let hd = hear(&out);
						// a scheduled sound is first heard where its source frame 0 appears
						let mut fired = vec![];
						if !heard_any.contains(&1u64) {
							if let Some(f) = hd.idx.iter().position(|i| *i == 0) {
								fired.push(json!([1, f]));
								heard_any.insert(1u64);
							}
						}
						// (while the gameplay thread is parked in the middle of a read the handle cannot be queried: -1)
						let busy = matches!(gw.ctl.status(), Status::Parked(_));
						let q = if busy { Status::Idle } else { gw.call(|wd| json!({"t": units(wd.clock.time()), "ticking": wd.clock.ticking()})) };
						let (tt, tk) = match q {
							Status::Done(v) => (v["t"].as_i64().unwrap(), json!(if v["ticking"].as_bool().unwrap() { 1 } else { 0 })),
							_ => (-1, json!(-1)),
						};
						let panicked = res["m"]["panicked"].as_bool().unwrap_or(false);
						// (chs: the internal chunks this callback was rendered in, as the main track saw them)
						let chs: Vec<usize> = std::mem::take(&mut *chunk_log.lock().unwrap());
						t.ev(json!({"a": "cb", "n": n_cur, "t": tt, "ticking": tk, "fired": fired, "chs": chs,
							"panicked": panicked, "m": res["m"]}));
						!panicked
					}
					Status::Panicked(m) => {
						t.ev(json!({"a": "panic", "who": "audio", "msg": m}));
						false
					}
					_ => {
						t.ev(json!({"a": "hang", "who": "audio"}));
						false
					}
				}
			}
			x => panic!("unknown act {x}"),
		};
		if !ok {
			break;
		}
	}
	if audio_running {
		let _ = aw.finish();
	}
	let _ = gw.finish();
	gw.shutdown();
	aw.shutdown();
	t.ev(json!({"a": "end"}));
}

/// a speed tween of non-zero length on a running clock; callbacks of exactly one internal buffer each
fn run_tween(sc: &Value, t: &mut Tracer) {
	let g = |k: &str| sc[k].as_u64().unwrap();
	let speed = |u: &str, n: u64, d: u64| {
		match u {
			"tps" => ClockSpeed::TicksPerSecond(n as f64 / d as f64),
			"spt" => ClockSpeed::SecondsPerTick(n as f64 / d as f64),
			_ => ClockSpeed::TicksPerMinute(n as f64 / d as f64),
		}
	};
	let (u0, u1) = (sc["u0"].as_str().unwrap(), sc["u1"].as_str().unwrap());
	let d = g("d");
	t.reset(json!({"mode": "tween", "u0": u0, "v0n": g("v0n"), "v0d": g("v0d"), "u1": u1, "v1n": g("v1n"), "v1d": g("v1d"),
		"d": d, "dtn": NF, "dtd": RATE, "src": sc["src"]}));
	let mut sim = Sim::basic();
	let mut clock = sim.manager.add_clock(speed(u0, g("v0n"), g("v0d"))).unwrap();
	clock.start();
	let _ = sim.callback(NF);
	let _ = sim.callback(NF);
	clock.set_speed(
		speed(u1, g("v1n"), g("v1d")),
		Tween { start_time: StartTime::Immediate, duration: chunks(d), easing: kira::Easing::Linear },
	);
	// the time published at the start of callback j is the time after j - 1 buffers since the command was read
	for k in 0..(d + 4) {
		let res = sim.callback(NF);
		if let Some(m) = res.panicked {
			t.ev(json!({"a": "panic", "who": "audio", "msg": m}));
			break;
		}
		let ct = clock.time();
		let t4 = ((ct.ticks as f64 + ct.fraction) * 10000.0).round() as i64;
		t.ev(json!({"a": "tw", "k": k, "t4": t4}));
	}
	t.ev(json!({"a": "end"}));
}

/// mode "cancel": n clocks created one after the other (adjacent slots), each ticking once per buffer; sound i waits for
/// tick w[i] of clock i; the history drops clock handles between callbacks (ClockCancel.tla / P_C05C.tla)
fn run_cancel(sc: &Value, t: &mut Tracer) {
	let n = sc["n"].as_u64().unwrap() as usize;
	let w: Vec<u64> = sc["w"].as_array().unwrap().iter().map(|x| x.as_u64().unwrap()).collect();
	t.reset(json!({"mode": "cancel", "n": n, "w": w, "src": sc["src"]}));
	let mut sim = Sim::basic();
	let mut clocks: Vec<Option<ClockHandle>> = vec![];
	let mut sounds = vec![];
	for i in 0..n {
		// one tick per buffer: NF frames at RATE Hz
		let mut c = sim.manager.add_clock(ClockSpeed::TicksPerSecond(RATE as f64 / NF as f64)).unwrap();
		c.start();
		// sound i is a constant of amplitude 2^-(i+1): the sum of any subset is decodable
		let amp = 0.5f32.powi(i as i32 + 1);
		let frames: Vec<kira::Frame> = (0..400).map(|_| kira::Frame::from_mono(amp)).collect();
		let data = StaticSoundData {
			sample_rate: RATE,
			frames: frames.into(),
			settings: StaticSoundSettings::new().start_time(StartTime::ClockTime(ClockTime { clock: c.id(), ticks: w[i], fraction: 0.0 })),
			slice: None,
		};
		sounds.push(sim.manager.play(data).unwrap());
		clocks.push(Some(c));
	}
	for step in sc["steps"].as_array().unwrap() {
		match step["act"].as_str().unwrap() {
			"Drop" => {
				let c = step["c"].as_u64().unwrap() as usize;
				clocks[c - 1] = None;
				t.ev(json!({"a": "drop", "c": c}));
			}
			"Callback" => {
				let res = sim.callback(NF);
				if let Some(m) = res.panicked {
					t.ev(json!({"a": "panic", "who": "audio", "msg": m}));
					break;
				}
				let mut heard = vec![false; n];
				for f in 0..NF {
					let bits = (res.out[2 * f] as f64 * (1u64 << n) as f64).round() as u64;
					for i in 0..n {
						if bits & (1 << (n - 1 - i)) != 0 {
							heard[i] = true;
						}
					}
				}
				let st: Vec<&str> = sounds.iter().map(|h| state_name(h.state())).collect();
				t.ev(json!({"a": "cb", "heard": heard, "st": st}));
			}
			x => panic!("unknown act {x}"),
		}
	}
	t.ev(json!({"a": "end"}));
}

/// mode "sched": one thing of kind `what` scheduled for tick w of a clock that ticks once per buffer; every callback
/// reports whether the thing has begun (P_C05S.tla: in the buffer during which the clock reaches the tick - at most one
/// buffer early, never late)
fn run_sched(sc: &Value, t: &mut Tracer) {
	use kira::{
		modulator::tweener::TweenerBuilder,
		track::{SpatialTrackBuilder, TrackBuilder},
		Decibels, Easing, Frame, Mapping, Value as KValue,
	};
	let what = sc["what"].as_str().unwrap();
	let w = sc["w"].as_u64().unwrap();
	let dur = sc["d"].as_u64().unwrap_or(0);
	let paused = sc["paused"].as_bool().unwrap_or(false);
	t.reset(json!({"mode": "sched", "what": what, "w": w, "d": dur, "paused": paused, "src": sc["src"]}));
	let mut sim = Sim::basic();
	let tone = |amp: f32| StaticSoundData {
		sample_rate: RATE,
		frames: (0..400).map(|_| Frame::from_mono(amp)).collect::<Vec<_>>().into(),
		settings: StaticSoundSettings::new(),
		slice: None,
	};
	let per_buffer = ClockSpeed::TicksPerSecond(RATE as f64 / NF as f64);
	// everything that has to exist before the clock starts counting
	let mut sub = sim.manager.add_sub_track(TrackBuilder::new()).unwrap();
	let mut listener = sim.manager.add_listener(glam::Vec3::ZERO, glam::Quat::IDENTITY).unwrap();
	let mut spatial = sim
		.manager
		.add_spatial_sub_track(
			listener.id(),
			glam::Vec3::new(1.0, 0.0, 0.0),
			SpatialTrackBuilder::new().distances((1.0, 9.0)).spatialization_strength(0.0),
		)
		.unwrap();
	let mut tweener = sim.manager.add_modulator(TweenerBuilder { initial_value: 0.0 }).unwrap();
	let mut other = if what == "clock_speed_older" { Some(sim.manager.add_clock(per_buffer).unwrap()) } else { None };
	let mut clock = sim.manager.add_clock(per_buffer).unwrap();
	if what == "clock_speed_younger" {
		other = Some(sim.manager.add_clock(per_buffer).unwrap());
	}
	if let Some(o) = other.as_mut() {
		o.start();
	}
	let mut snd = match what {
		"sound" => None,
		"track_vol" => Some(sub.play(tone(0.5)).unwrap()),
		"listener" | "emitter" => Some(spatial.play(tone(0.5)).unwrap()),
		"tweener" => Some(
			sim.manager
				.play(tone(0.5).volume(KValue::FromModulator {
					id: tweener.id(),
					mapping: Mapping { input_range: (0.0, 1.0), output_range: (Decibels(0.0), Decibels(-12.0)), easing: Easing::Linear },
				}))
				.unwrap(),
		),
		_ => Some(sim.manager.play(tone(0.5)).unwrap()),
	};
	let zero = Tween { start_time: StartTime::Immediate, duration: Duration::ZERO, easing: Easing::Linear };
	if what == "resume" {
		snd.as_mut().unwrap().pause(zero);
	}
	let _ = sim.callback(NF);
	let base = sim.callback(NF).out[0];
	if paused {
		// the clock runs past tick w and is paused before anything is scheduled
		clock.start();
		for _ in 0..(w + 1) {
			let _ = sim.callback(NF);
		}
		clock.pause();
		let _ = sim.callback(NF);
	}
	let at = StartTime::ClockTime(ClockTime { clock: clock.id(), ticks: w, fraction: 0.0 });
	let tw = Tween { start_time: at, duration: chunks(dur), easing: Easing::Linear };
	let mut other_before = other.as_ref().map(|o| units(o.time())).unwrap_or(0);
	match what {
		"sound" => {
			let h = sim.manager.play(tone(0.5).start_time(at)).unwrap();
			std::mem::forget(h);
		}
		"resume" => snd.as_mut().unwrap().resume_at(at, zero),
		"sound_vol" => snd.as_mut().unwrap().set_volume(Decibels(-12.0), tw),
		"track_vol" => sub.set_volume(Decibels(-12.0), tw),
		"main_vol" => sim.manager.main_track().set_volume(Decibels(-12.0), tw),
		"listener" => listener.set_position(glam::Vec3::new(-4.0, 0.0, 0.0), tw),
		"emitter" => spatial.set_position(glam::Vec3::new(5.0, 0.0, 0.0), tw),
		"tweener" => tweener.set(1.0, tw),
		"clock_speed_older" | "clock_speed_younger" => {
			other.as_mut().unwrap().set_speed(ClockSpeed::TicksPerSecond(2.0 * RATE as f64 / NF as f64), tw)
		}
		x => panic!("unknown kind {x}"),
	}
	if !paused {
		clock.start();
	}
	// the published time of a clock is the time at the start of the callback: what is read after callback j tells what
	// the other clock did in buffer j - 1
	let lag = what.starts_with("clock_speed");
	let mut obs = vec![];
	let total = if paused { 6 } else { w + dur + 4 + lag as u64 };
	for j in 0..total {
		if paused && j == 3 {
			clock.start();
		}
		let res = sim.callback(NF);
		if let Some(m) = res.panicked {
			t.ev(json!({"a": "panic", "who": "audio", "msg": m}));
			break;
		}
		let begun = match what {
			"sound" => res.out.iter().any(|x| *x != 0.0),
			"resume" => {
				let st = snd.as_ref().unwrap().state();
				st == kira::sound::PlaybackState::Resuming || st == kira::sound::PlaybackState::Playing
			}
			"clock_speed_older" | "clock_speed_younger" => {
				let now = units(other.as_ref().unwrap().time());
				let step = now - other_before;
				other_before = now;
				step > 4
			}
			_ => res.out.chunks(2).any(|c| c[0] != base),
		};
		obs.push(begun);
	}
	for (j, b) in obs.iter().skip(lag as usize).enumerate() {
		// tk: the clock was ticking during this buffer (paused variant: it is started again before the fourth)
		t.ev(json!({"a": "cb", "begun": b, "tk": !paused || j >= 3}));
	}
	t.ev(json!({"a": "end"}));
}

/// mode "pickup" (PickUpOrder.tla, edge mixer -> clocks): the audio thread is stopped before the n-th drain of a ring of
/// new resources within one callback; the gameplay thread creates a clock, starts it and plays a sound scheduled for its
/// tick 1; the callback goes on.  A sound picked up before its clock would find no clock and be cancelled for good.
fn run_pickup(sc: &Value, t: &mut Tracer) {
	let n = sc["n"].as_u64().unwrap();
	t.reset(json!({"mode": "pickup", "what": "sound", "w": 1, "n": n, "src": sc["src"]}));
	let mut manager = AudioManager::<VBackend>::new(AudioManagerSettings {
		capacities: Capacities::default(),
		main_track_builder: MainTrackBuilder::new(),
		internal_buffer_size: NF,
		backend_settings: VSettings { sample_rate: RATE },
	})
	.unwrap();
	let mut renderer = manager.backend_mut().renderer.take().unwrap();
	let _ = run_callback(&mut renderer, NF, 2);
	let (tx, rx) = std::sync::mpsc::channel::<Renderer>();
	tx.send(renderer).unwrap();
	let aw: Worker<Renderer> = Worker::spawn("audio", move || rx.recv().unwrap());
	aw.start(&["sto.refill"], |r| {
		let res = run_callback(r, NF, 2);
		json!({"out": res.out, "panicked": res.panicked.is_some()})
	});
	let mut st = aw.wait();
	let mut passed = 1;
	while passed < n && matches!(st, Status::Parked(_)) {
		st = aw.resume();
		passed += 1;
	}
	let parked = matches!(st, Status::Parked(_));
	let mut clock = manager.add_clock(ClockSpeed::TicksPerSecond(RATE as f64 / NF as f64)).unwrap();
	clock.start();
	let data = StaticSoundData {
		sample_rate: RATE,
		frames: coded_frames(200),
		settings: StaticSoundSettings::new().start_time(StartTime::ClockTime(ClockTime { clock: clock.id(), ticks: 1, fraction: 0.0 })),
		slice: None,
	};
	let h = manager.play(data).unwrap();
	aw.ctl.set_sites(&[]);
	let mut heard = false;
	let mut panicked = false;
	let mut look = |st: Status| match st {
		Status::Done(v) => {
			heard |= v["out"].as_array().map(|o| o.iter().any(|x| x.as_f64().unwrap_or(0.0) != 0.0)).unwrap_or(false);
			panicked |= v["panicked"].as_bool().unwrap_or(false);
		}
		_ => panicked = true,
	};
	look(aw.finish());
	for _ in 0..4 {
		look(aw.call(|r| {
			let res = run_callback(r, NF, 2);
			json!({"out": res.out, "panicked": res.panicked.is_some()})
		}));
	}
	if panicked {
		t.ev(json!({"a": "panic", "who": "audio"}));
	}
	t.ev(json!({"a": "pk", "parked": parked, "heard": heard, "stopped": h.state() == kira::sound::PlaybackState::Stopped}));
	t.ev(json!({"a": "end"}));
	drop(clock);
	aw.shutdown();
}

fn main() {
	let args: Vec<String> = std::env::args().collect();
	quiet_panics();
	install_hook();
	let inp = arg(&args, "--in").expect("--in");
	let out = arg(&args, "--out").expect("--out");
	let mut t = Tracer::create(&out);
	for sc in read_scenarios(&inp) {
		if sc["mode"] == "tween" {
			run_tween(&sc, &mut t);
		} else if sc["mode"] == "pickup" {
			run_pickup(&sc, &mut t);
		} else if sc["mode"] == "sched" {
			run_sched(&sc, &mut t);
		} else if sc["mode"] == "cancel" {
			run_cancel(&sc, &mut t);
		} else {
			run_scenario(&sc, &mut t);
		}
	}
	t.flush();
	println!("events {}", t.events);
}
