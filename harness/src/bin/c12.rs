//! C12 driver: track tree main <- A <- B with sound SA on A (left channel) and SB on B (right channel).
//!
//! Scenario: {"persistA": bool, "persistB": bool, "src": .., "steps": [
//!   {"act":"Cmd","t":"A"|"B","c":"pause|resume|resume_at","d":D,"wk":..,"wt":W} | {"act":"Drop","t":..}
//!   | {"act":"Stop","s":"SA"|"SB"} | {"act":"Callback"}]}

use kira::{
	clock::{ClockSpeed, ClockTime},
	sound::static_sound::{StaticSoundData, StaticSoundHandle, StaticSoundSettings},
	track::{TrackBuilder, TrackHandle, TrackPlaybackState},
	Frame, Panning, StartTime, Tween,
};
use kv::{common::*, scene::*};
use serde_json::{json, Value};
use std::sync::Arc;

const AMP: f32 = 0.5;

fn mono_coded(len: usize) -> Arc<[Frame]> {
	(0..len)
		.map(|i| {
			let x = (i + 1) as f32 / 256.0 * AMP;
			Frame::new(x, x)
		})
		.collect::<Vec<_>>()
		.into()
}

/// -1: silent, -2: audible but not at full gain, k >= 0: first source frame of a fully audible chunk
fn decode(samples: &[f32]) -> i64 {
	if samples.iter().all(|s| *s == 0.0) {
		return -1;
	}
	let vals: Vec<f64> = samples
		.iter()
		.map(|s| *s as f64 / (AMP as f64 * std::f64::consts::SQRT_2) * 256.0)
		.collect();
	let k = vals[0].round();
	let ok = vals
		.iter()
		.enumerate()
		.all(|(j, v)| (v - (k + j as f64)).abs() < 2e-3);
	if ok && k >= 1.0 {
		k as i64 - 1
	} else {
		-2
	}
}

fn tstate(h: &Option<TrackHandle>) -> &'static str {
	match h {
		None => "gone",
		Some(h) => match guarded(|| h.state()) {
			Ok(TrackPlaybackState::Playing) => "Playing",
			Ok(TrackPlaybackState::Pausing) => "Pausing",
			Ok(TrackPlaybackState::Paused) => "Paused",
			Ok(TrackPlaybackState::WaitingToResume) => "WaitingToResume",
			Ok(TrackPlaybackState::Resuming) => "Resuming",
			Err(_) => "panic",
		},
	}
}

fn tween(d: u64) -> Tween {
	Tween {
		start_time: StartTime::Immediate,
		duration: chunks(d),
		easing: kira::Easing::Linear,
	}
}

fn run_scenario(sc: &Value, t: &mut Tracer) {
	let pa = sc["persistA"].as_bool().unwrap_or(false);
	let pb = sc["persistB"].as_bool().unwrap_or(false);
	t.reset(json!({"persist": {"A": pa, "B": pb}, "n": NF, "src": sc["src"]}));
	let mut sim = Sim::basic();
	let mut clock = sim.manager.add_clock(ClockSpeed::TicksPerSecond(2.0)).unwrap();
	clock.start();
	let gone = sim.manager.add_clock(ClockSpeed::TicksPerSecond(2.0)).unwrap();
	let gone_id = gone.id();
	drop(gone);
	let mut a = sim
		.manager
		.add_sub_track(TrackBuilder::new().persist_until_sounds_finish(pa))
		.unwrap();
	let mut b = a
		.add_sub_track(TrackBuilder::new().persist_until_sounds_finish(pb))
		.unwrap();
	let mk = |pan: Panning| StaticSoundData {
		sample_rate: RATE,
		frames: mono_coded(250),
		settings: StaticSoundSettings::new().panning(pan),
		slice: None,
	};
	let sa: StaticSoundHandle = a.play(mk(Panning::LEFT)).unwrap();
	let sb: StaticSoundHandle = b.play(mk(Panning::RIGHT)).unwrap();
	let mut sounds = [sa, sb];
	let mut ha = Some(a);
	let mut hb = Some(b);
	// no warm-up callbacks here: the first callbacks are part of the session (tracks not yet picked up);
	// the clock therefore shows `callbacks` ticks during callback number `callbacks`
	for step in sc["steps"].as_array().unwrap() {
		match step["act"].as_str().unwrap() {
			"Cmd" => {
				let tn = step["t"].as_str().unwrap();
				let c = step["c"].as_str().unwrap();
				let d = step["d"].as_u64().unwrap_or(0);
				let wk = step["wk"].as_str().unwrap_or("none");
				let wt = step["wt"].as_u64().unwrap_or(0);
				let h = if tn == "A" { &mut ha } else { &mut hb };
				let Some(h) = h.as_mut() else { continue };
				let r = guarded(|| match c {
					"pause" => h.pause(tween(d)),
					"resume" => h.resume(tween(d)),
					_ => {
						let st = match wk {
							"delayed" => StartTime::Delayed(chunks(wt)),
							"clock" => StartTime::ClockTime(ClockTime {
								clock: clock.id(),
								ticks: sim.callbacks + wt,
								fraction: 0.0,
							}),
							_ => StartTime::ClockTime(ClockTime { clock: gone_id, ticks: 0, fraction: 0.0 }),
						};
						h.resume_at(st, tween(d))
					}
				});
				if let Err(m) = r {
					t.ev(json!({"a": "panic", "who": "gameplay", "msg": m}));
					break;
				}
				t.ev(json!({"a": "cmd", "t": tn, "c": c, "d": d, "wk": wk, "wt": wt}));
			}
			"Drop" => {
				let tn = step["t"].as_str().unwrap();
				let h = if tn == "A" { ha.take() } else { hb.take() };
				if h.is_some() {
					drop(h);
					t.ev(json!({"a": "drop", "t": tn}));
				}
			}
			"Stop" => {
				let sn = step["s"].as_str().unwrap();
				sounds[if sn == "SA" { 0 } else { 1 }].stop(tween(0));
				t.ev(json!({"a": "stop", "s": sn}));
			}
			"Callback" => {
				let res = sim.callback(NF);
				let left: Vec<f32> = res.out.chunks(2).map(|c| c[0]).collect();
				let right: Vec<f32> = res.out.chunks(2).map(|c| c[1]).collect();
				let (fa, fb) = (decode(&left), decode(&right));
				let ntop = sim.manager.num_sub_tracks();
				let n_a: i64 = ha.as_ref().map(|h| h.num_sub_tracks() as i64).unwrap_or(-1);
				t.ev(json!({"a": "cb",
					"st": {"A": tstate(&ha), "B": tstate(&hb)},
					"first": {"SA": fa, "SB": fb},
					"zero": {"SA": fa == -1, "SB": fb == -1},
					"sst": {"SA": state_name(sounds[0].state()), "SB": state_name(sounds[1].state())},
					"pos": {"SA": (sounds[0].position() * RATE as f64).round() as i64,
						"SB": (sounds[1].position() * RATE as f64).round() as i64},
					"ntop": ntop, "nA": n_a, "panicked": res.panicked.is_some(), "m": res.monitor(2)}));
				if res.panicked.is_some() {
					break;
				}
			}
			x => panic!("unknown act {x}"),
		}
	}
	t.ev(json!({"a": "end"}));
}

fn main() {
	let args: Vec<String> = std::env::args().collect();
	quiet_panics();
	let inp = arg(&args, "--in").expect("--in");
	let out = arg(&args, "--out").expect("--out");
	let mut t = Tracer::create(&out);
	for sc in read_scenarios(&inp) {
		run_scenario(&sc, &mut t);
	}
	t.flush();
	println!("events {}", t.events);
}
