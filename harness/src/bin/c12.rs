//! C12 driver: track chain main <- A <- B [<- C] with sound SA on A (left channel), SB on B (right channel) and,
//! at depth 3, SC on C (left channel again, 1024 times quieter, so that it sits in the fractional part of SA's code).
//!
//! Scenario: {"persistA": bool, "persistB": bool, "src": .., "steps": [
//!   {"act":"Cmd","t":"A"|"B","c":"pause|resume|resume_at","d":D,"wk":..,"wt":W} | {"act":"Drop","t":..}
//!   | {"act":"Stop","s":"SA"|"SB"} | {"act":"Callback"}]}

use kira::{
	clock::{ClockSpeed, ClockTime},
	sound::static_sound::{StaticSoundData, StaticSoundHandle, StaticSoundSettings},
	track::{SpatialTrackBuilder, SpatialTrackHandle, TrackBuilder, TrackHandle, TrackPlaybackState},
	Frame, Panning, StartTime, Tween,
};
use kv::{common::*, scene::*};
use serde_json::{json, Value};
use std::sync::Arc;

const AMP: f32 = 0.5;

fn mono_coded(len: usize) -> Arc<[Frame]> {
	(0..len)
		.map(|i| {
			let x = (i + 1) as f32 / 256.0 * AMP;
			Frame::new(x, x)
		})
		.collect::<Vec<_>>()
		.into()
}

/// -1: silent, -2: audible but not at full gain, k >= 0: first source frame of a fully audible chunk
fn decode(samples: &[f32]) -> i64 {
	if samples.iter().all(|s| *s == 0.0) {
		return -1;
	}
	let vals: Vec<f64> = samples
		.iter()
		.map(|s| *s as f64 / (AMP as f64 * std::f64::consts::SQRT_2) * 256.0)
		.collect();
	let k = vals[0].round();
	let ok = vals
		.iter()
		.enumerate()
		.all(|(j, v)| (v - (k + j as f64)).abs() < 2e-3);
	if ok && k >= 1.0 {
		k as i64 - 1
	} else {
		-2
	}
}

/// the left channel carries SA (integer part of the code) and SC (fractional part, in 1/1024): (first SA, first SC)
fn decode_left(samples: &[f32], depth: u64) -> (i64, i64) {
	if samples.iter().all(|s| *s == 0.0) {
		return (-1, -1);
	}
	let vals: Vec<f64> = samples
		.iter()
		.map(|s| *s as f64 / (AMP as f64 * std::f64::consts::SQRT_2) * 256.0)
		.collect();
	let ints: Vec<f64> = vals.iter().map(|v| (v + 1e-4).floor()).collect();
	let fracs: Vec<f64> = vals.iter().zip(&ints).map(|(v, a)| (v - a) * 1024.0).collect();
	// SC: silent, or four consecutive codes, or undecodable
	let c = if fracs.iter().all(|f| f.abs() < 0.05) {
		-1
	} else {
		let k = fracs[0].round();
		if k >= 1.0 && fracs.iter().enumerate().all(|(j, f)| (f - (k + j as f64)).abs() < 0.05) {
			k as i64 - 1
		} else {
			-2
		}
	};
	// SA: silent (integer part 0), four consecutive codes, or undecodable; an undecodable fraction below 1 may be a faded SA
	let a = if ints.iter().all(|x| *x == 0.0) {
		// below one code unit: without an SC in the scene this is a deeply faded SA; with one it is a faded SC
		// or a deeply faded SA - the driver cannot tell and makes no claim (-4) about either
		if c == -2 { if depth == 2 { -2 } else { -4 } } else { -1 }
	} else {
		let k = ints[0];
		if k >= 1.0 && ints.iter().enumerate().all(|(j, x)| *x == k + j as f64) && c != -2 {
			k as i64 - 1
		} else if k >= 1.0 && ints.iter().enumerate().all(|(j, x)| *x == k + j as f64) {
			// consecutive integer parts with a fraction that is no clean SC code: a faded SC on top of a clean SA - or a
			// fading SA whose rising gain happens to step through consecutive integers.  Without an SC in the scene it
			// can only be the latter; with one the driver cannot tell and makes no claim
			if depth == 2 { -2 } else { -4 }
		} else {
			-2
		}
	};
	// when SA itself is faded its residue cannot be told apart from SC: no claim about SC (reported as not heard;
	// the monitor then forgets SC's expected frame unless SC is known to be frozen)
	(a, if a == -4 { -4 } else if a == -2 { -1 } else { c })
}

/// a plain track, or a spatial track made transparent (listener and emitter at the same place, no attenuation, strength 0):
/// whatever C12 says about tracks holds for both kinds
enum Tk {
	P(TrackHandle),
	S(SpatialTrackHandle),
}
macro_rules! tk {
	($h:expr, $x:ident => $e:expr) => {
		match $h {
			Tk::P($x) => $e,
			Tk::S($x) => $e,
		}
	};
}
impl Tk {
	fn state(&self) -> TrackPlaybackState {
		tk!(self, h => h.state())
	}
	fn pause(&mut self, t: Tween) {
		tk!(self, h => h.pause(t))
	}
	fn resume(&mut self, t: Tween) {
		tk!(self, h => h.resume(t))
	}
	fn resume_at(&mut self, st: StartTime, t: Tween) {
		tk!(self, h => h.resume_at(st, t))
	}
	fn num_sub_tracks(&self) -> usize {
		tk!(self, h => h.num_sub_tracks())
	}
	fn add_sub_track(&mut self, b: TrackBuilder) -> TrackHandle {
		tk!(self, h => h.add_sub_track(b).unwrap())
	}
	fn play(&mut self, d: StaticSoundData) -> StaticSoundHandle {
		tk!(self, h => h.play(d).unwrap())
	}
}

fn tstate(h: &Option<Tk>) -> &'static str {
	match h {
		None => "gone",
		Some(h) => match guarded(|| h.state()) {
			Ok(TrackPlaybackState::Playing) => "Playing",
			Ok(TrackPlaybackState::Pausing) => "Pausing",
			Ok(TrackPlaybackState::Paused) => "Paused",
			Ok(TrackPlaybackState::WaitingToResume) => "WaitingToResume",
			Ok(TrackPlaybackState::Resuming) => "Resuming",
			Err(_) => "panic",
		},
	}
}

fn tween(d: u64) -> Tween {
	Tween {
		start_time: StartTime::Immediate,
		duration: chunks(d),
		easing: kira::Easing::Linear,
	}
}

fn run_scenario(sc: &Value, t: &mut Tracer) {
	let pa = sc["persistA"].as_bool().unwrap_or(false);
	let pb = sc["persistB"].as_bool().unwrap_or(false);
	let pc = sc["persistC"].as_bool().unwrap_or(false);
	let depth = sc["depth"].as_u64().unwrap_or(2);
	t.reset(json!({"persist": {"A": pa, "B": pb, "C": pc}, "n": NF, "depth": depth, "spatialB": sc["spatialB"].as_bool().unwrap_or(false), "src": sc["src"]}));
	let mut sim = Sim::basic();
	let mut clock = sim.manager.add_clock(ClockSpeed::TicksPerSecond(2.0)).unwrap();
	clock.start();
	let gone = sim.manager.add_clock(ClockSpeed::TicksPerSecond(2.0)).unwrap();
	let gone_id = gone.id();
	drop(gone);
	let mut a = sim
		.manager
		.add_sub_track(TrackBuilder::new().persist_until_sounds_finish(pa))
		.unwrap();
	// spatialB: track B is a (transparent) spatial track
	let listener = sim.manager.add_listener(glam::Vec3::ZERO, glam::Quat::IDENTITY).unwrap();
	let mut b = if sc["spatialB"].as_bool().unwrap_or(false) {
		Tk::S(
			a.add_spatial_sub_track(
				listener.id(),
				glam::Vec3::ZERO,
				SpatialTrackBuilder::new().persist_until_sounds_finish(pb).attenuation_function(None).spatialization_strength(0.0),
			)
			.unwrap(),
		)
	} else {
		Tk::P(a.add_sub_track(TrackBuilder::new().persist_until_sounds_finish(pb)).unwrap())
	};
	let mk = |pan: Panning| StaticSoundData {
		sample_rate: RATE,
		frames: mono_coded(250),
		settings: StaticSoundSettings::new().panning(pan),
		slice: None,
	};
	let sa: StaticSoundHandle = a.play(mk(Panning::LEFT)).unwrap();
	let sb: StaticSoundHandle = b.play(mk(Panning::RIGHT));
	let mut hc = None;
	let mut sounds = vec![sa, sb];
	if depth == 3 {
		let mut c = b.add_sub_track(TrackBuilder::new().persist_until_sounds_finish(pc));
		// 1024 times quieter than SA: -60.206 dB is exactly 2^-10 only approximately, so scale the frames instead
		let quiet: Arc<[Frame]> = (0..250)
			.map(|i| {
				let x = (i + 1) as f32 / 256.0 * AMP / 1024.0;
				Frame::new(x, x)
			})
			.collect::<Vec<_>>()
			.into();
		let sc_h = c
			.play(StaticSoundData { sample_rate: RATE, frames: quiet, settings: StaticSoundSettings::new().panning(Panning::LEFT), slice: None })
			.unwrap();
		sounds.push(sc_h);
		hc = Some(Tk::P(c));
	}
	let mut ha = Some(Tk::P(a));
	let mut hb = Some(b);
	// no warm-up callbacks here: the first callbacks are part of the session (tracks not yet picked up);
	// the clock therefore shows `callbacks` ticks during callback number `callbacks`
	for step in sc["steps"].as_array().unwrap() {
		match step["act"].as_str().unwrap() {
			"Cmd" => {
				let tn = step["t"].as_str().unwrap();
				let c = step["c"].as_str().unwrap();
				let d = step["d"].as_u64().unwrap_or(0);
				let wk = step["wk"].as_str().unwrap_or("none");
				let wt = step["wt"].as_u64().unwrap_or(0);
				let h = match tn { "A" => &mut ha, "B" => &mut hb, _ => &mut hc };
				let Some(h) = h.as_mut() else { continue };
				let r = guarded(|| match c {
					"pause" => h.pause(tween(d)),
					"resume" => h.resume(tween(d)),
					_ => {
						let st = match wk {
							"delayed" => StartTime::Delayed(chunks(wt)),
							"clock" => StartTime::ClockTime(ClockTime {
								clock: clock.id(),
								ticks: sim.callbacks + wt,
								fraction: 0.0,
							}),
							_ => StartTime::ClockTime(ClockTime { clock: gone_id, ticks: 0, fraction: 0.0 }),
						};
						h.resume_at(st, tween(d))
					}
				});
				if let Err(m) = r {
					t.ev(json!({"a": "panic", "who": "gameplay", "msg": m}));
					break;
				}
				t.ev(json!({"a": "cmd", "t": tn, "c": c, "d": d, "wk": wk, "wt": wt}));
			}
			"Drop" => {
				let tn = step["t"].as_str().unwrap();
				let h = match tn { "A" => ha.take(), "B" => hb.take(), _ => hc.take() };
				if h.is_some() {
					drop(h);
					t.ev(json!({"a": "drop", "t": tn}));
				}
			}
			"Stop" => {
				let sn = step["s"].as_str().unwrap();
				let ix = match sn { "SA" => 0, "SB" => 1, _ => 2 };
				if ix >= sounds.len() {
					continue;
				}
				sounds[ix].stop(tween(0));
				t.ev(json!({"a": "stop", "s": sn}));
			}
			"Callback" => {
				let res = sim.callback(NF);
				let left: Vec<f32> = res.out.chunks(2).map(|c| c[0]).collect();
				let right: Vec<f32> = res.out.chunks(2).map(|c| c[1]).collect();
				let (fa, fc) = decode_left(&left, depth);
				let fc = if depth == 3 { fc } else { -1 };
				let fb = decode(&right);
				let ntop = sim.manager.num_sub_tracks();
				let n_a: i64 = ha.as_ref().map(|h| h.num_sub_tracks() as i64).unwrap_or(-1);
				let n_b: i64 = hb.as_ref().map(|h| h.num_sub_tracks() as i64).unwrap_or(-1);
				let sstate = |i: usize| if i < sounds.len() { state_name(sounds[i].state()) } else { "Playing" };
				let spos = |i: usize| if i < sounds.len() { (sounds[i].position() * RATE as f64).round() as i64 } else { 0 };
				t.ev(json!({"a": "cb",
					"st": {"A": tstate(&ha), "B": tstate(&hb), "C": tstate(&hc)},
					"first": {"SA": fa, "SB": fb, "SC": fc},
					"zero": {"SA": fa == -1, "SB": fb == -1, "SC": fc == -1 || fc == -4},
					"sst": {"SA": sstate(0), "SB": sstate(1), "SC": sstate(2)},
					"pos": {"SA": spos(0), "SB": spos(1), "SC": spos(2)},
					"ntop": ntop, "nA": n_a, "nB": n_b, "panicked": res.panicked.is_some(), "m": res.monitor(2)}));
				if res.panicked.is_some() {
					break;
				}
			}
			x => panic!("unknown act {x}"),
		}
	}
	t.ev(json!({"a": "end"}));
}

fn main() {
	let args: Vec<String> = std::env::args().collect();
	quiet_panics();
	let inp = arg(&args, "--in").expect("--in");
	let out = arg(&args, "--out").expect("--out");
	let mut t = Tracer::create(&out);
	for sc in read_scenarios(&inp) {
		run_scenario(&sc, &mut t);
	}
	t.flush();
	println!("events {}", t.events);
}
