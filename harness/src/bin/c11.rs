//! C11 driver: the same scene (real static sounds at various rates, tracks, a send, real effects with
//! fixed parameters) rendered under several internal buffer sizes and callback partitions.
//!
//! Scenario: {"fx":[e_main,e_A,e_B,e_S], "rates":[r1,r2] (x256), "loops":[bool,bool], "pans":[p1,p2] (x4),
//!            "cfgs":[{"b":B,"part":"ones|b|b1|primes|big"}, ...], "t": frames}

use std::{sync::Arc, time::Duration};

use kira::{
	effect::{
		compressor::CompressorBuilder, delay::DelayBuilder, distortion::{DistortionBuilder, DistortionKind},
		eq_filter::{EqFilterBuilder, EqFilterKind}, filter::FilterBuilder, panning_control::PanningControlBuilder,
		reverb::ReverbBuilder, volume_control::VolumeControlBuilder,
	},
	sound::static_sound::{StaticSoundData, StaticSoundSettings},
	track::{MainTrackBuilder, SendTrackBuilder, TrackBuilder},
	Capacities, Decibels, Frame, Mix, Panning, PlaybackRate, Value as KValue,
};
use kv::{common::*, scene::Sim};
use serde_json::{json, Value};

const SR: u32 = 8000;

fn noise(len: usize, seed: u32) -> Arc<[Frame]> {
	let mut x = seed.wrapping_mul(2654435761).wrapping_add(12345);
	(0..len)
		.map(|_| {
			x = x.wrapping_mul(1664525).wrapping_add(1013904223);
			let l = ((x >> 8) as f32 / (1u32 << 24) as f32 - 0.5) * 0.4;
			x = x.wrapping_mul(1664525).wrapping_add(1013904223);
			let r = ((x >> 8) as f32 / (1u32 << 24) as f32 - 0.5) * 0.4;
			Frame::new(l, r)
		})
		.collect::<Vec<_>>()
		.into()
}

macro_rules! with_fx {
	($b:expr, $e:expr) => {{
		let b = $b;
		match $e {
			0 => b,
			1 => b.with_effect(FilterBuilder::new().cutoff(1000.0).resonance(0.2)),
			2 => b.with_effect(EqFilterBuilder::new(EqFilterKind::Bell, 500.0, Decibels(6.0), 1.0)),
			3 => b.with_effect(DelayBuilder::new().delay_time(Duration::from_millis(10)).feedback(Decibels(-6.0)).mix(Mix(0.5))),
			4 => b.with_effect(ReverbBuilder::new().feedback(0.8).damping(0.3).mix(Mix(0.5))),
			5 => b.with_effect(
				CompressorBuilder::new().threshold(-20.0).ratio(4.0).attack_duration(Duration::from_millis(5)).release_duration(Duration::from_millis(50)),
			),
			6 => b.with_effect(DistortionBuilder::new().kind(DistortionKind::SoftClip).drive(Decibels(6.0))),
			7 => b.with_effect(VolumeControlBuilder::new(Decibels(-6.0))),
			_ => b.with_effect(PanningControlBuilder(KValue::Fixed(Panning(0.3)))),
		}
	}};
}

fn partition(part: &str, b: usize, t: usize) -> Vec<usize> {
	let mut v = vec![];
	let mut left = t;
	let primes = [2usize, 3, 5, 7, 11, 13];
	let mut k = 0;
	while left > 0 {
		let n = match part {
			"ones" => 1,
			"b" => b,
			"b1" => b + 1,
			"primes" => primes[k % primes.len()],
			_ => t,
		}
		.min(left)
		.max(1);
		v.push(n);
		left -= n;
		k += 1;
	}
	v
}

fn render(sc: &Value, b: usize, part: &str, t: usize) -> (Vec<f32>, bool) {
	let e = |i: usize| sc["fx"][i].as_u64().unwrap();
	let mut sim = Sim::new(Capacities::default(), with_fx!(MainTrackBuilder::new(), e(0)), b, SR);
	let send = sim.manager.add_send_track(with_fx!(SendTrackBuilder::new(), e(3))).unwrap();
	let mut a = sim.manager.add_sub_track(with_fx!(TrackBuilder::new().with_send(&send, Decibels(-3.0)), e(1))).unwrap();
	// (the leaf track has a route of its own: once its sound has ended it is an idle track with an effect tail and a send)
	let mut bt = a.add_sub_track(with_fx!(TrackBuilder::new().volume(Decibels(-2.0)).with_send(&send, Decibels(-5.0)), e(2))).unwrap();
	// an older, shorter sound on track A and on the main track: it ends in the middle of a chunk while a younger sound goes on
	for (k, len) in [(0usize, 131usize), (1, 83)] {
		let st = StaticSoundSettings::new().panning(Panning(if k == 0 { -0.3 } else { 0.6 })).volume(Decibels(-5.0));
		let data = StaticSoundData { sample_rate: SR, frames: noise(len, 31 + k as u32), settings: st, slice: None };
		if k == 0 {
			std::mem::forget(a.play(data).unwrap());
		} else {
			std::mem::forget(sim.manager.play(data).unwrap());
		}
	}
	std::mem::forget(sim.manager.play(StaticSoundData { sample_rate: SR, frames: noise(200, 41), settings: StaticSoundSettings::new().volume(Decibels(-9.0)), slice: None }).unwrap());
	for (i, tr) in [&mut a, &mut bt].into_iter().enumerate() {
		let mut st = StaticSoundSettings::new()
			.playback_rate(PlaybackRate(sc["rates"][i].as_u64().unwrap() as f64 / 256.0))
			// (quarters; 2 and 3 stand for pannings that are not round in binary)
			.panning(Panning(match sc["pans"][i].as_i64().unwrap() {
				2 => 0.3,
				3 => -0.7,
				p => p as f32 / 4.0,
			}))
			.volume(Decibels(-4.0));
		if sc["loops"][i].as_bool().unwrap() {
			st = st.loop_region(..);
		}
		let mut frames: Vec<Frame> = noise(150 + 77 * i, 7 + i as u32).to_vec();
		if sc["gaps"][i].as_bool().unwrap_or(false) {
			// a stretch of exact silence inside the sound (burst, silence, burst)
			for f in frames.iter_mut().skip(40).take(70) {
				*f = Frame::ZERO;
			}
		}
		let h = tr.play(StaticSoundData { sample_rate: SR, frames: frames.into(), settings: st, slice: None }).unwrap();
		std::mem::forget(h);
	}
	let mut out = vec![];
	let mut panicked = false;
	for n in partition(part, b, t) {
		let r = sim.callback(n);
		panicked |= r.panicked.is_some();
		out.extend_from_slice(&r.out);
	}
	std::mem::forget(send);
	(out, panicked)
}

fn run_scenario(sc: &Value, t: &mut Tracer) {
	let frames = sc["t"].as_u64().unwrap_or(256) as usize;
	let recursive = sc["fx"].as_array().unwrap().iter().any(|x| (1..=5).contains(&x.as_u64().unwrap()));
	t.reset(json!({"recursive": recursive, "fx": sc["fx"], "src": sc["src"]}));
	for (k, c) in sc["cfgs"].as_array().unwrap().iter().enumerate() {
		let b = c["b"].as_u64().unwrap() as usize;
		let part = c["part"].as_str().unwrap();
		let (out, panicked) = render(sc, b, part, frames);
		let bits: Vec<i32> = out.iter().map(|x| x.to_bits() as i32).collect();
		let q7: Vec<i64> = out.iter().map(|x| if x.is_finite() { (*x as f64 * 1e7).round() as i64 } else { 2_000_000_000 }).collect();
		t.ev(json!({"a": "render", "k": k + 1, "b": b, "part": part, "bits": bits, "q7": q7, "panicked": panicked}));
	}
	t.ev(json!({"a": "end"}));
}

fn main() {
	let args: Vec<String> = std::env::args().collect();
	quiet_panics();
	let inp = arg(&args, "--in").expect("--in");
	let out = arg(&args, "--out").expect("--out");
	let mut t = Tracer::create(&out);
	for sc in read_scenarios(&inp) {
		run_scenario(&sc, &mut t);
	}
	t.flush();
	println!("events {}", t.events);
}
