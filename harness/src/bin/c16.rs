//! C16 driver.
//! (a) {"mode":"rates","rate0":R,"steps":[{"act":"GLoad","kind":K}|{"act":"GEnqueue"}|{"act":"Change","r":R}|{"act":"Callback"}|{"act":"Emit"}]}
//!     tracks carry an effect that records the sample rate it was told and the dt of every process call;
//!     add_sub_track is split at the ctl.reserved yield point (rate loaded / enqueued)
//! (b) {"mode":"measure","what":"sound|clock|echo","rates":[r1, r2?],"switch_ms":T}  durations in device time

use std::{
	sync::{Arc, Mutex},
	time::Duration,
};

use kira::{
	backend::Renderer,
	clock::ClockSpeed,
	effect::{delay::DelayBuilder, filter::FilterBuilder, Effect},
	info::Info,
	sound::{static_sound::{StaticSoundData, StaticSoundSettings}, Sound, SoundData},
	track::{MainTrackBuilder, SendTrackBuilder, SpatialTrackBuilder, TrackBuilder},
	AudioManager, AudioManagerSettings, Capacities, Decibels, Frame, Mix,
};
use kv::common::*;
use serde_json::{json, Value};

type ProcLog = Arc<Mutex<Vec<(u32, u32, i64)>>>; // (track, seen, round(1/dt))

struct RateProbe {
	id: u32,
	seen: u32,
	log: ProcLog,
}
impl Effect for RateProbe {
	fn init(&mut self, sample_rate: u32, _b: usize) {
		self.seen = sample_rate;
	}
	fn on_change_sample_rate(&mut self, sample_rate: u32) {
		self.seen = sample_rate;
	}
	fn process(&mut self, _input: &mut [Frame], dt: f64, _info: &Info) {
		let (id, seen) = (self.id, self.seen);
		unarmed(|| self.log.lock().unwrap().push((id, seen, (1.0 / dt).round() as i64)));
	}
}

/// silence for `at` seconds of the renderer's own time (sum of dt), then a constant 1.0
struct StepSound {
	at: f64,
	elapsed: f64,
	impulse: bool, // only the first frame at or after `at` is non-zero
	fired: bool,
}
impl Sound for StepSound {
	fn process(&mut self, out: &mut [Frame], dt: f64, _info: &Info) {
		for f in out {
			let on = self.elapsed >= self.at - 1e-9 && !(self.impulse && self.fired);
			*f = if on { Frame::new(1.0, 1.0) } else { Frame::ZERO };
			self.fired |= on;
			self.elapsed += dt;
		}
	}
	fn finished(&self) -> bool {
		false
	}
}
struct StepData(f64, bool);
impl SoundData for StepData {
	type Error = ();
	type Handle = ();
	fn into_sound(self) -> Result<(Box<dyn Sound>, ()), ()> {
		Ok((Box::new(StepSound { at: self.0, elapsed: 0.0, impulse: self.1, fired: false }), ()))
	}
}

struct World {
	manager: AudioManager<VBackend>,
	keep: Vec<Box<dyn std::any::Any + Send>>,
	parent: Option<kira::track::TrackHandle>,
}

fn run_rates(sc: &Value, t: &mut Tracer) {
	let rate0 = sc["rate0"].as_u64().unwrap() as u32;
	t.reset(json!({"mode": "rates", "src": sc["src"]}));
	t.ev(json!({"a": "rate", "r": rate0}));
	let log: ProcLog = Default::default();
	let (tx, rx) = std::sync::mpsc::channel::<Renderer>();
	let gw: Worker<World> = Worker::spawn("gameplay", move || {
		let mut manager = AudioManager::<VBackend>::new(AudioManagerSettings {
			capacities: Capacities::default(),
			main_track_builder: MainTrackBuilder::new(),
			internal_buffer_size: 4,
			backend_settings: VSettings { sample_rate: rate0 },
		})
		.unwrap();
		tx.send(manager.backend_mut().renderer.take().unwrap()).unwrap();
		World { manager, keep: vec![], parent: None }
	});
	let _ = gw.call(|_| Value::Null);
	gw.ctl.set_tag("track::sub::Track");
	let aw: Worker<Renderer> = Worker::spawn("audio", move || rx.recv().unwrap());
	let mut next_id = 0u32;
	let mut pending: Vec<(u32, u32, i64)> = vec![];
	for step in sc["steps"].as_array().unwrap() {
		match step["act"].as_str().unwrap() {
			"GLoad" => {
				next_id += 1;
				let id = next_id;
				let kind = step["kind"].as_str().unwrap_or("sub").to_string();
				let l2 = log.clone();
				// sub-tracks go through ResourceController::insert (yield point ctl.reserved between the rate load and the enqueue)
				gw.start(&["ctl.reserved"], move |w| {
					let probe = Box::new(RateProbe { id, seen: 0, log: l2 });
					match kind.as_str() {
						"nested" if w.parent.is_some() => {
							let h = w.parent.as_mut().unwrap().add_sub_track(TrackBuilder::new().with_built_effect(probe)).unwrap();
							w.keep.push(Box::new(h));
						}
						"send" => {
							let h = w.manager.add_send_track(SendTrackBuilder::new().with_built_effect(probe)).unwrap();
							w.keep.push(Box::new(h));
						}
						"spatial" => {
							let l = w.manager.add_listener(glam::Vec3::ZERO, glam::Quat::IDENTITY).unwrap();
							let h = w
								.manager
								.add_spatial_sub_track(&l, glam::Vec3::ZERO, SpatialTrackBuilder::new().with_built_effect(probe))
								.unwrap();
							w.keep.push(Box::new(l));
							w.keep.push(Box::new(h));
						}
						_ => {
							let h = w.manager.add_sub_track(TrackBuilder::new().with_built_effect(probe)).unwrap();
							if w.parent.is_none() {
								w.parent = Some(h);
							} else {
								w.keep.push(Box::new(h));
							}
						}
					}
					Value::Null
				});
				let _ = gw.wait();
				t.ev(json!({"a": "load", "t": id}));
			}
			// the handle of the first (parent) track is dropped; the track lives on as long as a nested track does
			"DropParent" => {
				let _ = gw.call(|w| {
					w.parent = None;
					Value::Null
				});
				t.ev(json!({"a": "tau"}));
			}
			"GEnqueue" => {
				let _ = gw.finish();
				t.ev(json!({"a": "enq"}));
			}
			// the rate-change call in its three stretches (yield points rate.stored / rate.walked)
			"ChangeA" => {
				let r = step["r"].as_u64().unwrap() as u32;
				aw.start(&["rate.stored", "rate.walked"], move |rd| {
					rd.on_change_sample_rate(r);
					Value::Null
				});
				let _ = aw.wait();
				// the change counts from the moment the call has begun: a track built from now on must be given the new rate
				t.ev(json!({"a": "rate", "r": r}));
			}
			"ChangeB" => {
				let _ = aw.resume();
				t.ev(json!({"a": "tau"}));
			}
			"ChangeEnd" => {
				let _ = aw.finish();
				t.ev(json!({"a": "tau"}));
			}
			"Change" => {
				let r = step["r"].as_u64().unwrap() as u32;
				let _ = aw.call(move |rd| {
					rd.on_change_sample_rate(r);
					Value::Null
				});
				t.ev(json!({"a": "rate", "r": r}));
			}
			"Callback" => {
				let _ = aw.call(|rd| {
					let _ = run_callback(rd, 4, 2);
					Value::Null
				});
				let mut v: Vec<(u32, u32, i64)> = std::mem::take(&mut *log.lock().unwrap());
				v.sort();
				v.dedup();
				pending = v;
				t.ev(json!({"a": "cbk"}));
			}
			"Emit" => {
				if !pending.is_empty() {
					let (id, seen, idt) = pending.remove(0);
					t.ev(json!({"a": "proc", "t": id, "seen": seen, "idt": idt}));
				} else {
					t.ev(json!({"a": "tau"}));
				}
			}
			x => panic!("unknown act {x}"),
		}
	}
	for (id, seen, idt) in pending {
		t.ev(json!({"a": "proc", "t": id, "seen": seen, "idt": idt}));
	}
	let _ = gw.finish();
	gw.shutdown();
	aw.shutdown();
	t.ev(json!({"a": "end"}));
}

fn run_measure(sc: &Value, t: &mut Tracer) {
	let what = sc["what"].as_str().unwrap();
	let rates: Vec<u32> = sc["rates"].as_array().unwrap().iter().map(|x| x.as_u64().unwrap() as u32).collect();
	let switch_ms = sc["switch_ms"].as_u64().unwrap_or(u64::MAX);
	t.reset(json!({"mode": "measure", "src": sc["src"]}));
	// unit of the measured times: 1000 (milliseconds) or 1000000 (microseconds, for sub-millisecond delay times at audio rates)
	let unit = sc["unit"].as_i64().unwrap_or(1000);
	let cbf = sc["cbf"].as_u64().unwrap_or(4) as usize;
	let limit = sc["limit"].as_u64().unwrap_or(400);
	let delay_us = sc["delay_us"].as_u64().unwrap_or(500_000);
	let mut sim = kv::scene::Sim::new(Capacities::default(), MainTrackBuilder::new(), cbf.min(128), rates[0]);
	// the sound's own sample rate (default 8 Hz; a rate far above the device's makes every output frame skip several
	// source frames)
	let src_rate = sc["src_rate"].as_u64().unwrap_or(8) as u32;
	let mut clock = None;
	let secs1000: i64;
	match what {
		"sound" => {
			let frames: Arc<[Frame]> = (0..2 * src_rate).map(|_| Frame::new(0.5, 0.5)).collect::<Vec<_>>().into();
			let h = sim.manager.play(StaticSoundData { sample_rate: src_rate, frames, settings: StaticSoundSettings::new(), slice: None }).unwrap();
			std::mem::forget(h);
			secs1000 = 2000;
		}
		"clock" => {
			let mut c = sim.manager.add_clock(ClockSpeed::TicksPerSecond(2.0)).unwrap();
			c.start();
			clock = Some(c);
			secs1000 = 2000; // 4 ticks
		}
		"filter" => {
			// a critically damped 10 Hz low-pass: its step response crosses 0.5 after 1.678 / (2 pi 10) s = 26.7 ms
			let mut tr = sim
				.manager
				.add_sub_track(TrackBuilder::new().with_effect(FilterBuilder::new().cutoff(10.0)))
				.unwrap();
			tr.play(StepData(0.2, false)).unwrap();
			std::mem::forget(tr);
			secs1000 = 27;
		}
		_ => {
			// "reverb": the first reflection of the reverb (its shortest comb line, 1116 samples at 44.1 kHz = 25.3 ms, a time
			// in seconds like any other) is measured like the first echo of a delay
			let b = if what == "reverb" {
				TrackBuilder::new().with_effect(kira::effect::reverb::ReverbBuilder::new().feedback(0.0).damping(0.0).mix(Mix(0.5)))
			} else {
				TrackBuilder::new().with_effect(DelayBuilder::new().delay_time(Duration::from_micros(delay_us)).feedback(Decibels(-6.0)).mix(Mix(0.5)))
			};
			let mut tr = sim.manager.add_sub_track(b).unwrap();
			if rates.len() > 1 {
				// across a change: the impulse comes half a second after the switch (one frame wide at any rate) - or, if
				// asked for, at a given time before it, so that its echo is due after the switch
				let at = sc["impulse_ms"].as_f64().unwrap_or(switch_ms as f64 + 500.0);
				tr.play(StepData(at / 1000.0, true)).unwrap();
			} else {
				let mut frames = vec![Frame::ZERO; 40];
				frames[0] = Frame::new(0.5, 0.5);
				// an impulse at the device rate, so that it is one frame wide
				let h = tr.play(StaticSoundData { sample_rate: rates[0], frames: frames.into(), settings: StaticSoundSettings::new(), slice: None }).unwrap();
				std::mem::forget(h);
			}
			std::mem::forget(tr);
			secs1000 = if what == "reverb" { 1116 * unit / 44100 } else { delay_us as i64 * unit / 1_000_000 };
		}
	}
	let mut ms = 0i64; // elapsed device time (rounded from `secs`, which is exact enough not to drift over many callbacks)
	let mut secs = 0f64;
	let mut rate = rates[0];
	let mut rmin = rate;
	let mut first: Option<i64> = None;
	let mut last: Option<i64> = None;
	let mut second: Option<i64> = None;
	let mut result: Option<i64> = None;
	let mut silent_run = 0;
	for _ in 0..limit {
		if (ms * 1000 / unit) as u64 >= switch_ms && rates.len() > 1 && rate != rates[1] {
			rate = rates[1];
			rmin = rmin.min(rate);
			sim.renderer.on_change_sample_rate(rate);
			t.ev(json!({"a": "rate", "r": rate}));
		}
		let res = sim.callback(cbf);
		for f in 0..cbf {
			let x = res.out[2 * f];
			let now = ((secs + f as f64 / rate as f64) * unit as f64).round() as i64;
			if what == "filter" {
				if x >= 0.5 && result.is_none() {
					result = Some(now - 200);
				}
				continue;
			}
			if x != 0.0 {
				if first.is_none() {
					first = Some(now);
				} else if (what == "echo" || what == "reverb") && second.is_none() && silent_run > 0 {
					second = Some(now);
				}
				last = Some(now);
				silent_run = 0;
			} else if first.is_some() {
				silent_run += 1;
			}
		}
		secs += cbf as f64 / rate as f64;
		ms = (secs * unit as f64).round() as i64;
		match what {
			"clock" => {
				if clock.as_ref().unwrap().time().ticks >= 4 {
					// the published time is that of the start of the callback just run
					result = Some(ms - (cbf as i64 * unit) / rate as i64);
					break;
				}
			}
			"filter" => {
				if result.is_some() {
					break;
				}
			}
			"sound" => {
				if first.is_some() && silent_run > 40 {
					result = Some(last.unwrap() - first.unwrap() + unit / rate as i64);
					break;
				}
			}
			_ => {
				if let (Some(a), Some(b)) = (first, second) {
					result = Some(b - a);
					break;
				}
			}
		}
	}
	// (an echo in flight when the rate changes may be dropped: then there is nothing to measure)
	let what = if what == "echo" && sc.get("impulse_ms").is_some() { "echo_in_flight" } else { what };
	t.ev(json!({"a": "measure", "what": what, "ms": result.unwrap_or(-1), "secs1000": secs1000, "rmin": rmin,
		"cbf": cbf, "srcms": unit / src_rate as i64, "unit": unit, "rates": rates}));
	t.ev(json!({"a": "end"}));
}

fn main() {
	let args: Vec<String> = std::env::args().collect();
	quiet_panics();
	install_hook();
	let inp = arg(&args, "--in").expect("--in");
	let out = arg(&args, "--out").expect("--out");
	let mut t = Tracer::create(&out);
	for sc in read_scenarios(&inp) {
		if sc["mode"] == "rates" {
			run_rates(&sc, &mut t);
		} else {
			run_measure(&sc, &mut t);
		}
	}
	t.flush();
	println!("events {}", t.events);
}
