//! C17 driver: modulators inside the real manager + renderer.
//!
//! Scenario (one JSON object per line):
//!   {"buf": B, "cap": N, "mode": "exact"|"loose", "den": D, "src": .., "steps": [..]}
//! steps (the events of Render.tla; `chunk`/`tau` entries of a TLC behaviour are ignored):
//!   {"a":"add","m":i,"kind":"probe"|"tw"|"lfo","v0":..,"step":..,"src":j,"wave":"saw"|"tri"|"pulse"|"sine",
//!    "width":..,"ph0":..,"fr":VS,"am":VS,"of":VS}
//!   {"a":"drop","m":i}   {"a":"set","m":i,"tgt":..,"dur":f,"ease":..,"p":k,"sk":"imm"|"del","delay":f}
//!   {"a":"relink","m":i,"role":"fr"|"am"|"of"|"src","vs":VS}
//!   {"a":"link","p":q,"own":"mix"|"clock","real":"psound"|"sound"|"track"|"effect"|"clock","ch":"L"|"R","vs":VS}
//!   {"a":"cb","frames":F}
//! VS = {"k":"fix"|"mod","v":..,"m":j,"i0":..,"i1":..,"o0":..,"o1":..,"e":"lin"|"in","p":k}
//! Numbers: exact mode: value * 4096 (dyadic, every float involved is exact); loose mode: value * D
//! (arbitrary decimals; observations are rounded to 1/4096 and compared with a tolerance).
//! Time: frames at 8 Hz.  Phases: fraction of a period (same scale as values).
//!
//! Observation.  Probe modulators stamp every `update` (U) and every look-up of their source (R);
//! probe sounds on the main track own a public `kira::Parameter<f64>` linked to a modulator, stamp
//! their look-up (R) and update the parameter exactly as kira's own sounds do.  A watcher effect,
//! last on the main track, closes every internal chunk: it looks up every modulator id of the
//! session, reads every clock, takes the last frame of the chunk (left / right carry one DC source
//! each, whose gain is the linked volume of a sound, a track or a VolumeControl effect) and cuts
//! the stamp log.  One `chunk` event per internal chunk is written after the callback returned.

use std::{
	collections::HashMap,
	sync::{
		atomic::{AtomicBool, Ordering},
		Arc, Mutex,
	},
	time::Duration,
};

use kira::{
	clock::{ClockHandle, ClockId, ClockSpeed},
	effect::{volume_control::VolumeControlBuilder, Effect},
	info::Info,
	modulator::{
		lfo::{LfoBuilder, LfoHandle, Waveform},
		tweener::{TweenerBuilder, TweenerHandle},
		Modulator, ModulatorBuilder, ModulatorId,
	},
	sound::{
		static_sound::{StaticSoundData, StaticSoundSettings},
		Sound, SoundData,
	},
	track::{MainTrackBuilder, TrackBuilder, TrackHandle},
	Capacities, Decibels, Easing, Frame, Mapping, Parameter, StartTime, Tween, Value as KValue,
};
use kv::{common::*, scene::*};
use serde_json::{json, Value as J};

const SOUT: f64 = 4096.0; // scale of every number written to the trace
const BIG: f64 = 1000000.0;
const DC: f32 = 0.5;

fn proj(x: f64) -> i64 {
	if x.is_nan() {
		return 1000001;
	}
	(x * SOUT).round().clamp(-BIG - 1.0, BIG + 1.0) as i64
}

#[derive(Clone, Debug)]
enum Entry {
	U { m: u32, d: i64, v: f64 },
	R { rk: &'static str, x: u32, m: u32, ok: bool, v: f64 },
}

struct ChunkRec {
	n: usize,
	log: Vec<Entry>,
	mv: Vec<Option<f64>>,
	clocks: Vec<(u32, Option<f64>)>,
	pvals: Vec<(u32, f64)>,
	out: (f32, f32),
}

#[derive(Default)]
struct Shared {
	log: Vec<Entry>,
	mods: Vec<Option<ModulatorId>>, // by item id - 1
	clocks: Vec<(u32, ClockId)>,    // (param id, clock)
	pvals: Vec<(u32, f64)>,         // values of the probe sounds' parameters in this chunk
	chunks: Vec<ChunkRec>,
}
type Sh = Arc<Mutex<Shared>>;

// ---------------------------------------------------------------- probes

struct ProbeMod {
	item: u32,
	value: f64,
	step: f64,
	src: Arc<Mutex<Option<(u32, ModulatorId)>>>,
	finished: Arc<AtomicBool>,
	sh: Sh,
}

impl Modulator for ProbeMod {
	fn update(&mut self, dt: f64, info: &Info) {
		unarmed(|| {
			let src = *self.src.lock().unwrap();
			let mut sh = self.sh.lock().unwrap();
			if let Some((j, id)) = src {
				let r = info.modulator_value(id);
				sh.log.push(Entry::R { rk: "m", x: self.item, m: j, ok: r.is_some(), v: r.unwrap_or(0.0) });
			}
			self.value += self.step;
			sh.log.push(Entry::U { m: self.item, d: (dt * RATE as f64).round() as i64, v: self.value });
		});
	}
	fn value(&self) -> f64 {
		self.value
	}
	fn finished(&self) -> bool {
		self.finished.load(Ordering::SeqCst)
	}
}

struct ProbeModBuilder(ProbeMod, bool);

impl ModulatorBuilder for ProbeModBuilder {
	type Handle = ModulatorId;
	fn build(self, id: ModulatorId) -> (Box<dyn Modulator>, ModulatorId) {
		if self.1 {
			// linked to itself
			*self.0.src.lock().unwrap() = Some((self.0.item, id));
		}
		(Box::new(self.0), id)
	}
}

/// a sound that owns a parameter linked to a modulator, like kira's own sounds do
struct ParamSound {
	q: u32,
	m: u32,
	id: ModulatorId,
	param: Parameter<f64>,
	sh: Sh,
}

impl Sound for ParamSound {
	fn process(&mut self, out: &mut [Frame], dt: f64, info: &Info) {
		unarmed(|| {
			let r = info.modulator_value(self.id);
			self.param.update(dt * out.len() as f64, info);
			let mut sh = self.sh.lock().unwrap();
			sh.log.push(Entry::R { rk: "p", x: self.q, m: self.m, ok: r.is_some(), v: r.unwrap_or(0.0) });
			sh.pvals.push((self.q, self.param.value()));
		});
		out.fill(Frame::ZERO);
	}
	fn finished(&self) -> bool {
		false
	}
}

struct ParamSoundData(ParamSound);
impl SoundData for ParamSoundData {
	type Error = ();
	type Handle = ();
	fn into_sound(self) -> Result<(Box<dyn Sound>, ()), ()> {
		Ok((Box::new(self.0), ()))
	}
}

/// last effect of the main track: closes the chunk
struct Watcher {
	sh: Sh,
}

impl Effect for Watcher {
	fn process(&mut self, input: &mut [Frame], _dt: f64, info: &Info) {
		unarmed(|| {
			let mut sh = self.sh.lock().unwrap();
			let mv = sh.mods.iter().map(|id| id.and_then(|id| info.modulator_value(id))).collect();
			let clocks = sh
				.clocks
				.iter()
				.map(|(q, id)| (*q, info.clock_info(*id).map(|c| c.time.ticks as f64 + c.time.fraction)))
				.collect();
			let last = input.last().copied().unwrap_or(Frame::ZERO);
			let rec = ChunkRec {
				n: input.len(),
				log: std::mem::take(&mut sh.log),
				mv,
				clocks,
				pvals: std::mem::take(&mut sh.pvals),
				out: (last.left, last.right),
			};
			sh.chunks.push(rec);
		});
	}
}

// ---------------------------------------------------------------- scenario values

struct Ctx {
	scale_in: f64,
}

impl Ctx {
	fn num(&self, v: &J) -> f64 {
		v.as_f64().unwrap_or(0.0) / self.scale_in
	}
}

fn easing_of(e: &str, p: i64) -> Easing {
	match e {
		"lin" => Easing::Linear,
		"in" => Easing::InPowi(p as i32),
		"out" => Easing::OutPowi(p as i32),
		"inout" => Easing::InOutPowi(p as i32),
		other => panic!("unknown easing {other}"),
	}
}

struct Vs {
	fixed: Option<f64>,
	m: u32,
	i: (f64, f64),
	o: (f64, f64),
	easing: Easing,
}

fn parse_vs(c: &Ctx, v: &J) -> Vs {
	let k = v["k"].as_str().unwrap_or("fix");
	Vs {
		fixed: if k == "fix" { Some(c.num(&v["v"])) } else { None },
		m: v["m"].as_u64().unwrap_or(0) as u32,
		i: (c.num(&v["i0"]), c.num(&v["i1"])),
		o: (c.num(&v["o0"]), c.num(&v["o1"])),
		easing: easing_of(v["e"].as_str().unwrap_or("lin"), v["p"].as_i64().unwrap_or(1)),
	}
}

/// the value spec as it is written to the trace (projected to the trace scale)
fn vs_json(v: &Vs, k_p: &J) -> J {
	json!({"k": if v.fixed.is_some() { "fix" } else { "mod" }, "v": proj(v.fixed.unwrap_or(0.0)), "m": v.m,
		"i0": proj(v.i.0), "i1": proj(v.i.1), "o0": proj(v.o.0), "o1": proj(v.o.1),
		"e": k_p["e"].as_str().unwrap_or("lin"), "p": k_p["p"].as_i64().unwrap_or(1)})
}

fn value_f64(v: &Vs, id: Option<ModulatorId>) -> Option<KValue<f64>> {
	match v.fixed {
		Some(x) => Some(KValue::Fixed(x)),
		None => id.map(|id| KValue::FromModulator { id, mapping: Mapping { input_range: v.i, output_range: v.o, easing: v.easing } }),
	}
}

// abstract x <-> concrete: volume = -4x dB (default 0 dB <-> 0), clock speed = x + 2 ticks/s (default 120/min <-> 0)
fn db_of(x: f64) -> Decibels {
	Decibels((-4.0 * x) as f32)
}
fn speed_of(x: f64) -> ClockSpeed {
	ClockSpeed::TicksPerSecond(x + 2.0)
}

enum ModH {
	Probe { finished: Arc<AtomicBool>, src: Arc<Mutex<Option<(u32, ModulatorId)>>> },
	Tw(Option<TweenerHandle>),
	Lfo(Option<LfoHandle>),
}

struct ParamH {
	real: String,
	ch: char,
	prev_time: f64,
	_keep: Vec<Box<dyn std::any::Any>>,
}

fn dc_sound(ch: char) -> StaticSoundData {
	let f = if ch == 'L' { Frame::new(DC, 0.0) } else { Frame::new(0.0, DC) };
	StaticSoundData {
		sample_rate: RATE,
		frames: (0..16).map(|_| f).collect::<Vec<_>>().into(),
		settings: StaticSoundSettings::new().loop_region(..),
		slice: None,
	}
}

fn run(sc: &J, t: &mut Tracer) {
	let loose = sc["mode"].as_str().unwrap_or("exact") == "loose";
	let c = Ctx { scale_in: if loose { sc["den"].as_f64().unwrap_or(1000.0) } else { SOUT } };
	let buf = sc["buf"].as_u64().unwrap_or(4) as usize;
	let cap = sc["cap"].as_u64().unwrap_or(4) as usize;
	let steps = sc["steps"].as_array().expect("steps");
	let km = steps.iter().filter(|s| s["a"] == "add").map(|s| s["m"].as_u64().unwrap_or(0)).max().unwrap_or(0) as usize;
	let kp = steps.iter().filter(|s| s["a"] == "link").map(|s| s["p"].as_u64().unwrap_or(0)).max().unwrap_or(0) as usize;
	let sh: Sh = Arc::new(Mutex::new(Shared { mods: vec![None; km], ..Default::default() }));
	let mut sim = Sim::new(
		Capacities { modulator_capacity: cap, ..Capacities::default() },
		MainTrackBuilder::new().with_built_effect(Box::new(Watcher { sh: sh.clone() })),
		buf,
		RATE,
	);
	t.reset(json!({"buf": buf, "cap": cap, "S": SOUT as i64, "tol": if loose { sc["tol"].as_i64().unwrap_or(8) } else { 0 },
		"km": km, "kp": kp, "mode": if loose { "loose" } else { "exact" }, "src": sc["src"],
		"late": sc["late"].as_bool().unwrap_or(false)}));
	let mut mods: HashMap<u32, ModH> = HashMap::new();
	let mut params: HashMap<u32, ParamH> = HashMap::new();
	let mut tracks: Vec<TrackHandle> = Vec::new();
	let mut clocks: Vec<ClockHandle> = Vec::new();
	let id_of = |sh: &Sh, m: u32| -> Option<ModulatorId> {
		if m == 0 { None } else { sh.lock().unwrap().mods.get(m as usize - 1).copied().flatten() }
	};
	for step in steps {
		let a = step["a"].as_str().unwrap_or("");
		let r = guarded(|| match a {
			"add" => {
				let m = step["m"].as_u64().unwrap() as u32;
				let kind = step["kind"].as_str().unwrap();
				let v0 = c.num(&step["v0"]);
				let (fr, am, of) = (parse_vs(&c, &step["fr"]), parse_vs(&c, &step["am"]), parse_vs(&c, &step["of"]));
				let mut ev = json!({"a": "add", "m": m, "kind": kind, "v0": proj(v0), "step": proj(c.num(&step["step"])),
					"src": step["src"].as_u64().unwrap_or(0), "wave": step["wave"].as_str().unwrap_or("saw"),
					"width": proj(c.num(&step["width"])), "ph0": proj(c.num(&step["ph0"])),
					"fr": vs_json(&fr, &step["fr"]), "am": vs_json(&am, &step["am"]), "of": vs_json(&of, &step["of"])});
				let ok = match kind {
					"probe" => {
						let j = step["src"].as_u64().unwrap_or(0) as u32;
						let src = Arc::new(Mutex::new(if j != 0 && j != m { id_of(&sh, j).map(|id| (j, id)) } else { None }));
						if j != 0 && j != m && src.lock().unwrap().is_none() {
							return None;
						}
						let finished = Arc::new(AtomicBool::new(false));
						let pm = ProbeMod { item: m, value: v0, step: c.num(&step["step"]), src: src.clone(), finished: finished.clone(), sh: sh.clone() };
						match sim.manager.add_modulator(ProbeModBuilder(pm, j == m)) {
							Ok(id) => {
								sh.lock().unwrap().mods[m as usize - 1] = Some(id);
								mods.insert(m, ModH::Probe { finished, src });
								true
							}
							Err(_) => false,
						}
					}
					"tw" => match sim.manager.add_modulator(TweenerBuilder { initial_value: v0 }) {
						Ok(h) => {
							sh.lock().unwrap().mods[m as usize - 1] = Some(h.id());
							mods.insert(m, ModH::Tw(Some(h)));
							true
						}
						Err(_) => false,
					},
					"lfo" => {
						let wave = match step["wave"].as_str().unwrap_or("saw") {
							"saw" => Waveform::Saw,
							"tri" => Waveform::Triangle,
							"pulse" => Waveform::Pulse { width: c.num(&step["width"]) },
							_ => Waveform::Sine,
						};
						let vals: Vec<Option<KValue<f64>>> = [&fr, &am, &of].iter().map(|v| value_f64(v, id_of(&sh, v.m))).collect();
						if vals.iter().any(|v| v.is_none()) {
							return None;
						}
						let b = LfoBuilder::new()
							.waveform(wave)
							.frequency(vals[0].unwrap())
							.amplitude(vals[1].unwrap())
							.offset(vals[2].unwrap())
							.starting_phase(c.num(&step["ph0"]) * std::f64::consts::TAU);
						match sim.manager.add_modulator(b) {
							Ok(h) => {
								sh.lock().unwrap().mods[m as usize - 1] = Some(h.id());
								mods.insert(m, ModH::Lfo(Some(h)));
								true
							}
							Err(_) => false,
						}
					}
					k => panic!("unknown kind {k}"),
				};
				ev["ok"] = json!(ok);
				Some(ev)
			}
			"drop" => {
				let m = step["m"].as_u64().unwrap() as u32;
				match mods.get_mut(&m) {
					Some(ModH::Probe { finished, .. }) if !finished.load(Ordering::SeqCst) => finished.store(true, Ordering::SeqCst),
					Some(ModH::Tw(h)) if h.is_some() => drop(h.take()),
					Some(ModH::Lfo(h)) if h.is_some() => drop(h.take()),
					_ => return None,
				}
				Some(json!({"a": "drop", "m": m}))
			}
			"set" => {
				let m = step["m"].as_u64().unwrap() as u32;
				let (tgt, dur, delay) = (c.num(&step["tgt"]), step["dur"].as_i64().unwrap_or(0), step["delay"].as_i64().unwrap_or(0));
				let sk = step["sk"].as_str().unwrap_or("imm");
				let (ease, p) = (step["ease"].as_str().unwrap_or("lin"), step["p"].as_i64().unwrap_or(1));
				let Some(ModH::Tw(Some(h))) = mods.get_mut(&m) else { return None };
				h.set(
					tgt,
					Tween {
						start_time: if sk == "del" { StartTime::Delayed(Duration::from_secs_f64(delay as f64 / RATE as f64)) } else { StartTime::Immediate },
						duration: Duration::from_secs_f64(dur as f64 / RATE as f64),
						easing: easing_of(ease, p),
					},
				);
				Some(json!({"a": "set", "m": m, "tgt": proj(tgt), "dur": dur, "ease": ease, "p": p, "sk": sk, "delay": delay, "ctgt": 0}))
			}
			"relink" => {
				let m = step["m"].as_u64().unwrap() as u32;
				let role = step["role"].as_str().unwrap();
				let vs = parse_vs(&c, &step["vs"]);
				let now = Tween { start_time: StartTime::Immediate, duration: Duration::ZERO, easing: Easing::Linear };
				match mods.get_mut(&m) {
					Some(ModH::Lfo(Some(h))) => {
						let v = value_f64(&vs, id_of(&sh, vs.m))?;
						match role {
							"fr" => h.set_frequency(v, now),
							"am" => h.set_amplitude(v, now),
							"of" => h.set_offset(v, now),
							r => panic!("unknown role {r}"),
						}
					}
					Some(ModH::Probe { finished, src }) if !finished.load(Ordering::SeqCst) => {
						*src.lock().unwrap() = Some((vs.m, id_of(&sh, vs.m)?));
					}
					_ => return None,
				}
				Some(json!({"a": "relink", "m": m, "role": role, "vs": vs_json(&vs, &step["vs"])}))
			}
			"link" => {
				let q = step["p"].as_u64().unwrap() as u32;
				let own = step["own"].as_str().unwrap_or("mix");
				let real = if own == "clock" { "clock" } else { step["real"].as_str().unwrap_or("psound") };
				let ch = if step["ch"].as_str() == Some("R") { 'R' } else { 'L' };
				let vs = parse_vs(&c, &step["vs"]);
				let id = id_of(&sh, vs.m)?;
				let mut keep: Vec<Box<dyn std::any::Any>> = Vec::new();
				let db = KValue::FromModulator { id, mapping: Mapping { input_range: vs.i, output_range: (db_of(vs.o.0), db_of(vs.o.1)), easing: vs.easing } };
				match real {
					"psound" => {
						let p = Parameter::new(value_f64(&vs, Some(id)).unwrap(), 0.0);
						sim.manager.play(ParamSoundData(ParamSound { q, m: vs.m, id, param: p, sh: sh.clone() })).unwrap();
					}
					"sound" => {
						let mut d = dc_sound(ch);
						d.settings = d.settings.volume(db);
						keep.push(Box::new(sim.manager.play(d).unwrap()));
					}
					"track" => {
						let mut tr = sim.manager.add_sub_track(TrackBuilder::new().volume(db)).unwrap();
						keep.push(Box::new(tr.play(dc_sound(ch)).unwrap()));
						tracks.push(tr);
					}
					"effect" => {
						let mut tr = sim.manager.add_sub_track(TrackBuilder::new().with_effect(VolumeControlBuilder::new(db))).unwrap();
						keep.push(Box::new(tr.play(dc_sound(ch)).unwrap()));
						tracks.push(tr);
					}
					"clock" => {
						let sp = KValue::FromModulator { id, mapping: Mapping { input_range: vs.i, output_range: (speed_of(vs.o.0), speed_of(vs.o.1)), easing: vs.easing } };
						let mut h = sim.manager.add_clock(sp).unwrap();
						h.start();
						sh.lock().unwrap().clocks.push((q, h.id()));
						clocks.push(h);
					}
					r => panic!("unknown owner {r}"),
				}
				params.insert(q, ParamH { real: real.to_string(), ch, prev_time: 0.0, _keep: keep });
				Some(json!({"a": "link", "p": q, "own": own, "real": real, "vs": vs_json(&vs, &step["vs"]),
					"dk": real == "psound", "dflt": 0}))
			}
			"cb" => {
				let frames = step["frames"].as_u64().unwrap() as usize;
				let res = sim.callback(frames);
				if let Some(msg) = res.panicked {
					return Some(json!({"a": "panic", "in": "callback", "msg": msg}));
				}
				let chunks = std::mem::take(&mut sh.lock().unwrap().chunks);
				let mut evs = vec![json!({"a": "cb", "frames": frames})];
				for ch in chunks {
					let log: Vec<J> = ch
						.log
						.iter()
						.map(|e| match e {
							Entry::U { m, d, v } => json!({"k": "U", "rk": "m", "x": m, "m": m, "ok": true, "v": proj(*v), "d": d}),
							Entry::R { rk, x, m, ok, v } => json!({"k": "R", "rk": rk, "x": x, "m": m, "ok": ok, "v": proj(*v), "d": 0}),
						})
						.collect();
					let mv: Vec<J> = ch.mv.iter().map(|v| json!({"p": v.is_some(), "v": proj(v.unwrap_or(0.0))})).collect();
					let mut pv = vec![json!({"p": false, "v": 0}); kp];
					for (q, ph) in params.iter_mut() {
						let o = match ph.real.as_str() {
							"psound" => ch.pvals.iter().find(|(x, _)| x == q).map(|(_, v)| *v),
							"clock" => ch.clocks.iter().find(|(x, _)| x == q).and_then(|(_, tm)| *tm).map(|tm| {
								let sp = (tm - ph.prev_time) * RATE as f64 / ch.n as f64;
								ph.prev_time = tm;
								sp - 2.0
							}),
							_ => {
								let g = if ph.ch == 'L' { ch.out.0 } else { ch.out.1 } / DC;
								if g > 0.0 && g.is_finite() { Some(-(20.0 * (g as f64).log10()) / 4.0) } else { None }
							}
						};
						if let Some(x) = o {
							pv[*q as usize - 1] = json!({"p": true, "v": proj(x)});
						}
					}
					evs.push(json!({"a": "chunk", "n": ch.n, "log": log, "mv": mv, "pv": pv}));
				}
				Some(J::Array(evs))
			}
			"chunk" | "tau" | "init" => None,
			other => panic!("unknown step {other}"),
		});
		match r {
			Ok(Some(J::Array(evs))) => {
				for e in evs {
					t.ev(e);
				}
			}
			Ok(Some(e)) => {
				let stop = e["a"] == "panic";
				t.ev(e);
				if stop {
					break;
				}
			}
			Ok(None) => {}
			Err(msg) => {
				t.ev(json!({"a": "panic", "in": a, "msg": msg}));
				break;
			}
		}
	}
	t.ev(json!({"a": "end"}));
	drop(tracks);
	drop(clocks);
}

/// a sound that notes, every time it is processed, whether the modulator it is linked to can be found
struct LinkProbe {
	id: ModulatorId,
	seen: Arc<Mutex<Vec<bool>>>,
}
impl Sound for LinkProbe {
	fn process(&mut self, out: &mut [Frame], _dt: f64, info: &Info) {
		let found = info.modulator_value(self.id).is_some();
		let seen = &self.seen;
		unarmed(|| seen.lock().unwrap().push(found));
		out.fill(Frame::ZERO);
	}
	fn finished(&self) -> bool {
		false
	}
}
struct LinkProbeData(LinkProbe);
impl SoundData for LinkProbeData {
	type Error = ();
	type Handle = ();
	fn into_sound(self) -> Result<(Box<dyn Sound>, ()), ()> {
		Ok((Box::new(self.0), ()))
	}
}

/// mode "pickup" (PickUpOrder.tla): the audio thread is stopped before the n-th drain of a ring of new resources within one
/// callback; the gameplay thread then creates a modulator and something that reads it; the callback goes on.  Whenever
/// the dependent is processed, its modulator has to be there.
///   {"mode":"pickup","n":N,"dep":"sound"|"tsound"|"clock"}
fn run_pickup(sc: &J, t: &mut Tracer) {
	use kira::{backend::Renderer, AudioManager, AudioManagerSettings};
	let n = sc["n"].as_u64().unwrap();
	let dep = sc["dep"].as_str().unwrap();
	t.reset(json!({"mode": "pickup", "n": n, "dep": dep, "buf": 4, "S": 4096, "tol": 0, "src": sc["src"]}));
	let mut manager = AudioManager::<VBackend>::new(AudioManagerSettings {
		capacities: Capacities::default(),
		main_track_builder: MainTrackBuilder::new(),
		internal_buffer_size: 4,
		backend_settings: VSettings { sample_rate: RATE },
	})
	.unwrap();
	let mut renderer = manager.backend_mut().renderer.take().unwrap();
	// a sub-track that is already there (its own rings are drained within the mixer's turn)
	let mut sub = manager.add_sub_track(TrackBuilder::new()).unwrap();
	let _ = run_callback(&mut renderer, 4, 2);
	let (tx, rx) = std::sync::mpsc::channel::<Renderer>();
	tx.send(renderer).unwrap();
	let aw: Worker<Renderer> = Worker::spawn("audio", move || rx.recv().unwrap());
	aw.start(&["sto.refill"], |r| {
		let res = run_callback(r, 4, 2);
		json!({"panicked": res.panicked.is_some()})
	});
	// stop before the n-th drain (a callback without new resources passes one yield point per ring)
	let mut st = aw.wait();
	let mut passed = 1;
	while passed < n && matches!(st, Status::Parked(_)) {
		st = aw.resume();
		passed += 1;
	}
	let parked = matches!(st, Status::Parked(_));
	// gameplay thread: the modulator first (its id is needed), then what reads it
	let tweener = manager.add_modulator(TweenerBuilder { initial_value: 1.0 }).unwrap();
	let seen: Arc<Mutex<Vec<bool>>> = Default::default();
	let mut clock = None;
	match dep {
		"sound" => manager.play(LinkProbeData(LinkProbe { id: tweener.id(), seen: seen.clone() })).unwrap(),
		"tsound" => sub.play(LinkProbeData(LinkProbe { id: tweener.id(), seen: seen.clone() })).unwrap(),
		_ => {
			// a clock whose speed follows the modulator: 4 ticks per second at value 1 (2, the default, if it is not found)
			let mut c = manager
				.add_clock(KValue::FromModulator {
					id: tweener.id(),
					mapping: Mapping {
						input_range: (0.0, 1.0),
						output_range: (ClockSpeed::TicksPerSecond(2.0), ClockSpeed::TicksPerSecond(4.0)),
						easing: Easing::Linear,
					},
				})
				.unwrap();
			c.start();
			clock = Some(c);
		}
	}
	aw.ctl.set_sites(&[]);
	let mut panicked = !matches!(aw.finish(), Status::Done(_));
	let units = |c: &ClockHandle| {
		let ct = c.time();
		ct.ticks as i64 * 4 + (ct.fraction * 4.0).round() as i64
	};
	let mut last = clock.as_ref().map(units).unwrap_or(0);
	let mut steps = vec![];
	for _ in 0..4 {
		match aw.call(|r| {
			let res = run_callback(r, 4, 2);
			json!({"panicked": res.panicked.is_some()})
		}) {
			Status::Done(v) => panicked |= v["panicked"].as_bool().unwrap_or(false),
			_ => panicked = true,
		}
		if let Some(c) = clock.as_ref() {
			let now = units(c);
			steps.push(now - last);
			last = now;
		}
	}
	// the clock runs at 4 ticks per second = 2 ticks (8 units) per buffer of half a second whenever it runs
	let seen_v: Vec<bool> = if clock.is_some() { steps.iter().filter(|s| **s != 0).map(|s| *s == 8).collect() } else { seen.lock().unwrap().clone() };
	if panicked {
		t.ev(json!({"a": "panic", "who": "audio"}));
	}
	t.ev(json!({"a": "pick", "parked": parked, "seen": seen_v, "steps": steps}));
	t.ev(json!({"a": "end"}));
	drop(tweener);
	drop(sub);
	aw.shutdown();
}

fn main() {
	let args: Vec<String> = std::env::args().collect();
	let inp = arg(&args, "--in").expect("--in");
	let out = arg(&args, "--out").expect("--out");
	quiet_panics();
	install_hook();
	let mut t = Tracer::create(&out);
	for sc in read_scenarios(&inp) {
		if sc["mode"] == "pickup" {
			run_pickup(&sc, &mut t);
			continue;
		}
		run(&sc, &mut t);
	}
	t.flush();
	println!("sessions={} events={}", t.session, t.events);
}
