//! C15 driver: spatial tracks on the real library (public API only).
//!
//! Every scenario (one JSON object per line) becomes one session of the trace: a `reset` event
//! with the session's constants, then one event per executed step.  The driver only executes and
//! observes; every judgement is left to TLC (T_C15.tla / P_C15.tla).
//!
//! {"kind":"life","nl":NL,"ml":ML,"nt":NT,"steps":[ev..]}      listener life cycle (events of Spatial.tla)
//!    add_listener l d | drop_listener l | move_listener l d | add_track t b par x | add_child t k | cb
//!    Scene: listener x at (d,0,0); spatial track t at (x,0,0), distances (4, 8), linear attenuation,
//!    strength 0; every track carries a probe sound (id t; depth-k descendant: k*nt+t) emitting DC
//!    2^-id on both channels and owning a `Parameter<f64>` with `Value::FromListenerDistance`
//!    (1:1 mapping on [0,16], default 15).  b = 0 binds the track to the id of a listener of
//!    another manager (same capacity, slot 1, generation 9).  One callback = one chunk of 4 frames.
//! {"kind":"geo","q":Q,"min":f,"max":f,"att":bool,"ease":k,"s":S,"minc","maxc","tol","side":bool,"obs":[..]}
//!    one listener, one spatial track, DC source (mono 0.5; stereo (0.5, 0.25) when S = 0);
//!    obs: {"l":[3],"e":[3],"R":[9],"rel":r,"M":[9],"t":[3]}  coordinates are integers / Q, R the
//!         listener's rotation matrix (row major); two callbacks after the move, the second is observed
//!         {"xf":{"l":[f;3],"e":[f;3],"R":[9]}}  arbitrary finite f32 coordinates: only panic/finite

use std::{
	sync::{
		atomic::{AtomicBool, AtomicI64, AtomicU64, Ordering},
		Arc,
	},
	time::Duration,
};

use glam::{Mat3, Quat, Vec3};
use kira::{
	info::Info,
	listener::{ListenerHandle, ListenerId},
	sound::{Sound, SoundData},
	track::{MainTrackBuilder, SpatialTrackBuilder, SpatialTrackHandle, TrackBuilder, TrackHandle},
	Capacities, Decibels, Easing, Frame, Mapping, Parameter, Tween, Value as KValue,
};
use kv::{common::*, scene::*};
use serde_json::{json, Value};

const DFLT: f64 = 15.0;

// ---------------------------------------------------------------- probe sound

#[derive(Default)]
struct ProbeStats {
	runs: AtomicU64,
	has: AtomicBool,
	dv: AtomicI64,
	/// a second parameter: listener distance mapped from [0, 1] onto [0, 1] with a curved easing (OutPowi(2)) - beyond
	/// the input range it must sit at the end of the output range
	dv2: AtomicI64,
}

struct Probe {
	frame: Frame,
	param: Parameter<f64>,
	param2: Parameter<f64>,
	stats: Arc<ProbeStats>,
}

struct ProbeData {
	frame: Frame,
	stats: Arc<ProbeStats>,
}

impl SoundData for ProbeData {
	type Error = ();
	type Handle = ();
	fn into_sound(self) -> Result<(Box<dyn Sound>, ()), ()> {
		let param = Parameter::new(
			KValue::FromListenerDistance(Mapping {
				input_range: (0.0, 16.0),
				output_range: (0.0, 16.0),
				easing: Easing::Linear,
			}),
			DFLT,
		);
		self.stats.dv.store((DFLT * 1000.0) as i64, Ordering::SeqCst);
		Ok((
			Box::new(Probe {
				frame: self.frame,
				param2: Parameter::new(
					KValue::FromListenerDistance(Mapping { input_range: (0.0, 1.0), output_range: (0.0, 1.0), easing: Easing::OutPowi(2) }),
					0.5,
				),
				param,
				stats: self.stats,
			}),
			(),
		))
	}
}

impl Sound for Probe {
	fn process(&mut self, out: &mut [Frame], dt: f64, info: &Info) {
		self.param.update(dt * out.len() as f64, info);
		self.stats.runs.fetch_add(1, Ordering::SeqCst);
		self.stats.has.store(info.listener_distance().is_some(), Ordering::SeqCst);
		let v = self.param.value() * 1000.0;
		let dv = if v.is_finite() { v.round().clamp(-2.0e9, 2.0e9) as i64 } else { -2_000_000_000 };
		self.stats.dv.store(dv, Ordering::SeqCst);
		self.param2.update(dt * out.len() as f64, info);
		let v2 = self.param2.value() * 1000.0;
		self.stats.dv2.store(if v2.is_finite() { v2.round().clamp(-2.0e9, 2.0e9) as i64 } else { -2_000_000_000 }, Ordering::SeqCst);
		out.fill(self.frame);
	}
	fn finished(&self) -> bool {
		false
	}
}

fn instant() -> Tween {
	Tween {
		duration: Duration::ZERO,
		..Default::default()
	}
}

// ---------------------------------------------------------------- life cycle

/// an id that never named a listener of the session's manager: slot 1 (index 0) of another
/// manager of the same capacity, nine generations on
fn foreign_id(nl: usize) -> ListenerId {
	let mut donor = Sim::new(
		Capacities {
			listener_capacity: nl,
			..Default::default()
		},
		MainTrackBuilder::new(),
		NF,
		RATE,
	);
	for _ in 0..9 {
		let h = donor.manager.add_listener(Vec3::ZERO, Quat::IDENTITY).unwrap();
		drop(h);
		donor.callback(NF);
		donor.callback(NF);
	}
	let h = donor.manager.add_listener(Vec3::ZERO, Quat::IDENTITY).unwrap();
	h.id()
}

enum AnyTrack {
	Spatial(SpatialTrackHandle),
	Plain(TrackHandle),
}

fn life_session(sc: &Value, tr: &mut Tracer) {
	let nl = sc["nl"].as_u64().unwrap_or(2) as usize;
	let ml = sc["ml"].as_u64().unwrap_or(3) as usize;
	let nt = sc["nt"].as_u64().unwrap_or(2) as usize;
	tr.reset(json!({"kind": "life", "nl": nl, "ml": ml, "nt": nt, "dflt": (DFLT * 1000.0) as i64}));
	let foreign = foreign_id(nl);
	let mut sim = Sim::new(
		Capacities {
			listener_capacity: nl,
			..Default::default()
		},
		MainTrackBuilder::new(),
		NF,
		RATE,
	);
	let mut handles: Vec<Option<ListenerHandle>> = (0..=ml).map(|_| None).collect();
	let mut ids: Vec<Option<ListenerId>> = vec![None; ml + 1];
	// tracks[id]: the track that carries probe `id`
	let mut tracks: Vec<Option<AnyTrack>> = (0..=3 * nt).map(|_| None).collect();
	let mut probes: Vec<Option<Arc<ProbeStats>>> = vec![None; 3 * nt + 1];
	let nbits = 3 * nt as i32;
	let scale = 2f64.powi(nbits);

	for st in sc["steps"].as_array().unwrap() {
		let a = st["a"].as_str().unwrap_or("");
		let geti = |k: &str| st[k].as_i64().unwrap_or(0);
		match a {
			"add_listener" => {
				let (l, d) = (geti("l") as usize, geti("d"));
				let r = guarded(|| sim.manager.add_listener(Vec3::new(d as f32, 0.0, 0.0), Quat::IDENTITY));
				match r {
					Ok(Ok(h)) => {
						ids[l] = Some(h.id());
						handles[l] = Some(h);
						tr.ev(json!({"a": a, "l": l, "d": d, "ok": true}));
					}
					Ok(Err(_)) => tr.ev(json!({"a": a, "l": l, "d": d, "ok": false})),
					Err(msg) => {
						tr.ev(json!({"a": "cb", "p": true, "msg": msg, "fin": true, "dec": true, "z": true, "pr": []}));
						break;
					}
				}
			}
			"drop_listener" => {
				let l = geti("l") as usize;
				if handles[l].take().is_none() {
					tr.ev(json!({"a": "end", "why": "no handle to drop", "l": l}));
					break;
				}
				tr.ev(json!({"a": a, "l": l}));
			}
			"move_listener" => {
				let (l, d) = (geti("l") as usize, geti("d"));
				let Some(h) = handles[l].as_mut() else {
					tr.ev(json!({"a": "end", "why": "no handle to move", "l": l}));
					break;
				};
				h.set_position(Vec3::new(d as f32, 0.0, 0.0), instant());
				tr.ev(json!({"a": a, "l": l, "d": d}));
			}
			"add_track" => {
				let (t, b, par, x) = (geti("t") as usize, geti("b") as usize, geti("par") as usize, geti("x"));
				let id = if b == 0 { Some(foreign) } else { ids[b] };
				let Some(id) = id else {
					tr.ev(json!({"a": "end", "why": "no such listener id", "b": b}));
					break;
				};
				let builder = SpatialTrackBuilder::new()
					.distances((4.0, 8.0))
					.attenuation_function(Easing::Linear)
					.spatialization_strength(0.0);
				let pos = Vec3::new(x as f32, 0.0, 0.0);
				let r = if par == 0 {
					sim.manager.add_spatial_sub_track(id, pos, builder)
				} else {
					match tracks[par].as_mut() {
						Some(AnyTrack::Spatial(p)) => p.add_spatial_sub_track(id, pos, builder),
						_ => {
							tr.ev(json!({"a": "end", "why": "no parent track", "par": par}));
							break;
						}
					}
				};
				let mut ok = false;
				if let Ok(mut h) = r {
					let stats: Arc<ProbeStats> = Default::default();
					ok = h
						.play(ProbeData {
							frame: Frame::from_mono(2f32.powi(-(t as i32))),
							stats: stats.clone(),
						})
						.is_ok();
					probes[t] = Some(stats);
					tracks[t] = Some(AnyTrack::Spatial(h));
				}
				tr.ev(json!({"a": a, "t": t, "b": b, "par": par, "x": x, "ok": ok}));
			}
			"add_child" => {
				let (t, k) = (geti("t") as usize, geti("k") as usize);
				let (pid, id) = ((k - 1) * nt + t, k * nt + t);
				let r = match tracks[pid].as_mut() {
					Some(AnyTrack::Spatial(p)) => p.add_sub_track(TrackBuilder::new()),
					Some(AnyTrack::Plain(p)) => p.add_sub_track(TrackBuilder::new()),
					None => {
						tr.ev(json!({"a": "end", "why": "no parent track", "t": t, "k": k}));
						break;
					}
				};
				let mut ok = false;
				if let Ok(mut h) = r {
					let stats: Arc<ProbeStats> = Default::default();
					ok = h
						.play(ProbeData {
							frame: Frame::from_mono(2f32.powi(-(id as i32))),
							stats: stats.clone(),
						})
						.is_ok();
					probes[id] = Some(stats);
					tracks[id] = Some(AnyTrack::Plain(h));
				}
				tr.ev(json!({"a": a, "t": t, "k": k, "ok": ok}));
			}
			"cb" => {
				let before: Vec<u64> = probes
					.iter()
					.map(|p| p.as_ref().map(|s| s.runs.load(Ordering::SeqCst)).unwrap_or(0))
					.collect();
				let r = sim.callback(NF);
				let fin = r.out.iter().all(|s| s.is_finite());
				let z = r.out.iter().all(|s| *s == 0.0);
				// level = sum of 2^-id over the heard probes, the same in every sample
				let mut dec = fin;
				let mut all_bits: i64 = -1;
				let mut any_bits: i64 = 0;
				for s in r.out.iter() {
					let v = *s as f64 * scale;
					let n = v.round();
					if !(v.is_finite() && (v - n).abs() <= 1e-3 && n >= 0.0 && n < scale) {
						dec = false;
						continue;
					}
					all_bits &= n as i64;
					any_bits |= n as i64;
				}
				if all_bits != any_bits {
					dec = false; // not the same level in every sample
				}
				let mut pr = vec![];
				for (id, p) in probes.iter().enumerate() {
					if let Some(s) = p {
						let bit = 1i64 << (nbits - id as i32);
						pr.push(json!({
							"id": id,
							"h": any_bits & bit != 0,
							"has": s.has.load(Ordering::SeqCst),
							"dv": s.dv.load(Ordering::SeqCst),
							"dv2": s.dv2.load(Ordering::SeqCst),
							"runs": s.runs.load(Ordering::SeqCst) - before[id],
						}));
					}
				}
				tr.ev(json!({"a": "cb", "p": r.panicked.is_some(), "msg": r.panicked.clone().unwrap_or_default(),
					"fin": fin, "dec": dec, "z": z, "pr": pr, "m": r.monitor(2)}));
				if r.panicked.is_some() {
					break;
				}
			}
			_ => {}
		}
	}
	tr.ev(json!({"a": "end"}));
}

// ---------------------------------------------------------------- geometry

fn ivec(v: &Value) -> Vec<i64> {
	v.as_array().map(|a| a.iter().map(|x| x.as_i64().unwrap_or(0)).collect()).unwrap_or_default()
}

fn fvec(v: &Value) -> Vec<f32> {
	v.as_array().map(|a| a.iter().map(|x| x.as_f64().unwrap_or(0.0) as f32).collect()).unwrap_or_default()
}

/// rotation matrix (row major, entries -1/0/1) -> unit quaternion; checked against the matrix
fn quat_of(r: &[i64]) -> Quat {
	let col = |j: usize| Vec3::new(r[j] as f32, r[3 + j] as f32, r[6 + j] as f32);
	let q = Quat::from_mat3(&Mat3::from_cols(col(0), col(1), col(2))).normalize();
	for (j, axis) in [Vec3::X, Vec3::Y, Vec3::Z].into_iter().enumerate() {
		let d = (q * axis - col(j)).length();
		assert!(d < 1e-5, "quaternion does not reproduce the rotation matrix {:?}", r);
	}
	q
}

fn gain6(out: f32, input: f32) -> i64 {
	let g = out as f64 / input as f64 * 1.0e6;
	if g.is_finite() {
		g.round().clamp(-2.0e9, 2.0e9) as i64
	} else {
		-2_000_000_000
	}
}

/// a distance mapping installed through the handle: set_volume(FromListenerDistance(..), tween), then the emitter moves
fn vmap_session(sc: &Value, tr: &mut Tracer) {
	let d = sc["d"].as_u64().unwrap_or(0);
	let (x1, x2) = (sc["x1"].as_i64().unwrap(), sc["x2"].as_i64().unwrap());
	tr.reset(json!({"kind": "vmap", "d": d, "cls": "vmap"}));
	let input = Frame::new(0.5, 0.25);
	let mut sim = Sim::basic();
	let listener = sim.manager.add_listener(Vec3::ZERO, Quat::IDENTITY).unwrap();
	let builder = SpatialTrackBuilder::new().attenuation_function(None).spatialization_strength(0.0);
	let mut track = sim.manager.add_spatial_sub_track(listener.id(), Vec3::new(x1 as f32, 0.0, 0.0), builder).unwrap();
	let stats: Arc<ProbeStats> = Default::default();
	track.play(ProbeData { frame: input, stats }).unwrap();
	sim.callback(NF);
	track.set_volume(
		KValue::FromListenerDistance(Mapping { input_range: (0.0, 16.0), output_range: (Decibels(0.0), Decibels(-16.0)), easing: Easing::Linear }),
		Tween { start_time: kira::StartTime::Immediate, duration: chunks(d), easing: Easing::Linear },
	);
	let mut p = false;
	for _ in 0..(d + 3) {
		p |= sim.callback(NF).panicked.is_some();
	}
	let r = sim.callback(NF);
	p |= r.panicked.is_some();
	tr.ev(json!({"a": "vm", "x": x1, "g": gain6(*r.out.get(0).unwrap_or(&0.0), input.left), "p": p}));
	track.set_position(Vec3::new(x2 as f32, 0.0, 0.0), instant());
	for _ in 0..2 {
		p |= sim.callback(NF).panicked.is_some();
	}
	let r = sim.callback(NF);
	p |= r.panicked.is_some();
	tr.ev(json!({"a": "vm", "x": x2, "g": gain6(*r.out.get(0).unwrap_or(&0.0), input.left), "p": p}));
	tr.ev(json!({"a": "end"}));
	drop(listener);
}

/// a rigid motion under way: listener and emitter glide by the same translation with the same tween - started at once
/// or at a tick of a clock - and every frame rendered meanwhile is compared with the level before the motion
///   {"kind":"glide","sk":"imm"|"clk","w":tick,"d":buffers,"t":[x,y,z],"e":[x,y,z],"st":strength*1000}
fn glide_session(sc: &Value, tr: &mut Tracer) {
	let sk = sc["sk"].as_str().unwrap_or("imm");
	let (w, d) = (sc["w"].as_u64().unwrap_or(1), sc["d"].as_u64().unwrap_or(2));
	let tv = fvec(&sc["t"]);
	let ev = fvec(&sc["e"]);
	let st = sc["st"].as_i64().unwrap_or(750);
	tr.reset(json!({"kind": "glide", "cls": "glide", "sk": sk, "w": w, "d": d, "tol": 60}));
	let input = Frame::from_mono(0.5);
	let e0 = Vec3::new(ev[0], ev[1], ev[2]);
	let build = |sim: &mut Sim| {
		let listener = sim.manager.add_listener(Vec3::ZERO, Quat::IDENTITY).unwrap();
		let builder = SpatialTrackBuilder::new().distances((1.0, 12.0)).spatialization_strength(st as f32 / 1000.0);
		let mut track = sim.manager.add_spatial_sub_track(listener.id(), e0, builder).unwrap();
		let stats: Arc<ProbeStats> = Default::default();
		track.play(ProbeData { frame: input, stats }).unwrap();
		(listener, track)
	};
	// fresh: the motion is commanded right after listener and track were created, before their first callback; the level
	// before the motion is then taken from a second, unmoved copy of the scene
	let fresh = sc["fresh"].as_bool().unwrap_or(false);
	let mut sim = Sim::basic();
	let (mut listener, mut track) = build(&mut sim);
	// the clock ticks once per buffer
	let mut clock = sim.manager.add_clock(kira::clock::ClockSpeed::TicksPerSecond(RATE as f64 / NF as f64)).unwrap();
	let base = if fresh {
		let mut still = Sim::basic();
		let _keep = build(&mut still);
		still.callback(NF);
		still.callback(NF).out
	} else {
		sim.callback(NF);
		sim.callback(NF).out
	};
	let (bl, br) = (gain6(base[0], input.left), gain6(base[1], input.right));
	let start = if sk == "clk" {
		kira::StartTime::ClockTime(kira::clock::ClockTime { clock: clock.id(), ticks: w, fraction: 0.0 })
	} else {
		kira::StartTime::Immediate
	};
	let tw = Tween { start_time: start, duration: chunks(d), easing: Easing::Linear };
	let t3 = Vec3::new(tv[0], tv[1], tv[2]);
	listener.set_position(t3, tw);
	track.set_position(e0 + t3, tw);
	clock.start();
	for k in 0..(w + d + 3) {
		let r = sim.callback(NF);
		let p = r.panicked.is_some();
		let mut dl = 0i64;
		let mut dr = 0i64;
		for c in r.out.chunks(2) {
			dl = dl.max((gain6(c[0], input.left) - bl).abs());
			dr = dr.max((gain6(c[1], input.right) - br).abs());
		}
		tr.ev(json!({"a": "gl", "k": k, "dl": dl, "dr": dr, "p": p, "bl": bl}));
	}
	tr.ev(json!({"a": "end"}));
}

/// PickUpOrder.tla, edge mixer -> listeners: the audio thread is stopped before the n-th drain of a ring of new resources
/// within one callback; the gameplay thread adds a listener, a spatial track bound to it and a sound on that track; the
/// callback goes on.  Whenever the sound runs, its track must find the listener (otherwise the callback is silent).
///   {"kind":"pickup","n":N}
fn pickup_session(sc: &Value, tr: &mut Tracer) {
	use kira::{backend::Renderer, AudioManager, AudioManagerSettings};
	let n = sc["n"].as_u64().unwrap();
	tr.reset(json!({"kind": "pickup", "cls": "pickup", "n": n}));
	let mut manager = AudioManager::<VBackend>::new(AudioManagerSettings {
		capacities: Capacities::default(),
		main_track_builder: MainTrackBuilder::new(),
		internal_buffer_size: NF,
		backend_settings: VSettings { sample_rate: RATE },
	})
	.unwrap();
	let mut renderer = manager.backend_mut().renderer.take().unwrap();
	let _ = run_callback(&mut renderer, NF, 2);
	let (tx, rx) = std::sync::mpsc::channel::<Renderer>();
	tx.send(renderer).unwrap();
	let aw: Worker<Renderer> = Worker::spawn("audio", move || rx.recv().unwrap());
	let job = |r: &mut Renderer| {
		let res = run_callback(r, NF, 2);
		json!({"loud": res.out.iter().any(|x| *x != 0.0), "panicked": res.panicked.is_some()})
	};
	aw.start(&["sto.refill"], job);
	let mut st = aw.wait();
	let mut passed = 1;
	while passed < n && matches!(st, Status::Parked(_)) {
		st = aw.resume();
		passed += 1;
	}
	let parked = matches!(st, Status::Parked(_));
	let listener = manager.add_listener(Vec3::ZERO, Quat::IDENTITY).unwrap();
	let builder = SpatialTrackBuilder::new().attenuation_function(None).spatialization_strength(0.0);
	let mut track = manager.add_spatial_sub_track(listener.id(), Vec3::new(1.0, 0.0, 0.0), builder).unwrap();
	let stats: Arc<ProbeStats> = Default::default();
	track.play(ProbeData { frame: Frame::from_mono(0.5), stats: stats.clone() }).unwrap();
	aw.ctl.set_sites(&[]);
	let (mut ran, mut loud, mut p) = (vec![], vec![], false);
	let mut runs = 0;
	let mut look = |st: Status| {
		let r = stats.runs.load(Ordering::SeqCst);
		ran.push(r > runs);
		runs = r;
		match st {
			Status::Done(v) => {
				loud.push(v["loud"].as_bool().unwrap_or(false));
				p |= v["panicked"].as_bool().unwrap_or(false);
			}
			_ => {
				loud.push(false);
				p = true;
			}
		}
	};
	look(aw.finish());
	for _ in 0..3 {
		look(aw.call(job));
	}
	tr.ev(json!({"a": "pk", "parked": parked, "ran": ran, "loud": loud, "p": p}));
	tr.ev(json!({"a": "end"}));
	drop(track);
	drop(listener);
	aw.shutdown();
}

fn geo_session(sc: &Value, tr: &mut Tracer) {
	let q = sc["q"].as_i64().unwrap_or(1);
	let (min, max) = (sc["min"].as_f64().unwrap_or(1.0) as f32, sc["max"].as_f64().unwrap_or(4.0) as f32);
	let att = sc["att"].as_bool().unwrap_or(true);
	let s1000 = sc["s"].as_i64().unwrap_or(750);
	let ease = match sc["ease"].as_i64().unwrap_or(0) {
		1 => Easing::InPowi(2),
		2 => Easing::OutPowi(2),
		3 => Easing::InOutPowi(3),
		4 => Easing::InPowf(0.5),
		5 => Easing::OutPowf(2.5),
		_ => Easing::Linear,
	};
	tr.reset(json!({"kind": "geo", "q": q, "minc": sc["minc"].as_i64().unwrap_or(0), "maxc": sc["maxc"].as_i64().unwrap_or(0), "att": att, "st": s1000, "side": sc["side"].as_bool().unwrap_or(true),
		"tol": sc["tol"].as_i64().unwrap_or(50), "ease": sc["ease"].as_i64().unwrap_or(0),
		"cls": sc["cls"].as_str().unwrap_or("")}));
	let input = if s1000 == 0 { Frame::new(0.5, 0.25) } else { Frame::from_mono(0.5) };
	let mut sim = Sim::basic();
	let mut listener = sim.manager.add_listener(Vec3::ZERO, Quat::IDENTITY).unwrap();
	// where the strength comes from: a fixed number, or a mapping (from a modulator / from the listener distance) whose whole
	// output range is the value `sraw` - possibly outside 0..1
	let sraw = sc["sraw"].as_i64().unwrap_or(s1000) as f32 / 1000.0;
	let tweener = sim.manager.add_modulator(kira::modulator::tweener::TweenerBuilder { initial_value: 0.5 }).unwrap();
	let strength: KValue<f32> = match sc["smode"].as_str().unwrap_or("fixed") {
		"mod" => KValue::FromModulator { id: tweener.id(), mapping: Mapping { input_range: (0.0, 1.0), output_range: (sraw, sraw), easing: Easing::Linear } },
		"dist" => KValue::FromListenerDistance(Mapping { input_range: (0.0, 100.0), output_range: (sraw, sraw), easing: Easing::Linear }),
		_ => KValue::Fixed(sraw),
	};
	let builder = SpatialTrackBuilder::new()
		.distances((min, max))
		.attenuation_function(if att { Some(ease) } else { None })
		.spatialization_strength(strength);
	let mut track = sim.manager.add_spatial_sub_track(listener.id(), Vec3::new(1.0, 0.0, 0.0), builder).unwrap();
	let stats: Arc<ProbeStats> = Default::default();
	track.play(ProbeData { frame: input, stats }).unwrap();
	sim.callback(NF);

	for ob in sc["obs"].as_array().unwrap() {
		let extreme = ob.get("xf").is_some();
		let (lp, ep, rm) = if extreme {
			let x = &ob["xf"];
			let (l, e) = (fvec(&x["l"]), fvec(&x["e"]));
			(Vec3::new(l[0], l[1], l[2]), Vec3::new(e[0], e[1], e[2]), ivec(&x["R"]))
		} else {
			let (l, e) = (ivec(&ob["l"]), ivec(&ob["e"]));
			let f = |v: &Vec<i64>| Vec3::new(v[0] as f32 / q as f32, v[1] as f32 / q as f32, v[2] as f32 / q as f32);
			(f(&l), f(&e), ivec(&ob["R"]))
		};
		listener.set_position(lp, instant());
		listener.set_orientation(quat_of(&rm), instant());
		track.set_position(ep, instant());
		let r1 = sim.callback(NF); // the move lands here (positions interpolate across the chunk)
		let r2 = sim.callback(NF); // steady
		let p = r1.panicked.is_some() || r2.panicked.is_some();
		let fin1 = r1.out.iter().all(|s| s.is_finite());
		let fin = r2.out.iter().all(|s| s.is_finite());
		if extreme {
			let o = &r2.out;
			let (gl, gr) = if o.len() >= 2 && fin { (gain6(o[0], input.left), gain6(o[1], input.right)) } else { (0, 0) };
			tr.ev(json!({"a": "x", "p": p, "fin": fin, "fin1": fin1, "gl": gl, "gr": gr,
				"msg": r1.panicked.clone().or(r2.panicked.clone()).unwrap_or_default()}));
		} else {
			let o = &r2.out;
			let flat = o.len() >= 2 && o.chunks(2).all(|c| c[0].to_bits() == o[0].to_bits() && c[1].to_bits() == o[1].to_bits());
			let z = o.iter().all(|s| *s == 0.0);
			let (gl, gr) = if o.len() >= 2 { (gain6(o[0], input.left), gain6(o[1], input.right)) } else { (0, 0) };
			tr.ev(json!({"a": "o", "l": ob["l"], "e": ob["e"], "R": ob["R"], "rel": ob["rel"],
				"M": ob.get("M").cloned().unwrap_or(json!([1, 0, 0, 0, 1, 0, 0, 0, 1])),
				"t": ob.get("t").cloned().unwrap_or(json!([0, 0, 0])),
				"gl": gl, "gr": gr, "z": z, "fin": fin && fin1, "flat": flat, "p": p}));
		}
		if p {
			break;
		}
	}
	tr.ev(json!({"a": "end"}));
}

fn main() {
	let args: Vec<String> = std::env::args().collect();
	let inp = arg(&args, "--in").expect("--in");
	let outp = arg(&args, "--out").expect("--out");
	quiet_panics();
	install_hook();
	let mut tr = Tracer::create(&outp);
	for sc in read_scenarios(&inp) {
		match sc["kind"].as_str().unwrap_or("") {
			"life" => life_session(&sc, &mut tr),
			"geo" => geo_session(&sc, &mut tr),
			"vmap" => vmap_session(&sc, &mut tr),
			"glide" => glide_session(&sc, &mut tr),
			"pickup" => pickup_session(&sc, &mut tr),
			other => panic!("unknown scenario kind {other}"),
		}
	}
	tr.flush();
	println!("c15: {} sessions, {} events", tr.session, tr.events);
}
