//! C03 driver: playback life cycle of one static or streaming sound.
//!
//! Scenario: {"kind": "static"|"stream", "finite": bool, "lenc": chunks, "src": ..,
//!            "steps": [{"act":"Cmd","c":"pause|resume|resume_at|stop","d":D,"wk":"delayed|clock|noclock","wt":W}
//!                      | {"act":"Callback"}]}
//! One callback = one internal chunk of NF frames at RATE Hz; durations are whole chunks.

use std::time::Duration;

use kira::{
	clock::{ClockSpeed, ClockTime},
	sound::{
		static_sound::{StaticSoundData, StaticSoundHandle, StaticSoundSettings},
		streaming::{StreamingSoundData, StreamingSoundHandle},
		PlaybackState,
	},
	StartTime, Tween,
};
use kv::{common::*, scene::*};
use serde_json::{json, Value};

enum H {
	Static(StaticSoundHandle),
	Stream(StreamingSoundHandle<String>),
}

impl H {
	fn state(&self) -> PlaybackState {
		match self {
			H::Static(h) => h.state(),
			H::Stream(h) => h.state(),
		}
	}
	fn position(&self) -> f64 {
		match self {
			H::Static(h) => h.position(),
			H::Stream(h) => h.position(),
		}
	}
	fn pause(&mut self, t: Tween) {
		match self {
			H::Static(h) => h.pause(t),
			H::Stream(h) => h.pause(t),
		}
	}
	fn resume(&mut self, t: Tween) {
		match self {
			H::Static(h) => h.resume(t),
			H::Stream(h) => h.resume(t),
		}
	}
	fn resume_at(&mut self, s: StartTime, t: Tween) {
		match self {
			H::Static(h) => h.resume_at(s, t),
			H::Stream(h) => h.resume_at(s, t),
		}
	}
	fn stop(&mut self, t: Tween) {
		match self {
			H::Static(h) => h.stop(t),
			H::Stream(h) => h.stop(t),
		}
	}
}

/// the k-th tween of a session uses the k-th easing of this cycle (the life cycle and the shape clauses - monotone,
/// exact silence / unity at the end - hold for every built-in easing)
fn tween_k(d: u64, k: usize) -> Tween {
	use kira::Easing::*;
	Tween {
		start_time: StartTime::Immediate,
		duration: chunks(d),
		easing: [Linear, InOutPowi(3), InPowi(2), OutPowi(3), InOutPowf(1.5)][k % 5],
	}
}

fn run_scenario(sc: &Value, t: &mut Tracer) {
	let kind = sc["kind"].as_str().unwrap();
	let finite = sc["finite"].as_bool().unwrap_or(false);
	let lenc = sc["lenc"].as_u64().unwrap_or(3) as usize;
	let len = if finite { lenc * NF } else { 64 };
	let starved = kind == "starved";
	t.reset(json!({"kind": kind, "finite": finite, "len": len, "n": NF, "starved": starved, "src": sc["src"]}));
	let mut held: Option<std::sync::Arc<DecStats>> = None;
	let mut ntw = sc["e0"].as_u64().unwrap_or(0) as usize;
	let start = sc["start"].as_u64().unwrap_or(0) as usize;
	// a small frame ring (streams only): the decoder is never more than `ring` frames ahead, so a decoder thread that
	// gives up too early is heard as silence within a few callbacks (0: the production size)
	let ring = if kind == "stream" { sc["ring"].as_u64().unwrap_or(0) as usize } else { 0 };
	kira::verif::set_stream_ring_capacity(ring);
	let mut refill: Option<std::sync::Arc<DecStats>> = None;
	// the output is observed through a tap on the main track, before the renderer's clamp: a gain above unity is visible
	let tap: std::sync::Arc<std::sync::Mutex<Vec<f32>>> = Default::default();
	let mut sim = Sim::new(kira::Capacities::default(), kira::track::MainTrackBuilder::new().with_built_effect(Box::new(Tap(tap.clone()))), NF, RATE);
	// a clock ticking once per chunk, and the id of a clock that no longer exists
	let mut clock = sim.manager.add_clock(ClockSpeed::TicksPerSecond(2.0)).unwrap();
	clock.start();
	let gone = sim.manager.add_clock(ClockSpeed::TicksPerSecond(2.0)).unwrap();
	let gone_id = gone.id();
	drop(gone);
	let _ = sim.callback(NF); // warm-up: clock started (1 tick), dropped clock removed
	let _ = sim.callback(NF);
	let mut h = match guarded(|| {
		if kind == "static" {
			// start: frames from the beginning (at or beyond the end: a finite sound has nothing to play and must stop)
			let mut settings = StaticSoundSettings::new().start_position(kira::sound::PlaybackPosition::Samples(start));
			if !finite {
				settings = settings.loop_region(..);
			}
			let data = StaticSoundData {
				sample_rate: RATE,
				frames: coded_frames(len),
				settings,
				slice: None,
			};
			H::Static(sim.manager.play(data).unwrap())
		} else {
			DEC_WAITS.store(0, std::sync::atomic::Ordering::SeqCst);
			let (dec, stats) = ScriptDecoder::new(len, vec![3, 1, 2], 0, 0);
			// a starved stream: the decoder delivers `after` frames and then hangs in decode() until the session is over
			let dec = if starved { dec.with_block_after(sc["after"].as_u64().unwrap_or(0) as usize) } else { dec };
			let mut data = StreamingSoundData::from_decoder(dec).start_position(kira::sound::PlaybackPosition::Samples(start));
			if !finite {
				data = data.loop_region(..);
			}
			let h = sim.manager.play(data).unwrap();
			// the decoder keeps ahead: let it fill before playback is observed
			if starved {
				let t0 = std::time::Instant::now();
				while !stats.blocked.load(std::sync::atomic::Ordering::SeqCst) && t0.elapsed() < Duration::from_secs(5) {
					std::thread::sleep(Duration::from_micros(200));
				}
				held = Some(stats.clone());
			} else if ring > 0 {
				let t0 = std::time::Instant::now();
				while DEC_WAITS.load(std::sync::atomic::Ordering::SeqCst) < 1 && !stats.dropped.load(std::sync::atomic::Ordering::SeqCst) && t0.elapsed() < Duration::from_secs(5) {
					std::thread::sleep(Duration::from_micros(200));
				}
				refill = Some(stats.clone());
			} else if finite {
				// a finite stream is decoded completely, after which the decoder thread ends or idles
				let t0 = std::time::Instant::now();
				while !stats.dropped.load(std::sync::atomic::Ordering::SeqCst)
					&& DEC_WAITS.load(std::sync::atomic::Ordering::SeqCst) < 1
					&& t0.elapsed() < Duration::from_secs(5)
				{
					std::thread::sleep(Duration::from_micros(200));
				}
			} else {
				wait_produced(&stats, 600, Duration::from_secs(5));
			}
			H::Stream(h)
		}
	}) {
		Ok(h) => h,
		Err(m) => {
			t.ev(json!({"a": "panic", "who": "gameplay", "msg": m}));
			t.ev(json!({"a": "end"}));
			return;
		}
	};
	for step in sc["steps"].as_array().unwrap() {
		match step["act"].as_str().unwrap() {
			"Cmd" => {
				let c = step["c"].as_str().unwrap();
				let d = step["d"].as_u64().unwrap_or(0);
				let wk = step["wk"].as_str().unwrap_or("none");
				let wt = step["wt"].as_u64().unwrap_or(0);
				let r = guarded(|| match c {
					"pause" => h.pause(tween_k(d, { ntw += 1; ntw })),
					"resume" => h.resume(tween_k(d, { ntw += 1; ntw })),
					"stop" => h.stop(tween_k(d, { ntw += 1; ntw })),
					"resume_at" => {
						let st = match wk {
							"delayed" => StartTime::Delayed(chunks(wt)),
							"clock" => StartTime::ClockTime(ClockTime {
								clock: clock.id(),
								// the clock shows `callbacks` ticks now; the target is reached `wt` chunks from now
								ticks: sim.callbacks + wt,
								fraction: 0.0,
							}),
							_ => StartTime::ClockTime(ClockTime {
								clock: gone_id,
								ticks: 0,
								fraction: 0.0,
							}),
						};
						h.resume_at(st, tween_k(d, { ntw += 1; ntw }))
					}
					_ => {}
				});
				if let Err(m) = r {
					t.ev(json!({"a": "panic", "who": "gameplay", "msg": m}));
					break;
				}
				t.ev(json!({"a": "cmd", "c": c, "d": d, "wk": wk, "wt": wt}));
			}
			"Callback" => {
				tap.lock().unwrap().clear();
				let mut res = sim.callback(NF);
				{
					let tp = tap.lock().unwrap();
					if tp.len() == res.out.len() {
						res.out = tp.clone();
					}
				}
				if let Some(stats) = refill.as_ref() {
					// the decoder refills the small ring before the next callback (reports it full again), or has ended
					let w = DEC_WAITS.load(std::sync::atomic::Ordering::SeqCst);
					let t1 = std::time::Instant::now();
					while DEC_WAITS.load(std::sync::atomic::Ordering::SeqCst) <= w + 1
						&& !stats.dropped.load(std::sync::atomic::Ordering::SeqCst)
						&& t1.elapsed() < Duration::from_millis(1500)
					{
						std::thread::sleep(Duration::from_micros(100));
					}
				}
				let hd = hear(&res.out);
				let st = guarded(|| (h.state(), h.position()));
				let (state, pos) = match st {
					Ok(x) => x,
					Err(m) => {
						t.ev(json!({"a": "panic", "who": "gameplay", "msg": m}));
						break;
					}
				};
				let nsounds = sim.manager.main_track().num_sounds();
				t.ev(json!({"a": "cb", "state": state_name(state), "zero": hd.zero, "mono": hd.mono,
					"g0": hd.g0, "g1": hd.g1, "pos": (pos * RATE as f64).round() as i64,
					"nsounds": nsounds, "n": NF, "panicked": res.panicked.is_some(),
					"idx": hd.idx, "m": res.monitor(2)}));
				if res.panicked.is_some() {
					break;
				}
			}
			a => panic!("unknown act {a}"),
		}
	}
	if let Some(st) = held {
		st.release.store(true, std::sync::atomic::Ordering::SeqCst);
	}
	t.ev(json!({"a": "end"}));
}

fn main() {
	let args: Vec<String> = std::env::args().collect();
	quiet_panics();
	install_hook();
	let inp = arg(&args, "--in").expect("--in");
	let out = arg(&args, "--out").expect("--out");
	let mut t = Tracer::create(&out);
	for sc in read_scenarios(&inp) {
		run_scenario(&sc, &mut t);
	}
	t.flush();
	println!("events {}", t.events);
}
