//! C09 driver: a static and a streaming sound of the same index-coded audio, same settings, same
//! command history (no seeks), rendered side by side by two managers; the decoder is kept ahead.
//!
//! Scenario: {"cfg": {len, lo, hi, start, ls, le, rate(x256), pk, early}, "steps": [{"act":"Cmd","c":..,"d":..,"v":..}|{"act":"Callback"}]}

use std::{sync::atomic::Ordering, time::{Duration, Instant}};

use kira::{
	sound::{
		static_sound::{StaticSoundData, StaticSoundHandle, StaticSoundSettings},
		streaming::{StreamingSoundData, StreamingSoundHandle, StreamingSoundSettings},
		PlaybackPosition, Region, EndPosition,
	},
	Decibels, Panning, PlaybackRate, StartTime, Tween,
};
use kv::{common::*, scene::*};
use serde_json::{json, Value};

fn tw(d: u64) -> Tween {
	Tween { start_time: StartTime::Immediate, duration: chunks(d), easing: kira::Easing::Linear }
}

fn region(a: i64, b: i64) -> Region {
	Region {
		start: PlaybackPosition::Samples(a as usize),
		end: EndPosition::Custom(PlaybackPosition::Samples(b as usize)),
	}
}

fn bits(out: &[f32]) -> Vec<i32> {
	out.iter().map(|x| x.to_bits() as i32).collect()
}

fn run_scenario(sc: &Value, t: &mut Tracer) {
	let c = &sc["cfg"];
	let g = |k: &str| c[k].as_i64().unwrap();
	let (len, lo, hi, start, ls, le, rate, pk, early) =
		(g("len"), g("lo"), g("hi"), g("start"), g("ls"), g("le"), g("rate"), g("pk"), g("early"));
	t.reset(json!({"cfg": c, "src": sc["src"]}));
	let mut sa = Sim::basic();
	let mut sb = Sim::basic();
	let whole = lo == 0 && hi == len;
	let rate_f = rate as f64 / 256.0;
	// ---- static
	let mut st = StaticSoundSettings::new()
		.start_position(PlaybackPosition::Samples(start as usize))
		.playback_rate(PlaybackRate(rate_f));
	// open: the loop region is given as `ls..` (its end is the end of the audio - of the slice)
	let open = c["open"].as_bool().unwrap_or(false);
	let lregion = |ls: i64, le: i64| {
		if open {
			Region { start: PlaybackPosition::Samples(ls as usize), end: EndPosition::EndOfAudio }
		} else {
			region(ls, le)
		}
	};
	if ls >= 0 {
		st = st.loop_region(lregion(ls, le));
	}
	let mut data = StaticSoundData { sample_rate: RATE, frames: coded_frames(len as usize), settings: st, slice: None };
	// rs: the slice is given in two steps - some other slice first, then `lo..` (open-ended: up to the end of the audio),
	// which replaces it; only meaningful when the slice ends at the end of the audio
	let rs = c["rs"].as_bool().unwrap_or(false) && hi == len;
	let open_from = |lo: i64| Region { start: PlaybackPosition::Samples(lo as usize), end: EndPosition::EndOfAudio };
	if rs {
		data = data.slice(region(0, (len / 2).max(1))).slice(open_from(lo));
	} else if !whole {
		data = data.slice(region(lo, hi));
	}
	// ---- streaming
	let mut ss = StreamingSoundSettings::new()
		.start_position(PlaybackPosition::Samples(start as usize))
		.playback_rate(PlaybackRate(rate_f));
	if ls >= 0 {
		ss = ss.loop_region(lregion(ls, le));
	}
	let (dec, stats) = ScriptDecoder::new(len as usize, vec![pk as usize, 1, (pk as usize).max(2) - 1], early as usize, 0);
	let dec = dec.with_eos(1); // (a decode call past the end of the stream - which kira must never make - fails)
	// a small frame ring makes the read window wrap around its physical end every few callbacks (0: the production size)
	let ring = sc["ring"].as_u64().unwrap_or(0) as usize;
	kira::verif::set_stream_ring_capacity(ring);
	let mut sdata = StreamingSoundData::from_decoder(dec).with_settings(ss);
	if rs {
		sdata = sdata.slice(region(0, (len / 2).max(1))).slice(open_from(lo));
	} else if !whole {
		sdata = sdata.slice(region(lo, hi));
	}
	DEC_PUSHED.store(0, Ordering::SeqCst);
	DEC_WAITS.store(0, Ordering::SeqCst);
	let r = guarded(|| {
		let ha: StaticSoundHandle = sa.manager.play(data).unwrap();
		let hb: StreamingSoundHandle<String> = sb.manager.play(sdata).unwrap();
		(ha, hb)
	});
	let (mut ha, mut hb) = match r {
		Ok(x) => x,
		Err(m) => {
			t.ev(json!({"a": "panic", "who": "gameplay", "msg": m}));
			t.ev(json!({"a": "end"}));
			return;
		}
	};
	// decoder keeps ahead: a looping stream runs until its ring holds far more than the session consumes;
	// a finite one until the thread has ended
	// (a decoder that never gets there is not waited for again and again: after three stalls the wait is cut short;
	//  the comparison with the static sound then shows what the stream is missing)
	static STALLS: std::sync::atomic::AtomicUsize = std::sync::atomic::AtomicUsize::new(0);
	let budget = if STALLS.load(Ordering::SeqCst) >= 3 { Duration::from_millis(60) } else { Duration::from_millis(2500) };
	let t0 = Instant::now();
	loop {
		let done = if ring > 0 {
			DEC_WAITS.load(Ordering::SeqCst) >= 1 || stats.dropped.load(Ordering::SeqCst)
		} else if ls >= 0 {
			DEC_PUSHED.load(Ordering::SeqCst) >= 2000
		} else {
			// all of the audio decoded: the thread has ended, or idles until the sound has finished
			stats.dropped.load(Ordering::SeqCst) || DEC_WAITS.load(Ordering::SeqCst) >= 1
		};
		if done {
			break;
		}
		if t0.elapsed() > budget {
			STALLS.fetch_add(1, Ordering::SeqCst);
			t.ev(json!({"a": "stall", "ms": budget.as_millis() as u64}));
			break;
		}
		std::thread::sleep(Duration::from_micros(200));
	}
	let vols = [0.0f32, -6.0, -20.0];
	let pans = [0.0f32, -1.0, 0.5];
	let rates = [1.0f64, 0.5, 2.0];
	for step in sc["steps"].as_array().unwrap() {
		match step["act"].as_str().unwrap() {
			"Cmd" => {
				let d = step["d"].as_u64().unwrap_or(0);
				let v = step["v"].as_u64().unwrap_or(0) as usize;
				match step["c"].as_str().unwrap() {
					"pause" => { ha.pause(tw(d)); hb.pause(tw(d)); }
					"resume" => { ha.resume(tw(d)); hb.resume(tw(d)); }
					"stop" => { ha.stop(tw(d)); hb.stop(tw(d)); }
					"volume" => { ha.set_volume(Decibels(vols[v]), tw(d)); hb.set_volume(Decibels(vols[v]), tw(d)); }
					"panning" => { ha.set_panning(Panning(pans[v]), tw(d)); hb.set_panning(Panning(pans[v]), tw(d)); }
					"rate" => { ha.set_playback_rate(PlaybackRate(rates[v]), tw(d)); hb.set_playback_rate(PlaybackRate(rates[v]), tw(d)); }
					x => panic!("unknown command {x}"),
				}
				t.ev(json!({"a": "cmd", "c": step["c"], "d": d, "v": v}));
			}
			"Callback" => {
				let ra = sa.callback(NF);
				let rb = sb.callback(NF);
				if ring > 0 {
					// the decoder refills the small ring before the next callback: it reports the ring full again, or ends
					let w = DEC_WAITS.load(Ordering::SeqCst);
					let t1 = Instant::now();
					let budget = if STALLS.load(Ordering::SeqCst) >= 3 { Duration::from_millis(60) } else { Duration::from_millis(3000) };
					while DEC_WAITS.load(Ordering::SeqCst) <= w + 1 && !stats.dropped.load(Ordering::SeqCst) {
						if t1.elapsed() > budget {
							STALLS.fetch_add(1, Ordering::SeqCst);
							t.ev(json!({"a": "stall", "ms": budget.as_millis() as u64}));
							break;
						}
						std::thread::sleep(Duration::from_micros(100));
					}
				}
				let pos = |p: f64| (p * RATE as f64 * 256.0).round() as i64;
				t.ev(json!({"a": "cb", "outA": bits(&ra.out), "outB": bits(&rb.out),
					"stA": state_name(ha.state()), "stB": state_name(hb.state()),
					"posA": pos(ha.position()), "posB": pos(hb.position()),
					"idxA": hear(&ra.out).idx, "idxB": hear(&rb.out).idx,
					"panicked": ra.panicked.is_some() || rb.panicked.is_some(),
					"mA": ra.monitor(2), "mB": rb.monitor(2)}));
			}
			x => panic!("unknown act {x}"),
		}
	}
	t.ev(json!({"a": "end"}));
}

fn main() {
	let args: Vec<String> = std::env::args().collect();
	quiet_panics();
	install_hook();
	let inp = arg(&args, "--in").expect("--in");
	let out = arg(&args, "--out").expect("--out");
	let mut t = Tracer::create(&out);
	for sc in read_scenarios(&inp) {
		run_scenario(&sc, &mut t);
	}
	t.flush();
	println!("events {}", t.events);
}
