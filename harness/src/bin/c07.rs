//! C07 driver: commands reach the audio thread exactly once, last write wins, none torn.
//!
//! Scenarios:
//!  {"mode":"chan","writes":K,"seed":S}  two real threads hammer one command_writer_and_reader pair;
//!      begin/end stamps from one global sequence counter give the event order
//!  {"mode":"handles","scene":"V"|"L"|"S"|"M","steps":[{"act":"W","key":K,"v":V}|{"act":"Callback"}]}
//!      real handles of a small scene; the effect in force is decoded after every callback

use std::{
	sync::{
		atomic::{AtomicBool, AtomicU64, Ordering},
		Arc,
	},
	time::Duration,
};

use kira::{
	clock::{ClockHandle, ClockSpeed},
	command::command_writer_and_reader,
	modulator::tweener::{TweenerBuilder, TweenerHandle},
	sound::{
		static_sound::{StaticSoundData, StaticSoundHandle, StaticSoundSettings},
		streaming::{StreamingSoundData, StreamingSoundHandle},
	},
	track::{TrackBuilder, TrackHandle, TrackPlaybackState},
	Decibels, Easing, Frame, Mapping, Panning, StartTime, Tween, Value,
};
use kv::{common::*, scene::*};
use rand::{rngs::StdRng, Rng, SeedableRng};
use serde_json::{json, Map, Value as J};

// ---------------------------------------------------------------- channel stress

#[derive(Clone, Copy)]
struct Cmd {
	a: u64,
	_pad: [u64; 14],
	b: u64,
}

static SEQ: AtomicU64 = AtomicU64::new(1);
fn stamp() -> u64 {
	SEQ.fetch_add(1, Ordering::SeqCst)
}

fn run_chan(sc: &J, t: &mut Tracer) {
	let k = sc["writes"].as_u64().unwrap_or(100);
	let seed = sc["seed"].as_u64().unwrap_or(1);
	t.reset(json!({"mode": "chan", "src": sc["src"]}));
	let (mut w, mut r) = command_writer_and_reader::<Cmd>();
	let done = Arc::new(AtomicBool::new(false));
	let d2 = done.clone();
	let wt = std::thread::spawn(move || {
		let mut rng = StdRng::seed_from_u64(seed);
		let mut evs = Vec::new();
		for v in 1..=k {
			let b = stamp();
			w.write(Cmd { a: v, _pad: [v; 14], b: v });
			let e = stamp();
			evs.push((b, json!({"a": "wb", "v": v})));
			evs.push((e, json!({"a": "we", "v": v})));
			for _ in 0..rng.gen_range(0..200) {
				std::hint::spin_loop();
			}
			if rng.gen_range(0..8) == 0 {
				std::thread::yield_now();
			}
		}
		d2.store(true, Ordering::SeqCst);
		evs
	});
	let rt = std::thread::spawn(move || {
		let mut rng = StdRng::seed_from_u64(seed ^ 0x9e3779b9);
		let mut evs = Vec::new();
		let mut after_done = 0;
		let mut n = 0;
		while after_done < 2 && n < 4 * k + 50 {
			if done.load(Ordering::SeqCst) {
				after_done += 1;
			}
			let b = stamp();
			let res = r.read();
			let e = stamp();
			n += 1;
			let (v, torn) = match res {
				None => (0, false),
				Some(c) => (c.a, c.a != c.b || c._pad.iter().any(|p| *p != c.a)),
			};
			evs.push((b, json!({"a": "rb"})));
			evs.push((e, json!({"a": "re", "res": v, "torn": torn})));
			for _ in 0..rng.gen_range(0..300) {
				std::hint::spin_loop();
			}
		}
		evs
	});
	let mut evs = wt.join().unwrap();
	evs.extend(rt.join().unwrap());
	evs.sort_by_key(|(s, _)| *s);
	for (_, e) in evs {
		t.ev(e);
	}
	t.ev(json!({"a": "end"}));
}

// ---------------------------------------------------------------- handles

fn tw(d: u64) -> Tween {
	Tween {
		start_time: StartTime::Immediate,
		duration: chunks(d),
		easing: Easing::Linear,
	}
}

const HALF: f32 = 0.5;
const PAN_GAIN: f32 = 0.70710678; // 0.5 * sqrt(2): a hard-panned (0.5, 0.5) source

/// -2*log10(ratio) rounded: 0 dB -> 0, -10 dB -> 1, -20 dB -> 2, -40 dB -> 4 (sums of those otherwise)
fn half_bels(x: f32, full: f32) -> i64 {
	if x <= 0.0 || !x.is_finite() {
		return 99;
	}
	(-(x / full).log10() * 2.0).round() as i64
}

struct Scene {
	sim: Sim,
	s1: Option<StaticSoundHandle>,
	s2: Option<StreamingSoundHandle<String>>,
	t: Option<TrackHandle>,
	nested: Option<TrackHandle>,
	clock: Option<ClockHandle>,
	tweener: Option<TweenerHandle>,
	stats: Option<Arc<DecStats>>,
	last_idx: i64,
}

fn dc_frames(len: usize) -> Arc<[Frame]> {
	(0..len).map(|_| Frame::new(HALF, HALF)).collect::<Vec<_>>().into()
}

struct DcDecoder {
	len: usize,
	pos: usize,
	produced: Arc<AtomicU64>,
}
impl kira::sound::streaming::Decoder for DcDecoder {
	type Error = String;
	fn sample_rate(&self) -> u32 {
		RATE
	}
	fn num_frames(&self) -> usize {
		self.len
	}
	fn decode(&mut self) -> Result<Vec<Frame>, String> {
		let n = 3.min(self.len - self.pos).max(1);
		self.pos = (self.pos + n).min(self.len);
		self.produced.fetch_add(n as u64, Ordering::SeqCst);
		Ok(vec![Frame::new(HALF, HALF); n])
	}
	fn seek(&mut self, i: usize) -> Result<usize, String> {
		self.pos = i.min(self.len);
		Ok(self.pos)
	}
}

fn run_state_value(v: &str) -> (bool, u64) {
	match v {
		"Paused" => (true, 0),
		"Pausing" => (true, 1000),
		"Playing" => (false, 0),
		_ => (false, 1000), // Resuming
	}
}

fn track_state_name(s: TrackPlaybackState) -> &'static str {
	match s {
		TrackPlaybackState::Playing => "Playing",
		TrackPlaybackState::Pausing => "Pausing",
		TrackPlaybackState::Paused => "Paused",
		TrackPlaybackState::WaitingToResume => "WaitingToResume",
		TrackPlaybackState::Resuming => "Resuming",
	}
}

fn run_handles(sc: &J, t: &mut Tracer) {
	let scene = sc["scene"].as_str().unwrap();
	kira::verif::set_stream_ring_capacity(0);
	let mut sim = Sim::basic();
	let mut init = Map::new();
	let mut jump = Map::new();
	let mut s = Scene { sim: Sim::basic(), s1: None, s2: None, t: None, nested: None, clock: None, tweener: None, stats: None, last_idx: -1 };
	std::mem::swap(&mut s.sim, &mut sim);
	drop(sim);
	let level = |init: &mut Map<String, J>, jump: &mut Map<String, J>, k: &str, v: J| {
		init.insert(k.into(), v);
		jump.insert(k.into(), json!("no"));
	};
	match scene {
		"V" | "L" => {
			let data = StaticSoundData {
				sample_rate: RATE,
				frames: dc_frames(64),
				settings: StaticSoundSettings::new().loop_region(..).panning(Panning::LEFT),
				slice: None,
			};
			let mut track = s.sim.manager.add_sub_track(TrackBuilder::new()).unwrap();
			// scene L: the streaming sound is on the main track, so that pausing the sub-track (which freezes
			// everything below it, C12) does not interfere with the sound's own life cycle
			let produced = Arc::new(AtomicU64::new(0));
			let s2data = StreamingSoundData::from_decoder(DcDecoder { len: 64, pos: 0, produced: produced.clone() })
				.loop_region(..)
				.panning(Panning::RIGHT);
			let s2 = if scene == "V" { track.play(s2data).unwrap() } else { s.sim.manager.play(s2data).unwrap() };
			s.s1 = Some(s.sim.manager.play(data).unwrap());
			s.s2 = Some(s2);
			s.t = Some(track);
			// the decoder keeps ahead: wait until it has buffered more than the session can consume
			let t0 = std::time::Instant::now();
			while produced.load(Ordering::SeqCst) < 600 && t0.elapsed() < Duration::from_secs(5) {
				std::thread::sleep(Duration::from_micros(200));
			}
			if scene == "V" {
				for (k, v) in [("main.vol", 0), ("s1.vol", 0), ("s2.vol", 0), ("t.vol", 0)] {
					level(&mut init, &mut jump, k, json!(v));
				}
			} else {
				let mut c = s.sim.manager.add_clock(ClockSpeed::TicksPerSecond(2.0)).unwrap();
				c.pause();
				s.clock = Some(c);
				for k in ["s1.run", "s2.run", "t.run"] {
					level(&mut init, &mut jump, k, json!("Playing"));
				}
				level(&mut init, &mut jump, "c.tick", json!("off"));
			}
		}
		"P" => {
			// a sub-track whose pause has settled, with a sound and a nested track below it
			let mut track = s.sim.manager.add_sub_track(TrackBuilder::new()).unwrap();
			let data = StaticSoundData {
				sample_rate: RATE,
				frames: dc_frames(64),
				settings: StaticSoundSettings::new().loop_region(..),
				slice: None,
			};
			s.s1 = Some(track.play(data).unwrap());
			s.nested = Some(track.add_sub_track(TrackBuilder::new()).unwrap());
			let _ = s.sim.callback(NF);
			track.pause(tw(0));
			let _ = s.sim.callback(NF);
			let _ = s.sim.callback(NF);
			s.t = Some(track);
			for k in ["ps.run", "pn.run"] {
				level(&mut init, &mut jump, k, json!("Playing"));
			}
		}
		"T" => {
			// a streaming sound with a small frame ring: a seek is heard once the frames buffered before it have played
			let ring = sc["ring"].as_u64().unwrap_or(48) as usize;
			let len = sc["len"].as_u64().unwrap_or(4000) as usize;
			kira::verif::set_stream_ring_capacity(ring);
			let (dec, stats) = ScriptDecoder::new(len, vec![3, 1, 2], 0, 0);
			DEC_WAITS.store(0, Ordering::SeqCst);
			// hold > 0: once the whole stream has been decoded, the next decode() - the one a later seek asks for - hangs until the
			// driver has rendered `hold` more callbacks (a slow decoder: the ring runs dry while audio is still to come)
			let dec = if sc["hold"].as_u64().unwrap_or(0) > 0 { dec.with_block_after(len) } else { dec };
			let h = s.sim.manager.play(StreamingSoundData::from_decoder(dec.with_eos(1))).unwrap();
			let t0 = std::time::Instant::now();
			while DEC_WAITS.load(Ordering::SeqCst) < 1 && !stats.dropped.load(Ordering::SeqCst) && t0.elapsed() < Duration::from_secs(5) {
				std::thread::sleep(Duration::from_micros(200));
			}
			s.s2 = Some(h);
			s.stats = Some(stats);
			init.insert("st.seek".into(), json!(0));
			jump.insert("st.seek".into(), json!("stream"));
		}
		"S" => {
			let data = StaticSoundData {
				sample_rate: RATE,
				frames: coded_frames(250),
				settings: StaticSoundSettings::new(),
				slice: None,
			};
			s.s1 = Some(s.sim.manager.play(data).unwrap());
			init.insert("s1.seek".into(), json!(0));
			jump.insert("s1.seek".into(), json!("yes"));
		}
		"M" | "D" => {
			let tweener = s.sim.manager.add_modulator(TweenerBuilder { initial_value: 1.0 }).unwrap();
			let vol: Value<Decibels> = Value::from_modulator(
				&tweener,
				Mapping {
					input_range: (0.0, 1.0),
					output_range: (Decibels(-20.0), Decibels(0.0)),
					easing: Easing::Linear,
				},
			);
			let data = StaticSoundData {
				sample_rate: RATE,
				frames: dc_frames(64),
				settings: StaticSoundSettings::new().loop_region(..).panning(Panning::LEFT).volume(vol),
				slice: None,
			};
			s.s1 = Some(s.sim.manager.play(data).unwrap());
			s.tweener = Some(tweener);
			level(&mut init, &mut jump, if scene == "D" { "m.dset" } else { "m.set" }, json!(0));
		}
		x => panic!("unknown scene {x}"),
	}
	t.reset(json!({"mode": "handles", "scene": scene, "init": init, "ring": sc["ring"].as_u64().unwrap_or(0), "src": sc["src"]}));
	// scene T options: `stop_fade` - the sound is told to stop with a very long fade just before the first seek is written (it is
	// Stopping, still advancing, for the rest of the session); a seek to or beyond the end (x >= len) ends the judged part of the
	// session: the driver renders until the sound reports Stopped (at most ring / NF + 12 callbacks) and records `fin`
	let mut stop_fade_pending = sc["stop_fade"].as_bool().unwrap_or(false);
	let t_len = sc["len"].as_u64().unwrap_or(4000) as f64;
	let mut end_sought = false;
	for step in sc["steps"].as_array().unwrap() {
		if end_sought {
			break;
		}
		match step["act"].as_str().unwrap() {
			"W" => {
				let key = step["key"].as_str().unwrap();
				let v = &step["v"];
				if key == "st.seek" && stop_fade_pending {
					stop_fade_pending = false;
					s.s2.as_mut().unwrap().stop(Tween { start_time: StartTime::Immediate, duration: Duration::from_secs(3600), easing: Easing::Linear });
					t.ev(json!({"a": "note", "what": "stop with a one-hour fade"}));
				}
				if key == "st.seek" && scene == "T" && v["x"].as_f64().unwrap() >= t_len {
					s.s2.as_mut().unwrap().seek_to(v["x"].as_f64().unwrap() / RATE as f64);
					let ring = sc["ring"].as_u64().unwrap_or(48) as usize;
					let mut n = 0;
					let mut state = "Playing";
					while n < ring / NF + 12 {
						let _ = s.sim.callback(NF);
						n += 1;
						// (the decoder is given the time it needs: this is about what it does, not how fast)
						std::thread::sleep(Duration::from_millis(3));
						state = guarded(|| state_name(s.s2.as_ref().unwrap().state())).unwrap_or("panic");
						if state == "Stopped" {
							break;
						}
					}
					t.ev(json!({"a": "fin", "x": v["x"], "callbacks": n, "state": state}));
					end_sought = true;
					continue;
				}
				let r = guarded(|| match key {
					"main.vol" => s.sim.manager.main_track().set_volume(v.as_f64().unwrap() as f32, tw(0)),
					"s1.vol" => s.s1.as_mut().unwrap().set_volume(v.as_f64().unwrap() as f32, tw(0)),
					"s2.vol" => s.s2.as_mut().unwrap().set_volume(v.as_f64().unwrap() as f32, tw(0)),
					"t.vol" => s.t.as_mut().unwrap().set_volume(v.as_f64().unwrap() as f32, tw(0)),
					"s1.run" => {
						let (p, d) = run_state_value(v.as_str().unwrap());
						let h = s.s1.as_mut().unwrap();
						if p { h.pause(tw(d)) } else { h.resume(tw(d)) }
					}
					"s2.run" => {
						let (p, d) = run_state_value(v.as_str().unwrap());
						let h = s.s2.as_mut().unwrap();
						if p { h.pause(tw(d)) } else { h.resume(tw(d)) }
					}
					"t.run" => {
						let (p, d) = run_state_value(v.as_str().unwrap());
						let h = s.t.as_mut().unwrap();
						if p { h.pause(tw(d)) } else { h.resume(tw(d)) }
					}
					"ps.run" => {
						let h = s.s1.as_mut().unwrap();
						if v.as_str() == Some("Pausing") { h.pause(tw(0)) } else { h.resume(tw(0)) }
					}
					"pn.run" => {
						let h = s.nested.as_mut().unwrap();
						if v.as_str() == Some("Pausing") { h.pause(tw(0)) } else { h.resume(tw(0)) }
					}
					"c.tick" => {
						let c = s.clock.as_mut().unwrap();
						if v.as_str() == Some("on") { c.start() } else { c.pause() }
					}
					"s1.seek" => {
						let x = v["x"].as_f64().unwrap() / RATE as f64;
						if v["k"] == "abs" {
							s.s1.as_mut().unwrap().seek_to(x)
						} else {
							s.s1.as_mut().unwrap().seek_by(x)
						}
					}
					"m.set" => {
						// written as the volume it maps to: -20 dB <-> 0.0, 0 dB <-> 1.0
						let x = if v.as_i64() == Some(0) { 1.0 } else { 0.0 };
						s.tweener.as_mut().unwrap().set(x, tw(0))
					}
					"st.seek" => s.s2.as_mut().unwrap().seek_to(v["x"].as_f64().unwrap() / RATE as f64),
					"m.dset" => {
						// {x: the volume it maps to, dl: start delay in callbacks}
						let x = if v["x"].as_i64() == Some(0) { 1.0 } else { 0.0 };
						let dl = v["dl"].as_u64().unwrap_or(0);
						s.tweener.as_mut().unwrap().set(x, Tween { start_time: StartTime::Delayed(chunks(dl)), duration: Duration::ZERO, easing: Easing::Linear })
					}
					k => panic!("unknown key {k}"),
				});
				if let Err(m) = r {
					t.ev(json!({"a": "panic", "who": "gameplay", "msg": m}));
					break;
				}
				t.ev(json!({"a": "w", "key": key, "v": v}));
			}
			"Callback" => {
				let res = s.sim.callback(NF);
				let mut obs = Map::new();
				let mut cont = Map::new();
				let mut after_cb: Option<J> = None;
				let l = res.out[2 * (NF - 1)];
				let r = res.out[2 * (NF - 1) + 1];
				match scene {
					"V" => {
						let (el, er) = (half_bels(l, PAN_GAIN), half_bels(r, PAN_GAIN));
						let main_l = if el >= 4 { -40 } else { 0 };
						let main_r = if er >= 4 { -40 } else { 0 };
						obs.insert("main.vol".into(), json!(if main_l == main_r && el < 8 && er < 8 { main_l } else { -999 }));
						obs.insert("s1.vol".into(), json!(match el % 4 { 0 => 0, 2 => -20, _ => -999 }));
						obs.insert("s2.vol".into(), json!(if er < 8 { if (er % 4) / 2 == 1 { -20 } else { 0 } } else { -999 }));
						obs.insert("t.vol".into(), json!(if er < 8 { if er % 2 == 1 { -10 } else { 0 } } else { -999 }));
					}
					"L" => {
						obs.insert("s1.run".into(), json!(guarded(|| state_name(s.s1.as_ref().unwrap().state())).unwrap_or("panic")));
						obs.insert("s2.run".into(), json!(guarded(|| state_name(s.s2.as_ref().unwrap().state())).unwrap_or("panic")));
						obs.insert("t.run".into(), json!(guarded(|| track_state_name(s.t.as_ref().unwrap().state())).unwrap_or("panic")));
						obs.insert("c.tick".into(), json!(if s.clock.as_ref().unwrap().ticking() { "on" } else { "off" }));
					}
					"P" => {
						obs.insert("ps.run".into(), json!(guarded(|| state_name(s.s1.as_ref().unwrap().state())).unwrap_or("panic")));
						obs.insert("pn.run".into(), json!(guarded(|| track_state_name(s.nested.as_ref().unwrap().state())).unwrap_or("panic")));
					}
					"T" => {
						let hd = hear(&res.out);
						let last = *hd.idx.last().unwrap();
						obs.insert("st.seek".into(), json!(last));
						cont.insert("st.seek".into(), json!(s.last_idx + NF as i64));
						s.last_idx = last;
						// the decoder refills the small ring before the next callback (it reports the ring full again, or ends)
						let st = s.stats.as_ref().unwrap();
						let w = DEC_WAITS.load(Ordering::SeqCst);
						let t1 = std::time::Instant::now();
						while DEC_WAITS.load(Ordering::SeqCst) <= w + 1
							&& !st.dropped.load(Ordering::SeqCst)
							&& !(st.blocked.load(Ordering::SeqCst) && !st.release.load(Ordering::SeqCst))
							&& t1.elapsed() < Duration::from_secs(3)
						{
							std::thread::sleep(Duration::from_micros(100));
						}
						if st.blocked.load(Ordering::SeqCst) && !st.release.load(Ordering::SeqCst) {
							// the decoder hangs in the decode() a seek asked for: the ring runs dry meanwhile; these callbacks are not
							// judged (nothing new can be heard), what is judged is that the seek is heard once the decoder delivers
							let hold = sc["hold"].as_u64().unwrap_or(0);
							let mut silent = 0;
							for _ in 0..hold {
								let r = s.sim.callback(NF);
								if hear(&r.out).zero {
									silent += 1;
								}
							}
							let state = guarded(|| state_name(s.s2.as_ref().unwrap().state())).unwrap_or("panic");
							after_cb = Some(json!({"a": "held", "callbacks": hold, "silent": silent, "state": state}));
							st.release.store(true, Ordering::SeqCst);
							let w = DEC_WAITS.load(Ordering::SeqCst);
							let t1 = std::time::Instant::now();
							while DEC_WAITS.load(Ordering::SeqCst) <= w + 1 && !st.dropped.load(Ordering::SeqCst) && t1.elapsed() < Duration::from_secs(3) {
								std::thread::sleep(Duration::from_micros(100));
							}
						}
					}
					"S" => {
						let hd = hear(&res.out);
						let last = *hd.idx.last().unwrap();
						let c = s.last_idx + NF as i64;
						obs.insert("s1.seek".into(), json!(last));
						cont.insert("s1.seek".into(), json!(c));
						s.last_idx = last;
					}
					_ => {
						let el = half_bels(l, PAN_GAIN);
						obs.insert((if scene == "D" { "m.dset" } else { "m.set" }).into(), json!(match el { 0 => 0, 2 => -20, _ => -999 }));
					}
				}
				t.ev(json!({"a": "cb", "obs": obs, "jump": jump, "cont": cont, "n": NF,
					"panicked": res.panicked.is_some(), "m": res.monitor(2)}));
				if let Some(e) = after_cb {
					t.ev(e);
				}
				if res.panicked.is_some() {
					break;
				}
			}
			a => panic!("unknown act {a}"),
		}
	}
	t.ev(json!({"a": "end"}));
}

fn main() {
	let args: Vec<String> = std::env::args().collect();
	quiet_panics();
	install_hook();
	let inp = arg(&args, "--in").expect("--in");
	let out = arg(&args, "--out").expect("--out");
	let mut t = Tracer::create(&out);
	for sc in read_scenarios(&inp) {
		if sc["mode"] == "chan" {
			run_chan(&sc, &mut t);
		} else {
			run_handles(&sc, &mut t);
		}
	}
	t.flush();
	println!("events {}", t.events);
}
