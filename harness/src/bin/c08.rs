//! C08 driver: resource life cycle on the real library.
//!
//! Scenario (one JSON object per line):
//!   {"kind": "sound"|"tsound"|"subtrack"|"nested"|"send"|"clock"|"modulator"|"listener",
//!    "n": capacity, "racy": bool, "steps": [{"act": .., "x": .., "ev": {..}}, ..]}
//! sequential acts: Create x | Mark x | Callback | Len
//! racy acts (Arena.tla, Replayable): GReserve x | GDrain | GPush | GMark x | ABegin | AScan | APushUnused | ARefill

use std::{
	any::Any,
	collections::{BTreeSet, HashMap},
	sync::{
		atomic::{AtomicBool, Ordering},
		Arc, Mutex,
	},
};

use kira::{
	backend::Renderer,
	clock::{ClockId, ClockSpeed},
	effect::Effect,
	info::Info,
	modulator::{Modulator, ModulatorBuilder, ModulatorId},
	sound::{Sound, SoundData},
	track::{SendTrackBuilder, TrackBuilder, TrackHandle},
	AudioManager, AudioManagerSettings, Capacities, Frame,
};
use serde_json::{json, Value};

use kv::common::*;

#[derive(Default)]
pub struct ProbeLog {
	pub processed: BTreeSet<u32>,
	pub drops: Vec<(u32, bool)>,
	pub resolved: BTreeSet<u32>,
}

pub type Log = Arc<Mutex<ProbeLog>>;

pub struct ProbeSound {
	pub id: u32,
	pub finished: Arc<AtomicBool>,
	pub log: Log,
	/// ids to look up through `Info` on every process call (the watcher sound)
	pub clock_ids: Arc<Mutex<Vec<(u32, ClockId)>>>,
	pub mod_ids: Arc<Mutex<Vec<(u32, ModulatorId)>>>,
}

impl Sound for ProbeSound {
	fn process(&mut self, out: &mut [Frame], _dt: f64, info: &Info) {
		unarmed(|| {
			let mut l = self.log.lock().unwrap();
			l.processed.insert(self.id);
			for (x, id) in self.clock_ids.lock().unwrap().iter() {
				if info.clock_info(*id).is_some() {
					l.resolved.insert(*x);
				}
			}
			for (x, id) in self.mod_ids.lock().unwrap().iter() {
				if info.modulator_value(*id).is_some() {
					l.resolved.insert(*x);
				}
			}
		});
		out.fill(Frame::ZERO);
	}
	fn finished(&self) -> bool {
		self.finished.load(Ordering::SeqCst)
	}
}

impl Drop for ProbeSound {
	fn drop(&mut self) {
		let a = in_audio();
		unarmed(|| self.log.lock().unwrap().drops.push((self.id, a)));
	}
}

pub struct ProbeSoundData(pub ProbeSound);

impl SoundData for ProbeSoundData {
	type Error = ();
	type Handle = ();
	fn into_sound(self) -> Result<(Box<dyn Sound>, ()), ()> {
		Ok((Box::new(self.0), ()))
	}
}

/// sound data whose conversion fails (like a stream whose decoder cannot seek to the start)
pub struct BadSoundData(pub ProbeSound);

impl SoundData for BadSoundData {
	type Error = ();
	type Handle = ();
	fn into_sound(self) -> Result<(Box<dyn Sound>, ()), ()> {
		Err(())
	}
}

pub struct ProbeEffect {
	pub id: u32,
	pub log: Log,
}

impl Effect for ProbeEffect {
	fn process(&mut self, _input: &mut [Frame], _dt: f64, _info: &Info) {
		unarmed(|| {
			self.log.lock().unwrap().processed.insert(self.id);
		});
	}
}

impl Drop for ProbeEffect {
	fn drop(&mut self) {
		let a = in_audio();
		unarmed(|| self.log.lock().unwrap().drops.push((self.id, a)));
	}
}

pub struct ProbeModulator {
	pub id: u32,
	pub finished: Arc<AtomicBool>,
	pub log: Log,
}

impl Modulator for ProbeModulator {
	fn update(&mut self, _dt: f64, _info: &Info) {
		unarmed(|| {
			self.log.lock().unwrap().processed.insert(self.id);
		});
	}
	fn value(&self) -> f64 {
		self.id as f64
	}
	fn finished(&self) -> bool {
		self.finished.load(Ordering::SeqCst)
	}
}

impl Drop for ProbeModulator {
	fn drop(&mut self) {
		let a = in_audio();
		unarmed(|| self.log.lock().unwrap().drops.push((self.id, a)));
	}
}

pub struct ProbeModulatorBuilder(pub ProbeModulator);

impl ModulatorBuilder for ProbeModulatorBuilder {
	type Handle = ModulatorId;
	fn build(self, id: ModulatorId) -> (Box<dyn Modulator>, ModulatorId) {
		(Box::new(self.0), id)
	}
}

type Handles = Arc<Mutex<HashMap<u32, Box<dyn Any + Send>>>>;

struct World {
	kind: String,
	manager: Option<AudioManager<VBackend>>,
	parent: Option<TrackHandle>,
	/// "tsound_s" / "nested_s": the parent is a spatial track (its listener is kept alive next to it)
	sparent: Option<(kira::track::SpatialTrackHandle, kira::listener::ListenerHandle)>,
	log: Log,
	handles: Handles,
	flags: Arc<Mutex<HashMap<u32, Arc<AtomicBool>>>>,
	clock_ids: Arc<Mutex<Vec<(u32, ClockId)>>>,
	mod_ids: Arc<Mutex<Vec<(u32, ModulatorId)>>>,
}

const WATCHER: u32 = 1000;

impl World {
	fn len_cap(&mut self) -> (i64, i64) {
		let m = self.manager.as_mut().unwrap();
		match self.kind.as_str() {
			"sound" => {
				let t = m.main_track();
				(t.num_sounds() as i64, t.sound_capacity() as i64)
			}
			"tsound" => match (self.parent.as_ref(), self.sparent.as_ref()) {
				(Some(p), _) => (p.num_sounds() as i64, p.sound_capacity() as i64),
				(_, Some((p, _))) => (p.num_sounds() as i64, p.sound_capacity() as i64),
				_ => unreachable!(),
			},
			"subtrack" => (m.num_sub_tracks() as i64, m.sub_track_capacity() as i64),
			"nested" => match (self.parent.as_ref(), self.sparent.as_ref()) {
				(Some(p), _) => (p.num_sub_tracks() as i64, p.sub_track_capacity() as i64),
				(_, Some((p, _))) => (p.num_sub_tracks() as i64, p.sub_track_capacity() as i64),
				_ => unreachable!(),
			},
			"send" => (m.num_send_tracks() as i64, m.send_track_capacity() as i64),
			"clock" => (m.num_clocks() as i64, m.clock_capacity() as i64),
			"modulator" => (m.num_modulators() as i64, m.modulator_capacity() as i64),
			_ => (-1, -1),
		}
	}

	/// returns ok
	fn create(&mut self, x: u32) -> bool {
		let log = self.log.clone();
		let flag = Arc::new(AtomicBool::new(false));
		let m = self.manager.as_mut().unwrap();
		let mk_sound = |flag: Arc<AtomicBool>| {
			ProbeSoundData(ProbeSound {
				id: x,
				finished: flag,
				log: log.clone(),
				clock_ids: Default::default(),
				mod_ids: Default::default(),
			})
		};
		let ok = match self.kind.as_str() {
			"sound" => m.play(mk_sound(flag.clone())).is_ok(),
			"tsound" => match (self.parent.as_mut(), self.sparent.as_mut()) {
				(Some(p), _) => p.play(mk_sound(flag.clone())).is_ok(),
				(_, Some((p, _))) => p.play(mk_sound(flag.clone())).is_ok(),
				_ => unreachable!(),
			},
			"subtrack" => match m.add_sub_track(TrackBuilder::new().with_built_effect(Box::new(
				ProbeEffect { id: x, log: log.clone() },
			))) {
				Ok(h) => {
					self.handles.lock().unwrap().insert(x, Box::new(h));
					true
				}
				Err(_) => false,
			},
			"nested" => match {
				let b = TrackBuilder::new().with_built_effect(Box::new(ProbeEffect { id: x, log: log.clone() }));
				match (self.parent.as_mut(), self.sparent.as_mut()) {
					(Some(p), _) => p.add_sub_track(b),
					(_, Some((p, _))) => p.add_sub_track(b),
					_ => unreachable!(),
				}
			} {
				Ok(h) => {
					self.handles.lock().unwrap().insert(x, Box::new(h));
					true
				}
				Err(_) => false,
			},
			"send" => match m.add_send_track(SendTrackBuilder::new().with_built_effect(Box::new(
				ProbeEffect { id: x, log: log.clone() },
			))) {
				Ok(h) => {
					self.handles.lock().unwrap().insert(x, Box::new(h));
					true
				}
				Err(_) => false,
			},
			"clock" => match m.add_clock(ClockSpeed::TicksPerSecond(1.0)) {
				Ok(h) => {
					self.clock_ids.lock().unwrap().push((x, h.id()));
					self.handles.lock().unwrap().insert(x, Box::new(h));
					true
				}
				Err(_) => false,
			},
			"modulator" => match m.add_modulator(ProbeModulatorBuilder(ProbeModulator {
				id: x,
				finished: flag.clone(),
				log: log.clone(),
			})) {
				Ok(id) => {
					self.mod_ids.lock().unwrap().push((x, id));
					true
				}
				Err(_) => false,
			},
			"listener" => match m.add_listener(glam::Vec3::ZERO, glam::Quat::IDENTITY) {
				Ok(h) => {
					self.handles.lock().unwrap().insert(x, Box::new(h));
					true
				}
				Err(_) => false,
			},
			k => panic!("unknown kind {k}"),
		};
		if ok {
			self.flags.lock().unwrap().insert(x, flag);
		}
		ok
	}
}

fn kind_tag(kind: &str) -> &'static str {
	match kind {
		"sound" | "tsound" => "dyn kira::sound::Sound",
		"subtrack" | "nested" => "track::sub::Track",
		"send" => "SendTrack",
		"clock" => "Clock",
		"modulator" => "Modulator",
		"listener" => "Listener",
		_ => "",
	}
}

struct Session {
	kind: String,
	gw: Worker<World>,
	aw: Worker<Renderer>,
	log: Log,
	handles: Handles,
	flags: Arc<Mutex<HashMap<u32, Arc<AtomicBool>>>>,
	audio_started: bool,
	a_pending: bool,
	cur_item: u32,
	observes_present: bool,
}

fn observes_present(kind: &str) -> bool {
	// (beneath a paused parent nothing is processed: such sessions are observed through counts, results and drops only)
	kind != "listener" && !kind.ends_with("_p")
}

impl Session {
	fn new(kind: &str, n: usize) -> Session {
		// "tsound_p" / "nested_p": as "tsound" / "nested", with the parent track paused before the history begins
		let orig = kind;
		let spatial_parent = orig.ends_with("_s");
		let kind = orig.trim_end_matches("_p").trim_end_matches("_s");
		let kind_s = kind.to_string();
		let log: Log = Default::default();
		let handles: Handles = Default::default();
		let flags: Arc<Mutex<HashMap<u32, Arc<AtomicBool>>>> = Default::default();
		let (tx, rx) = std::sync::mpsc::channel::<Renderer>();
		let (k2, l2, h2, f2) = (kind_s.clone(), log.clone(), handles.clone(), flags.clone());
		let gw = Worker::spawn("gameplay", move || {
			let big = 8usize;
			let caps = Capacities {
				sub_track_capacity: if k2 == "subtrack" { n } else { big },
				send_track_capacity: if k2 == "send" { n } else { big },
				clock_capacity: if k2 == "clock" { n } else { big },
				modulator_capacity: if k2 == "modulator" { n } else { big },
				listener_capacity: if k2 == "listener" { n } else { big },
			};
			let mut manager = AudioManager::<VBackend>::new(AudioManagerSettings {
				capacities: caps,
				main_track_builder: kira::track::MainTrackBuilder::new()
					.sound_capacity(if k2 == "sound" { n } else { big }),
				internal_buffer_size: 4,
				backend_settings: VSettings { sample_rate: 8 },
			})
			.unwrap();
			let r = manager.backend_mut().renderer.take().unwrap();
			tx.send(r).unwrap();
			let clock_ids: Arc<Mutex<Vec<(u32, ClockId)>>> = Default::default();
			let mod_ids: Arc<Mutex<Vec<(u32, ModulatorId)>>> = Default::default();
			// the watcher: a sound on the main track that looks up every id each callback
			if k2 == "clock" || k2 == "modulator" {
				manager
					.play(ProbeSoundData(ProbeSound {
						id: WATCHER,
						finished: Default::default(),
						log: l2.clone(),
						clock_ids: clock_ids.clone(),
						mod_ids: mod_ids.clone(),
					}))
					.unwrap();
			}
			// (the capacity under test is n; the parent's other capacity differs from it on purpose)
			let (sc, tc) = if k2 == "tsound" { (n, n + 2) } else { (n + 2, n) };
			let parent = if (k2 == "tsound" || k2 == "nested") && !spatial_parent {
				Some(manager.add_sub_track(TrackBuilder::new().sound_capacity(sc).sub_track_capacity(tc)).unwrap())
			} else {
				None
			};
			let sparent = if (k2 == "tsound" || k2 == "nested") && spatial_parent {
				let l = manager.add_listener(glam::Vec3::ZERO, glam::Quat::IDENTITY).unwrap();
				let t = manager
					.add_spatial_sub_track(
						l.id(),
						glam::Vec3::ZERO,
						kira::track::SpatialTrackBuilder::new().sound_capacity(sc).sub_track_capacity(tc),
					)
					.unwrap();
				Some((t, l))
			} else {
				None
			};
			World {
				kind: k2,
				manager: Some(manager),
				parent,
				sparent,
				log: l2,
				handles: h2,
				flags: f2,
				clock_ids,
				mod_ids,
			}
		});
		// make sure the world exists before the audio thread starts
		let _ = gw.call(|_| Value::Null);
		let aw = Worker::spawn("audio", move || rx.recv().unwrap());
		let s = Session {
			kind: kind_s,
			gw,
			aw,
			log,
			handles,
			flags,
			audio_started: false,
			a_pending: false,
			cur_item: 0,
			observes_present: observes_present(orig),
		};
		// warm-up callback: the watcher (and the parent track) are picked up
		let _ = s.aw.call(|r| {
			let _ = run_callback(r, 4, 2);
			Value::Null
		});
		{
			let mut l = s.log.lock().unwrap();
			l.processed.clear();
			l.resolved.clear();
			l.drops.clear();
		}
		s
	}

	fn mark(&self, x: u32) {
		if let Some(f) = self.flags.lock().unwrap().get(&x) {
			f.store(true, Ordering::SeqCst);
		}
		// dropping the handle on this (a caller's) thread
		let h = self.handles.lock().unwrap().remove(&x);
		drop(h);
	}

	fn take_drops(&self, t: &mut Tracer) {
		let drops: Vec<(u32, bool)> = std::mem::take(&mut self.log.lock().unwrap().drops);
		for (x, a) in drops {
			if x != WATCHER {
				t.ev(json!({"a": "drop", "item": x, "on_audio": a}));
			}
		}
	}

	fn cb_end_event(&self, t: &mut Tracer, res: &Value, len: i64) {
		let (present, resolved): (Vec<u32>, Vec<u32>) = {
			let mut l = self.log.lock().unwrap();
			let p = l.processed.iter().copied().filter(|x| *x != WATCHER).collect();
			let r = l.resolved.iter().copied().collect();
			l.processed.clear();
			l.resolved.clear();
			(p, r)
		};
		let (present, resolves) = match self.kind.as_str() {
			// a clock is observed through id look-ups only
			"clock" => (resolved.clone(), resolved),
			"modulator" => (present, resolved),
			_ => (present, vec![]),
		};
		t.ev(json!({"a": "cb_end", "present": present, "pk": self.observes_present,
			"len": len, "resolves": resolves, "m": res}));
		self.take_drops(t);
	}

	fn gameplay_len(&self) -> i64 {
		match self.gw.ctl.status() {
			Status::Parked(_) | Status::Running => -1,
			_ => match self.gw.call(|w| json!(w.len_cap().0)) {
				Status::Done(v) => v.as_i64().unwrap_or(-1),
				_ => -1,
			},
		}
	}

	fn end(mut self, t: &mut Tracer) {
		// let unfinished calls run to their end and report how they ended
		// (step by step, so that every released slot is still reported)
		let mut guard = 0;
		if self.audio_started && self.a_pending {
			self.a_pending = false;
			// the stretch started by the last ABegin / APushUnused has not been reported yet
			let st = self.aw.wait();
			log_audio_status(&mut self, t, &st);
		}
		while let Status::Parked(_) = self.gw.ctl.status() {
			let x = self.cur_item;
			let st = self.gw.resume();
			if !log_gameplay_status(&mut self, t, &st, x, false) || guard > 100 {
				break;
			}
			guard += 1;
		}
		while self.audio_started && guard < 1000 {
			let st = match self.aw.ctl.status() {
				Status::Parked(_) => self.aw.resume(),
				_ => self.aw.wait(),
			};
			if !log_audio_status(&mut self, t, &st) {
				break;
			}
			guard += 1;
		}
		self.gw.ctl.release();
		self.aw.ctl.release();
		let _ = self.gw.wait();
		let _ = self.aw.wait();
		self.handles.lock().unwrap().clear();
		self.gw.shutdown();
		self.aw.shutdown();
	}
}

fn cb_job(r: &mut Renderer) -> Value {
	let res = run_callback(r, 4, 2);
	res.monitor(2)
}

/// log what the audio thread did up to where it is now
fn log_audio_status(s: &mut Session, t: &mut Tracer, st: &Status) -> bool {
	match st {
		Status::Parked(site) if *site == "sto.removed" => {
			let len = s.gameplay_len();
			t.ev(json!({"a": "free", "len": len}));
			true
		}
		Status::Parked(_) => {
			t.ev(json!({"a": "tau"}));
			true
		}
		Status::Done(res) => {
			s.audio_started = false;
			if res["panicked"].as_bool() == Some(true) {
				t.ev(json!({"a": "panic", "who": "audio", "msg": res["panic_msg"]}));
				return false;
			}
			let len = s.gameplay_len();
			s.cb_end_event(t, res, len);
			true
		}
		Status::Panicked(m) => {
			t.ev(json!({"a": "panic", "who": "audio", "msg": m}));
			false
		}
		_ => {
			t.ev(json!({"a": "hang", "who": "audio"}));
			false
		}
	}
}

fn log_gameplay_status(s: &mut Session, t: &mut Tracer, st: &Status, x: u32, first: bool) -> bool {
	match st {
		Status::Parked(site) => {
			if first {
				// parked after a successful reserve
				t.ev(json!({"a": "reserve", "item": x, "ok": true, "len": -1, "cap": -1, "site": site}));
			} else {
				t.ev(json!({"a": "tau"}));
				s.take_drops(t);
			}
			true
		}
		Status::Done(v) if !v.is_object() => {
			// nothing was in progress (the real code finished this call earlier than the model says)
			t.ev(json!({"a": "tau"}));
			true
		}
		Status::Done(v) => {
			let ok = v["ok"].as_bool().unwrap_or(false);
			if first {
				// creation ended without reaching a yield point: it failed (or hooks are missing)
				t.ev(json!({"a": "create", "item": x, "ok": ok, "len": v["len"], "cap": v["cap"]}));
			} else {
				t.ev(json!({"a": "push", "item": x, "len": v["len"], "cap": v["cap"]}));
			}
			s.take_drops(t);
			true
		}
		Status::Panicked(m) => {
			t.ev(json!({"a": "panic", "who": "gameplay", "msg": m}));
			false
		}
		_ => {
			t.ev(json!({"a": "hang", "who": "gameplay"}));
			false
		}
	}
}

pub fn run_scenario(sc: &Value, t: &mut Tracer) {
	let kind = sc["kind"].as_str().unwrap();
	let n = sc["n"].as_u64().unwrap() as usize;
	let racy = sc["racy"].as_bool().unwrap_or(false);
	t.reset(json!({"kind": kind, "n": n, "racy": racy, "pk": observes_present(kind), "src": sc["src"]}));
	let mut s = Session::new(kind, n);
	if kind.ends_with("_p") {
		let _ = s.gw.call(|w| {
			let zero = kira::Tween { start_time: kira::StartTime::Immediate, duration: std::time::Duration::ZERO, easing: kira::Easing::Linear };
			w.parent.as_mut().unwrap().pause(zero);
			Value::Null
		});
		for _ in 0..2 {
			let _ = s.aw.call(cb_job);
		}
		{
			let mut l = s.log.lock().unwrap();
			l.processed.clear();
			l.resolved.clear();
		}
		let paused = s.gw.call(|w| json!(format!("{:?}", w.parent.as_ref().unwrap().state())));
		t.ev(json!({"a": "tau", "parent": match paused { Status::Done(v) => v, _ => json!("?") }}));
	}
	let tag = kind_tag(kind.trim_end_matches("_p").trim_end_matches("_s"));
	s.gw.ctl.set_tag(tag);
	s.aw.ctl.set_tag(tag);
	let mut drift = 0u64;
	for step in sc["steps"].as_array().unwrap() {
		let act = step["act"].as_str().unwrap();
		let x = step["x"].as_u64().unwrap_or(0) as u32;
		let before = t.events;
		let ok = match act {
			// ------------------------------------------------ sequential
			"Create" => {
				let st = s.gw.call(move |w| {
					let ok = w.create(x);
					let (len, cap) = w.len_cap();
					json!({"ok": ok, "len": len, "cap": cap})
				});
				log_gameplay_status(&mut s, t, &st, x, true)
			}
			"CreateBad" => {
				// only sound arenas have a conversion step that can fail
				if kind != "sound" && kind != "tsound" {
					continue;
				}
				let st = s.gw.call(move |w| {
					let data = BadSoundData(ProbeSound {
						id: x,
						finished: Default::default(),
						log: w.log.clone(),
						clock_ids: Default::default(),
						mod_ids: Default::default(),
					});
					let r = if w.kind == "sound" {
						w.manager.as_mut().unwrap().play(data).is_ok()
					} else {
						w.parent.as_mut().unwrap().play(data).is_ok()
					};
					let (len, cap) = w.len_cap();
					json!({"ok": r, "len": len, "cap": cap})
				});
				match st {
					Status::Done(v) => {
						t.ev(json!({"a": "create_err", "item": x, "len": v["len"], "ok": v["ok"]}));
						s.take_drops(t);
						true
					}
					other => log_gameplay_status(&mut s, t, &other, x, true),
				}
			}
			"Mark" | "GMark" => {
				if !s.flags.lock().unwrap().contains_key(&x) {
					// creation of x failed: there is nothing to mark
					continue;
				}
				s.mark(x);
				t.ev(json!({"a": "mark", "item": x}));
				s.take_drops(t);
				true
			}
			"Len" => {
				let len = s.gameplay_len();
				t.ev(json!({"a": "len", "len": len}));
				true
			}
			"Callback" => {
				t.ev(json!({"a": "cb_begin"}));
				let st = s.aw.call(cb_job);
				log_audio_status(&mut s, t, &st)
			}
			// ------------------------------------------------ racy (Arena.tla, Replayable)
			"GReserve" => {
				s.cur_item = x;
				s.gw.start(&["ctl."], move |w| {
					let ok = w.create(x);
					let (len, cap) = w.len_cap();
					json!({"ok": ok, "len": len, "cap": cap})
				});
				let st = s.gw.wait();
				log_gameplay_status(&mut s, t, &st, x, true)
			}
			"GDrain" => {
				// the stretch try_reserve -> drain: only if the call really is parked before its drain
				// (a create path without that yield point has already drained: nothing to do)
				let x = s.cur_item;
				if let Status::Parked("ctl.reserved") = s.gw.ctl.status() {
					let st = s.gw.resume();
					log_gameplay_status(&mut s, t, &st, x, false)
				} else {
					t.ev(json!({"a": "tau"}));
					true
				}
			}
			"GPush" => {
				let x = s.cur_item;
				match s.gw.ctl.status() {
					Status::Parked(_) => {
						let st = s.gw.finish();
						log_gameplay_status(&mut s, t, &st, x, false)
					}
					_ => {
						t.ev(json!({"a": "tau"}));
						true
					}
				}
			}
			"ABegin" => {
				// if the real callback is still under way (the code did not follow the model), let it finish first
				let mut guard = 0;
				let mut alive = true;
				while s.audio_started && guard < 200 && alive {
					let st = match s.aw.ctl.status() {
						Status::Parked(_) => s.aw.resume(),
						_ => s.aw.wait(),
					};
					s.a_pending = false;
					alive = log_audio_status(&mut s, t, &st);
					guard += 1;
				}
				if !alive {
					break;
				}
				t.ev(json!({"a": "cb_begin"}));
				s.aw.start(&["sto."], cb_job);
				s.audio_started = true;
				s.a_pending = true;
				true
			}
			"AScan" => {
				// the stretch up to the next yield point has already run (see ABegin / APushUnused);
				// report where the thread stopped when that stretch ends here in the model
				let ends_stretch = step["lock"].as_bool() == Some(false);
				if ends_stretch && s.audio_started {
					s.a_pending = false;
					let st = s.aw.wait();
					log_audio_status(&mut s, t, &st)
				} else {
					t.ev(json!({"a": "tau"}));
					true
				}
			}
			// (the real callback may already be over when the model still has steps of it to go - a library that does less per
			//  callback than the model: those steps have no counterpart, nothing is reported twice)
			"APushUnused" => {
				if s.audio_started {
					s.aw.ctl.resume();
					s.a_pending = true;
				}
				t.ev(json!({"a": "tau"}));
				true
			}
			"ARefill" => {
				if s.audio_started {
					let st = s.aw.resume();
					log_audio_status(&mut s, t, &st)
				} else {
					t.ev(json!({"a": "tau"}));
					true
				}
			}
			other => panic!("unknown act {other}"),
		};
		// model conformance (drift): compare the model's event with the first real event of this step
		if step.get("ev").is_some() && t.events > before {
			// comparison is done by the checker on the trace; here we only forward the expectation
		}
		if !ok {
			break;
		}
		let _ = &mut drift;
	}
	s.end(t);
	t.ev(json!({"a": "end"}));
}

fn main() {
	let args: Vec<String> = std::env::args().collect();
	let args = &args[1..];
	quiet_panics();
	install_hook();
	let inp = arg(args, "--in").expect("--in");
	let out = arg(args, "--out").expect("--out");
	let mut t = Tracer::create(&out);
	for sc in read_scenarios(&inp) {
		run_scenario(&sc, &mut t);
	}
	t.flush();
	println!("events {}", t.events);
}
