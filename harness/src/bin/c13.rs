//! C13 driver: effect laws observed on the real built-in effects.
//!
//! Every scenario (one JSON object per line) becomes one session of the trace: a `reset`
//! event with the scenario's constants followed by the observations.  The effects are built
//! through their public builders (`EffectBuilder::build`), initialised with
//! `Effect::init(sample_rate, internal_buffer_size)` and driven with
//! `Effect::on_start_processing` + `Effect::process(&mut [Frame], dt, &Info)` exactly as the
//! renderer drives them (slices never longer than the internal buffer size, `dt = 1 / sample
//! rate`, an `Info` from `MockInfoBuilder`).  All numbers in the trace are 32-bit integers;
//! every comparison that decides a verdict is made by TLC (T_C13.tla / P_C13.tla).
//!
//!  {"kind":"dl","d":D,"fb":0|1,"ng":0|1,"nest":"none"|"vol","mix":0|1,"sc":S,"bs":B,
//!   "sub":0|1,"chunks":[[[l,r],..],..]}
//!       the delay effect at 8 Hz with a delay of D/8 s (sub = 1: D = 0 and a delay of half a frame),
//!       feedback Decibels(0) / Decibels(-60), optional VolumeControl (0 dB / -60 dB) in the feedback
//!       path, Mix::DRY / Mix::WET; samples are integers / S; one `proc` event per process call.
//!  {"kind":"law","fx":spec,"fx_dry":spec,"lin":bool,"sr":R,"n":N,"bs":B,"a":sig,"b":sig,"c":[cn,cd],
//!   "p1":part,"p2":part,"laws":[..],"cls":..,"par":".."}
//!       paired runs of one effect, each on a freshly built and initialised instance.
//!  effect spec: {"t":"filter","mode":0..3,"cutoff":f,"res":f,"mix":f} | {"t":"eq","kind":0..2,"freq":f,"gain":f,"q":f}
//!     | {"t":"delay","time_ns":u,"fb":f,"mix":f,"nested":[spec..]} | {"t":"reverb","fb":f,"damp":f,"width":f,"mix":f}
//!     | {"t":"comp","th":f,"ratio":f,"att_ns":u,"rel_ns":u,"makeup":f,"mix":f} | {"t":"dist","kind":0|1,"drive":f,"mix":f}
//!     | {"t":"vol","db":f} | {"t":"pan","p":f}
//!  signal: {"k":"noise"|"impulse"|"step"|"dc"|"full"|"denorm"|"sine"|"burst"|"zero","seed":u,"amp":f}
//!  partition: {"k":"fixed","len":L} | {"k":"rand","seed":u} | {"k":"ones"} | {"k":"ramp"}

use std::time::Duration;

use kira::{
	effect::{
		compressor::CompressorBuilder,
		delay::DelayBuilder,
		distortion::{DistortionBuilder, DistortionKind},
		eq_filter::{EqFilterBuilder, EqFilterKind},
		filter::{FilterBuilder, FilterMode},
		panning_control::PanningControlBuilder,
		reverb::ReverbBuilder,
		volume_control::VolumeControlBuilder,
		Effect, EffectBuilder,
	},
	info::{Info, MockInfoBuilder},
	Decibels, Frame, Mix, Panning, Value as KValue,
};
use serde_json::{json, Value};

use kv::common::*;

const LIM: f64 = 1073741824.0; // 2^30
const WN: usize = 32; // frames per window end

fn f(v: &Value, k: &str) -> f64 {
	v[k].as_f64().unwrap_or_else(|| panic!("number field {k} in {v}"))
}
fn u(v: &Value, k: &str) -> u64 {
	v[k].as_u64().unwrap_or_else(|| panic!("integer field {k} in {v}"))
}

fn clampi(x: f64) -> i64 {
	if x.is_nan() {
		-(LIM as i64)
	} else {
		x.max(-LIM).min(LIM) as i64
	}
}

// ------------------------------------------------------------------ building effects

fn keep<H: 'static>(h: H) {
	// the handle owns the command writers; it stays alive for the whole run
	std::mem::forget(h);
}

fn filter_b(s: &Value) -> FilterBuilder {
	let mode = [
		FilterMode::LowPass,
		FilterMode::BandPass,
		FilterMode::HighPass,
		FilterMode::Notch,
	][u(s, "mode") as usize];
	FilterBuilder::new()
		.mode(mode)
		.cutoff(f(s, "cutoff"))
		.resonance(f(s, "res"))
		.mix(Mix(f(s, "mix") as f32))
}
fn eq_b(s: &Value) -> EqFilterBuilder {
	let kind = [
		EqFilterKind::Bell,
		EqFilterKind::LowShelf,
		EqFilterKind::HighShelf,
	][u(s, "kind") as usize];
	EqFilterBuilder::new(kind, f(s, "freq"), Decibels(f(s, "gain") as f32), f(s, "q"))
}
fn reverb_b(s: &Value) -> ReverbBuilder {
	ReverbBuilder::new()
		.feedback(f(s, "fb"))
		.damping(f(s, "damp"))
		.stereo_width(f(s, "width"))
		.mix(Mix(f(s, "mix") as f32))
}
fn comp_b(s: &Value) -> CompressorBuilder {
	CompressorBuilder::new()
		.threshold(f(s, "th"))
		// 1e300 and above stands for an infinite ratio (a limiter; JSON has no infinity)
		.ratio(if f(s, "ratio") >= 1e300 { f64::INFINITY } else { f(s, "ratio") })
		.attack_duration(Duration::from_nanos(u(s, "att_ns")))
		.release_duration(Duration::from_nanos(u(s, "rel_ns")))
		.makeup_gain(Decibels(f(s, "makeup") as f32))
		.mix(Mix(f(s, "mix") as f32))
}
fn dist_b(s: &Value) -> DistortionBuilder {
	let kind = [DistortionKind::HardClip, DistortionKind::SoftClip][u(s, "kind") as usize];
	DistortionBuilder::new()
		.kind(kind)
		.drive(Decibels(f(s, "drive") as f32))
		.mix(Mix(f(s, "mix") as f32))
}
fn vol_b(s: &Value) -> VolumeControlBuilder {
	VolumeControlBuilder::new(Decibels(f(s, "db") as f32))
}
fn pan_b(s: &Value) -> PanningControlBuilder {
	PanningControlBuilder(KValue::Fixed(Panning(f(s, "p") as f32)))
}
fn delay_b(s: &Value) -> DelayBuilder {
	let mut b = DelayBuilder::new()
		.delay_time(Duration::from_nanos(u(s, "time_ns")))
		.feedback(Decibels(f(s, "fb") as f32))
		.mix(Mix(f(s, "mix") as f32));
	if let Some(nested) = s["nested"].as_array() {
		for n in nested {
			match n["t"].as_str().unwrap() {
				"filter" => keep(b.add_feedback_effect(filter_b(n))),
				"eq" => keep(b.add_feedback_effect(eq_b(n))),
				"delay" => keep(b.add_feedback_effect(delay_b(n))),
				"reverb" => keep(b.add_feedback_effect(reverb_b(n))),
				"comp" => keep(b.add_feedback_effect(comp_b(n))),
				"dist" => keep(b.add_feedback_effect(dist_b(n))),
				"vol" => keep(b.add_feedback_effect(vol_b(n))),
				"pan" => keep(b.add_feedback_effect(pan_b(n))),
				t => panic!("unknown nested effect {t}"),
			}
		}
	}
	b
}

fn built<B: EffectBuilder>(b: B) -> Box<dyn Effect>
where
	B::Handle: 'static,
{
	let (e, h) = b.build();
	keep(h);
	e
}

fn build(s: &Value) -> Box<dyn Effect> {
	match s["t"].as_str().unwrap_or("") {
		"filter" => built(filter_b(s)),
		"eq" => built(eq_b(s)),
		"delay" => built(delay_b(s)),
		"reverb" => built(reverb_b(s)),
		"comp" => built(comp_b(s)),
		"dist" => built(dist_b(s)),
		"vol" => built(vol_b(s)),
		"pan" => built(pan_b(s)),
		t => panic!("unknown effect {t}"),
	}
}

// ------------------------------------------------------------------ signals and partitions

struct Rng(u64);
impl Rng {
	fn next(&mut self) -> u64 {
		self.0 = self.0.wrapping_add(0x9E37_79B9_7F4A_7C15);
		let mut z = self.0;
		z = (z ^ (z >> 30)).wrapping_mul(0xBF58_476D_1CE4_E5B9);
		z = (z ^ (z >> 27)).wrapping_mul(0x94D0_49BB_1331_11EB);
		z ^ (z >> 31)
	}
	/// uniform in [-1, 1) on a 2^-16 grid
	fn grid(&mut self) -> f64 {
		((self.next() >> 47) as i64 - 65536) as f64 / 65536.0
	}
	fn below(&mut self, n: u64) -> u64 {
		self.next() % n.max(1)
	}
}

/// quantise to a multiple of 2^-16 (so that sums and small dyadic multiples of signals are exact in f32)
fn q16(x: f64) -> f32 {
	((x * 65536.0).round() / 65536.0) as f32
}

fn signal(s: &Value, n: usize, sr: u32) -> Vec<Frame> {
	let kind = s["k"].as_str().unwrap_or("zero");
	let mut rng = Rng(s["seed"].as_u64().unwrap_or(1));
	let amp = s["amp"].as_f64().unwrap_or(0.5);
	let mut v = vec![Frame::ZERO; n];
	match kind {
		"zero" => {}
		"noise" => {
			for fr in v.iter_mut() {
				*fr = Frame::new(q16(rng.grid() * amp), q16(rng.grid() * amp));
			}
		}
		"burst" => {
			let len = (n / 3).max(1);
			for fr in v.iter_mut().take(len) {
				*fr = Frame::new(q16(rng.grid() * amp), q16(rng.grid() * amp));
			}
		}
		"impulse" => {
			let at = if rng.below(2) == 0 { 0 } else { rng.below(n as u64) as usize };
			v[at] = Frame::new(q16(amp), q16(-amp * 0.5));
			if n > 1 && rng.below(2) == 0 {
				let at2 = rng.below(n as u64) as usize;
				v[at2] = Frame::new(q16(-amp * 0.75), q16(amp));
			}
		}
		"step" => {
			let at = rng.below((n as u64 / 2).max(1)) as usize;
			for fr in v.iter_mut().skip(at) {
				*fr = Frame::new(q16(amp), q16(amp * 0.5));
			}
		}
		"dc" => {
			for fr in v.iter_mut() {
				*fr = Frame::new(q16(amp), q16(-amp));
			}
		}
		"full" => {
			// full scale: every sample is exactly +1 or -1, in runs of random length
			let (mut l, mut r, mut left) = (1.0f32, -1.0f32, 0u64);
			for fr in v.iter_mut() {
				if left == 0 {
					let span = 1 + rng.below(64);
					left = 1 + rng.below(span);
					if rng.below(2) == 0 {
						l = -l;
					}
					if rng.below(2) == 0 {
						r = -r;
					}
				}
				left -= 1;
				*fr = Frame::new(l, r);
			}
		}
		"denorm" => {
			// subnormal f32 values (multiples of 2^-149) and the smallest normal numbers
			for fr in v.iter_mut() {
				let a = f32::from_bits((rng.below(1 << 12)) as u32 | ((rng.below(2) as u32) << 31));
				let b = match rng.below(4) {
					0 => f32::MIN_POSITIVE,
					1 => -f32::MIN_POSITIVE * 1.5,
					_ => f32::from_bits((rng.below(1 << 23)) as u32),
				};
				*fr = Frame::new(a, b);
			}
		}
		"sine" => {
			let freq = 20.0 * (1.0 + rng.below(400) as f64);
			let w = 2.0 * std::f64::consts::PI * freq / sr as f64;
			for (i, fr) in v.iter_mut().enumerate() {
				*fr = Frame::new(q16(amp * (w * i as f64).sin()), q16(amp * (w * i as f64 * 1.5).cos()));
			}
		}
		k => panic!("unknown signal kind {k}"),
	}
	v
}

fn partition(p: &Value, n: usize, bs: usize) -> Vec<usize> {
	let mut out = vec![];
	let mut left = n;
	let kind = p["k"].as_str().unwrap_or("fixed");
	let mut rng = Rng(p["seed"].as_u64().unwrap_or(7));
	let mut ramp = 0usize;
	while left > 0 {
		let want = match kind {
			"fixed" => p["len"].as_u64().unwrap_or(bs as u64) as usize,
			"ones" => 1,
			"ramp" => {
				ramp = ramp % bs + 1;
				ramp
			}
			"rand" => match rng.below(4) {
				0 => 1,
				1 => bs,
				_ => 1 + rng.below(bs as u64) as usize,
			},
			k => panic!("unknown partition kind {k}"),
		};
		let len = want.clamp(1, bs).min(left);
		out.push(len);
		left -= len;
	}
	out
}

// ------------------------------------------------------------------ running

struct Run {
	out: Vec<Frame>,
	calls: usize,
}

fn run(spec: &Value, input: &[Frame], parts: &[usize], sr: u32, bs: usize, info: &Info) -> Result<Run, String> {
	run_from(spec, input, parts, sr, sr, bs, info)
}

/// as `run`, but the effect is initialised at `sr0` and then told that the device rate is `sr`
fn run_from(spec: &Value, input: &[Frame], parts: &[usize], sr0: u32, sr: u32, bs: usize, info: &Info) -> Result<Run, String> {
	guarded(|| {
		let mut fx = build(spec);
		fx.init(sr0, bs);
		if sr0 != sr {
			fx.on_change_sample_rate(sr);
		}
		let dt = 1.0 / sr as f64;
		let mut buf = input.to_vec();
		let mut at = 0;
		for len in parts {
			fx.on_start_processing();
			fx.process(&mut buf[at..at + len], dt, info);
			at += len;
		}
		assert_eq!(at, buf.len(), "partition covers the input");
		Run {
			out: buf,
			calls: parts.len(),
		}
	})
}

fn nonfinite(v: &[Frame]) -> u64 {
	v.iter()
		.map(|x| (!x.left.is_finite()) as u64 + (!x.right.is_finite()) as u64)
		.sum()
}

fn peak(vs: &[&[Frame]]) -> f64 {
	let mut m = 0.0f64;
	for v in vs {
		for x in v.iter() {
			for s in [x.left, x.right] {
				if s.is_finite() {
					m = m.max(s.abs() as f64);
				}
			}
		}
	}
	m
}

/// integer magnitude >= 1 used as the unit of the scaled observations
fn mag_of(vs: &[&[Frame]]) -> f64 {
	peak(vs).ceil().max(1.0).min(LIM)
}

fn window_idx(n: usize) -> Vec<usize> {
	if n <= 2 * WN {
		(0..n).collect()
	} else {
		(0..WN).chain(n - WN..n).collect()
	}
}

/// window of a run in units of 1e-7 * mag, left and right interleaved
fn window(v: &[Frame], mag: f64) -> Vec<i64> {
	let mut w = vec![];
	for i in window_idx(v.len()) {
		w.push(clampi((v[i].left as f64 * 1e7 / mag).round()));
		w.push(clampi((v[i].right as f64 * 1e7 / mag).round()));
	}
	w
}

fn units_up(d: f64, mag: f64) -> i64 {
	let x = d * 1e7 / mag;
	if x.is_nan() {
		LIM as i64
	} else if x < 1e-9 {
		0
	} else {
		clampi(x.ceil())
	}
}

fn same(a: f32, b: f32) -> bool {
	a == b || (a.is_nan() && b.is_nan())
}

fn panicked(a: &str, n: usize, msg: &str) -> Value {
	let e: Vec<i64> = vec![];
	json!({"a": a, "n": n, "p": true, "msg": msg, "nf": 0, "neq": 0, "nz": 0, "nd": 0, "dev": 0, "mag": 1,
		"cn": 1, "cd": 1, "wx": e, "wy": e, "wa": e, "wb": e, "wab": e, "wca": e, "w1": e, "w2": e})
}

fn run_law(sc: &Value, tr: &mut Tracer, info: &Info) {
	let fx = &sc["fx"];
	let sr = u(sc, "sr") as u32;
	let n = u(sc, "n") as usize;
	let bs = u(sc, "bs") as usize;
	let lin = sc["lin"].as_bool().unwrap_or(false);
	tr.reset(json!({"kind": "law", "fx": fx["t"], "lin": lin, "cls": sc["cls"], "sr": sr, "n": n, "bs": bs,
		"k": sc["k"].as_i64().unwrap_or(1), "par": sc["par"], "src": sc["src"]}));
	let a = signal(&sc["a"], n, sr);
	let b = signal(&sc["b"], n, sr);
	let p1 = partition(&sc["p1"], n, bs);
	let p2 = partition(&sc["p2"], n, bs);
	let laws: Vec<&str> = sc["laws"]
		.as_array()
		.map(|l| l.iter().filter_map(|x| x.as_str()).collect())
		.unwrap_or_default();
	// the reference run T(a) with the first partition is shared by several laws
	let ta = run(fx, &a, &p1, sr, bs, info);
	for law in laws {
		let ev = match law {
			"dry" => match run(&sc["fx_dry"], &a, &p2, sr, bs, info) {
				Err(m) => panicked("dry", n, &m),
				Ok(r) => {
					let neq = a
						.iter()
						.zip(&r.out)
						.filter(|(x, y)| !(same(x.left, y.left) && same(x.right, y.right)))
						.count();
					let mag = mag_of(&[&a, &r.out]);
					json!({"a": "dry", "n": n, "p": false, "nf": nonfinite(&r.out), "neq": neq, "mag": mag as i64,
						"wx": window(&a, mag), "wy": window(&r.out, mag)})
				}
			},
			"silence" => {
				let z = vec![Frame::ZERO; n];
				match run(fx, &z, &p2, sr, bs, info) {
					Err(m) => panicked("silence", n, &m),
					Ok(r) => {
						let nz = r.out.iter().filter(|y| !(y.left == 0.0 && y.right == 0.0)).count();
						json!({"a": "silence", "n": n, "p": false, "nf": nonfinite(&r.out), "nz": nz, "mag": 1,
							"wy": window(&r.out, 1.0)})
					}
				}
			}
			// finite (and without a panic) also when the effect was built at another device rate and told the new one
			"finite_after_rate_change" => {
				let mut worst: Option<Value> = None;
				for sr0 in [sr / 8, sr * 4] {
					let ev = match run_from(fx, &a, &p1, sr0.max(1), sr, bs, info) {
						Err(m) => panicked("finite", n, &m),
						Ok(r) => json!({"a": "finite", "n": n, "p": false, "nf": nonfinite(&r.out), "calls": r.calls,
							"pk": clampi((peak(&[&r.out]) * 1000.0).ceil())}),
					};
					if worst.is_none() || ev["p"] == true || ev["nf"].as_u64().unwrap_or(0) > 0 {
						worst = Some(ev);
					}
				}
				worst.unwrap()
			}
			"finite" => match &ta {
				Err(m) => panicked("finite", n, m),
				Ok(r) => {
					json!({"a": "finite", "n": n, "p": false, "nf": nonfinite(&r.out), "calls": r.calls,
						"pk": clampi((peak(&[&r.out]) * 1000.0).ceil())})
				}
			},
			"superpose" => {
				let ab: Vec<Frame> = a.iter().zip(&b).map(|(x, y)| *x + *y).collect();
				match (&ta, run(fx, &b, &p1, sr, bs, info), run(fx, &ab, &p1, sr, bs, info)) {
					(Ok(ra), Ok(rb), Ok(rab)) => {
						let mag = mag_of(&[&a, &b, &ab, &ra.out, &rb.out, &rab.out]);
						let mut d = 0.0f64;
						for i in 0..n {
							let dl = rab.out[i].left as f64 - (ra.out[i].left as f64 + rb.out[i].left as f64);
							let dr = rab.out[i].right as f64 - (ra.out[i].right as f64 + rb.out[i].right as f64);
							d = d.max(dl.abs()).max(dr.abs());
						}
						json!({"a": "superpose", "n": n, "p": false,
							"nf": nonfinite(&ra.out) + nonfinite(&rb.out) + nonfinite(&rab.out),
							"dev": units_up(d, mag), "mag": mag as i64,
							"wa": window(&ra.out, mag), "wb": window(&rb.out, mag), "wab": window(&rab.out, mag)})
					}
					(x, y, z) => {
						let m = [x.as_ref().err().cloned(), y.err(), z.err()].into_iter().flatten().next().unwrap_or_default();
						panicked("superpose", n, &m)
					}
				}
			}
			"scale" => {
				let (cn, cd) = (sc["c"][0].as_i64().unwrap_or(2), sc["c"][1].as_i64().unwrap_or(1));
				let c = cn as f32 / cd as f32;
				let ca: Vec<Frame> = a.iter().map(|x| *x * c).collect();
				match (&ta, run(fx, &ca, &p1, sr, bs, info)) {
					(Ok(ra), Ok(rca)) => {
						let mag = mag_of(&[&a, &ca, &ra.out, &rca.out]);
						let mut d = 0.0f64;
						for i in 0..n {
							let dl = rca.out[i].left as f64 - c as f64 * ra.out[i].left as f64;
							let dr = rca.out[i].right as f64 - c as f64 * ra.out[i].right as f64;
							d = d.max(dl.abs()).max(dr.abs());
						}
						json!({"a": "scale", "n": n, "p": false, "nf": nonfinite(&ra.out) + nonfinite(&rca.out),
							"cn": cn, "cd": cd, "dev": units_up(d, mag), "mag": mag as i64,
							"wa": window(&ra.out, mag), "wca": window(&rca.out, mag)})
					}
					(x, y) => {
						let m = [x.as_ref().err().cloned(), y.err()].into_iter().flatten().next().unwrap_or_default();
						panicked("scale", n, &m)
					}
				}
			}
			"split" => match (&ta, run(fx, &a, &p2, sr, bs, info)) {
				(Ok(r1), Ok(r2)) => {
					let mag = mag_of(&[&a, &r1.out, &r2.out]);
					let (mut nd, mut d) = (0u64, 0.0f64);
					for i in 0..n {
						let (x, y) = (r1.out[i], r2.out[i]);
						if !(same(x.left, y.left) && same(x.right, y.right)) {
							nd += 1;
						}
						let dl = (x.left as f64 - y.left as f64).abs();
						let dr = (x.right as f64 - y.right as f64).abs();
						if dl.is_finite() {
							d = d.max(dl);
						}
						if dr.is_finite() {
							d = d.max(dr);
						}
					}
					json!({"a": "split", "n": n, "p": false, "nf": nonfinite(&r1.out) + nonfinite(&r2.out),
						"nd": nd, "dev": units_up(d, mag), "mag": mag as i64, "c1": r1.calls, "c2": r2.calls,
						"w1": window(&r1.out, mag), "w2": window(&r2.out, mag)})
				}
				(x, y) => {
					let m = [x.as_ref().err().cloned(), y.err()].into_iter().flatten().next().unwrap_or_default();
					panicked("split", n, &m)
				}
			},
			l => panic!("unknown law {l}"),
		};
		tr.ev(ev);
	}
}

// ------------------------------------------------------------------ delay-line replay

fn run_dl(sc: &Value, tr: &mut Tracer, info: &Info) {
	let d = u(sc, "d");
	let (fb, ng, mix) = (u(sc, "fb"), u(sc, "ng"), u(sc, "mix"));
	let scale = u(sc, "sc") as f32;
	let bs = u(sc, "bs") as usize;
	let sub = sc["sub"].as_u64().unwrap_or(0);
	let nest = sc["nest"].as_str().unwrap_or("none");
	tr.reset(json!({"kind": "dl", "d": d, "fb": fb, "ng": ng, "mix": mix, "sc": scale as i64, "bs": bs,
		"nest": nest, "sub": sub, "cls": sc["cls"], "src": sc["src"]}));
	// 8 Hz: one frame is 125 ms; `sub` asks for a delay of half a frame when d = 0
	let time = Duration::from_micros(125_000 * d + if d == 0 && sub == 1 { 62_500 } else { 0 });
	let silent = Decibels(-60.0);
	let mut b = DelayBuilder::new()
		.delay_time(time)
		.feedback(if fb == 1 { Decibels(0.0) } else { silent })
		.mix(if mix == 1 { Mix::WET } else { Mix::DRY });
	match (nest, ng) {
		("none", 1) => {}
		("vol", 1) => keep(b.add_feedback_effect(VolumeControlBuilder::new(Decibels(0.0)))),
		("vol", 0) => keep(b.add_feedback_effect(VolumeControlBuilder::new(silent))),
		_ => panic!("nest {nest} cannot realise a nested gain of {ng}"),
	}
	let mut fx = built(b);
	let mut dead = guarded(|| fx.init(8, bs)).is_err();
	for chunk in sc["chunks"].as_array().unwrap() {
		let fr: Vec<(i64, i64)> = chunk
			.as_array()
			.unwrap()
			.iter()
			.map(|p| (p[0].as_i64().unwrap(), p[1].as_i64().unwrap()))
			.collect();
		let x: Vec<i64> = fr.iter().map(|p| p.0).collect();
		let xr: Vec<i64> = fr.iter().map(|p| p.1).collect();
		let mut buf: Vec<Frame> = fr
			.iter()
			.map(|p| Frame::new(p.0 as f32 / scale, p.1 as f32 / scale))
			.collect();
		let e0: Vec<i64> = vec![];
		if dead {
			tr.ev(json!({"a": "proc", "x": x, "xr": xr, "y": e0, "yr": e0, "yx": true, "nf": 0, "p": true,
				"msg": "effect unusable after an earlier panic"}));
			continue;
		}
		let r = guarded(|| {
			fx.on_start_processing();
			fx.process(&mut buf, 0.125, info);
		});
		match r {
			Err(m) => {
				dead = true;
				tr.ev(json!({"a": "proc", "x": x, "xr": xr, "y": e0, "yr": e0, "yx": true, "nf": 0, "p": true, "msg": m}));
			}
			Ok(()) => {
				let mut exact = true;
				let mut conv = |v: f32| {
					let s = v as f64 * scale as f64;
					if !(s.is_finite() && s.fract() == 0.0 && s.abs() < LIM) {
						exact = false;
					}
					clampi(s.floor())
				};
				let y: Vec<i64> = buf.iter().map(|q| conv(q.left)).collect();
				let yr: Vec<i64> = buf.iter().map(|q| conv(q.right)).collect();
				tr.ev(json!({"a": "proc", "x": x, "xr": xr, "y": y, "yr": yr, "yx": exact, "nf": nonfinite(&buf), "p": false}));
			}
		}
	}
}

fn main() {
	let args: Vec<String> = std::env::args().collect();
	let args = &args[1..];
	quiet_panics();
	let inp = arg(args, "--in").expect("--in");
	let out = arg(args, "--out").expect("--out");
	let mut tr = Tracer::create(&out);
	let info = MockInfoBuilder::new().build();
	for sc in read_scenarios(&inp) {
		match sc["kind"].as_str().unwrap_or("") {
			"dl" => run_dl(&sc, &mut tr, &info),
			"law" => run_law(&sc, &mut tr, &info),
			k => panic!("unknown scenario kind {k}"),
		}
	}
	tr.flush();
	println!("events {}", tr.events);
}
