//! Driver for property C04 (static playback is sample-accurate).
//!
//! Reads scenarios (ndjson, one object per line), plays each of them on a real
//! `StaticSound` obtained through the public API
//! (`StaticSoundData { .. }.into_sound()` -> `Box<dyn Sound>` + handle, driven with
//! `on_start_processing` / `process(&mut [Frame], dt, &MockInfo)`), and writes one
//! ndjson event per completed action.
//!
//! scenario: { len, sl, ss, se, start, secs, lp, ls, le, rev, rq, sr, dev, steps: [...] }
//!   len      number of source frames; source frame i carries the value i + 1 on both channels
//!   sl/ss/se slice (if sl) in frames
//!   start    start position in frames (passed as seconds when `secs`, else as samples)
//!   lp/ls/le loop region (if lp) in frames; le = -1 means "end of audio"
//!   rev      StaticSoundSettings::reverse
//!   rq       initial playback rate in quarters (4 = 1.0, -2 = -0.5, 8 = 2.0)
//!   sr/dev   sample rate of the sound / of the device (dt = 1 / dev)
//! steps: {act:"Begin"} on_start_processing            -> event begin {pos, px, st}
//!        {act:"Proc", n} process(n frames)            -> events proc {n}, n x frame {v, x}, end {st, fin}
//!        {act:"SeekTo", t} / {act:"SeekBy", d}  (frames, sent as seconds)
//!        {act:"SetLoop", lp, ls, le}
//!        {act:"SetRate", rq}  (zero-duration tween)
//! Every number in the trace is a 32-bit integer: frame values are logged as
//! round(value * 256) with x = 1 when that was not exact (or the channels differ or
//! the value is not finite); positions as round(seconds * sr) with px likewise.
use std::{
	sync::{mpsc::channel, Arc, Mutex},
	time::Duration,
};

use kira::{
	info::MockInfoBuilder,
	sound::{
		static_sound::{StaticSoundData, StaticSoundHandle, StaticSoundSettings},
		EndPosition, PlaybackPosition, PlaybackState, Region, Sound, SoundData,
	},
	Frame, PlaybackRate, Tween,
};
use kv::common::*;
use serde_json::{json, Value};

fn state_name(s: PlaybackState) -> &'static str {
	match s {
		PlaybackState::Playing => "Playing",
		PlaybackState::Pausing => "Pausing",
		PlaybackState::Paused => "Paused",
		PlaybackState::WaitingToResume => "WaitingToResume",
		PlaybackState::Resuming => "Resuming",
		PlaybackState::Stopping => "Stopping",
		PlaybackState::Stopped => "Stopped",
	}
}

fn gi(v: &Value, k: &str) -> i64 {
	v.get(k).and_then(|x| x.as_i64()).unwrap_or(0)
}
fn gb(v: &Value, k: &str) -> bool {
	v.get(k).and_then(|x| x.as_bool()).unwrap_or(false)
}

fn pos_of(frames: i64, sr: u32, secs: bool) -> PlaybackPosition {
	if secs {
		PlaybackPosition::Seconds(frames as f64 / sr as f64)
	} else {
		PlaybackPosition::Samples(frames.max(0) as usize)
	}
}

fn region_of(v: &Value, sr: u32, secs: bool) -> Option<Region> {
	if !gb(v, "lp") {
		return None;
	}
	let le = gi(v, "le");
	Some(Region {
		start: pos_of(gi(v, "ls"), sr, secs),
		end: if le < 0 {
			EndPosition::EndOfAudio
		} else {
			EndPosition::Custom(pos_of(le, sr, secs))
		},
	})
}

/// exact scaled integer + inexactness flag
/// the reported position in whole frames, rounded down ("names the frame being heard to within one frame": a position
/// between two frames is as good as either); px = 1: not a usable number
fn frames_of(x: f64, scale: f64) -> (i64, i64) {
	if !x.is_finite() || (x * scale).abs() > 2.0e9 {
		return (0, 1);
	}
	// (seconds -> frames is exact only for dyadic sample rates: allow the rounding of one division)
	(((x * scale) + 1e-6).floor() as i64, 0)
}

#[allow(dead_code)]
fn scaled(x: f64, scale: f64) -> (i64, i64) {
	if !x.is_finite() {
		return (0, 1);
	}
	let s = x * scale;
	let r = s.round();
	if r.abs() > 2.0e9 {
		return (0, 1);
	}
	(r as i64, if r == s { 0 } else { 1 })
}

const TIMEOUT: Duration = Duration::from_secs(4);

fn session(sc: Value, log: Arc<Mutex<Vec<Value>>>) {
	let ev = |e: Value| log.lock().unwrap().push(e);
	let sr = gi(&sc, "sr").max(1) as u32;
	let dev = gi(&sc, "dev").max(1) as u32;
	let secs = gb(&sc, "secs");
	let len = gi(&sc, "len").max(0) as usize;
	let frames: Arc<[Frame]> = (0..len).map(|i| Frame::from_mono((i + 1) as f32)).collect();
	let settings = StaticSoundSettings::new()
		.start_position(pos_of(gi(&sc, "start"), sr, secs))
		.loop_region(region_of(&sc, sr, secs))
		.reverse(gb(&sc, "rev"))
		.playback_rate(PlaybackRate(gi(&sc, "rq") as f64 / 4.0));
	let data = StaticSoundData {
		sample_rate: sr,
		frames,
		settings,
		slice: if gb(&sc, "sl") {
			Some((gi(&sc, "ss").max(0) as usize, gi(&sc, "se").max(0) as usize))
		} else {
			None
		},
	};
	let made = guarded(move || data.into_sound());
	let (mut sound, mut handle): (Box<dyn Sound>, StaticSoundHandle) = match made {
		Ok(Ok(x)) => x,
		Ok(Err(())) => {
			ev(json!({"a": "panic", "who": "into_sound_err", "msg": ""}));
			return;
		}
		Err(msg) => {
			ev(json!({"a": "panic", "who": "new", "msg": msg}));
			return;
		}
	};
	{
		// what the handle reports before the audio thread has seen the sound
		let (pos, px) = frames_of(handle.position(), sr as f64);
		ev(json!({"a": "made", "pos": pos, "px": px}));
	}
	let info = MockInfoBuilder::new().build();
	let dt = 1.0 / dev as f64;
	let empty = vec![];
	for step in sc.get("steps").and_then(|s| s.as_array()).unwrap_or(&empty) {
		let act = step.get("act").and_then(|a| a.as_str()).unwrap_or("");
		match act {
			"Begin" => {
				if let Err(msg) = guarded(|| sound.on_start_processing()) {
					ev(json!({"a": "panic", "who": "on_start_processing", "msg": msg}));
					return;
				}
				let (pos, px) = frames_of(handle.position(), sr as f64);
				ev(json!({"a": "begin", "pos": pos, "px": px, "st": state_name(handle.state())}));
			}
			"Proc" => {
				let n = gi(step, "n").max(1) as usize;
				let mut out = vec![Frame::from_mono(f32::NAN); n];
				ev(json!({"a": "proc", "n": n}));
				if let Err(msg) = guarded(|| sound.process(&mut out, dt, &info)) {
					ev(json!({"a": "panic", "who": "process", "msg": msg}));
					return;
				}
				for f in &out {
					let (v, mut x) = scaled(f.left as f64, 256.0);
					if f.left.to_bits() != f.right.to_bits() && !(f.left == 0.0 && f.right == 0.0) {
						x = 1;
					}
					ev(json!({"a": "frame", "v": v, "x": x}));
				}
				ev(json!({"a": "end", "st": state_name(handle.state()), "fin": sound.finished()}));
			}
			"SeekTo" => {
				let t = gi(step, "t");
				handle.seek_to(t as f64 / sr as f64);
				ev(json!({"a": "seek_to", "t": t}));
			}
			"SeekBy" => {
				let d = gi(step, "d");
				handle.seek_by(d as f64 / sr as f64);
				ev(json!({"a": "seek_by", "d": d}));
			}
			"SetLoop" => {
				handle.set_loop_region(region_of(step, sr, secs));
				ev(json!({"a": "set_loop", "lp": gb(step, "lp"), "ls": gi(step, "ls"), "le": gi(step, "le")}));
			}
			"SetRate" => {
				let rq = gi(step, "rq");
				handle.set_playback_rate(
					PlaybackRate(rq as f64 / 4.0),
					Tween {
						duration: Duration::ZERO,
						..Default::default()
					},
				);
				ev(json!({"a": "set_rate", "rq": rq}));
			}
			_ => {}
		}
	}
}

fn run_scenario(sc: &Value, t: &mut Tracer, hangs: &mut u32) {
	let mut cfg = sc.clone();
	if let Some(o) = cfg.as_object_mut() {
		o.remove("steps");
		o.remove("src");
		o.remove("exp");
	}
	t.reset(cfg);
	if *hangs >= 8 {
		// each hang leaves a spinning thread behind; refuse to pile them up
		t.ev(json!({"a": "skipped"}));
		return;
	}
	let log = Arc::new(Mutex::new(Vec::<Value>::new()));
	let (tx, rx) = channel::<()>();
	let (sc2, log2) = (sc.clone(), log.clone());
	// every session runs on its own thread so that a call that never returns is data
	// (event `hang`), not a tool failure; the spinning thread is abandoned
	let th = std::thread::Builder::new()
		.name("c04-session".into())
		.spawn(move || {
			session(sc2, log2);
			let _ = tx.send(());
		})
		.unwrap();
	let hung = rx.recv_timeout(TIMEOUT).is_err();
	if !hung {
		let _ = th.join();
	}
	let evs: Vec<Value> = std::mem::take(&mut *log.lock().unwrap());
	for e in evs {
		t.ev(e);
	}
	if hung {
		*hangs += 1;
		t.ev(json!({"a": "hang"}));
	}
}

fn main() {
	let args: Vec<String> = std::env::args().collect();
	let args = &args[1..];
	quiet_panics();
	let inp = arg(args, "--in").expect("--in");
	let out = arg(args, "--out").expect("--out");
	let mut t = Tracer::create(&out);
	let mut hangs = 0u32;
	for sc in read_scenarios(&inp) {
		run_scenario(&sc, &mut t, &mut hangs);
	}
	t.flush();
	println!("events {} hangs {}", t.events, hangs);
	// abandoned (spinning) session threads must not keep the process alive
	std::process::exit(0);
}
