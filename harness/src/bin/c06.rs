//! C06 driver: tweens on the real, public `kira::Parameter<T>`.
//!
//! Scenario (one JSON object per line):
//!   {"ty": "f64"|"f32"|"db"|"pan"|"rate"|"semi"|"mix"|"dur"|"cspeed"|"vec3",
//!    "mode": "exact"|"loose", "scale": S, "den": D, "v0": n, "src": .., "clock_regress": bool,
//!    "steps": [{"a":"set","tgt":n,"dur":u,"ease":"lin"|"in"|"out"|"inout"|"free","p":k,
//!               "sk":"imm"|"del"|"clk","delay":u,"ctgt":h, ("fk","pf" for real-power easings)},
//!              {"a":"upd","dt":u,"ticking":bool,"cpos":h, ("noclock":true)}, ..]}
//! Time unit u = 1/8 s; clock positions h are half ticks.
//! exact mode: abstract value = n / S (S a power of two), every float involved is exact,
//!             observations are projected back with scale S.
//! loose mode: abstract value = n / D (arbitrary decimal values), observations are rounded
//!             projections with scale 4096 and the property-level spec compares with a tolerance.
//! The abstract value x is mapped to the concrete type by an affine map OFF + x * UNIT chosen
//! so that the concrete values are legal for the type (durations are non-negative, ...).
//!
//! Trace: {"a":"reset",..} per session, then one event per completed action:
//!   set: the arguments (target projected); upd: the arguments and, read through the public
//!   API after the call returned, value, previous value, the just-finished flag, whether the
//!   value equals the last target bit for bit, and the chunk interpolation at 0, 1/2 and 1.

use std::time::Duration;

use glam::Vec3;
use kira::{
	clock::{ClockSpeed, ClockTime},
	info::MockInfoBuilder,
	Decibels, Easing, Mix, Panning, Parameter, PlaybackRate, Semitones, StartTime, Tween, Tweenable,
	Value as KValue,
};
use serde_json::{json, Value};

use kv::common::*;

/// seconds per time unit
const TU: f64 = 0.125;
const LOOSE_SCALE: f64 = 4096.0;

trait Proj: Tweenable + Copy + 'static {
	const UNIT: f64;
	const OFF: f64;
	fn make(c: f64) -> Self;
	/// the initial value (a type may start in another unit than its targets)
	fn init(c: f64) -> Self {
		Self::make(c)
	}
	fn get(self) -> f64;
	fn same(a: Self, b: Self) -> bool;
	fn coherent(self, _loose: bool) -> bool {
		true
	}
}

impl Proj for f64 {
	const UNIT: f64 = 1.0;
	const OFF: f64 = 0.0;
	fn make(c: f64) -> Self {
		c
	}
	fn get(self) -> f64 {
		self
	}
	fn same(a: Self, b: Self) -> bool {
		a == b
	}
}

impl Proj for f32 {
	const UNIT: f64 = 1.0;
	const OFF: f64 = 0.0;
	fn make(c: f64) -> Self {
		c as f32
	}
	fn get(self) -> f64 {
		self as f64
	}
	fn same(a: Self, b: Self) -> bool {
		a == b
	}
}

impl Proj for Decibels {
	const UNIT: f64 = 1.0;
	const OFF: f64 = 0.0;
	fn make(c: f64) -> Self {
		Decibels(c as f32)
	}
	fn get(self) -> f64 {
		self.0 as f64
	}
	fn same(a: Self, b: Self) -> bool {
		a == b
	}
}

/// decibel values around and below the -60 dB "silence" mark (which is a fact about amplitudes, not about tweens)
#[derive(Clone, Copy, PartialEq)]
struct LowDb(Decibels);
impl Tweenable for LowDb {
	fn interpolate(a: Self, b: Self, amount: f64) -> Self {
		LowDb(Decibels::interpolate(a.0, b.0, amount))
	}
}
impl Proj for LowDb {
	const UNIT: f64 = 8.0;
	const OFF: f64 = -70.0;
	fn make(c: f64) -> Self {
		LowDb(Decibels(c as f32))
	}
	fn get(self) -> f64 {
		self.0 .0 as f64
	}
	fn same(a: Self, b: Self) -> bool {
		a == b
	}
}

impl Proj for Panning {
	// legal range -1..1
	const UNIT: f64 = 0.5;
	const OFF: f64 = 0.0;
	fn make(c: f64) -> Self {
		Panning(c as f32)
	}
	fn get(self) -> f64 {
		self.0 as f64
	}
	fn same(a: Self, b: Self) -> bool {
		a == b
	}
}

impl Proj for Mix {
	// legal range 0..1
	const UNIT: f64 = 0.25;
	const OFF: f64 = 0.5;
	fn make(c: f64) -> Self {
		Mix(c as f32)
	}
	fn get(self) -> f64 {
		self.0 as f64
	}
	fn same(a: Self, b: Self) -> bool {
		a == b
	}
}

impl Proj for PlaybackRate {
	const UNIT: f64 = 1.0;
	const OFF: f64 = 0.0;
	fn make(c: f64) -> Self {
		PlaybackRate(c)
	}
	fn get(self) -> f64 {
		self.0
	}
	fn same(a: Self, b: Self) -> bool {
		a == b
	}
}

impl Proj for Semitones {
	const UNIT: f64 = 1.0;
	const OFF: f64 = 0.0;
	fn make(c: f64) -> Self {
		Semitones(c)
	}
	fn get(self) -> f64 {
		self.0
	}
	fn same(a: Self, b: Self) -> bool {
		a == b
	}
}

impl Proj for Duration {
	// non-negative; 2^-9 s is the finest dyadic step that is a whole number of nanoseconds,
	// so one abstract unit is 2^11 s (scale 2^20 => quantum 2^-9 s)
	const UNIT: f64 = 2048.0;
	const OFF: f64 = 4096.0;
	fn make(c: f64) -> Self {
		Duration::from_secs_f64(c)
	}
	fn get(self) -> f64 {
		self.as_secs_f64()
	}
	fn same(a: Self, b: Self) -> bool {
		a == b
	}
}

impl Proj for ClockSpeed {
	// positive
	const UNIT: f64 = 1.0;
	const OFF: f64 = 3.0;
	fn make(c: f64) -> Self {
		ClockSpeed::TicksPerSecond(c)
	}
	fn get(self) -> f64 {
		self.as_ticks_per_second()
	}
	fn same(a: Self, b: Self) -> bool {
		a == b
	}
}

/// a clock speed that starts in ticks per second and is sent to targets in seconds per tick: the tween has to
/// run in the unit of its target (linear in seconds per tick)
#[derive(Clone, Copy, PartialEq)]
struct SpeedToSpt(ClockSpeed);
impl Tweenable for SpeedToSpt {
	fn interpolate(a: Self, b: Self, amount: f64) -> Self {
		SpeedToSpt(ClockSpeed::interpolate(a.0, b.0, amount))
	}
}
impl Proj for SpeedToSpt {
	const UNIT: f64 = 1.0;
	const OFF: f64 = 3.0;
	fn make(c: f64) -> Self {
		SpeedToSpt(ClockSpeed::SecondsPerTick(c))
	}
	fn init(c: f64) -> Self {
		SpeedToSpt(ClockSpeed::TicksPerSecond(1.0 / c))
	}
	fn get(self) -> f64 {
		self.0.as_seconds_per_tick()
	}
	fn same(a: Self, b: Self) -> bool {
		a == b
	}
}

/// ... and one that starts in seconds per tick and is sent to targets in ticks per minute
#[derive(Clone, Copy, PartialEq)]
struct SpeedToTpm(ClockSpeed);
impl Tweenable for SpeedToTpm {
	fn interpolate(a: Self, b: Self, amount: f64) -> Self {
		SpeedToTpm(ClockSpeed::interpolate(a.0, b.0, amount))
	}
}
impl Proj for SpeedToTpm {
	const UNIT: f64 = 1.0;
	const OFF: f64 = 3.0;
	fn make(c: f64) -> Self {
		SpeedToTpm(ClockSpeed::TicksPerMinute(c * 60.0))
	}
	fn init(c: f64) -> Self {
		SpeedToTpm(ClockSpeed::SecondsPerTick(1.0 / c))
	}
	fn get(self) -> f64 {
		self.0.as_ticks_per_minute() / 60.0
	}
	fn same(a: Self, b: Self) -> bool {
		a == b
	}
}

impl Proj for Vec3 {
	// (x, -x, x/2): every component must follow the same curve
	const UNIT: f64 = 1.0;
	const OFF: f64 = 0.0;
	fn make(c: f64) -> Self {
		let x = c as f32;
		Vec3::new(x, -x, x * 0.5)
	}
	fn get(self) -> f64 {
		self.x as f64
	}
	fn same(a: Self, b: Self) -> bool {
		a == b
	}
	fn coherent(self, loose: bool) -> bool {
		if loose {
			(self.y + self.x).abs() <= 1e-5 && (self.z - self.x * 0.5).abs() <= 1e-5
		} else {
			self.y == -self.x && self.z == self.x * 0.5
		}
	}
}

fn clamp_i(x: f64) -> i64 {
	if x.is_nan() {
		1_000_000_001
	} else {
		x.round().clamp(-1_000_000_000.0, 1_000_000_000.0) as i64
	}
}

fn easing_of(step: &Value) -> Easing {
	let p = step["p"].as_i64().unwrap_or(1) as i32;
	match step["ease"].as_str().unwrap_or("lin") {
		"lin" => Easing::Linear,
		"in" => Easing::InPowi(p),
		"out" => Easing::OutPowi(p),
		"inout" => Easing::InOutPowi(p),
		// real-power easings: only end points, interval and direction are checked
		"free" => {
			let pf = step["pf"].as_f64().unwrap_or(15.0) / 10.0;
			match step["fk"].as_str().unwrap_or("in") {
				"in" => Easing::InPowf(pf),
				"out" => Easing::OutPowf(pf),
				_ => Easing::InOutPowf(pf),
			}
		}
		other => panic!("unknown easing {other}"),
	}
}

fn run<T: Proj>(sc: &Value, tr: &mut Tracer) {
	let loose = sc["mode"].as_str().unwrap_or("exact") == "loose";
	let scale_in = if loose {
		sc["den"].as_f64().unwrap_or(1000.0)
	} else {
		sc["scale"].as_f64().expect("scale")
	};
	let scale_out = if loose { LOOSE_SCALE } else { scale_in };
	let conc = |n: i64| T::OFF + (n as f64 / scale_in) * T::UNIT;
	let proj = |v: T, mul: f64| clamp_i(((v.get() - T::OFF) / T::UNIT) * scale_out * mul);

	let v0 = T::init(conc(sc["v0"].as_i64().unwrap_or(0)));
	tr.reset(json!({
		"ty": sc["ty"], "mode": if loose { "loose" } else { "exact" }, "scale": scale_out as i64,
		"tol": if loose { 3 } else { 0 }, "v0": proj(v0, 1.0), "src": sc["src"],
		"clock_regress": sc["clock_regress"].as_bool().unwrap_or(false),
	}));
	let clock_id = MockInfoBuilder::new().add_clock(true, 0, 0.0);
	let mut param = Parameter::new(KValue::Fixed(v0), v0);
	let mut last_target = v0;
	for step in sc["steps"].as_array().expect("steps") {
		match step["a"].as_str().unwrap_or("") {
			"set" => {
				let tgt = T::make(conc(step["tgt"].as_i64().unwrap()));
				let dur = step["dur"].as_i64().unwrap();
				let sk = step["sk"].as_str().unwrap_or("imm");
				let delay = step["delay"].as_i64().unwrap_or(0);
				let ctgt = step["ctgt"].as_i64().unwrap_or(0);
				let start_time = match sk {
					"imm" => StartTime::Immediate,
					"del" => StartTime::Delayed(Duration::from_secs_f64(delay as f64 * TU)),
					"clk" => StartTime::ClockTime(ClockTime {
						clock: clock_id,
						ticks: (ctgt / 2) as u64,
						fraction: (ctgt % 2) as f64 * 0.5,
					}),
					other => panic!("unknown start kind {other}"),
				};
				let tween = Tween {
					start_time,
					duration: Duration::from_secs_f64(dur as f64 * TU),
					easing: easing_of(step),
				};
				match guarded(|| param.set(KValue::Fixed(tgt), tween)) {
					Ok(()) => {
						last_target = tgt;
						tr.ev(json!({"a": "set", "tgt": proj(tgt, 1.0), "dur": dur, "ease": step["ease"],
							"p": step["p"].as_i64().unwrap_or(1), "sk": sk, "delay": delay, "ctgt": ctgt}));
					}
					Err(msg) => {
						tr.ev(json!({"a": "panic", "in": "set", "msg": msg}));
						break;
					}
				}
			}
			"upd" => {
				let dt = step["dt"].as_i64().unwrap();
				let ticking = step["ticking"].as_bool().unwrap_or(true);
				let cpos = step["cpos"].as_i64().unwrap_or(0);
				let noclock = step["noclock"].as_bool().unwrap_or(false);
				// the Info shown to this update: one clock, rebuilt every time (same id)
				let mut b = MockInfoBuilder::new();
				if !noclock {
					let id = b.add_clock(ticking, (cpos / 2) as u64, (cpos % 2) as f64 * 0.5);
					assert!(id == clock_id, "mock clock ids are not stable");
				}
				let info = b.build();
				match guarded(|| param.update(dt as f64 * TU, &info)) {
					Ok(fin) => {
						let (v, pv) = (param.value(), param.previous_value());
						tr.ev(json!({"a": "upd", "dt": dt, "ticking": ticking && !noclock, "cpos": cpos,
							"val": proj(v, 1.0), "prev": proj(pv, 1.0), "fin": fin,
							"exact": T::same(v, last_target),
							"coh": v.coherent(loose) && pv.coherent(loose),
							"ia": proj(param.interpolated_value(0.0), 1.0),
							"ih": proj(param.interpolated_value(0.5), 2.0),
							"ib": proj(param.interpolated_value(1.0), 1.0)}));
					}
					Err(msg) => {
						tr.ev(json!({"a": "panic", "in": "update", "msg": msg}));
						break;
					}
				}
			}
			"init" => {}
			other => panic!("unknown step {other}"),
		}
	}
	tr.ev(json!({"a": "end"}));
}

fn main() {
	let args: Vec<String> = std::env::args().collect();
	let inp = arg(&args, "--in").expect("--in");
	let out = arg(&args, "--out").expect("--out");
	quiet_panics();
	let mut tr = Tracer::create(&out);
	for sc in read_scenarios(&inp) {
		match sc["ty"].as_str().unwrap_or("f64") {
			"f64" => run::<f64>(&sc, &mut tr),
			"f32" => run::<f32>(&sc, &mut tr),
			"db" => run::<Decibels>(&sc, &mut tr),
			"pan" => run::<Panning>(&sc, &mut tr),
			"mix" => run::<Mix>(&sc, &mut tr),
			"rate" => run::<PlaybackRate>(&sc, &mut tr),
			"semi" => run::<Semitones>(&sc, &mut tr),
			"dur" => run::<Duration>(&sc, &mut tr),
			"cspeed" => run::<ClockSpeed>(&sc, &mut tr),
			"vec3" => run::<Vec3>(&sc, &mut tr),
			"db_low" => run::<LowDb>(&sc, &mut tr),
			"cspeed_s" => run::<SpeedToSpt>(&sc, &mut tr),
			"cspeed_m" => run::<SpeedToTpm>(&sc, &mut tr),
			other => panic!("unknown type {other}"),
		}
	}
	tr.flush();
	println!("sessions={} events={}", tr.session, tr.events);
}
