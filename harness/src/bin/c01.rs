//! C01 driver: arbitrary call histories with boundary arguments; every callback is monitored for panics,
//! heap activity on the audio thread, non-finite / out-of-range samples, silent extra channels, the mono
//! mix-down and hangs.
//!
//! Scenario: {"cfg": {"buf":i,"rate":i,"ch":c,"cap":i}, "steps": [{"act": NAME, "p": [ints]}, ...]}
//! The integer parameters index the tables below (documented in spec/Surface.tla).

use std::{
	sync::mpsc::{channel, RecvTimeoutError},
	time::Duration,
};

use kira::{
	clock::{ClockHandle, ClockSpeed, ClockTime},
	effect::{
		compressor::{CompressorBuilder, CompressorHandle},
		delay::{DelayBuilder, DelayHandle},
		distortion::{DistortionBuilder, DistortionHandle, DistortionKind},
		eq_filter::{EqFilterBuilder, EqFilterHandle, EqFilterKind},
		filter::{FilterBuilder, FilterHandle, FilterMode},
		panning_control::{PanningControlBuilder, PanningControlHandle},
		reverb::{ReverbBuilder, ReverbHandle},
		volume_control::{VolumeControlBuilder, VolumeControlHandle},
	},
	listener::ListenerHandle,
	modulator::{
		lfo::{LfoBuilder, LfoHandle, Waveform},
		tweener::{TweenerBuilder, TweenerHandle},
	},
	sound::{
		static_sound::{StaticSoundData, StaticSoundHandle, StaticSoundSettings},
		streaming::{StreamingSoundData, StreamingSoundHandle},
		EndPosition, PlaybackPosition, Region,
	},
	track::{MainTrackBuilder, SendTrackBuilder, SendTrackHandle, SpatialTrackBuilder, SpatialTrackHandle, TrackBuilder, TrackHandle},
	Capacities, Decibels, Easing, Frame, Mapping, Mix, Panning, PlaybackRate, StartTime, Tween, Value as KValue,
};
use kv::{common::*, scene::*};
use serde_json::{json, Value};

const BUFS: [usize; 4] = [1, 2, 3, 128];
const RATES: [u32; 3] = [8, 100, 44100];
const CAPS: [usize; 3] = [0, 1, 4];
const CBS: [usize; 5] = [1, 2, 3, 64, 0];
const DBS: [f32; 6] = [-60.0, -6.0, 0.0, 12.0, -1.0e30, 200.0];
const PANS: [f32; 5] = [-1.0, 0.0, 1.0, 2.0, -7.5];
// (index 8 = 1e6 is only used by the dedicated known-finding scenario: callback time grows with the rate)
const PRATES: [f64; 9] = [0.0, 0.5, 1.0, 4.0, -0.5, -1.0, -4.0, 64.0, 1.0e6];
const DURS_NS: [u64; 5] = [0, 1, 1_000_000, 1_000_000_000, 3_000_000_000_000];
const SECS: [f64; 6] = [0.0, 0.1, 1.0, -1.0, 1.0e9, 0.3];
const HZ: [f64; 6] = [0.0, 1.0e-9, 50.0, 1.0e5, -3.0, 20000.0];
const UNIT: [f64; 6] = [0.0, 0.5, 1.0, -1.0, 2.0, 1.0e9];

/// delays of start times: the five durations above and the longest duration there is ("practically never")
fn delay_of(i: usize) -> Duration {
	if i % 6 == 5 {
		Duration::MAX
	} else {
		Duration::from_nanos(DURS_NS[i % 6])
	}
}

fn tw(i: usize) -> Tween {
	Tween { start_time: StartTime::Immediate, duration: Duration::from_nanos(DURS_NS[i % 5]), easing: Easing::Linear }
}
fn p(step: &Value, i: usize) -> usize {
	step["p"][i].as_u64().unwrap_or(0) as usize
}
fn region(a: usize, b: usize) -> Region {
	Region { start: PlaybackPosition::Samples(a), end: EndPosition::Custom(PlaybackPosition::Samples(b)) }
}
fn loop_of(i: usize) -> Option<Region> {
	match i {
		0 => None,
		1 => Some(Region { start: PlaybackPosition::Samples(0), end: EndPosition::EndOfAudio }),
		2 => Some(region(2, 2)),
		3 => Some(region(3, 1)),
		4 => Some(region(50, 60)),
		_ => Some(Region { start: PlaybackPosition::Samples(1), end: EndPosition::EndOfAudio }),
	}
}

enum Fx {
	Filter(FilterHandle),
	Delay(DelayHandle),
	Reverb(ReverbHandle),
	Comp(CompressorHandle),
	Dist(DistortionHandle),
	Eq(EqFilterHandle),
	Vol(VolumeControlHandle),
	Pan(PanningControlHandle),
}

#[derive(Default)]
struct Objs {
	statics: Vec<StaticSoundHandle>,
	streams: Vec<StreamingSoundHandle<String>>,
	tracks: Vec<TrackHandle>,
	spatial: Vec<SpatialTrackHandle>,
	sends: Vec<SendTrackHandle>,
	clocks: Vec<ClockHandle>,
	tweeners: Vec<TweenerHandle>,
	lfos: Vec<LfoHandle>,
	listeners: Vec<ListenerHandle>,
	fx: Vec<Fx>,
}

macro_rules! add_fx {
	($b:expr, $kind:expr, $lvl:expr, $fx:expr) => {{
		let mut b = $b;
		let l = $lvl;
		match $kind {
			0 => {}
			1 => $fx.push(Fx::Filter(b.add_effect(
				FilterBuilder::new().mode([FilterMode::LowPass, FilterMode::BandPass, FilterMode::HighPass, FilterMode::Notch][l % 4])
					.cutoff(HZ[l % 6]).resonance(UNIT[l % 6]).mix(Mix(UNIT[(l + 1) % 6] as f32)),
			))),
			2 => $fx.push(Fx::Delay(b.add_effect(
				DelayBuilder::new().delay_time(Duration::from_nanos(DURS_NS[l % 4])).feedback(Decibels(DBS[l % 4])).mix(Mix(UNIT[l % 6] as f32)),
			))),
			3 => $fx.push(Fx::Reverb(b.add_effect(
				ReverbBuilder::new().feedback(UNIT[l % 6]).damping(UNIT[(l + 2) % 6]).stereo_width(UNIT[(l + 1) % 6]).mix(Mix(UNIT[(l + 1) % 6] as f32)),
			))),
			4 => $fx.push(Fx::Comp(b.add_effect(
				CompressorBuilder::new().threshold(DBS[l % 4] as f64).ratio([1.0, 4.0, 0.0, 1.0e9][l % 4])
					.attack_duration(Duration::from_nanos(DURS_NS[l % 4])).release_duration(Duration::from_nanos(DURS_NS[(l + 1) % 4])),
			))),
			5 => $fx.push(Fx::Dist(b.add_effect(
				DistortionBuilder::new().kind([DistortionKind::HardClip, DistortionKind::SoftClip][l % 2]).drive(Decibels(DBS[l % 6])).mix(Mix(UNIT[l % 6] as f32)),
			))),
			6 => $fx.push(Fx::Eq(b.add_effect(
				EqFilterBuilder::new([EqFilterKind::Bell, EqFilterKind::LowShelf, EqFilterKind::HighShelf][l % 3], HZ[l % 6], Decibels(DBS[l % 4]), [0.0, 0.5, 1.0, 100.0][l % 4]),
			))),
			7 => $fx.push(Fx::Vol(b.add_effect(VolumeControlBuilder::new(Decibels(DBS[l % 6]))))),
			// a delay with an effect in its feedback loop: another delay / a filter / a reverb (only reached by the directed grid)
			9 | 10 | 11 => {
				let mut d = DelayBuilder::new().delay_time(Duration::from_nanos(DURS_NS[1 + l % 3])).feedback(Decibels(DBS[1 + l % 3])).mix(Mix(0.5));
				match $kind {
					9 => {
						d.add_feedback_effect(DelayBuilder::new().delay_time(Duration::from_nanos(DURS_NS[2 + l % 2])));
					}
					10 => {
						d.add_feedback_effect(FilterBuilder::new().cutoff(HZ[2 + l % 4]));
					}
					_ => {
						d.add_feedback_effect(ReverbBuilder::new());
					}
				}
				$fx.push(Fx::Delay(b.add_effect(d)));
			}
			_ => $fx.push(Fx::Pan(b.add_effect(PanningControlBuilder(KValue::Fixed(Panning(PANS[l % 5])))))),
		}
		b
	}};
}

struct Sess {
	sim: Sim,
	o: Objs,
	ch: u16,
	rate: u32,
	last_out: Vec<f32>,
}

fn do_step(s: &mut Sess, step: &Value) -> Option<Value> {
	let act = step["act"].as_str().unwrap();
	match act {
		"add_static" => {
			let len = [0usize, 1, 2, 5, 40][p(step, 0) % 5];
			let frames: Vec<Frame> = (0..len).map(|i| Frame::new(0.9 - 0.01 * i as f32, -0.8)).collect();
			let mut st = StaticSoundSettings::new()
				.start_position(PlaybackPosition::Samples([0usize, 1, 3, 9, 1000][p(step, 1) % 5]))
				.reverse(p(step, 3) % 2 == 1)
				.playback_rate(PlaybackRate(PRATES[if p(step, 4) == 99 { 8 } else { p(step, 4) % 8 }]))
				.volume(Decibels(DBS[p(step, 5) % 6]))
				.panning(Panning(PANS[p(step, 6) % 5]));
			if let Some(r) = loop_of(p(step, 2) % 6) {
				st = st.loop_region(r);
			}
			st = match p(step, 7) % 5 {
				0 => st,
				1 => st.start_time(StartTime::Delayed(Duration::ZERO)),
				2 => st.start_time(StartTime::Delayed(Duration::from_nanos(1))),
				4 => st.start_time(StartTime::Delayed(Duration::MAX)),
				_ => match s.o.clocks.last() {
					Some(c) => st.start_time(StartTime::ClockTime(ClockTime { clock: c.id(), ticks: 1, fraction: 0.5 })),
					None => st,
				},
			};
			st = match p(step, 8) % 3 {
				0 => st,
				1 => st.fade_in_tween(tw(0)),
				_ => st.fade_in_tween(tw(1)),
			};
			let data = StaticSoundData { sample_rate: [s.rate, 1, 96000][p(step, 9) % 3], frames: frames.into(), settings: st, slice: None };
			let r = match (p(step, 10) % 3, s.o.tracks.last_mut(), s.o.spatial.last_mut()) {
				(1, Some(t), _) => t.play(data),
				(2, _, Some(t)) => t.play(data),
				_ => s.sim.manager.play(data),
			};
			if let Ok(h) = r {
				s.o.statics.push(h);
			}
		}
		"add_stream" => {
			let len = [0usize, 1, 3, 40][p(step, 0) % 4];
			let (dec, _stats) = ScriptDecoder::new(len, vec![[1usize, 2, 7][p(step, 1) % 3]], p(step, 2) % 3, [0usize, 1, 2, 5][p(step, 3) % 4]);
			let mut data = StreamingSoundData::from_decoder(dec)
				.start_position(PlaybackPosition::Samples([0usize, 2, 1000][p(step, 4) % 3]))
				.playback_rate(PlaybackRate(PRATES[p(step, 5) % 8]))
				.volume(Decibels(DBS[p(step, 6) % 6]));
			if let Some(r) = loop_of(p(step, 7) % 6) {
				data = data.loop_region(r);
			}
			if let Ok(h) = s.sim.manager.play(data) {
				s.o.streams.push(h);
			}
		}
		"add_track" => {
			let b = TrackBuilder::new().volume(Decibels(DBS[p(step, 2) % 6])).persist_until_sounds_finish(p(step, 3) % 2 == 1);
			let b = add_fx!(b, p(step, 0) % 12, p(step, 1), s.o.fx);
			let b = match s.o.sends.last() {
				Some(sd) if p(step, 4) % 2 == 1 => b.with_send(sd, Decibels(DBS[p(step, 5) % 6])),
				_ => b,
			};
			// under the manager, under the newest track, or under the newest spatial track
			let r = match (p(step, 6) % 3, s.o.tracks.last_mut(), s.o.spatial.last_mut()) {
				(1, Some(t), _) => t.add_sub_track(b),
				(2, _, Some(t)) => t.add_sub_track(b),
				_ => s.sim.manager.add_sub_track(b),
			};
			if let Ok(h) = r {
				s.o.tracks.push(h);
			}
		}
		"add_send" => {
			let b = add_fx!(SendTrackBuilder::new().volume(Decibels(DBS[p(step, 2) % 6])), p(step, 0) % 12, p(step, 1), s.o.fx);
			if let Ok(h) = s.sim.manager.add_send_track(b) {
				s.o.sends.push(h);
			}
		}
		"add_listener" => {
			let v = [0.0f32, 1.0, -1.0e6, 1.0e30][p(step, 0) % 4];
			if let Ok(h) = s.sim.manager.add_listener(glam::Vec3::new(v, 0.0, v), glam::Quat::IDENTITY) {
				s.o.listeners.push(h);
			}
		}
		"add_spatial" => {
			if let Some(l) = s.o.listeners.last() {
				let v = [0.0f32, 1.0, 3.0, 1.0e30][p(step, 0) % 4];
				let d = [(1.0f32, 100.0f32), (0.0, 0.0), (5.0, 5.0), (10.0, 1.0)][p(step, 1) % 4];
				let b = SpatialTrackBuilder::new()
					.distances(d)
					.spatialization_strength([0.0f32, 0.75, 1.0, 5.0][p(step, 2) % 4])
					.attenuation_function([None, Some(Easing::Linear), Some(Easing::InPowi(2)), Some(Easing::OutPowf(0.5))][p(step, 3) % 4]);
				if let Ok(h) = s.sim.manager.add_spatial_sub_track(l, glam::Vec3::new(v, 0.0, 0.0), b) {
					s.o.spatial.push(h);
				}
			}
		}
		"add_clock" => {
			let sp = [ClockSpeed::TicksPerSecond(0.0), ClockSpeed::TicksPerSecond(2.0), ClockSpeed::SecondsPerTick(0.0), ClockSpeed::TicksPerMinute(1.0e12), ClockSpeed::SecondsPerTick(1.0e-9)][p(step, 0) % 5];
			if let Ok(mut h) = s.sim.manager.add_clock(sp) {
				if p(step, 1) % 2 == 0 {
					h.start();
				}
				s.o.clocks.push(h);
			}
		}
		"add_tweener" => {
			if let Ok(h) = s.sim.manager.add_modulator(TweenerBuilder { initial_value: UNIT[p(step, 0) % 6] }) {
				s.o.tweeners.push(h);
			}
		}
		"add_lfo" => {
			let b = LfoBuilder::new()
				.waveform([Waveform::Sine, Waveform::Triangle, Waveform::Saw, Waveform::Pulse { width: 0.0 }, Waveform::Pulse { width: 1.0 }][p(step, 0) % 5])
				.frequency(HZ[p(step, 1) % 6])
				.amplitude(UNIT[p(step, 2) % 6])
				.offset(UNIT[p(step, 3) % 6])
				.starting_phase(UNIT[p(step, 4) % 6]);
			if let Ok(h) = s.sim.manager.add_modulator(b) {
				s.o.lfos.push(h);
			}
		}
		"link" => {
			// link the newest sound's volume / rate to the newest modulator
			let id = match (s.o.tweeners.last(), s.o.lfos.last()) {
				(Some(t), _) if p(step, 0) % 2 == 0 => Some(t.id()),
				(_, Some(l)) => Some(l.id()),
				(Some(t), None) => Some(t.id()),
				_ => None,
			};
			if let (Some(id), Some(h)) = (id, s.o.statics.last_mut()) {
				let m = [(0.0, 1.0), (1.0, 0.0), (0.0, 0.0), (-1.0e9, 1.0e9)][p(step, 1) % 4];
				if p(step, 2) % 2 == 0 {
					h.set_volume(
						KValue::FromModulator { id, mapping: Mapping { input_range: m, output_range: (Decibels(-60.0), Decibels(6.0)), easing: Easing::Linear } },
						tw(p(step, 3)),
					);
				} else {
					h.set_playback_rate(
						KValue::FromModulator { id, mapping: Mapping { input_range: m, output_range: (PlaybackRate(-2.0), PlaybackRate(2.0)), easing: Easing::InPowi(2) } },
						tw(p(step, 3)),
					);
				}
			}
		}
		"snd_cmd" => {
			let (c, l, d) = (p(step, 0) % 10, p(step, 1), p(step, 2));
			if let Some(h) = s.o.statics.last_mut() {
				match c {
					0 => h.pause(tw(d)),
					1 => h.resume(tw(d)),
					2 => h.stop(tw(d)),
					3 => h.seek_to(SECS[l % 6]),
					4 => h.seek_by(SECS[l % 6]),
					5 => h.set_loop_region(loop_of(l % 6)),
					6 => h.set_volume(Decibels(DBS[l % 6]), tw(d)),
					7 => h.set_playback_rate(PlaybackRate(PRATES[l % 8]), tw(d)),
					8 => h.set_panning(Panning(PANS[l % 5]), tw(d)),
					_ => h.resume_at(StartTime::Delayed(delay_of(l)), tw(d)),
				}
			}
		}
		"str_cmd" => {
			let (c, l, d) = (p(step, 0) % 10, p(step, 1), p(step, 2));
			if let Some(h) = s.o.streams.last_mut() {
				match c {
					0 => h.pause(tw(d)),
					1 => h.resume(tw(d)),
					2 => h.stop(tw(d)),
					3 => h.seek_to(SECS[l % 6]),
					4 => h.seek_by(SECS[l % 6]),
					5 => h.set_loop_region(loop_of(l % 6)),
					6 => h.set_volume(Decibels(DBS[l % 6]), tw(d)),
					7 => h.set_playback_rate(PlaybackRate(PRATES[l % 8]), tw(d)),
					8 => h.set_panning(Panning(PANS[l % 5]), tw(d)),
					_ => {
						let _ = h.pop_error();
					}
				}
			}
		}
		"trk_cmd" => {
			let (c, l, d) = (p(step, 0) % 5, p(step, 1), p(step, 2));
			if let Some(h) = s.o.tracks.last_mut() {
				match c {
					0 => h.pause(tw(d)),
					1 => h.resume(tw(d)),
					2 => h.set_volume(Decibels(DBS[l % 6]), tw(d)),
					3 => h.resume_at(StartTime::Delayed(delay_of(l)), tw(d)),
					_ => {
						if let Some(sd) = s.o.sends.last() {
							let _ = h.set_send(sd, Decibels(DBS[l % 6]), tw(d));
						}
					}
				}
			}
			if c == 2 {
				s.sim.manager.main_track().set_volume(Decibels(DBS[(l + 1) % 6]), tw(d));
				if let Some(sd) = s.o.sends.last_mut() {
					sd.set_volume(Decibels(DBS[(l + 2) % 6]), tw(d));
				}
			}
		}
		"spa_cmd" => {
			let (c, l, d) = (p(step, 0) % 4, p(step, 1), p(step, 2));
			let v = [0.0f32, 1.0, -1.0e6, 3.0e38][l % 4];
			if let Some(h) = s.o.spatial.last_mut() {
				match c {
					0 => h.set_position(glam::Vec3::new(v, v, 0.0), tw(d)),
					1 => h.set_spatialization_strength([0.0f32, 1.0, -3.0, 9.0][l % 4], tw(d)),
					2 => h.pause(tw(d)),
					_ => h.resume(tw(d)),
				}
			}
			if let Some(h) = s.o.listeners.last_mut() {
				if c == 0 {
					h.set_position(glam::Vec3::new(0.0, v, v), tw(d));
				} else if c == 1 {
					h.set_orientation(glam::Quat::from_xyzw(v, 0.0, 1.0, 0.0), tw(d));
				}
			}
		}
		"clk_cmd" => {
			let (c, l, d) = (p(step, 0) % 4, p(step, 1), p(step, 2));
			if let Some(h) = s.o.clocks.last_mut() {
				match c {
					0 => h.start(),
					1 => h.pause(),
					2 => h.stop(),
					_ => h.set_speed([ClockSpeed::TicksPerSecond(0.0), ClockSpeed::TicksPerSecond(1.0e12), ClockSpeed::SecondsPerTick(0.0), ClockSpeed::TicksPerMinute(-60.0)][l % 4], tw(d)),
				}
			}
		}
		"mod_cmd" => {
			let (c, l, d) = (p(step, 0) % 6, p(step, 1), p(step, 2));
			if let Some(h) = s.o.tweeners.last_mut() {
				if c == 0 {
					h.set(UNIT[l % 6], tw(d));
				}
			}
			if let Some(h) = s.o.lfos.last_mut() {
				match c {
					1 => h.set_frequency(HZ[l % 6], tw(d)),
					2 => h.set_amplitude(UNIT[l % 6], tw(d)),
					3 => h.set_offset(UNIT[l % 6], tw(d)),
					4 => h.set_phase(UNIT[l % 6]),
					5 => h.set_waveform([Waveform::Sine, Waveform::Saw, Waveform::Pulse { width: 0.5 }][l % 3]),
					_ => {}
				}
			}
		}
		"fx_cmd" => {
			let (l, d) = (p(step, 0), p(step, 1));
			if let Some(f) = s.o.fx.last_mut() {
				match f {
					Fx::Filter(h) => {
						h.set_cutoff(HZ[l % 6], tw(d));
						h.set_resonance(UNIT[l % 6], tw(d));
						h.set_mix(Mix(UNIT[(l + 1) % 6] as f32), tw(d));
						h.set_mode([FilterMode::LowPass, FilterMode::Notch][l % 2]);
					}
					Fx::Delay(h) => {
						h.set_feedback(Decibels(DBS[l % 6]), tw(d));
						h.set_mix(Mix(UNIT[l % 6] as f32), tw(d));
					}
					Fx::Reverb(h) => {
						h.set_feedback(UNIT[l % 6], tw(d));
						h.set_damping(UNIT[(l + 1) % 6], tw(d));
						h.set_stereo_width(UNIT[(l + 2) % 6], tw(d));
						h.set_mix(Mix(UNIT[l % 6] as f32), tw(d));
					}
					Fx::Comp(h) => {
						h.set_threshold(DBS[l % 6] as f64, tw(d));
						h.set_ratio([1.0, 0.0, -2.0, 1.0e12][l % 4], tw(d));
						h.set_attack_duration(Duration::from_nanos(DURS_NS[l % 5]), tw(d));
						h.set_release_duration(Duration::from_nanos(DURS_NS[(l + 1) % 5]), tw(d));
						h.set_makeup_gain(Decibels(DBS[(l + 1) % 6]), tw(d));
						h.set_mix(Mix(UNIT[l % 6] as f32), tw(d));
					}
					Fx::Dist(h) => {
						h.set_drive(Decibels(DBS[l % 6]), tw(d));
						h.set_mix(Mix(UNIT[l % 6] as f32), tw(d));
						h.set_kind([DistortionKind::HardClip, DistortionKind::SoftClip][l % 2]);
					}
					Fx::Eq(h) => {
						h.set_frequency(HZ[l % 6], tw(d));
						h.set_gain(Decibels(DBS[l % 6]), tw(d));
						h.set_q([0.0, 1.0, -1.0, 1.0e9][l % 4], tw(d));
						h.set_kind([EqFilterKind::Bell, EqFilterKind::HighShelf][l % 2]);
					}
					Fx::Vol(h) => h.set_volume(Decibels(DBS[l % 6]), tw(d)),
					Fx::Pan(h) => h.set_panning(Panning(PANS[l % 5]), tw(d)),
				}
			}
		}
		"drop" => match p(step, 0) % 8 {
			0 => drop(s.o.statics.pop()),
			1 => drop(s.o.tracks.pop()),
			2 => drop(s.o.clocks.pop()),
			3 => drop(s.o.tweeners.pop()),
			4 => drop(s.o.lfos.pop()),
			5 => drop(s.o.listeners.pop()),
			6 => drop(s.o.sends.pop()),
			_ => drop(s.o.spatial.pop()),
		},
		"rate" => {
			s.rate = RATES[p(step, 0) % 3];
			s.sim.renderer.on_change_sample_rate(s.rate);
		}
		"cb" => {
			let n = CBS[p(step, 0) % 5];
			let res = run_callback(&mut s.sim.renderer, n, s.ch);
			let mut m = res.monitor(s.ch);
			m["n"] = json!(n);
			m["ch"] = json!(s.ch);
			s.last_out = res.out;
			return Some(m);
		}
		x => panic!("unknown act {x}"),
	}
	None
}

/// the session contains a compressor whose ratio is (or is set to) exactly 0 - infinite expansion, known finding D25
fn compressor_ratio_zero(sc: &Value) -> bool {
	let mut last_is_comp = false;
	for st in sc["steps"].as_array().unwrap() {
		match st["act"].as_str().unwrap() {
			"add_track" | "add_send" if p(st, 0) % 12 != 0 => {
				last_is_comp = p(st, 0) % 12 == 4;
				if last_is_comp && p(st, 1) % 4 == 2 {
					return true;
				}
			}
			"fx_cmd" if last_is_comp && p(st, 0) % 4 == 1 => return true,
			_ => {}
		}
	}
	false
}

fn run_scenario(sc: Value) -> Vec<Value> {
	let mut evs = vec![];
	let cr0 = compressor_ratio_zero(&sc);
	let c = &sc["cfg"];
	let g = |k: &str| c[k].as_u64().unwrap() as usize;
	let cap = CAPS[g("cap") % 3];
	let caps = Capacities { sub_track_capacity: cap.max(1) * 2, send_track_capacity: cap, clock_capacity: cap, modulator_capacity: cap * 2, listener_capacity: cap };
	let mb = MainTrackBuilder::new().sound_capacity(cap * 2);
	let rate = RATES[g("rate") % 3];
	let ch = (g("ch") % 8 + 1) as u16;
	let mut s = Sess { sim: Sim::new(caps, mb, BUFS[g("buf") % 4], rate), o: Default::default(), ch, rate, last_out: vec![] };
	// a stereo shadow of the same session, to check the mono mix-down and the extra channels
	// (not when a streaming sound's free-running decoder thread makes the output timing dependent)
	let deterministic = !sc["steps"].as_array().unwrap().iter().any(|x| x["act"] == "add_stream");
	let mut shadow = if ch != 2 && deterministic {
		let caps2 = Capacities { sub_track_capacity: cap.max(1) * 2, send_track_capacity: cap, clock_capacity: cap, modulator_capacity: cap * 2, listener_capacity: cap };
		Some(Sess { sim: Sim::new(caps2, MainTrackBuilder::new().sound_capacity(cap * 2), BUFS[g("buf") % 4], rate), o: Default::default(), ch: 2, rate, last_out: vec![] })
	} else {
		None
	};
	evs.push(json!({"a": "reset", "cfg": c, "src": sc["src"]}));
	for step in sc["steps"].as_array().unwrap() {
		if let Some(sh) = shadow.as_mut() {
			if guarded(|| do_step(sh, step)).is_err() {
				shadow = None;
			}
		}
		match guarded(|| do_step(&mut s, step)) {
			Ok(Some(mut m)) => {
				let mut mix_bad = 0;
				if let Some(sh) = shadow.as_ref() {
					let n = m["n"].as_u64().unwrap() as usize;
					if sh.last_out.len() == 2 * n && s.last_out.len() == ch as usize * n {
						for f in 0..n {
							let (l, r) = (sh.last_out[2 * f], sh.last_out[2 * f + 1]);
							let o = &s.last_out[ch as usize * f..ch as usize * (f + 1)];
							let same = |a: f32, b: f32| a.to_bits() == b.to_bits() || (a.is_nan() && b.is_nan());
							let ok = if ch == 1 { same(o[0], (l + r) / 2.0) } else { same(o[0], l) && same(o[1], r) };
							if !ok {
								mix_bad += 1;
							}
						}
					}
				}
				m["mix_bad"] = json!(mix_bad);
				let stop = m["panicked"] == true;
				evs.push(json!({"a": "cb", "m": m, "after": step["act"], "compressor_ratio_zero": cr0}));
				if stop {
					break;
				}
			}
			Ok(None) => evs.push(json!({"a": "call", "act": step["act"], "p": step["p"]})),
			Err(msg) => {
				// a panic in a gameplay-side call: recorded (not a callback), the session ends
				evs.push(json!({"a": "gpanic", "act": step["act"], "p": step["p"], "msg": msg}));
				break;
			}
		}
	}
	evs.push(json!({"a": "end"}));
	evs
}

fn main() {
	let args: Vec<String> = std::env::args().collect();
	quiet_panics();
	install_hook();
	let inp = arg(&args, "--in").expect("--in");
	let out = arg(&args, "--out").expect("--out");
	let mut t = Tracer::create(&out);
	for sc in read_scenarios(&inp) {
		// every session runs on its own thread under a watchdog: a callback that never returns is data
		let (tx, rx) = channel();
		let sc2 = sc.clone();
		std::thread::spawn(move || {
			let _ = tx.send(run_scenario(sc2));
		});
		match rx.recv_timeout(Duration::from_secs(8)) {
			Ok(evs) => {
				for e in evs {
					if e["a"] == "reset" {
						t.reset(e);
					} else {
						t.ev(e);
					}
				}
			}
			Err(RecvTimeoutError::Timeout) | Err(RecvTimeoutError::Disconnected) => {
				t.reset(json!({"cfg": sc["cfg"], "src": sc["src"]}));
				t.ev(json!({"a": "hang", "steps": sc["steps"]}));
				t.ev(json!({"a": "end"}));
				t.flush();
				// the stuck thread cannot be stopped: give up on the remaining scenarios
				println!("events {} (aborted after a hang)", t.events);
				std::process::exit(0);
			}
		}
	}
	t.flush();
	println!("events {}", t.events);
}
