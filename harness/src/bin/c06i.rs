//! C06 in situ: one linear tween of a parameter that lives inside the audio graph, observed frame by frame
//! at the output, under a given internal buffer size and callback pattern.
//!
//! Scenario: {"param": "track_vol|send_vol|route_vol|main_vol|sound_vol|track_pause|sound_pause|track_resume",
//!            "b": internal buffer, "pat": "b|b_plus_half|ones|threes|big", "d": tween frames, "paused": bool}
//! Scene: main <- A (route to send track S, 0 dB), S at 0 dB; a constant sound on A.  1000 Hz, so a frame is 1 ms.

use std::time::Duration;

use kira::{
	sound::static_sound::{StaticSoundData, StaticSoundSettings},
	track::{MainTrackBuilder, SendTrackBuilder, TrackBuilder},
	Capacities, Decibels, Easing, Frame, StartTime, Tween,
};
use kv::{common::*, scene::*};
use serde_json::{json, Value};

const SR: u32 = 1000;

fn tw(frames: u64) -> Tween {
	Tween { start_time: StartTime::Immediate, duration: Duration::from_millis(frames), easing: Easing::Linear }
}

fn next_n(pat: &str, b: usize) -> usize {
	match pat {
		"b" => b,
		"b_plus_half" => b + b / 2,
		"ones" => 1,
		"threes" => 3,
		_ => 4 * b + 1,
	}
}

/// a position or an orientation of a spatial scene tweened linearly; what is heard is the level of the left channel, which is
/// not linear in the tweened quantity: the two ends are measured, the monitor judges continuity and the end value
fn run_spatial(sc: &Value, t: &mut Tracer) {
	use kira::track::SpatialTrackBuilder;
	let param = sc["param"].as_str().unwrap();
	let b = sc["b"].as_u64().unwrap() as usize;
	let pat = sc["pat"].as_str().unwrap();
	let d = sc["d"].as_u64().unwrap();
	let mut sim = Sim::new(Capacities::default(), MainTrackBuilder::new(), b, SR);
	let mut listener = sim.manager.add_listener(glam::Vec3::ZERO, glam::Quat::IDENTITY).unwrap();
	let mut track = sim
		.manager
		.add_spatial_sub_track(
			listener.id(),
			glam::Vec3::new(3.0, 0.0, 1.0),
			SpatialTrackBuilder::new().distances((1.0, 10.0)).attenuation_function(Some(Easing::Linear)).spatialization_strength(0.75),
		)
		.unwrap();
	let frames: Vec<Frame> = (0..64).map(|_| Frame::from_mono(0.4)).collect();
	let _snd = track
		.play(StaticSoundData { sample_rate: SR, frames: frames.into(), settings: StaticSoundSettings::new().loop_region(..), slice: None })
		.unwrap();
	let _ = sim.callback(b);
	let base = sim.callback(b).out[0] as f64;
	match param {
		"listener_turn" => listener.set_orientation(glam::Quat::from_rotation_y(std::f32::consts::FRAC_PI_2), tw(d)),
		"listener_move" => listener.set_position(glam::Vec3::new(-4.0, 0.0, 0.0), tw(d)),
		"emitter_move" => track.set_position(glam::Vec3::new(6.0, 0.0, -2.0), tw(d)),
		x => panic!("unknown param {x}"),
	}
	let total = d as usize + 4 * b + 8;
	let mut gs: Vec<i64> = vec![];
	let mut panicked = None;
	while gs.len() < total {
		let n = next_n(pat, b);
		let res = sim.callback(n);
		if let Some(m) = res.panicked {
			panicked = Some(m);
			break;
		}
		for k in 0..n {
			let x = res.out[2 * k] as f64 / base;
			gs.push(if x <= 0.0 { -9999 } else { (2000.0 * x.log10()).round() as i64 });
		}
	}
	let to = *gs.last().unwrap_or(&0);
	t.reset(json!({"param": param, "b": b, "pat": pat, "d": d, "from": 0, "to": to, "paused": false, "frz": false, "dbl": false, "free": true, "src": sc["src"]}));
	for (f, g) in gs.iter().enumerate() {
		t.ev(json!({"a": "fr", "f": f, "pf": 0, "g": g}));
	}
	if let Some(m) = panicked {
		t.ev(json!({"a": "panic", "who": "audio", "msg": m}));
	}
	t.ev(json!({"a": "end"}));
}

fn run_scenario(sc: &Value, t: &mut Tracer) {
	let param = sc["param"].as_str().unwrap();
	if matches!(param, "listener_turn" | "listener_move" | "emitter_move") {
		return run_spatial(sc, t);
	}
	let b = sc["b"].as_u64().unwrap() as usize;
	let pat = sc["pat"].as_str().unwrap();
	let d = sc["d"].as_u64().unwrap();
	let paused = sc["paused"].as_bool().unwrap_or(false);
	let (from, to) = match param {
		"track_pause" | "sound_pause" => (0, -6000),
		"track_resume" => (-6000, 0),
		// towards exactly 0 dB (unity), from -12 dB set beforehand
		"main_vol_up" | "track_vol_up" => (-1200, 0),
		_ => (0, -2000),
	};
	// frz: the parameter sits beneath the track that gets paused (it freezes with it) - the sound's own volume
	let frz = param == "sound_vol";
	t.reset(json!({"param": param, "b": b, "pat": pat, "d": d, "from": from, "to": to, "paused": paused, "frz": frz, "dbl": sc["dbl"].as_bool().unwrap_or(false), "src": sc["src"]}));
	let mut sim = Sim::new(Capacities::default(), MainTrackBuilder::new(), b, SR);
	let mut send = sim.manager.add_send_track(SendTrackBuilder::new()).unwrap();
	let mut a = sim.manager.add_sub_track(TrackBuilder::new().with_send(&send, Decibels(0.0))).unwrap();
	let frames: Vec<Frame> = (0..64).map(|_| Frame::from_mono(0.4)).collect();
	let mut snd = a
		.play(StaticSoundData { sample_rate: SR, frames: frames.into(), settings: StaticSoundSettings::new().loop_region(..), slice: None })
		.unwrap();
	// warm-up: everything picked up, baseline amplitude (direct path + send path, equal at 0 dB)
	let _ = sim.callback(b);
	let base = sim.callback(b).out[0] as f64;
	let mut base = base;
	if param == "main_vol_up" || param == "track_vol_up" {
		if param == "main_vol_up" {
			sim.manager.main_track().set_volume(Decibels(-12.0), tw(0));
		} else {
			a.set_volume(Decibels(-12.0), tw(0));
		}
		let _ = sim.callback(b);
		let _ = sim.callback(b);
		let _ = base;
		base = base; // (gains stay relative to the 0 dB baseline measured above)
	}
	if param == "track_resume" {
		a.pause(tw(0));
		let _ = sim.callback(b);
		let _ = sim.callback(b);
	}
	// the command under test (and, if asked for, a zero-length pause of the track in the same window)
	let target = Decibels(to as f32 / 100.0);
	if sc["dbl"].as_bool().unwrap_or(false) {
		// a superseded command in the same window: another target, another duration
		let decoy = Decibels(-3.0);
		let dd = if d == 0 { 7 } else { d / 2 };
		match param {
			"track_vol" => a.set_volume(decoy, tw(dd)),
			"send_vol" => send.set_volume(decoy, tw(dd)),
			"route_vol" => a.set_send(&send, decoy, tw(dd)).unwrap(),
			"main_vol" => sim.manager.main_track().set_volume(decoy, tw(dd)),
			"sound_vol" => snd.set_volume(decoy, tw(dd)),
			x => panic!("dbl not meaningful for {x}"),
		}
	}
	match param {
		"track_vol" => a.set_volume(target, tw(d)),
		"send_vol" => send.set_volume(target, tw(d)),
		"route_vol" => a.set_send(&send, target, tw(d)).unwrap(),
		"main_vol" | "main_vol_up" => sim.manager.main_track().set_volume(target, tw(d)),
		"track_vol_up" => a.set_volume(target, tw(d)),
		"sound_vol" => snd.set_volume(target, tw(d)),
		"track_pause" => a.pause(tw(d)),
		"sound_pause" => snd.pause(tw(d)),
		"track_resume" => a.resume(tw(d)),
		x => panic!("unknown param {x}"),
	}
	if paused {
		a.pause(tw(0));
	}
	let total = d as usize + 4 * b + 8;
	let pause_len = d as usize + 2 * b;
	let mut f = 0usize; // frames rendered since the command
	let mut pf = 0usize; // of which with the track paused
	let mut is_paused = paused;
	let mut blind = 0usize; // frames after a resume that are not judged (the resume's own one-chunk ramp)
	while f < total + if paused { pause_len } else { 0 } {
		if is_paused && pf >= pause_len {
			a.resume(tw(0));
			is_paused = false;
			blind = 2 * b;
		}
		let n = next_n(pat, b);
		let res = sim.callback(n);
		if let Some(m) = res.panicked {
			t.ev(json!({"a": "panic", "who": "audio", "msg": m}));
			break;
		}
		for k in 0..n {
			let out = res.out[2 * k] as f64;
			let g = if is_paused || blind > 0 {
				9999
			} else {
				let x = match param {
					"send_vol" | "route_vol" => (out - base / 2.0) / (base / 2.0),
					_ => out / base,
				};
				if x <= 0.0 || out == 0.0 { -9999 } else { (2000.0 * x.log10()).round() as i64 }
			};
			t.ev(json!({"a": "fr", "f": f, "pf": pf, "g": g}));
			f += 1;
			if is_paused {
				pf += 1;
			}
			if blind > 0 && !is_paused {
				blind -= 1;
			}
		}
	}
	t.ev(json!({"a": "end"}));
}

fn main() {
	let args: Vec<String> = std::env::args().collect();
	quiet_panics();
	let inp = arg(&args, "--in").expect("--in");
	let out = arg(&args, "--out").expect("--out");
	let mut t = Tracer::create(&out);
	for sc in read_scenarios(&inp) {
		run_scenario(&sc, &mut t);
	}
	t.flush();
	println!("events {}", t.events);
}
