//! C02 driver: the mixer's signal flow on a real track tree with exact probes.
//!
//! Scenario: {"sc": {shape, trk, snd, fx:{main,A,B,S}, vol:{..}, rv:{A,B}, send}, "b": internal buffer size,
//!            "steps": [{"act":"Op","o":"pause|resume|finish|drop","x":..} | {"act":"Callback","n":N}]}
//! Samples are reported scaled by 2^17 (exact: every value in the scene is a dyadic rational).

use std::sync::{
	atomic::{AtomicBool, AtomicU64, Ordering},
	Arc, Mutex,
};

use kira::{
	effect::Effect,
	info::Info,
	sound::{Sound, SoundData},
	track::{MainTrackBuilder, SendTrackBuilder, TrackBuilder, TrackHandle},
	Capacities, Decibels, Frame, StartTime, Tween,
};
use kv::{common::*, scene::*};
use serde_json::{json, Value};

const SCALE: f64 = 131072.0; // 2^17

struct Probe {
	base: u32,
	count: Arc<AtomicU64>,
	asks: Arc<Mutex<Vec<usize>>>,
	finished: Arc<AtomicBool>,
}

impl Sound for Probe {
	fn process(&mut self, out: &mut [Frame], _dt: f64, _info: &Info) {
		let j0 = self.count.load(Ordering::SeqCst);
		for (i, f) in out.iter_mut().enumerate() {
			let j = j0 + i as u64;
			let v = (self.base as f64 * (1 + (j % 4)) as f64 / SCALE) as f32;
			*f = Frame::new(v, v);
		}
		self.count.store(j0 + out.len() as u64, Ordering::SeqCst);
		unarmed(|| self.asks.lock().unwrap().push(out.len()));
	}
	fn finished(&self) -> bool {
		self.finished.load(Ordering::SeqCst)
	}
}

struct ProbeData(Probe);
impl SoundData for ProbeData {
	type Error = ();
	type Handle = ();
	fn into_sound(self) -> Result<(Box<dyn Sound>, ()), ()> {
		Ok((Box::new(self.0), ()))
	}
}

struct Halve;
impl Effect for Halve {
	fn process(&mut self, input: &mut [Frame], _dt: f64, _info: &Info) {
		for f in input {
			*f *= 0.5;
		}
	}
}

fn db(v: i64) -> Decibels {
	if v == 1 {
		Decibels(0.0)
	} else {
		Decibels(-60.0)
	}
}

struct P {
	count: Arc<AtomicU64>,
	asks: Arc<Mutex<Vec<usize>>>,
	finished: Arc<AtomicBool>,
}

fn run_scenario(sc: &Value, t: &mut Tracer) {
	let s = &sc["sc"];
	let b = sc["b"].as_u64().unwrap() as usize;
	t.reset(json!({"sc": s, "b": b, "src": sc["src"]}));
	let fx = |k: &str| s["fx"][k].as_bool().unwrap();
	let vol = |k: &str| s["vol"][k].as_i64().unwrap();
	let rv = |k: &str| s["rv"][k].as_i64().unwrap();
	let has = |k: &str| s["snd"].as_array().unwrap().iter().any(|x| x == k);
	let chain = s["shape"] == "chain";
	let send = s["send"].as_bool().unwrap();
	let mut mb = MainTrackBuilder::new().volume(db(vol("main")));
	if fx("main") {
		mb = mb.with_built_effect(Box::new(Halve));
	}
	let mut sim = Sim::new(Capacities::default(), mb, b, RATE);
	let send2 = s["send2"].as_bool().unwrap_or(false);
	let rv2 = |k: &str| s["rv2"][k].as_i64().unwrap_or(-1);
	let mut send_h = if send {
		let mut sb = SendTrackBuilder::new().volume(db(vol("S")));
		if fx("S") {
			sb = sb.with_built_effect(Box::new(Halve));
		}
		Some(sim.manager.add_send_track(sb).unwrap())
	} else {
		None
	};
	let mut send2_h = if send2 { Some(sim.manager.add_send_track(SendTrackBuilder::new()).unwrap()) } else { None };
	let persist_b = s["persistB"].as_bool().unwrap_or(false);
	let tb = |name: &str| {
		let mut x = TrackBuilder::new().volume(db(vol(name))).persist_until_sounds_finish(name == "B" && persist_b);
		if fx(name) {
			x = x.with_built_effect(Box::new(Halve));
		}
		if let (Some(sh), true) = (send_h.as_ref(), rv(name) >= 0) {
			x = x.with_send(sh, db(rv(name)));
		}
		if let (Some(sh), true) = (send2_h.as_ref(), rv2(name) >= 0) {
			x = x.with_send(sh, db(rv2(name)));
		}
		x
	};
	let mut ha: Option<TrackHandle> = Some(sim.manager.add_sub_track(tb("A")).unwrap());
	let mut hb: Option<TrackHandle> = Some(if chain {
		ha.as_mut().unwrap().add_sub_track(tb("B")).unwrap()
	} else {
		sim.manager.add_sub_track(tb("B")).unwrap()
	});
	let mut probes: std::collections::BTreeMap<&str, P> = Default::default();
	for (name, base) in [("s0", 8192u32), ("s1", 512), ("s2", 32)] {
		let p = P { count: Default::default(), asks: Default::default(), finished: Default::default() };
		if has(name) {
			let data = ProbeData(Probe { base, count: p.count.clone(), asks: p.asks.clone(), finished: p.finished.clone() });
			match name {
				"s0" => sim.manager.play(data).unwrap(),
				"s1" => ha.as_mut().unwrap().play(data).unwrap(),
				_ => hb.as_mut().unwrap().play(data).unwrap(),
			}
		}
		probes.insert(name, p);
	}
	let zero = Tween { start_time: StartTime::Immediate, duration: std::time::Duration::ZERO, easing: kira::Easing::Linear };
	for step in sc["steps"].as_array().unwrap() {
		match step["act"].as_str().unwrap() {
			"Op" => {
				let o = step["o"].as_str().unwrap();
				let x = step["x"].as_str().unwrap();
				match o {
					"pause" | "resume" => {
						let h = if x == "A" { ha.as_mut() } else { hb.as_mut() };
						if let Some(h) = h {
							if o == "pause" { h.pause(zero) } else { h.resume(zero) }
						}
					}
					"finish" => probes[x].finished.store(true, Ordering::SeqCst),
					"drop" => match x {
						"S" => send_h = None,
						"S2" => send2_h = None,
						_ => {
							if x == "AB" {
								ha = None;
							}
							hb = None;
						}
					},
					_ => panic!("unknown op"),
				}
				t.ev(json!({"a": "op", "o": o, "x": x}));
			}
			"Callback" => {
				let n = step["n"].as_u64().unwrap() as usize;
				let n0: Value = probes.iter().map(|(k, p)| (k.to_string(), json!(p.count.load(Ordering::SeqCst)))).collect::<serde_json::Map<_, _>>().into();
				for p in probes.values() {
					p.asks.lock().unwrap().clear();
				}
				let res = sim.callback(n);
				let out: Vec<i64> = res
					.out
					.chunks(2)
					.map(|c| {
						let v = c[0] as f64 * SCALE;
						if v.is_finite() && c[0] == c[1] { v.round() as i64 } else { -999_999 }
					})
					.collect();
				// frames (1-based) whose value is not a whole number of units: never an exact match
				let fr: Vec<usize> = res.out.chunks(2).enumerate().filter(|(_, c)| (c[0] as f64 * SCALE).fract() != 0.0).map(|(i, _)| i + 1).collect();
				let asks: Value = probes.iter().map(|(k, p)| (k.to_string(), json!(p.asks.lock().unwrap().clone()))).collect::<serde_json::Map<_, _>>().into();
				t.ev(json!({"a": "cb", "n": n, "b": b, "out": out, "fr": fr, "asks": asks, "n0": n0,
					"panicked": res.panicked.is_some(), "m": res.monitor(2)}));
				if res.panicked.is_some() {
					break;
				}
			}
			x => panic!("unknown act {x}"),
		}
	}
	t.ev(json!({"a": "end"}));
}

/// A send track and a track routed to it are built while a callback is reading its new resources (the audio
/// thread is parked at the `sto.refill` yield point of one of the mixer's storages): whenever the track is heard,
/// its route must be heard too.  Scenario: {"mode":"racy_add","park":"sub"|"send","src":..}
fn run_racy_add(sc: &Value, t: &mut Tracer) {
	use kira::{backend::Renderer, AudioManager, AudioManagerSettings};
	let park = sc["park"].as_str().unwrap_or("sub");
	t.reset(json!({"mode": "racy_add", "park": park, "src": sc["src"]}));
	let mut manager = AudioManager::<VBackend>::new(AudioManagerSettings {
		capacities: Capacities::default(),
		main_track_builder: MainTrackBuilder::new(),
		internal_buffer_size: 4,
		backend_settings: VSettings { sample_rate: RATE },
	})
	.unwrap();
	let renderer = manager.backend_mut().renderer.take().unwrap();
	let (tx, rx) = std::sync::mpsc::channel::<Renderer>();
	tx.send(renderer).unwrap();
	let aw: Worker<Renderer> = Worker::spawn("audio", move || rx.recv().unwrap());
	// the top-level storages are told apart by the type they hold
	aw.ctl.set_tag(if park == "sub" { "track::sub::Track" } else { "track::send::SendTrack" });
	aw.start(&["sto.refill"], |r| {
		let res = run_callback(r, 4, 2);
		json!({"out": res.out})
	});
	let parked = matches!(aw.wait(), Status::Parked(_));
	// gameplay thread, while the callback is between its drains: the send track first (the route needs its id)
	let send = manager.add_send_track(SendTrackBuilder::new()).unwrap();
	let mut track = manager.add_sub_track(TrackBuilder::new().with_send(&send, Decibels(0.0))).unwrap();
	let p = P { count: Default::default(), asks: Default::default(), finished: Default::default() };
	track.play(ProbeData(Probe { base: 4096, count: p.count.clone(), asks: p.asks.clone(), finished: p.finished.clone() })).unwrap();
	aw.ctl.set_tag("");
	aw.ctl.set_sites(&[]);
	let mut outs = vec![];
	if let Status::Done(v) = aw.finish() {
		outs.push(v["out"].clone());
	}
	for _ in 0..3 {
		if let Status::Done(v) = aw.call(|r| {
			let res = run_callback(r, 4, 2);
			json!({"out": res.out})
		}) {
			outs.push(v["out"].clone());
		}
	}
	for (k, o) in outs.iter().enumerate() {
		// probe frames are base * (1 + j mod 4) / 2^17: normalise by that ramp -> 0 (not heard), 1 (direct only), 2 (direct + send)
		let vals: Vec<i64> = o
			.as_array()
			.unwrap()
			.chunks(2)
			.enumerate()
			.map(|(j, c)| {
				let x = c[0].as_f64().unwrap_or(f64::NAN) * SCALE / 4096.0 / (1 + (j % 4)) as f64;
				if x.fract() == 0.0 { x as i64 } else { -999 }
			})
			.collect();
		t.ev(json!({"a": "racycb", "k": k, "parked": parked, "paths": vals}));
	}
	drop(track);
	drop(send);
	aw.shutdown();
	t.ev(json!({"a": "end"}));
}

fn main() {
	let args: Vec<String> = std::env::args().collect();
	quiet_panics();
	install_hook();
	let inp = arg(&args, "--in").expect("--in");
	let out = arg(&args, "--out").expect("--out");
	let mut t = Tracer::create(&out);
	for sc in read_scenarios(&inp) {
		if sc["mode"] == "racy_add" {
			run_racy_add(&sc, &mut t);
		} else {
			run_scenario(&sc, &mut t);
		}
	}
	t.flush();
	println!("events {}", t.events);
}
