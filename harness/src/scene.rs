//! Helpers shared by the sound/track drivers: a single-threaded simulation of
//! manager + renderer, index-coded audio, a scriptable decoder and output
//! classification.

use std::{
	sync::{
		atomic::{AtomicBool, AtomicUsize, Ordering},
		Arc,
	},
	time::{Duration, Instant},
};

use kira::{
	backend::Renderer,
	sound::streaming::Decoder,
	track::MainTrackBuilder,
	AudioManager, AudioManagerSettings, Capacities, Frame,
};

use crate::common::*;

pub const RATE: u32 = 8; // device and sound sample rate (Hz)
pub const NF: usize = 4; // frames per internal chunk
pub const CHUNK_MS: u64 = 500; // duration of one chunk

/// index-coded audio: left = 1.0 (so the output's left channel is the gain),
/// right = (i + 1) / 256 (so right / left identifies the source frame)
pub fn coded_frame(i: usize) -> Frame {
	Frame::new(1.0, (i + 1) as f32 / 256.0)
}

pub fn coded_frames(len: usize) -> Arc<[Frame]> {
	(0..len).map(coded_frame).collect::<Vec<_>>().into()
}

pub fn chunks(d: u64) -> Duration {
	Duration::from_millis(CHUNK_MS * d)
}

pub struct Sim {
	pub manager: AudioManager<VBackend>,
	pub renderer: Renderer,
	pub callbacks: u64,
}

impl Sim {
	pub fn new(caps: Capacities, main: MainTrackBuilder, buf: usize, rate: u32) -> Sim {
		let mut manager = AudioManager::<VBackend>::new(AudioManagerSettings {
			capacities: caps,
			main_track_builder: main,
			internal_buffer_size: buf,
			backend_settings: VSettings { sample_rate: rate },
		})
		.unwrap();
		let renderer = manager.backend_mut().renderer.take().unwrap();
		Sim {
			manager,
			renderer,
			callbacks: 0,
		}
	}
	pub fn basic() -> Sim {
		Sim::new(Capacities::default(), MainTrackBuilder::new(), NF, RATE)
	}
	pub fn callback(&mut self, frames: usize) -> CbResult {
		self.callbacks += 1;
		run_callback(&mut self.renderer, frames, 2)
	}
}

/// what one callback's stereo output says about a coded sound
#[derive(Debug, Clone)]
pub struct Heard {
	pub zero: bool,
	pub mono: &'static str, // shape of the gain: up | down | flat | none
	pub g0: u8,
	pub g1: u8,
	pub idx: Vec<i64>, // source index per frame (-1 where the gain is zero)
	pub gains: Vec<f32>,
}

/// 0 silent, 1 between, 2 exactly unity, 3 above unity (only visible before the renderer's clamp, see `Tap`)
fn gain_class(g: f32) -> u8 {
	if g == 0.0 {
		0
	} else if g == 1.0 {
		2
	} else if g > 1.0 || g < 0.0 || !g.is_finite() {
		3
	} else {
		1
	}
}

/// An effect that records the frames passing through it (interleaved), e.g. on the main track: what the mixer
/// produced before the renderer clamps it.
pub struct Tap(pub Arc<std::sync::Mutex<Vec<f32>>>);
impl kira::effect::Effect for Tap {
	fn process(&mut self, input: &mut [Frame], _dt: f64, _info: &kira::info::Info) {
		let buf = &self.0;
		unarmed(|| {
			let mut b = buf.lock().unwrap();
			for f in input.iter() {
				b.push(f.left);
				b.push(f.right);
			}
		});
	}
}

pub fn hear(out: &[f32]) -> Heard {
	let gains: Vec<f32> = out.chunks(2).map(|c| c[0]).collect();
	let idx: Vec<i64> = out
		.chunks(2)
		.map(|c| {
			if c[0] > 0.0 && c[0].is_finite() {
				(c[1] / c[0] * 256.0).round() as i64 - 1
			} else {
				-1
			}
		})
		.collect();
	let zero = out.iter().all(|s| *s == 0.0);
	let up = gains.windows(2).all(|w| w[1] >= w[0]);
	let down = gains.windows(2).all(|w| w[1] <= w[0]);
	let mono = match (up, down) {
		(true, true) => "flat",
		(true, false) => "up",
		(false, true) => "down",
		_ => "none",
	};
	Heard {
		zero,
		mono,
		g0: gain_class(*gains.first().unwrap_or(&0.0)),
		g1: gain_class(*gains.last().unwrap_or(&0.0)),
		idx,
		gains,
	}
}

/// shape of the gain across a callback, taking the last gain of the previous callback into account
pub fn mono_with_prev(prev: f32, gains: &[f32]) -> &'static str {
	let mut v = vec![prev];
	v.extend_from_slice(gains);
	let up = v.windows(2).all(|w| w[1] >= w[0]);
	let down = v.windows(2).all(|w| w[1] <= w[0]);
	match (up, down) {
		(true, true) => "flat",
		(true, false) => "up",
		(false, true) => "down",
		_ => "none",
	}
}

// ---------------------------------------------------------------- scripted decoder

#[derive(Default)]
pub struct DecStats {
	pub decode_calls: AtomicUsize,
	pub seek_calls: AtomicUsize,
	pub produced: AtomicUsize,
	pub dropped: AtomicBool,
	pub dropped_in_audio: AtomicBool,
	/// the decoder is held inside decode() (see `ScriptDecoder::with_block_after`) / may go on
	pub blocked: AtomicBool,
	pub release: AtomicBool,
}

/// A decoder over `len` index-coded frames.
pub struct ScriptDecoder {
	pub len: usize,
	pub pos: usize,
	/// packet sizes, cycled
	pub packets: Vec<usize>,
	pub next_packet: usize,
	/// seeks land this many frames before the requested index (clamped at 0)
	pub seek_early: usize,
	/// fail the k-th call (1-based, decode and seek calls counted together); 0 = never
	pub fail_at: usize,
	pub calls: usize,
	/// what a decode call past the end of the stream gives: 0 = one silent frame (lenient), 1 = an error, 2 = an empty chunk
	/// (kira never asks for it: `frame_at_index` answers indices >= num_frames itself)
	pub eos: u8,
	pub block_after: Option<usize>,
	pub stats: Arc<DecStats>,
}

impl ScriptDecoder {
	/// after `n` frames have been delivered the next decode call does not return until `stats.release` is set
	pub fn with_block_after(mut self, n: usize) -> Self {
		self.block_after = Some(n);
		self
	}
	pub fn with_eos(mut self, eos: u8) -> Self {
		self.eos = eos;
		self
	}

	pub fn new(len: usize, packets: Vec<usize>, seek_early: usize, fail_at: usize) -> (Self, Arc<DecStats>) {
		let stats: Arc<DecStats> = Default::default();
		(
			ScriptDecoder {
				len,
				pos: 0,
				packets: if packets.is_empty() { vec![1] } else { packets },
				next_packet: 0,
				seek_early,
				fail_at,
				calls: 0,
				eos: 0,
				block_after: None,
				stats: stats.clone(),
			},
			stats,
		)
	}
}

impl Decoder for ScriptDecoder {
	type Error = String;
	fn sample_rate(&self) -> u32 {
		RATE
	}
	fn num_frames(&self) -> usize {
		self.len
	}
	fn decode(&mut self) -> Result<Vec<Frame>, String> {
		if let Some(n) = self.block_after {
			if self.stats.produced.load(Ordering::SeqCst) >= n {
				self.stats.blocked.store(true, Ordering::SeqCst);
				let t0 = std::time::Instant::now();
				while !self.stats.release.load(Ordering::SeqCst) && t0.elapsed() < std::time::Duration::from_secs(30) {
					std::thread::sleep(std::time::Duration::from_millis(1));
				}
				self.block_after = None;
			}
		}
		self.calls += 1;
		self.stats.decode_calls.fetch_add(1, Ordering::SeqCst);
		if self.fail_at != 0 && self.calls == self.fail_at {
			return Err(format!("scripted failure at call {}", self.calls));
		}
		let n = self.packets[self.next_packet % self.packets.len()];
		self.next_packet += 1;
		let end = (self.pos + n).min(self.len);
		let v: Vec<Frame> = (self.pos..end).map(coded_frame).collect();
		self.pos = end;
		self.stats.produced.fetch_add(v.len(), Ordering::SeqCst);
		if v.is_empty() {
			// past the end: a real decoder reports end of stream one way or another
			return match self.eos {
				1 => Err(format!("asked to decode past the end of the stream: scripted failure at call {}", self.calls)),
				2 => Ok(vec![]),
				_ => Ok(vec![Frame::ZERO]),
			};
		}
		Ok(v)
	}
	fn seek(&mut self, index: usize) -> Result<usize, String> {
		self.calls += 1;
		self.stats.seek_calls.fetch_add(1, Ordering::SeqCst);
		if self.fail_at != 0 && self.calls == self.fail_at {
			return Err(format!("scripted failure at call {}", self.calls));
		}
		let to = index.saturating_sub(self.seek_early).min(self.len);
		self.pos = to;
		Ok(to)
	}
}

impl Drop for ScriptDecoder {
	fn drop(&mut self) {
		self.stats.dropped_in_audio.store(in_audio(), Ordering::SeqCst);
		self.stats.dropped.store(true, Ordering::SeqCst);
	}
}

/// wait (bounded) until a free-running decoder thread has produced `n` frames or released its decoder
pub fn wait_produced(stats: &DecStats, n: usize, max: Duration) -> bool {
	let t0 = Instant::now();
	while stats.produced.load(Ordering::SeqCst) < n && !stats.dropped.load(Ordering::SeqCst) {
		if t0.elapsed() > max {
			return false;
		}
		std::thread::sleep(Duration::from_micros(200));
	}
	true
}

pub fn state_name(s: kira::sound::PlaybackState) -> &'static str {
	use kira::sound::PlaybackState::*;
	match s {
		Playing => "Playing",
		Pausing => "Pausing",
		Paused => "Paused",
		WaitingToResume => "WaitingToResume",
		Resuming => "Resuming",
		Stopping => "Stopping",
		Stopped => "Stopped",
	}
}
