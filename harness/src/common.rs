//! Shared machinery of the conformance harness: monitors (allocation counter,
//! panic capture, hang watchdog), a backend that hands the real `Renderer` to
//! the harness, the yield-point scheduler, and the ndjson trace writer.

use std::{
	alloc::{GlobalAlloc, Layout, System},
	cell::{Cell, RefCell},
	collections::VecDeque,
	fs::File,
	io::{BufWriter, Write},
	panic::{catch_unwind, AssertUnwindSafe},
	sync::{
		mpsc::{channel, Sender},
		Arc, Condvar, Mutex,
	},
	time::{Duration, Instant},
};

use kira::backend::{Backend, Renderer};
use serde_json::{json, Value};

// ---------------------------------------------------------------- allocator

pub struct CountingAlloc;

thread_local! {
	static ARMED: Cell<bool> = const { Cell::new(false) };
	static ALLOCS: Cell<u64> = const { Cell::new(0) };
	static FREES: Cell<u64> = const { Cell::new(0) };
	/// true while this thread is inside an audio callback
	static IN_AUDIO: Cell<bool> = const { Cell::new(false) };
}

unsafe impl GlobalAlloc for CountingAlloc {
	unsafe fn alloc(&self, l: Layout) -> *mut u8 {
		let _ = ARMED.try_with(|a| {
			if a.get() {
				let _ = ALLOCS.try_with(|c| c.set(c.get() + 1));
			}
		});
		System.alloc(l)
	}
	unsafe fn dealloc(&self, p: *mut u8, l: Layout) {
		let _ = ARMED.try_with(|a| {
			if a.get() {
				let _ = FREES.try_with(|c| c.set(c.get() + 1));
			}
		});
		System.dealloc(p, l)
	}
	unsafe fn realloc(&self, p: *mut u8, l: Layout, n: usize) -> *mut u8 {
		let _ = ARMED.try_with(|a| {
			if a.get() {
				let _ = ALLOCS.try_with(|c| c.set(c.get() + 1));
				let _ = FREES.try_with(|c| c.set(c.get() + 1));
			}
		});
		System.realloc(p, l, n)
	}
}

pub fn in_audio() -> bool {
	IN_AUDIO.with(|c| c.get())
}

/// Probes call this around their own bookkeeping so that the harness's
/// logging inside a callback is not mistaken for kira allocating.
pub fn unarmed<R>(f: impl FnOnce() -> R) -> R {
	let was = ARMED.with(|a| a.replace(false));
	let r = f();
	ARMED.with(|a| a.set(was));
	r
}

// ---------------------------------------------------------------- backend

pub struct VBackend {
	pub renderer: Option<Renderer>,
	pub rate: u32,
}

pub struct VSettings {
	pub sample_rate: u32,
}

impl Backend for VBackend {
	type Settings = VSettings;
	type Error = ();
	fn setup(s: VSettings, _internal_buffer_size: usize) -> Result<(Self, u32), ()> {
		Ok((
			VBackend {
				renderer: None,
				rate: s.sample_rate,
			},
			s.sample_rate,
		))
	}
	fn start(&mut self, renderer: Renderer) -> Result<(), ()> {
		self.renderer = Some(renderer);
		Ok(())
	}
}

#[derive(Debug, Clone, Default)]
pub struct CbResult {
	pub out: Vec<f32>,
	pub panicked: Option<String>,
	pub allocs: u64,
	pub frees: u64,
	pub wall_us: u64,
}

impl CbResult {
	/// monitor record: the observable part of property C01 for this callback
	pub fn monitor(&self, channels: u16) -> Value {
		let mut nonfinite = 0u64;
		let mut out_of_range = 0u64;
		let mut extra_nonzero = 0u64;
		for (i, s) in self.out.iter().enumerate() {
			if !s.is_finite() {
				nonfinite += 1;
			} else if *s < -1.0 || *s > 1.0 {
				out_of_range += 1;
			}
			if channels > 2 && (i % channels as usize) >= 2 && *s != 0.0 {
				extra_nonzero += 1;
			}
		}
		json!({
			"panicked": self.panicked.is_some(),
			"panic_msg": self.panicked.clone().unwrap_or_default(),
			"allocs": self.allocs, "frees": self.frees,
			"nonfinite": nonfinite, "out_of_range": out_of_range,
			"extra_nonzero": extra_nonzero, "wall_us": self.wall_us,
		})
	}
}

/// One device callback: `on_start_processing` followed by `process`, with
/// panic capture and allocation counting. The buffer is pre-filled with NaN
/// so that an unwritten sample is visible.
pub fn run_callback(r: &mut Renderer, frames: usize, channels: u16) -> CbResult {
	let mut out = vec![f32::NAN; frames * channels as usize];
	let t0 = Instant::now();
	IN_AUDIO.with(|c| c.set(true));
	ALLOCS.with(|c| c.set(0));
	FREES.with(|c| c.set(0));
	ARMED.with(|a| a.set(true));
	let res = catch_unwind(AssertUnwindSafe(|| {
		r.on_start_processing();
		r.process(&mut out, channels);
	}));
	ARMED.with(|a| a.set(false));
	IN_AUDIO.with(|c| c.set(false));
	let (allocs, frees) = (ALLOCS.with(|c| c.get()), FREES.with(|c| c.get()));
	let panicked = res.err().map(|e| panic_msg(&e));
	let (allocs, frees) = if panicked.is_some() { (0, 0) } else { (allocs, frees) };
	CbResult {
		out,
		panicked,
		allocs,
		frees,
		wall_us: t0.elapsed().as_micros() as u64,
	}
}

pub fn panic_msg(e: &Box<dyn std::any::Any + Send>) -> String {
	if let Some(s) = e.downcast_ref::<&str>() {
		s.to_string()
	} else if let Some(s) = e.downcast_ref::<String>() {
		s.clone()
	} else {
		"panic".into()
	}
}

pub fn quiet_panics() {
	if std::env::var("KV_LOUD").is_err() {
		std::panic::set_hook(Box::new(|_| {}));
	}
}

/// run `f`, capturing a panic as data
pub fn guarded<R>(f: impl FnOnce() -> R) -> Result<R, String> {
	catch_unwind(AssertUnwindSafe(f)).map_err(|e| panic_msg(&e))
}

// ---------------------------------------------------------------- scheduler

#[derive(Debug, Clone, PartialEq)]
pub enum Status {
	Idle,
	Running,
	Parked(&'static str),
	Done(Value),
	Panicked(String),
	TimedOut,
}

struct CtlState {
	status: Status,
	grant: bool,
	sites: Vec<String>, // prefixes at which this thread parks
	tag: String,        // if non-empty: park only when the site's tag contains this
}

pub struct Ctl {
	m: Mutex<CtlState>,
	cv: Condvar,
}

impl Ctl {
	pub fn new() -> Arc<Self> {
		Arc::new(Ctl {
			m: Mutex::new(CtlState {
				status: Status::Idle,
				grant: false,
				sites: vec![],
				tag: String::new(),
			}),
			cv: Condvar::new(),
		})
	}
	fn park(&self, site: &'static str, tag: &'static str) {
		let mut g = self.m.lock().unwrap();
		if !g.sites.iter().any(|p| site.starts_with(p.as_str())) {
			return;
		}
		if !g.tag.is_empty() && !tag.contains(g.tag.as_str()) {
			return;
		}
		g.status = Status::Parked(site);
		self.cv.notify_all();
		while !g.grant {
			g = self.cv.wait(g).unwrap();
		}
		g.grant = false;
		g.status = Status::Running;
	}
	pub fn set_sites(&self, sites: &[&str]) {
		self.m.lock().unwrap().sites = sites.iter().map(|s| s.to_string()).collect();
	}
	pub fn set_tag(&self, tag: &str) {
		self.m.lock().unwrap().tag = tag.to_string();
	}
	pub fn set_running(&self) {
		self.m.lock().unwrap().status = Status::Running;
	}
	fn finish(&self, s: Status) {
		let mut g = self.m.lock().unwrap();
		g.status = s;
		self.cv.notify_all();
	}
	/// wait until the thread is parked or its job ended
	pub fn wait(&self, timeout: Duration) -> Status {
		let mut g = self.m.lock().unwrap();
		let deadline = Instant::now() + timeout;
		while g.status == Status::Running {
			let now = Instant::now();
			if now >= deadline {
				return Status::TimedOut;
			}
			g = self.cv.wait_timeout(g, deadline - now).unwrap().0;
		}
		g.status.clone()
	}
	pub fn status(&self) -> Status {
		self.m.lock().unwrap().status.clone()
	}
	/// let a parked thread continue
	pub fn resume(&self) {
		let mut g = self.m.lock().unwrap();
		if let Status::Parked(_) = g.status {
			g.status = Status::Running;
			g.grant = true;
			self.cv.notify_all();
		}
	}
	/// remove all parking sites and release the thread if it is (or is about to be) parked
	pub fn release(&self) {
		let mut g = self.m.lock().unwrap();
		g.sites.clear();
		if let Status::Parked(_) = g.status {
			g.status = Status::Running;
		}
		// granted unconditionally: a thread whose bookkeeping was overwritten must never stay parked
		g.grant = true;
		self.cv.notify_all();
	}
	/// true if the thread is waiting at a yield point (whatever `status` says)
	pub fn clear_grant(&self) {
		self.m.lock().unwrap().grant = false;
	}
}

thread_local! {
	static CUR: RefCell<Option<Arc<Ctl>>> = const { RefCell::new(None) };
}

static PENDING_DEC: Mutex<VecDeque<Arc<Ctl>>> = Mutex::new(VecDeque::new());

/// number of times a decoder thread passed the `dec.pushed` point (frames pushed to a frame ring)
pub static DEC_PUSHED: std::sync::atomic::AtomicUsize = std::sync::atomic::AtomicUsize::new(0);

/// number of times a decoder thread found nothing to do: its frame ring full (`dec.wait`), or all of its audio decoded (`dec.idle`)
pub static DEC_WAITS: std::sync::atomic::AtomicUsize = std::sync::atomic::AtomicUsize::new(0);

/// the next kira decoder thread that reaches a `dec.*` yield point adopts `ctl`
pub fn expect_decoder_thread(ctl: Arc<Ctl>) {
	ctl.set_running();
	PENDING_DEC.lock().unwrap().push_back(ctl);
}

pub fn cancel_pending_decoders() {
	PENDING_DEC.lock().unwrap().clear();
}

pub fn install_hook() {
	kira::verif::set_hook(Box::new(|site, tag| {
		if site == "dec.pushed" {
			DEC_PUSHED.fetch_add(1, std::sync::atomic::Ordering::SeqCst);
			return;
		}
		if site == "dec.wait" || site == "dec.idle" {
			DEC_WAITS.fetch_add(1, std::sync::atomic::Ordering::SeqCst);
		}
		unarmed(|| {
			let ctl = CUR.with(|c| {
				let mut c = c.borrow_mut();
				if c.is_none() && site.starts_with("dec.") {
					*c = PENDING_DEC.lock().unwrap().pop_front();
				}
				c.clone()
			});
			if let Some(ctl) = ctl {
				ctl.park(site, tag);
			}
		})
	}));
}

type Job<S> = Box<dyn FnOnce(&mut S) -> Value + Send>;

/// A thread owning a state `S` that executes jobs under the yield-point scheduler.
pub struct Worker<S> {
	tx: Option<Sender<Job<S>>>,
	pub ctl: Arc<Ctl>,
	join: Option<std::thread::JoinHandle<()>>,
}

impl<S: 'static> Worker<S> {
	pub fn spawn(name: &str, init: impl FnOnce() -> S + Send + 'static) -> Self {
		let (tx, rx) = channel::<Job<S>>();
		let ctl = Ctl::new();
		let ctl2 = ctl.clone();
		let join = std::thread::Builder::new()
			.name(name.to_string())
			.spawn(move || {
				CUR.with(|c| *c.borrow_mut() = Some(ctl2.clone()));
				let mut state = init();
				while let Ok(job) = rx.recv() {
					let r = catch_unwind(AssertUnwindSafe(|| job(&mut state)));
					match r {
						Ok(v) => ctl2.finish(Status::Done(v)),
						Err(e) => ctl2.finish(Status::Panicked(panic_msg(&e))),
					}
				}
				// state dropped here, on this thread
				let _ = catch_unwind(AssertUnwindSafe(move || drop(state)));
			})
			.unwrap();
		Worker {
			tx: Some(tx),
			ctl,
			join: Some(join),
		}
	}
	/// start a job; the thread parks at yield points whose name starts with one of `sites`
	pub fn start(&self, sites: &[&str], job: impl FnOnce(&mut S) -> Value + Send + 'static) {
		// a previous job that is still parked is first run to its end (never queue behind a parked job)
		if let Status::Parked(_) = self.ctl.status() {
			let _ = self.finish();
		}
		self.ctl.clear_grant();
		self.ctl.set_sites(sites);
		self.ctl.set_running();
		self.tx.as_ref().unwrap().send(Box::new(job)).unwrap();
	}
	pub fn wait(&self) -> Status {
		self.ctl.wait(Duration::from_secs(10))
	}
	pub fn resume(&self) -> Status {
		self.ctl.resume();
		self.wait()
	}
	/// run a job to completion without parking
	pub fn call(&self, job: impl FnOnce(&mut S) -> Value + Send + 'static) -> Status {
		self.start(&[], job);
		self.wait()
	}
	/// let a parked job run to its end
	pub fn finish(&self) -> Status {
		self.ctl.release();
		self.wait()
	}
	pub fn shutdown(mut self) {
		self.ctl.release();
		self.tx.take();
		if let Some(j) = self.join.take() {
			let _ = j.join();
		}
	}
}

// ---------------------------------------------------------------- trace writer

pub struct Tracer {
	out: BufWriter<File>,
	pub session: u64,
	pub idx: u64,
	pub events: u64,
}

impl Tracer {
	pub fn create(path: &str) -> Self {
		Tracer {
			out: BufWriter::new(File::create(path).expect("create trace file")),
			session: 0,
			idx: 0,
			events: 0,
		}
	}
	/// begin a new session; `cfg` carries the session's constants
	pub fn reset(&mut self, mut cfg: Value) {
		self.session += 1;
		self.idx = 0;
		cfg["a"] = json!("reset");
		let _ = self.out.flush(); // a killed run keeps the sessions it completed
		self.ev(cfg);
	}
	pub fn ev(&mut self, mut e: Value) {
		self.idx += 1;
		self.events += 1;
		e["s"] = json!(self.session);
		e["i"] = json!(self.idx);
		serde_json::to_writer(&mut self.out, &e).unwrap();
		self.out.write_all(b"\n").unwrap();
		if std::env::var("KV_DEBUG").is_ok() {
			let _ = self.out.flush();
		}
	}
	pub fn flush(&mut self) {
		self.out.flush().unwrap();
	}
}

impl Drop for Tracer {
	fn drop(&mut self) {
		let _ = self.out.flush();
	}
}

/// read scenarios: a file with one JSON value per line (each a list of actions, or an object)
pub fn read_scenarios(path: &str) -> Vec<Value> {
	let text = std::fs::read_to_string(path).expect("read scenario file");
	text.lines()
		.filter(|l| !l.trim().is_empty())
		.map(|l| serde_json::from_str(l).expect("scenario line is JSON"))
		.collect()
}

pub fn arg(args: &[String], name: &str) -> Option<String> {
	args.iter()
		.position(|a| a == name)
		.and_then(|i| args.get(i + 1).cloned())
}
