//! `kv <driver> --in scenarios.ndjson --out trace.ndjson [...]`
mod common;
mod d_c08;

#[global_allocator]
static GLOBAL: common::CountingAlloc = common::CountingAlloc;

fn main() {
	let args: Vec<String> = std::env::args().collect();
	let driver = args.get(1).map(|s| s.as_str()).unwrap_or("");
	match driver {
		"c08" => d_c08::main(&args[2..]),
		_ => {
			eprintln!("usage: kv <driver> --in FILE --out FILE");
			std::process::exit(2);
		}
	}
}
