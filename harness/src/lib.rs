//! Conformance harness for kira: shared machinery lives in `common`; every
//! property has its own driver binary under `src/bin/` (`c08`, ...), invoked as
//! `<driver> --in scenarios.ndjson --out trace.ndjson`.
pub mod common;
pub mod scene;

#[global_allocator]
static GLOBAL: common::CountingAlloc = common::CountingAlloc;
