"""C05 - clocks keep exact audio time; clock-scheduled events fire in the right buffer; handle reads are monotone and real.

1. TLC model-checks Clock.tla (command slots, reset, two-word publication, chunked update, sounds waiting
   for a clock time, the dummy swap for own-time look-ups, reader thread interleaved at word granularity)
   against the P_C05 reference (exact time for every partition into callbacks and chunks, fire window,
   reads monotone and real).  The two known findings are named states (KnownD10, KnownD11): anything else fails.
   ClockHandle::stop is modelled as the two command writes it is, against the callback's three command reads
   (family 'racy-stop'; the read order before fix D26 must violate 'stopping resets it to zero').
2. TLC-generated behaviours - sequential histories, reader/publisher interleavings, and the directed
   witnesses of both findings - are replayed on a real clock through the manager/renderer, the reader
   parked at clk.read.mid and the audio thread at clk.pub.mid / clk.reset.mid.
3. TLC validates every recorded session against P_C05 (T_C05.tla)."""
import json
import os
import random

from lib.kvlib import *

PROP = "C05"
MANIFEST = dict(
    level="model_checking", design_ref="DESIGN.md 8 (C05), 7 (Clock), Appendix A.4",
    technique="TLA+ model of the clock (TLC: all command histories x callback/chunk partitions, reader/publisher interleavings at word granularity) against an exact reference; TLC schedules replayed on the real clock through cfg(kira_verif) yield points; TLC trace validation against P_C05; two known findings matched by signature + ClockCancel model + scheduled-start and pick-up schedules judged by TLC (P_C05C, P_C05S)",
    text="TLC checks that for every history of start/pause/stop/speed commands (immediate, or delayed by some frames of audio time that pass whether or not the clock ticks) and every partition of time into callbacks and internal chunks the published time equals speed x running time at a chunk boundary, that a sound scheduled for a clock time starts in the chunk during which the ticking clock reaches it (never late, never while paused or short), and explores every interleaving of a two-word time() read with the audio thread's two-word publication. Generated schedules are forced onto the real clock; every recorded session is validated by TLC against the same reference. Added families: ClockCancel.tla (three clocks in adjacent slots, every history of handle drops and callbacks; sounds waiting on a clock that goes away are cancelled, others are not disturbed; replayed and compared callback by callback); scheduled starts (P_C05S): every kind of thing that takes a start time - sound start, resume_at, sound / track / main-track volume tween, listener and emitter position tween, tweener, set_speed of another clock - scheduled for a tick of a clock ticking once per buffer, also on a clock that has passed the tick and is paused, and a clock + scheduled sound created while the audio thread is between two drains of its new-resource rings; start / pause written while a callback is running (Clock.tla CmdMid).",
    note="Speeds and times are dyadic (1/4 tick units) so comparisons are exact. Speed changes in the clock model are zero-length tweens, immediate or delayed by a number of frames; tweens of non-zero length (1-7 buffers, both units on either side) are observed buffer by buffer and judged by TLC against the reference integral with a tolerance of a few 1e-4 ticks (P_C05T) (the code integrates them stepwise per chunk; the statement gives no tolerance). A stop() overlapping a callback's command reads is explored at the granularity of its two command writes (cmd.w / cmd.r yield points); a stop() overlapping a time() read (second writer of the two published words) is not. Known findings D10 (torn read) and D11 (own-time speed change never fires) are listed in known_findings.json; the cancellation of sounds waiting for a clock that goes away is a model of its own (ClockCancel.tla: three clocks in adjacent slots, every history of handle drops and callbacks, replayed).")


def cfg(b, ns, speeds, targets, maxcmd, maxcb, maxrd, maxsched, own, extra, spec=None, delays=(), racy=False, reset_first=True, write_reset_first=False):
    return """SPECIFICATION %s
CONSTANTS
  B = %d
  Ns = {%s}
  Speeds = {%s}
  Targets = {%s}
  Delays = {%s}
  MaxCmd = %d
  MaxCb = %d
  MaxRd = %d
  MaxSched = %d
  OwnTime = %s
  Racy = %s
  ResetFirst = %s
  WriteResetFirst = %s
%s
CHECK_DEADLOCK FALSE
""" % (spec or ("GSpec" if "D =" in extra else "Spec"), b, ", ".join(map(str, ns)), ", ".join(map(str, speeds)),
       ", ".join(map(str, targets)), ", ".join(map(str, delays)), maxcmd, maxcb, maxrd, maxsched, "TRUE" if own else "FALSE", "TRUE" if racy else "FALSE", "TRUE" if reset_first else "FALSE", "TRUE" if write_reset_first else "FALSE", extra)


def write_cfg(name, text):
    p = os.path.join(OUT, "cfg", name)
    os.makedirs(os.path.dirname(p), exist_ok=True)
    open(p, "w").write(text)
    return p


def model_check(res, tier):
    q = tier == "quick"
    runs = [
        ("sequential", cfg(2, [1, 3], [1, 2, 4], [3, 8], 2 if q else 3, 4 if q else 5, 0, 1, False, "VIEW View\nINVARIANTS PropertyHoldsSequential InternalTimeExact")),
        ("reads", cfg(2, [1, 3], [1, 2, 4], [3], 2, 3 if q else 4, 2, 0, False, "VIEW View\nINVARIANTS PropertyHolds InternalTimeExact")),
        ("delayed", cfg(2, [1, 3], [1, 2], [3], 2 if q else 3, 4 if q else 5, 0, 0, False, "VIEW View\nINVARIANTS PropertyHoldsSequential InternalTimeExact", delays=[1, 2, 5])),
        # ClockHandle::stop as two command writes against the callback's three command reads, every interleaving
        ("racy-stop", cfg(2, [1, 3], [1, 2], [3], 3, 4 if q else 5, 0, 0, False, "VIEW View\nINVARIANTS PropertyHoldsSequential InternalTimeExact", racy=True)),
        ("own-time", cfg(2, [1, 3], [1, 2], [3, 8], 2, 4 if q else 5, 0, 0, True, "VIEW View\nINVARIANTS PropertyHoldsSequential InternalTimeExact")),
    ]
    if not q:
        runs.append(("sequential-b3", cfg(3, [2, 4, 7], [1, 2, 4], [5, 12], 3, 5, 0, 1, False, "VIEW View\nINVARIANTS PropertyHoldsSequential InternalTimeExact")))
    for name, text in runs:
        st = tlc_check("MC_Clock.tla", write_cfg("Clock_%s.cfg" % name, text), workers=8, timeout=3000, tag="c05mc")
        if st["violated"]:
            res.drift.append({"model": "Clock/" + name, "violated": st["violated"]})
        res.add_mc("Clock/" + name, st)
    # the read order before fix D26 (set_ticking, then reset) must violate "stopping resets it to zero"
    tlc_check("MC_Clock.tla", write_cfg("Clock_racy_prefix.cfg", cfg(2, [1, 3], [1, 2], [3], 3, 4, 0, 0, False, "VIEW View\nINVARIANT PropertyHoldsSequential", racy=True, reset_first=False)),
              workers=4, timeout=900, expect_violation="PropertyHoldsSequential", tag="c05w")
    tlc_check("MC_Clock.tla", write_cfg("Clock_W_RacyStop.cfg", cfg(2, [1, 3], [1, 2], [3], 3, 4, 0, 0, False, "VIEW View\nINVARIANT W_RacyStop", racy=True)),
              workers=4, timeout=900, expect_violation="W_RacyStop", tag="c05w")
    for w, own, rd, sch in (("W_Torn", False, 2, 0), ("W_Own", True, 0, 0), ("W_Fired", False, 0, 1), ("W_DelayRanOutWhileNotTicking", False, 0, 0)):
        tlc_check("MC_Clock.tla", write_cfg("Clock_%s.cfg" % w, cfg(2, [1, 3], [1, 2], [3], 2, 4, rd, sch, own, "VIEW View\nINVARIANT " + w, delays=[2])),
                  workers=4, timeout=900, expect_violation=w, tag="c05w")
    # clocks going away under scheduled sounds
    cc = "SPECIFICATION Spec\nCONSTANTS\n  N = 3\n  MaxW = %d\n  MaxCb = %d\n  SkipAfterRemoved = %s\n%s\nCHECK_DEADLOCK FALSE\n"
    mw, mcb = (3, 5) if tier == "quick" else (4, 7)
    st = tlc_check("ClockCancel.tla", write_cfg("ClockCancel.cfg", cc % (mw, mcb, "FALSE", "INVARIANTS PropertyHolds NoGhost")), workers=4, timeout=900, tag="c05cc")
    if st["violated"]:
        res.drift.append({"model": "ClockCancel", "violated": st["violated"]})
    res.add_mc("ClockCancel clocks=3 ticks<=%d callbacks<=%d" % (mw, mcb), st)
    # (a sweep that steps over the entry after a removed one lets the second of two adjacent clocks live on: rejected)
    tlc_check("ClockCancel.tla", write_cfg("ClockCancel_skip.cfg", cc % (3, 4, "TRUE", "INVARIANT PropertyHolds")), workers=4, timeout=900,
              expect_violation="PropertyHolds", tag="c05cw")
    for w in ("W_Cancelled", "W_TwoAtOnce", "W_Survivor"):
        tlc_check("ClockCancel.tla", write_cfg("ClockCancel_%s.cfg" % w, cc % (3, 4, "FALSE", "INVARIANT " + w)), workers=2, timeout=900,
                  expect_violation=w, tag="c05cw")


def generate(tier, rng):
    scen = []
    num = 60 if tier == "quick" else 2500

    full_cb = lambda n: [{"act": "ABeginR", "n": n}, {"act": "ARdSpeed"}, {"act": "ARdA"}, {"act": "ARdB"}, {"act": "APubTicks"}, {"act": "ARun"}]

    def add(bs, b, speeds, src):
        for x in bs:
            # (racy family: three more callbacks, so that a stop near the end of the history is seen to settle)
            scen.append({"b": b, "speed0": min(speeds), "src": src, "steps": x + (full_cb(1) + full_cb(3) + full_cb(1) if "racy" in src or "D26" in src else [])})
    for b, ns, speeds, targets in ((2, [1, 3, 4], [1, 2, 4], [3, 8, 13]), (4, [1, 4, 6], [1, 2], [2, 9]), (1, [1, 2], [2, 4], [4, 6])):
        base = cfg(b, ns, speeds, targets, 6, 12, 0, 1, False, "  D = 28\nCONSTRAINT Bound\nINVARIANT Dump\n", delays=[1, 3, 6])
        add(tlc_generate("Gen_Clock.tla", write_cfg("Gen_Clock_seq_%d.cfg" % b, base), "sim", num=num * 3, depth=36, tag="c05g")[:num * 3], b, speeds, "tlc-sim")
        base = cfg(b, ns, speeds, targets, 4, 10, 8, 0, False, "  D = 34\nCONSTRAINT Bound\nINVARIANT Dump\n")
        add(tlc_generate("Gen_Clock.tla", write_cfg("Gen_Clock_rd_%d.cfg" % b, base), "sim", num=num, depth=36, tag="c05g")[:num * 2], b, speeds, "tlc-sim-reads")
        base = cfg(b, ns, speeds, targets, 3, 8, 0, 0, True, "  D = 18\nCONSTRAINT Bound\nINVARIANT Dump\n")
        add(tlc_generate("Gen_Clock.tla", write_cfg("Gen_Clock_own_%d.cfg" % b, base), "sim", num=num // 3, depth=28, tag="c05g")[:num], b, speeds, "tlc-sim-own")
        # stop() split into its two writes, the callback's command reads one by one
        base = cfg(b, ns, speeds, targets, 4, 8, 0, 0, False, "  D = 30\nCONSTRAINT Bound\nINVARIANT Dump\n", racy=True)
        add(tlc_generate("Gen_Clock.tla", write_cfg("Gen_Clock_racy_%d.cfg" % b, base), "sim", num=num * 8, depth=32, tag="c05g")[:num * 2], b, speeds, "tlc-sim-racy-stop")
    # directed witness of D26 (fixed): the shortest schedule on which the read order before the fix loses the reset
    add(tlc_generate("Gen_Clock.tla", write_cfg("Gen_Clock_d26.cfg", cfg(2, [1, 3], [1, 2], [3], 3, 4, 0, 0, False,
        "  D = 40\nCONSTRAINT Bound\nVIEW GView\nINVARIANT WG_D26\n", racy=True, reset_first=False)), "bfs", tag="c05g")[:1], 2, [1, 2], "tlc-WG_D26")
    # directed witness of the other half of that protocol: were stop() to write reset before set_ticking(false), the
    # same property would break - the shortest such schedule is replayed on the real handle (which writes in the right order)
    add(tlc_generate("Gen_Clock.tla", write_cfg("Gen_Clock_stoporder.cfg", cfg(2, [1, 3], [1, 2], [3], 3, 5, 0, 0, False,
        "  D = 44\nCONSTRAINT Bound\nVIEW GView\nINVARIANT WG_D26\n", racy=True, write_reset_first=True)), "bfs", tag="c05g")[:1], 2, [1, 2], "tlc-WG_D26-write-order")
    # directed witnesses of the two known findings (shortest schedules)
    add(tlc_generate("Gen_Clock.tla", write_cfg("Gen_Clock_torn.cfg", cfg(2, [1, 3], [1, 2], [3], 2, 4, 2, 0, False,
        "  D = 40\nCONSTRAINT Bound\nVIEW GView\nINVARIANT WG_Torn\n")), "bfs", tag="c05g")[:1], 2, [1, 2], "tlc-WG_Torn")
    add(tlc_generate("Gen_Clock.tla", write_cfg("Gen_Clock_own.cfg", cfg(2, [1, 3], [1, 2], [3], 2, 5, 0, 0, True,
        "  D = 40\nCONSTRAINT Bound\nVIEW GView\nINVARIANT WG_Own\n")), "bfs", tag="c05g")[:1], 2, [1, 2], "tlc-WG_Own")
    return scen


def drift_of(scen, sessions):
    out = []
    for k, sc in enumerate(scen):
        if sc["src"].startswith("tlc-WG_D26"):
            continue        # (generated from the model of the code before the fix: its events are those of the defect)
        evs = [e for e in sessions.get(k + 1, []) if e["a"] not in ("reset", "end")]
        for j, step in enumerate(sc["steps"]):
            if "ev" not in step:
                break
            if j >= len(evs):
                out.append({"session": k + 1, "step": j, "why": "real run ended early"})
                break
            me, re_ = step["ev"], evs[j]
            bad = me["a"] != re_["a"]
            if not bad:
                for f in ("t", "ticking", "fired", "n"):
                    if f in me and me[f] != re_.get(f):
                        bad = True
            if bad:
                out.append({"session": k + 1, "src": sc["src"], "step": j, "model": me, "real": {x: re_[x] for x in re_ if x not in ("m", "s", "i")}})
                break
    return out


def run(tier):
    res = Result(PROP, tier, "model_checking")
    rng = random.Random(seed())
    build_harness()
    model_check(res, tier)
    scen = generate(tier, rng)
    sp, tp = os.path.join(OUT, "c05", "scen.ndjson"), os.path.join(OUT, "c05", "trace.ndjson")
    write_ndjson(sp, scen)
    run_kv("c05", sp, tp)
    bad, _ = tlc_validate("T_C05.tla", os.path.join(SPEC, "T_C05.cfg"), tp)
    judge(res, PROP, scen, tp, bad)
    res.drift += drift_of(scen, sessions_of(read_ndjson(tp)))
    # ---- speed tweens of non-zero length (Gen_SpeedTween.tla / P_C05T.tla): linear in the unit of the target
    tcfg = write_cfg("Gen_SpeedTween.cfg", "SPECIFICATION Spec\nINVARIANT Dump\nCHECK_DEADLOCK FALSE\n")
    tscen = [dict(b[0], mode="tween", src="tlc-product") for b in tlc_generate("Gen_SpeedTween.tla", tcfg, "bfs", timeout=600, tag="c05t")]
    tscen = [x for x in tscen if (x["u0"], x["v0n"], x["v0d"]) != (x["u1"], x["v1n"], x["v1d"])]
    if tier == "quick":
        tscen = [x for k, x in enumerate(sorted(tscen, key=lambda x: json.dumps(x, sort_keys=True))) if k % 8 == seed() % 8]
    tsp, ttp = os.path.join(OUT, "c05", "tween_scen.ndjson"), os.path.join(OUT, "c05", "tween_trace.ndjson")
    write_ndjson(tsp, tscen)
    run_kv("c05", tsp, ttp)
    tbad, _ = tlc_validate("T_C05T.tla", os.path.join(SPEC, "T_C05T.cfg"), ttp, tag="c05ttv")
    judge(res, PROP, tscen, ttp, tbad)
    res.notes["speed_tween_sessions"] = len(tscen)
    # ---- clocks that go away under scheduled sounds (ClockCancel.tla / P_C05C.tla): every history of handle drops and callbacks
    ccfg = write_cfg("Gen_ClockCancel.cfg", "SPECIFICATION GSpec\nCONSTANTS\n  N = 3\n  MaxW = 3\n  MaxCb = 4\n  SkipAfterRemoved = FALSE\n"
                     "VIEW GView\nINVARIANT Dump\nCHECK_DEADLOCK FALSE\n")
    cscen = [dict(b[0], mode="cancel", src="tlc-bfs", steps=b[1:]) for b in tlc_generate("Gen_ClockCancel.tla", ccfg, "bfs", timeout=900, tag="c05c")]
    if tier == "quick":
        cscen = [x for k, x in enumerate(sorted(cscen, key=lambda x: json.dumps(x, sort_keys=True))) if k % 16 == seed() % 16]
    csp, ctp = os.path.join(OUT, "c05", "cancel_scen.ndjson"), os.path.join(OUT, "c05", "cancel_trace.ndjson")
    write_ndjson(csp, cscen)
    run_kv("c05", csp, ctp)
    cbad, _ = tlc_validate("T_C05C.tla", os.path.join(SPEC, "T_C05C.cfg"), ctp, tag="c05ctv")
    judge(res, PROP, cscen, ctp, cbad)
    # I-spec conformance: what the ClockCancel model predicts for every callback against what was observed (never an alarm)
    csess = sessions_of(read_ndjson(ctp))
    for k, sc in enumerate(cscen):
        evs = [e for e in csess.get(k + 1, []) if e["a"] in ("drop", "cb")]
        for j, step in enumerate(sc["steps"]):
            if step["act"] == "Callback" and (j >= len(evs) or evs[j].get("heard") != step["heard"] or evs[j].get("st") != step["st"]):
                res.drift.append({"model": "ClockCancel", "session": k + 1, "step": j, "model_says": [step["heard"], step["st"]],
                                  "real": [evs[j].get("heard"), evs[j].get("st")] if j < len(evs) else None})
                break
    res.notes["clock_cancel_sessions"] = len(cscen)
    # ---- everything that takes a start time, scheduled for a clock tick (Gen_Sched.tla / P_C05S.tla)
    scfg = write_cfg("Gen_Sched.cfg", "SPECIFICATION Spec\nINVARIANT Dump\nCHECK_DEADLOCK FALSE\n")
    sscen = [dict(b[0], mode="sched", src="tlc-product") for b in tlc_generate("Gen_Sched.tla", scfg, "bfs", timeout=600, tag="c05s")]
    # (and a clock + a sound scheduled on it, both created while the audio thread is before the n-th drain of its rings)
    sscen += [{"mode": "pickup", "what": "sound", "w": 1, "n": n, "src": "directed-pickup"} for n in range(1, 10)]
    ssp, stp = os.path.join(OUT, "c05", "sched_scen.ndjson"), os.path.join(OUT, "c05", "sched_trace.ndjson")
    write_ndjson(ssp, sscen)
    run_kv("c05", ssp, stp)
    sbad, _ = tlc_validate("T_C05S.tla", os.path.join(SPEC, "T_C05S.cfg"), stp, tag="c05stv")
    judge(res, PROP, sscen, stp, sbad)
    res.notes["scheduled_start_sessions"] = len(sscen)
    res.evaluations = len(scen) + len(tscen) + len(cscen) + len(sscen)
    for sc in scen:
        res.distinct.add(behaviour_hash([sc["b"], sc["speed0"], [(s["act"], s.get("c"), s.get("v"), s.get("w"), s.get("n")) for s in sc["steps"]]]))
    res.samples = [{"b": s["b"], "src": s["src"], "steps": [[x["act"], x.get("c"), x.get("v"), x.get("w"), x.get("n")] for x in s["steps"]][:30]}
                   for s in scen[:1] + scen[-2:]]
    res.assumptions = ["sequentially consistent atomics (as in kira)", "commands reach the audio thread as in C07 (written between callbacks)"]
    return res.finish("scenario = internal buffer size x history of clock commands, scheduled sounds, callbacks of varying size and "
                      "time() reads split at the word boundary (TLC behaviours of Clock.tla: simulation + directed witnesses); distinct by hash")
