"""C09 - a streaming sound behaves exactly like a static sound of the same audio.

1. TLC model-checks Streaming.tla: the decoder thread's frame_at_index / transport loop against the
   reference played-index sequence, for every slice, loop region, start position, and an adversarial
   decoder (any packet sizes, seeks landing up to MaxEarly frames early): every pushed frame carries
   the audio of the frame the transport asked for, the believed decoder position is exact, the
   transport sequence is the reference, the forward-decode loop makes progress.
2. TLC enumerates (Gen_C09.tla) settings x decoder behaviour x command histories without seeks; the
   harness runs a real static and a real streaming sound side by side (two managers, same commands,
   decoder kept ahead) and records both outputs bit for bit.
3. TLC validates every recorded session against P_C09 (equal output, equal states, positions within a frame)."""
import os
import random

from lib.kvlib import *

PROP = "C09"
MANIFEST = dict(
    level="model_checking", design_ref="DESIGN.md 8 (C09), 7 (Streaming / Decoder)",
    technique="TLA+ refinement model of the streaming decode scheduler against the reference transport sequence (TLC, all packetisations/seek granularities/slices/loops) + TLC-enumerated settings and command histories run side by side on the real static and streaming sounds + TLC trace validation of the equality relation P_C09",
    text="At model level TLC shows that the scheduler delivers exactly the reference frame sequence for every slice, loop region, start, packet-size sequence and early-landing seek within small bounds. At implementation level each TLC-generated or random scenario (length, slice, start, loop, rate 0/0.5/1/2, volume/panning/rate/pause/resume/stop histories with 0- or 2-chunk tweens, packet sizes, seek granularity) is executed on both implementations in lock step and TLC checks bit-equal output, equal states at every callback and positions within one frame until the end. Generated settings include 12-frame rings, fades of several buffers, slices given as a re-slice (`lo..` replacing another slice) and start positions at or beyond the end.",
    note="Decoder kept ahead by letting the free-running decoder thread fill its ring before playback (looping streams: >= 2000 frames buffered; finite streams: thread finished). Command histories contain no seeks (as in the statement). Start positions after the loop end and inverted loop regions are not generated (left open by the documentation).")


def write_cfg(name, text):
    p = os.path.join(OUT, "cfg", name)
    os.makedirs(os.path.dirname(p), exist_ok=True)
    open(p, "w").write(text)
    return p


def model_check(res, tier):
    total, packets, early, maxout = (5, "{1, 2, 3}", 2, 8) if tier == "quick" else (7, "{1, 2, 3, 5}", 2, 11)
    cfg = "SPECIFICATION Spec\nCONSTANTS\n  Total = %d\n  Packets = %s\n  MaxEarly = %d\n  MaxOut = %d\n  MaxSeeks = 0\n%s\nCHECK_DEADLOCK FALSE\n"
    st = tlc_check("Streaming.tla", write_cfg("Streaming.cfg", cfg % (total, packets, early, maxout,
                   "INVARIANTS Faithful BeliefExact TransportIsReference Progress")), workers=8, timeout=3000, tag="c09mc")
    # the same with seek_to commands read by the decoder thread at arbitrary moments (beyond C09's statement, which has no
    # seeks: it keeps the model of the decoder thread whole - every pushed frame is still the one its transport index names)
    cfg2 = cfg.replace("MaxSeeks = 0", "MaxSeeks = 2")
    t2, p2, e2, o2 = (4, "{1, 2}", 1, 6) if tier == "quick" else (5, "{1, 2, 3}", 2, 8)
    st2 = tlc_check("Streaming.tla", write_cfg("Streaming_seek.cfg", cfg2 % (t2, p2, e2, o2,
                    "INVARIANTS Faithful BeliefExact TransportIsReference SeekLands Progress")), workers=8, timeout=3000, tag="c09mc")
    if st2["violated"]:
        res.drift.append({"model": "Streaming+seek", "violated": st2["violated"]})
    res.add_mc("Streaming with 2 seeks total=%d packets=%s early<=%d out<=%d" % (t2, p2, e2, o2), st2)
    tlc_check("Streaming.tla", write_cfg("Streaming_W_Seek.cfg", cfg2 % (4, "{1, 2}", 1, 5, "INVARIANT W_Seek")), workers=4, timeout=600, expect_violation="W_Seek", tag="c09w")
    if st["violated"]:
        res.drift.append({"model": "Streaming", "violated": st["violated"]})
    res.add_mc("Streaming total=%d packets=%s early<=%d out<=%d" % (total, packets, early, maxout), st)
    for w in ("W_Wrap", "W_BackSeek"):
        tlc_check("Streaming.tla", write_cfg("Streaming_%s.cfg" % w, cfg % (4, "{1, 2}", 1, 7, "INVARIANT " + w)),
                  workers=4, timeout=600, expect_violation=w, tag="c09w")


def generate(tier, rng):
    scen = []
    num = 500 if tier == "quick" else 8000
    cfg = write_cfg("Gen_C09.cfg", "SPECIFICATION Spec\nCONSTANTS\n  MaxLen = 6\n  D = 12\n  MaxCmd = 2\nCONSTRAINT Bound\nINVARIANT Dump\nCHECK_DEADLOCK FALSE\n")
    for b in tlc_generate("Gen_C09.tla", cfg, "sim", num=num, depth=18, timeout=1500, tag="c09g")[:num * 2]:
        scen.append({"cfg": b[0], "src": "tlc-sim", "ring": [0, 48, 12, 64][len(scen) % 4], "steps": b[1:]})
    for k in range(300 if tier == "quick" else 4000):
        ln = rng.randint(1, 60)
        lo = rng.randint(0, ln - 1) if rng.random() < 0.5 else 0
        hi = rng.randint(lo + 1, ln) if rng.random() < 0.5 else ln
        n = hi - lo
        if rng.random() < 0.5:
            ls = rng.randint(0, n - 1)
            opn = rng.random() < 0.3
            le = n if opn else rng.randint(ls + 1, n)
            start = rng.randint(0, le - 1)
        else:
            ls, le, start, opn = -1, -1, rng.choice([rng.randint(0, n - 1)] * 6 + [n, n + 2]), False
        steps = []
        for _ in range(rng.randint(4, 30)):
            if rng.random() < 0.65:
                steps.append({"act": "Callback"})
            else:
                steps.append({"act": "Cmd", "c": rng.choice(["pause", "resume", "stop", "volume", "panning", "rate", "pause", "resume"]),
                              "d": rng.choice([0, 1, 2, 3, 6]), "v": rng.choice([0, 1, 2])})
        steps += [{"act": "Callback"}] * 3
        scen.append({"cfg": {"len": ln, "lo": lo, "hi": hi, "rs": hi == ln and rng.random() < 0.5, "start": start, "ls": ls, "le": le, "open": opn,
                             "rate": rng.choice([0, 128, 256, 256, 512]), "pk": rng.choice([1, 2, 3, 5, 16]), "early": rng.choice([0, 1, 2, 5])},
                     "src": "random", "ring": rng.choice([0, 48, 64, 12]), "steps": steps})
    return scen


def run(tier):
    res = Result(PROP, tier, "model_checking")
    rng = random.Random(seed())
    build_harness()
    model_check(res, tier)
    scen = generate(tier, rng)
    sp, tp = os.path.join(OUT, "c09", "scen.ndjson"), os.path.join(OUT, "c09", "trace.ndjson")
    write_ndjson(sp, scen)
    run_kv("c09", sp, tp)
    bad, _ = tlc_validate("T_C09.tla", os.path.join(SPEC, "T_C09.cfg"), tp)
    judge(res, PROP, scen, tp, bad)
    res.evaluations = len(scen)
    for sc in scen:
        res.distinct.add(behaviour_hash([sc["cfg"], [(s["act"], s.get("c"), s.get("d"), s.get("v")) for s in sc["steps"]]]))
    res.samples = [{"cfg": s["cfg"], "src": s["src"], "steps": [[x["act"], x.get("c"), x.get("d"), x.get("v")] for x in s["steps"]][:20]}
                   for s in scen[:1] + scen[-1:]]
    res.assumptions = ["the decoder thread is given time to keep ahead of playback (the statement's premise)",
                       "bit-exact comparison of f32 output"]
    return res.finish("scenario = audio length/slice/start/loop/rate x decoder packetisation and seek granularity x command history "
                      "(TLC-generated or seeded random), each run on both implementations; distinct by hash")
