"""C06 - tweens start on time, follow their easing, end exactly on target, never jump.

1. TLC model-checks Tween.tla (kira::Parameter: set / update with the code's start test, time
   accumulation, finish test and value recomputation, exact rational easings) against the
   property-level monitor P_C06 and structural invariants; reachability witnesses guard against
   vacuity; the model with a clock that may pause after the tween began must exhibit the
   clock-pause finding (the spec can see it).
2. TLC generates behaviours of the model - bounded exhaustive (every partition of the time axis
   for one tween, every pair of overlapping sets, every clock history, for small constants) and
   seeded random walks - and the harness executes each of them on the real kira::Parameter<T> for
   the ten publicly constructible Tweenable types through one projection to scaled integers.
3. Seeded random set/update histories with arbitrary (non-dyadic) values, durations and powers,
   including real-power easings, compared with a tolerance of 3/4096.
4. TLC validates every recorded session against P_C06 (T_C06.tla); the recorded observations of
   TLC-generated behaviours are also compared with the model's own predictions (drift)."""
import json
import os
import random

from lib.kvlib import *

PROP = "C06"
MANIFEST = dict(
    level="model_checking", design_ref="DESIGN.md 8 (C06), 7 (Tween)",
    technique="TLA+ model of kira::Parameter (TLC, exact rational easings over integer time) + TLC-generated set/update behaviours (bounded exhaustive and seeded random walks) replayed on the real public Parameter<T> for ten Tweenable types + seeded random histories + TLC trace validation against the property-level monitor P_C06",
    text="TLC explores every sequence of set() calls (immediate, delayed, clock start; durations including zero and shorter than one update; linear and integer-power easings) and every partition of time into updates for small constants against the property-level monitor (old value until the start, reference curve within the start-time quantisation slack, exact target and finish flag at the end, interval, monotone approach, previous value = last value, zero duration at the next update, retarget from the current value) and structural invariants; TLC-generated behaviours and seeded random histories are executed on the real kira::Parameter<T> (f64, f32, Decibels, Panning, Mix, PlaybackRate, Semitones, Duration, ClockSpeed, Vec3) and every recorded session is validated by TLC against P_C06. In situ, one linear decibel tween of every volume parameter and pause/resume fade inside the audio graph (track, send track, route, main track, sound) is observed frame by frame at the output for internal buffers 4/16, five callback patterns and durations 0-64 frames, with the owning track paused meanwhile or not, and judged by TLC against the reference curve 'to within one update' (P_C06I). Exhaustive for small grids/bounds, sampled beyond. In-situ additions: a superseded command written in the same window, decibel tweens around -70 dB, clock speeds whose first tween crosses units, and positions / orientations of a spatial scene (listener turn, listener move, emitter move) judged for their ends and frame-to-frame continuity.",
    note="Values are exact dyadic rationals in the TLC-generated sessions (bit-exact comparison) and rounded to 1/4096 with tolerance 3 in the random sessions; real-power easings are only checked for end points, interval and direction; Quat (slerp) is not covered. The tweener modulator duplicates Parameter's logic and is not driven separately. Parameters linked to modulators (Value::FromModulator) are out of scope. A clock that pauses, is reset or disappears after a clock-started tween began is treated as a finding candidate (findings/C06-clock), not generated at property level unless listed in known_findings.json.")

TYPES = ["f64", "f32", "db", "pan", "mix", "rate", "semi", "dur", "cspeed", "vec3", "db_low"]   # db_low: decibels around -70 dB
# random (rounded) sessions only: clock speeds whose first tween crosses units (ticks per second -> seconds per tick,
# seconds per tick -> ticks per minute); the curve is linear in the unit of the target
TYPES_LOOSE = TYPES + ["cspeed_s", "cspeed_m"]
EASES = [("lin", 1), ("in", 2), ("out", 2), ("inout", 2), ("in", 3), ("out", 3), ("inout", 3), ("in", 1), ("inout", 1)]
INVS = "INVARIANTS PropertyHolds TypeOK StagnantIsIdle IdleAtTarget InRange TimeBelowDur ExactArith MonAgrees"
WITNESSES = ["W_MidRetarget", "W_DelayLag", "W_ClockStart", "W_SubUpdate", "W_ZeroDur", "W_Curve", "W_ExactEnd"]


def cset(xs):
    return "{" + ", ".join(str(x) for x in xs) + "}"


def cfg_text(spec="Spec", S=4096, grid="Grid2", inits=(0,), durs=(0, 1, 2, 4), eases="Ease4", dts=(1, 2, 3),
             delays=(1, 2), ctgts=(1,), ticks="{TRUE, FALSE}", maxsets=2, maxtime=6, maxc=2, regress=False, extra=""):
    return """SPECIFICATION %s
CONSTANTS
  S = %d
  Grid <- %s
  Inits = %s
  Durs = %s
  Eases <- %s
  Dts = %s
  Delays = %s
  CTgts = %s
  TickChoices = %s
  MaxSets = %d
  MaxTime = %d
  MaxC = %d
  ClockMayRegress = %s
%s
CHECK_DEADLOCK FALSE
""" % (spec, S, grid, cset(inits), cset(durs), eases, cset(dts), cset(delays), cset(ctgts),
       ticks if isinstance(ticks, str) else cset(ticks), maxsets, maxtime, maxc, "TRUE" if regress else "FALSE", extra)


def write_cfg(name, text):
    p = os.path.join(OUT, "cfg", name)
    os.makedirs(os.path.dirname(p), exist_ok=True)
    open(p, "w").write(text)
    return p


def mc_configs(tier):
    """(name, keyword arguments) of the exhaustive runs; constants are repeated in the evidence"""
    quick = [("quick: 2 targets, dur 0/1/2/4, 4 easings, dt 1..3, delays 1/2, clock target 1, <=2 sets, time<=6",
              dict())]
    if tier == "quick":
        return quick
    return quick + [
        ("wide: 3 targets, 2 initial values, delays 1..3, clock targets 1/2, <=2 sets, time<=7",
         dict(grid="Grid3", inits=(0, 1), delays=(1, 2, 3), ctgts=(1, 2), maxtime=7, maxc=3)),
        ("deep: <=3 overlapping sets, 4 easings, dur 0/2/4, dt 1/2, delay 1, clock target 1, time<=7",
         dict(S=1048576, durs=(0, 2, 4), eases="Ease4", dts=(1, 2), delays=(1,), ctgts=(1,), maxsets=3, maxtime=7, maxc=1)),
        ("cubic: 7 easings (powers 2 and 3), dt 1/3, <=2 sets, time<=6",
         dict(S=1048576, eases="Ease7", dts=(1, 3), delays=(2,), ctgts=(1,), maxtime=6, maxc=1)),
    ]


def model_check(res, tier):
    for name, kw in mc_configs(tier):
        cfg = write_cfg("Tween_mc.cfg", cfg_text(extra="VIEW View\n" + INVS, **kw))
        st = tlc_check("MC_Tween.tla", cfg, workers=4, timeout=3000, tag="c06mc")
        if st["violated"]:
            # a model-level counterexample is not an alarm by itself (DESIGN 3); it is reported as drift
            res.drift.append({"model": "Tween/" + name, "invariant": st["violated"]})
        res.add_mc("Tween " + name, st)
    # vacuity witnesses: each situation must be reachable
    for w in WITNESSES:
        cfgw = write_cfg("Tween_%s.cfg" % w, cfg_text(extra="VIEW View\nINVARIANT " + w))
        tlc_check("MC_Tween.tla", cfgw, workers=2, timeout=600, expect_violation=w, tag="c06w")
    # the model must exhibit the clock-pause finding once the environment assumption is dropped
    cfgr = write_cfg("Tween_regress.cfg", cfg_text(regress=True, extra="VIEW View\nINVARIANT PropertyHolds"))
    tlc_check("MC_Tween.tla", cfgr, workers=2, timeout=600, expect_violation="PropertyHolds", tag="c06r")


def generate(*a, **kw):
    """tlc_generate with one retry (a TLC start-up hiccup is tool trouble, not a verdict)"""
    try:
        return tlc_generate(*a, **kw)
    except ToolError as e:
        log("retrying TLC generation after: %s" % str(e)[:200])
        return tlc_generate(*a, **kw)


def scen_of(b, ty, src, scale, regress=False):
    sc = {"ty": ty, "mode": "exact", "scale": scale, "v0": b[0]["v0"], "src": src, "steps": b[1:]}
    if regress:
        sc["clock_regress"] = True
    return sc


def uniq(bs):
    """distinct behaviours in a canonical order (TLC's multi-worker BFS prints them in any order)"""
    seen = {}
    for b in bs:
        seen.setdefault(json.dumps(b, sort_keys=True), b)
    return [seen[k] for k in sorted(seen)]


def gen_tlc(res, tier):
    """behaviours of the model -> scenarios"""
    scen = []
    q = tier == "quick"
    # G2: seeded random walks, long, every type
    S = 1048576
    sim = cfg_text(spec="RSpec", S=S, grid="Grid5", inits=(0, 1), eases="Ease7", delays=(1, 2, 3, 5), ctgts=(1,),
                   maxsets=100000, maxtime=100000, maxc=100000,
                   extra="  D = 30\n  SetFirst = FALSE\nCONSTRAINT Bound\nINVARIANT Dump")
    bs = uniq(generate("Gen_Tween.tla", write_cfg("Gen_Tween_sim.cfg", sim), "sim", num=120 if q else 2500,
                           depth=32, timeout=900, tag="c06g"))
    res.notes["tlc_random_walks"] = len(bs)
    for b in bs:
        for ty in TYPES:
            scen.append(scen_of(b, ty, "tlc-sim", S))
    # G1: bounded exhaustive
    plans = [
        # one tween, every partition of the time axis
        ("partitions", dict(S=4096, ctgts=(), ticks="{TRUE}", maxsets=1, maxtime=100000, maxc=0), 5 if q else 7),
        # two overlapping sets at every position
        ("retarget", dict(S=4096, durs=(0, 2, 4), eases="Ease2", dts=(1, 2), delays=(1,), ctgts=(), ticks="{TRUE}",
                          maxsets=2, maxtime=100000, maxc=0), 4 if q else 5),
        # clock starts under every clock history (advance 0..2 half ticks, ticking or paused)
        ("clock", dict(S=4096, durs=(0, 2), eases="EaseLin", dts=(1, 2), delays=(), ctgts=(1, 2), maxsets=1,
                       maxtime=100000, maxc=2), 3 if q else 4),
    ]
    k = 0
    for name, kw, depth in plans:
        text = cfg_text(spec="GSpec", extra="  D = %d\n  SetFirst = TRUE\nCONSTRAINT Bound\nINVARIANT Dump" % depth, **kw)
        bs = uniq(generate("Gen_Tween.tla", write_cfg("Gen_Tween_%s.cfg" % name, text), "bfs", timeout=1800, tag="c06g"))
        if not bs:
            raise ToolError("bounded-exhaustive generation '%s' produced nothing" % name)
        res.notes["tlc_exhaustive_" + name] = "%d behaviours of %d actions" % (len(bs), depth)
        for b in bs:
            # every behaviour on f64 and on one more type in rotation
            scen.append(scen_of(b, "f64", "tlc-bfs-" + name, kw["S"]))
            scen.append(scen_of(b, TYPES[1 + k % (len(TYPES) - 1)], "tlc-bfs-" + name, kw["S"]))
            k += 1
    return scen


def gen_finding(res):
    """shortest behaviour of the model in which a clock-started tween is frozen by its clock pausing"""
    text = cfg_text(spec="GSpec", S=4096, durs=(2,), eases="EaseLin", dts=(1,), delays=(), ctgts=(1,), maxsets=1,
                    maxtime=100000, maxc=1, regress=True,
                    extra="  D = 6\n  SetFirst = TRUE\nCONSTRAINT Bound\nVIEW GView\nINVARIANT WG_Frozen")
    # (one worker: the first counterexample found is then always the same one)
    out = tlc_raw("Gen_Tween.tla", write_cfg("Gen_Tween_frozen.cfg", text), workers=1, timeout=600, tag="c06g")
    bs = behaviours(out)
    if not bs:
        raise ToolError("the model without the clock assumption did not produce the frozen-tween behaviour: " + out[-600:])
    scen = [scen_of(b, ty, "tlc-old-model-clock-regress", 4096, regress=True) for b in bs[:1] for ty in ("f64", "db")]
    # hand-written variants: pause, reset to zero, clock removed
    for variant in ("pause", "reset", "removed"):
        steps = [{"a": "set", "tgt": 4096, "dur": 4, "ease": "lin", "p": 1, "sk": "clk", "delay": 0, "ctgt": 2},
                 {"a": "upd", "dt": 1, "ticking": True, "cpos": 1},
                 {"a": "upd", "dt": 1, "ticking": True, "cpos": 2},
                 {"a": "upd", "dt": 1, "ticking": True, "cpos": 3}]
        for _ in range(6):
            if variant == "pause":
                steps.append({"a": "upd", "dt": 1, "ticking": False, "cpos": 3})
            elif variant == "reset":
                steps.append({"a": "upd", "dt": 1, "ticking": False, "cpos": 0})
            else:
                steps.append({"a": "upd", "dt": 1, "ticking": False, "cpos": 0, "noclock": True})
        scen.append({"ty": "db", "mode": "exact", "scale": 4096, "v0": 0, "src": "finding-clock-" + variant,
                     "clock_regress": True, "steps": steps})
    return scen


def gen_random(tier, rng):
    """loose mode: arbitrary decimal values, durations and powers"""
    scen = []
    n = 300 if tier == "quick" else 6000
    for k in range(n):
        ty = TYPES_LOOSE[k % len(TYPES_LOOSE)]
        steps = []
        cpos, began, pending_clk = rng.randint(0, 3), False, None
        for _ in range(rng.randint(10, 40)):
            if rng.random() < 0.25:
                dur = rng.choice([0, 0, 1, 2, 3, 4, 5, 6, 7, 8, 10, 12, 16])
                if rng.random() < 0.15 and dur > 0:
                    ease = {"ease": "free", "p": 1, "fk": rng.choice(["in", "out", "inout"]),
                            "pf": rng.choice([5, 15, 25, 33])}
                else:
                    e = rng.choice(EASES)
                    ease = {"ease": e[0], "p": e[1]}
                sk = rng.choice(["imm", "del", "clk"])
                st = {"a": "set", "tgt": rng.randint(-2000, 2000), "dur": dur, "sk": sk,
                      "delay": rng.randint(0, 9) if sk == "del" else 0,
                      "ctgt": cpos + rng.randint(0, 4) if sk == "clk" else 0}
                st.update(ease)
                steps.append(st)
                pending_clk, began = (st["ctgt"] if sk == "clk" else None), False
            else:
                cpos += rng.choice([0, 1, 1, 2])
                ticking = rng.random() < 0.8
                if pending_clk is not None and began:
                    ticking = True      # environment assumption: the clock of a running tween keeps ticking
                if pending_clk is not None and ticking and cpos >= pending_clk:
                    began = True
                steps.append({"a": "upd", "dt": rng.randint(1, 5), "ticking": ticking, "cpos": cpos})
        scen.append({"ty": ty, "mode": "loose", "den": 1000, "v0": rng.randint(-2000, 2000), "src": "random", "steps": steps})
    return scen


def drift_of(scen, sessions):
    """I-spec conformance: for replayed TLC behaviours compare the model's predicted observation with the real one"""
    out = []
    for k, sc in enumerate(scen):
        if not sc["src"].startswith("tlc-") or "old-model" in sc["src"]:
            continue
        evs = [e for e in sessions.get(k + 1, []) if e["a"] not in ("reset", "end")]
        for j, step in enumerate(sc["steps"]):
            if j >= len(evs):
                out.append({"session": k + 1, "step": j, "why": "real run ended early", "model": step})
                break
            re_ = evs[j]
            fields = ("val", "prev", "fin", "exact", "coh", "ia", "ih", "ib") if step["a"] == "upd" else ("tgt",)
            if step["a"] != re_["a"] or any(step[f] != re_.get(f) for f in fields):
                out.append({"session": k + 1, "step": j, "ty": sc["ty"], "model": {f: step[f] for f in fields},
                            "real": {f: re_.get(f) for f in fields}})
                break
    return out


def finding_listed():
    return any(k.get("property") == PROP and k.get("status") == "open"
               and k.get("signature", {}).get("session", {}).get("clock_regress") for k in load_known())


def run(tier):
    res = Result(PROP, tier, "model_checking")
    rng = random.Random(seed())
    build_harness()
    model_check(res, tier)
    scen = gen_tlc(res, tier) + gen_random(tier, rng)
    fscen = gen_finding(res)
    # the clock-pause defect (D16) is repaired in kira: these histories are ordinary property-level input now
    listed = True
    if listed:
        scen += fscen
    d = os.path.join(OUT, "c06")
    sp, tp = os.path.join(d, "scen.ndjson"), os.path.join(d, "trace.ndjson")
    write_ndjson(sp, scen)
    run_kv("c06", sp, tp)
    bad, n_events = tlc_validate("T_C06.tla", os.path.join(SPEC, "T_C06.cfg"), tp, timeout=3000)
    # (a broken build rejects thousands of sessions; the first 200 are turned into replay files)
    res.notes["rejected_sessions_listed"] = len(bad)   # T_C06 lists at most 300
    judge(res, PROP, scen, tp, bad[:200])
    res.drift += drift_of(scen, sessions_of(read_ndjson(tp)))
    if not listed:
        # the clock-pause histories are outside the property-level input space until the finding is
        # listed in known_findings.json; they are still executed and reported (never an alarm here)
        fsp, ftp = os.path.join(d, "finding_scen.ndjson"), os.path.join(d, "finding_trace.ndjson")
        write_ndjson(fsp, fscen)
        run_kv("c06", fsp, ftp)
        fbad, _ = tlc_validate("T_C06.tla", os.path.join(SPEC, "T_C06.cfg"), ftp)
        res.notes["finding_candidate_clock_regress"] = {
            "sessions": len(fscen), "rejected": [[r["s"], r["i"], r["reason"]] for r in fbad],
            "see": "findings/C06-clock"}
        if fbad:
            log("FINDING-CANDIDATE property=%s clock pause/reset/removal freezes a clock-started tween: %d of %d "
                "sessions rejected by P_C06 (not listed in known_findings.json; see findings/C06-clock)"
                % (PROP, len(fbad), len(fscen)))
    # ---- in situ: the tweens of the parameters inside the audio graph take the time they are given, whatever the
    # callback size, and whether or not the owning track is paused meanwhile (Gen_InSitu.tla / P_C06I.tla / c06i driver)
    icfg = os.path.join(OUT, "cfg", "Gen_InSitu.cfg")
    open(icfg, "w").write("SPECIFICATION Spec\nINVARIANT Dump\nCHECK_DEADLOCK FALSE\n")
    iscen = [dict(b[0], src="tlc-product") for b in tlc_generate("Gen_InSitu.tla", icfg, "bfs", timeout=600, tag="c06i")]
    if tier == "quick":
        iscen = [x for k, x in enumerate(sorted(iscen, key=lambda x: json.dumps(x, sort_keys=True))) if k % 3 == seed() % 3]
    isp, itp = os.path.join(d, "insitu_scen.ndjson"), os.path.join(d, "insitu_trace.ndjson")
    write_ndjson(isp, iscen)
    run_kv("c06i", isp, itp)
    ibad, _ = tlc_validate("T_C06I.tla", os.path.join(SPEC, "T_C06I.cfg"), itp, timeout=3000, tag="c06itv")
    judge(res, PROP, iscen, itp, ibad[:200])
    res.notes["in_situ_sessions"] = len(iscen)
    res.evaluations = len(scen) + len(iscen)
    for sc in iscen:
        res.distinct.add(behaviour_hash(sc))
    for sc in scen:
        if any(s["a"] == "set" for s in sc["steps"]):
            res.distinct.add(behaviour_hash([sc["ty"], sc["mode"], sc["v0"],
                                             [[s.get(f) for f in ("a", "tgt", "dur", "ease", "p", "sk", "delay", "ctgt",
                                                                  "dt", "ticking", "cpos", "fk", "pf")]
                                              for s in sc["steps"]]]))
    pick = [s for s in scen if s["src"] == "tlc-sim"][:1] + [s for s in scen if s["src"].startswith("tlc-bfs")][:1] + \
           [s for s in scen if s["src"] == "random"][:1]
    res.samples = [{"ty": s["ty"], "mode": s["mode"], "v0": s["v0"], "src": s["src"],
                    "steps": [{f: x[f] for f in x if f in ("a", "tgt", "dur", "ease", "p", "sk", "delay", "ctgt", "dt",
                                                            "ticking", "cpos")} for x in s["steps"]][:12]} for s in pick]
    res.notes["sessions_by_source"] = {}
    for sc in scen:
        res.notes["sessions_by_source"][sc["src"]] = res.notes["sessions_by_source"].get(sc["src"], 0) + 1
    res.notes["types"] = TYPES
    res.assumptions = [
        "Parameter is used from one thread (set and update are atomic in the model)",
        "time steps are multiples of 1/8 s and values are dyadic rationals in the TLC-generated sessions, so every float operation of the real code is exact and the comparison is bit-exact; the random sessions compare rounded projections with a tolerance of 3/4096",
        "the clock of a clock-started tween keeps ticking and does not go back once the tween began (otherwise: finding candidate, findings/C06-clock)",
        "MockInfoBuilder's Info answers when_to_start like the renderer's Info (same code path in info.rs)"]
    return res.finish(
        "scenario = value type x initial value x sequence of set(target, duration, easing, start time)/update(dt, clock state) "
        "actions (TLC behaviour of the Tween model: bounded exhaustive or seeded random walk | seeded random history); "
        "distinct by hash of (type, mode, initial value, action list); non-trivial = contains at least one set")
