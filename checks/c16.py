"""C16 - seconds and hertz mean the same at every device sample rate and across changes.

1. TLC model-checks SampleRate.tla (rate load and enqueue of the add-track paths as separate steps, the
   renderer's rate change with its fan-out over the arena only, pick-up) against P_C16 (every effect
   processes with the rate in force); the known finding D12 is a named state, anything else fails.
2. TLC-generated orders of {build track, enqueue, change rate, callback} run on the real library: the
   add-track call is split at the ctl.reserved yield point; probe effects record the rate they were
   told and the dt of every process call (top-level, nested, send and spatial tracks).
3. Durations measured in device time (finite sound, clock ticks, delay echo at 8/10/20/40 Hz; the rise time of
   a 10 Hz low-pass filter at 400/1000/2000 Hz) at one rate and across a mid-stream change are validated by TLC against their nominal seconds (T_C16.tla)."""
import os
import random

from lib.kvlib import *

PROP = "C16"
MANIFEST = dict(
    level="model_checking", design_ref="DESIGN.md 8 (C16), 7 (SampleRate)",
    technique="TLA+ model of rate propagation (TLC, all orders of build/enqueue/change/callback) + TLC orders replayed on the real library with the add-track call split at a cfg(kira_verif) yield point + TLC trace validation against P_C16; one known finding matched by signature",
    text="TLC explores every order of building tracks (rate load and enqueue as separate steps), changing the device rate and running callbacks, and checks that every effect processes with the rate in force (D12, a track not yet in the arena during a change, is the one named exception). The generated orders run on real top-level, nested, send and spatial tracks with rate-recording probe effects. Sound duration, clock speed, delay time and the rise time of a low-pass filter (a cutoff in hertz) are measured in device time at several rates and across a mid-stream change and compared with their nominal seconds. Also measured in device time: the reverb's first reflection (1116/44100 s) at 22.05-96 kHz and across a change, an echo in flight across a change, sounds whose own rate is 10-24 times the device's, and the histories change-then-add for every kind of track.",
    note="Rates 8-40 Hz keep every duration an exact number of milliseconds; of the DSP effects' frequencies in hertz only the filter cutoff is measured (step response). Tween durations scale through the same dt as clocks and are not measured separately.")


def write_cfg(name, text):
    p = os.path.join(OUT, "cfg", name)
    os.makedirs(os.path.dirname(p), exist_ok=True)
    open(p, "w").write(text)
    return p


def cfg(rates, mt, mc, mcb, extra, spec="Spec", split=False):
    return "SPECIFICATION %s\nCONSTANTS\n  Rates = {%s}\n  MaxTracks = %d\n  MaxChanges = %d\n  MaxCb = %d\n  SplitChange = %s\n%s\nCHECK_DEADLOCK FALSE\n" % (
        spec, ", ".join(map(str, rates)), mt, mc, mcb, "TRUE" if split else "FALSE", extra)


def run(tier):
    res = Result(PROP, tier, "model_checking")
    rng = random.Random(seed())
    build_harness()
    q = tier == "quick"
    st = tlc_check("SampleRate.tla", write_cfg("SampleRate.cfg", cfg([8, 16, 40] if not q else [8, 16], 2 if q else 3, 2, 3 if q else 4, "INVARIANT PropertyHolds")),
                   workers=8, timeout=3000, tag="c16mc")
    if st["violated"]:
        res.drift.append({"model": "SampleRate", "violated": st["violated"]})
    res.add_mc("SampleRate", st)
    st = tlc_check("SampleRate.tla", write_cfg("SampleRate_split.cfg", cfg([8, 16], 2, 2, 3, "INVARIANT PropertyHolds", split=True)),
                   workers=8, timeout=3000, tag="c16mc")
    if st["violated"]:
        res.drift.append({"model": "SampleRate/split", "violated": st["violated"]})
    res.add_mc("SampleRate with the rate-change call in three stretches", st)
    tlc_check("SampleRate.tla", write_cfg("SampleRate_w.cfg", cfg([8, 16], 1, 1, 2, "INVARIANT W_D12")), workers=4, timeout=600,
              expect_violation="W_D12", tag="c16w")
    num = 600 if q else 6000
    bs = tlc_generate("Gen_SampleRate.tla", write_cfg("Gen_SampleRate.cfg", cfg([8, 10, 20, 40], 4, 3, 6, "  D = 22\nCONSTRAINT Bound\nINVARIANT Dump\n", spec="GSpec")),
                      "sim", num=num, depth=24, timeout=1500, tag="c16g")[:num * 2]
    bs2 = tlc_generate("Gen_SampleRate.tla", write_cfg("Gen_SampleRate_split.cfg", cfg([8, 10, 20, 40], 3, 2, 5, "  D = 24\nCONSTRAINT Bound\nINVARIANT Dump\n", spec="GSpec", split=True)),
                       "sim", num=num, depth=26, timeout=1500, tag="c16g")[:num]
    bs = bs + bs2
    scen = []
    kinds = ["sub", "nested", "send", "spatial"]
    split_kinds = ["sub", "nested", "spatial"]    # kinds whose add call has a yield point between the rate load and the enqueue
    for x in bs:
        steps = []
        k = 0
        for s in x[1:]:
            s = dict(s)
            if s["act"] == "GLoad":
                s["kind"] = split_kinds[(k + len(scen)) % 3]
                k += 1
            steps.append(s)
        scen.append({"mode": "rates", "rate0": x[0]["r"], "src": "tlc-sim", "steps": steps})
    # the purely sequential history of the statement: add, change, callback - for each kind
    for kind in kinds:
        scen.append({"mode": "rates", "rate0": 8, "src": "sequential-" + kind, "steps": [
            {"act": "GLoad", "kind": "sub"}, {"act": "GEnqueue"}, {"act": "Callback"}, {"act": "Emit"},
            {"act": "GLoad", "kind": kind}, {"act": "GEnqueue"}, {"act": "Change", "r": 20}, {"act": "Callback"}, {"act": "Emit"}, {"act": "Emit"}]})
    # a track whose handle has been dropped but which lives on (a nested track keeps it) is still told about a change
    # ... and the other order: change (with and without a callback after it), then add - for each kind
    for kind in kinds:
        for cb_between in (True, False):
            scen.append({"mode": "rates", "rate0": 8, "src": "sequential-change-then-" + kind, "steps": [
                {"act": "GLoad", "kind": "sub"}, {"act": "GEnqueue"}, {"act": "Callback"}, {"act": "Emit"}, {"act": "Change", "r": 20}]
                + ([{"act": "Callback"}, {"act": "Emit"}] if cb_between else [])
                + [{"act": "GLoad", "kind": kind}, {"act": "GEnqueue"}, {"act": "Callback"}, {"act": "Emit"}, {"act": "Emit"}]})
    scen.append({"mode": "rates", "rate0": 8, "src": "sequential-dropped-parent", "steps": [
        {"act": "GLoad", "kind": "sub"}, {"act": "GEnqueue"}, {"act": "GLoad", "kind": "nested"}, {"act": "GEnqueue"},
        {"act": "Callback"}, {"act": "Emit"}, {"act": "Emit"}, {"act": "DropParent"}, {"act": "Callback"}, {"act": "Emit"}, {"act": "Emit"},
        {"act": "Change", "r": 20}, {"act": "Callback"}, {"act": "Emit"}, {"act": "Emit"}, {"act": "Emit"}]})
    for what in ("sound", "clock", "echo"):
        for r in (8, 10, 20, 40):
            scen.append({"mode": "measure", "what": what, "rates": [r], "src": "grid"})
        for r1, r2 in ((8, 20), (40, 10), (10, 8)) + (((20, 40), (20, 8)) if what == "echo" else ()):
            scen.append({"mode": "measure", "what": what, "rates": [r1, r2], "switch_ms": 1000, "src": "grid-change"})
    # an echo in flight across the change: the impulse 200 ms before the switch, its echo (500 ms) due 300 ms after it
    for r1, r2 in ((8, 20), (20, 8), (40, 10), (10, 40)):
        scen.append({"mode": "measure", "what": "echo", "rates": [r1, r2], "switch_ms": 1000, "impulse_ms": 800, "src": "grid-echo-in-flight"})
    # the reverb's first reflection (25.3 ms), at audio rates and across a change
    for rr in ([44100], [48000], [22050], [96000], [44100, 48000], [48000, 22050]):
        scen.append({"mode": "measure", "what": "reverb", "rates": rr, "switch_ms": 100, "unit": 1000000, "cbf": 64, "limit": 1500, "src": "grid-reverb"})
    # a sound whose own sample rate is far above the device's (12, 24 and 9.6 source frames per output frame)
    for rr, sr in (([8], 96), ([8], 192), ([10], 96), ([8, 20], 192), ([20, 8], 96)):
        scen.append({"mode": "measure", "what": "sound", "rates": rr, "src_rate": sr, "switch_ms": 1000, "src": "grid-fast-source"})
    # a delay time that is not a whole number of milliseconds, at audio rates and across changes (times in microseconds)
    for rr in ([8000], [4000], [8000, 4000], [4000, 8000], [2000, 8000]):
        scen.append({"mode": "measure", "what": "echo", "rates": rr, "switch_ms": 100, "unit": 1000000, "cbf": 64, "limit": 200,
                     "delay_us": 12750, "src": "grid-submillisecond"})
    # hertz: the rise time of a 10 Hz low-pass filter, at one rate and across a change before the step
    for r in (400, 1000, 2000):
        scen.append({"mode": "measure", "what": "filter", "rates": [r], "src": "grid"})
    for r1, r2 in ((400, 2000), (2000, 400), (1000, 400), (400, 1000)):
        scen.append({"mode": "measure", "what": "filter", "rates": [r1, r2], "switch_ms": 100, "src": "grid-change"})
    sp, tp = os.path.join(OUT, "c16", "scen.ndjson"), os.path.join(OUT, "c16", "trace.ndjson")
    write_ndjson(sp, scen)
    run_kv("c16", sp, tp)
    bad, _ = tlc_validate("T_C16.tla", os.path.join(SPEC, "T_C16.cfg"), tp)
    judge(res, PROP, scen, tp, bad)
    # drift: model's proc events vs the real ones
    sess = sessions_of(read_ndjson(tp))
    for k, sc in enumerate(scen):
        if sc.get("src") != "tlc-sim":
            continue
        real = [e for e in sess.get(k + 1, []) if e["a"] in ("proc", "rate")][1:]
        model = [s["ev"] for s in sc["steps"] if s["ev"]["a"] in ("proc", "rate")]
        if [(e["a"], e.get("seen"), e.get("idt"), e.get("r")) for e in real[:len(model)]] != [(e["a"], e.get("seen"), e.get("idt"), e.get("r")) for e in model]:
            res.drift.append({"session": k + 1, "model": model[:6], "real": [{x: e[x] for x in e if x not in ("s", "i")} for e in real[:6]]})
    res.evaluations = len(scen)
    for sc in scen:
        res.distinct.add(behaviour_hash({k: v for k, v in sc.items() if k != "src"} if sc["mode"] == "measure" else
                                        [sc["rate0"], [(s["act"], s.get("kind"), s.get("r")) for s in sc["steps"]]]))
    res.samples = [scen[-1]] + [{"rate0": s["rate0"], "steps": [[x["act"], x.get("kind"), x.get("r")] for x in s["steps"]]} for s in scen[:1]]
    res.assumptions = ["the rate-change callback runs between device callbacks (as in the cpal backend)"]
    return res.finish("scenario = order of track building (split at the yield point), rate changes and callbacks (TLC behaviours), "
                      "or one duration measurement at a rate / across a change; distinct by hash")
