"""C10 - decoder threads always end; decode errors stop the sound and reach the handle; a slow decoder only causes gaps.

1. TLC model-checks Decoder.tla (decoder loop, frame ring, end/error flags, streaming sound's process,
   removal, handle stop/pop_error; fine-grained: flag stores and per-frame consumption are separate
   steps) against the P_C10 monitor and, under weak fairness, the temporal property that the thread
   ends after finish/stop/failure/rejection/discard - for every failing call position.
2. TLC-generated behaviours (every decoder pace is a schedule: ahead, starving, stalled) are replayed on
   a real streaming sound whose decoder thread is stepped through the dec.* yield points (ring capacity
   scaled down through the verif hook), with a scripted decoder that fails at the k-th call.
3. TLC validates every recorded session against P_C10 (T_C10.tla)."""
import os
import random

from lib.kvlib import *

PROP = "C10"
MANIFEST = dict(
    level="model_checking", design_ref="DESIGN.md 8 (C10), 7 (Streaming / Decoder), Appendix A.5",
    technique="TLA+ model of decoder thread + frame ring + streaming sound (TLC, all interleavings, safety + liveness under fairness, every fault position) + TLC schedules replayed on the real decoder thread through cfg(kira_verif) yield points + TLC trace validation against P_C10",
    text="TLC checks, for every failing decoder call (constructor seek, first packet, mid-stream) and every interleaving of decoder iterations, callbacks (split per output frame), stop, rejection by a full track, discarding the manager and pop_error, that the thread leaves its loop within ring-capacity+3 iterations of having a reason to end, never iterates twice without pushing/sleeping, that an error stops and unloads the sound, silences it and reaches the handle first, and that frames are heard in order with gaps only; liveness (the thread eventually exits) is checked under weak fairness. TLC-generated schedules are replayed on a real streaming sound with its real decoder thread stepped deterministically. Also: a paused stream told to resume at a clock time whose clock is dropped (WaitGone: the sound is cancelled, the thread must end), and a sound whose creation failed occupies nothing on its track.",
    note="Rate 1, no loop, no seeks in this model (seek-driven decoding is covered through C09). 'Bounded time' and 'busy-spin' are counted in decoder loop iterations granted by the scheduler, not wall-clock time. The audio callback is atomic in replays (no yield points inside the sound's process); the per-frame races are covered at model level only.")


def cfg(r, ln, pk, fail, nf, maxcb, replay, extra, spec=None):
    return """SPECIFICATION %s
CONSTANTS
  R = %d
  Len0 = %d
  Pk = %d
  FailAt = %d
  NF = %d
  MaxCb = %d
  Replayable = %s
%s
CHECK_DEADLOCK FALSE
""" % (spec or ("GSpec" if "D =" in extra else "FairSpec"), r, ln, pk, fail, nf, maxcb, "TRUE" if replay else "FALSE", extra)


def write_cfg(name, text):
    p = os.path.join(OUT, "cfg", name)
    os.makedirs(os.path.dirname(p), exist_ok=True)
    open(p, "w").write(text)
    return p


MCINV = "VIEW View\nINVARIANTS PropertyHolds RingBounded\nPROPERTY ThreadEndsHard"


def model_check(res, tier):
    r, ln, pk, nf, maxcb = (3, 5, 2, 2, 5) if tier == "quick" else (4, 7, 3, 2, 7)
    fails = [0, 1, 2, 3, 4] if tier == "quick" else [0, 1, 2, 3, 4, 5]
    for f in fails:
        st = tlc_check("MC_Decoder.tla", write_cfg("Decoder_f%d.cfg" % f, cfg(r, ln, pk, f, nf, maxcb, False, MCINV)),
                       workers=8, timeout=3000, tag="c10mc")
        if st["violated"]:
            res.drift.append({"model": "Decoder fail=%d" % f, "violated": st["violated"]})
        res.add_mc("Decoder R=%d len=%d pk=%d fail=%d cb<=%d" % (r, ln, pk, f, maxcb), st)
    # the shortest streams: the first index is already the end of the audio
    for ln0 in (0, 1):
        st = tlc_check("MC_Decoder.tla", write_cfg("Decoder_len%d.cfg" % ln0, cfg(3, ln0, 2, 0, 2, 4, False, MCINV)), workers=8, timeout=1200, tag="c10mc")
        if st["violated"]:
            res.drift.append({"model": "Decoder len=%d" % ln0, "violated": st["violated"]})
        res.add_mc("Decoder R=3 len=%d pk=2 fail=0 cb<=4" % ln0, st)
    for w, f in (("W_Starved", 0), ("W_Wait", 0), ("W_Err", 3), ("W_WaitGone", 0)):
        tlc_check("MC_Decoder.tla", write_cfg("Decoder_%s.cfg" % w, cfg(3, 5, 2, f, 2, 4, False, "VIEW View\nINVARIANT " + w, spec="Spec")),
                  workers=4, timeout=600, expect_violation=w, tag="c10w")


def generate(tier, rng):
    scen = []
    num = 40 if tier == "quick" else 1200
    for (r, ln, pk, nf) in ((3, 5, 2, 2), (4, 9, 3, 2), (5, 12, 1, 4), (3, 0, 2, 2), (3, 1, 2, 2)):
        for f in range(0, 6 if tier == "quick" else 9):
            base = cfg(r, ln, pk, f, nf, 10, True, "  D = 30\nCONSTRAINT Bound\nINVARIANT Dump\n")
            bs = tlc_generate("Gen_Decoder.tla", write_cfg("Gen_Decoder_%d_%d_%d.cfg" % (r, ln, f), base), "sim", num=num, depth=31,
                              timeout=900, tag="c10g")
            for b in bs:
                scen.append({"r": r, "len": ln, "pk": pk, "fail": f, "nf": nf, "src": "tlc-sim", "steps": b})
    # seeded random schedules on longer streams
    for k in range(60 if tier == "quick" else 2500):
        ln = rng.choice([6, 10, 17, 30, 0, 1, 2])
        r = rng.choice([3, 4, 6, 8])
        steps = [{"act": "Play", "rejected": rng.random() < 0.15}]
        if steps[0]["rejected"]:
            steps.append({"act": "Reject"})
        for _ in range(rng.randint(10, 60)):
            x = rng.random()
            steps.append({"act": "DStep"} if x < 0.6 else {"act": "Callback"} if x < 0.9 else
                         {"act": rng.choice(["Stop", "Pop", "Pop", "Discard", "Pause"])} if x < 0.96 else {"act": "DStep"})
        steps += [{"act": "Callback"}, {"act": "Pop"}, {"act": "Callback"}, {"act": "Callback"}]
        scen.append({"r": r, "len": ln, "pk": rng.choice([1, 2, 3, 5]), "fail": rng.choice([0, 0, 1, 2, 3, 4, 6, 9]),
                     "nf": rng.choice([1, 2, 4]), "src": "random", "eos": 2 if k % 10 == 9 else 1, "steps": steps})
    # directed: a paused stream whose ring is full - the thread finds it full twelve times in a row and must come back promptly
    scen.append({"r": 3, "len": 30, "pk": 2, "fail": 0, "nf": 2, "src": "directed-idle", "eos": 1,
                 "steps": [{"act": "Play", "rejected": False}] + [{"act": "DStep"}] * 5 + [{"act": "Pause"}, {"act": "Callback"}] + [{"act": "DStep"}] * 24
                          + [{"act": "Stop"}, {"act": "Callback"}] + [{"act": "DStep"}] * 3})
    # directed: a paused stream is told to resume at a clock time and the clock goes away - the sound is cancelled and the
    # thread has to end
    # (... within the ring capacity + 3 further iterations, as after a stop: the history grants it more than that)
    for r, ln in ((3, 30), (4, 6)):
        scen.append({"r": r, "len": ln, "pk": 2, "fail": 0, "nf": 2, "src": "directed-wait-cancelled", "eos": 1,
                     "steps": [{"act": "Play", "rejected": False}] + [{"act": "DStep"}] * 5 + [{"act": "Pause"}, {"act": "Callback"}]
                              + [{"act": "DStep"}] * 3 + [{"act": "WaitGone"}, {"act": "Callback"}, {"act": "Callback"}, {"act": "Callback"}]
                              + [{"act": "DStep"}] * 12})
    return scen


def drift_of(scen, sessions):
    out = []
    for k, sc in enumerate(scen):
        if not sc["src"].startswith("tlc-"):
            continue
        evs = [e for e in sessions.get(k + 1, []) if e["a"] not in ("reset", "end")]
        for j, step in enumerate(sc["steps"]):
            if j >= len(evs):
                out.append({"session": k + 1, "step": j, "why": "real run ended early", "model": step["ev"]})
                break
            me, re_ = step["ev"], evs[j]
            bad = me["a"] != re_["a"]
            if not bad:
                for f in ("site", "prod", "state", "idx", "nsounds", "msg", "ok"):
                    if f in me and me[f] != re_.get(f):
                        bad = True
            if bad:
                out.append({"session": k + 1, "step": j, "model": me, "real": {x: re_[x] for x in re_ if x not in ("m", "s", "i")}})
                break
    return out


def run(tier):
    res = Result(PROP, tier, "model_checking")
    rng = random.Random(seed())
    build_harness()
    model_check(res, tier)
    scen = generate(tier, rng)
    sp, tp = os.path.join(OUT, "c10", "scen.ndjson"), os.path.join(OUT, "c10", "trace.ndjson")
    write_ndjson(sp, scen)
    run_kv("c10", sp, tp)
    bad, _ = tlc_validate("T_C10.tla", os.path.join(SPEC, "T_C10.cfg"), tp)
    judge(res, PROP, scen, tp, bad)
    res.drift += drift_of(scen, sessions_of(read_ndjson(tp)))
    res.evaluations = len(scen)
    for sc in scen:
        res.distinct.add(behaviour_hash([sc["r"], sc["len"], sc["pk"], sc["fail"], sc["nf"], [(s["act"], s.get("rejected")) for s in sc["steps"]]]))
    res.samples = [{k: s[k] for k in ("r", "len", "pk", "fail", "nf", "src")} | {"steps": [x["act"] for x in s["steps"]][:40]} for s in scen[:1] + scen[-1:]]
    res.assumptions = ["rtrb ring is a correct SPSC queue; atomics sequentially consistent",
                       "the scheduler's step = one stretch of the decoder loop between two yield points"]
    return res.finish("scenario = ring capacity x stream length x packet size x failing call x schedule of decoder iterations, callbacks, "
                      "stop/reject/discard/pop (TLC behaviour of the replayable Decoder model, or seeded random); distinct by hash; all contain a play")
