"""C19 - unit conversions and clock-time arithmetic: exact where promised, monotone.

1. TLC tabulates TimeArith.tla (clock-time add/sub/compare in fixed point, Mapping::map clamping,
   integer-power easings as exact rationals, ClockSpeed at powers of two) over a grid: the model of the
   source (part C) is judged case by case by the property-level monitor P_C19 (reference semantics,
   part R), the algebraic laws of the reference semantics are invariants, reachability witnesses guard
   against vacuity.
2. TLC emits every case of that grid as a scenario (Gen_TimeArith); seeded generators add dyadic cases on
   finer grids, arbitrary-f64 clock times up to 2^53 ticks, dense easing sweeps (real powers included),
   clock speeds, semitones and sorted boundary-biased f32 sweeps of decibels and panning.
3. The driver `c19` evaluates the real operators/functions on exactly these inputs and records the results
   as integers.
4. TLC (T_C19) judges every recorded evaluation against P_C19 and compares it with the model of the source
   (differences are MODEL-DRIFT, not alarms)."""
import json
import math
import os
import random
import re
import struct
from concurrent.futures import ThreadPoolExecutor

from lib.kvlib import *

PROP = "C19"
# Which source the model-of-the-code expects: False = kira as it is (Sub<f64> keeps the fraction modulo 1
# when the tick count saturates, Sub<u64> is a plain u64 subtraction), True = subtraction stops at zero.
# Only affects the drift comparison and the model-checking run, never the verdict on recorded traces.
FIXED = True

MANIFEST = dict(
    level="other", design_ref="DESIGN.md 8 (C19), 7 (TimeArith), 10",
    technique="TLA+ definitions of clock-time arithmetic, Mapping::map and integer-power easings in exact fixed point (TimeArith.tla) tabulated and law-checked by TLC over a grid; TLC-generated case tables plus seeded boundary-biased sweeps evaluated on the real public operators/functions; TLC trace validation of every recorded evaluation against the property-level monitor P_C19",
    text="Clock-time arithmetic, Mapping::map clamping, integer-power easings (power 1..3) and ClockSpeed at powers of two are defined in TLA+ as exact fixed-point/rational operators; TLC checks their laws (fraction in [0,1), add-then-subtract is the identity, subtraction stops at zero, order = order of ticks*Q+fraction, easing end points and monotonicity, clamp) on every case of a grid and emits the same cases as scenarios; the harness evaluates the real operators (ClockTime +/- f64/u64, partial_cmp, from_ticks_f64, Mapping::map, ClockSpeed::as_*, Semitones->PlaybackRate, Decibels::as_amplitude, Frame::panned) on them and TLC compares the table exactly. Beyond the grid, seeded boundary-biased samples (dyadic clock times on a 1/1024 grid, arbitrary f64 times up to 2^53 ticks, dense easing sweeps including real powers, sorted f32 sweeps of decibels and panning recorded as exact bit-pattern order keys) are judged by the same monitor for range, round trip, no-wrap, order, end points, case structure (0 dB = 1, <= -60 dB = 0, centre/hard-left/hard-right panning) and monotonicity. Also: Tweenable::interpolate for ClockSpeed over all nine unit pairs on the dyadic grid (ends exact, monotone between), panning beyond both ends of its range, and the time read back from a clock's handle after one buffer at 1 - 2^-k ticks per buffer (fraction below 1 and exact).",
    note="Not an exhaustive-f32 result: decibels and panning are checked on a few thousand (quick) to a few hundred thousand (thorough) sorted inputs per run, not on all 2^32 bit patterns, and TLA+ cannot evaluate 10^(dB/20) or sqrt: agreement with the power law is checked only at multiples of 20 dB and through the constant-power identity left^2+right^2=2 (tolerance 6.3e-5). Real-power easings and semitone/clock-speed conversions at non-dyadic values are checked for end points, monotonicity and consistency residuals only. Exact table comparison covers the grid stated in spec/TimeArith_*.cfg; ticks above 2^20 are checked for fraction range, round trip and order only. When more is subtracted than the time holds the monitor demands only a well-formed result that is not later than the original (the statement says 'never wraps', not what the result is).")

TWO30 = 1 << 30
SC = 65536
K_ONE = 0x3F800000


# ----------------------------------------------------------------------------- float helpers

def f32_bits(x):
    return struct.unpack("<I", struct.pack("<f", x))[0]


def f32_key(x):
    b = f32_bits(x)
    return -(b & 0x7FFFFFFF) if b >> 31 else b


def f64_hex(x):
    return "%016x" % struct.unpack("<Q", struct.pack("<d", x))[0]


def next_f64(x, n=1):
    b = struct.unpack("<q", struct.pack("<d", x))[0] + n
    return struct.unpack("<d", struct.pack("<q", b))[0]


# ----------------------------------------------------------------------------- TLC: model checking

def cfg_text(q, maxt, maxa, fixed, body):
    return ("SPECIFICATION %s\nCONSTANTS\n  Q = %d\n  MaxT = %d\n  MaxA = %d\n  Fixed = %s\n%s\nCHECK_DEADLOCK FALSE\n"
            % ("GSpec" if "Emit" in body else "Spec", q, maxt, maxa, "TRUE" if fixed else "FALSE", body))


def write_cfg(name, text):
    p = os.path.join(OUT, "cfg", name)
    os.makedirs(os.path.dirname(p), exist_ok=True)
    open(p, "w").write(text)
    return p


LAWS = ("LawFractionInRange LawAddThenSub LawSubThenAdd LawNoWrap LawAddExact LawDispatch LawWholeTicks LawOrder "
        "LawFromTicks LawCodeAgrees LawEasingEndpoints LawEasingMonotone LawEasingExactlyScalable LawMappingClamps "
        "LawSpeedConsistent")
WITNESSES = ["W_Carry", "W_Borrow", "W_Saturates", "W_Dispatch", "W_ClampLow", "W_ClampHigh", "W_InOutUp", "W_SpeedDown", "W_SpeedAcross"]


def grid(tier):
    return (8, 3, 4) if tier == "quick" else (16, 7, 8)


def model_check(res, tier):
    q, maxt, maxa = grid(tier)
    cfg = write_cfg("TimeArith_%s.cfg" % tier, cfg_text(q, maxt, maxa, FIXED, "INVARIANTS PropertyHolds " + LAWS))
    st = tlc_check("MC_TimeArith.tla", cfg, workers=4, timeout=1500, tag="c19mc")
    if st["violated"]:
        # a model-level counterexample is never an alarm by itself (DESIGN 3)
        res.drift.append({"model": "TimeArith", "invariant": st["violated"]})
    res.add_mc("TimeArith Q=%d ticks<=%d amounts<=%d fixed=%s" % (q, maxt, maxa, FIXED), st)
    # the repaired subtraction satisfies the statement without exception (and the model can tell the difference)
    cfg = write_cfg("TimeArith_fixed.cfg", cfg_text(8, 3, 4, True, "INVARIANTS Strict"))
    st = tlc_check("MC_TimeArith.tla", cfg, workers=4, timeout=600, tag="c19mc")
    if st["violated"]:
        raise ToolError("the saturating model of subtraction violates the monitor: " + st["violated"])
    res.add_mc("TimeArith Q=8 ticks<=3 amounts<=4 fixed=True (strict)", st)
    # vacuity: every situation of interest is reachable (each witness invariant must be violated)
    ws = list(WITNESSES) + ([] if FIXED else ["W_FracWraps", "W_SubUOver", "Strict"])

    def one(w):
        c = write_cfg("TimeArith_%s.cfg" % w, cfg_text(8, 1, 2, FIXED, "INVARIANT " + w))
        tlc_check("MC_TimeArith.tla", c, workers=1, timeout=600, expect_violation=w, tag="c19w" + w)
        return w

    with ThreadPoolExecutor(max_workers=4) as ex:
        list(ex.map(one, ws))
    res.notes["witnesses_reached"] = ws


def gen_grid(tier):
    q, maxt, maxa = grid(tier)
    cfg = write_cfg("Gen_TimeArith_%s.cfg" % tier, cfg_text(q, maxt, maxa, FIXED, "INVARIANT Emit"))
    scen = tlc_generate("Gen_TimeArith.tla", cfg, "bfs", timeout=1500, tag="c19g")
    if not scen:
        raise ToolError("Gen_TimeArith produced no scenario")
    for s in scen:
        s["src"] = "tlc-grid"
    scen.sort(key=lambda s: json.dumps(s, sort_keys=True))
    return scen


# ----------------------------------------------------------------------------- seeded generators

def gen_time_dyadic(rng, n_sessions, per):
    """finer grid (fractions k/1024, ticks < 2^18): the same exact comparison as on the TLC grid"""
    q, scen = 1024, []
    for k in range(n_sessions):
        op = ["add_f", "sub_f", "add_u", "sub_u", "cmp", "from_f"][k % 6]
        t = rng.choice([0, 0, 1, 2, rng.randrange(1 << 10), rng.randrange(1 << 18)])
        f = rng.choice([0, 1, 511, 512, 1023, rng.randrange(q)])
        val = t * q + f
        args = set()
        if op in ("add_f", "sub_f"):
            base = [0, 1, f, f + 1, f - 1, q - f, q - f - 1, q - f + 1, q, val, val + 1, val - 1, val + q, val - q,
                    val + q - f, 2 * q + f, 1 << 27]
            for b in base:
                args.update([b, -b])
            while len(args) < per:
                m = rng.choice([q, 4 * q, max(2 * val, 8), 1 << 20, 1 << 28])
                args.add(rng.randrange(-m, m + 1))
            args = sorted(a for a in args if abs(a) <= 1 << 28)
        elif op in ("add_u", "sub_u"):
            args.update([0, 1, t, t + 1, max(t - 1, 0), t + 2, 1 << 17])
            while len(args) < per // 3:
                args.add(rng.randrange(0, rng.choice([4, 2 * t + 4, 1 << 18])))
            args = sorted(args)
        elif op == "cmp":
            args.update(x for x in [val, val + 1, val - 1, val + q, val - q, t * q, (t + 1) * q, 0, t * q + q - 1] if x >= 0)
            while len(args) < per:
                args.add(rng.randrange(0, rng.choice([2 * val + 8, 1 << 28])))
            args = sorted(args)
        else:
            t, f = 0, 0
            args.update([0, 1, q - 1, q, q + 1, 1 << 28])
            while len(args) < per:
                args.add(rng.randrange(0, rng.choice([4 * q, 1 << 28])))
            args = sorted(args)
        scen.append({"kind": "time", "q": q, "op": op, "t": t, "f": f, "args": args, "src": "random-dyadic"})
    return scen


def gen_timer(rng, n_sessions, per):
    """arbitrary f64 fractions and amounts, ticks up to 2^53: range, round trip, no wrap, order"""
    scen = []
    ticks_pool = [0, 1, 2, 3, 1000, (1 << 32) - 1, 1 << 32, (1 << 52) + 1, (1 << 53) - 1]
    frac_pool = [0.0, 5e-324, 2.0 ** -60, 0.1, 0.25, 0.3, 0.5, 0.7, 0.9, 1.0 - 2.0 ** -53, 1.0 - 2.0 ** -30]
    for _ in range(n_sessions):
        cases = []
        for _ in range(per):
            ticks = rng.choice(ticks_pool + [rng.randrange(1 << rng.choice([4, 16, 40, 53]))] * 4)
            fr = rng.choice(frac_pool + [rng.random()] * 6)
            r = rng.random()
            if r < 0.4:
                am = rng.choice([0.0, 2.0 ** -60, 0.1, 0.5, 1.0 - 2.0 ** -53, 1.0, 1.5, fr, next_f64(fr), 1.0 - fr,
                                 rng.random(), rng.random() * 2.0 ** rng.choice([1, 4, 20, 40, 52]),
                                 float(rng.randrange(1 << 53))])
                cases.append({"op": "rt", "ticks": ticks, "fb": f64_hex(fr), "ab": f64_hex(am)})
            elif r < 0.75:
                whole = float(ticks) if ticks < (1 << 53) else 0.0
                am = rng.choice([0.0, fr, next_f64(fr), next_f64(fr, -1) if fr > 0 else 0.0, 0.5, 1.0, whole, whole + fr,
                                 whole + 1.0, whole * 2.0 + 3.7, rng.random() * (whole + 2.0), rng.random(),
                                 rng.random() * 2.0 ** rng.choice([1, 8, 30, 52])])
                cases.append({"op": "sub", "ticks": ticks, "fb": f64_hex(fr), "ab": f64_hex(max(am, 0.0))})
            else:
                t2 = rng.choice([ticks, ticks, ticks + 1, max(ticks - 1, 0), rng.choice(ticks_pool)])
                fqs = [0, 1, TWO30 // 2, TWO30 - 1, rng.randrange(TWO30)]
                fq = rng.choice(fqs)
                cases.append({"op": "cmp", "ticks": ticks, "fq": fq, "ticks2": t2,
                              "fq2": rng.choice(fqs + [fq, fq, max(fq - 1, 0), min(fq + 1, TWO30 - 1)])})
        scen.append({"kind": "timer", "cases": cases, "src": "random-f64"})
    return scen


def gen_maps(rng, n_sessions, per):
    """dense sorted sweeps of Mapping::map for every easing (integer powers 1..8, real powers k/4)"""
    g, scen = 1 << 20, []
    for k in range(n_sessions):
        ek = k % 7
        pw = 1 if ek == 0 else (rng.randrange(1, 9) if ek <= 3 else rng.choice([1, 2, 3, 4, 5, 6, 8, 10, 12, 16, 20, 32]))
        lo, hi = rng.choice([(0, g), (-g // 2, g // 2), (g // 4, 3 * g // 4), (-g, g), (g // 8, g // 4)])
        olo, ohi = rng.choice([(0, SC), (SC, 0), (8192, 3 * SC + 8192), (-60 * SC, 0), (-SC, SC), (5 * SC // 8, -SC // 4)])
        w = hi - lo
        xs = {lo, hi, lo - 1, lo + 1, hi - 1, hi + 1, lo - w // 8, hi + w // 8, lo + w // 2, lo + w // 2 - 1, lo + w // 2 + 1,
              lo + w // 4, lo + 3 * w // 4, lo + 2, hi - 2}
        while len(xs) < per:
            r = rng.random()
            if r < 0.15:
                xs.add(lo + rng.randrange(0, 64))
            elif r < 0.3:
                xs.add(hi - rng.randrange(0, 64))
            elif r < 0.4:
                xs.add(lo + w // 2 + rng.randrange(-32, 33))
            else:
                xs.add(rng.randrange(lo - w // 8, hi + w // 8 + 1))
        scen.append({"kind": "map", "ek": ek, "pw": pw, "g": g, "lo": lo, "hi": hi, "olo": olo, "ohi": ohi,
                     "exact": False, "desc": k % 3 == 2, "xs": sorted(xs), "src": "random-sweep"})
    return scen


def gen_units(rng, n):
    scen = [{"kind": "semi", "src": "table+random",
             "cases": [{"k": k} for k in range(-4, 2)] +
                      [{"sb": f64_hex(rng.choice([rng.uniform(-48.0, 12.0), float(rng.randrange(-48, 13)),
                                                  rng.uniform(-1.0, 1.0)]))} for _ in range(n)]},
            {"kind": "speedr", "src": "random",
             "cases": [{"u": rng.randrange(3), "vb": f64_hex(rng.choice([2.0 ** rng.uniform(-10, 14), float(rng.randrange(1, 1000)),
                                                                         60.0, 120.0, 0.5, 1.0 / 3.0, 1e-3, 44100.0]))}
                       for _ in range(n)]}]
    return scen


def gen_db(rng, n):
    """sorted, boundary-biased f32 sweep (as order keys); NaN and +-inf are not inputs"""
    MAXK = 0x7F7FFFFF
    k60 = f32_key(-60.0)
    keys = {0, MAXK, -MAXK, 0x007FFFFF, -0x007FFFFF, 0x00800000, -0x00800000}
    for d in range(-16, 17):
        keys.update([k60 + d, d])
    for v in (1.0, 3.0, 6.0, 12.0, 20.0, 40.0, 59.0, 59.999, 60.0, 60.001, 61.0, 80.0, 100.0, 120.0, 200.0, 1e-3, 1e-6, 0.5):
        for s in (1.0, -1.0):
            kk = f32_key(s * v)
            keys.update([kk - 1, kk, kk + 1])
    while len(keys) < n:
        r = rng.random()
        if r < 0.3:
            keys.add(rng.randrange(-MAXK, MAXK + 1))          # every finite bit pattern is equally likely
        elif r < 0.6:
            keys.add(f32_key(rng.uniform(-70.0, 12.0)))
        elif r < 0.75:
            keys.add(f32_key(-60.0 + rng.uniform(-0.01, 0.01)))
        elif r < 0.85:
            keys.add(f32_key(rng.uniform(-1e-3, 1e-3)))
        else:
            keys.add(f32_key(rng.uniform(-200.0, 200.0)))
    return {"kind": "db", "keys": sorted(k for k in keys if abs(k) <= MAXK), "src": "sweep"}


def gen_pan(rng, n):
    keys = {0, K_ONE, -K_ONE, f32_key(0.5), f32_key(-0.5)}
    for d in range(0, 9):
        keys.update([d, -d, K_ONE - d, -(K_ONE - d)])
    while len(keys) < n:
        r = rng.random()
        if r < 0.4:
            keys.add(rng.randrange(-K_ONE, K_ONE + 1))
        else:
            keys.add(f32_key(rng.uniform(-1.0, 1.0)))
    keys = {k for k in keys if abs(k) <= K_ONE}
    # beyond the ends of the range (hard left / hard right all the same)
    for v in (1.0000001, 1.5, 2.0, 100.0, 1.0e30):
        keys.update([f32_key(v), f32_key(-v)])
    keys.update([K_ONE + 1, K_ONE + 2, -(K_ONE + 1), -(K_ONE + 2)])
    return {"kind": "pan", "keys": sorted(keys), "src": "sweep"}


# ----------------------------------------------------------------------------- validation

def validate(trace_path, timeout=1500):
    cfg = write_cfg("T_C19.cfg", "SPECIFICATION TSpec\nCONSTANT Fixed = %s\nINVARIANT Report\nCHECK_DEADLOCK FALSE\n"
                    % ("TRUE" if FIXED else "FALSE"))
    out = tlc_raw("T_C19.tla", cfg, workers=1, timeout=timeout, tag="c19tv", env={"TRACE": trace_path},
                  java_opts="-Xss1g -Dtlc2.tool.queue.IStateQueue=StateDeque")
    bad, drift, consumed = [], [], None
    for line in out.splitlines():
        line = line.strip()
        m = re.match(r'^<<"(BADEV|DRIFTEV)", "(.*)">>$', line)
        if m:
            (bad if m.group(1) == "BADEV" else drift).append(json.loads(json.loads('"' + m.group(2) + '"')))
        m = re.match(r'^<<"CONSUMED", (\d+), (\d+), (\d+), (\d+)>>$', line)
        if m:
            consumed = tuple(int(x) for x in m.groups())
    if consumed is None or consumed[0] != consumed[1] or "Error:" in out or consumed[2] != len(bad) or consumed[3] != len(drift):
        raise ToolError("trace validation did not complete for %s: %s" % (trace_path, out[-2500:]))
    return bad, drift, consumed[0]


def n_cases(sc):
    for k in ("args", "xs", "cases", "keys"):
        if k in sc:
            return len(sc[k])
    return 0


def run(tier):
    res = Result(PROP, tier, "other")
    rng = random.Random(seed())
    build_harness()
    model_check(res, tier)
    big = tier != "quick"
    scen = gen_grid(tier)
    n_grid = len(scen)
    scen += gen_time_dyadic(rng, 60 if not big else 1200, 40 if not big else 80)
    scen += gen_timer(rng, 4 if not big else 40, 500 if not big else 2000)
    scen += gen_maps(rng, 42 if not big else 420, 160 if not big else 400)
    scen += gen_units(rng, 300 if not big else 5000)
    scen += [gen_db(rng, 4000 if not big else 600000), gen_pan(rng, 2000 if not big else 300000)]
    scen.append({"kind": "clkread", "src": "grid", "cases": [{"k": k} for k in (1, 2, 10, 20, 23, 24, 25, 26, 30, 40, 52, 53)]})
    sp = os.path.join(OUT, "c19", "scen.ndjson")
    tp = os.path.join(OUT, "c19", "trace.ndjson")
    write_ndjson(sp, [{k: v for k, v in s.items() if k != "exp"} for s in scen])
    run_kv("c19", sp, tp)
    bad, drift, n_events = validate(tp)
    judge(res, PROP, scen, tp, bad)
    for d in drift[:50]:
        res.drift.append({"session": d["s"], "event": d["i"], "action": d["a"], "differs": d["what"]})
    res.evaluations = sum(n_cases(s) for s in scen)
    for s in scen:
        head = json.dumps({k: v for k, v in s.items() if k not in ("args", "xs", "cases", "keys", "exp", "src")}, sort_keys=True)
        for k in ("args", "xs", "cases", "keys"):
            for c in s.get(k, []):
                res.distinct.add(behaviour_hash([head, c]))
    pick = [scen[0], scen[n_grid // 2], scen[n_grid], scen[-1]]
    res.samples = [{k: (v[:12] if isinstance(v, list) else v) for k, v in s.items()} for s in pick]
    res.notes["sessions_from_tlc_grid"] = n_grid
    res.notes["sessions_seeded"] = len(scen) - n_grid
    res.notes["rejections_total"] = len(bad)
    by = {}
    for b in bad:
        by["%s/%s" % (b["a"], b["reason"])] = by.get("%s/%s" % (b["a"], b["reason"]), 0) + 1
    res.notes["rejections_by_action_and_clause"] = by
    if by:
        log("rejections by action/clause: " + json.dumps(by, sort_keys=True))
    res.notes["db_sweep_points"] = n_cases(scen[-2])
    res.notes["pan_sweep_points"] = n_cases(scen[-1])
    res.assumptions = [
        "f64/f32 arithmetic on the dyadic inputs of the grid is exact (true for IEEE-754; the driver reports any result that is not on the grid)",
        "the driver's integer projections (floor/round/bit-pattern order keys) are monotone; tolerances: round trip 2^-20 tick (+2^-51 relative to the amount), power law 6.3e-5, residuals 1e-9",
        "decibels/panning: a sorted sample of f32 inputs, not all bit patterns; 10^(dB/20) itself is only checked at multiples of 20 dB"]
    return res.finish(
        "evaluation = one call of a public operator/function on stated inputs (TLC grid case or seeded sample); distinct by "
        "hash of (session constants, input); every evaluation is non-trivial (no environment-only actions exist here)",
        explanation="TLA+ acts as the definition (exact fixed point) and as the judge of recorded evaluations; TLC explores no "
                    "interleavings here because the functions are pure: `states` counts the tabulated grid cases. The f32 "
                    "quantifier of the statement is sampled, not exhausted (see level_note).")
