"""C08 - resource life cycle: exact capacity accounting, prompt removal, no stale ids.

1. TLC model-checks Arena.tla (both storage flavours, fine-grained interleavings) against the
   P_C08 monitor and the structural invariants; reachability witnesses guard against vacuity.
2. TLC generates behaviours of the replayable (yield-point granular) Arena model - random
   simulation, directed witnesses (ring full, slot reuse) and the schedule that overflowed the
   unused-resource ring before the fix - and the harness forces each of them onto the real
   library with the ctl.*/sto.* yield points (sounds, clocks, modulators).
3. Seeded random create/mark/callback/len histories on all eight resource arenas.
4. TLC validates every recorded session against P_C08 (T_C08.tla)."""
import os
import random

from lib.kvlib import *

PROP = "C08"
MANIFEST = dict(
   level="model_checking", design_ref="DESIGN.md 8 (C08), 7 (Arena)",
   technique="TLA+ model of the arena/controller/rings (TLC, all interleavings at yield-point granularity) + TLC-generated schedules replayed on the real code through cfg(kira_verif) yield points + TLC trace validation against the property-level monitor P_C08",
   text="TLC explores every interleaving of the gameplay create path with the audio thread's remove-and-add step for both storage flavours against the property-level monitor (capacity accounting, count, prompt removal, destruction thread, stale ids) and structural invariants; TLC-generated schedules (random, directed witnesses, and the schedule that broke the code before the fix) are forced onto the real library through yield points and every recorded session is validated by TLC against P_C08. Exhaustive for small capacities/item counts, sampled beyond. Sequential histories run on ten arenas: main-track sounds, sounds and sub-tracks of a track (playing, paused throughout, or a spatial track; the parent built with two different capacities), top-level sub-tracks, send tracks, clocks, modulators, listeners.",
   note="atomic_arena's try_reserve/free CAS loops are model-checked at access granularity for one reserving and one freeing thread (ArenaCtl.tla) and used as single steps in Arena.tla. Trusted: rtrb rings; SeqCst atomics. Racy replays target main-track sounds, clocks and modulators; the other five arenas run the same generic code and are covered by sequential histories. Listener count is not observable through the public API.")
# (tsound_p / nested_p: sounds and sub-tracks of a parent track that is paused throughout - resources come and go all the same)
KINDS = ["sound", "tsound", "subtrack", "nested", "send", "clock", "modulator", "listener", "tsound_p", "nested_p", "tsound_s", "nested_s"]   # _s: the parent is a spatial track


def cfg_text(n, items, selfref, ucap, replayable, merged, maxcb, extra=""):
    return """SPECIFICATION %s
CONSTANTS
  N = %d
  Items = {%s}
  SelfRef = %s
  UnusedCap = %d
  Replayable = %s
  MergedReserve = %s
  MaxCb = %d
%s
CHECK_DEADLOCK FALSE
""" % ("GSpec" if "D =" in extra else "Spec", n, ", ".join(str(i) for i in range(1, items + 1)),
       "TRUE" if selfref else "FALSE", ucap, "TRUE" if replayable else "FALSE",
       "TRUE" if merged else "FALSE", maxcb, extra)


INVS = "INVARIANTS PropertyHolds NoPanic TypeOK KeysUnique KeyResolvesToOwner ControllerMirrorsArena FreeListExact OnlyGameplayDestroys"


def write_cfg(name, text):
    p = os.path.join(OUT, "cfg", name)
    os.makedirs(os.path.dirname(p), exist_ok=True)
    open(p, "w").write(text)
    return p


def model_check(res, tier):
    n, items, maxcb = (2, 3, 3) if tier == "quick" else (3, 4, 4)
    for flav, selfref, merged in (("plain", False, False), ("selfref", True, True), ("plain-merged", False, True)):
        cfg = write_cfg("Arena_%s.cfg" % flav,
                        cfg_text(n, items, selfref, n + 1, False, merged, maxcb, "VIEW View\n" + INVS))
        st = tlc_check("MC_Arena.tla", cfg, workers=8, timeout=3000, tag="c08mc")
        if st["violated"]:
            # a model-level counterexample is not an alarm by itself (DESIGN 3); it is reported as drift
            res.drift.append({"model": "Arena/" + flav, "invariant": st["violated"]})
        res.add_mc("Arena/%s N=%d items=%d cb<=%d" % (flav, n, items, maxcb), st)
        # vacuity witnesses: each situation must be reachable
        for w in ("W_Reuse", "W_Full", "W_Fail"):
            if flav == "plain-merged":
                continue
            cfgw = write_cfg("Arena_%s_%s.cfg" % (flav, w),
                             cfg_text(2, 3, selfref, 3, False, merged, 3, "VIEW View\nINVARIANT " + w))
            tlc_check("MC_Arena.tla", cfgw, workers=4, timeout=600, expect_violation=w, tag="c08w")
    # the controller's CAS loops at atomic-access granularity (justifies try_reserve / free as single steps above)
    n2, ops2 = (3, 7) if tier == "quick" else (4, 10)
    ctl = "SPECIFICATION Spec\nCONSTANTS\n  N = %d\n  MaxOps = %d\n%s\nCHECK_DEADLOCK FALSE\n"
    st = tlc_check("ArenaCtl.tla", write_cfg("ArenaCtl.cfg", ctl % (n2, ops2, "INVARIANTS NoDuplicates Partition ReservedNotFree")),
                   workers=8, timeout=3000, tag="c08ctl")
    if st["violated"]:
        res.drift.append({"model": "ArenaCtl", "invariant": st["violated"]})
    res.add_mc("ArenaCtl (atomic_arena controller, access granularity) N=%d ops<=%d" % (n2, ops2), st)
    for w in ("W_Contention", "W_PushRetry"):
        tlc_check("ArenaCtl.tla", write_cfg("ArenaCtl_%s.cfg" % w, ctl % (3, 6, "INVARIANT " + w)), workers=4, timeout=600,
                  expect_violation=w, tag="c08ctlw")
    # the model of the code as it was before the fix must exhibit the defect (the spec can see it)
    cfgo = write_cfg("Arena_old.cfg", cfg_text(2, 3, False, 2, False, False, 3, "VIEW View\nINVARIANT NoPanic"))
    tlc_check("MC_Arena.tla", cfgo, workers=4, timeout=600, expect_violation="NoPanic", tag="c08old")


def gen_racy(res, tier):
    """behaviours of the replayable model -> scenarios for kinds whose arena can be targeted by tag"""
    scen = []
    num = 40 if tier == "quick" else 1500
    plans = [("sound", False, False), ("modulator", True, True), ("clock", True, True)]
    for kind, selfref, merged in plans:
        for n in ((1, 2) if tier == "quick" else (1, 2, 3)):
            base = cfg_text(n, 4 if n < 3 else 5, selfref, n + 1, True, merged, 20, "  D = 36\nCONSTRAINT Bound\n")
            bs = tlc_generate("Gen_Arena.tla", write_cfg("Gen_%s_%d_sim.cfg" % (kind, n), base + "INVARIANT Dump\n"),
                              "sim", num=num, depth=38, tag="c08g")
            base += "VIEW GView\n"
            for b in bs:
                scen.append({"kind": kind, "n": n, "racy": True, "src": "tlc-sim", "steps": b})
            for w in ("WG_Full", "WG_Reuse"):
                bs = tlc_generate("Gen_Arena.tla", write_cfg("Gen_%s_%d_%s.cfg" % (kind, n, w), base + "INVARIANT %s\n" % w),
                                  "bfs", tag="c08g")
                for b in bs[:1]:
                    scen.append({"kind": kind, "n": n, "racy": True, "src": "tlc-" + w, "steps": b})
            # the schedule that broke the code before the fix (model with the old ring capacity)
            old = cfg_text(n, 4, selfref, n, True, merged, 6, "  D = 60\nCONSTRAINT Bound\nVIEW GView\n")
            w = "WG_Panic" if not selfref else "WG_Leak"
            bs = tlc_generate("Gen_Arena.tla", write_cfg("Gen_%s_%d_old.cfg" % (kind, n), old + "INVARIANT %s\n" % w),
                              "bfs", tag="c08g")
            for b in bs[:1]:
                # drop the model's final (panicking / leaking) step expectations: the real code decides
                scen.append({"kind": kind, "n": n, "racy": True, "src": "tlc-old-model-" + w, "steps": b})
    return scen


def gen_sequential(tier, rng):
    scen = []
    per_kind = 6 if tier == "quick" else 150
    for kind in KINDS:
        for k in range(per_kind):
            n = rng.choice([0, 1, 1, 2, 2, 3])
            steps, nxt, alive = [], 1, []
            for _ in range(rng.randint(8, 40)):
                r = rng.random()
                if r < 0.06 and nxt <= 38:
                    steps.append({"act": "CreateBad", "x": nxt})     # conversion of the sound data fails
                    nxt += 1
                elif r < 0.35 and nxt <= 38:
                    steps.append({"act": "Create", "x": nxt})
                    alive.append(nxt)
                    nxt += 1
                elif r < 0.55 and alive:
                    x = rng.choice(alive)
                    alive.remove(x)
                    steps.append({"act": "Mark", "x": x})
                elif r < 0.9:
                    steps.append({"act": "Callback"})
                else:
                    steps.append({"act": "Len"})
            steps += [{"act": "Callback"}, {"act": "Callback"}, {"act": "Len"}]
            scen.append({"kind": kind, "n": n, "racy": False, "src": "random", "steps": steps})
    return scen


def fix_alive(scen):
    """a Mark of an item whose creation failed is meaningless: the harness ignores unknown handles, but the
    P-monitor would flag `harness_mark_dead`; sequential scenarios therefore mark only after the trace is
    known.  We resolve this by letting the driver skip marks of failed items (see d_c08.rs)."""
    return scen


def drift_of(scen, sessions):
    """I-spec conformance: for replayed TLC behaviours compare the model's event with the real one"""
    out = []
    for k, sc in enumerate(scen):
        if not sc["src"].startswith("tlc-") or "old-model" in sc["src"]:
            continue
        evs = [e for e in sessions.get(k + 1, []) if e["a"] not in ("reset", "drop", "end")]
        for j, step in enumerate(sc["steps"]):
            if j >= len(evs):
                out.append({"session": k + 1, "step": j, "why": "real run ended early", "model": step["ev"]})
                break
            me, re_ = step["ev"], evs[j]
            a_m = "reserve" if me["a"] == "create" else me["a"]
            a_r = "reserve" if re_["a"] == "create" else re_["a"]
            bad = a_m != a_r
            if not bad:
                for f in ("item", "ok"):
                    if f in me and me[f] != re_.get(f):
                        bad = True
                if "len" in me and re_.get("len", -1) != -1 and me["len"] != re_["len"]:
                    bad = True
                if me["a"] == "cb_end" and sorted(me["present"]) != sorted(re_.get("present", [])):
                    bad = True
            if bad:
                out.append({"session": k + 1, "step": j, "model": me, "real": {x: re_[x] for x in re_ if x != "m"}})
                break
    return out


def run(tier):
    res = Result(PROP, tier, "model_checking")
    rng = random.Random(seed())
    build_harness()
    model_check(res, tier)
    scen = gen_racy(res, tier) + gen_sequential(tier, rng)
    sp = os.path.join(OUT, "c08", "scen.ndjson")
    tp = os.path.join(OUT, "c08", "trace.ndjson")
    write_ndjson(sp, scen)
    run_kv("c08", sp, tp)
    bad, n_events = tlc_validate("T_C08.tla", os.path.join(SPEC, "T_C08.cfg"), tp)
    judge(res, PROP, scen, tp, bad)
    res.drift += drift_of(scen, sessions_of(read_ndjson(tp)))
    res.evaluations = len(scen)
    for sc in scen:
        if any(s["act"] not in ("Callback", "Len", "ABegin", "AScan", "ARefill") for s in sc["steps"]):
            res.distinct.add(behaviour_hash([sc["kind"], sc["n"], [(s["act"], s.get("x", 0)) for s in sc["steps"]]]))
    res.samples = [{"kind": s["kind"], "n": s["n"], "src": s["src"],
                    "steps": [(x["act"], x.get("x", 0)) for x in s["steps"]][:30]} for s in scen[:2] + scen[-1:]]
    res.notes["racy_sessions"] = sum(1 for s in scen if s["racy"])
    res.notes["sequential_sessions"] = sum(1 for s in scen if not s["racy"])
    res.assumptions = [
        "atomic_arena's Controller::try_reserve / free take effect atomically at their CAS for one reserving and one freeing thread (checked separately at access granularity in ArenaCtl.tla; Arena.tla uses them as single steps)",
        "rtrb rings and triple_buffer behave as specified (dependencies are not re-verified)",
        "sequentially consistent atomics (kira uses SeqCst throughout)",
        "the racy (yield-point) replays target the main track's sounds, the clocks and the modulators; the other arenas share the same generic storage code and are exercised sequentially"]
    return res.finish(
        "scenario = arena kind x capacity x (TLC behaviour of the yield-point-granular Arena model | seeded random "
        "create/mark/callback/len history); distinct by hash of (kind, capacity, action list); non-trivial = contains "
        "at least one create or mark")
