"""C02 - mixer output equals the documented signal-flow sum; nothing leaks or is lost.

1. TLC model-checks Mixer.tla (the code's buffer handling: chunking by the internal buffer size, temp
   buffers, early return of paused tracks, children and sounds summed through temp buffers, effects,
   volume, post-fader sends into the send track's input buffer, send and main track) against P_C02
   (the documented formula evaluated per frame, plus 'every live sound asked for every frame exactly
   once, in order, in slices <= internal buffer') over families of scenes x buffer sizes x callback
   sizes x pause/resume/finish/drop histories (drop: sub-track or send-track handles; the routes to a removed
   send track fall silent, every other route goes on).
2. TLC-generated behaviours (scene + history + callback partition) are built on the real library with
   exact probes (bit-exact dyadic samples, halving effects, 0 dB / -60 dB volumes) and executed.
3. TLC validates every recorded callback against P_C02 (T_C02.tla)."""
import os
import random

from lib.kvlib import *

PROP = "C02"
MANIFEST = dict(
    level="model_checking", design_ref="DESIGN.md 8 (C02), 7 (Mixer)",
    technique="TLA+ model of the mixer's buffer-level signal flow (TLC, scene families x buffer sizes x callback partitions x add/remove/pause histories) against the documented sum; TLC behaviours rebuilt on the real library with exact probes; TLC trace validation of every output frame against P_C02",
    text="TLC checks for every scene of the explored families (chain or fork of two sub-tracks, one or two send tracks with route tables, halving effects on any track, muted branches), internal buffer sizes 1-3, callback sizes 1-4 including remainders, and histories of pausing, resuming, finishing sounds and dropping sub-tracks and send tracks, that the model of the code's buffer operations yields exactly the documented sum per frame, asks every live probe for every frame exactly once in order in slices no longer than the internal buffer, and leaves the send input buffer cleared. The same behaviours run on the real mixer with bit-exact probes, and TLC validates every recorded frame.",
    note="Volumes are fixed per scene (0 dB or -60 dB) and fades are zero-length, so every sample is an exact dyadic rational (tweened volumes are covered by C06/C11). Track removal timing is simplified (tracks dropped only after pick-up; removal rules are C12's subject).")


def write_cfg(name, text):
    p = os.path.join(OUT, "cfg", name)
    os.makedirs(os.path.dirname(p), exist_ok=True)
    open(p, "w").write(text)
    return p


def cfg(scenes, bs, ns, maxops, maxcb, extra, spec="Spec"):
    return "SPECIFICATION %s\nCONSTANTS\n  Scenes <- %s\n  Bs = {%s}\n  Ns = {%s}\n  MaxOps = %d\n  MaxCb = %d\n%s\nCHECK_DEADLOCK FALSE\n" % (
        spec, scenes, ", ".join(map(str, bs)), ", ".join(map(str, ns)), maxops, maxcb, extra)


def model_check(res, tier):
    if tier == "quick":
        runs = [("quick", cfg("QuickScenes", [1, 2, 3], [1, 3, 4], 1, 3, "VIEW View\nINVARIANTS PropertyHolds SendInputCleared"))]
    else:
        runs = [("quick2", cfg("QuickScenes", [1, 2, 3], [1, 3, 4], 2, 3, "VIEW View\nINVARIANTS PropertyHolds SendInputCleared")),
                ("thorough", cfg("ThoroughScenes", [2, 3], [1, 4], 1, 2, "VIEW View\nINVARIANTS PropertyHolds SendInputCleared"))]
    for name, text in runs:
        st = tlc_check("MC_Mixer.tla", write_cfg("Mixer_%s.cfg" % name, text), workers=8, timeout=6000, tag="c02mc")
        if st["violated"]:
            res.drift.append({"model": "Mixer/" + name, "violated": st["violated"]})
        res.add_mc("Mixer/" + name, st)
    # how new tracks reach the mixer: the order of its two ring drains (PickUp.tla) - the code's order keeps every rendered
    # track together with the send tracks its routes name; the reversed order must break that (its counterexample is the
    # schedule of the directed racy-add sessions below)
    pu = "SPECIFICATION Spec\nCONSTANTS\n  NPairs = %d\n  MaxCb = %d\n  SubFirst = %s\nINVARIANTS RoutesComplete TypeOK\nCHECK_DEADLOCK FALSE\n"
    st = tlc_check("PickUp.tla", write_cfg("PickUp.cfg", pu % (2 if tier == "quick" else 3, 3 if tier == "quick" else 4, "TRUE")), workers=4, timeout=900, tag="c02pu")
    if st["violated"]:
        res.drift.append({"model": "PickUp", "violated": st["violated"]})
    res.add_mc("PickUp (drain order of the mixer's new-resource rings)", st)
    tlc_check("PickUp.tla", write_cfg("PickUp_rev.cfg", pu % (1, 2, "FALSE")), workers=2, timeout=600, expect_violation="RoutesComplete", tag="c02pu")
    tlc_check("PickUp.tla", write_cfg("PickUp_w.cfg", (pu % (1, 2, "TRUE")).replace("INVARIANTS RoutesComplete TypeOK", "INVARIANT W_BuiltDuringDrains")),
              workers=2, timeout=600, expect_violation="W_BuiltDuringDrains", tag="c02pu")
    for w in ("W_Nonzero", "W_SendAudible", "W_Remainder", "W_SecondSendAlone"):
        tlc_check("MC_Mixer.tla", write_cfg("Mixer_%s.cfg" % w, cfg("QuickScenes", [2], [3], 1 if w == "W_SecondSendAlone" else 0, 2, "VIEW View\nINVARIANT " + w)),
                  workers=4, timeout=900, expect_violation=w, tag="c02w")


def generate(tier, rng):
    scen = []
    num = 300 if tier == "quick" else 8000
    for fam in ("QuickScenes", "ThoroughScenes", "PersistScenes"):
        base = cfg(fam, [1, 2, 3, 4], [1, 2, 3, 5, 8], 5, 8, "  D = 10\nCONSTRAINT Bound\nINVARIANT Dump\n", spec="GSpec")
        k = num // 2 if fam == "PersistScenes" else num
        bs = tlc_generate("Gen_Mixer.tla", write_cfg("Gen_Mixer_%s.cfg" % fam, base), "sim", num=k, depth=11, timeout=2400, tag="c02g")[:k * 2]
        for x in bs:
            scen.append({"sc": x[0]["sc"], "b": x[0]["b"], "src": "tlc-sim-" + fam, "steps": x[1:]})
    return scen


def drift_of(scen, sessions):
    out = []
    for k, sc in enumerate(scen):
        if "sc" not in sc:
            continue
        evs = [e for e in sessions.get(k + 1, []) if e["a"] in ("op", "cb")]
        for j, step in enumerate(sc["steps"]):
            if j >= len(evs):
                out.append({"session": k + 1, "step": j, "why": "real run ended early"})
                break
            me, re_ = step["ev"], evs[j]
            if me["a"] == "cb" and (me["out"] != re_.get("out") or me["asks"] != re_.get("asks") or me["n0"] != re_.get("n0")):
                out.append({"session": k + 1, "step": j, "model": {x: me[x] for x in ("out", "asks", "n0")},
                            "real": {x: re_.get(x) for x in ("out", "asks", "n0")}})
                break
    return out


def run(tier):
    res = Result(PROP, tier, "model_checking")
    rng = random.Random(seed())
    build_harness()
    model_check(res, tier)
    scen = generate(tier, rng)
    # directed: a send track and a track routed to it are built while the audio thread is between its resource drains
    # (parked at the sto.refill yield point of the sub-track / send-track storage): never the track without its route
    scen += [{"mode": "racy_add", "park": pk, "src": "directed-racy-add", "steps": []} for pk in ("sub", "send")]
    sp, tp = os.path.join(OUT, "c02", "scen.ndjson"), os.path.join(OUT, "c02", "trace.ndjson")
    write_ndjson(sp, scen)
    run_kv("c02", sp, tp)
    bad, _ = tlc_validate("T_C02.tla", os.path.join(SPEC, "T_C02.cfg"), tp)
    judge(res, PROP, scen, tp, bad)
    res.drift += drift_of(scen, sessions_of(read_ndjson(tp)))
    res.evaluations = len(scen)
    for sc in scen:
        res.distinct.add(behaviour_hash([sc.get("sc", sc.get("park")), sc.get("b"), [(s["act"], s.get("o"), s.get("x"), s.get("n")) for s in sc["steps"]]]))
    res.samples = [{"sc": s.get("sc"), "b": s.get("b"), "src": s["src"], "steps": [[x["act"], x.get("o"), x.get("x"), x.get("n")] for x in s["steps"]]}
                   for s in scen[:1] + scen[-1:]]
    res.assumptions = ["probe samples are exact dyadic rationals, so equality is bit-exact", "commands reach the audio thread as in C07"]
    return res.finish("scenario = scene (shape, sounds, effect placement, volumes, route table) x internal buffer size x history of "
                      "pause/resume/finish/drop operations and callbacks of varying size (TLC behaviours of Mixer.tla); distinct by hash")
