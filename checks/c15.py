"""C15 - spatial tracks: loudness from distance, balance from direction, needs a listener.

Life-cycle part (a genuine model):
1. TLC model-checks Spatial.tla (listener arena with generational keys, add / drop / move listener,
   spatial tracks bound to a listener id - live, dropped, removed-and-slot-reused, or of another
   manager -, nested spatial and non-spatial tracks, callbacks) against the property-level monitor
   P_C15 and structural invariants; reachability witnesses guard against vacuity; the same model
   with an arena that ignores generations must violate the monitor.
2. TLC emits behaviours of that model (bounded exhaustive for one track, random simulation and directed
   witnesses for two) and the driver `c15` replays them on the real library through the public API
   (AudioManager::add_listener / add_spatial_sub_track, Spatial/TrackHandle::add_sub_track, dropping
   ListenerHandles) with DC probe sounds that own a Parameter mapped from the listener distance.
3. TLC (T_C15) validates every recorded session against P_C15; differences between the model's and
   the real observation are MODEL-DRIFT.

Geometric part (TLC as law checker over recorded renderings):
4. seeded scenarios on an integer lattice (and dyadic rays) x the 24 axis-aligned orientations x
   distance ranges x attenuation curves x strengths: the driver renders a DC source through the real
   renderer and records per-channel gains as integers; T_C15/P_C15 judge every rendering: unity within
   the minimum distance, exact zero at or beyond the maximum, non-increasing in between, dependence on
   the distance only, ear gains in [1 - s, 1], louder ear on the emitter's side, left/right swap under
   mirroring, invariance under a common rigid motion, unpanned at strength 0, finite everywhere."""
import itertools
import json
import os
import random
import re
import struct
import time
from concurrent.futures import ThreadPoolExecutor
from fractions import Fraction

from lib.kvlib import *

PROP = "C15"
MANIFEST = dict(
    level="other", design_ref="DESIGN.md 8 (C15), 10",
    technique="TLA+ model of the listener life cycle as seen by spatial tracks (Spatial.tla: generational listener arena, bound / stale / foreign listener ids, nested tracks, callbacks) model-checked by TLC against the property-level monitor P_C15, its behaviours replayed on the real library and the recorded sessions validated by TLC; plus TLC as law checker (P_C15 geometry clauses) over integer-coded renderings of a DC source on an integer lattice x 24 orientations",
    text="Life cycle: TLC explores every order of add / drop / move listener, add spatial track (bound to a live, dropped, slot-reused or foreign listener id; top-level or nested in another spatial track), add non-spatial descendant and callback for <= 2 listener slots, 3 listeners and 2 spatial tracks, and checks: no listener (never existed, dropped and removed, slot reused by a newer listener) => exact silence; listener exists and source within the minimum distance => the probe is heard at unity; a parameter mapped from the listener distance follows it and holds its last value without a listener; descendants inherit the spatial info. TLC-generated behaviours are replayed through the public API and every recorded session is validated by TLC. Geometry: recorded renderings on a lattice are judged by TLC for the laws of the statement (unity within min, zero at/after max, non-increasing, distance-only, ear gains in [1-s,1], emitter's side louder, mirror swap, rigid-motion invariance, strength 0 unpanned, finite incl. coincident points). Also: rigid motions under way (listener and emitter glide together, started at once, at a clock tick, or right after creation; every frame compared with the level before), attenuation exactly at and beyond the maximum for ranges of awkward width, strengths mapped from a modulator or the listener distance (also beyond 0..1), a distance mapping installed through the handle, and a listener + spatial track created between two ring drains of the audio thread.",
    note="Level `other`: the life-cycle part is a genuine model checked exhaustively for the stated bounds (API-call granularity; the arena hand-over interleavings belong to C08), but the geometric part is sampled: integer lattice (|offset| <= 5..9, listener within 2 of the origin; dyadic offsets in steps of 1/8 and rays in steps of 1/64; far-apart points up to 10^4) x 24 axis-aligned orientations x 3 distance ranges x 6 curves x strengths {0, .25, .5, .75, 1}, fixed positions only (no position/orientation tweens, no non-axis-aligned orientations) - TLC judges recorded observations there, it does not explore. Gains are compared with an absolute tolerance of 2e-5 (f32 positions at magnitude <= 8 seen from a head of size ~0.1: 8 * 2^-23 / 0.1 ~ 1e-5 in a direction, i.e. 5e-6 in an ear gain; largest deviation observed 1e-6), 5e-2 for the far-apart class; exact zero is demanded bit-exactly. 'The emitter's side' is judged only for emitters outside the listener's head (>= 1/8 from the listener, or coincident): between the ears the notion has no meaning and the code favours the far ear there (class `head` checks the other laws). min = max distance is a class of its own (finding C15-D1: NaN at every distance); the point d = min = max and min > max are not generated (contradictory / undefined; the code panics in f32::clamp for min > max). 'Never existed' is realised by a listener id of a second manager of the same capacity (an id with a larger slot index would index out of bounds in atomic_arena). A position jump of more than f32::MAX within one chunk makes the interpolated position NaN for that chunk (recorded as fin1, not judged).")

ONE = 1000000

# Findings of this check that may not be registered in known_findings.json yet (same format; an entry of
# known_findings.json with the same id - open or fixed - takes precedence over the one here).
PENDING_FINDINGS = [
    {"id": "C15-D1", "property": "C15", "status": "open",
     "signature": {"reason": "output_finite", "action": "o", "session": {"cls": "degenerate"}},
     "what": "spatial track with min_distance == max_distance outputs NaN at every distance (0/0 in SpatialTrackDistances::relative_distance)"}]


# ----------------------------------------------------------------------------- TLC: model checking

def cfg_text(nl, maxl, nt, depth, dists, maxcb, genaware=True, extra="", gen_d=None):
    return ("SPECIFICATION %s\nCONSTANTS\n  NL = %d\n  MaxL = %d\n  NT = %d\n  MaxDepth = %d\n  Dists = {%s}\n  MaxCb = %d\n"
            "  GenAware = %s\n%s%s\nCHECK_DEADLOCK FALSE\n"
            % ("GSpec" if gen_d else "Spec", nl, maxl, nt, depth, ", ".join(str(d) for d in dists), maxcb,
               "TRUE" if genaware else "FALSE", ("  D = %d\nCONSTRAINT Bound\n" % gen_d) if gen_d else "", extra))


def write_cfg(name, text):
    p = os.path.join(OUT, "cfg", name)
    os.makedirs(os.path.dirname(p), exist_ok=True)
    open(p, "w").write(text)
    return p


INVS = "VIEW View\nINVARIANTS PropertyHolds TypeOK ControllerMirrorsArena FreeListExact KeysUnique UnusedRingNeverFull"
WITNESSES = ["W_Reuse", "W_Full", "W_Maybe", "W_Hold", "W_Follow", "W_NestedSilent", "W_Foreign", "W_Mixed"]


def model_check(res, tier):
    if tier == "quick":
        runs = [("2 slots, 3 listeners, 2 tracks, depth 1, fixed positions, cb<=4", (2, 3, 2, 1, [1], 4)),
                ("1 slot, 3 listeners, 2 tracks, depth 1, positions {1,2}, cb<=3", (1, 3, 2, 1, [1, 2], 3))]
    else:
        runs = [("2 slots, 3 listeners, 2 tracks, depth 1, positions {1,2}, cb<=3", (2, 3, 2, 1, [1, 2], 3)),
                ("2 slots, 3 listeners, 2 tracks, depth 2, fixed positions, cb<=4", (2, 3, 2, 2, [1], 4)),
                ("1 slot, 4 listeners, 2 tracks, depth 1, positions {1,2}, cb<=4", (1, 4, 2, 1, [1, 2], 4))]

    def one(k):
        name, c = runs[k]
        cfg = write_cfg("Spatial_%s_%d.cfg" % (tier, k), cfg_text(*c, extra=INVS))
        return name, tlc_check("MC_Spatial.tla", cfg, workers=2, timeout=3000, tag="c15mc%d" % k)

    with ThreadPoolExecutor(max_workers=2) as ex:
        for name, st in ex.map(one, range(len(runs))):
            if st["violated"]:
                # a model-level counterexample is never an alarm by itself (DESIGN 3)
                res.drift.append({"model": "Spatial " + name, "invariant": st["violated"]})
            res.add_mc("Spatial " + name, st)

    # vacuity: every situation of interest is reachable (each witness invariant must be violated); and the
    # monitor can tell an arena that ignores generations from the real one
    def wit(w):
        aware = w != "GenUnaware"
        cfg = write_cfg("Spatial_%s.cfg" % w, cfg_text(2, 3, 2, 1, [1, 2], 4, genaware=aware,
                                                       extra="INVARIANT %s" % (w if aware else "PropertyHolds")))
        tlc_check("MC_Spatial.tla", cfg, workers=1, timeout=900, expect_violation=w if aware else "PropertyHolds", tag="c15" + w)
        return w

    with ThreadPoolExecutor(max_workers=4) as ex:
        done = list(ex.map(wit, WITNESSES + ["GenUnaware"]))
    res.notes["witnesses_reached"] = done


# ----------------------------------------------------------------------------- TLC: behaviour generation

def gen_life(tier):
    big = tier != "quick"
    scen = []

    def add(bs, src, nl, ml, nt):
        seen = set()
        for b in bs:
            h = behaviour_hash(b)
            if h in seen:
                continue
            seen.add(h)
            scen.append({"kind": "life", "nl": nl, "ml": ml, "nt": nt, "src": src, "steps": b})

    # bounded exhaustive: one spatial track (+ descendant), 2 slots, 3 listeners: every behaviour of D steps ending in a callback
    jobs = [("bfs", (2, 3, 1, 1, [1], 4), 8 if not big else 9, "Dump"),
            ("bfs", (2, 3, 1, 0, [1, 2], 4), 6 if not big else 7, "Dump"),
            ("bfs", (1, 3, 2, 0, [1], 4), 7 if not big else 9, "Dump")]
    # random simulation of the two-track model
    jobs += [("sim", (2, 3, 2, 2, [1, 2], 12), 18, "DumpSim"), ("sim", (2, 4, 2, 1, [1, 2], 16), 24, "DumpSim")]

    def generate(cfg, mode, tag, workers=1, num=0, depth=0):
        extra = ["-simulate", "num=%d" % num, "-depth", str(depth), "-seed", str(seed())] if mode == "sim" else []
        out = tlc_raw("Gen_Spatial.tla", cfg, extra=extra, workers=workers, timeout=3000, tag=tag)
        st = tlc_stats(out)
        if st["error"]:
            raise ToolError("TLC error while generating from Gen_Spatial/%s: %s" % (cfg, st["error"]))
        return behaviours(out)

    def one(k):
        mode, c, d, inv = jobs[k]
        cfg = write_cfg("Gen_Spatial_%s_%d.cfg" % (tier, k), cfg_text(*c, extra="INVARIANT " + inv, gen_d=d))
        if mode == "bfs":
            return generate(cfg, "bfs", "c15g%d" % k, workers=1)
        return generate(cfg, "sim", "c15g%d" % k, num=(600 if not big else 20000), depth=d + 2)

    with ThreadPoolExecutor(max_workers=4) as ex:
        outs = list(ex.map(one, range(len(jobs))))
    for (mode, c, d, inv), bs in zip(jobs, outs):
        if not bs:
            raise ToolError("Gen_Spatial produced no behaviour for %s %s" % (mode, c))
        add(bs, "tlc-" + mode, c[0], c[1], c[2])

    # directed witnesses (shortest behaviour reaching each situation)
    def wit(w):
        cfg = write_cfg("Gen_Spatial_%s.cfg" % w, cfg_text(2, 3, 2, 1, [1, 2], 5, extra="VIEW GView\nINVARIANT " + w, gen_d=14))
        return w, generate(cfg, "bfs", "c15" + w, workers=1)

    with ThreadPoolExecutor(max_workers=4) as ex:
        for w, bs in ex.map(wit, ["WG_Reuse", "WG_Maybe", "WG_Hold", "WG_NestedSilent", "WG_Foreign"]):
            if not bs:
                raise ToolError("no witness behaviour for " + w)
            add(bs[:1], "tlc-" + w, 2, 3, 2)
    return scen


def drift_of(scen, sessions):
    """I-spec conformance: the model's event against the real one, step by step"""
    out = []
    for k, sc in enumerate(scen):
        if sc["kind"] != "life":
            continue
        evs = [e for e in sessions.get(k + 1, []) if e["a"] not in ("reset", "end")]
        for j, me in enumerate(sc["steps"]):
            if j >= len(evs):
                out.append({"session": k + 1, "step": j, "why": "real run ended early", "model": me})
                break
            re_ = evs[j]
            bad = me["a"] != re_["a"]
            if not bad:
                for f in ("ok", "p", "fin", "dec", "z"):
                    if f in me and me[f] != re_.get(f):
                        bad = True
                if me["a"] == "cb":
                    mp = [(r["id"], r["h"], r["has"], r["dv"]) for r in me["pr"]]
                    rp = [(r["id"], r["h"], r["has"], r["dv"]) for r in re_.get("pr", [])]
                    bad = bad or mp != rp
            if bad:
                out.append({"session": k + 1, "step": j, "model": me,
                            "real": {x: re_[x] for x in re_ if x not in ("m", "msg")}})
                break
    return out


# ----------------------------------------------------------------------------- geometry scenarios

def rotations():
    rs = []
    for perm in itertools.permutations(range(3)):
        for signs in itertools.product((1, -1), repeat=3):
            m = [0] * 9
            for i in range(3):
                m[3 * i + perm[i]] = signs[i]
            det = (m[0] * (m[4] * m[8] - m[5] * m[7]) - m[1] * (m[3] * m[8] - m[5] * m[6]) + m[2] * (m[3] * m[7] - m[4] * m[6]))
            if det == 1:
                rs.append(m)
    assert len(rs) == 24
    return rs


ROTS = rotations()
IDENT = [1, 0, 0, 0, 1, 0, 0, 0, 1]


def mulmv(m, v):
    return [m[0] * v[0] + m[1] * v[1] + m[2] * v[2], m[3] * v[0] + m[4] * v[1] + m[5] * v[2], m[6] * v[0] + m[7] * v[1] + m[8] * v[2]]


def mulmm(a, b):
    return [sum(a[3 * i + k] * b[3 * k + j] for k in range(3)) for i in range(3) for j in range(3)]


def f32(x):
    return struct.unpack("<f", struct.pack("<f", x))[0]


def thresholds(mn, mx, q):
    """within the minimum distance iff d^2 q^2 <= minc, at or beyond the maximum iff >= maxc (exact, from the f32 values)"""
    a, b = Fraction(f32(mn)) ** 2 * q * q, Fraction(f32(mx)) ** 2 * q * q
    minc = a.numerator // a.denominator
    maxc = -((-b.numerator) // b.denominator)
    return int(minc), int(maxc)


RANGES = [(1.0, 4.0), (0.0, 8.0), (2.0, 2.0001)]
TOL = 20          # 2e-5, see MANIFEST note
TOL_FAR = 50000


def geo_cfg(cls, q, rng_, att, ease, s, tol=TOL, side=True):
    minc, maxc = thresholds(rng_[0], rng_[1], q)
    return {"kind": "geo", "cls": cls, "q": q, "min": f32(rng_[0]), "max": f32(rng_[1]), "att": att, "ease": ease, "s": s,
            "minc": minc, "maxc": maxc, "tol": tol, "side": side, "obs": [], "src": "seeded-" + cls}


def rvec(rng, r):
    return [rng.randint(-r, r) for _ in range(3)]


def gen_att_sweeps(rng, tier):
    """strength 0, stereo source: sorted sweeps by distance - lattice shells and dyadic rays"""
    scen = []
    big = tier != "quick"
    for rng_ in RANGES:
        for ease in range(6):
            # lattice: all offsets of a cube, sorted by d^2 (ties = same distance in different directions)
            rad = 5 if rng_[1] <= 4.0 else (9 if big else 6)
            if rng_[1] < 3:
                rad = 3
            pts = [(x, y, z) for x in range(-rad, rad + 1) for y in range(-rad, rad + 1) for z in range(-rad, rad + 1)]
            cap = 600 if not big else 3000
            if len(pts) > cap:
                keep = [p for p in pts if sum(c * c for c in p) in (0, 1, 2, 3, 4, 5, 15, 16, 17, 63, 64, 65, 66)]
                pts = list(set(rng.sample(pts, cap) + keep))
            pts.sort(key=lambda p: (sum(c * c for c in p), p))
            sc = geo_cfg("att-lattice", 1, rng_, True, ease, 0)
            l, R = rvec(rng, 2), rng.choice(ROTS)
            for p in pts:
                sc["obs"].append({"l": l, "e": [l[i] + p[i] for i in range(3)], "R": rng.choice(ROTS) if rng.random() < 0.3 else R, "rel": 0})
            scen.append(sc)
            # rays in steps of 1/64, dense around min and max
            q = 64
            sc = geo_cfg("att-ray", q, rng_, True, ease, 0)
            for dirv in ([1, 0, 0], [0, -1, 0], [1, 1, 0], [1, -1, 1], [1, 2, 2], [-2, 3, 6]):
                n2 = sum(c * c for c in dirv)
                kmax = int((rng_[1] + 1.0) * q / (n2 ** 0.5)) + 2
                ks = set(range(0, kmax + 1, 16 if not big else 4))
                for edge in rng_:
                    k0 = int(edge * q / (n2 ** 0.5))
                    ks.update(k for k in range(k0 - 3, k0 + 5) if k >= 0)
                l = rvec(rng, 2 * q)
                R = rng.choice(ROTS)
                for k in sorted(ks):
                    sc["obs"].append({"l": l, "e": [l[i] + k * dirv[i] for i in range(3)], "R": R, "rel": 0})
            scen.append(sc)
    return scen


def gen_att_edges(rng):
    """distance ranges whose width is not a round number: exactly at, just inside and beyond the maximum distance"""
    scen = []
    for rng_ in ((1.0, 42.0), (5.0, 60.0), (3.0, 50.0), (10.0, 120.0), (1.0, 100.0), (2.0, 63.0), (0.0, 41.0), (7.0, 54.0)):
        for ease in (0, 1, 2):
            sc = geo_cfg("att-edge", 1, rng_, True, ease, 0)
            lo, hi = int(rng_[0]), int(rng_[1])
            l, R = rvec(rng, 3), rng.choice(ROTS)
            for d in sorted({lo, lo + 1, (lo + hi) // 2, hi - 1, hi, hi + 1, hi + 5, 2 * hi, 100 * hi}):
                for axis in range(3):
                    e = list(l)
                    e[axis] += d
                    sc["obs"].append({"l": l, "e": e, "R": R, "rel": 0})
            sc["obs"].sort(key=lambda o: sum((o["e"][i] - o["l"][i]) ** 2 for i in range(3)))
            scen.append(sc)
    return scen


def triples(rng, sc, n, rad, q=1):
    """base rendering, its mirror image, and a rigidly moved copy"""
    for _ in range(n):
        l, R = [c * q for c in rvec(rng, 2)], rng.choice(ROTS)
        r = rng.random()
        off = [0, 0, 0] if r < 0.06 else (rvec(rng, 1) if r < 0.2 else rvec(rng, rad))
        if q > 1 and rng.random() < 0.5:
            off = [c * q + rng.randint(-q, q) for c in off]
        else:
            off = [c * q for c in off]
        e = [l[i] + off[i] for i in range(3)]
        sc["obs"].append({"l": l, "e": e, "R": R, "rel": 0})
        right = [R[0], R[3], R[6]]
        side = sum((e[i] - l[i]) * right[i] for i in range(3))
        sc["obs"].append({"l": l, "e": [e[i] - 2 * side * right[i] for i in range(3)], "R": R, "rel": 1})
        M, t = rng.choice(ROTS), [c * q for c in rvec(rng, 3)]
        ml, me = mulmv(M, l), mulmv(M, e)
        sc["obs"].append({"l": [ml[i] + t[i] for i in range(3)], "e": [me[i] + t[i] for i in range(3)],
                          "R": mulmm(M, R), "rel": 2, "M": M, "t": t})


def gen_ear(rng, tier):
    scen = []
    n = 200 if tier == "quick" else 2000
    for s in (250, 500, 750, 1000):
        sc = geo_cfg("ear", 1, (1.0, 4.0), False, 0, s)
        triples(rng, sc, n, 3)
        scen.append(sc)
        sc = geo_cfg("ear-dyadic", 8, (1.0, 4.0), False, 0, s)
        triples(rng, sc, n // 2, 3, q=8)
        scen.append(sc)
    # no curve, strength 0: the stereo signal passes untouched wherever the emitter is
    sc = geo_cfg("plain", 1, (1.0, 4.0), False, 0, 0)
    triples(rng, sc, n, 5)
    scen.append(sc)
    for rng_ in RANGES:
        for s in (0, 250, 750, 1000):
            sc = geo_cfg("full", 1, rng_, True, rng.randrange(6), s)
            triples(rng, sc, n, 5 if rng_[1] <= 4 else 9)
            scen.append(sc)
    # a strength that does not come as a fixed number: mapped from a modulator or from the listener distance, also to values
    # beyond 0..1 (which mean 0 and 1); `s` is the strength in force, `sraw` what the mapping puts out
    for sraw, mode in ((2000, "mod"), (-500, "mod"), (750, "mod"), (2000, "dist"), (-500, "dist"), (1500, "fixed"), (-300, "fixed")):
        sc = geo_cfg("ear-source", 1, (1.0, 4.0), False, 0, max(0, min(1000, sraw)))
        sc["sraw"], sc["smode"] = sraw, mode
        triples(rng, sc, n // 4, 3)
        scen.append(sc)
    # emitters inside the listener's head (offsets up to 1/4 in steps of 1/64): every law except "the emitter's side"
    for s in (500, 1000):
        sc = geo_cfg("head", 64, (1.0, 4.0), False, 0, s, side=False)
        for _ in range(n):
            l, R = [64 * c for c in rvec(rng, 1)], rng.choice(ROTS)
            e = [l[i] + rng.randint(-16, 16) for i in range(3)]
            right = [R[0], R[3], R[6]]
            side = sum((e[i] - l[i]) * right[i] for i in range(3))
            sc["obs"].append({"l": l, "e": e, "R": R, "rel": 0})
            sc["obs"].append({"l": l, "e": [e[i] - 2 * side * right[i] for i in range(3)], "R": R, "rel": 1})
        scen.append(sc)
    return scen


def gen_degenerate(rng, tier):
    """min = max: the statement still says unity before and zero beyond that distance (the point d = min = max
    itself is contradictory and not generated).  Kept in a class of its own: see findings/C15_min_eq_max_distance_nan."""
    scen = []
    for s in (0, 750):
        sc = geo_cfg("degenerate", 1, (2.0, 2.0), True, 0, s)
        sc["minc"], sc["maxc"] = 3, 5
        for _ in range(12 if tier == "quick" else 200):
            l = rvec(rng, 2)
            off = rng.choice([[0, 0, 0], [1, 0, 0], [0, -1, 1], [1, 1, 1], [1, 2, 0], [3, 0, 0], [2, 2, 1], rvec(rng, 5)])
            if sum(c * c for c in off) == 4:
                continue
            sc["obs"].append({"l": l, "e": [l[i] + off[i] for i in range(3)], "R": rng.choice(ROTS), "rel": 0})
        scen.append(sc)
    return scen


def gen_far(rng, tier):
    scen = []
    n = 400 if tier == "quick" else 4000
    for att, s in ((True, 750), (False, 750), (True, 0), (False, 1000)):
        sc = geo_cfg("far", 1, (1.0, 4.0) if s else (0.0, 8.0), att, 0, s, tol=TOL_FAR)
        for _ in range(n):
            m = rng.choice([10, 100, 1000, 10000])
            l = rvec(rng, m)
            e = rng.choice([rvec(rng, m), [l[i] + rng.randint(-3, 3) for i in range(3)], list(l)])
            sc["obs"].append({"l": l, "e": e, "R": rng.choice(ROTS), "rel": 0})
        scen.append(sc)
    # arbitrary finite f32 coordinates: only "no panic, finite output" is judged
    vals = [0.0, 1e-30, -1e-30, 1e-10, 1.0, -1.0, 0.1, 1e10, -1e10, 1e19, 1.9e19, -1e19, 1e20, -1e20, 3e38, -3e38,
            3.4028234663852886e38, -3.4028234663852886e38, 1.401298464324817e-45]
    for att, s in ((True, 750), (False, 1000), (True, 0)):
        sc = geo_cfg("extreme", 1, (1.0, 100.0), att, 0, s)
        for _ in range(n):
            l = [rng.choice(vals) for _ in range(3)]
            e = rng.choice([[rng.choice(vals) for _ in range(3)], list(l), [l[0], l[1], rng.choice(vals)]])
            sc["obs"].append({"xf": {"l": l, "e": e, "R": rng.choice(ROTS)}})
        scen.append(sc)
    # the emitter exactly on one of the listener's ears (listener +- 0.1 along its local x axis, the f32 nearest to 0.1):
    # the direction from that ear to the emitter is the zero vector
    for att, s in ((False, 1000), (True, 500), (False, 250)):
        sc = geo_cfg("on-ear", 1, (1.0, 100.0), att, 0, s)
        for R in ROTS:
            for sign in (1.0, -1.0):
                for l in ([0.0, 0.0, 0.0], [1.0, 0.0, -2.0], [0.5, 0.25, 0.0]):
                    right = [R[0], R[3], R[6]]
                    sc["obs"].append({"xf": {"l": l, "e": [f32(l[i] + f32(sign * f32(0.1) * right[i])) for i in range(3)], "R": R}})
        scen.append(sc)
    return scen


# ----------------------------------------------------------------------------- validation

def validate(trace_path, timeout=3000):
    out = tlc_raw("T_C15.tla", os.path.join(SPEC, "T_C15.cfg"), workers=1, timeout=timeout, tag="c15tv",
                  env={"TRACE": trace_path}, java_opts="-Xss1g -Dtlc2.tool.queue.IStateQueue=StateDeque")
    bad, consumed = [], None
    for line in out.splitlines():
        line = line.strip()
        m = re.match(r'^<<"BADEV", "(.*)">>$', line)
        if m:
            bad.append(json.loads(json.loads('"' + m.group(1) + '"')))
        m = re.match(r'^<<"CONSUMED", (\d+), (\d+), (\d+)>>$', line)
        if m:
            consumed = tuple(int(x) for x in m.groups())
    if consumed is None or consumed[0] != consumed[1] or "Error:" in out or consumed[2] != len(bad):
        raise ToolError("trace validation did not complete for %s: %s" % (trace_path, out[-2500:]))
    return bad, consumed[0]


def n_evals(sc):
    if sc["kind"] == "vmap":
        return 2
    if sc["kind"] == "pickup":
        return 4
    if sc["kind"] == "glide":
        return sc["w"] + sc["d"] + 3
    return len(sc["obs"]) if sc["kind"] == "geo" else sum(1 for s in sc["steps"] if s["a"] == "cb")


def run(tier):
    res = Result(PROP, tier, "other")
    rng = random.Random(seed())
    build_harness()
    t0 = time.time()
    model_check(res, tier)
    log("model checking %.1fs" % (time.time() - t0))
    t0 = time.time()
    life = gen_life(tier)
    log("behaviour generation %.1fs (%d behaviours)" % (time.time() - t0, len(life)))
    geo = gen_att_sweeps(rng, tier) + gen_att_edges(rng) + gen_ear(rng, tier) + gen_far(rng, tier) + gen_degenerate(rng, tier)
    # a distance mapping installed through the handle (with a tween), then the emitter moves
    geo += [{"kind": "vmap", "cls": "vmap", "d": d, "x1": x1, "x2": x2, "src": "grid-vmap"}
            for d in (0, 2) for x1, x2 in ((3, 12), (10, 2), (0, 16), (8, 8), (16, 5))]
    # a rigid motion under way: listener and emitter glide together (same tween, started at once or at a clock tick)
    geo += [{"kind": "glide", "cls": "glide", "sk": sk, "w": w, "d": d, "t": t, "e": e, "st": st, "src": "grid-glide"}
            for sk, w in (("imm", 1), ("clk", 1), ("clk", 2)) for d in (0, 1, 3)
            for t, e, st in (([4.0, 0.0, 0.0], [2.0, 0.0, 1.0], 750), ([-3.0, 2.0, 5.0], [-2.0, 1.0, -2.0], 1000), ([0.0, 0.0, -6.0], [0.0, 3.0, 0.0], 0))]
    # ... and commanded right after listener and track were created (before their first callback)
    geo += [{"kind": "glide", "cls": "glide", "sk": "imm", "w": 1, "d": d, "t": t, "e": e, "st": 750, "fresh": True, "src": "grid-glide-fresh"}
            for d in (0, 2) for t, e in (([4.0, 0.0, 0.0], [2.0, 0.0, 1.0]), ([32.0, 0.0, -64.0], [-2.0, 1.0, -2.0]))]
    # a listener, a spatial track bound to it and a sound, all created while the audio thread is before the n-th drain of its rings
    geo += [{"kind": "pickup", "cls": "pickup", "n": n, "src": "directed-pickup"} for n in range(1, 10)]
    scen = life + geo
    sp = os.path.join(OUT, "c15", "scen.ndjson")
    tp = os.path.join(OUT, "c15", "trace.ndjson")
    write_ndjson(sp, [{k: v for k, v in s.items() if k != "src"} for s in scen])
    t0 = time.time()
    run_kv("c15", sp, tp)
    log("replay on the real library %.1fs" % (time.time() - t0))
    t0 = time.time()
    bad, n_events = validate(tp)
    log("trace validation %.1fs (%d events)" % (time.time() - t0, n_events))
    harness = [b for b in bad if b["reason"].startswith("harness_")]
    if harness:
        raise ToolError("the monitor is not defined for a recorded event (harness problem): %s" % json.dumps(harness[:5]))
    sessions = sessions_of(read_ndjson(tp))
    # one report per (session, clause): the renderings of a geometry session are judged one by one
    first, rest = {}, []
    for b in bad:
        first.setdefault((b["s"], b["reason"]), b)
    registered = {k.get("id") for k in load_known()}
    for b in first.values():
        k = match_known(PROP, b, sessions.get(b["s"], []), [f for f in PENDING_FINDINGS if f["id"] not in registered])
        if k:
            res.known_hits.append(k["what"] + " (pending registration in known_findings.json)")
        else:
            rest.append(b)
    judge(res, PROP, scen, tp, rest)
    if len(sessions) != len(scen):
        raise ToolError("driver recorded %d sessions for %d scenarios" % (len(sessions), len(scen)))
    res.drift += drift_of(scen, sessions)[:50]
    res.evaluations = sum(n_evals(s) for s in scen)
    for sc in scen:
        if sc["kind"] == "life":
            if any(s["a"] not in ("cb",) for s in sc["steps"]):
                res.distinct.add(behaviour_hash([sc["nl"], sc["ml"], sc["nt"], [{k: v for k, v in s.items() if k not in ("pr", "z")} for s in sc["steps"]]]))
        else:
            head = json.dumps({k: v for k, v in sc.items() if k not in ("obs", "src")}, sort_keys=True)
            for o in sc.get("obs", [0]):
                res.distinct.add(behaviour_hash([head, o]))
    res.samples = [{k: (v[:6] if isinstance(v, list) else v) for k, v in s.items()} for s in (life[0], life[-1], geo[0], geo[len(geo) // 2])]
    by_src = {}
    for s in scen:
        by_src[s["src"]] = by_src.get(s["src"], 0) + 1
    res.notes["sessions_by_source"] = by_src
    res.notes["life_cycle_sessions_from_tlc"] = len(life)
    res.notes["geometry_renderings"] = sum(len(s.get("obs", [])) for s in geo)
    by = {}
    for b in bad:
        by["%s/%s" % (b["a"], b["reason"])] = by.get("%s/%s" % (b["a"], b["reason"]), 0) + 1
    res.notes["rejections_by_action_and_clause"] = by
    if by:
        log("rejections by action/clause: " + json.dumps(by, sort_keys=True))
    # how close the laws hold in f32 on this run (largest deviation seen in the pairwise clauses)
    res.notes["tolerance_units_1e-6"] = {"lattice": TOL, "far": TOL_FAR}
    res.assumptions = [
        "one device callback = one internal chunk (4 frames at 8 Hz), manager and renderer driven from one thread: API calls are atomic with respect to callbacks (the hand-over interleavings are C08's subject)",
        "when a listener exists is taken from C08's statement (created => from the next callback; dropped => removed by the next callback, by the one after if it was still queued; in that one callback both outcomes are accepted)",
        "geometry: fixed positions/orientations, second callback after a move is observed (steady state) and the first one is only required to be finite; gains = output / input of a DC source, rounded to 1e-6; tolerance 2e-5 (5e-2 for coordinates up to 1e4)",
        "orientation matrices are converted to quaternions with glam in the driver and checked against the matrix (1e-5)"]
    return res.finish(
        "evaluation = one judged callback of a replayed TLC behaviour (life cycle) or one rendering of a DC source for a stated "
        "listener/emitter/orientation/configuration (geometry); distinct by hash of (constants, action list without expectations) "
        "resp. (configuration, rendering input); non-trivial = contains at least one non-callback action",
        explanation="The life-cycle part is model checking + two-way conformance; the geometric part uses TLA+/TLC as the "
                    "definition and judge of laws over sampled renderings (TLC explores nothing there), hence level `other`.")
