"""C17 - modulators produce their configured curves; linked parameters follow in-chunk.

1. TLC model-checks Render.tla (process_chunk order, the self-referential modulator storage with
   generational keys and the dummy swap, tweener and LFO updates, Value::FromModulator -> Mapping::map
   -> Parameter::update for parameters of the mixer, of clocks and of other modulators) against the
   property-level monitor P_C17 and structural invariants; reachability witnesses guard against
   vacuity; the model in which a modulator may be re-linked to a modulator created after it must
   exhibit the one-chunk lag (the spec can see it).
2. TLC generates behaviours of the model - bounded exhaustive add/drop/set/link/callback histories for
   tiny constants and seeded random walks for internal buffer sizes 1, 2, 3, 4 with callback sizes that
   are not multiples - and the harness executes each on the real AudioManager + Renderer with probe
   modulators, probe sounds owning a public kira::Parameter, and real sounds / tracks / VolumeControl
   effects / clocks / LFOs linked to real tweeners and LFOs.
3. Seeded random histories with arbitrary decimal values (tolerance 12/4096), all waveforms including
   sine, integer-power easings in both tweens and mappings, delayed tweens.
4. TLC validates every recorded session against P_C17 (T_C17.tla); the recorded observations of
   TLC-generated behaviours are also compared with the model's own predictions (drift)."""
import json
import os
import random

from lib.kvlib import *

PROP = "C17"
MANIFEST = dict(
    level="model_checking", design_ref="DESIGN.md 8 (C17), 7 (Modulators / Render)",
    technique="TLA+ model of Renderer::process_chunk with the modulator storage, tweener, LFO and Value::FromModulator/Mapping/Parameter (TLC, exact scaled-integer arithmetic) + TLC-generated add/drop/set/link/callback behaviours (bounded exhaustive and seeded random walks) replayed on the real AudioManager/Renderer with stamping probe modulators/sounds and real tweeners, LFOs, sounds, tracks, effects and clocks + seeded random histories + TLC trace validation against the property-level monitor P_C17 + PickUpOrder model and its schedules replayed through the sto.refill yield point",
    text="TLC explores every history of creating, dropping, re-targeting and linking modulators interleaved with callbacks of several internal chunks for small constants against the property-level monitor (every modulator updated exactly once per chunk with the chunk's time step and before every reader; a reader sees the value of the same chunk; a linked parameter equals map(value) with clamping, easing and interpolation in the same chunk; it holds its last value once the modulator is removed, also after the slot is reused; a removed id never resolves again; a tweener follows the tween reference of P_C06 and ends exactly on target; saw/triangle/pulse LFOs follow the piecewise-linear waveform exactly, every waveform stays within offset +- |amplitude|) and structural invariants; TLC-generated behaviours and seeded random histories are executed on the real manager + renderer for internal buffer sizes 1-4 with callback sizes that are not multiples, and every recorded session is validated by TLC against P_C17. Exhaustive for small constants, sampled beyond. PickUpOrder.tla: the order in which the four top-level rings of new resources are drained (dependents before what they read; reversed order kept as a witness), replayed by stopping the audio thread before each drain while a modulator and a sound / track sound / clock linked to it are created.",
    note="The numeric sine curve is out of reach: only its bounds, its four cardinal points and half-period antisymmetry are checked. Sessions with non-dyadic values compare rounded projections with a tolerance of 12/4096 and check LFOs for their bounds only. Negative LFO frequencies, degenerate mapping input ranges and a modulator linked to itself (it reads the storage's dummy, value 0) are outside the statement and only feed the model-drift comparison. Clock-started tweener tweens are not driven (the start-time logic is the same code as Parameter's, C06). A modulator re-linked through its handle to a modulator created after it lags one chunk (finding candidate, findings/C17-late-link): not generated at property level unless listed in known_findings.json. When a dropped modulator is removed is C08's business: the monitor lets the observation decide.")

S = 4096
REALS = ["psound", "sound", "track", "effect"]
INVS = "INVARIANTS PropertyHolds TypeOK OnceInOrder StaleNeverResolves KeysUnique ExactArith FollowsInChunk"
WITNESSES = ["W_Reuse", "W_HoldReused", "W_Clamp", "W_Chain", "W_Partial", "W_MidTween", "W_DropQueued", "W_Full"]


def cset(xs):
    return "{" + ", ".join(('"%s"' % x) if isinstance(x, str) else str(x) for x in xs) + "}"


def cfg_text(spec="Spec", mods=3, params=2, ns=2, b=2, fs=(3,), maxcb=3, maxops=4, gap=3,
             kinds=("probe", "tw", "lfo"), probesrc=True, twinits=(0,), twsets="SetsB", waves=("saw",), ph0s=(0,),
             freqs=(4,), roles=("am",), maps="MapsB", owners=("mix", "clock"), allowself=False, allowlate=False, extra=""):
    tf = lambda x: "TRUE" if x else "FALSE"
    return """SPECIFICATION %s
CONSTANTS
  S = %d
  Mods = %s
  Params = %s
  NS = %d
  B = %d
  Fs = %s
  MaxCb = %d
  MaxOps = %d
  Gap = %d
  Kinds = %s
  ProbeSrc = %s
  TwInits = %s
  TwSets <- %s
  Waves = %s
  Ph0s = %s
  Freqs = %s
  LfoRoles = %s
  Maps <- %s
  Owners = %s
  AllowSelf = %s
  AllowLate = %s
%s
CHECK_DEADLOCK FALSE
""" % (spec, S, cset(range(1, mods + 1)), cset(range(1, params + 1)), ns, b, cset(fs), maxcb, maxops, gap, cset(kinds),
       tf(probesrc), cset(twinits), twsets, cset(waves), cset(ph0s), cset(freqs), cset(roles), maps, cset(owners),
       tf(allowself), tf(allowlate), extra)


def write_cfg(name, text):
    p = os.path.join(OUT, "cfg", name)
    os.makedirs(os.path.dirname(p), exist_ok=True)
    open(p, "w").write(text)
    return p


def mc_configs(tier):
    """(name, keyword arguments) of the exhaustive runs; constants are repeated in the evidence"""
    quick = [("quick: 2 slots, 3 modulators (probe reading an earlier one / tweener / saw LFO with linked amplitude), "
              "2 parameters (mixer, clock), 2 mappings, 2 sets, buffer 2, callbacks of 3 frames, <=3 callbacks, <=4 calls",
              dict())]
    if tier == "quick":
        return quick
    return quick + [
        ("wide: as quick with callbacks of 1 or 3 frames and <=5 calls", dict(fs=(1, 3), maxops=5)),
        ("reuse: 1 slot, 5 modulators (probe / tweener), 2 mixer parameters, 3 mappings, buffer 4, callbacks of 4 or 6 frames, "
         "<=5 callbacks, <=8 calls (<=2 between callbacks)",
         dict(mods=5, ns=1, b=4, fs=(4, 6), maxcb=5, maxops=8, gap=2, kinds=("probe", "tw"), probesrc=False, maps="MapsC",
              owners=("mix",), roles=())),
        ("lfo: 2 slots, tweener + LFOs (saw, triangle, pulse; starting phase 0 or 1/4; frequency, amplitude or offset linked), "
         "3 sets (incl. delayed InPowi(2)), 1 mixer parameter, buffer 2, callbacks of 3 frames, <=3 callbacks, <=4 calls",
         dict(params=1, fs=(3,), kinds=("tw", "lfo"), probesrc=False, twsets="SetsC", waves=("saw", "tri", "pulse"),
              ph0s=(0, 1024), freqs=(4,), roles=("fr", "am", "of"), maps="MapsA", owners=("mix",))),
    ]


def model_check(res, tier):
    for name, kw in mc_configs(tier):
        cfg = write_cfg("Render_mc.cfg", cfg_text(extra="VIEW View\n" + INVS, **kw))
        st = tlc_check("MC_Render.tla", cfg, workers=4, timeout=3000, tag="c17mc")
        if st["violated"]:
            # a model-level counterexample is not an alarm by itself (DESIGN 3); it is reported as drift
            res.drift.append({"model": "Render/" + name, "invariant": st["violated"]})
        res.add_mc("Render " + name, st)
    # vacuity witnesses: each situation must be reachable; and the model must exhibit the late-link lag once
    # re-linking to a younger modulator is allowed (three TLC runs at a time, one worker each)
    jobs = []
    for w in WITNESSES:
        kw = dict(fs=(1, 3), maxops=5)
        if w in ("W_HoldReused", "W_Reuse"):
            kw = dict(ns=1, kinds=("tw",), owners=("mix",), roles=(), twinits=(1,), maxcb=3, maxops=5)
        if w == "W_Clamp":
            kw = dict(kinds=("probe",), probesrc=False, owners=("mix",), roles=(), params=1, maps="MapsA")
        jobs.append((w, write_cfg("Render_%s.cfg" % w, cfg_text(extra="VIEW View\nINVARIANT " + w, **kw))))
    jobs.append(("PropertyHolds", write_cfg("Render_late.cfg", cfg_text(allowlate=True, extra="VIEW View\nINVARIANT PropertyHolds"))))
    from concurrent.futures import ThreadPoolExecutor
    with ThreadPoolExecutor(max_workers=3) as ex:
        futs = [ex.submit(tlc_check, "MC_Render.tla", cfg, 1, 600, w, "c17w_" + w) for w, cfg in jobs]
        for f in futs:
            f.result()
    # the order in which the rings of new resources are drained (PickUpOrder.tla): dependents before what they read
    pu = "SPECIFICATION Spec\nCONSTANTS\n  Order <- %s\n  Edges <- EdgesCode\n  NPairs = %d\n  MaxCb = %d\nINVARIANT %s\nCHECK_DEADLOCK FALSE\n"
    np_, mcb = (2, 2) if tier == "quick" else (3, 3)
    st = tlc_check("MC_PickUpOrder.tla", write_cfg("PickUpOrder.cfg", pu % ("OrderCode", np_, mcb, "DependenciesComplete")), workers=4, timeout=1500, tag="c17pu")
    if st["violated"]:
        res.drift.append({"model": "PickUpOrder", "violated": st["violated"]})
    res.add_mc("PickUpOrder pairs=%d callbacks<=%d" % (np_, mcb), st)
    tlc_check("MC_PickUpOrder.tla", write_cfg("PickUpOrder_rev.cfg", pu % ("OrderReversed", 2, 2, "DependenciesComplete")), workers=2, timeout=600,
              expect_violation="DependenciesComplete", tag="c17puw")
    tlc_check("MC_PickUpOrder.tla", write_cfg("PickUpOrder_w.cfg", pu % ("OrderCode", 2, 2, "W_BuiltDuringDrains")), workers=2, timeout=600,
              expect_violation="W_BuiltDuringDrains", tag="c17puw")


def generate(*a, **kw):
    """tlc_generate with one retry (a TLC start-up hiccup is tool trouble, not a verdict)"""
    try:
        return tlc_generate(*a, **kw)
    except ToolError as e:
        log("retrying TLC generation after: %s" % str(e)[:200])
        return tlc_generate(*a, **kw)


def uniq(bs):
    """distinct behaviours in a canonical order (TLC's multi-worker BFS prints them in any order)"""
    seen = {}
    for b in bs:
        seen.setdefault(json.dumps(b, sort_keys=True), b)
    return [seen[k] for k in sorted(seen)]


def scen_of(b, buf, cap, src, k):
    """a TLC behaviour as a scenario: every linked parameter of the mixer gets a real owner in rotation
    (at most one gain-decoded owner per output channel)"""
    steps, chans, j = [], ["L", "R"], k
    for e in b:
        e = dict(e)
        if e["a"] == "link" and e["own"] == "mix":
            real = REALS[j % len(REALS)]
            j += 1
            if real != "psound" and not chans:
                real = "psound"
            e["real"] = real
            if real != "psound":
                e["ch"] = chans.pop(0)
        elif e["a"] == "link":
            e["real"] = "clock"
        steps.append(e)
    return {"buf": buf, "cap": cap, "mode": "exact", "src": src, "steps": steps}


def gen_tlc(res, tier):
    """behaviours of the model -> scenarios"""
    scen = []
    q = tier == "quick"
    k = 0
    # G2: seeded random walks for every internal buffer size, callback sizes that are not multiples
    rich = dict(mods=5, params=4, maxcb=100000, maxops=100000, twinits=(0, 1), twsets="SetsD",
                waves=("saw", "tri", "pulse", "sine"), ph0s=(0, 1024), freqs=(0, 2, 4, 8), roles=("fr", "am", "of"), maps="MapsD")
    plans = [(1, (1, 2, 3), 2), (2, (1, 3, 5), 2), (3, (2, 3, 7), 1), (4, (2, 4, 6, 7), 2), (4, (4, 8), 3)]
    total = 0
    for b, fs, ns in plans:
        text = cfg_text(spec="RSpec", b=b, fs=fs, ns=ns, extra="  D = 40\nINVARIANT Dump", **rich)
        bs = uniq(generate("Gen_Render.tla", write_cfg("Gen_Render_sim%d_%d.cfg" % (b, ns), text), "sim",
                           num=50 if q else 700, depth=400, timeout=1800, tag="c17g"))
        total += len(bs)
        for x in bs:
            scen.append(scen_of(x, b, ns, "tlc-sim", k))
            k += 1
    res.notes["tlc_random_walks"] = total
    # G1: bounded exhaustive
    tiny = dict(params=1, kinds=("probe", "tw"), probesrc=False, twsets="SetsA", maps="MapsA", owners=("mix",), roles=(),
                extra="  D = 100000\nINVARIANT Dump")
    bfs = [("reuse", 2, 1, dict(ns=1, b=2, fs=(3,), maxcb=3, maxops=4, gap=2, **tiny))]
    if not q:
        bfs += [("reuse5", 2, 1, dict(ns=1, b=2, fs=(3,), maxcb=3, maxops=5, gap=2, **tiny)),
                ("chain", 4, 2, dict(ns=2, b=4, fs=(6,), maxcb=2, maxops=4, gap=3, params=1, kinds=("tw", "lfo"), probesrc=False,
                                     twsets="SetsA", maps="MapsA", owners=("clock",), roles=("fr", "am"), freqs=(4,),
                                     extra="  D = 100000\nINVARIANT Dump"))]
    for name, b, ns, kw in bfs:
        bs = uniq(generate("Gen_Render.tla", write_cfg("Gen_Render_%s.cfg" % name, cfg_text(spec="GSpec", **kw)), "bfs",
                           timeout=1800, tag="c17g"))
        if not bs:
            raise ToolError("bounded-exhaustive generation '%s' produced nothing" % name)
        res.notes["tlc_exhaustive_" + name] = "%d behaviours" % len(bs)
        for x in bs:
            scen.append(scen_of(x, b, ns, "tlc-bfs-" + name, k))
            k += 1
    # self-linked modulators (the dummy): outside the statement, model-drift comparison only
    text = cfg_text(spec="RSpec", b=2, fs=(1, 3), ns=2, allowself=True, extra="  D = 30\nINVARIANT Dump", **rich)
    bs = uniq(generate("Gen_Render.tla", write_cfg("Gen_Render_self.cfg", text), "sim", num=10 if q else 150, depth=300,
                       timeout=900, tag="c17g"))
    selfs = [scen_of(x, 2, 2, "tlc-sim-self", i) for i, x in enumerate(bs)]
    return scen, selfs


def gen_finding():
    """a modulator re-linked through its handle to a modulator created after it"""
    def fix(v):
        return dict(k="fix", v=v, m=0, i0=0, i1=1, o0=0, o1=0, e="lin", p=1)

    def lnk(m, i0, i1, o0, o1):
        return dict(k="mod", v=0, m=m, i0=i0 * S, i1=i1 * S, o0=o0 * S, o1=o1 * S, e="lin", p=1)

    def add(m, kind, **kw):
        d = dict(a="add", m=m, kind=kind, v0=0, step=0, src=0, wave="saw", width=0, ph0=0, fr=fix(0), am=fix(0), of=fix(0))
        d.update(kw)
        return d
    scen = []
    for buf in (1, 4):
        for role in ("am", "of", "fr"):
            steps = [add(1, "lfo", wave="pulse" if role != "fr" else "saw", width=S // 2, fr=fix(0), am=fix(S), of=fix(0)),
                     add(2, "tw"), dict(a="cb", frames=4),
                     dict(a="relink", m=1, role=role, vs=lnk(2, 0, 2, 0, 2)),
                     dict(a="set", m=2, tgt=2 * S, dur=8, ease="lin", p=1, sk="imm", delay=0, ctgt=0),
                     dict(a="cb", frames=8), dict(a="cb", frames=8)]
            scen.append({"buf": buf, "cap": 3, "mode": "exact", "src": "finding-late-link", "late": True, "steps": steps})
        steps = [add(1, "probe", step=S // 2), add(2, "probe", step=S // 2),
                 dict(a="relink", m=1, role="src", vs=lnk(2, 0, 1, 0, 0)), dict(a="cb", frames=8)]
        scen.append({"buf": buf, "cap": 3, "mode": "exact", "src": "finding-late-link", "late": True, "steps": steps})
        # the same re-linking in the order that has no lag (the source modulator was created first): the re-linked
        # parameter follows its modulator for good, not just until the transition that installed the link is over
        for role in ("am", "of", "fr"):
            steps = [add(1, "tw"),
                     add(2, "lfo", wave="pulse" if role != "fr" else "saw", width=S // 2, fr=fix(0), am=fix(S), of=fix(0)),
                     dict(a="cb", frames=4),
                     dict(a="relink", m=2, role=role, vs=lnk(1, 0, 2, 0, 2)),
                     dict(a="cb", frames=4),
                     dict(a="set", m=1, tgt=2 * S, dur=8, ease="lin", p=1, sk="imm", delay=0, ctgt=0),
                     dict(a="cb", frames=8), dict(a="cb", frames=8)]
            scen.append({"buf": buf, "cap": 3, "mode": "exact", "src": "directed-relink", "late": False, "steps": steps})
        # an LFO that advances by more than one period per update (3 Hz or 5 Hz at 8 Hz with this buffer): its phase is
        # taken modulo one period, however many periods went by
        for fr, wave in ((3, "pulse"), (5, "pulse"), (3, "saw"), (2, "tri")):
            steps = [add(1, "lfo", wave=wave, width=S // 2, fr=fix(fr * S), am=fix(S), of=fix(0)),
                     dict(a="cb", frames=4), dict(a="cb", frames=8), dict(a="cb", frames=3), dict(a="cb", frames=8), dict(a="cb", frames=5)]
            scen.append({"buf": buf, "cap": 3, "mode": "exact", "src": "directed-fast-lfo", "late": False, "steps": steps})
    return scen


def gen_random(tier, rng):
    """loose mode: arbitrary decimal values (thousandths)"""
    scen = []
    n = 300 if tier == "quick" else 4000
    D = 1000
    r3 = lambda a, b: rng.randint(int(a * D), int(b * D))

    def fix(v):
        return dict(k="fix", v=v, m=0, i0=0, i1=D, o0=0, o1=0, e="lin", p=1)

    def lnk(m, lo, hi):
        while True:
            i0, i1 = r3(-1.5, 2.5), r3(-1.5, 2.5)
            if abs(i1 - i0) >= 300:
                break
        w = min(2 * abs(i1 - i0), int((hi - lo) * D))
        o0 = r3(lo, hi)
        o1 = max(int(lo * D), min(int(hi * D), o0 + rng.randint(-w, w)))
        e = rng.choice(["lin", "lin", "in"])
        return dict(k="mod", v=0, m=m, i0=i0, i1=i1, o0=o0, o1=o1, e=e, p=1 if e == "lin" else rng.choice([1, 2, 3]))
    for k in range(n):
        buf, cap = rng.choice([1, 2, 3, 4, 4]), rng.choice([1, 2, 2, 3, 4])
        steps, nm, np_, made, alive, tws, chans = [], 0, 0, [], [], [], ["L", "R"]
        for _ in range(rng.randint(12, 40)):
            r = rng.random()
            if r < 0.2 and nm < 10:
                nm += 1
                kind = rng.choice(["probe", "tw", "tw", "lfo", "lfo"])
                d = dict(a="add", m=nm, kind=kind, v0=r3(-1, 2), step=r3(0.05, 0.6), src=0, wave="saw", width=0, ph0=0,
                         fr=fix(0), am=fix(0), of=fix(0))
                if kind == "probe" and made and rng.random() < 0.5:
                    d["src"] = rng.choice(made)
                if kind == "lfo":
                    d.update(wave=rng.choice(["saw", "tri", "pulse", "sine"]), width=r3(0.1, 0.9), ph0=r3(0, 0.999), v0=0,
                             fr=fix(r3(0, 3)), am=fix(r3(-2, 2)), of=fix(r3(-1, 1)))
                    for role, (lo, hi) in (("fr", (0, 3)), ("am", (-2, 2)), ("of", (-1, 1))):
                        if made and rng.random() < 0.3:
                            d[role] = lnk(rng.choice(made), lo, hi)
                made.append(nm)
                alive.append(nm)
                if kind == "tw":
                    tws.append(nm)
                steps.append(d)
            elif r < 0.3 and alive:
                x = rng.choice(alive)
                alive.remove(x)
                steps.append(dict(a="drop", m=x))
            elif r < 0.5 and [x for x in tws if x in alive]:
                e = rng.choice(["lin", "lin", "in", "out", "inout"])
                sk = rng.choice(["imm", "imm", "del"])
                steps.append(dict(a="set", m=rng.choice([x for x in tws if x in alive]), tgt=r3(-1, 2.5),
                                  dur=rng.choice([0, 0, 1, 2, 3, 4, 5, 7, 8, 12, 16]), ease=e, p=1 if e == "lin" else rng.choice([1, 2, 3]),
                                  sk=sk, delay=rng.randint(0, 9) if sk == "del" else 0, ctgt=0))
            elif r < 0.65 and made and np_ < 10:
                np_ += 1
                own = rng.choice(["mix", "mix", "mix", "clock"])
                d = dict(a="link", p=np_, own=own, vs=lnk(rng.choice(made), 0, 3), real="clock")
                if own == "mix":
                    real = rng.choice(REALS)
                    if real != "psound" and not chans:
                        real = "psound"
                    d["real"] = real
                    if real != "psound":
                        d["ch"] = chans.pop(0)
                steps.append(d)
            else:
                steps.append(dict(a="cb", frames=rng.randint(1, 9)))
        steps += [dict(a="cb", frames=rng.randint(1, 9)), dict(a="cb", frames=rng.randint(1, 9))]
        scen.append({"buf": buf, "cap": cap, "mode": "loose", "den": D, "tol": 12, "src": "random", "steps": steps})
    return scen


# ---------------------------------------------------------------------------------------------- drift

def _norm_log(log, psounds):
    """stamps of the modulators' loop in order; look-ups of the mixer's probe sounds as a sorted list"""
    mods = [(x["k"], x["rk"], x["x"], x["m"], x["ok"], x["v"], x["d"]) for x in log if x["rk"] == "m"]
    mix = sorted((x["x"], x["m"], x["ok"], x["v"]) for x in log if x["rk"] == "p" and x["x"] in psounds)
    return mods, mix


def drift_of(scen, sessions, first=1):
    """I-spec conformance: for replayed TLC behaviours compare the model's predicted observation with the real one"""
    out = []
    for k, sc in enumerate(scen):
        if not sc["src"].startswith("tlc-"):
            continue
        evs = [e for e in sessions.get(first + k, []) if e["a"] not in ("reset", "end")]
        psounds = {s["p"] for s in sc["steps"] if s["a"] == "link" and s.get("real") == "psound"}
        for j, step in enumerate(sc["steps"]):
            if j >= len(evs):
                out.append({"session": first + k, "step": j, "why": "real run ended early", "model": step["a"]})
                break
            re_ = evs[j]
            bad = step["a"] != re_["a"]
            if not bad and step["a"] == "add":
                bad = step["ok"] != re_["ok"]
            if not bad and step["a"] == "chunk":
                km, kp = len(re_["mv"]), len(re_["pv"])
                bad = (step["n"] != re_["n"] or step["mv"][:km] != re_["mv"] or any(x["p"] for x in step["mv"][km:])
                       or step["pv"][:kp] != re_["pv"] or any(x["p"] for x in step["pv"][kp:])
                       or _norm_log(step["log"], psounds) != _norm_log(re_["log"], psounds))
            if bad:
                pick = lambda e: {f: e.get(f) for f in ("a", "n", "ok", "log", "mv", "pv") if f in e}
                out.append({"session": first + k, "step": j, "src": sc["src"], "model": pick(step), "real": pick(re_)})
                break
    return out


def finding_listed():
    return any(k.get("property") == PROP and k.get("status") == "open"
               and k.get("signature", {}).get("session", {}).get("late") for k in load_known())


def run(tier):
    import time
    res = Result(PROP, tier, "model_checking")
    rng = random.Random(seed())
    t0 = [time.time()]

    def tick(what):
        log("  %-28s %.1fs" % (what, time.time() - t0[0]))
        t0[0] = time.time()
    build_harness()
    model_check(res, tier)
    tick("model checking")
    tscen, selfs = gen_tlc(res, tier)
    tick("behaviour generation")
    scen = tscen + gen_random(tier, rng)
    # something linked to a modulator, both created while the audio thread is between two drains of its rings (the schedules
    # of PickUpOrder.tla: before the n-th drain of the callback)
    scen += [{"mode": "pickup", "n": n, "dep": dep, "src": "directed-pickup", "steps": []} for dep in ("sound", "tsound", "clock") for n in range(1, 10)]
    fscen = gen_finding()
    listed = finding_listed()
    if listed:
        scen += fscen
    d = os.path.join(OUT, "c17")
    sp, tp = os.path.join(d, "scen.ndjson"), os.path.join(d, "trace.ndjson")
    write_ndjson(sp, scen)
    run_kv("c17", sp, tp)
    tick("replay on the real library")
    bad, n_events = tlc_validate("T_C17.tla", os.path.join(SPEC, "T_C17.cfg"), tp, timeout=3000)
    tick("trace validation")
    res.notes["rejected_sessions_listed"] = len(bad)   # T_C17 lists at most 300
    judge(res, PROP, scen, tp, bad[:200])
    res.drift += drift_of(scen, sessions_of(read_ndjson(tp)))
    # inputs outside the statement: executed and compared with the model only (never an alarm)
    osp, otp = os.path.join(d, "outside_scen.ndjson"), os.path.join(d, "outside_trace.ndjson")
    outside = selfs + ([] if listed else fscen)
    write_ndjson(osp, outside)
    run_kv("c17", osp, otp)
    osess = sessions_of(read_ndjson(otp))
    res.drift += drift_of(selfs, osess)
    res.notes["self_linked_sessions_compared_with_model"] = len(selfs)
    if not listed:
        fbad, _ = tlc_validate("T_C17.tla", os.path.join(SPEC, "T_C17.cfg"), otp)
        fb = [r for r in fbad if r["s"] > len(selfs)]
        res.notes["finding_candidate_late_link"] = {
            "sessions": len(fscen), "rejected": [[r["s"] - len(selfs), r["i"], r["reason"]] for r in fb],
            "see": "findings/C17-late-link"}
        if fb:
            log("FINDING-CANDIDATE property=%s a modulator re-linked to a modulator created after it reads last chunk's "
                "value: %d of %d sessions rejected by P_C17 (not listed in known_findings.json; see findings/C17-late-link)"
                % (PROP, len(fb), len(fscen)))
    tick("inputs outside the statement")
    res.evaluations = len(scen) + len(outside)
    for sc in scen:
        if any(s["a"] in ("add", "link", "set", "drop") for s in sc["steps"]):
            res.distinct.add(behaviour_hash([sc["buf"], sc["cap"], sc["mode"],
                                             [{f: s[f] for f in s if f not in ("log", "mv", "pv")} for s in sc["steps"]
                                              if s["a"] != "chunk"]]))
    pick = [s for s in scen if s["src"] == "tlc-sim"][:1] + [s for s in scen if s["src"].startswith("tlc-bfs")][:1] + \
           [s for s in scen if s["src"] == "random"][:1]
    brief = lambda x: {f: (x[f] if not isinstance(x[f], dict) else {g: x[f][g] for g in ("k", "v", "m", "i0", "i1", "o0", "o1", "e", "p")
                                                                     if x[f]["k"] == "mod" or g in ("k", "v")})
                       for f in x if f not in ("log", "mv", "pv", "dk", "dflt")}
    res.samples = [{"buf": s["buf"], "cap": s["cap"], "mode": s["mode"], "src": s["src"],
                    "steps": [brief(x) for x in s["steps"] if x["a"] != "chunk"][:14]} for s in pick]
    res.notes["sessions_by_source"] = {}
    for sc in scen + outside:
        res.notes["sessions_by_source"][sc["src"]] = res.notes["sessions_by_source"].get(sc["src"], 0) + 1
    res.assumptions = [
        "gameplay calls do not interleave with a callback (commands, drop flags and new resources are only looked at in on_start_processing, so a call during a callback is equivalent to one before the next callback)",
        "device rate 8 Hz; in the TLC-generated sessions every value is a dyadic rational (scale 4096), so every float operation of the real code is exact and the comparison is bit-exact after projection; volumes are decoded from the last frame of each chunk (-4 dB per unit, resolution 1/4096 unit = 0.001 dB, far above f32 rounding)",
        "a modulator created before a callback takes part from that callback's first chunk on (C08); the last TweenerHandle::set before a callback takes effect at that callback (C07)",
        "the main track processes its effects after its sounds and sub-tracks (the watcher effect closes each chunk); probe sounds are processed once per chunk (C02)",
        "the tween reference, including the start-time slack inside one update, is P_C06's"]
    return res.finish(
        "scenario = internal buffer size x modulator capacity x sequence of add(probe|tweener|LFO, links)/drop/set/link(owner, mapping)/"
        "callback(frames) actions (TLC behaviour of the Render model: bounded exhaustive or seeded random walk | seeded random "
        "history with decimal values); distinct by hash of (buffer, capacity, mode, action list); non-trivial = contains at least "
        "one add, drop, set or link")
