"""C01 - the audio callback is real-time safe and its output is always well-formed.

1. Model level: the panic and hang sources that are discrete state machines are model-checked in their
   own specs - Arena.tla (the two panic sites of remove_and_add are unreachable, C08), Mixer.tla (buffer
   slicing for every buffer/callback size incl. remainders, C02), StaticSound.tla (wrap loops terminate,
   C04); this check re-runs the Arena panic invariants as its model-level part.
2. Surface.tla is the public API as an environment grammar: TLC generates configurations (capacities
   0/1/4, internal buffer 1/2/3/128, 8 Hz-44.1 kHz, 1-8 channels) x histories of builder and handle calls
   with boundary arguments (zero/tiny/huge durations, -60/+12/-1e30/+200 dB, empty/inverted/out-of-range
   regions, zero/negative/huge rates and frequencies, ...) x callbacks of 0-64 frames.
3. The harness interprets each history on the real library; around every callback it measures panics,
   heap operations on the audio thread, non-finite / out-of-range samples, the extra channels, the mono
   mix-down (against a stereo shadow session) and hangs (watchdog). TLC validates every record against P_C01."""
import os
import random

from lib.kvlib import *

PROP = "C01"
MANIFEST = dict(
    level="exploration", design_ref="DESIGN.md 8 (C01), 7 (Surface), 10",
    technique="TLA+ environment grammar of the public API (TLC simulation generates call histories with boundary arguments) executed on the real library under run-time monitors; TLC trace validation of every callback record against P_C01; the modelled panic/hang sources are model-checked in Arena/Mixer/StaticSound",
    text="TLC generates configurations and call histories over a boundary alphabet for every builder and handle call the harness interprets (static and streaming sounds, tracks with each of the eight effects, send and spatial tracks, listeners, clocks, tweener and LFO modulators, modulator links, every handle command, drops, sample-rate changes) interleaved with callbacks of 0-64 frames, plus three directed products (every effect - including delays with an effect in their feedback loop - x level x buffer size x device-rate change; every handle command x argument level x tween length on an object with audio running; every channel count x volume x panning of a loud sound); each callback's panic flag, allocation counters, sample scan, extra-channel scan, mono/stereo comparison and watchdog result is validated by TLC. 'Every finite argument' is reached only through this alphabet; NaN propagation inside DSP recursions is observed, not modelled. Directed grids add every effect on a plain track under a spatial parent, and start times delayed by Duration::MAX.",
    note="Exploration level: the input space is sampled by TLC simulation, not exhausted. Allocation counting uses a counting global allocator armed only on the thread and for the duration of the callback (probe bookkeeping excluded). The mono/extra-channel check compares against a stereo shadow session and is skipped when a streaming sound's free-running decoder makes output timing-dependent. Panics in gameplay-side calls are recorded but not judged (the property is about the callback).")


def write_cfg(name, text):
    p = os.path.join(OUT, "cfg", name)
    os.makedirs(os.path.dirname(p), exist_ok=True)
    open(p, "w").write(text)
    return p


def grid():
    """directed histories next to the simulated ones (a product the random walk visits too thinly):
    A. every effect x every level x smallest/largest internal buffer x every ordered pair of device rates:
       a track with the effect and a sound on it, callbacks, the rate change, callbacks;
    B. every channel count x volume x panning of one loud two-channel sound (mix-down, clamping, extra channels)."""
    out = []
    snd = lambda vol, pan, tgt: {"act": "add_static", "p": [4, 0, 0, 0, 2, vol, pan, 0, 0, 0, tgt]}
    for k in list(range(1, 9)) + [9, 10, 11]:
        for l in range(6):
            for buf in (0, 3):
                for r0 in range(3):
                    for r1 in range(3):
                        if r0 == r1:
                            continue
                        out.append({"cfg": {"buf": buf, "rate": r0, "ch": 2, "cap": 2}, "src": "grid-effect-rate", "steps": [
                            {"act": "add_track", "p": [k, l, 2, 0, 0, 0, 0]}, snd(2, 1, 1), {"act": "cb", "p": [3]}, {"act": "cb", "p": [2]},
                            {"act": "rate", "p": [r1]}, {"act": "cb", "p": [3]}, {"act": "cb", "p": [1]}, {"act": "cb", "p": [3]}]})
    # D. every effect on a plain track that is the child of a spatial track (a creation path of its own), with audio running
    for k in list(range(1, 9)) + [9, 10, 11]:
        for l in range(6):
            out.append({"cfg": {"buf": 2, "rate": 1, "ch": 2, "cap": 2}, "src": "grid-effect-under-spatial", "steps": [
                {"act": "add_listener", "p": [0]}, {"act": "add_spatial", "p": [1, 0, 0, 0]}, {"act": "add_track", "p": [k, l, 2, 0, 0, 0, 2]},
                snd(2, 1, 1), {"act": "cb", "p": [3]}, {"act": "cb", "p": [2]}, {"act": "rate", "p": [2]}, {"act": "cb", "p": [3]}, {"act": "cb", "p": [1]}]})
    # E. start times "practically never": a sound, a resume of a sound and of a track delayed by Duration::MAX
    for prelude, act, c in (([snd(2, 1, 0)], "snd_cmd", 9), ([{"act": "add_track", "p": [0, 0, 2, 0, 0, 0, 0]}, snd(2, 1, 1)], "trk_cmd", 3)):
        out.append({"cfg": {"buf": 2, "rate": 1, "ch": 2, "cap": 2}, "src": "grid-never", "steps": prelude + [
            {"act": "cb", "p": [3]}, {"act": act, "p": [0, 0, 0]}, {"act": "cb", "p": [3]}, {"act": act, "p": [c, 5, 0]}, {"act": "cb", "p": [3]}, {"act": "cb", "p": [2]}]})
    out.append({"cfg": {"buf": 2, "rate": 1, "ch": 2, "cap": 2}, "src": "grid-never", "steps": [
        {"act": "add_static", "p": [4, 0, 0, 0, 2, 2, 1, 4, 0, 0, 0]}, {"act": "cb", "p": [3]}, {"act": "cb", "p": [2]}, {"act": "cb", "p": [3]}]})
    # C. every handle command x every level of its argument alphabet x two tween lengths, on an object through which audio is
    #    running (the random walk issues most commands to objects that are silent, finished or not yet picked up)
    def cmds(prelude, act, nc, nl):
        for c in range(nc):
            for l in range(nl):
                for d in (0, 2):
                    out.append({"cfg": {"buf": 2, "rate": 1, "ch": 2, "cap": 2}, "src": "grid-command", "steps": prelude + [
                        {"act": "cb", "p": [3]}, {"act": act, "p": [l, d] if act == "fx_cmd" else [c, l, d]}, {"act": "cb", "p": [3]}, {"act": "cb", "p": [2]}, {"act": "cb", "p": [3]}]})
    looped = {"act": "add_static", "p": [4, 0, 1, 0, 2, 2, 1, 0, 0, 0, 0]}
    cmds([snd(2, 1, 0)], "snd_cmd", 10, 6)
    cmds([looped], "snd_cmd", 10, 6)
    cmds([{"act": "add_stream", "p": [3, 1, 0, 0, 0, 2, 2, 1]}], "str_cmd", 10, 6)
    cmds([{"act": "add_track", "p": [0, 0, 2, 0, 0, 0, 0]}, snd(2, 1, 1)], "trk_cmd", 5, 6)
    cmds([{"act": "add_clock", "p": [1]}, {"act": "clk_cmd", "p": [0, 0, 0]}], "clk_cmd", 4, 4)
    for k in range(1, 9):
        cmds([{"act": "add_track", "p": [k, 1, 2, 0, 0, 0, 0]}, snd(2, 1, 1)], "fx_cmd", 1, 12)
    for ch in range(8):
        for vol in (1, 2, 3, 5):
            for pan in range(5):
                out.append({"cfg": {"buf": 3, "rate": 2, "ch": ch, "cap": 2}, "src": "grid-channels", "steps": [
                    snd(vol, pan, 0), {"act": "cb", "p": [3]}, {"act": "cb", "p": [2]}]})
    return out


def run(tier):
    res = Result(PROP, tier, "exploration")
    build_harness()
    # model-level part: the arena's panic sites
    from checks import c08
    for flav, selfref, merged in (("plain", False, False), ("selfref", True, True)):
        cfgp = write_cfg("C01_Arena_%s.cfg" % flav, c08.cfg_text(2, 3, selfref, 3, False, merged, 3, "VIEW View\nINVARIANTS NoPanic TypeOK"))
        st = tlc_check("MC_Arena.tla", cfgp, workers=8, timeout=1800, tag="c01mc")
        if st["violated"]:
            res.drift.append({"model": "Arena/" + flav, "violated": st["violated"]})
        res.add_mc("Arena/%s NoPanic" % flav, st)
    num = 400 if tier == "quick" else 20000
    scen = []
    for d, maxp in ((10, 7), (24, 7)):
        cfgp = write_cfg("Surface_%d.cfg" % d, "SPECIFICATION Spec\nCONSTANTS\n  D = %d\n  MaxP = %d\nCONSTRAINT Bound\nINVARIANT Dump\nCHECK_DEADLOCK FALSE\n" % (d, maxp))
        bs = tlc_generate("Surface.tla", cfgp, "sim", num=num, depth=d * 8 + 4, timeout=2400, tag="c01g")[:num]
        for x in bs:
            # epilogue of every history: two callbacks (everything is picked up), a device sample-rate change, two more callbacks
            scen.append({"cfg": x[0], "src": "tlc-sim", "steps": x[1:] + [{"act": "cb", "p": [2]}, {"act": "cb", "p": [3]},
                                                                         {"act": "rate", "p": [x[0]["rate"] + 1 + len(scen) % 2]}, {"act": "cb", "p": [2]}, {"act": "cb", "p": [4]}]})
    scen += grid()
    # the known finding D22 (callback time grows with the playback rate): one dedicated history, last (a hang ends the run)
    scen.append({"cfg": {"buf": 1, "rate": 0, "ch": 1, "cap": 2}, "src": "known-D22-fast-rate",
                 "steps": [{"act": "add_static", "p": [4, 0, 1, 0, 99, 2, 1, 0, 0, 2, 0]}, {"act": "cb", "p": [2]}, {"act": "cb", "p": [2]}]})
    sp, tp = os.path.join(OUT, "c01", "scen.ndjson"), os.path.join(OUT, "c01", "trace.ndjson")
    write_ndjson(sp, scen)
    run_kv("c01", sp, tp, timeout=3000)
    bad, _ = tlc_validate("T_C01.tla", os.path.join(SPEC, "T_C01.cfg"), tp, timeout=3000)
    judge(res, PROP, scen, tp, bad)
    trace = read_ndjson(tp)
    res.evaluations = sum(1 for e in trace if e["a"] == "cb")
    gp = [e for e in trace if e["a"] == "gpanic"]
    res.notes["gameplay_side_panics_recorded"] = len(gp)
    res.notes["gameplay_side_panic_samples"] = [{"act": e["act"], "p": e["p"], "msg": e["msg"][:120]} for e in gp[:5]]
    for sc in scen:
        if any(s["act"] not in ("cb",) for s in sc["steps"]):
            res.distinct.add(behaviour_hash([sc["cfg"], [(s["act"], tuple(s["p"])) for s in sc["steps"]]]))
    res.samples = [{"cfg": s["cfg"], "steps": [[x["act"], x["p"]] for x in s["steps"]][:12]} for s in scen[:2]]
    res.assumptions = ["boundary alphabet instead of all finite arguments", "monitors run on the harness's audio thread, not a device thread"]
    return res.finish("case = configuration x call history with boundary arguments (TLC simulation of Surface.tla); evaluations = monitored "
                      "callbacks; distinct by hash of configuration and calls; non-trivial = contains a call other than a callback")
